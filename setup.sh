#!/bin/sh
# Builds the harness offline so that the first check does not pay for compilation.
set -e
export GOFLAGS=-mod=mod GOPROXY=off GOSUMDB=off GOTOOLCHAIN=local GOWORK=off
cd /verif/harness
go build ./... 
go vet ./vlib >/dev/null 2>&1 || true
for d in c[0-9][0-9]; do
  [ -f "$d/check.json" ] || continue
  go test -c -vet=off -tags verif -o /dev/null "./$d" || echo "setup: cannot prebuild $d (the check will report it)"
done
echo setup ok
