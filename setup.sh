#!/bin/sh
# Builds the harness offline so that the first check does not pay for compilation.
# Only a failure to build the shared runtime is fatal; a property package that does not
# build is reported here and again (as INCONCLUSIVE) by its own check.
export GOFLAGS=-mod=mod GOPROXY=off GOSUMDB=off GOTOOLCHAIN=local GOWORK=off
cd /verif/harness || exit 1
go build -tags verif ./vlib ./gobatch/... ./progen || exit 1
for d in c[0-9][0-9]; do
  [ -f "$d/check.json" ] || continue
  race=""
  grep -q '"race": *true' "$d/check.json" && race="-race"
  go test -c -vet=off -tags verif $race -o /dev/null "./$d" >/dev/null 2>&1 || echo "setup: cannot prebuild $d (its check will report it)"
done
echo setup ok
