#!/usr/bin/env python3
"""apply_fix.py <patch> <FIXES.md> <line-number-of-'fix:'-line> <finding ids...>
Applies a fix patch to /repo, commits it with the message found in FIXES.md, marks findings fixed."""
import subprocess, sys
patch, fixes, lineno = sys.argv[1], sys.argv[2], int(sys.argv[3]); ids = sys.argv[4:]
lines = open(fixes).read().split('\n')
msg = [lines[lineno-1].strip().strip('`')]
for l in lines[lineno:]:
    if l.startswith('    ') or l.strip() == '':
        msg.append(l[4:] if l.startswith('    ') else '')
    else:
        break
while msg and msg[-1] == '': msg.pop()
assert msg[0].startswith('fix:'), msg[0]
r = subprocess.run(['git', '-C', '/repo', 'apply', '--3way', patch], capture_output=True, text=True)
if r.returncode != 0:
    print('APPLY FAILED', patch, r.stderr[-500:]); sys.exit(1)
subprocess.check_call(['git', '-C', '/repo', 'add', '-A'])
subprocess.check_call(['git', '-C', '/repo', 'commit', '-q', '-m', '\n'.join(msg)])
h = subprocess.check_output(['git', '-C', '/repo', 'rev-parse', '--short', 'HEAD'], text=True).strip()
for i in ids:
    subprocess.call(['/verif/tools/kf_fix.py', i, h])
print(h, msg[0])
