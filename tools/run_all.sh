#!/bin/bash
# run_all.sh [quick|thorough] [parallelism] [ids...]: runs the claimed checks against /repo,
# writes one line per check to /verif/replays/run_all.<tier>.<seed>.log (exit code, last status line).
TIER=${1:-quick}; PAR=${2:-3}; shift 2 2>/dev/null
IDS=${@:-$(cat /verif/tools/claimed.txt)}
SEED=${VERIF_SEED:-1}
OUT=/verif/replays/run_all.$TIER.$SEED.log
mkdir -p /verif/replays; : > $OUT
run1() {
  id=$1
  t0=$(date +%s)
  out=$(cd /verif && ./check $id $TIER 2>&1)
  rc=$?
  t1=$(date +%s)
  last=$(echo "$out" | grep -E "^(OK |VIOLATION|INCONCLUSIVE|KNOWN-FINDING)" | cut -c1-160 | tr '\n' ';')
  echo "$id rc=$rc $((t1-t0))s $last" >> $OUT
  [ $rc -ne 0 ] && echo "$out" | cut -c1-400 | tail -40 > /verif/replays/run_all.$id.$TIER.$SEED.fail
}
export -f run1; export TIER SEED OUT
echo $IDS | tr ' ' '\n' | xargs -P $PAR -I{} bash -c 'run1 {}'
sort $OUT
