#!/usr/bin/env python3
"""baseline.py <repo dir>: run the repository's own test suite (guard off) and report
which of BASELINE.json's stable_pass tests no longer pass. exit 0 iff none."""
import json, os, subprocess, sys
repo = sys.argv[1] if len(sys.argv) > 1 else "/repo"
base = json.load(open("/root/.vp/BASELINE.json"))
want = set(base["stable_pass"])
env = dict(os.environ, GOFLAGS="-mod=mod", GOPROXY="off", GOSUMDB="off", GOTOOLCHAIN="local")
p = subprocess.run(["go", "test", "-json", "-vet=off", "-count=1", "-timeout", "25m", "./..."],
                   cwd=repo, env=env, stdout=subprocess.PIPE, stderr=subprocess.DEVNULL, text=True)
passed = set()
for line in p.stdout.splitlines():
    try:
        ev = json.loads(line)
    except Exception:
        continue
    if ev.get("Action") == "pass" and ev.get("Test"):
        passed.add("%s::%s" % (ev["Package"], ev["Test"]))
missing = sorted(want - passed)
print("stable_pass=%d passed_now=%d missing=%d" % (len(want), len(want & passed), len(missing)))
for m in missing[:40]:
    print("  NOT PASSING:", m)
sys.exit(1 if missing else 0)
