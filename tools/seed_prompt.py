#!/usr/bin/env python3
"""seed_prompt.py CNN: creates the scratch worktree /tmp/seed-CNN and prints the prompt for a fresh seeding sub-agent."""
import json, os, subprocess, sys
pid = sys.argv[1]
rnd = sys.argv[2] if len(sys.argv) > 2 else ""
prop = None
for line in open('/verif/properties.jsonl'):
    p = json.loads(line)
    if p['id'] == pid: prop = p
wt = '/tmp/seed%s-%s' % (rnd, pid)
out = '/tmp/seed%s-%s-out' % (rnd, pid)
if not os.path.exists(wt):
    subprocess.check_call(['git', '-C', '/repo', 'worktree', 'add', '--detach', '-q', wt, 'HEAD'])
os.makedirs(out, exist_ok=True)
avoid = ""
if rnd:
    try:
        m = json.load(open('/verif/seeded/%s/meta.json' % pid))
        avoid = "\nAn earlier attempt already did the following, so choose a DIFFERENT mechanism, in a different function and preferably a different file, exercising a different part of the property: " + m.get('breaks', '')[:600] + "\n"
    except Exception:
        pass
print(f"""You are testing how sensitive a verification effort is. Work ONLY inside the git worktree {wt} (a checkout of the Go project github.com/cosmos72/gomacro: a Go interpreter in pure Go, with REPL, debugger, macros) and the output directory {out}. Do NOT read or write anything under /verif or /repo, and do not look for other people's test harnesses: your work must be independent.

The following property is supposed to hold for gomacro:

  Title: {prop['title']}
  Statement: {prop['statement']}
  Quantified over: {prop['quantifier']['text']}

{avoid}
Your task: make a change to gomacro's non-test source that BREAKS this property, while
 (a) the project still compiles (`go build ./...`), and
 (b) the existing test suite passes exactly as before: `python3 /tmp/seedtools/baseline.py {wt}` must print missing=0 (it runs `go test ./...` and compares with the list of 947 tests known to pass; a few other tests fail already on the unchanged tree, that is expected).
The change must be realistic - the kind of defect a maintainer could introduce: an off-by-one, a dropped case, a wrong branch, a missing reset or restore, swapped arguments, a stale cache, two sites that each look fine alone - and it must need something SPECIFIC to manifest: a particular interleaving, a fault at a particular point, a multi-step sequence of operations, an unusual input or value, a particular combination of kinds/shapes, or two cooperating sites. NOT something that ordinary use would expose at once (do not break every addition or every parse). Read the relevant gomacro code first and pick a subtle spot.

Provide a demonstration: a Go test (a new *_test.go file in an appropriate package of the worktree, e.g. seed_demo_test.go) or a small program that FAILS with your change and PASSES without it. Verify both directions yourself: save your change with `git -C {wt} diff -- . ':(exclude)*_test.go' > {out}/patch.diff`, revert the source files with `git -C {wt} checkout -- <files>` (do NOT use git stash: the stash is shared with other worktrees), run the demo (must pass), re-apply with `git -C {wt} apply {out}/patch.diff`, run the demo (must fail), run the baseline script (missing=0).

Deliver in {out}/: patch.diff (non-test source changes only), the demo file(s) (copy them there too), and meta.json with keys: property ("{pid}"), summary (what the change is), needs (what it needs in order to manifest), demo_cmd (exact command to run the demo from the worktree root), ran (the commands you ran and their outcomes). Leave the change APPLIED in the worktree when you finish.

Every shell call needs: export GOFLAGS=-mod=mod GOPROXY=off GOSUMDB=off GOTOOLCHAIN=local (no network). The machine is heavily loaded: allow 10 minutes for `go test` of the root package, use explicit long timeouts. Budget: about 45 minutes. Final answer: at most 6 lines (what you changed, where, what triggers it, verification results).""")
