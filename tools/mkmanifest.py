#!/usr/bin/env python3
"""Regenerates /verif/MANIFEST.json from harness/*/check.json (claimed checks) and
tools/not_applicable.json (properties not claimed, with reasons)."""
import glob, json, os, subprocess
V = "/verif"
checks = []
allow = None
if os.path.exists(V + "/tools/claimed.txt"):
    allow = set(open(V + "/tools/claimed.txt").read().split())
for fp in sorted(glob.glob(V + "/harness/c[0-9][0-9]/check.json")):
    c = json.load(open(fp))
    if c.get("disabled"):
        continue
    if allow is not None and c["property_id"] not in allow:
        continue
    pid = c["property_id"]
    checks.append({
        "property_id": pid,
        "quick_cmd": "./check %s quick" % pid,
        "thorough_cmd": "./check %s thorough" % pid,
        "evidence_file": "/verif/evidence/%s.json" % pid,
        "replay_cmd_template": "./check %s --replay {path}" % pid,
        "engine": c.get("engine", "rapid + vlib"),
        "level_claimed": {"category": c.get("level", "exploration"), "text": c["level_text"],
                          "design_ref": c.get("design_ref", "DESIGN.md section 4, " + pid)},
        "level_note": c["level_note"],
        "technique": c["technique"],
    })
claimed = {c["property_id"] for c in checks}
na = []
nafile = V + "/tools/not_applicable.json"
reasons = json.load(open(nafile)) if os.path.exists(nafile) else {}
for line in open(V + "/properties.jsonl"):
    pid = json.loads(line)["id"]
    if pid not in claimed:
        na.append({"property_id": pid, "reason": reasons.get(pid, "no check built yet in this session (planned in DESIGN.md section 4); not claimed")})
hooks_commits = []
hf = V + "/tools/hook_commits.txt"
if os.path.exists(hf):
    hooks_commits = [l.split()[0] for l in open(hf) if l.strip()]
m = {
    "version": 1,
    "setup_cmd": "./setup.sh",
    "hooks": {
        "guard": "verif",
        "enable": "go build tag: every check builds its test binary with `go test -c -tags verif` against /repo (replace directive)",
        "baseline_off_cmd": "cd /repo && GOFLAGS=-mod=mod GOPROXY=off GOSUMDB=off GOTOOLCHAIN=local go test -vet=off -count=1 -timeout 25m ./...",
        "source_commits": hooks_commits,
        "add_only": True,
    },
    "engines": [
        {"name": "vcheck", "path": "tools/vcheck.py", "serves_properties": sorted(claimed),
         "kind_free_text": "driver: builds the property's rapid test binary against /repo, runs seed-derived shards in parallel, merges evidence, prints VIOLATION/KNOWN-FINDING"},
        {"name": "vlib", "path": "harness/vlib", "serves_properties": sorted(claimed),
         "kind_free_text": "Go runtime shared by the checks: seeds, counters, known findings, replays"},
    ],
    "checks": checks,
    "notes": "All checks are property-based tests / fuzzers (pgregory.net/rapid v1.3.0, native go fuzz in thorough tiers). exit 0 held, 1 VIOLATION, 2 inconclusive. VERIF_SEED selects the rapid seeds; VERIF_REPO (default /repo) selects the tree under test.",
    "not_applicable": na,
}
json.dump(m, open(V + "/MANIFEST.json", "w"), indent=1)
print("claimed:", len(checks), "not claimed:", len(na))
