#!/usr/bin/env python3
"""kf_fix.py <finding id> <commit>: mark a known finding as fixed by <commit>."""
import fcntl, json, sys
P = '/verif/known_findings.json'
with open(P + ".lock", "w") as lk:
    fcntl.flock(lk, fcntl.LOCK_EX)
    d = json.load(open(P))
    hit = False
    for e in d:
        if e['id'] == sys.argv[1]:
            hit = True
            e['commit'] = sys.argv[2]; e['status'] = 'fixed'
            if not e['description'].startswith('fixed:'):
                e['description'] = 'fixed: property=%s %s %s' % (e['property'], sys.argv[2], e['description'])
    json.dump(d, open(P, 'w'), indent=1, ensure_ascii=False)
print("ok" if hit else "NOT FOUND", sys.argv[1])
