#!/bin/bash
# seed_recheck_all.sh [parallelism]: re-run every seeded change against the final /repo HEAD
PAR=${1:-3}
ls /verif/seeded | xargs -P $PAR -I{} bash -c '/verif/tools/seed_recheck.sh {} > /tmp/reseed-{}.out 2>&1'
/verif/tools/seed_meta.py
