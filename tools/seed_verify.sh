#!/bin/bash
# seed_verify.sh CNN [check ids...]: confirm a seeded breaking change delivered in /tmp/seed-CNN(-out)
# and run the named checks (default: CNN) against it. Stores the result in /verif/seeded/CNN/.
set -u
export GOFLAGS=-mod=mod GOPROXY=off GOSUMDB=off GOTOOLCHAIN=local
P=$1; shift
CHECKS=${@:-$P}
SUF=${SEED_ROUND:-}
WT=/tmp/seed$SUF-$P; OUT=/tmp/seed$SUF-$P-out; DST=/verif/seeded/$P${SUF:+-b}
[ -f $OUT/patch.diff ] || { echo "no patch.diff"; exit 2; }
mkdir -p $DST
cp $OUT/patch.diff $DST/patch.diff
cp $OUT/meta.json $DST/meta.agent.json 2>/dev/null
for f in $OUT/*; do case "$f" in *patch.diff|*meta.json) ;; *) cp -r "$f" $DST/ ;; esac; done
LOG=$DST/verify.log; : > $LOG
echo "== build" | tee -a $LOG
(cd $WT && go build ./... ) >> $LOG 2>&1 && echo "build ok" | tee -a $LOG || { echo "BUILD FAILS" | tee -a $LOG; exit 1; }
echo "== baseline with change" | tee -a $LOG
python3 /verif/tools/baseline.py $WT 2>&1 | tee -a $LOG | tail -3
DEMO=$(python3 -c "import json;print(json.load(open('$OUT/meta.json')).get('demo_cmd',''))" 2>/dev/null)
echo "== demo with change: $DEMO" | tee -a $LOG
(cd $WT && timeout 1800 bash -c "$DEMO") >> $LOG 2>&1; echo "demo rc with change: $?" | tee -a $LOG
echo "== demo without change" | tee -a $LOG
(cd $WT && git apply -R $OUT/patch.diff && timeout 1800 bash -c "$DEMO") >> $LOG 2>&1; echo "demo rc without change: $?" | tee -a $LOG
(cd $WT && git apply $OUT/patch.diff) >> $LOG 2>&1 || echo "REAPPLY FAILED" | tee -a $LOG
[ -n "${SKIP_CHECKS:-}" ] && CHECKS=""
for c in $CHECKS; do
  echo "== check $c quick against the change" | tee -a $LOG
  (cd /verif && VERIF_REPO=$WT ./check $c quick 2>&1 | cut -c1-300 | grep -a -E "^(VIOLATION|OK |INCONCLUSIVE|violation detail)" | sort -r | head -8) | tee -a $LOG
done
