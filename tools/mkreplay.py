#!/usr/bin/env python3
"""mkreplay.py <entry> <out.go> [--imports a,b] [--one-eval] [--interp classic] < source
Builds a gobatch replay file from Go source on stdin: top-level declarations are
separated by a line containing only '//--'."""
import json, sys
entry, out = sys.argv[1], sys.argv[2]
imports, one, interp = [], False, ""
a = sys.argv[3:]
while a:
    if a[0] == "--imports": imports = a[1].split(","); a = a[2:]
    elif a[0] == "--one-eval": one = True; a = a[1:]
    elif a[0] == "--interp": interp = a[1]; a = a[2:]
    else: raise SystemExit("bad arg " + a[0])
decls = [d.strip("\n") for d in sys.stdin.read().split("\n//--\n") if d.strip()]
p = {"decls": decls, "entry": entry}
if imports: p["imports"] = imports
if one: p["one_eval"] = True
if interp: p["interp"] = interp
src = "package p\n\nimport \"verif/rec\"\n" + "".join('import "%s"\n' % i for i in imports) + "\nvar _ = rec.E\n" + "".join("\n" + d + "\n" for d in decls)
open(out, "w").write("//gobatch:" + json.dumps(p) + "\n" + src)
print("wrote", out)
