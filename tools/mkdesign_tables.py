#!/usr/bin/env python3
"""Rewrites the generated tables of DESIGN.md section 13 (between the GENERATED markers)
from known_findings.json, seeded/*/meta.json and harness/*/check.json."""
import glob, json, os, re
V = '/verif'
kf = json.load(open(V + '/known_findings.json'))
out = []
out.append('### 13.1 Genuine defects found by the checks\n')
out.append('`fixed` = repaired in /repo by the named `fix:` commit (the replay is a regression input: the check reports it as a VIOLATION if it ever fails again); `known` = listed in known_findings.json, excluded by construction and counted, reported as `KNOWN-FINDING` while its replay still fails.\n')
out.append('| id | status | commit | replay (under /verif) | what fails |')
out.append('|---|---|---|---|---|')
for e in sorted(kf, key=lambda e: (e['property'], int(re.sub(r'\D', '', e['id'].split('-')[-1]) or 0))):
    d = e['description']
    d = re.sub(r'^(fixed|known)( \(fix proposed[^)]*\))?: property=\S+ (\S+ )?', '', d) if d.startswith(('fixed:', 'known')) else d
    d = d.replace('|', '\\|').replace('\n', ' ')
    if len(d) > 330: d = d[:327] + '...'
    out.append('| %s | %s | %s | %s | %s |' % (e['id'], e['status'], e.get('commit', ''), e['replay'], d))
nf = sum(1 for e in kf if e['status'] == 'fixed'); nk = sum(1 for e in kf if e['status'] == 'known')
out.append('\n%d findings: %d fixed by `fix:` commits, %d known.\n' % (len(kf), nf, nk))
out.append('### 13.2 Seeded changes (from fresh sub-agents given only the property text) and the checks that catch them\n')
out.append('Each change compiles, passes the 947 stable tests of the repository, and comes with a demonstration that fails with it and passes without it (all three confirmed by the lead with tools/seed_verify.sh; files under /verif/seeded/<id>/).\n')
out.append('| property | seeded change | needs, to manifest | result of `./check <id> quick` against it |')
out.append('|---|---|---|---|')
for d in sorted(glob.glob(V + '/seeded/C*')):
    mp = d + '/meta.json'
    if not os.path.exists(mp): continue
    m = json.load(open(mp))
    def cl(s, n):
        s = str(s).replace('|', '\\|').replace('\n', ' ')
        return s if len(s) <= n else s[:n-3] + '...'
    res = '; '.join('%s: %s' % (k, re.sub(r' replay=\S+', '', v).replace('VIOLATION property=' + k, 'VIOLATION')) for k, v in m.get('checks_run_against_it', {}).items())
    out.append('| %s | %s | %s | %s |' % (os.path.basename(d), cl(m.get('breaks', ''), 300), cl(m.get('needs_to_manifest', ''), 260), cl(res, 200)))
text = '\n'.join(out) + '\n'
text = re.sub(r'[\x00-\x08\x0b-\x1f]', ' ', text)
p = V + '/DESIGN.md'
s = open(p).read()
b, e = '<!-- BEGIN GENERATED section 13 -->', '<!-- END GENERATED section 13 -->'
if b in s:
    s = s[:s.index(b) + len(b)] + '\n' + text + s[s.index(e):]
else:
    s = s.rstrip('\n') + '\n\n\n## 13. Findings, and which checks catch which seeded changes\n\n' + b + '\n' + text + e + '\n'
open(p, 'w').write(s)
print('findings', len(kf), 'fixed', nf, 'known', nk)
