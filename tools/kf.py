#!/usr/bin/env python3
"""kf.py add <PROP> <ID> <known|fixed> <replay path relative to /verif> <description> [commit]
kf.py list
Adds or updates one entry of /verif/known_findings.json under a file lock."""
import fcntl, json, sys
P = "/verif/known_findings.json"
def main():
    if len(sys.argv) >= 2 and sys.argv[1] == "list":
        for e in json.load(open(P)):
            print(e["property"], e["id"], e["status"], e.get("commit", ""), e["replay"])
        return
    if len(sys.argv) < 7 or sys.argv[1] != "add":
        print(__doc__); sys.exit(2)
    prop, fid, status, replay, desc = sys.argv[2:7]
    commit = sys.argv[7] if len(sys.argv) > 7 else ""
    assert status in ("known", "fixed")
    with open(P + ".lock", "w") as lk:
        fcntl.flock(lk, fcntl.LOCK_EX)
        data = json.load(open(P))
        data = [e for e in data if e["id"] != fid]
        e = {"property": prop, "id": fid, "status": status, "replay": replay, "description": desc}
        if commit:
            e["commit"] = commit
        data.append(e)
        data.sort(key=lambda e: (e["property"], e["id"]))
        json.dump(data, open(P, "w"), indent=1, ensure_ascii=False)
    print("ok", fid)
main()
