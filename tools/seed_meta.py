#!/usr/bin/env python3
"""seed_meta.py: (re)writes /verif/seeded/<id>/meta.json from meta.agent.json and verify.log."""
import glob, json, os, re
for d in sorted(glob.glob('/verif/seeded/C*')):
    pid = os.path.basename(d).split('-')[0]
    log = open(d + '/verify.log', errors='replace').read() if os.path.exists(d + '/verify.log') else ''
    agent = {}
    try: agent = json.load(open(d + '/meta.agent.json'))
    except Exception: pass
    runs = []  # (check, outcome) in order
    cur = None
    for line in log.splitlines():
        m = re.match(r'== check (\S+) quick', line)
        if m:
            cur = [m.group(1), 'no result', 're-run' in line]; runs.append(cur)
        elif cur and line.startswith('VIOLATION'): cur[1] = 'caught: ' + line.strip()
        elif cur and line.startswith('violation detail') and not cur[1].startswith('caught'): cur[1] = 'caught: ' + line.strip()[:200]
        elif cur and line.startswith('OK') and not cur[1].startswith('caught'): cur[1] = 'MISSED: ' + line.strip()
        elif cur and line.startswith('INCONCLUSIVE') and not cur[1].startswith('caught'): cur[1] = 'inconclusive: ' + line.strip()
    checks = {}
    first = {}
    missed_once = set()
    for name, outcome, rerun in runs:
        cls = outcome.split(':')[0]
        if name not in first:
            first[name] = cls
        if outcome == 'no result' and name in checks:
            continue
        if cls == 'MISSED':
            missed_once.add(name)
        if name in missed_once and cls == 'caught':
            checks[name] = 'first run MISSED; after the check was strengthened: ' + outcome
        else:
            checks[name] = outcome + (' (re-run on the final /repo HEAD)' if rerun else '')
    def grab(pat):
        m = re.search(pat, log); return m.group(1) if m else None
    meta = {
        "property": pid,
        "breaks": agent.get("summary", ""),
        "needs_to_manifest": agent.get("needs", ""),
        "demo_cmd": agent.get("demo_cmd", ""),
        "confirmed_by_lead": {
            "builds": "build ok" in log,
            "baseline_with_change": grab(r'(stable_pass=\d+ passed_now=\d+ missing=\d+)'),
            "demo_exit_code_with_change": grab(r'demo rc with change: (\d+)'),
            "demo_exit_code_without_change": grab(r'demo rc without change: (\d+)'),
            "how": "tools/seed_verify.sh %s: go build, tools/baseline.py, the demo with and without patch.diff in a scratch worktree, then VERIF_REPO=<worktree> ./check <id> quick" % pid,
        },
        "checks_run_against_it": checks,
        "origin": "fresh sub-agent given only the property text and a scratch worktree",
    }
    if os.path.exists(d + '/note.txt'):
        meta["note"] = open(d + '/note.txt').read().strip()
    json.dump(meta, open(d + '/meta.json', 'w'), indent=1, ensure_ascii=False)
    print(pid, checks)
