#!/bin/bash
# seed_recheck.sh CNN [check ids...]: re-run checks against an already confirmed seeded change
# (/verif/seeded/CNN/patch.diff applied to a fresh scratch worktree of /repo HEAD).
export GOFLAGS=-mod=mod GOPROXY=off GOSUMDB=off GOTOOLCHAIN=local
P=$1; shift; CHECKS=${@:-${P%%-*}}
WT=/tmp/reseed-$P; DST=/verif/seeded/$P; LOG=$DST/verify.log
git -C /repo worktree remove --force $WT 2>/dev/null
git -C /repo worktree add --detach -q $WT HEAD || exit 2
if ! git -C $WT apply $DST/patch.diff 2>>$LOG; then echo "patch does not apply on current HEAD" | tee -a $LOG; git -C /repo worktree remove --force $WT; exit 2; fi
(cd $WT && go build ./...) >> $LOG 2>&1 || { echo "BUILD FAILS on current HEAD" | tee -a $LOG; git -C /repo worktree remove --force $WT; exit 2; }
for c in $CHECKS; do
  echo "== check $c quick against the change (re-run on /repo HEAD $(git -C /repo rev-parse --short HEAD) after strengthening the check)" | tee -a $LOG
  (cd /verif && VERIF_REPO=$WT ./check $c quick 2>&1 | cut -c1-300 | grep -a -E "^(VIOLATION|OK |INCONCLUSIVE|violation detail)" | sort -r | head -6) | tee -a $LOG
done
git -C /repo worktree remove --force $WT
