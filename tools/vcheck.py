#!/usr/bin/env python3
"""Driver: ./check <ID> [quick|thorough] [--replay path]

Builds the property's test binary from /repo's current working tree (tag verif),
runs it in parallel shards, merges the shard fragments into
/verif/evidence/<ID>.json, prints VIOLATION / KNOWN-FINDING lines.
exit 0 held, 1 violation, 2 inconclusive (infrastructure)."""
import hashlib
import json
import os
import shutil
import subprocess
import sys
import tempfile
import time

VERIF = "/verif"
HARNESS = os.path.join(VERIF, "harness")


def die(msg, code=2):
    print("INCONCLUSIVE: " + msg, flush=True)
    sys.exit(code)


def main():
    args = sys.argv[1:]
    if not args:
        die("usage: check <ID> [quick|thorough] [--replay path]")
    pid = args[0].upper()
    tier = os.environ.get("VERIF_TIER", "quick")
    replay = None
    i = 1
    while i < len(args):
        if args[i] in ("quick", "thorough"):
            tier = args[i]
        elif args[i] == "--replay":
            i += 1
            replay = os.path.abspath(args[i])
        else:
            die("bad argument " + args[i])
        i += 1
    if tier not in ("quick", "thorough"):
        tier = "quick"
    try:
        seed = int(os.environ.get("VERIF_SEED", "1") or "1")
    except ValueError:
        seed = 1
    pkgdir = os.path.join(HARNESS, pid.lower())
    cfgpath = os.path.join(pkgdir, "check.json")
    if not os.path.exists(cfgpath):
        die("no check for property " + pid)
    cfg = json.load(open(cfgpath))
    repo = os.environ.get("VERIF_REPO", "/repo")
    t0 = time.time()

    env = dict(os.environ)
    env.update({"GOFLAGS": "-mod=mod", "GOPROXY": "off", "GOSUMDB": "off",
                "GOTOOLCHAIN": "local", "GOWORK": "off"})
    scratch = tempfile.mkdtemp(prefix="vcheck-%s-" % pid.lower())
    try:
        code = run(pid, tier, seed, replay, cfg, repo, env, scratch, t0)
    finally:
        shutil.rmtree(scratch, ignore_errors=True)
    sys.exit(code)


def run(pid, tier, seed, replay, cfg, repo, env, scratch, t0):
    # module file pointing at the repository under test
    gomod = open(os.path.join(HARNESS, "go.mod")).read()
    gomod = gomod.replace("=> /repo", "=> " + repo)
    # (kept in its own directory: the shards' working directories must not lie inside a
    # module, or every `go list` run by go/importer from there resolves that module first)
    os.makedirs(os.path.join(scratch, "mod"))
    modfile = os.path.join(scratch, "mod", "go.mod")
    open(modfile, "w").write(gomod)
    shutil.copy(os.path.join(HARNESS, "go.sum"), os.path.join(scratch, "mod", "go.sum"))

    # optional generator step run before the build (e.g. reference file derived from table keys)
    if cfg.get("pre_cmd"):
        pe = dict(env)
        pe.update({"VERIF_REPO": repo, "VERIF_MODFILE": modfile, "VERIF_SCRATCH": scratch, "VERIF_TIER": tier})
        argv = [a.replace("{modfile}", modfile).replace("{scratch}", scratch).replace("{repo}", repo) for a in cfg["pre_cmd"]]
        p = subprocess.run(argv, cwd=HARNESS, env=pe, stdout=subprocess.PIPE, stderr=subprocess.STDOUT, text=True)
        if p.returncode != 0:
            print(p.stdout[-4000:])
            die("pre_cmd failed")

    binpath = os.path.join(scratch, "t.test")
    tags = "verif"
    if cfg.get("tags"):
        tags += "," + cfg["tags"]
    cmd = ["go", "test", "-c", "-vet=off", "-modfile=" + modfile, "-tags", tags, "-o", binpath]
    if cfg.get("race"):
        cmd.append("-race")
    cmd.append(cfg.get("pkg", "./" + pid.lower()))
    p = subprocess.run(cmd, cwd=HARNESS, env=env, stdout=subprocess.PIPE, stderr=subprocess.STDOUT, text=True)
    if p.returncode != 0:
        print(p.stdout)
        die("cannot build the check against %s (compile error in harness or repository)" % repo)

    nshards = 1 if replay else int(cfg.get("shards", {}).get(tier, 1))
    timeout = int(cfg.get("timeout_s", {}).get(tier, 600))
    procs = []
    for s in range(nshards):
        sdir = os.path.join(scratch, "shard-%d" % s)
        os.makedirs(sdir)
        e = dict(env)
        e.update({"VERIF_TIER": tier, "VERIF_SEED": str(seed), "VERIF_SHARD": str(s),
                  "VERIF_NSHARDS": str(nshards), "VERIF_OUT": scratch, "VERIF_REPO": repo,
                  "VERIF_SCRATCH": sdir})
        for k, v in (cfg.get("env") or {}).items():
            e[k] = v.replace("{shard_dir}", sdir)
        if replay:
            e["VERIF_REPLAY"] = replay
        else:
            e.pop("VERIF_REPLAY", None)
        log = open(os.path.join(scratch, "log-%d.txt" % s), "w")
        argv = [binpath, "-test.timeout", "%ds" % timeout, "-test.count=1"]
        if cfg.get("test_v"):
            argv.append("-test.v")
        pr = subprocess.Popen(argv, cwd=sdir, env=e, stdout=log, stderr=subprocess.STDOUT)
        procs.append((s, pr, log))
    rcs = {}
    deadline = time.time() + timeout + 60
    for s, pr, log in procs:
        try:
            rcs[s] = pr.wait(timeout=max(1, deadline - time.time()))
        except subprocess.TimeoutExpired:
            pr.kill()
            rcs[s] = -9
        log.close()

    # merge fragments
    frags = []
    for s in range(nshards):
        fp = os.path.join(scratch, "frag-%d.json" % s)
        if os.path.exists(fp):
            try:
                frags.append(json.load(open(fp)))
            except Exception as ex:  # truncated
                print("bad fragment %s: %s" % (fp, ex))
    evaluations = sum(f.get("evaluations", 0) for f in frags)
    nt = set()
    labels, excluded, known_hits = {}, {}, {}
    samples, notes, assumptions, violations = [], [], [], []
    rule = ""
    exhaustive = None
    extra = {}
    for f in frags:
        nt.update(f.get("nt") or [])
        for k, v in (f.get("labels") or {}).items():
            labels[k] = labels.get(k, 0) + v
        for k, v in (f.get("excluded") or {}).items():
            excluded[k] = excluded.get(k, 0) + v
        known_hits.update(f.get("known_hits") or {})
        for smp in (f.get("samples") or []):
            if len(samples) < 12:
                samples.append(smp)
        for n in (f.get("notes") or []):
            if n not in notes:
                notes.append(n)
        for a in (f.get("assumptions") or []):
            if a not in assumptions:
                assumptions.append(a)
        violations.extend(f.get("violations") or [])
        rule = f.get("rule") or rule
        if f.get("exhaustive") is not None:
            exhaustive = f["exhaustive"] if exhaustive is None else (exhaustive and f["exhaustive"])
        for k, v in (f.get("extra") or {}).items():
            if isinstance(v, (int, float)) and isinstance(extra.get(k, 0), (int, float)):
                extra[k] = extra.get(k, 0) + v
            else:
                extra[k] = v

    incomplete = [s for s in range(nshards)
                  if not any(f.get("shard") == s and f.get("complete") for f in frags)]
    failed = [s for s, rc in rcs.items() if rc != 0]

    # persist replay files of violations
    out_lines = []
    seen = set()
    keys_seen = set()
    for v in violations:
        if v.get("key") in keys_seen:
            continue
        keys_seen.add(v.get("key"))
        src = v.get("replay", "")
        data = b""
        if src and os.path.exists(src):
            data = open(src, "rb").read()
        h = hashlib.sha1(data + v.get("key", "").encode()).hexdigest()[:12]
        ext = os.path.splitext(src)[1] or ".txt"
        ddir = os.path.join(VERIF, "replays", pid)
        os.makedirs(ddir, exist_ok=True)
        dst = os.path.join(ddir, h + ext)
        if dst in seen:
            continue
        seen.add(dst)
        open(dst, "wb").write(data)
        out_lines.append("VIOLATION property=%s replay=%s" % (pid, dst))
        print("violation detail (%s): %s" % (v.get("key", ""), v.get("msg", "")))

    for kid in sorted(known_hits):
        print("KNOWN-FINDING: property=%s %s: %s" % (pid, kid, known_hits[kid]))

    wall = time.time() - t0
    coverage = {
        "evaluations": int(evaluations),
        "distinct_nontrivial": len(nt),
        "rule": rule,
        "samples": samples,
        "labels": dict(sorted(labels.items())),
        "excluded_known_findings": excluded,
        "known_findings_reproduced": sorted(known_hits),
        "shards": nshards,
        "shards_completed": nshards - len(incomplete),
        "notes": notes,
    }
    if exhaustive is not None:
        coverage["exhaustive"] = bool(exhaustive) and not incomplete
    for k, v in extra.items():
        coverage.setdefault(k, v)
    evidence = {
        "property_id": pid,
        "tier": tier,
        "seed": seed,
        "level": cfg.get("level", "exploration"),
        "coverage": coverage,
        "assumptions": assumptions + [
            "oracle and harness are compiled by gc %s with godebug default=go1.18 (the settings of gomacro's own go.mod)" % go_version(env),
            "repository under test: %s working tree, built with -tags verif" % repo],
        "wall_s": round(wall, 2),
        "violations": len(out_lines),
    }
    if not replay:
        # evidence describes /repo; runs against another tree (mutation tests) are kept apart
        edir = os.path.join(VERIF, "evidence") if repo == "/repo" else os.path.join(VERIF, "replays", "evidence-other-tree")
        os.makedirs(edir, exist_ok=True)
        tmp = os.path.join(edir, pid + ".json.tmp")
        json.dump(evidence, open(tmp, "w"), indent=1, ensure_ascii=False)
        os.replace(tmp, os.path.join(edir, pid + ".json"))

    if out_lines:
        for s in failed[:2]:
            tail(scratch, s)
        for l in out_lines:
            print(l)
        return 1
    if failed or incomplete:
        for s in (failed or incomplete)[:3]:
            tail(scratch, s)
        print("INCONCLUSIVE: property=%s shards failed=%s incomplete=%s without a recorded violation "
              "(harness error, timeout or resource limit)" % (pid, failed, incomplete))
        return 2
    print("OK property=%s tier=%s seed=%d evaluations=%d distinct_nontrivial=%d wall=%.1fs" %
          (pid, tier, seed, evaluations, len(nt), wall))
    return 0


def tail(scratch, s, n=60):
    fp = os.path.join(scratch, "log-%d.txt" % s)
    if os.path.exists(fp):
        lines = [l for l in open(fp, errors="replace").read().splitlines() if "[rapid] draw" not in l]
        print("---- shard %d log (last %d lines) ----" % (s, n))
        print("\n".join(lines[-n:]))


_gv = None


def go_version(env):
    global _gv
    if _gv is None:
        try:
            _gv = subprocess.run(["go", "env", "GOVERSION"], env=env, stdout=subprocess.PIPE, text=True).stdout.strip()
        except Exception:
            _gv = "?"
    return _gv


if __name__ == "__main__":
    main()
