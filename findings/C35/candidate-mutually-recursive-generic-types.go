//gobatch:{"decls": ["type GA#[T] struct { B *GB#[T]; V T }", "type GB#[T] struct { A *GA#[T]; W []T }", "func Entry() {\n\tvar a GA#[int]\n\tx := &GB#[int]{&a, []int{1}}\n\ta.B = x\n\trec.E(1, a.B.W, x.A.V)\n}"], "entry": "Entry", "meta": {"spec": "type GA_i1 struct { B *GB_i1; V int }\n//--\ntype GB_i1 struct { A *GA_i1; W []int }\n//--\nfunc Entry() {\n\tvar a GA_i1\n\tx := &GB_i1{&a, []int{1}}\n\ta.B = x\n\trec.E(1, a.B.W, x.A.V)\n}"}}
package p

import "verif/rec"

var _ = rec.E

type GA#[T] struct { B *GB#[T]; V T }

type GB#[T] struct { A *GA#[T]; W []T }

func Entry() {
	var a GA#[int]
	x := &GB#[int]{&a, []int{1}}
	a.B = x
	rec.E(1, a.B.W, x.A.V)
}
