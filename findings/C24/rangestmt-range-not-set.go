#verif-strict F-C24-1
package p

func f(x []int) {
	for i := range x {
		_ = i
	}
}
