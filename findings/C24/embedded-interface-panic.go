#verif-strict F-C24-2
package p

type I interface {
	J
}
