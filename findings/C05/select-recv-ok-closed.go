//gobatch:{"decls": ["func X_main() {\n\tch := make(chan int, 2)\n\tch <- 7\n\tclose(ch)\n\tselect {\n\tcase x, ok := <-ch:\n\t\trec.E(1, x, ok)\n\t}\n\tselect {\n\tcase x, ok := <-ch:\n\t\trec.E(2, x, ok)\n\t}\n\tvar y int\n\tvar ok2 bool\n\tselect {\n\tcase y, ok2 = <-ch:\n\t\trec.E(3, y, ok2)\n\t}\n}"], "entry": "X_main"}
package p

import "verif/rec"

var _ = rec.E

func X_main() {
	ch := make(chan int, 2)
	ch <- 7
	close(ch)
	select {
	case x, ok := <-ch:
		rec.E(1, x, ok)
	}
	select {
	case x, ok := <-ch:
		rec.E(2, x, ok)
	}
	var y int
	var ok2 bool
	select {
	case y, ok2 = <-ch:
		rec.E(3, y, ok2)
	}
}
