//gobatch:{"decls": ["func X_main() {\n\tg := 0\nG:\n\trec.E(1, g)\n\t{\n\t\tt := g\n\t\t_ = t\n\t\tif g < 3 {\n\t\t\tg++\n\t\t\trec.E(2)\n\t\t\tgoto G\n\t\t}\n\t}\n\trec.E(3, g)\n}"], "entry": "X_main"}
package p

import "verif/rec"

var _ = rec.E

func X_main() {
	g := 0
G:
	rec.E(1, g)
	{
		t := g
		_ = t
		if g < 3 {
			g++
			rec.E(2)
			goto G
		}
	}
	rec.E(3, g)
}
