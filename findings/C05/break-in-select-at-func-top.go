//gobatch:{"decls": ["func X_f(a int) int {\n\tselect {\n\tdefault:\n\t\trec.E(1, a)\n\t\tif a > 0 {\n\t\t\trec.E(2)\n\t\t\tbreak\n\t\t}\n\t\trec.E(3)\n\t}\n\treturn a + 1\n}", "func X_main() {\n\trec.E(4, X_f(1))\n\trec.E(5, X_f(-1))\n}"], "entry": "X_main"}
package p

import "verif/rec"

var _ = rec.E

func X_f(a int) int {
	select {
	default:
		rec.E(1, a)
		if a > 0 {
			rec.E(2)
			break
		}
		rec.E(3)
	}
	return a + 1
}

func X_main() {
	rec.E(4, X_f(1))
	rec.E(5, X_f(-1))
}
