//gobatch:{"imports": [], "decls": ["func P_f(a int, b int) int {\n\tswitch {\n\tcase (2 == 3) && (b >= a):\n\t\treturn 1\n\tcase (2 == 2) || (b >= a):\n\t\treturn 2\n\tdefault:\n\t\treturn 3\n\t}\n}", "func P_Main() {\n\trec.E(1, P_f(1, 2))\n\trec.E(2, P_f(2, 1))\n}"], "entry": "P_Main", "tags": ["switch-tagless", "case-constant-folded"]}
package p

import "verif/rec"

var _ = rec.E

func P_f(a int, b int) int {
	switch {
	case (2 == 3) && (b >= a):
		return 1
	case (2 == 2) || (b >= a):
		return 2
	default:
		return 3
	}
}

func P_Main() {
	rec.E(1, P_f(1, 2))
	rec.E(2, P_f(2, 1))
}
