//gobatch:{"imports": [], "decls": ["func P_f(a int) int {\n\tswitch {\n\tcase a > 5:\n\t\treturn 1\n\tcase 6 != (-3 ^ -1):\n\t\treturn 2\n\tcase (20 << 1) != 2:\n\t\treturn 3\n\t}\n\treturn 0\n}", "func P_Main() {\n\trec.E(1, P_f(9))\n\trec.E(2, P_f(1))\n}"], "entry": "P_Main", "tags": ["switch-tagless", "case-constant-bool-twice"]}
package p

import "verif/rec"

var _ = rec.E

func P_f(a int) int {
	switch {
	case a > 5:
		return 1
	case 6 != (-3 ^ -1):
		return 2
	case (20 << 1) != 2:
		return 3
	}
	return 0
}

func P_Main() {
	rec.E(1, P_f(9))
	rec.E(2, P_f(1))
}
