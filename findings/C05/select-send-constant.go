//gobatch:{"decls": ["func X_main() {\n\tch := make(chan int, 2)\n\tcf := make(chan float64, 1)\n\tselect {\n\tcase ch <- 13:\n\t\trec.E(1)\n\tdefault:\n\t\trec.E(2)\n\t}\n\tselect {\n\tcase cf <- 2:\n\t\trec.E(3)\n\t}\n\trec.E(4, <-ch, <-cf)\n}"], "entry": "X_main"}
package p

import "verif/rec"

var _ = rec.E

func X_main() {
	ch := make(chan int, 2)
	cf := make(chan float64, 1)
	select {
	case ch <- 13:
		rec.E(1)
	default:
		rec.E(2)
	}
	select {
	case cf <- 2:
		rec.E(3)
	}
	rec.E(4, <-ch, <-cf)
}
