//gobatch:{"decls": ["func X_main() {\n\tvar fs []func() int\n\tfor i := range make([]int, 3) {\n\t\tfs = append(fs, func() int { return i * 10 })\n\t}\n\tfor _, f := range fs {\n\t\trec.E(1, f())\n\t}\n\tvar j int\n\tfor j = range []int{5, 6, 7} {\n\t}\n\trec.E(2, j)\n\tfor k := range [4]int{} {\n\t\trec.E(3, k)\n\t\tk += 2\n\t}\n\tfor k, e := range []int{7, 8, 9} {\n\t\tk++\n\t\trec.E(4, k, e)\n\t}\n}"], "entry": "X_main"}
package p

import "verif/rec"

var _ = rec.E

func X_main() {
	var fs []func() int
	for i := range make([]int, 3) {
		fs = append(fs, func() int { return i * 10 })
	}
	for _, f := range fs {
		rec.E(1, f())
	}
	var j int
	for j = range []int{5, 6, 7} {
	}
	rec.E(2, j)
	for k := range [4]int{} {
		rec.E(3, k)
		k += 2
	}
	for k, e := range []int{7, 8, 9} {
		k++
		rec.E(4, k, e)
	}
}
