//gobatch:{"imports": [], "decls": ["func P_f(x int) int {\n\tswitch 16 {\n\tcase 1016, -997:\n\t\treturn 1\n\tcase x:\n\t\treturn 2\n\tcase 16:\n\t\treturn 4\n\t}\n\treturn 0\n}", "func P_Main() {\n\trec.E(1, P_f(1))\n\trec.E(2, P_f(16))\n}"], "entry": "P_Main", "tags": ["switch-constant-tag"]}
package p

import "verif/rec"

var _ = rec.E

func P_f(x int) int {
	switch 16 {
	case 1016, -997:
		return 1
	case x:
		return 2
	case 16:
		return 4
	}
	return 0
}

func P_Main() {
	rec.E(1, P_f(1))
	rec.E(2, P_f(16))
}
