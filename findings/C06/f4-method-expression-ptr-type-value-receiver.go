//gobatch:{"decls": ["type F4_T struct {\n\tx int\n}", "func (t F4_T) Get() int {\n\treturn t.x\n}", "func F4_main() {\n\tt := F4_T{5}\n\trec.E(1, (*F4_T).Get(&t))\n}"], "entry": "F4_main"}
package p

import "verif/rec"

var _ = rec.E

type F4_T struct {
	x int
}

func (t F4_T) Get() int {
	return t.x
}

func F4_main() {
	t := F4_T{5}
	rec.E(1, (*F4_T).Get(&t))
}
