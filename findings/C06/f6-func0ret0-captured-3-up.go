//gobatch:{"decls": ["var F6_pad string = \"slot 0 of the file frame (the wrong frame the call reads from)\"", "func F6_main() {\n\tc := 3\n\tinc := func() { c++ }\n\tfunc() {\n\t\tfunc() {\n\t\t\tfunc() {\n\t\t\t\tinc()\n\t\t\t}()\n\t\t}()\n\t}()\n\trec.E(1, c, F6_pad != \"\")\n}"], "entry": "F6_main"}
package p

import "verif/rec"

var _ = rec.E

var F6_pad string = "slot 0 of the file frame (the wrong frame the call reads from)"

func F6_main() {
	c := 3
	inc := func() { c++ }
	func() {
		func() {
			func() {
				inc()
			}()
		}()
	}()
	rec.E(1, c, F6_pad != "")
}
