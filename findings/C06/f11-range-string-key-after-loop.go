//gobatch:{"decls": ["func F11_main() {\n\tvar k int\n\tfor k = range \"abc\" {\n\t}\n\trec.E(1, k)\n}"], "entry": "F11_main"}
package p

import "verif/rec"

var _ = rec.E

func F11_main() {
	var k int
	for k = range "abc" {
	}
	rec.E(1, k)
}
