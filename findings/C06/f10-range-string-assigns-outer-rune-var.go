//gobatch:{"decls": ["func F10_main() {\n\tvar r rune\n\tn := 0\n\tfor _, r = range \"abc\" {\n\t\tn++\n\t}\n\trec.E(1, r, n)\n}"], "entry": "F10_main"}
package p

import "verif/rec"

var _ = rec.E

func F10_main() {
	var r rune
	n := 0
	for _, r = range "abc" {
		n++
	}
	rec.E(1, r, n)
}
