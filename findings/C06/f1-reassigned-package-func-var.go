//gobatch:{"decls": ["var F1_F func() int", "func F1_set(n int) {\n\tF1_F = func() int { return n }\n}", "func F1_call() int {\n\treturn F1_F()\n}", "func F1_main() {\n\tF1_set(1)\n\trec.E(1, F1_call())\n\tF1_set(2)\n\trec.E(2, F1_call())\n}"], "entry": "F1_main"}
package p

import "verif/rec"

var _ = rec.E

var F1_F func() int

func F1_set(n int) {
	F1_F = func() int { return n }
}

func F1_call() int {
	return F1_F()
}

func F1_main() {
	F1_set(1)
	rec.E(1, F1_call())
	F1_set(2)
	rec.E(2, F1_call())
}
