//gobatch:{"decls": ["type F8_T int", "func (t *F8_T) Inc() {\n\t*t++\n}", "func F8_main() {\n\tt := F8_T(1)\n\tt.Inc()\n\trec.E(1, int(t))\n}"], "entry": "F8_main"}
package p

import "verif/rec"

var _ = rec.E

type F8_T int

func (t *F8_T) Inc() {
	*t++
}

func F8_main() {
	t := F8_T(1)
	t.Inc()
	rec.E(1, int(t))
}
