//gobatch:{"decls": ["func F3_va(xs ...int) bool {\n\treturn xs == nil\n}", "func F3_main() {\n\trec.E(1, F3_va())\n}"], "entry": "F3_main"}
package p

import "verif/rec"

var _ = rec.E

func F3_va(xs ...int) bool {
	return xs == nil
}

func F3_main() {
	rec.E(1, F3_va())
}
