//gobatch:{"decls": ["func F5_main() {\n\tv := 1 + 2i\n\tp := &v\n\t*p += 1\n\trec.E(1, v)\n}"], "entry": "F5_main"}
package p

import "verif/rec"

var _ = rec.E

func F5_main() {
	v := 1 + 2i
	p := &v
	*p += 1
	rec.E(1, v)
}
