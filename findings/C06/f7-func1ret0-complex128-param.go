//gobatch:{"decls": ["func F7_f(a complex128) {\n\trec.E(1, a)\n}", "func F7_main() {\n\tF7_f(1 + 2i)\n}"], "entry": "F7_main"}
package p

import "verif/rec"

var _ = rec.E

func F7_f(a complex128) {
	rec.E(1, a)
}

func F7_main() {
	F7_f(1 + 2i)
}
