//gobatch:{"decls": ["type F2_T struct {\n\tx int\n}", "func (t F2_T) Get() int {\n\treturn t.x\n}", "func F2_main() {\n\tt := F2_T{5}\n\tm := t.Get\n\tt.x = 6\n\trec.E(1, m())\n}"], "entry": "F2_main"}
package p

import "verif/rec"

var _ = rec.E

type F2_T struct {
	x int
}

func (t F2_T) Get() int {
	return t.x
}

func F2_main() {
	t := F2_T{5}
	m := t.Get
	t.x = 6
	rec.E(1, m())
}
