//gobatch:{"decls": ["func F9_f() (x, y int) {\n\tx, y = 1, 2\n\treturn y, x\n}", "func F9_main() {\n\ta, b := F9_f()\n\trec.E(1, a, b)\n}"], "entry": "F9_main"}
package p

import "verif/rec"

var _ = rec.E

func F9_f() (x, y int) {
	x, y = 1, 2
	return y, x
}

func F9_main() {
	a, b := F9_f()
	rec.E(1, a, b)
}
