//gobatch:{"imports": ["sort"], "decls": ["type P_T0 int", "type P_T2 []int", "func (r P_T2) Len() int { return len(r) }", "func (r P_T2) Less(x0, x1 int) bool { return r[x0] < r[x1] }", "func (r P_T2) Swap(x0, x1 int) { r[x0], r[x1] = r[x1], r[x0] }", "type P_T3 struct {\n\t*P_T0\n\tP_T2\n}", "func P_Main() {\n\tvar i sort.Interface = P_T2{5, 0, 3}\n\tswitch i.(type) {\n\tcase *P_T3:\n\t\trec.E(1)\n\tdefault:\n\t\trec.E(2, i.Len())\n\t}\n}"], "entry": "P_Main", "tags": ["iface:sort.Interface"], "meta": {"generics": "cti"}}
package p

import "verif/rec"
import "sort"

type P_T0 int

type P_T2 []int

func (r P_T2) Len() int { return len(r) }

func (r P_T2) Less(x0, x1 int) bool { return r[x0] < r[x1] }

func (r P_T2) Swap(x0, x1 int) { r[x0], r[x1] = r[x1], r[x0] }

type P_T3 struct {
	*P_T0
	P_T2
}

func P_Main() {
	var i sort.Interface = P_T2{5, 0, 3}
	switch i.(type) {
	case *P_T3:
		rec.E(1)
	default:
		rec.E(2, i.Len())
	}
}
