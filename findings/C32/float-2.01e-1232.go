package p

// 201/10^1234: a float literal that go/constant holds as an exact fraction
const C = 2.01e-1232
