package p

// 2^4095 - 1: an untyped float constant that go/constant holds as the exact fraction (2^4095-1)/1
const C = 0x1p4094 + (0x1p4094 - 1)
