//gobatch:{"decls": ["type R_T struct {\n\ta int\n\tb string\n}", "func R_main() {\n\tv := R_T{1, \"x\"}\n\tv.a = 5\n\trec.E(1, v.a, v.b)\n\tw := R_T{a: 2}\n\trec.E(2, w.a)\n}"], "entry": "R_main", "interp": "classic"}
package p

import "verif/rec"

var _ = rec.E

type R_T struct {
	a int
	b string
}

func R_main() {
	v := R_T{1, "x"}
	v.a = 5
	rec.E(1, v.a, v.b)
	w := R_T{a: 2}
	rec.E(2, w.a)
}
