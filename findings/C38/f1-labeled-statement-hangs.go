//gobatch:{"decls": ["func R_main() {\n\tx := 0\nL:\n\tfor i := 0; i < 3; i++ {\n\t\tif i == 2 {\n\t\t\tbreak L\n\t\t}\n\t\tx += i\n\t}\n\trec.E(1, x)\n}"], "entry": "R_main", "interp": "classic"}
package p

import "verif/rec"

var _ = rec.E

func R_main() {
	x := 0
L:
	for i := 0; i < 3; i++ {
		if i == 2 {
			break L
		}
		x += i
	}
	rec.E(1, x)
}
