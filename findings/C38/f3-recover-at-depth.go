//gobatch:{"decls": ["func R_f(a int) int {\n\tfunc() {\n\t\tdefer func() {\n\t\t\trec.R(\"d\", recover())\n\t\t}()\n\t\tpanic(\"boom\")\n\t}()\n\trec.E(1, a)\n\treturn a + 1\n}", "func R_main() {\n\trec.E(2, R_f(1))\n}"], "entry": "R_main", "interp": "classic"}
package p

import "verif/rec"

var _ = rec.E

func R_f(a int) int {
	func() {
		defer func() {
			rec.R("d", recover())
		}()
		panic("boom")
	}()
	rec.E(1, a)
	return a + 1
}

func R_main() {
	rec.E(2, R_f(1))
}
