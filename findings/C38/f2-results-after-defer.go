//gobatch:{"decls": ["func R_g(d int) (r int) {\n\tdefer func() {\n\t\tr = r + 4\n\t}()\n\tr = 8\n\treturn r + 1\n}", "func R_main() {\n\trec.E(1, R_g(1))\n}"], "entry": "R_main", "interp": "classic"}
package p

import "verif/rec"

var _ = rec.E

func R_g(d int) (r int) {
	defer func() {
		r = r + 4
	}()
	r = 8
	return r + 1
}

func R_main() {
	rec.E(1, R_g(1))
}
