package p

func f(x T) {
	if x == (T{}) {
	}
}
