package p

func f(c chan int, d chan (<-chan int)) {
	_ = (<-chan int)(c)
}
