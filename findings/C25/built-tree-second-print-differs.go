package p

func f() {
	e = g(t, func(env *Env) Value {
		return h(env)
	})
}
