//gobatch:{"decls": ["func X_main() {\n\tvar wg sync.WaitGroup\n\tvar hits int32\n\tfor i := 0; i < 32; i++ {\n\t\twg.Add(1)\n\t\tgo func() {\n\t\t\tdefer wg.Done()\n\t\t\tfor j := 0; j < 50; j++ {\n\t\t\t\tatomic.AddInt32(&hits, 2)\n\t\t\t}\n\t\t}()\n\t}\n\twg.Wait()\n\trec.E(1, atomic.LoadInt32(&hits))\n}"], "entry": "X_main", "imports": ["sync", "sync/atomic"]}
package p

import "verif/rec"
import "sync"
import "sync/atomic"

var _ = rec.E

func X_main() {
	var wg sync.WaitGroup
	var hits int32
	for i := 0; i < 32; i++ {
		wg.Add(1)
		go func() {
			defer wg.Done()
			for j := 0; j < 50; j++ {
				atomic.AddInt32(&hits, 2)
			}
		}()
	}
	wg.Wait()
	rec.E(1, atomic.LoadInt32(&hits))
}
