//gobatch:{"decls": ["func F1_main() {\n\tm := map[string]int{\"a\": 1, \"b\": 2}\n\tch := make(chan int, 1)\n\tdefer func() {\n\t\t_, ok := <-ch\n\t\trec.E(1, len(m), ok)\n\t}()\n\tdefer delete(m, \"a\")\n\tdefer close(ch)\n}"], "entry": "F1_main"}
package p

import "verif/rec"

var _ = rec.E

func F1_main() {
	m := map[string]int{"a": 1, "b": 2}
	ch := make(chan int, 1)
	defer func() {
		_, ok := <-ch
		rec.E(1, len(m), ok)
	}()
	defer delete(m, "a")
	defer close(ch)
}
