//gobatch:{"decls": ["func F2_f() {\n\tdefer func() {\n\t\tdefer func() {\n\t\t\trec.R(\"inner\", recover())\n\t\t}()\n\t\tpanic(\"second\")\n\t}()\n\tpanic(\"first\")\n}", "func F2_main() {\n\tdefer func() {\n\t\trec.R(\"top\", recover())\n\t}()\n\tF2_f()\n\trec.E(1, \"not reached in Go: the first panic is still in progress\")\n}"], "entry": "F2_main"}
package p

import "verif/rec"

var _ = rec.E

func F2_f() {
	defer func() {
		defer func() {
			rec.R("inner", recover())
		}()
		panic("second")
	}()
	panic("first")
}

func F2_main() {
	defer func() {
		rec.R("top", recover())
	}()
	F2_f()
	rec.E(1, "not reached in Go: the first panic is still in progress")
}
