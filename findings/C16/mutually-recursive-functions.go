//gobatch:{"decls": ["func X_even(n int) int {\n\tif n <= 0 {\n\t\treturn 7\n\t}\n\treturn X_odd(n-1) + 1\n}", "func X_odd(n int) int {\n\tif n <= 0 {\n\t\treturn 1\n\t}\n\treturn X_even(n-1) * 2\n}", "func X_main() {\n\trec.E(1, X_even(3), X_odd(2))\n}"], "entry": "X_main", "one_eval": true}
package p

import "verif/rec"

var _ = rec.E

func X_even(n int) int {
	if n <= 0 {
		return 7
	}
	return X_odd(n-1) + 1
}

func X_odd(n int) int {
	if n <= 0 {
		return 1
	}
	return X_even(n-1) * 2
}

func X_main() {
	rec.E(1, X_even(3), X_odd(2))
}
