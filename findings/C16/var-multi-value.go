//gobatch:{"decls": ["var X_a, X_b = X_two()", "func X_two() (int, string) {\n\treturn 7, \"s\"\n}", "func X_main() {\n\trec.E(1, X_a, X_b)\n}"], "entry": "X_main", "one_eval": true}
package p

import "verif/rec"

var _ = rec.E

var X_a, X_b = X_two()

func X_two() (int, string) {
	return 7, "s"
}

func X_main() {
	rec.E(1, X_a, X_b)
}
