//gobatch:{"decls": ["var X_v = X_U{3}", "func X_main() {\n\trec.E(1, X_v.Get())\n}", "type X_U struct {\n\ta int\n}", "func (u X_U) Get() int {\n\treturn u.a\n}"], "entry": "X_main", "one_eval": true}
package p

import "verif/rec"

var _ = rec.E

var X_v = X_U{3}

func X_main() {
	rec.E(1, X_v.Get())
}

type X_U struct {
	a int
}

func (u X_U) Get() int {
	return u.a
}
