//gobatch:{"decls":["func S0N4_main1() {\n\tx := -1\n\ts := \"ab\"\n\t_, _ = x, s\n\trec.E(1, s)\n\tvar y int\n\t_, y = x, x+1\n\trec.E(2, y)\n\ty, _ = 7, x\n\trec.E(3, y)\n}"],"entry":"S0N4_main1"}
package p

import "verif/rec"

func S0N4_main1() {
	x := -1
	s := "ab"
	_, _ = x, s
	rec.E(1, s)
	var y int
	_, y = x, x+1
	rec.E(2, y)
	y, _ = 7, x
	rec.E(3, y)
}
