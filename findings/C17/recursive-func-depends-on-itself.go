func f(a T, b U) {
	if z > 0 { f(T(z), U(z)) }
}
type T int
type U int
var z = 1
