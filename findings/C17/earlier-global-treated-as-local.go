var a = b
func f() int { return a }
var c = f()
var b = 2
