const c = len(T{})
type T [c]int
