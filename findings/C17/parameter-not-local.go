func f(x int) int { return x }
var x = f(1)
