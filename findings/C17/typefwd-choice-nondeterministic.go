type A struct { b *B; c *C }
type B struct { a *A }
type C struct { a *A; b *B }
