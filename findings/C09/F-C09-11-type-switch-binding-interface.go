//gobatch:{"decls": ["type T struct{ A int }", "func (r T) M() int { return r.A }", "type I interface{ M() int }", "func Main() {\n\tvar s I = T{1}\n\tswitch y := s.(type) {\n\tcase *T:\n\t\t_ = y\n\tdefault:\n\t\trec.E(1, y.M())\n\t}\n}"], "entry": "Main"}
package p

import "verif/rec"

var _ = rec.E

type T struct{ A int }

func (r T) M() int { return r.A }

type I interface{ M() int }

func Main() {
	var s I = T{1}
	switch y := s.(type) {
	case *T:
		_ = y
	default:
		rec.E(1, y.M())
	}
}
