//gobatch:{"decls": ["type T struct{ X int }", "func (r T) A() int { return r.X }", "func (r T) B() int { return r.X + 1 }", "type IAB interface { A() int; B() int }", "type IA interface { A() int }", "func Main() { var j IAB = T{2}; var k IA = j; rec.E(1, k.A()); var e interface{} = j; _, ok := e.(T); rec.E(2, ok) }"], "entry": "Main"}
package p

import "verif/rec"

var _ = rec.E

type T struct{ X int }

func (r T) A() int { return r.X }

func (r T) B() int { return r.X + 1 }

type IAB interface { A() int; B() int }

type IA interface { A() int }

func Main() { var j IAB = T{2}; var k IA = j; rec.E(1, k.A()); var e interface{} = j; _, ok := e.(T); rec.E(2, ok) }
