//gobatch:{"decls": ["type T string", "func (r T) M() int { return len(r) }", "type S struct{ A int }", "func (r S) M() int { return r.A }", "type I interface{ M() int }", "var Z = \"\"", "func Main() { v := T(Z + \"ab\"); l := []I{v}; rec.E(1, l[0].M()) }"], "entry": "Main"}
package p

import "verif/rec"

var _ = rec.E

type T string

func (r T) M() int { return len(r) }

type S struct{ A int }

func (r S) M() int { return r.A }

type I interface{ M() int }

var Z = ""

func Main() { v := T(Z + "ab"); l := []I{v}; rec.E(1, l[0].M()) }
