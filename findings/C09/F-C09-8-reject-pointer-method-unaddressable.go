//gobatch:{"decls": ["type T struct{ A int }", "func (r *T) M() int { return r.A }", "func Mk() T { return T{1} }", "func Main() { Mk().M(); rec.E(1) }"], "entry": "Main", "meta": {"stream": "reject", "kind": "pointer-method-on-unaddressable-value"}}
package p

import "verif/rec"

var _ = rec.E

type T struct{ A int }

func (r *T) M() int { return r.A }

func Mk() T { return T{1} }

func Main() { Mk().M(); rec.E(1) }
