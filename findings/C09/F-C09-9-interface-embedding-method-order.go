//gobatch:{"decls": ["type T struct{ X int }", "func (r T) A() int { return r.X }", "func (r T) C() string { return \"c\" }", "func (r T) D(x int) int { return r.X * x }", "type I0 interface { D(int) int; A() int }", "type I2 interface { I0; C() string }", "func Main() { var i I2 = T{2}; rec.E(1, i.A(), i.C(), i.D(3)) }"], "entry": "Main"}
package p

import "verif/rec"

var _ = rec.E

type T struct{ X int }

func (r T) A() int { return r.X }

func (r T) C() string { return "c" }

func (r T) D(x int) int { return r.X * x }

type I0 interface { D(int) int; A() int }

type I2 interface { I0; C() string }

func Main() { var i I2 = T{2}; rec.E(1, i.A(), i.C(), i.D(3)) }
