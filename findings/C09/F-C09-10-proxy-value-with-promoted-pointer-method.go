//gobatch:{"decls": ["type E struct{ A int }", "func (r *E) String() string { return \"E\" }", "type T struct{ *E }", "func Main() { v := T{&E{1}}; var s fmt.Stringer = v; rec.E(1, s.String()) }"], "entry": "Main", "imports": ["fmt"]}
package p

import "verif/rec"
import "fmt"

var _ = rec.E

type E struct{ A int }

func (r *E) String() string { return "E" }

type T struct{ *E }

func Main() { v := T{&E{1}}; var s fmt.Stringer = v; rec.E(1, s.String()) }
