//gobatch:{"decls": ["type T struct{ A int }", "func (r T) String() string { return \"T\" }", "func Main() { v := T{3}; var i fmt.Stringer = &v; rec.E(1, i.String()) }"], "entry": "Main", "imports": ["fmt"]}
package p

import "verif/rec"
import "fmt"

var _ = rec.E

type T struct{ A int }

func (r T) String() string { return "T" }

func Main() { v := T{3}; var i fmt.Stringer = &v; rec.E(1, i.String()) }
