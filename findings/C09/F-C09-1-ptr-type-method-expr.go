//gobatch:{"decls": ["type T int", "func (r T) M() int { return int(r) + 1 }", "func Main() { v := T(5); f := (*T).M; rec.E(1, f(&v)) }"], "entry": "Main"}
package p

import "verif/rec"

var _ = rec.E

type T int

func (r T) M() int { return int(r) + 1 }

func Main() { v := T(5); f := (*T).M; rec.E(1, f(&v)) }
