//gobatch:{"imports":["fmt","sort"],"decls":["var S2N125_Z = 0","var S2N125_S = \"\"","type S2N125_T0 string","func (r *S2N125_T0) C(x0 int) string {\n\trec.E(\"T0.C\", string((*r)), x0)\n\t(*r) += \"+\"\n\treturn \"T0.C#1\" + string((*r))\n}","func (r *S2N125_T0) D(x0 int) int {\n\trec.E(\"T0.D\", string((*r)), x0)\n\t(*r) += \"+\"\n\treturn 2 + x0*100\n}","func S2N125_New0(v S2N125_T0) *S2N125_T0 { return \u0026v }","type S2N125_T1 struct {\n\tB string\n}","func (r S2N125_T1) D(x0 int) int {\n\trec.E(\"T1.D\", r.B, x0)\n\tr.B += \"+\"\n\treturn 3 + x0*100\n}","func (r S2N125_T1) A() int {\n\trec.E(\"T1.A\", r.B)\n\treturn 4 + 1*100\n}","func (r *S2N125_T1) String() string {\n\trec.E(\"T1.String\", r.B)\n\treturn \"T1.String#5\" + r.B\n}","func (r S2N125_T1) Error() string {\n\trec.E(\"T1.Error\", r.B)\n\treturn \"T1.Error#6\" + r.B\n}","func S2N125_New1(v S2N125_T1) *S2N125_T1 { return \u0026v }","type S2N125_T2 struct {\n\t*S2N125_T1\n}","func (r S2N125_T2) C() string {\n\trec.E(\"T2.C\", r.S2N125_T1.B)\n\treturn \"T2.C#7\"\n}","func (r *S2N125_T2) B(x0 int) int {\n\trec.E(\"T2.B\", r.S2N125_T1.B, x0)\n\treturn 8 + x0*100\n}","func S2N125_New2(v S2N125_T2) *S2N125_T2 { return \u0026v }","type S2N125_T3 struct {\n\t*S2N125_T1\n}","func (r S2N125_T3) B(x0 int) int {\n\trec.E(\"T3.B\", r.S2N125_T1.B, x0)\n\tin := r.A()\n\treturn 9 + x0*100 + in\n}","func (r *S2N125_T3) C(x0 int) int {\n\trec.E(\"T3.C\", r.S2N125_T1.B, x0)\n\treturn 10 + x0*100\n}","func S2N125_New3(v S2N125_T3) *S2N125_T3 { return \u0026v }","type S2N125_T4 struct {\n\t*S2N125_T0\n\t*S2N125_T2\n\tA int\n\tC string\n}","func (r *S2N125_T4) B(x0 int) int {\n\trec.E(\"T4.B\", r.A, r.C, string((*r.S2N125_T0)), x0)\n\tr.A += x0 + 1\n\treturn 11 + x0*100 + r.A\n}","func (r S2N125_T4) D() int {\n\trec.E(\"T4.D\", r.A, r.C, string((*r.S2N125_T0)))\n\tr.A += 1 + 1\n\treturn 12 + 1*100 + r.A\n}","func S2N125_New4(v S2N125_T4) *S2N125_T4 { return \u0026v }","type S2N125_I0 interface {\n\tA() int\n\tString() string\n}","type S2N125_I1 interface {\n\tA() int\n}","type S2N125_I2 interface {\n\tS2N125_I0\n}","func S2N125_Id0(i S2N125_I0) S2N125_I0 { return i }","func S2N125_Id1(i S2N125_I1) S2N125_I1 { return i }","func S2N125_Id2(i S2N125_I2) S2N125_I2 { return i }","func S2N125_Id3(i fmt.Stringer) fmt.Stringer { return i }","func S2N125_Id4(i error) error { return i }","func S2N125_Id5(i sort.Interface) sort.Interface { return i }","func S2N125_Mk0() S2N125_T0 { return S2N125_T0(S2N125_S + \"s13\") }","func S2N125_MkP0() *S2N125_T0 { return S2N125_New0(S2N125_T0(S2N125_S + \"s14\")) }","func S2N125_Mk1() S2N125_T1 { return S2N125_T1{B: \"f15\"} }","func S2N125_MkP1() *S2N125_T1 { return S2N125_New1(S2N125_T1{B: \"f16\"}) }","func S2N125_Mk2() S2N125_T2 { return S2N125_T2{S2N125_T1: S2N125_New1(S2N125_T1{B: \"f17\"})} }","func S2N125_MkP2() *S2N125_T2 { return \u0026S2N125_T2{S2N125_T1: \u0026S2N125_T1{B: \"f18\"}} }","func S2N125_Mk3() S2N125_T3 { return S2N125_T3{S2N125_T1: S2N125_New1(S2N125_T1{B: \"f19\"})} }","func S2N125_MkP3() *S2N125_T3 { return S2N125_New3(S2N125_T3{S2N125_T1: \u0026S2N125_T1{B: \"f20\"}}) }","func S2N125_Mk4() S2N125_T4 { return S2N125_T4{S2N125_T0: S2N125_New0(S2N125_T0(S2N125_S + \"s21\")), S2N125_T2: \u0026S2N125_T2{S2N125_T1: S2N125_New1(S2N125_T1{B: \"f22\"})}, A: 23, C: \"f24\"} }","func S2N125_MkP4() *S2N125_T4 { return S2N125_New4(S2N125_T4{S2N125_T0: S2N125_New0(S2N125_T0(S2N125_S + \"s25\")), S2N125_T2: \u0026S2N125_T2{S2N125_T1: S2N125_New1(S2N125_T1{B: \"f26\"})}, A: 27, C: \"f28\"}) }","func S2N125_Main() {\n\tv0 := S2N125_T0(S2N125_S + \"s29\")\n\tp0 := \u0026v0\n\t_, _ = v0, p0\n\tv1 := S2N125_T1{B: \"f30\"}\n\tp1 := \u0026v1\n\t_, _ = v1, p1\n\tm1 := map[string]S2N125_T1{\"k\": S2N125_T1{B: \"f32\"}}\n\t_ = m1\n\tv2 := S2N125_T2{S2N125_T1: S2N125_New1(S2N125_T1{B: \"f33\"})}\n\tp2 := S2N125_New2(S2N125_T2{S2N125_T1: \u0026S2N125_T1{B: \"f34\"}})\n\t_, _ = v2, p2\n\ts2 := []S2N125_T2{S2N125_T2{S2N125_T1: \u0026S2N125_T1{B: \"f36\"}}, S2N125_T2{S2N125_T1: \u0026S2N125_T1{B: \"f37\"}}}\n\t_ = s2\n\tv3 := S2N125_T3{S2N125_T1: \u0026S2N125_T1{B: \"f38\"}}\n\tp3 := S2N125_New3(S2N125_T3{S2N125_T1: \u0026S2N125_T1{B: \"f39\"}})\n\t_, _ = v3, p3\n\tm3 := map[string]S2N125_T3{\"k\": S2N125_T3{S2N125_T1: \u0026S2N125_T1{B: \"f41\"}}}\n\t_ = m3\n\tv4 := S2N125_T4{S2N125_T0: S2N125_New0(S2N125_T0(S2N125_S + \"s42\")), S2N125_T2: S2N125_New2(S2N125_T2{S2N125_T1: S2N125_New1(S2N125_T1{B: \"f43\"})}), A: 44, C: \"f45\"}\n\tp4 := \u0026S2N125_T4{S2N125_T0: S2N125_New0(S2N125_T0(S2N125_S + \"s46\")), S2N125_T2: \u0026S2N125_T2{S2N125_T1: S2N125_New1(S2N125_T1{B: \"f47\"})}, A: 48, C: \"f49\"}\n\t_, _ = v4, p4\n\ts4 := []S2N125_T4{S2N125_T4{S2N125_T0: S2N125_New0(S2N125_T0(S2N125_S + \"s54\")), S2N125_T2: S2N125_New2(S2N125_T2{S2N125_T1: \u0026S2N125_T1{B: \"f55\"}}), A: 56, C: \"f57\"}, S2N125_T4{S2N125_T0: S2N125_New0(S2N125_T0(S2N125_S + \"s58\")), S2N125_T2: S2N125_New2(S2N125_T2{S2N125_T1: S2N125_New1(S2N125_T1{B: \"f59\"})}), A: 60, C: \"f61\"}}\n\t_ = s4\n\tmv1 := p4.B\n\trec.E(1, mv1(1))\n\trec.E(2, p4.A, p4.C, string((*p4.S2N125_T0)))\n\tvar iv2 S2N125_I2\n\tiv2 = \u0026v1\n\trec.E(3, iv2.A())\n\trec.E(4, iv2.String())\n\trec.E(5, v1.B)\n\tvar iv3 S2N125_I0 = S2N125_MkP3()\n\trec.E(6, iv3.A())\n\trec.E(7, iv3.String())\n\timv4 := iv3.A\n\trec.E(8, imv4())\n\tfor _, x5 := range []S2N125_I0{p1, p3, m3[\"k\"], v2, nil} {\n\t\tswitch y6 := x5.(type) {\n\t\tcase S2N125_T2, *S2N125_T1:\n\t\t\t_ = y6\n\t\t\trec.E(9, \"multi\")\n\t\tcase S2N125_I1:\n\t\t\t_ = y6\n\t\t\trec.E(10, \"case\")\n\t\t\trec.E(11, y6.A())\n\t\tcase error:\n\t\t\t_ = y6\n\t\t\trec.E(12, \"case\")\n\t\t\trec.E(13, y6.Error())\n\t\tcase S2N125_I2:\n\t\t\t_ = y6\n\t\t\trec.E(14, \"case\")\n\t\t\trec.E(15, y6.A())\n\t\t\trec.E(16, y6.String())\n\t\tcase S2N125_T3:\n\t\t\t_ = y6\n\t\t\trec.E(17, \"case\")\n\t\t\trec.E(18, y6.S2N125_T1.B)\n\t\tcase *S2N125_T2:\n\t\t\t_ = y6\n\t\t\trec.E(19, \"case\")\n\t\t\trec.E(20, y6 == nil, y6.S2N125_T1.B)\n\t\tdefault:\n\t\t\t_ = y6\n\t\t\trec.E(21, \"default\")\n\t\t}\n\t}\n\tvar x7 interface{} = S2N125_T4{S2N125_T0: S2N125_New0(S2N125_T0(S2N125_S + \"s50\")), S2N125_T2: \u0026S2N125_T2{S2N125_T1: S2N125_New1(S2N125_T1{B: \"f51\"})}, A: 52, C: \"f53\"}\n\ty8 := x7.(S2N125_T4)\n\t_ = y8\n\trec.E(22, y8.A, y8.C)\n\trec.E(23, y8.String())\n\tvar x9 interface{} = 62\n\ty10 := x9.(int)\n\t_ = y10\n\trec.E(24, y10)\n\tme11 := S2N125_T4.D\n\trec.E(25, me11((*S2N125_MkP4())))\n\trec.E(26, S2N125_T2{S2N125_T1: S2N125_New1(S2N125_T1{B: \"f35\"})}.S2N125_T1.B)\n\trec.E(27, S2N125_T4.D((*p4)))\n\trec.E(28, p4.A, p4.C, string((*p4.S2N125_T0)))\n\trec.E(29, S2N125_T1.D((*(\u0026v1)), 6))\n\trec.E(30, v1.B)\n\trec.E(31, string(v0))\n\trec.E(32, string((*p0)))\n\trec.E(33, v1.B)\n\trec.E(34, p1.B)\n\trec.E(35, v2.S2N125_T1.B)\n\trec.E(36, p2.S2N125_T1.B)\n\trec.E(37, s2[1].S2N125_T1.B)\n\trec.E(38, v3.S2N125_T1.B)\n\trec.E(39, p3.S2N125_T1.B)\n\trec.E(40, v4.A, v4.C, string((*v4.S2N125_T0)))\n\trec.E(41, p4.A, p4.C, string((*p4.S2N125_T0)))\n\trec.E(42, s4[0].A, s4[0].C, string((*s4[0].S2N125_T0)))\n}"],"entry":"S2N125_Main","tags":["assert-from-empty-interface","assert-single-value","assert-succeeds","explicit-embedded-path","field-read","iface-implicit:assignment","iface:error","iface:interpreted","method-calls-promoted-method","method-expr","method-expr-stored","method-value","method-value-from-interface","pointer-aliases-variable","promoted-method","promoted-pointer-method","selector-depth\u003e=2","selector-shadows-deeper-name","through-embedded-pointer-or-ptr-recv","ts-mixed:\u003e=2-concrete-cases","ts-mixed:bound","ts-mixed:concrete-case-before-interface-match","ts-mixed:interface-case-before-concrete-match","ts-mixed:interface-case-in-the-middle","ts-mixed:interpreted-values","ts-mixed:subject-of-interpreted-interface-type","ts-mixed:two-interface-cases-match","ts-mixed:value-matching-no-case","type-switch"],"nt":"depth\u003e=2+shadowing"}
package p

import "verif/rec"
import "fmt"
import "sort"

var _ = rec.E

var S2N125_Z = 0

var S2N125_S = ""

type S2N125_T0 string

func (r *S2N125_T0) C(x0 int) string {
	rec.E("T0.C", string((*r)), x0)
	(*r) += "+"
	return "T0.C#1" + string((*r))
}

func (r *S2N125_T0) D(x0 int) int {
	rec.E("T0.D", string((*r)), x0)
	(*r) += "+"
	return 2 + x0*100
}

func S2N125_New0(v S2N125_T0) *S2N125_T0 { return &v }

type S2N125_T1 struct {
	B string
}

func (r S2N125_T1) D(x0 int) int {
	rec.E("T1.D", r.B, x0)
	r.B += "+"
	return 3 + x0*100
}

func (r S2N125_T1) A() int {
	rec.E("T1.A", r.B)
	return 4 + 1*100
}

func (r *S2N125_T1) String() string {
	rec.E("T1.String", r.B)
	return "T1.String#5" + r.B
}

func (r S2N125_T1) Error() string {
	rec.E("T1.Error", r.B)
	return "T1.Error#6" + r.B
}

func S2N125_New1(v S2N125_T1) *S2N125_T1 { return &v }

type S2N125_T2 struct {
	*S2N125_T1
}

func (r S2N125_T2) C() string {
	rec.E("T2.C", r.S2N125_T1.B)
	return "T2.C#7"
}

func (r *S2N125_T2) B(x0 int) int {
	rec.E("T2.B", r.S2N125_T1.B, x0)
	return 8 + x0*100
}

func S2N125_New2(v S2N125_T2) *S2N125_T2 { return &v }

type S2N125_T3 struct {
	*S2N125_T1
}

func (r S2N125_T3) B(x0 int) int {
	rec.E("T3.B", r.S2N125_T1.B, x0)
	in := r.A()
	return 9 + x0*100 + in
}

func (r *S2N125_T3) C(x0 int) int {
	rec.E("T3.C", r.S2N125_T1.B, x0)
	return 10 + x0*100
}

func S2N125_New3(v S2N125_T3) *S2N125_T3 { return &v }

type S2N125_T4 struct {
	*S2N125_T0
	*S2N125_T2
	A int
	C string
}

func (r *S2N125_T4) B(x0 int) int {
	rec.E("T4.B", r.A, r.C, string((*r.S2N125_T0)), x0)
	r.A += x0 + 1
	return 11 + x0*100 + r.A
}

func (r S2N125_T4) D() int {
	rec.E("T4.D", r.A, r.C, string((*r.S2N125_T0)))
	r.A += 1 + 1
	return 12 + 1*100 + r.A
}

func S2N125_New4(v S2N125_T4) *S2N125_T4 { return &v }

type S2N125_I0 interface {
	A() int
	String() string
}

type S2N125_I1 interface {
	A() int
}

type S2N125_I2 interface {
	S2N125_I0
}

func S2N125_Id0(i S2N125_I0) S2N125_I0 { return i }

func S2N125_Id1(i S2N125_I1) S2N125_I1 { return i }

func S2N125_Id2(i S2N125_I2) S2N125_I2 { return i }

func S2N125_Id3(i fmt.Stringer) fmt.Stringer { return i }

func S2N125_Id4(i error) error { return i }

func S2N125_Id5(i sort.Interface) sort.Interface { return i }

func S2N125_Mk0() S2N125_T0 { return S2N125_T0(S2N125_S + "s13") }

func S2N125_MkP0() *S2N125_T0 { return S2N125_New0(S2N125_T0(S2N125_S + "s14")) }

func S2N125_Mk1() S2N125_T1 { return S2N125_T1{B: "f15"} }

func S2N125_MkP1() *S2N125_T1 { return S2N125_New1(S2N125_T1{B: "f16"}) }

func S2N125_Mk2() S2N125_T2 { return S2N125_T2{S2N125_T1: S2N125_New1(S2N125_T1{B: "f17"})} }

func S2N125_MkP2() *S2N125_T2 { return &S2N125_T2{S2N125_T1: &S2N125_T1{B: "f18"}} }

func S2N125_Mk3() S2N125_T3 { return S2N125_T3{S2N125_T1: S2N125_New1(S2N125_T1{B: "f19"})} }

func S2N125_MkP3() *S2N125_T3 { return S2N125_New3(S2N125_T3{S2N125_T1: &S2N125_T1{B: "f20"}}) }

func S2N125_Mk4() S2N125_T4 { return S2N125_T4{S2N125_T0: S2N125_New0(S2N125_T0(S2N125_S + "s21")), S2N125_T2: &S2N125_T2{S2N125_T1: S2N125_New1(S2N125_T1{B: "f22"})}, A: 23, C: "f24"} }

func S2N125_MkP4() *S2N125_T4 { return S2N125_New4(S2N125_T4{S2N125_T0: S2N125_New0(S2N125_T0(S2N125_S + "s25")), S2N125_T2: &S2N125_T2{S2N125_T1: S2N125_New1(S2N125_T1{B: "f26"})}, A: 27, C: "f28"}) }

func S2N125_Main() {
	v0 := S2N125_T0(S2N125_S + "s29")
	p0 := &v0
	_, _ = v0, p0
	v1 := S2N125_T1{B: "f30"}
	p1 := &v1
	_, _ = v1, p1
	m1 := map[string]S2N125_T1{"k": S2N125_T1{B: "f32"}}
	_ = m1
	v2 := S2N125_T2{S2N125_T1: S2N125_New1(S2N125_T1{B: "f33"})}
	p2 := S2N125_New2(S2N125_T2{S2N125_T1: &S2N125_T1{B: "f34"}})
	_, _ = v2, p2
	s2 := []S2N125_T2{S2N125_T2{S2N125_T1: &S2N125_T1{B: "f36"}}, S2N125_T2{S2N125_T1: &S2N125_T1{B: "f37"}}}
	_ = s2
	v3 := S2N125_T3{S2N125_T1: &S2N125_T1{B: "f38"}}
	p3 := S2N125_New3(S2N125_T3{S2N125_T1: &S2N125_T1{B: "f39"}})
	_, _ = v3, p3
	m3 := map[string]S2N125_T3{"k": S2N125_T3{S2N125_T1: &S2N125_T1{B: "f41"}}}
	_ = m3
	v4 := S2N125_T4{S2N125_T0: S2N125_New0(S2N125_T0(S2N125_S + "s42")), S2N125_T2: S2N125_New2(S2N125_T2{S2N125_T1: S2N125_New1(S2N125_T1{B: "f43"})}), A: 44, C: "f45"}
	p4 := &S2N125_T4{S2N125_T0: S2N125_New0(S2N125_T0(S2N125_S + "s46")), S2N125_T2: &S2N125_T2{S2N125_T1: S2N125_New1(S2N125_T1{B: "f47"})}, A: 48, C: "f49"}
	_, _ = v4, p4
	s4 := []S2N125_T4{S2N125_T4{S2N125_T0: S2N125_New0(S2N125_T0(S2N125_S + "s54")), S2N125_T2: S2N125_New2(S2N125_T2{S2N125_T1: &S2N125_T1{B: "f55"}}), A: 56, C: "f57"}, S2N125_T4{S2N125_T0: S2N125_New0(S2N125_T0(S2N125_S + "s58")), S2N125_T2: S2N125_New2(S2N125_T2{S2N125_T1: S2N125_New1(S2N125_T1{B: "f59"})}), A: 60, C: "f61"}}
	_ = s4
	mv1 := p4.B
	rec.E(1, mv1(1))
	rec.E(2, p4.A, p4.C, string((*p4.S2N125_T0)))
	var iv2 S2N125_I2
	iv2 = &v1
	rec.E(3, iv2.A())
	rec.E(4, iv2.String())
	rec.E(5, v1.B)
	var iv3 S2N125_I0 = S2N125_MkP3()
	rec.E(6, iv3.A())
	rec.E(7, iv3.String())
	imv4 := iv3.A
	rec.E(8, imv4())
	for _, x5 := range []S2N125_I0{p1, p3, m3["k"], v2, nil} {
		switch y6 := x5.(type) {
		case S2N125_T2, *S2N125_T1:
			_ = y6
			rec.E(9, "multi")
		case S2N125_I1:
			_ = y6
			rec.E(10, "case")
			rec.E(11, y6.A())
		case error:
			_ = y6
			rec.E(12, "case")
			rec.E(13, y6.Error())
		case S2N125_I2:
			_ = y6
			rec.E(14, "case")
			rec.E(15, y6.A())
			rec.E(16, y6.String())
		case S2N125_T3:
			_ = y6
			rec.E(17, "case")
			rec.E(18, y6.S2N125_T1.B)
		case *S2N125_T2:
			_ = y6
			rec.E(19, "case")
			rec.E(20, y6 == nil, y6.S2N125_T1.B)
		default:
			_ = y6
			rec.E(21, "default")
		}
	}
	var x7 interface{} = S2N125_T4{S2N125_T0: S2N125_New0(S2N125_T0(S2N125_S + "s50")), S2N125_T2: &S2N125_T2{S2N125_T1: S2N125_New1(S2N125_T1{B: "f51"})}, A: 52, C: "f53"}
	y8 := x7.(S2N125_T4)
	_ = y8
	rec.E(22, y8.A, y8.C)
	rec.E(23, y8.String())
	var x9 interface{} = 62
	y10 := x9.(int)
	_ = y10
	rec.E(24, y10)
	me11 := S2N125_T4.D
	rec.E(25, me11((*S2N125_MkP4())))
	rec.E(26, S2N125_T2{S2N125_T1: S2N125_New1(S2N125_T1{B: "f35"})}.S2N125_T1.B)
	rec.E(27, S2N125_T4.D((*p4)))
	rec.E(28, p4.A, p4.C, string((*p4.S2N125_T0)))
	rec.E(29, S2N125_T1.D((*(&v1)), 6))
	rec.E(30, v1.B)
	rec.E(31, string(v0))
	rec.E(32, string((*p0)))
	rec.E(33, v1.B)
	rec.E(34, p1.B)
	rec.E(35, v2.S2N125_T1.B)
	rec.E(36, p2.S2N125_T1.B)
	rec.E(37, s2[1].S2N125_T1.B)
	rec.E(38, v3.S2N125_T1.B)
	rec.E(39, p3.S2N125_T1.B)
	rec.E(40, v4.A, v4.C, string((*v4.S2N125_T0)))
	rec.E(41, p4.A, p4.C, string((*p4.S2N125_T0)))
	rec.E(42, s4[0].A, s4[0].C, string((*s4[0].S2N125_T0)))
}
