//gobatch:{"decls": ["type T struct{ A int }", "func (r T) M() int { return r.A }", "func (r T) String() string { return \"T\" }", "type I interface{ M() int }", "func FS(i fmt.Stringer) string { return i.String() }", "func Main() { var l []I; l = append(l, T{1}); rec.E(1, l[0].M()) }"], "entry": "Main", "imports": ["fmt"]}
package p

import "verif/rec"
import "fmt"

var _ = rec.E

type T struct{ A int }

func (r T) M() int { return r.A }

func (r T) String() string { return "T" }

type I interface{ M() int }

func FS(i fmt.Stringer) string { return i.String() }

func Main() { var l []I; l = append(l, T{1}); rec.E(1, l[0].M()) }
