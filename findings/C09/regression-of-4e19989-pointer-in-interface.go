//gobatch:{"decls": ["type T struct{ A int }", "func (r T) M() int { return r.A }", "type I interface{ M() int }", "func Main() { v := T{1}; var i I = &v; v.A = 2; rec.E(1, i.M()) }"], "entry": "Main"}
package p

import "verif/rec"

var _ = rec.E

type T struct{ A int }

func (r T) M() int { return r.A }

type I interface{ M() int }

func Main() { v := T{1}; var i I = &v; v.A = 2; rec.E(1, i.M()) }
