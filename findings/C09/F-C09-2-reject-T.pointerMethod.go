//gobatch:{"decls": ["type T struct{ A int }", "func (r *T) M() int { return r.A }", "func Main() { _ = T.M; rec.E(1) }"], "entry": "Main", "meta": {"stream": "reject", "kind": "method-expr-T.pointerMethod"}}
package p

import "verif/rec"

var _ = rec.E

type T struct{ A int }

func (r *T) M() int { return r.A }

func Main() { _ = T.M; rec.E(1) }
