//gobatch:{"decls": ["type E struct{ A int }", "type T struct{ *E }", "func Mk() T { return T{&E{1}} }", "func Main() { Mk().A = 5; t := Mk(); t.A = 6; rec.E(1, t.A) }"], "entry": "Main"}
package p

import "verif/rec"

var _ = rec.E

type E struct{ A int }

type T struct{ *E }

func Mk() T { return T{&E{1}} }

func Main() { Mk().A = 5; t := Mk(); t.A = 6; rec.E(1, t.A) }
