//gobatch:{"imports":["fmt","sort"],"decls":["var S15N487_Z = 0","var S15N487_S = \"\"","type S15N487_T0 string","func (r S15N487_T0) D(x0 int) int {\n\trec.E(\"T0.D\", string(r), x0)\n\tr += \"+\"\n\treturn 1 + x0*100\n}","func S15N487_New0(v S15N487_T0) *S15N487_T0 { return \u0026v }","type S15N487_T1 struct {\n\t*S15N487_T0\n}","func (r *S15N487_T1) B(x0 int) int {\n\trec.E(\"T1.B\", string((*r.S15N487_T0)), x0)\n\treturn 2 + x0*100\n}","func S15N487_New1(v S15N487_T1) *S15N487_T1 { return \u0026v }","type S15N487_T2 struct {\n\t*S15N487_T1\n\tB int\n}","func (r S15N487_T2) A() int {\n\trec.E(\"T2.A\", r.B, string((*r.S15N487_T1.S15N487_T0)))\n\tr.B += 1 + 1\n\tin := r.D(1)\n\treturn 3 + 1*100 + r.B + in\n}","func S15N487_New2(v S15N487_T2) *S15N487_T2 { return \u0026v }","type S15N487_T3 struct {\n\tS15N487_T0\n}","func (r *S15N487_T3) C() string {\n\trec.E(\"T3.C\", string(r.S15N487_T0))\n\treturn \"T3.C#4\"\n}","func S15N487_New3(v S15N487_T3) *S15N487_T3 { return \u0026v }","type S15N487_T4 struct {\n\t*S15N487_T3\n\tD int\n}","func (r *S15N487_T4) C() int {\n\trec.E(\"T4.C\", r.D, string(r.S15N487_T3.S15N487_T0))\n\tr.D += 1 + 1\n\treturn 5 + 1*100 + r.D\n}","func S15N487_New4(v S15N487_T4) *S15N487_T4 { return \u0026v }","type S15N487_T5 string","func (r S15N487_T5) D(x0 int) int {\n\trec.E(\"T5.D\", string(r), x0)\n\tr += \"+\"\n\treturn 6 + x0*100\n}","func S15N487_New5(v S15N487_T5) *S15N487_T5 { return \u0026v }","type S15N487_I0 interface {\n\tD(int) int\n}","type S15N487_I1 interface {\n\tS15N487_I0\n\tA() int\n}","type S15N487_I2 interface {\n\tA() int\n}","func S15N487_Id0(i S15N487_I0) S15N487_I0 { return i }","func S15N487_Id1(i S15N487_I1) S15N487_I1 { return i }","func S15N487_Id2(i S15N487_I2) S15N487_I2 { return i }","func S15N487_Id3(i fmt.Stringer) fmt.Stringer { return i }","func S15N487_Id4(i error) error { return i }","func S15N487_Id5(i sort.Interface) sort.Interface { return i }","func S15N487_Mk0() S15N487_T0 { return S15N487_T0(S15N487_S + \"s7\") }","func S15N487_MkP0() *S15N487_T0 { return S15N487_New0(S15N487_T0(S15N487_S + \"s8\")) }","func S15N487_Mk1() S15N487_T1 { return S15N487_T1{S15N487_T0: S15N487_New0(S15N487_T0(S15N487_S + \"s9\"))} }","func S15N487_MkP1() *S15N487_T1 { return S15N487_New1(S15N487_T1{S15N487_T0: S15N487_New0(S15N487_T0(S15N487_S + \"s10\"))}) }","func S15N487_Mk2() S15N487_T2 { return S15N487_T2{S15N487_T1: S15N487_New1(S15N487_T1{S15N487_T0: S15N487_New0(S15N487_T0(S15N487_S + \"s11\"))}), B: 12} }","func S15N487_MkP2() *S15N487_T2 { return S15N487_New2(S15N487_T2{S15N487_T1: \u0026S15N487_T1{S15N487_T0: S15N487_New0(S15N487_T0(S15N487_S + \"s13\"))}, B: 14}) }","func S15N487_Mk3() S15N487_T3 { return S15N487_T3{S15N487_T0: S15N487_T0(S15N487_S + \"s15\")} }","func S15N487_MkP3() *S15N487_T3 { return S15N487_New3(S15N487_T3{S15N487_T0: S15N487_T0(S15N487_S + \"s16\")}) }","func S15N487_Mk4() S15N487_T4 { return S15N487_T4{S15N487_T3: S15N487_New3(S15N487_T3{S15N487_T0: S15N487_T0(S15N487_S + \"s17\")}), D: 18} }","func S15N487_MkP4() *S15N487_T4 { return \u0026S15N487_T4{S15N487_T3: \u0026S15N487_T3{S15N487_T0: S15N487_T0(S15N487_S + \"s19\")}, D: 20} }","func S15N487_Mk5() S15N487_T5 { return S15N487_T5(S15N487_S + \"s21\") }","func S15N487_MkP5() *S15N487_T5 { return S15N487_New5(S15N487_T5(S15N487_S + \"s22\")) }","func S15N487_Main() {\n\tv0 := S15N487_T0(S15N487_S + \"s23\")\n\tp0 := S15N487_New0(S15N487_T0(S15N487_S + \"s24\"))\n\t_, _ = v0, p0\n\ts0 := []S15N487_T0{S15N487_T0(S15N487_S + \"s25\"), S15N487_T0(S15N487_S + \"s26\")}\n\t_ = s0\n\tv1 := S15N487_T1{S15N487_T0: S15N487_New0(S15N487_T0(S15N487_S + \"s27\"))}\n\tp1 := \u0026v1\n\t_, _ = v1, p1\n\tm1 := map[string]S15N487_T1{\"k\": S15N487_T1{S15N487_T0: S15N487_New0(S15N487_T0(S15N487_S + \"s29\"))}}\n\t_ = m1\n\ts1 := []S15N487_T1{S15N487_T1{S15N487_T0: S15N487_New0(S15N487_T0(S15N487_S + \"s30\"))}, S15N487_T1{S15N487_T0: S15N487_New0(S15N487_T0(S15N487_S + \"s31\"))}}\n\t_ = s1\n\tv2 := S15N487_T2{S15N487_T1: \u0026S15N487_T1{S15N487_T0: S15N487_New0(S15N487_T0(S15N487_S + \"s32\"))}, B: 33}\n\tp2 := \u0026S15N487_T2{S15N487_T1: S15N487_New1(S15N487_T1{S15N487_T0: S15N487_New0(S15N487_T0(S15N487_S + \"s34\"))}), B: 35}\n\t_, _ = v2, p2\n\tv3 := S15N487_T3{S15N487_T0: S15N487_T0(S15N487_S + \"s38\")}\n\tp3 := \u0026S15N487_T3{S15N487_T0: S15N487_T0(S15N487_S + \"s39\")}\n\t_, _ = v3, p3\n\tm3 := map[string]S15N487_T3{\"k\": S15N487_T3{S15N487_T0: S15N487_T0(S15N487_S + \"s41\")}}\n\t_ = m3\n\tv4 := S15N487_T4{S15N487_T3: S15N487_New3(S15N487_T3{S15N487_T0: S15N487_T0(S15N487_S + \"s42\")}), D: 43}\n\tp4 := \u0026v4\n\t_, _ = v4, p4\n\tv5 := S15N487_T5(S15N487_S + \"s46\")\n\tp5 := S15N487_New5(S15N487_T5(S15N487_S + \"s47\"))\n\t_, _ = v5, p5\n\tfor _, x1 := range []S15N487_I1{\u0026v2} {\n\t\tswitch x1.(type) {\n\t\tcase S15N487_T2:\n\t\t\trec.E(1, \"case\")\n\t\tcase S15N487_I1:\n\t\t\trec.E(2, \"case\")\n\t\tcase fmt.Stringer:\n\t\t\trec.E(3, \"case\")\n\t\tcase *S15N487_T2:\n\t\t\trec.E(4, \"case\")\n\t\tcase S15N487_I2:\n\t\t\trec.E(5, \"case\")\n\t\t}\n\t}\n\tvar iv3 S15N487_I0 = p0\n\t(*p0) += \"!\"\n\trec.E(6, iv3.D(0))\n\trec.E(7, string((*p0)))\n\tswitch y4 := iv3.(type) {\n\tdefault:\n\t\t_ = y4\n\t\trec.E(8, \"default\")\n\tcase *S15N487_T1, *S15N487_T5:\n\t\t_ = y4\n\t\trec.E(9, \"multi\")\n\tcase *S15N487_T0:\n\t\t_ = y4\n\t\trec.E(10, y4 == nil, string((*y4)))\n\t\trec.E(11, y4.D(2))\n\tcase S15N487_T0:\n\t\t_ = y4\n\t\trec.E(12, string(y4))\n\t\trec.E(13, y4.D(3))\n\t}\n\tme5 := S15N487_T1.D\n\trec.E(14, me5((*v2.S15N487_T1), 1))\n\trec.E(15, v2.B, string((*v2.S15N487_T1.S15N487_T0)))\n\trec.E(16, string(v0))\n\trec.E(17, string((*p0)))\n\trec.E(18, string(s0[0]))\n\trec.E(19, string((*v1.S15N487_T0)))\n\trec.E(20, string((*p1.S15N487_T0)))\n\trec.E(21, string((*s1[1].S15N487_T0)))\n\trec.E(22, v2.B, string((*v2.S15N487_T1.S15N487_T0)))\n\trec.E(23, p2.B, string((*p2.S15N487_T1.S15N487_T0)))\n\trec.E(24, string(v3.S15N487_T0))\n\trec.E(25, string(p3.S15N487_T0))\n\trec.E(26, v4.D, string(v4.S15N487_T3.S15N487_T0))\n\trec.E(27, p4.D, string(p4.S15N487_T3.S15N487_T0))\n\trec.E(28, string(v5))\n\trec.E(29, string((*p5)))\n}"],"entry":"S15N487_Main","tags":["explicit-embedded-path","iface-store-then-mutate","iface:fmt.Stringer","iface:interpreted","method-calls-promoted-method","method-expr","method-expr-stored","pointer-aliases-variable","promoted-method","through-embedded-pointer-or-ptr-recv","ts-mixed:\u003e=2-concrete-cases","ts-mixed:interface-case-before-concrete-match","ts-mixed:interface-case-in-the-middle","ts-mixed:interpreted-values","ts-mixed:subject-of-interpreted-interface-type","ts-mixed:two-interface-cases-match","ts-mixed:unbound","type-switch","type-switch-default","type-switch-multi-type-case"]}
package p

import "verif/rec"
import "fmt"
import "sort"

var _ = rec.E

var S15N487_Z = 0

var S15N487_S = ""

type S15N487_T0 string

func (r S15N487_T0) D(x0 int) int {
	rec.E("T0.D", string(r), x0)
	r += "+"
	return 1 + x0*100
}

func S15N487_New0(v S15N487_T0) *S15N487_T0 { return &v }

type S15N487_T1 struct {
	*S15N487_T0
}

func (r *S15N487_T1) B(x0 int) int {
	rec.E("T1.B", string((*r.S15N487_T0)), x0)
	return 2 + x0*100
}

func S15N487_New1(v S15N487_T1) *S15N487_T1 { return &v }

type S15N487_T2 struct {
	*S15N487_T1
	B int
}

func (r S15N487_T2) A() int {
	rec.E("T2.A", r.B, string((*r.S15N487_T1.S15N487_T0)))
	r.B += 1 + 1
	in := r.D(1)
	return 3 + 1*100 + r.B + in
}

func S15N487_New2(v S15N487_T2) *S15N487_T2 { return &v }

type S15N487_T3 struct {
	S15N487_T0
}

func (r *S15N487_T3) C() string {
	rec.E("T3.C", string(r.S15N487_T0))
	return "T3.C#4"
}

func S15N487_New3(v S15N487_T3) *S15N487_T3 { return &v }

type S15N487_T4 struct {
	*S15N487_T3
	D int
}

func (r *S15N487_T4) C() int {
	rec.E("T4.C", r.D, string(r.S15N487_T3.S15N487_T0))
	r.D += 1 + 1
	return 5 + 1*100 + r.D
}

func S15N487_New4(v S15N487_T4) *S15N487_T4 { return &v }

type S15N487_T5 string

func (r S15N487_T5) D(x0 int) int {
	rec.E("T5.D", string(r), x0)
	r += "+"
	return 6 + x0*100
}

func S15N487_New5(v S15N487_T5) *S15N487_T5 { return &v }

type S15N487_I0 interface {
	D(int) int
}

type S15N487_I1 interface {
	S15N487_I0
	A() int
}

type S15N487_I2 interface {
	A() int
}

func S15N487_Id0(i S15N487_I0) S15N487_I0 { return i }

func S15N487_Id1(i S15N487_I1) S15N487_I1 { return i }

func S15N487_Id2(i S15N487_I2) S15N487_I2 { return i }

func S15N487_Id3(i fmt.Stringer) fmt.Stringer { return i }

func S15N487_Id4(i error) error { return i }

func S15N487_Id5(i sort.Interface) sort.Interface { return i }

func S15N487_Mk0() S15N487_T0 { return S15N487_T0(S15N487_S + "s7") }

func S15N487_MkP0() *S15N487_T0 { return S15N487_New0(S15N487_T0(S15N487_S + "s8")) }

func S15N487_Mk1() S15N487_T1 { return S15N487_T1{S15N487_T0: S15N487_New0(S15N487_T0(S15N487_S + "s9"))} }

func S15N487_MkP1() *S15N487_T1 { return S15N487_New1(S15N487_T1{S15N487_T0: S15N487_New0(S15N487_T0(S15N487_S + "s10"))}) }

func S15N487_Mk2() S15N487_T2 { return S15N487_T2{S15N487_T1: S15N487_New1(S15N487_T1{S15N487_T0: S15N487_New0(S15N487_T0(S15N487_S + "s11"))}), B: 12} }

func S15N487_MkP2() *S15N487_T2 { return S15N487_New2(S15N487_T2{S15N487_T1: &S15N487_T1{S15N487_T0: S15N487_New0(S15N487_T0(S15N487_S + "s13"))}, B: 14}) }

func S15N487_Mk3() S15N487_T3 { return S15N487_T3{S15N487_T0: S15N487_T0(S15N487_S + "s15")} }

func S15N487_MkP3() *S15N487_T3 { return S15N487_New3(S15N487_T3{S15N487_T0: S15N487_T0(S15N487_S + "s16")}) }

func S15N487_Mk4() S15N487_T4 { return S15N487_T4{S15N487_T3: S15N487_New3(S15N487_T3{S15N487_T0: S15N487_T0(S15N487_S + "s17")}), D: 18} }

func S15N487_MkP4() *S15N487_T4 { return &S15N487_T4{S15N487_T3: &S15N487_T3{S15N487_T0: S15N487_T0(S15N487_S + "s19")}, D: 20} }

func S15N487_Mk5() S15N487_T5 { return S15N487_T5(S15N487_S + "s21") }

func S15N487_MkP5() *S15N487_T5 { return S15N487_New5(S15N487_T5(S15N487_S + "s22")) }

func S15N487_Main() {
	v0 := S15N487_T0(S15N487_S + "s23")
	p0 := S15N487_New0(S15N487_T0(S15N487_S + "s24"))
	_, _ = v0, p0
	s0 := []S15N487_T0{S15N487_T0(S15N487_S + "s25"), S15N487_T0(S15N487_S + "s26")}
	_ = s0
	v1 := S15N487_T1{S15N487_T0: S15N487_New0(S15N487_T0(S15N487_S + "s27"))}
	p1 := &v1
	_, _ = v1, p1
	m1 := map[string]S15N487_T1{"k": S15N487_T1{S15N487_T0: S15N487_New0(S15N487_T0(S15N487_S + "s29"))}}
	_ = m1
	s1 := []S15N487_T1{S15N487_T1{S15N487_T0: S15N487_New0(S15N487_T0(S15N487_S + "s30"))}, S15N487_T1{S15N487_T0: S15N487_New0(S15N487_T0(S15N487_S + "s31"))}}
	_ = s1
	v2 := S15N487_T2{S15N487_T1: &S15N487_T1{S15N487_T0: S15N487_New0(S15N487_T0(S15N487_S + "s32"))}, B: 33}
	p2 := &S15N487_T2{S15N487_T1: S15N487_New1(S15N487_T1{S15N487_T0: S15N487_New0(S15N487_T0(S15N487_S + "s34"))}), B: 35}
	_, _ = v2, p2
	v3 := S15N487_T3{S15N487_T0: S15N487_T0(S15N487_S + "s38")}
	p3 := &S15N487_T3{S15N487_T0: S15N487_T0(S15N487_S + "s39")}
	_, _ = v3, p3
	m3 := map[string]S15N487_T3{"k": S15N487_T3{S15N487_T0: S15N487_T0(S15N487_S + "s41")}}
	_ = m3
	v4 := S15N487_T4{S15N487_T3: S15N487_New3(S15N487_T3{S15N487_T0: S15N487_T0(S15N487_S + "s42")}), D: 43}
	p4 := &v4
	_, _ = v4, p4
	v5 := S15N487_T5(S15N487_S + "s46")
	p5 := S15N487_New5(S15N487_T5(S15N487_S + "s47"))
	_, _ = v5, p5
	for _, x1 := range []S15N487_I1{&v2} {
		switch x1.(type) {
		case S15N487_T2:
			rec.E(1, "case")
		case S15N487_I1:
			rec.E(2, "case")
		case fmt.Stringer:
			rec.E(3, "case")
		case *S15N487_T2:
			rec.E(4, "case")
		case S15N487_I2:
			rec.E(5, "case")
		}
	}
	var iv3 S15N487_I0 = p0
	(*p0) += "!"
	rec.E(6, iv3.D(0))
	rec.E(7, string((*p0)))
	switch y4 := iv3.(type) {
	default:
		_ = y4
		rec.E(8, "default")
	case *S15N487_T1, *S15N487_T5:
		_ = y4
		rec.E(9, "multi")
	case *S15N487_T0:
		_ = y4
		rec.E(10, y4 == nil, string((*y4)))
		rec.E(11, y4.D(2))
	case S15N487_T0:
		_ = y4
		rec.E(12, string(y4))
		rec.E(13, y4.D(3))
	}
	me5 := S15N487_T1.D
	rec.E(14, me5((*v2.S15N487_T1), 1))
	rec.E(15, v2.B, string((*v2.S15N487_T1.S15N487_T0)))
	rec.E(16, string(v0))
	rec.E(17, string((*p0)))
	rec.E(18, string(s0[0]))
	rec.E(19, string((*v1.S15N487_T0)))
	rec.E(20, string((*p1.S15N487_T0)))
	rec.E(21, string((*s1[1].S15N487_T0)))
	rec.E(22, v2.B, string((*v2.S15N487_T1.S15N487_T0)))
	rec.E(23, p2.B, string((*p2.S15N487_T1.S15N487_T0)))
	rec.E(24, string(v3.S15N487_T0))
	rec.E(25, string(p3.S15N487_T0))
	rec.E(26, v4.D, string(v4.S15N487_T3.S15N487_T0))
	rec.E(27, p4.D, string(p4.S15N487_T3.S15N487_T0))
	rec.E(28, string(v5))
	rec.E(29, string((*p5)))
}
