//gobatch:{"decls": ["type T int", "func (r *T) M() int { *r += 1; return int(*r) }", "func Main() { v := T(3); rec.E(1, v.M()); rec.E(2, int(v)) }"], "entry": "Main"}
package p

import "verif/rec"

var _ = rec.E

type T int

func (r *T) M() int { *r += 1; return int(*r) }

func Main() { v := T(3); rec.E(1, v.M()); rec.E(2, int(v)) }
