//gobatch:{"decls": ["type A struct{ X int }", "type B struct{ X int }", "func Main() {\n\tvar x interface{} = A{1}\n\t_, ok := x.(B)\n\trec.E(1, ok)\n\t_, ok2 := x.(A)\n\trec.E(2, ok2)\n\tswitch x.(type) {\n\tcase B:\n\t\trec.E(3, \"B\")\n\tcase A:\n\t\trec.E(3, \"A\")\n\t}\n\tvar y interface{} = &A{1}\n\t_, ok3 := y.(*B)\n\trec.E(4, ok3)\n}"], "entry": "Main"}
package p

import "verif/rec"

var _ = rec.E

type A struct{ X int }

type B struct{ X int }

func Main() {
	var x interface{} = A{1}
	_, ok := x.(B)
	rec.E(1, ok)
	_, ok2 := x.(A)
	rec.E(2, ok2)
	switch x.(type) {
	case B:
		rec.E(3, "B")
	case A:
		rec.E(3, "A")
	}
	var y interface{} = &A{1}
	_, ok3 := y.(*B)
	rec.E(4, ok3)
}
