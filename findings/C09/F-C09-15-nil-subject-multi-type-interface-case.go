//gobatch:{"decls": ["func Main() {\n\tfor _, x := range []interface{}{nil, 3, \"s\"} {\n\t\tswitch x.(type) {\n\t\tcase error, int:\n\t\t\trec.E(1)\n\t\tcase string:\n\t\t\trec.E(2)\n\t\tdefault:\n\t\t\trec.E(3)\n\t\t}\n\t}\n\tvar e error\n\tswitch e.(type) {\n\tcase fmt.Stringer, nil:\n\t\trec.E(4)\n\t}\n}"], "entry": "Main", "imports": ["fmt"]}
package p

import "verif/rec"
import "fmt"

var _ = rec.E

func Main() {
	for _, x := range []interface{}{nil, 3, "s"} {
		switch x.(type) {
		case error, int:
			rec.E(1)
		case string:
			rec.E(2)
		default:
			rec.E(3)
		}
	}
	var e error
	switch e.(type) {
	case fmt.Stringer, nil:
		rec.E(4)
	}
}
