//gobatch:{"decls": ["type A struct{ B int }", "type C struct{ B string }", "type T struct{ A; C }", "func (t T) B() int { return 1 }", "func Main() { t := T{}; rec.E(1, t.B()) }"], "entry": "Main"}
package p

import "verif/rec"

var _ = rec.E

type A struct{ B int }

type C struct{ B string }

type T struct{ A; C }

func (t T) B() int { return 1 }

func Main() { t := T{}; rec.E(1, t.B()) }
