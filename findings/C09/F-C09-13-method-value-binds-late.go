//gobatch:{"decls": ["type T struct{ A int }", "func (r T) M() int { return r.A }", "func Main() { v := T{1}; f := v.M; v.A = 2; rec.E(1, f()); p := &v; g := p.M; v.A = 3; rec.E(2, g()) }"], "entry": "Main"}
package p

import "verif/rec"

var _ = rec.E

type T struct{ A int }

func (r T) M() int { return r.A }

func Main() { v := T{1}; f := v.M; v.A = 2; rec.E(1, f()); p := &v; g := p.M; v.A = 3; rec.E(2, g()) }
