//gobatch:{"decls": ["type T struct{ A int }", "func (r T) M() int { return r.A }", "type I interface{ M() int }", "func Main() {\n\tvar x I\n\tswitch x.(type) {\n\tcase T:\n\t\trec.E(1)\n\tcase nil:\n\t\trec.E(3)\n\tdefault:\n\t\trec.E(2)\n\t}\n\t_, ok := x.(T)\n\trec.E(4, ok)\n}"], "entry": "Main"}
package p

import "verif/rec"

var _ = rec.E

type T struct{ A int }

func (r T) M() int { return r.A }

type I interface{ M() int }

func Main() {
	var x I
	switch x.(type) {
	case T:
		rec.E(1)
	case nil:
		rec.E(3)
	default:
		rec.E(2)
	}
	_, ok := x.(T)
	rec.E(4, ok)
}
