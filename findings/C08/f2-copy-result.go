//gobatch:{"decls": ["func F_main() {\n\ts := []int{1, 2, 3, 4}\n\tn := copy(s, s[2:])\n\trec.E(1, n, s)\n\tvar k int\n\tk = copy(s[1:], []int{7, 8, 9, 10, 11})\n\trec.E(2, k, s, 1+copy(s, s))\n}"], "entry": "F_main"}
package p

import "verif/rec"

var _ = rec.E

func F_main() {
	s := []int{1, 2, 3, 4}
	n := copy(s, s[2:])
	rec.E(1, n, s)
	var k int
	k = copy(s[1:], []int{7, 8, 9, 10, 11})
	rec.E(2, k, s, 1+copy(s, s))
}
