//gobatch:{"decls": ["func F_main() {\n\tvar q *[5]int\n\trec.E(1, len(q), q == nil)\n\trec.E(2, cap(q))\n}"], "entry": "F_main"}
package p

import "verif/rec"

var _ = rec.E

func F_main() {
	var q *[5]int
	rec.E(1, len(q), q == nil)
	rec.E(2, cap(q))
}
