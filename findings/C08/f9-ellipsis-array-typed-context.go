//gobatch:{"decls": ["func F_main() {\n\ta := [1][2]int{[...]int{7, 8}}\n\tvar b [2]int\n\tb = [...]int{1, 2}\n\ts := [][2]int{{1, 1}}\n\ts[0] = [...]int{5, 6}\n\tm := map[string][2]int{}\n\tm[\"k\"] = [...]int{3, 4}\n\trec.E(1, a, b, s, m)\n}"], "entry": "F_main"}
package p

import "verif/rec"

var _ = rec.E

func F_main() {
	a := [1][2]int{[...]int{7, 8}}
	var b [2]int
	b = [...]int{1, 2}
	s := [][2]int{{1, 1}}
	s[0] = [...]int{5, 6}
	m := map[string][2]int{}
	m["k"] = [...]int{3, 4}
	rec.E(1, a, b, s, m)
}
