//gobatch:{"decls": ["type F_T struct {\n\tA int\n\tB string\n}", "func F_main() {\n\tvar q *[3]int\n\tfunc() {\n\t\tdefer func() { rec.R(\"array\", recover()) }()\n\t\trec.E(1, *q)\n\t}()\n\tvar p *F_T\n\tfunc() {\n\t\tdefer func() { rec.R(\"struct\", recover()) }()\n\t\trec.E(2, *p)\n\t}()\n\tfunc() {\n\t\tdefer func() { rec.R(\"assign\", recover()) }()\n\t\tx := *q\n\t\trec.E(3, x)\n\t}()\n}"], "entry": "F_main"}
package p

import "verif/rec"

var _ = rec.E

type F_T struct {
	A int
	B string
}

func F_main() {
	var q *[3]int
	func() {
		defer func() { rec.R("array", recover()) }()
		rec.E(1, *q)
	}()
	var p *F_T
	func() {
		defer func() { rec.R("struct", recover()) }()
		rec.E(2, *p)
	}()
	func() {
		defer func() { rec.R("assign", recover()) }()
		x := *q
		rec.E(3, x)
	}()
}
