//gobatch:{"decls": ["func F_main() {\n\tm := map[interface{}]int{\"a\": 1}\n\tm[nil] = 2\n\trec.E(1, len(m))\n\tfunc() {\n\t\tdefer func() { rec.R(\"read\", recover()) }()\n\t\trec.E(2, m[nil])\n\t}()\n\tfunc() {\n\t\tdefer func() { rec.R(\"commaok\", recover()) }()\n\t\tv, ok := m[nil]\n\t\trec.E(3, v, ok)\n\t}()\n}"], "entry": "F_main"}
package p

import "verif/rec"

var _ = rec.E

func F_main() {
	m := map[interface{}]int{"a": 1}
	m[nil] = 2
	rec.E(1, len(m))
	func() {
		defer func() { rec.R("read", recover()) }()
		rec.E(2, m[nil])
	}()
	func() {
		defer func() { rec.R("commaok", recover()) }()
		v, ok := m[nil]
		rec.E(3, v, ok)
	}()
}
