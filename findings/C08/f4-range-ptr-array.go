//gobatch:{"decls": ["func F_main() {\n\ta := [3]int{1, 2, 3}\n\tp := &a\n\tfor i, v := range p {\n\t\ta[2] = 9\n\t\trec.E(1, i, v)\n\t}\n\tfor i, v := range a {\n\t\ta[2] = 7\n\t\trec.E(2, i, v)\n\t}\n\trec.E(3, a)\n}"], "entry": "F_main"}
package p

import "verif/rec"

var _ = rec.E

func F_main() {
	a := [3]int{1, 2, 3}
	p := &a
	for i, v := range p {
		a[2] = 9
		rec.E(1, i, v)
	}
	for i, v := range a {
		a[2] = 7
		rec.E(2, i, v)
	}
	rec.E(3, a)
}
