//gobatch:{"decls": ["func F_show(args ...interface{}) int {\n\trec.E(len(args))\n\treturn len(args)\n}", "func F_main() {\n\tm := map[string]int{\"a\": 1}\n\trec.E(m[\"a\"])\n\trec.E(F_show(m[\"a\"]))\n\trec.E(F_show(m[\"zz\"]))\n}"], "entry": "F_main"}
package p

import "verif/rec"

var _ = rec.E

func F_show(args ...interface{}) int {
	rec.E(len(args))
	return len(args)
}

func F_main() {
	m := map[string]int{"a": 1}
	rec.E(m["a"])
	rec.E(F_show(m["a"]))
	rec.E(F_show(m["zz"]))
}
