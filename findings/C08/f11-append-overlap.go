//gobatch:{"decls": ["func F_main() {\n\ts := make([]int, 2, 3)\n\ts[0], s[1] = 5, -128\n\tt := append(s[:1], s...)\n\trec.E(1, t, s)\n\tu := make([]int, 3, 6)\n\tu[0], u[1], u[2] = 1, 2, 3\n\tw := append(u[:1], u...)\n\trec.E(2, w, u[:4])\n}"], "entry": "F_main"}
package p

import "verif/rec"

var _ = rec.E

func F_main() {
	s := make([]int, 2, 3)
	s[0], s[1] = 5, -128
	t := append(s[:1], s...)
	rec.E(1, t, s)
	u := make([]int, 3, 6)
	u[0], u[1], u[2] = 1, 2, 3
	w := append(u[:1], u...)
	rec.E(2, w, u[:4])
}
