//gobatch:{"decls": ["func F_main() {\n\tl, c := 3, 1\n\tfunc() {\n\t\tdefer func() { rec.E(\"len>cap\", recover() != nil) }()\n\t\ts := make([]int, l, c)\n\t\trec.E(1, len(s), cap(s))\n\t}()\n\tl = -1\n\tfunc() {\n\t\tdefer func() { rec.R(\"neglen\", recover()) }()\n\t\ts := make([]int, l, c)\n\t\trec.E(2, len(s), cap(s))\n\t}()\n}"], "entry": "F_main"}
package p

import "verif/rec"

var _ = rec.E

func F_main() {
	l, c := 3, 1
	func() {
		defer func() { rec.E("len>cap", recover() != nil) }()
		s := make([]int, l, c)
		rec.E(1, len(s), cap(s))
	}()
	l = -1
	func() {
		defer func() { rec.R("neglen", recover()) }()
		s := make([]int, l, c)
		rec.E(2, len(s), cap(s))
	}()
}
