//gobatch:{"decls": ["func F_main() {\n\tm := map[int]int{}\n\tm[1] += 0\n\tm[2] -= 0\n\tm[3] *= 1\n\tm[4] += 1\n\trec.E(1, m, len(m))\n\tms := map[string]string{}\n\tms[\"k\"] += \"\"\n\trec.E(2, ms)\n\tvar nm map[int]int\n\tfunc() {\n\t\tdefer func() { rec.R(\"nilmap\", recover()) }()\n\t\tnm[1] += 0\n\t}()\n\tvar p *int\n\tfunc() {\n\t\tdefer func() { rec.R(\"nilptr\", recover()) }()\n\t\t*p += 0\n\t}()\n}"], "entry": "F_main"}
package p

import "verif/rec"

var _ = rec.E

func F_main() {
	m := map[int]int{}
	m[1] += 0
	m[2] -= 0
	m[3] *= 1
	m[4] += 1
	rec.E(1, m, len(m))
	ms := map[string]string{}
	ms["k"] += ""
	rec.E(2, ms)
	var nm map[int]int
	func() {
		defer func() { rec.R("nilmap", recover()) }()
		nm[1] += 0
	}()
	var p *int
	func() {
		defer func() { rec.R("nilptr", recover()) }()
		*p += 0
	}()
}
