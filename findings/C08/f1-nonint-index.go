//gobatch:{"decls": ["func F_main() {\n\ts := []int{10, 20, 30}\n\ta := [3]int{1, 2, 3}\n\tvar u uint8 = 1\n\tvar i64 int64 = 2\n\tvar un uint = 1\n\ts[u] = 11\n\ta[i64] = 33\n\tp := &a\n\tp[un] = 22\n\tq := &s[u]\n\t*q = 12\n\trec.E(1, s, a, s[u:], s[:i64], a[un:i64:i64], p[u:])\n\trec.E(2, make([]int, u), make([]string, un, i64))\n}"], "entry": "F_main"}
package p

import "verif/rec"

var _ = rec.E

func F_main() {
	s := []int{10, 20, 30}
	a := [3]int{1, 2, 3}
	var u uint8 = 1
	var i64 int64 = 2
	var un uint = 1
	s[u] = 11
	a[i64] = 33
	p := &a
	p[un] = 22
	q := &s[u]
	*q = 12
	rec.E(1, s, a, s[u:], s[:i64], a[un:i64:i64], p[u:])
	rec.E(2, make([]int, u), make([]string, un, i64))
}
