//gobatch:{"decls": ["var c complex128 = (1+2i)", "p := &c", "*p = 5", "rec.E(1, c, *p)", "c = (3-1i)", "rec.E(2, c, *p)"], "entry": "R_main", "tags": [], "meta": {"mode": "eval"}}
package p

import "verif/rec"

var _ = rec.E

var c complex128 = (1+2i)

p := &c

*p = 5

rec.E(1, c, *p)

c = (3-1i)

rec.E(2, c, *p)
