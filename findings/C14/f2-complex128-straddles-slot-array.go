//gobatch:{"decls": ["var x int = 7", "p := &x", "var b_0 int = 0", "var b_1 int = 1", "var b_2 int = 2", "var b_3 int = 3", "var b_4 int = 4", "var b_5 int = 5", "var b_6 int = 6", "var b_7 int = 7", "var b_8 int = 8", "var b_9 int = 9", "var b_10 int = 10", "var b_11 int = 11", "var b_12 int = 12", "var b_13 int = 13", "var b_14 int = 14", "var b_15 int = 15", "var b_16 int = 16", "var b_17 int = 17", "var b_18 int = 18", "var b_19 int = 19", "var b_20 int = 20", "var b_21 int = 21", "var b_22 int = 22", "var b_23 int = 23", "var b_24 int = 24", "var b_25 int = 25", "var b_26 int = 26", "var b_27 int = 27", "var b_28 int = 28", "var b_29 int = 29", "var b_30 int = 30", "var b_31 int = 31", "var b_32 int = 32", "var b_33 int = 33", "var b_34 int = 34", "var b_35 int = 35", "var b_36 int = 36", "var b_37 int = 37", "var b_38 int = 38", "var b_39 int = 39", "var b_40 int = 40", "var b_41 int = 41", "var b_42 int = 42", "var b_43 int = 43", "var b_44 int = 44", "var b_45 int = 45", "var b_46 int = 46", "var b_47 int = 47", "var b_48 int = 48", "var b_49 int = 49", "var b_50 int = 50", "var b_51 int = 51", "var b_52 int = 52", "var b_53 int = 53", "var b_54 int = 54", "var b_55 int = 55", "var b_56 int = 56", "var b_57 int = 57", "var b_58 int = 58", "var b_59 int = 59", "var b_60 int = 60", "var b_61 int = 61", "var b_62 int = 62", "var b_63 int = 63", "var b_64 int = 64", "var b_65 int = 65", "var b_66 int = 66", "var b_67 int = 67", "var b_68 int = 68", "var b_69 int = 69", "var b_70 int = 70", "var b_71 int = 71", "var b_72 int = 72", "var b_73 int = 73", "var b_74 int = 74", "var b_75 int = 75", "var b_76 int = 76", "var b_77 int = 77", "var b_78 int = 78", "var b_79 int = 79", "var b_80 int = 80", "var b_81 int = 81", "var b_82 int = 82", "var b_83 int = 83", "var b_84 int = 84", "var b_85 int = 85", "var b_86 int = 86", "var b_87 int = 87", "var b_88 int = 88", "var b_89 int = 89", "var b_90 int = 90", "var b_91 int = 91", "var b_92 int = 92", "var b_93 int = 93", "var b_94 int = 94", "var b_95 int = 95", "var b_96 int = 96", "var b_97 int = 97", "var b_98 int = 98", "var b_99 int = 99", "var b_100 int = 100", "var b_101 int = 101", "var b_102 int = 102", "var b_103 int = 103", "var b_104 int = 104", "var b_105 int = 105", "var b_106 int = 106", "var b_107 int = 107", "var b_108 int = 108", "var b_109 int = 109", "var b_110 int = 110", "var b_111 int = 111", "var b_112 int = 112", "var b_113 int = 113", "var b_114 int = 114", "var b_115 int = 115", "var b_116 int = 116", "var b_117 int = 117", "var b_118 int = 118", "var b_119 int = 119", "var b_120 int = 120", "var b_121 int = 121", "var b_122 int = 122", "var b_123 int = 123", "var b_124 int = 124", "var b_125 int = 125", "var b_126 int = 126", "var b_127 int = 127", "var b_128 int = 128", "var b_129 int = 129", "var b_130 int = 130", "var b_131 int = 131", "var b_132 int = 132", "var b_133 int = 133", "var b_134 int = 134", "var b_135 int = 135", "var b_136 int = 136", "var b_137 int = 137", "var b_138 int = 138", "var b_139 int = 139", "var b_140 int = 140", "var b_141 int = 141", "var b_142 int = 142", "var b_143 int = 143", "var b_144 int = 144", "var b_145 int = 145", "var b_146 int = 146", "var b_147 int = 147", "var b_148 int = 148", "var b_149 int = 149", "var b_150 int = 150", "var b_151 int = 151", "var b_152 int = 152", "var b_153 int = 153", "var b_154 int = 154", "var b_155 int = 155", "var b_156 int = 156", "var b_157 int = 157", "var b_158 int = 158", "var b_159 int = 159", "var b_160 int = 160", "var b_161 int = 161", "var b_162 int = 162", "var b_163 int = 163", "var b_164 int = 164", "var b_165 int = 165", "var b_166 int = 166", "var b_167 int = 167", "var b_168 int = 168", "var b_169 int = 169", "var b_170 int = 170", "var b_171 int = 171", "var b_172 int = 172", "var b_173 int = 173", "var b_174 int = 174", "var b_175 int = 175", "var b_176 int = 176", "var b_177 int = 177", "var b_178 int = 178", "var b_179 int = 179", "var b_180 int = 180", "var b_181 int = 181", "var b_182 int = 182", "var b_183 int = 183", "var b_184 int = 184", "var b_185 int = 185", "var b_186 int = 186", "var b_187 int = 187", "var b_188 int = 188", "var b_189 int = 189", "var b_190 int = 190", "var b_191 int = 191", "var b_192 int = 192", "var b_193 int = 193", "var b_194 int = 194", "var b_195 int = 195", "var b_196 int = 196", "var b_197 int = 197", "var b_198 int = 198", "var b_199 int = 199", "var b_200 int = 200", "var b_201 int = 201", "var b_202 int = 202", "var b_203 int = 203", "var b_204 int = 204", "var b_205 int = 205", "var b_206 int = 206", "var b_207 int = 207", "var b_208 int = 208", "var b_209 int = 209", "var b_210 int = 210", "var b_211 int = 211", "var b_212 int = 212", "var b_213 int = 213", "var b_214 int = 214", "var b_215 int = 215", "var b_216 int = 216", "var b_217 int = 217", "var b_218 int = 218", "var b_219 int = 219", "var b_220 int = 220", "var b_221 int = 221", "var b_222 int = 222", "var b_223 int = 223", "var b_224 int = 224", "var b_225 int = 225", "var b_226 int = 226", "var b_227 int = 227", "var b_228 int = 228", "var b_229 int = 229", "var b_230 int = 230", "var b_231 int = 231", "var b_232 int = 232", "var b_233 int = 233", "var b_234 int = 234", "var b_235 int = 235", "var b_236 int = 236", "var b_237 int = 237", "var b_238 int = 238", "var b_239 int = 239", "var b_240 int = 240", "var b_241 int = 241", "var b_242 int = 242", "var b_243 int = 243", "var b_244 int = 244", "var b_245 int = 245", "var b_246 int = 246", "var b_247 int = 247", "var b_248 int = 248", "var b_249 int = 249", "var b_250 int = 250", "var b_251 int = 251", "var b_252 int = 252", "var b_253 int = 253", "var b_254 int = 254", "var b_255 int = 255", "var b_256 int = 256", "var b_257 int = 257", "var b_258 int = 258", "var b_259 int = 259", "var b_260 int = 260", "var b_261 int = 261", "var b_262 int = 262", "var b_263 int = 263", "var b_264 int = 264", "var b_265 int = 265", "var b_266 int = 266", "var b_267 int = 267", "var b_268 int = 268", "var b_269 int = 269", "var b_270 int = 270", "var b_271 int = 271", "var b_272 int = 272", "var b_273 int = 273", "var b_274 int = 274", "var b_275 int = 275", "var b_276 int = 276", "var b_277 int = 277", "var b_278 int = 278", "var b_279 int = 279", "var b_280 int = 280", "var b_281 int = 281", "var b_282 int = 282", "var b_283 int = 283", "var b_284 int = 284", "var b_285 int = 285", "var b_286 int = 286", "var b_287 int = 287", "var b_288 int = 288", "var b_289 int = 289", "var b_290 int = 290", "var b_291 int = 291", "var b_292 int = 292", "var b_293 int = 293", "var b_294 int = 294", "var b_295 int = 295", "var b_296 int = 296", "var b_297 int = 297", "var b_298 int = 298", "var b_299 int = 299", "var b_300 int = 300", "var b_301 int = 301", "var b_302 int = 302", "var b_303 int = 303", "var b_304 int = 304", "var b_305 int = 305", "var b_306 int = 306", "var b_307 int = 307", "var b_308 int = 308", "var b_309 int = 309", "var b_310 int = 310", "var b_311 int = 311", "var b_312 int = 312", "var b_313 int = 313", "var b_314 int = 314", "var b_315 int = 315", "var b_316 int = 316", "var b_317 int = 317", "var b_318 int = 318", "var b_319 int = 319", "var b_320 int = 320", "var b_321 int = 321", "var b_322 int = 322", "var b_323 int = 323", "var b_324 int = 324", "var b_325 int = 325", "var b_326 int = 326", "var b_327 int = 327", "var b_328 int = 328", "var b_329 int = 329", "var b_330 int = 330", "var b_331 int = 331", "var b_332 int = 332", "var b_333 int = 333", "var b_334 int = 334", "var b_335 int = 335", "var b_336 int = 336", "var b_337 int = 337", "var b_338 int = 338", "var b_339 int = 339", "var b_340 int = 340", "var b_341 int = 341", "var b_342 int = 342", "var b_343 int = 343", "var b_344 int = 344", "var b_345 int = 345", "var b_346 int = 346", "var b_347 int = 347", "var b_348 int = 348", "var b_349 int = 349", "var b_350 int = 350", "var b_351 int = 351", "var b_352 int = 352", "var b_353 int = 353", "var b_354 int = 354", "var b_355 int = 355", "var b_356 int = 356", "var b_357 int = 357", "var b_358 int = 358", "var b_359 int = 359", "var b_360 int = 360", "var b_361 int = 361", "var b_362 int = 362", "var b_363 int = 363", "var b_364 int = 364", "var b_365 int = 365", "var b_366 int = 366", "var b_367 int = 367", "var b_368 int = 368", "var b_369 int = 369", "var b_370 int = 370", "var b_371 int = 371", "var b_372 int = 372", "var b_373 int = 373", "var b_374 int = 374", "var b_375 int = 375", "var b_376 int = 376", "var b_377 int = 377", "var b_378 int = 378", "var b_379 int = 379", "var b_380 int = 380", "var b_381 int = 381", "var b_382 int = 382", "var b_383 int = 383", "var b_384 int = 384", "var b_385 int = 385", "var b_386 int = 386", "var b_387 int = 387", "var b_388 int = 388", "var b_389 int = 389", "var b_390 int = 390", "var b_391 int = 391", "var b_392 int = 392", "var b_393 int = 393", "var b_394 int = 394", "var b_395 int = 395", "var b_396 int = 396", "var b_397 int = 397", "var b_398 int = 398", "var b_399 int = 399", "var b_400 int = 400", "var b_401 int = 401", "var b_402 int = 402", "var b_403 int = 403", "var b_404 int = 404", "var b_405 int = 405", "var b_406 int = 406", "var b_407 int = 407", "var b_408 int = 408", "var b_409 int = 409", "var b_410 int = 410", "var b_411 int = 411", "var b_412 int = 412", "var b_413 int = 413", "var b_414 int = 414", "var b_415 int = 415", "var b_416 int = 416", "var b_417 int = 417", "var b_418 int = 418", "var b_419 int = 419", "var b_420 int = 420", "var b_421 int = 421", "var b_422 int = 422", "var b_423 int = 423", "var b_424 int = 424", "var b_425 int = 425", "var b_426 int = 426", "var b_427 int = 427", "var b_428 int = 428", "var b_429 int = 429", "var b_430 int = 430", "var b_431 int = 431", "var b_432 int = 432", "var b_433 int = 433", "var b_434 int = 434", "var b_435 int = 435", "var b_436 int = 436", "var b_437 int = 437", "var b_438 int = 438", "var b_439 int = 439", "var b_440 int = 440", "var b_441 int = 441", "var b_442 int = 442", "var b_443 int = 443", "var b_444 int = 444", "var b_445 int = 445", "var b_446 int = 446", "var b_447 int = 447", "var b_448 int = 448", "var b_449 int = 449", "var b_450 int = 450", "var b_451 int = 451", "var b_452 int = 452", "var b_453 int = 453", "var b_454 int = 454", "var b_455 int = 455", "var b_456 int = 456", "var b_457 int = 457", "var b_458 int = 458", "var b_459 int = 459", "var b_460 int = 460", "var b_461 int = 461", "var b_462 int = 462", "var b_463 int = 463", "var b_464 int = 464", "var b_465 int = 465", "var b_466 int = 466", "var b_467 int = 467", "var b_468 int = 468", "var b_469 int = 469", "var b_470 int = 470", "var b_471 int = 471", "var b_472 int = 472", "var b_473 int = 473", "var b_474 int = 474", "var b_475 int = 475", "var b_476 int = 476", "var b_477 int = 477", "var b_478 int = 478", "var b_479 int = 479", "var b_480 int = 480", "var b_481 int = 481", "var b_482 int = 482", "var b_483 int = 483", "var b_484 int = 484", "var b_485 int = 485", "var b_486 int = 486", "var b_487 int = 487", "var b_488 int = 488", "var b_489 int = 489", "var b_490 int = 490", "var b_491 int = 491", "var b_492 int = 492", "var b_493 int = 493", "var b_494 int = 494", "var b_495 int = 495", "var b_496 int = 496", "var b_497 int = 497", "var b_498 int = 498", "var b_499 int = 499", "var b_500 int = 500", "var b_501 int = 501", "var b_502 int = 502", "var b_503 int = 503", "var b_504 int = 504", "var b_505 int = 505", "var b_506 int = 506", "var b_507 int = 507", "var b_508 int = 508", "var b_509 int = 509", "var b_510 int = 510", "var b_511 int = 511", "var b_512 int = 512", "var b_513 int = 513", "var b_514 int = 514", "var b_515 int = 515", "var b_516 int = 516", "var b_517 int = 517", "var b_518 int = 518", "var b_519 int = 519", "var b_520 int = 520", "var b_521 int = 521", "var b_522 int = 522", "var b_523 int = 523", "var b_524 int = 524", "var b_525 int = 525", "var b_526 int = 526", "var b_527 int = 527", "var b_528 int = 528", "var b_529 int = 529", "var b_530 int = 530", "var b_531 int = 531", "var b_532 int = 532", "var b_533 int = 533", "var b_534 int = 534", "var b_535 int = 535", "var b_536 int = 536", "var b_537 int = 537", "var b_538 int = 538", "var b_539 int = 539", "var b_540 int = 540", "var b_541 int = 541", "var b_542 int = 542", "var b_543 int = 543", "var b_544 int = 544", "var b_545 int = 545", "var b_546 int = 546", "var b_547 int = 547", "var b_548 int = 548", "var b_549 int = 549", "var b_550 int = 550", "var b_551 int = 551", "var b_552 int = 552", "var b_553 int = 553", "var b_554 int = 554", "var b_555 int = 555", "var b_556 int = 556", "var b_557 int = 557", "var b_558 int = 558", "var b_559 int = 559", "var b_560 int = 560", "var b_561 int = 561", "var b_562 int = 562", "var b_563 int = 563", "var b_564 int = 564", "var b_565 int = 565", "var b_566 int = 566", "var b_567 int = 567", "var b_568 int = 568", "var b_569 int = 569", "var b_570 int = 570", "var b_571 int = 571", "var b_572 int = 572", "var b_573 int = 573", "var b_574 int = 574", "var b_575 int = 575", "var b_576 int = 576", "var b_577 int = 577", "var b_578 int = 578", "var b_579 int = 579", "var b_580 int = 580", "var b_581 int = 581", "var b_582 int = 582", "var b_583 int = 583", "var b_584 int = 584", "var b_585 int = 585", "var b_586 int = 586", "var b_587 int = 587", "var b_588 int = 588", "var b_589 int = 589", "var b_590 int = 590", "var b_591 int = 591", "var b_592 int = 592", "var b_593 int = 593", "var b_594 int = 594", "var b_595 int = 595", "var b_596 int = 596", "var b_597 int = 597", "var b_598 int = 598", "var b_599 int = 599", "var b_600 int = 600", "var b_601 int = 601", "var b_602 int = 602", "var b_603 int = 603", "var b_604 int = 604", "var b_605 int = 605", "var b_606 int = 606", "var b_607 int = 607", "var b_608 int = 608", "var b_609 int = 609", "var b_610 int = 610", "var b_611 int = 611", "var b_612 int = 612", "var b_613 int = 613", "var b_614 int = 614", "var b_615 int = 615", "var b_616 int = 616", "var b_617 int = 617", "var b_618 int = 618", "var b_619 int = 619", "var b_620 int = 620", "var b_621 int = 621", "var b_622 int = 622", "var b_623 int = 623", "var b_624 int = 624", "var b_625 int = 625", "var b_626 int = 626", "var b_627 int = 627", "var b_628 int = 628", "var b_629 int = 629", "var b_630 int = 630", "var b_631 int = 631", "var b_632 int = 632", "var b_633 int = 633", "var b_634 int = 634", "var b_635 int = 635", "var b_636 int = 636", "var b_637 int = 637", "var b_638 int = 638", "var b_639 int = 639", "var b_640 int = 640", "var b_641 int = 641", "var b_642 int = 642", "var b_643 int = 643", "var b_644 int = 644", "var b_645 int = 645", "var b_646 int = 646", "var b_647 int = 647", "var b_648 int = 648", "var b_649 int = 649", "var b_650 int = 650", "var b_651 int = 651", "var b_652 int = 652", "var b_653 int = 653", "var b_654 int = 654", "var b_655 int = 655", "var b_656 int = 656", "var b_657 int = 657", "var b_658 int = 658", "var b_659 int = 659", "var b_660 int = 660", "var b_661 int = 661", "var b_662 int = 662", "var b_663 int = 663", "var b_664 int = 664", "var b_665 int = 665", "var b_666 int = 666", "var b_667 int = 667", "var b_668 int = 668", "var b_669 int = 669", "var b_670 int = 670", "var b_671 int = 671", "var b_672 int = 672", "var b_673 int = 673", "var b_674 int = 674", "var b_675 int = 675", "var b_676 int = 676", "var b_677 int = 677", "var b_678 int = 678", "var b_679 int = 679", "var b_680 int = 680", "var b_681 int = 681", "var b_682 int = 682", "var b_683 int = 683", "var b_684 int = 684", "var b_685 int = 685", "var b_686 int = 686", "var b_687 int = 687", "var b_688 int = 688", "var b_689 int = 689", "var b_690 int = 690", "var b_691 int = 691", "var b_692 int = 692", "var b_693 int = 693", "var b_694 int = 694", "var b_695 int = 695", "var b_696 int = 696", "var b_697 int = 697", "var b_698 int = 698", "var b_699 int = 699", "var b_700 int = 700", "var b_701 int = 701", "var b_702 int = 702", "var b_703 int = 703", "var b_704 int = 704", "var b_705 int = 705", "var b_706 int = 706", "var b_707 int = 707", "var b_708 int = 708", "var b_709 int = 709", "var b_710 int = 710", "var b_711 int = 711", "var b_712 int = 712", "var b_713 int = 713", "var b_714 int = 714", "var b_715 int = 715", "var b_716 int = 716", "var b_717 int = 717", "var b_718 int = 718", "var b_719 int = 719", "var b_720 int = 720", "var b_721 int = 721", "var b_722 int = 722", "var b_723 int = 723", "var b_724 int = 724", "var b_725 int = 725", "var b_726 int = 726", "var b_727 int = 727", "var b_728 int = 728", "var b_729 int = 729", "var b_730 int = 730", "var b_731 int = 731", "var b_732 int = 732", "var b_733 int = 733", "var b_734 int = 734", "var b_735 int = 735", "var b_736 int = 736", "var b_737 int = 737", "var b_738 int = 738", "var b_739 int = 739", "var b_740 int = 740", "var b_741 int = 741", "var b_742 int = 742", "var b_743 int = 743", "var b_744 int = 744", "var b_745 int = 745", "var b_746 int = 746", "var b_747 int = 747", "var b_748 int = 748", "var b_749 int = 749", "var b_750 int = 750", "var b_751 int = 751", "var b_752 int = 752", "var b_753 int = 753", "var b_754 int = 754", "var b_755 int = 755", "var b_756 int = 756", "var b_757 int = 757", "var b_758 int = 758", "var b_759 int = 759", "var b_760 int = 760", "var b_761 int = 761", "var b_762 int = 762", "var b_763 int = 763", "var b_764 int = 764", "var b_765 int = 765", "var b_766 int = 766", "var b_767 int = 767", "var b_768 int = 768", "var b_769 int = 769", "var b_770 int = 770", "var b_771 int = 771", "var b_772 int = 772", "var b_773 int = 773", "var b_774 int = 774", "var b_775 int = 775", "var b_776 int = 776", "var b_777 int = 777", "var b_778 int = 778", "var b_779 int = 779", "var b_780 int = 780", "var b_781 int = 781", "var b_782 int = 782", "var b_783 int = 783", "var b_784 int = 784", "var b_785 int = 785", "var b_786 int = 786", "var b_787 int = 787", "var b_788 int = 788", "var b_789 int = 789", "var b_790 int = 790", "var b_791 int = 791", "var b_792 int = 792", "var b_793 int = 793", "var b_794 int = 794", "var b_795 int = 795", "var b_796 int = 796", "var b_797 int = 797", "var b_798 int = 798", "var b_799 int = 799", "var b_800 int = 800", "var b_801 int = 801", "var b_802 int = 802", "var b_803 int = 803", "var b_804 int = 804", "var b_805 int = 805", "var b_806 int = 806", "var b_807 int = 807", "var b_808 int = 808", "var b_809 int = 809", "var b_810 int = 810", "var b_811 int = 811", "var b_812 int = 812", "var b_813 int = 813", "var b_814 int = 814", "var b_815 int = 815", "var b_816 int = 816", "var b_817 int = 817", "var b_818 int = 818", "var b_819 int = 819", "var b_820 int = 820", "var b_821 int = 821", "var b_822 int = 822", "var b_823 int = 823", "var b_824 int = 824", "var b_825 int = 825", "var b_826 int = 826", "var b_827 int = 827", "var b_828 int = 828", "var b_829 int = 829", "var b_830 int = 830", "var b_831 int = 831", "var b_832 int = 832", "var b_833 int = 833", "var b_834 int = 834", "var b_835 int = 835", "var b_836 int = 836", "var b_837 int = 837", "var b_838 int = 838", "var b_839 int = 839", "var b_840 int = 840", "var b_841 int = 841", "var b_842 int = 842", "var b_843 int = 843", "var b_844 int = 844", "var b_845 int = 845", "var b_846 int = 846", "var b_847 int = 847", "var b_848 int = 848", "var b_849 int = 849", "var b_850 int = 850", "var b_851 int = 851", "var b_852 int = 852", "var b_853 int = 853", "var b_854 int = 854", "var b_855 int = 855", "var b_856 int = 856", "var b_857 int = 857", "var b_858 int = 858", "var b_859 int = 859", "var b_860 int = 860", "var b_861 int = 861", "var b_862 int = 862", "var b_863 int = 863", "var b_864 int = 864", "var b_865 int = 865", "var b_866 int = 866", "var b_867 int = 867", "var b_868 int = 868", "var b_869 int = 869", "var b_870 int = 870", "var b_871 int = 871", "var b_872 int = 872", "var b_873 int = 873", "var b_874 int = 874", "var b_875 int = 875", "var b_876 int = 876", "var b_877 int = 877", "var b_878 int = 878", "var b_879 int = 879", "var b_880 int = 880", "var b_881 int = 881", "var b_882 int = 882", "var b_883 int = 883", "var b_884 int = 884", "var b_885 int = 885", "var b_886 int = 886", "var b_887 int = 887", "var b_888 int = 888", "var b_889 int = 889", "var b_890 int = 890", "var b_891 int = 891", "var b_892 int = 892", "var b_893 int = 893", "var b_894 int = 894", "var b_895 int = 895", "var b_896 int = 896", "var b_897 int = 897", "var b_898 int = 898", "var b_899 int = 899", "var b_900 int = 900", "var b_901 int = 901", "var b_902 int = 902", "var b_903 int = 903", "var b_904 int = 904", "var b_905 int = 905", "var b_906 int = 906", "var b_907 int = 907", "var b_908 int = 908", "var b_909 int = 909", "var b_910 int = 910", "var b_911 int = 911", "var b_912 int = 912", "var b_913 int = 913", "var b_914 int = 914", "var b_915 int = 915", "var b_916 int = 916", "var b_917 int = 917", "var b_918 int = 918", "var b_919 int = 919", "var b_920 int = 920", "var b_921 int = 921", "var b_922 int = 922", "var b_923 int = 923", "var b_924 int = 924", "var b_925 int = 925", "var b_926 int = 926", "var b_927 int = 927", "var b_928 int = 928", "var b_929 int = 929", "var b_930 int = 930", "var b_931 int = 931", "var b_932 int = 932", "var b_933 int = 933", "var b_934 int = 934", "var b_935 int = 935", "var b_936 int = 936", "var b_937 int = 937", "var b_938 int = 938", "var b_939 int = 939", "var b_940 int = 940", "var b_941 int = 941", "var b_942 int = 942", "var b_943 int = 943", "var b_944 int = 944", "var b_945 int = 945", "var b_946 int = 946", "var b_947 int = 947", "var b_948 int = 948", "var b_949 int = 949", "var b_950 int = 950", "var b_951 int = 951", "var b_952 int = 952", "var b_953 int = 953", "var b_954 int = 954", "var b_955 int = 955", "var b_956 int = 956", "var b_957 int = 957", "var b_958 int = 958", "var b_959 int = 959", "var b_960 int = 960", "var b_961 int = 961", "var b_962 int = 962", "var b_963 int = 963", "var b_964 int = 964", "var b_965 int = 965", "var b_966 int = 966", "var b_967 int = 967", "var b_968 int = 968", "var b_969 int = 969", "var b_970 int = 970", "var b_971 int = 971", "var b_972 int = 972", "var b_973 int = 973", "var b_974 int = 974", "var b_975 int = 975", "var b_976 int = 976", "var b_977 int = 977", "var b_978 int = 978", "var b_979 int = 979", "var b_980 int = 980", "var b_981 int = 981", "var b_982 int = 982", "var b_983 int = 983", "var b_984 int = 984", "var b_985 int = 985", "var b_986 int = 986", "var b_987 int = 987", "var b_988 int = 988", "var b_989 int = 989", "var b_990 int = 990", "var b_991 int = 991", "var b_992 int = 992", "var b_993 int = 993", "var b_994 int = 994", "var b_995 int = 995", "var b_996 int = 996", "var b_997 int = 997", "var b_998 int = 998", "var b_999 int = 999", "var b_1000 int = 1000", "var b_1001 int = 1001", "var b_1002 int = 1002", "var b_1003 int = 1003", "var b_1004 int = 1004", "var b_1005 int = 1005", "var b_1006 int = 1006", "var b_1007 int = 1007", "var b_1008 int = 1008", "var b_1009 int = 1009", "var b_1010 int = 1010", "var b_1011 int = 1011", "var b_1012 int = 1012", "var b_1013 int = 1013", "var b_1014 int = 1014", "var b_1015 int = 1015", "var b_1016 int = 1016", "var b_1017 int = 1017", "var b_1018 int = 1018", "var b_1019 int = 1019", "var b_1020 int = 1020", "var b_1021 int = 1021", "var c complex128 = (1+2i)", "var d int = 77", "*p = 9", "rec.E(1, x, *p, c, d)", "rec.E(2, b_0, b_1, b_2, b_3, b_4, b_5, b_6, b_7, b_8, b_9, b_10, b_11, b_12, b_13, b_14, b_15)", "rec.E(3, b_16, b_17, b_18, b_19, b_20, b_21, b_22, b_23, b_24, b_25, b_26, b_27, b_28, b_29, b_30, b_31)", "rec.E(4, b_32, b_33, b_34, b_35, b_36, b_37, b_38, b_39, b_40, b_41, b_42, b_43, b_44, b_45, b_46, b_47)", "rec.E(5, b_48, b_49, b_50, b_51, b_52, b_53, b_54, b_55, b_56, b_57, b_58, b_59, b_60, b_61, b_62, b_63)", "rec.E(6, b_64, b_65, b_66, b_67, b_68, b_69, b_70, b_71, b_72, b_73, b_74, b_75, b_76, b_77, b_78, b_79)", "rec.E(7, b_80, b_81, b_82, b_83, b_84, b_85, b_86, b_87, b_88, b_89, b_90, b_91, b_92, b_93, b_94, b_95)", "rec.E(8, b_96, b_97, b_98, b_99, b_100, b_101, b_102, b_103, b_104, b_105, b_106, b_107, b_108, b_109, b_110, b_111)", "rec.E(9, b_112, b_113, b_114, b_115, b_116, b_117, b_118, b_119, b_120, b_121, b_122, b_123, b_124, b_125, b_126, b_127)", "rec.E(10, b_128, b_129, b_130, b_131, b_132, b_133, b_134, b_135, b_136, b_137, b_138, b_139, b_140, b_141, b_142, b_143)", "rec.E(11, b_144, b_145, b_146, b_147, b_148, b_149, b_150, b_151, b_152, b_153, b_154, b_155, b_156, b_157, b_158, b_159)", "rec.E(12, b_160, b_161, b_162, b_163, b_164, b_165, b_166, b_167, b_168, b_169, b_170, b_171, b_172, b_173, b_174, b_175)", "rec.E(13, b_176, b_177, b_178, b_179, b_180, b_181, b_182, b_183, b_184, b_185, b_186, b_187, b_188, b_189, b_190, b_191)", "rec.E(14, b_192, b_193, b_194, b_195, b_196, b_197, b_198, b_199, b_200, b_201, b_202, b_203, b_204, b_205, b_206, b_207)", "rec.E(15, b_208, b_209, b_210, b_211, b_212, b_213, b_214, b_215, b_216, b_217, b_218, b_219, b_220, b_221, b_222, b_223)", "rec.E(16, b_224, b_225, b_226, b_227, b_228, b_229, b_230, b_231, b_232, b_233, b_234, b_235, b_236, b_237, b_238, b_239)", "rec.E(17, b_240, b_241, b_242, b_243, b_244, b_245, b_246, b_247, b_248, b_249, b_250, b_251, b_252, b_253, b_254, b_255)", "rec.E(18, b_256, b_257, b_258, b_259, b_260, b_261, b_262, b_263, b_264, b_265, b_266, b_267, b_268, b_269, b_270, b_271)", "rec.E(19, b_272, b_273, b_274, b_275, b_276, b_277, b_278, b_279, b_280, b_281, b_282, b_283, b_284, b_285, b_286, b_287)", "rec.E(20, b_288, b_289, b_290, b_291, b_292, b_293, b_294, b_295, b_296, b_297, b_298, b_299, b_300, b_301, b_302, b_303)", "rec.E(21, b_304, b_305, b_306, b_307, b_308, b_309, b_310, b_311, b_312, b_313, b_314, b_315, b_316, b_317, b_318, b_319)", "rec.E(22, b_320, b_321, b_322, b_323, b_324, b_325, b_326, b_327, b_328, b_329, b_330, b_331, b_332, b_333, b_334, b_335)", "rec.E(23, b_336, b_337, b_338, b_339, b_340, b_341, b_342, b_343, b_344, b_345, b_346, b_347, b_348, b_349, b_350, b_351)", "rec.E(24, b_352, b_353, b_354, b_355, b_356, b_357, b_358, b_359, b_360, b_361, b_362, b_363, b_364, b_365, b_366, b_367)", "rec.E(25, b_368, b_369, b_370, b_371, b_372, b_373, b_374, b_375, b_376, b_377, b_378, b_379, b_380, b_381, b_382, b_383)", "rec.E(26, b_384, b_385, b_386, b_387, b_388, b_389, b_390, b_391, b_392, b_393, b_394, b_395, b_396, b_397, b_398, b_399)", "rec.E(27, b_400, b_401, b_402, b_403, b_404, b_405, b_406, b_407, b_408, b_409, b_410, b_411, b_412, b_413, b_414, b_415)", "rec.E(28, b_416, b_417, b_418, b_419, b_420, b_421, b_422, b_423, b_424, b_425, b_426, b_427, b_428, b_429, b_430, b_431)", "rec.E(29, b_432, b_433, b_434, b_435, b_436, b_437, b_438, b_439, b_440, b_441, b_442, b_443, b_444, b_445, b_446, b_447)", "rec.E(30, b_448, b_449, b_450, b_451, b_452, b_453, b_454, b_455, b_456, b_457, b_458, b_459, b_460, b_461, b_462, b_463)", "rec.E(31, b_464, b_465, b_466, b_467, b_468, b_469, b_470, b_471, b_472, b_473, b_474, b_475, b_476, b_477, b_478, b_479)", "rec.E(32, b_480, b_481, b_482, b_483, b_484, b_485, b_486, b_487, b_488, b_489, b_490, b_491, b_492, b_493, b_494, b_495)", "rec.E(33, b_496, b_497, b_498, b_499, b_500, b_501, b_502, b_503, b_504, b_505, b_506, b_507, b_508, b_509, b_510, b_511)", "rec.E(34, b_512, b_513, b_514, b_515, b_516, b_517, b_518, b_519, b_520, b_521, b_522, b_523, b_524, b_525, b_526, b_527)", "rec.E(35, b_528, b_529, b_530, b_531, b_532, b_533, b_534, b_535, b_536, b_537, b_538, b_539, b_540, b_541, b_542, b_543)", "rec.E(36, b_544, b_545, b_546, b_547, b_548, b_549, b_550, b_551, b_552, b_553, b_554, b_555, b_556, b_557, b_558, b_559)", "rec.E(37, b_560, b_561, b_562, b_563, b_564, b_565, b_566, b_567, b_568, b_569, b_570, b_571, b_572, b_573, b_574, b_575)", "rec.E(38, b_576, b_577, b_578, b_579, b_580, b_581, b_582, b_583, b_584, b_585, b_586, b_587, b_588, b_589, b_590, b_591)", "rec.E(39, b_592, b_593, b_594, b_595, b_596, b_597, b_598, b_599, b_600, b_601, b_602, b_603, b_604, b_605, b_606, b_607)", "rec.E(40, b_608, b_609, b_610, b_611, b_612, b_613, b_614, b_615, b_616, b_617, b_618, b_619, b_620, b_621, b_622, b_623)", "rec.E(41, b_624, b_625, b_626, b_627, b_628, b_629, b_630, b_631, b_632, b_633, b_634, b_635, b_636, b_637, b_638, b_639)", "rec.E(42, b_640, b_641, b_642, b_643, b_644, b_645, b_646, b_647, b_648, b_649, b_650, b_651, b_652, b_653, b_654, b_655)", "rec.E(43, b_656, b_657, b_658, b_659, b_660, b_661, b_662, b_663, b_664, b_665, b_666, b_667, b_668, b_669, b_670, b_671)", "rec.E(44, b_672, b_673, b_674, b_675, b_676, b_677, b_678, b_679, b_680, b_681, b_682, b_683, b_684, b_685, b_686, b_687)", "rec.E(45, b_688, b_689, b_690, b_691, b_692, b_693, b_694, b_695, b_696, b_697, b_698, b_699, b_700, b_701, b_702, b_703)", "rec.E(46, b_704, b_705, b_706, b_707, b_708, b_709, b_710, b_711, b_712, b_713, b_714, b_715, b_716, b_717, b_718, b_719)", "rec.E(47, b_720, b_721, b_722, b_723, b_724, b_725, b_726, b_727, b_728, b_729, b_730, b_731, b_732, b_733, b_734, b_735)", "rec.E(48, b_736, b_737, b_738, b_739, b_740, b_741, b_742, b_743, b_744, b_745, b_746, b_747, b_748, b_749, b_750, b_751)", "rec.E(49, b_752, b_753, b_754, b_755, b_756, b_757, b_758, b_759, b_760, b_761, b_762, b_763, b_764, b_765, b_766, b_767)", "rec.E(50, b_768, b_769, b_770, b_771, b_772, b_773, b_774, b_775, b_776, b_777, b_778, b_779, b_780, b_781, b_782, b_783)", "rec.E(51, b_784, b_785, b_786, b_787, b_788, b_789, b_790, b_791, b_792, b_793, b_794, b_795, b_796, b_797, b_798, b_799)", "rec.E(52, b_800, b_801, b_802, b_803, b_804, b_805, b_806, b_807, b_808, b_809, b_810, b_811, b_812, b_813, b_814, b_815)", "rec.E(53, b_816, b_817, b_818, b_819, b_820, b_821, b_822, b_823, b_824, b_825, b_826, b_827, b_828, b_829, b_830, b_831)", "rec.E(54, b_832, b_833, b_834, b_835, b_836, b_837, b_838, b_839, b_840, b_841, b_842, b_843, b_844, b_845, b_846, b_847)", "rec.E(55, b_848, b_849, b_850, b_851, b_852, b_853, b_854, b_855, b_856, b_857, b_858, b_859, b_860, b_861, b_862, b_863)", "rec.E(56, b_864, b_865, b_866, b_867, b_868, b_869, b_870, b_871, b_872, b_873, b_874, b_875, b_876, b_877, b_878, b_879)", "rec.E(57, b_880, b_881, b_882, b_883, b_884, b_885, b_886, b_887, b_888, b_889, b_890, b_891, b_892, b_893, b_894, b_895)", "rec.E(58, b_896, b_897, b_898, b_899, b_900, b_901, b_902, b_903, b_904, b_905, b_906, b_907, b_908, b_909, b_910, b_911)", "rec.E(59, b_912, b_913, b_914, b_915, b_916, b_917, b_918, b_919, b_920, b_921, b_922, b_923, b_924, b_925, b_926, b_927)", "rec.E(60, b_928, b_929, b_930, b_931, b_932, b_933, b_934, b_935, b_936, b_937, b_938, b_939, b_940, b_941, b_942, b_943)", "rec.E(61, b_944, b_945, b_946, b_947, b_948, b_949, b_950, b_951, b_952, b_953, b_954, b_955, b_956, b_957, b_958, b_959)", "rec.E(62, b_960, b_961, b_962, b_963, b_964, b_965, b_966, b_967, b_968, b_969, b_970, b_971, b_972, b_973, b_974, b_975)", "rec.E(63, b_976, b_977, b_978, b_979, b_980, b_981, b_982, b_983, b_984, b_985, b_986, b_987, b_988, b_989, b_990, b_991)", "rec.E(64, b_992, b_993, b_994, b_995, b_996, b_997, b_998, b_999, b_1000, b_1001, b_1002, b_1003, b_1004, b_1005, b_1006, b_1007)", "rec.E(65, b_1008, b_1009, b_1010, b_1011, b_1012, b_1013, b_1014, b_1015, b_1016, b_1017, b_1018, b_1019, b_1020, b_1021)"], "entry": "R_main", "tags": ["complex128-declared-after-int-addr"], "meta": {"mode": "eval"}}
package p

import "verif/rec"

var _ = rec.E

var x int = 7

p := &x

var b_0 int = 0

var b_1 int = 1

var b_2 int = 2

var b_3 int = 3

var b_4 int = 4

var b_5 int = 5

var b_6 int = 6

var b_7 int = 7

var b_8 int = 8

var b_9 int = 9

var b_10 int = 10

var b_11 int = 11

var b_12 int = 12

var b_13 int = 13

var b_14 int = 14

var b_15 int = 15

var b_16 int = 16

var b_17 int = 17

var b_18 int = 18

var b_19 int = 19

var b_20 int = 20

var b_21 int = 21

var b_22 int = 22

var b_23 int = 23

var b_24 int = 24

var b_25 int = 25

var b_26 int = 26

var b_27 int = 27

var b_28 int = 28

var b_29 int = 29

var b_30 int = 30

var b_31 int = 31

var b_32 int = 32

var b_33 int = 33

var b_34 int = 34

var b_35 int = 35

var b_36 int = 36

var b_37 int = 37

var b_38 int = 38

var b_39 int = 39

var b_40 int = 40

var b_41 int = 41

var b_42 int = 42

var b_43 int = 43

var b_44 int = 44

var b_45 int = 45

var b_46 int = 46

var b_47 int = 47

var b_48 int = 48

var b_49 int = 49

var b_50 int = 50

var b_51 int = 51

var b_52 int = 52

var b_53 int = 53

var b_54 int = 54

var b_55 int = 55

var b_56 int = 56

var b_57 int = 57

var b_58 int = 58

var b_59 int = 59

var b_60 int = 60

var b_61 int = 61

var b_62 int = 62

var b_63 int = 63

var b_64 int = 64

var b_65 int = 65

var b_66 int = 66

var b_67 int = 67

var b_68 int = 68

var b_69 int = 69

var b_70 int = 70

var b_71 int = 71

var b_72 int = 72

var b_73 int = 73

var b_74 int = 74

var b_75 int = 75

var b_76 int = 76

var b_77 int = 77

var b_78 int = 78

var b_79 int = 79

var b_80 int = 80

var b_81 int = 81

var b_82 int = 82

var b_83 int = 83

var b_84 int = 84

var b_85 int = 85

var b_86 int = 86

var b_87 int = 87

var b_88 int = 88

var b_89 int = 89

var b_90 int = 90

var b_91 int = 91

var b_92 int = 92

var b_93 int = 93

var b_94 int = 94

var b_95 int = 95

var b_96 int = 96

var b_97 int = 97

var b_98 int = 98

var b_99 int = 99

var b_100 int = 100

var b_101 int = 101

var b_102 int = 102

var b_103 int = 103

var b_104 int = 104

var b_105 int = 105

var b_106 int = 106

var b_107 int = 107

var b_108 int = 108

var b_109 int = 109

var b_110 int = 110

var b_111 int = 111

var b_112 int = 112

var b_113 int = 113

var b_114 int = 114

var b_115 int = 115

var b_116 int = 116

var b_117 int = 117

var b_118 int = 118

var b_119 int = 119

var b_120 int = 120

var b_121 int = 121

var b_122 int = 122

var b_123 int = 123

var b_124 int = 124

var b_125 int = 125

var b_126 int = 126

var b_127 int = 127

var b_128 int = 128

var b_129 int = 129

var b_130 int = 130

var b_131 int = 131

var b_132 int = 132

var b_133 int = 133

var b_134 int = 134

var b_135 int = 135

var b_136 int = 136

var b_137 int = 137

var b_138 int = 138

var b_139 int = 139

var b_140 int = 140

var b_141 int = 141

var b_142 int = 142

var b_143 int = 143

var b_144 int = 144

var b_145 int = 145

var b_146 int = 146

var b_147 int = 147

var b_148 int = 148

var b_149 int = 149

var b_150 int = 150

var b_151 int = 151

var b_152 int = 152

var b_153 int = 153

var b_154 int = 154

var b_155 int = 155

var b_156 int = 156

var b_157 int = 157

var b_158 int = 158

var b_159 int = 159

var b_160 int = 160

var b_161 int = 161

var b_162 int = 162

var b_163 int = 163

var b_164 int = 164

var b_165 int = 165

var b_166 int = 166

var b_167 int = 167

var b_168 int = 168

var b_169 int = 169

var b_170 int = 170

var b_171 int = 171

var b_172 int = 172

var b_173 int = 173

var b_174 int = 174

var b_175 int = 175

var b_176 int = 176

var b_177 int = 177

var b_178 int = 178

var b_179 int = 179

var b_180 int = 180

var b_181 int = 181

var b_182 int = 182

var b_183 int = 183

var b_184 int = 184

var b_185 int = 185

var b_186 int = 186

var b_187 int = 187

var b_188 int = 188

var b_189 int = 189

var b_190 int = 190

var b_191 int = 191

var b_192 int = 192

var b_193 int = 193

var b_194 int = 194

var b_195 int = 195

var b_196 int = 196

var b_197 int = 197

var b_198 int = 198

var b_199 int = 199

var b_200 int = 200

var b_201 int = 201

var b_202 int = 202

var b_203 int = 203

var b_204 int = 204

var b_205 int = 205

var b_206 int = 206

var b_207 int = 207

var b_208 int = 208

var b_209 int = 209

var b_210 int = 210

var b_211 int = 211

var b_212 int = 212

var b_213 int = 213

var b_214 int = 214

var b_215 int = 215

var b_216 int = 216

var b_217 int = 217

var b_218 int = 218

var b_219 int = 219

var b_220 int = 220

var b_221 int = 221

var b_222 int = 222

var b_223 int = 223

var b_224 int = 224

var b_225 int = 225

var b_226 int = 226

var b_227 int = 227

var b_228 int = 228

var b_229 int = 229

var b_230 int = 230

var b_231 int = 231

var b_232 int = 232

var b_233 int = 233

var b_234 int = 234

var b_235 int = 235

var b_236 int = 236

var b_237 int = 237

var b_238 int = 238

var b_239 int = 239

var b_240 int = 240

var b_241 int = 241

var b_242 int = 242

var b_243 int = 243

var b_244 int = 244

var b_245 int = 245

var b_246 int = 246

var b_247 int = 247

var b_248 int = 248

var b_249 int = 249

var b_250 int = 250

var b_251 int = 251

var b_252 int = 252

var b_253 int = 253

var b_254 int = 254

var b_255 int = 255

var b_256 int = 256

var b_257 int = 257

var b_258 int = 258

var b_259 int = 259

var b_260 int = 260

var b_261 int = 261

var b_262 int = 262

var b_263 int = 263

var b_264 int = 264

var b_265 int = 265

var b_266 int = 266

var b_267 int = 267

var b_268 int = 268

var b_269 int = 269

var b_270 int = 270

var b_271 int = 271

var b_272 int = 272

var b_273 int = 273

var b_274 int = 274

var b_275 int = 275

var b_276 int = 276

var b_277 int = 277

var b_278 int = 278

var b_279 int = 279

var b_280 int = 280

var b_281 int = 281

var b_282 int = 282

var b_283 int = 283

var b_284 int = 284

var b_285 int = 285

var b_286 int = 286

var b_287 int = 287

var b_288 int = 288

var b_289 int = 289

var b_290 int = 290

var b_291 int = 291

var b_292 int = 292

var b_293 int = 293

var b_294 int = 294

var b_295 int = 295

var b_296 int = 296

var b_297 int = 297

var b_298 int = 298

var b_299 int = 299

var b_300 int = 300

var b_301 int = 301

var b_302 int = 302

var b_303 int = 303

var b_304 int = 304

var b_305 int = 305

var b_306 int = 306

var b_307 int = 307

var b_308 int = 308

var b_309 int = 309

var b_310 int = 310

var b_311 int = 311

var b_312 int = 312

var b_313 int = 313

var b_314 int = 314

var b_315 int = 315

var b_316 int = 316

var b_317 int = 317

var b_318 int = 318

var b_319 int = 319

var b_320 int = 320

var b_321 int = 321

var b_322 int = 322

var b_323 int = 323

var b_324 int = 324

var b_325 int = 325

var b_326 int = 326

var b_327 int = 327

var b_328 int = 328

var b_329 int = 329

var b_330 int = 330

var b_331 int = 331

var b_332 int = 332

var b_333 int = 333

var b_334 int = 334

var b_335 int = 335

var b_336 int = 336

var b_337 int = 337

var b_338 int = 338

var b_339 int = 339

var b_340 int = 340

var b_341 int = 341

var b_342 int = 342

var b_343 int = 343

var b_344 int = 344

var b_345 int = 345

var b_346 int = 346

var b_347 int = 347

var b_348 int = 348

var b_349 int = 349

var b_350 int = 350

var b_351 int = 351

var b_352 int = 352

var b_353 int = 353

var b_354 int = 354

var b_355 int = 355

var b_356 int = 356

var b_357 int = 357

var b_358 int = 358

var b_359 int = 359

var b_360 int = 360

var b_361 int = 361

var b_362 int = 362

var b_363 int = 363

var b_364 int = 364

var b_365 int = 365

var b_366 int = 366

var b_367 int = 367

var b_368 int = 368

var b_369 int = 369

var b_370 int = 370

var b_371 int = 371

var b_372 int = 372

var b_373 int = 373

var b_374 int = 374

var b_375 int = 375

var b_376 int = 376

var b_377 int = 377

var b_378 int = 378

var b_379 int = 379

var b_380 int = 380

var b_381 int = 381

var b_382 int = 382

var b_383 int = 383

var b_384 int = 384

var b_385 int = 385

var b_386 int = 386

var b_387 int = 387

var b_388 int = 388

var b_389 int = 389

var b_390 int = 390

var b_391 int = 391

var b_392 int = 392

var b_393 int = 393

var b_394 int = 394

var b_395 int = 395

var b_396 int = 396

var b_397 int = 397

var b_398 int = 398

var b_399 int = 399

var b_400 int = 400

var b_401 int = 401

var b_402 int = 402

var b_403 int = 403

var b_404 int = 404

var b_405 int = 405

var b_406 int = 406

var b_407 int = 407

var b_408 int = 408

var b_409 int = 409

var b_410 int = 410

var b_411 int = 411

var b_412 int = 412

var b_413 int = 413

var b_414 int = 414

var b_415 int = 415

var b_416 int = 416

var b_417 int = 417

var b_418 int = 418

var b_419 int = 419

var b_420 int = 420

var b_421 int = 421

var b_422 int = 422

var b_423 int = 423

var b_424 int = 424

var b_425 int = 425

var b_426 int = 426

var b_427 int = 427

var b_428 int = 428

var b_429 int = 429

var b_430 int = 430

var b_431 int = 431

var b_432 int = 432

var b_433 int = 433

var b_434 int = 434

var b_435 int = 435

var b_436 int = 436

var b_437 int = 437

var b_438 int = 438

var b_439 int = 439

var b_440 int = 440

var b_441 int = 441

var b_442 int = 442

var b_443 int = 443

var b_444 int = 444

var b_445 int = 445

var b_446 int = 446

var b_447 int = 447

var b_448 int = 448

var b_449 int = 449

var b_450 int = 450

var b_451 int = 451

var b_452 int = 452

var b_453 int = 453

var b_454 int = 454

var b_455 int = 455

var b_456 int = 456

var b_457 int = 457

var b_458 int = 458

var b_459 int = 459

var b_460 int = 460

var b_461 int = 461

var b_462 int = 462

var b_463 int = 463

var b_464 int = 464

var b_465 int = 465

var b_466 int = 466

var b_467 int = 467

var b_468 int = 468

var b_469 int = 469

var b_470 int = 470

var b_471 int = 471

var b_472 int = 472

var b_473 int = 473

var b_474 int = 474

var b_475 int = 475

var b_476 int = 476

var b_477 int = 477

var b_478 int = 478

var b_479 int = 479

var b_480 int = 480

var b_481 int = 481

var b_482 int = 482

var b_483 int = 483

var b_484 int = 484

var b_485 int = 485

var b_486 int = 486

var b_487 int = 487

var b_488 int = 488

var b_489 int = 489

var b_490 int = 490

var b_491 int = 491

var b_492 int = 492

var b_493 int = 493

var b_494 int = 494

var b_495 int = 495

var b_496 int = 496

var b_497 int = 497

var b_498 int = 498

var b_499 int = 499

var b_500 int = 500

var b_501 int = 501

var b_502 int = 502

var b_503 int = 503

var b_504 int = 504

var b_505 int = 505

var b_506 int = 506

var b_507 int = 507

var b_508 int = 508

var b_509 int = 509

var b_510 int = 510

var b_511 int = 511

var b_512 int = 512

var b_513 int = 513

var b_514 int = 514

var b_515 int = 515

var b_516 int = 516

var b_517 int = 517

var b_518 int = 518

var b_519 int = 519

var b_520 int = 520

var b_521 int = 521

var b_522 int = 522

var b_523 int = 523

var b_524 int = 524

var b_525 int = 525

var b_526 int = 526

var b_527 int = 527

var b_528 int = 528

var b_529 int = 529

var b_530 int = 530

var b_531 int = 531

var b_532 int = 532

var b_533 int = 533

var b_534 int = 534

var b_535 int = 535

var b_536 int = 536

var b_537 int = 537

var b_538 int = 538

var b_539 int = 539

var b_540 int = 540

var b_541 int = 541

var b_542 int = 542

var b_543 int = 543

var b_544 int = 544

var b_545 int = 545

var b_546 int = 546

var b_547 int = 547

var b_548 int = 548

var b_549 int = 549

var b_550 int = 550

var b_551 int = 551

var b_552 int = 552

var b_553 int = 553

var b_554 int = 554

var b_555 int = 555

var b_556 int = 556

var b_557 int = 557

var b_558 int = 558

var b_559 int = 559

var b_560 int = 560

var b_561 int = 561

var b_562 int = 562

var b_563 int = 563

var b_564 int = 564

var b_565 int = 565

var b_566 int = 566

var b_567 int = 567

var b_568 int = 568

var b_569 int = 569

var b_570 int = 570

var b_571 int = 571

var b_572 int = 572

var b_573 int = 573

var b_574 int = 574

var b_575 int = 575

var b_576 int = 576

var b_577 int = 577

var b_578 int = 578

var b_579 int = 579

var b_580 int = 580

var b_581 int = 581

var b_582 int = 582

var b_583 int = 583

var b_584 int = 584

var b_585 int = 585

var b_586 int = 586

var b_587 int = 587

var b_588 int = 588

var b_589 int = 589

var b_590 int = 590

var b_591 int = 591

var b_592 int = 592

var b_593 int = 593

var b_594 int = 594

var b_595 int = 595

var b_596 int = 596

var b_597 int = 597

var b_598 int = 598

var b_599 int = 599

var b_600 int = 600

var b_601 int = 601

var b_602 int = 602

var b_603 int = 603

var b_604 int = 604

var b_605 int = 605

var b_606 int = 606

var b_607 int = 607

var b_608 int = 608

var b_609 int = 609

var b_610 int = 610

var b_611 int = 611

var b_612 int = 612

var b_613 int = 613

var b_614 int = 614

var b_615 int = 615

var b_616 int = 616

var b_617 int = 617

var b_618 int = 618

var b_619 int = 619

var b_620 int = 620

var b_621 int = 621

var b_622 int = 622

var b_623 int = 623

var b_624 int = 624

var b_625 int = 625

var b_626 int = 626

var b_627 int = 627

var b_628 int = 628

var b_629 int = 629

var b_630 int = 630

var b_631 int = 631

var b_632 int = 632

var b_633 int = 633

var b_634 int = 634

var b_635 int = 635

var b_636 int = 636

var b_637 int = 637

var b_638 int = 638

var b_639 int = 639

var b_640 int = 640

var b_641 int = 641

var b_642 int = 642

var b_643 int = 643

var b_644 int = 644

var b_645 int = 645

var b_646 int = 646

var b_647 int = 647

var b_648 int = 648

var b_649 int = 649

var b_650 int = 650

var b_651 int = 651

var b_652 int = 652

var b_653 int = 653

var b_654 int = 654

var b_655 int = 655

var b_656 int = 656

var b_657 int = 657

var b_658 int = 658

var b_659 int = 659

var b_660 int = 660

var b_661 int = 661

var b_662 int = 662

var b_663 int = 663

var b_664 int = 664

var b_665 int = 665

var b_666 int = 666

var b_667 int = 667

var b_668 int = 668

var b_669 int = 669

var b_670 int = 670

var b_671 int = 671

var b_672 int = 672

var b_673 int = 673

var b_674 int = 674

var b_675 int = 675

var b_676 int = 676

var b_677 int = 677

var b_678 int = 678

var b_679 int = 679

var b_680 int = 680

var b_681 int = 681

var b_682 int = 682

var b_683 int = 683

var b_684 int = 684

var b_685 int = 685

var b_686 int = 686

var b_687 int = 687

var b_688 int = 688

var b_689 int = 689

var b_690 int = 690

var b_691 int = 691

var b_692 int = 692

var b_693 int = 693

var b_694 int = 694

var b_695 int = 695

var b_696 int = 696

var b_697 int = 697

var b_698 int = 698

var b_699 int = 699

var b_700 int = 700

var b_701 int = 701

var b_702 int = 702

var b_703 int = 703

var b_704 int = 704

var b_705 int = 705

var b_706 int = 706

var b_707 int = 707

var b_708 int = 708

var b_709 int = 709

var b_710 int = 710

var b_711 int = 711

var b_712 int = 712

var b_713 int = 713

var b_714 int = 714

var b_715 int = 715

var b_716 int = 716

var b_717 int = 717

var b_718 int = 718

var b_719 int = 719

var b_720 int = 720

var b_721 int = 721

var b_722 int = 722

var b_723 int = 723

var b_724 int = 724

var b_725 int = 725

var b_726 int = 726

var b_727 int = 727

var b_728 int = 728

var b_729 int = 729

var b_730 int = 730

var b_731 int = 731

var b_732 int = 732

var b_733 int = 733

var b_734 int = 734

var b_735 int = 735

var b_736 int = 736

var b_737 int = 737

var b_738 int = 738

var b_739 int = 739

var b_740 int = 740

var b_741 int = 741

var b_742 int = 742

var b_743 int = 743

var b_744 int = 744

var b_745 int = 745

var b_746 int = 746

var b_747 int = 747

var b_748 int = 748

var b_749 int = 749

var b_750 int = 750

var b_751 int = 751

var b_752 int = 752

var b_753 int = 753

var b_754 int = 754

var b_755 int = 755

var b_756 int = 756

var b_757 int = 757

var b_758 int = 758

var b_759 int = 759

var b_760 int = 760

var b_761 int = 761

var b_762 int = 762

var b_763 int = 763

var b_764 int = 764

var b_765 int = 765

var b_766 int = 766

var b_767 int = 767

var b_768 int = 768

var b_769 int = 769

var b_770 int = 770

var b_771 int = 771

var b_772 int = 772

var b_773 int = 773

var b_774 int = 774

var b_775 int = 775

var b_776 int = 776

var b_777 int = 777

var b_778 int = 778

var b_779 int = 779

var b_780 int = 780

var b_781 int = 781

var b_782 int = 782

var b_783 int = 783

var b_784 int = 784

var b_785 int = 785

var b_786 int = 786

var b_787 int = 787

var b_788 int = 788

var b_789 int = 789

var b_790 int = 790

var b_791 int = 791

var b_792 int = 792

var b_793 int = 793

var b_794 int = 794

var b_795 int = 795

var b_796 int = 796

var b_797 int = 797

var b_798 int = 798

var b_799 int = 799

var b_800 int = 800

var b_801 int = 801

var b_802 int = 802

var b_803 int = 803

var b_804 int = 804

var b_805 int = 805

var b_806 int = 806

var b_807 int = 807

var b_808 int = 808

var b_809 int = 809

var b_810 int = 810

var b_811 int = 811

var b_812 int = 812

var b_813 int = 813

var b_814 int = 814

var b_815 int = 815

var b_816 int = 816

var b_817 int = 817

var b_818 int = 818

var b_819 int = 819

var b_820 int = 820

var b_821 int = 821

var b_822 int = 822

var b_823 int = 823

var b_824 int = 824

var b_825 int = 825

var b_826 int = 826

var b_827 int = 827

var b_828 int = 828

var b_829 int = 829

var b_830 int = 830

var b_831 int = 831

var b_832 int = 832

var b_833 int = 833

var b_834 int = 834

var b_835 int = 835

var b_836 int = 836

var b_837 int = 837

var b_838 int = 838

var b_839 int = 839

var b_840 int = 840

var b_841 int = 841

var b_842 int = 842

var b_843 int = 843

var b_844 int = 844

var b_845 int = 845

var b_846 int = 846

var b_847 int = 847

var b_848 int = 848

var b_849 int = 849

var b_850 int = 850

var b_851 int = 851

var b_852 int = 852

var b_853 int = 853

var b_854 int = 854

var b_855 int = 855

var b_856 int = 856

var b_857 int = 857

var b_858 int = 858

var b_859 int = 859

var b_860 int = 860

var b_861 int = 861

var b_862 int = 862

var b_863 int = 863

var b_864 int = 864

var b_865 int = 865

var b_866 int = 866

var b_867 int = 867

var b_868 int = 868

var b_869 int = 869

var b_870 int = 870

var b_871 int = 871

var b_872 int = 872

var b_873 int = 873

var b_874 int = 874

var b_875 int = 875

var b_876 int = 876

var b_877 int = 877

var b_878 int = 878

var b_879 int = 879

var b_880 int = 880

var b_881 int = 881

var b_882 int = 882

var b_883 int = 883

var b_884 int = 884

var b_885 int = 885

var b_886 int = 886

var b_887 int = 887

var b_888 int = 888

var b_889 int = 889

var b_890 int = 890

var b_891 int = 891

var b_892 int = 892

var b_893 int = 893

var b_894 int = 894

var b_895 int = 895

var b_896 int = 896

var b_897 int = 897

var b_898 int = 898

var b_899 int = 899

var b_900 int = 900

var b_901 int = 901

var b_902 int = 902

var b_903 int = 903

var b_904 int = 904

var b_905 int = 905

var b_906 int = 906

var b_907 int = 907

var b_908 int = 908

var b_909 int = 909

var b_910 int = 910

var b_911 int = 911

var b_912 int = 912

var b_913 int = 913

var b_914 int = 914

var b_915 int = 915

var b_916 int = 916

var b_917 int = 917

var b_918 int = 918

var b_919 int = 919

var b_920 int = 920

var b_921 int = 921

var b_922 int = 922

var b_923 int = 923

var b_924 int = 924

var b_925 int = 925

var b_926 int = 926

var b_927 int = 927

var b_928 int = 928

var b_929 int = 929

var b_930 int = 930

var b_931 int = 931

var b_932 int = 932

var b_933 int = 933

var b_934 int = 934

var b_935 int = 935

var b_936 int = 936

var b_937 int = 937

var b_938 int = 938

var b_939 int = 939

var b_940 int = 940

var b_941 int = 941

var b_942 int = 942

var b_943 int = 943

var b_944 int = 944

var b_945 int = 945

var b_946 int = 946

var b_947 int = 947

var b_948 int = 948

var b_949 int = 949

var b_950 int = 950

var b_951 int = 951

var b_952 int = 952

var b_953 int = 953

var b_954 int = 954

var b_955 int = 955

var b_956 int = 956

var b_957 int = 957

var b_958 int = 958

var b_959 int = 959

var b_960 int = 960

var b_961 int = 961

var b_962 int = 962

var b_963 int = 963

var b_964 int = 964

var b_965 int = 965

var b_966 int = 966

var b_967 int = 967

var b_968 int = 968

var b_969 int = 969

var b_970 int = 970

var b_971 int = 971

var b_972 int = 972

var b_973 int = 973

var b_974 int = 974

var b_975 int = 975

var b_976 int = 976

var b_977 int = 977

var b_978 int = 978

var b_979 int = 979

var b_980 int = 980

var b_981 int = 981

var b_982 int = 982

var b_983 int = 983

var b_984 int = 984

var b_985 int = 985

var b_986 int = 986

var b_987 int = 987

var b_988 int = 988

var b_989 int = 989

var b_990 int = 990

var b_991 int = 991

var b_992 int = 992

var b_993 int = 993

var b_994 int = 994

var b_995 int = 995

var b_996 int = 996

var b_997 int = 997

var b_998 int = 998

var b_999 int = 999

var b_1000 int = 1000

var b_1001 int = 1001

var b_1002 int = 1002

var b_1003 int = 1003

var b_1004 int = 1004

var b_1005 int = 1005

var b_1006 int = 1006

var b_1007 int = 1007

var b_1008 int = 1008

var b_1009 int = 1009

var b_1010 int = 1010

var b_1011 int = 1011

var b_1012 int = 1012

var b_1013 int = 1013

var b_1014 int = 1014

var b_1015 int = 1015

var b_1016 int = 1016

var b_1017 int = 1017

var b_1018 int = 1018

var b_1019 int = 1019

var b_1020 int = 1020

var b_1021 int = 1021

var c complex128 = (1+2i)

var d int = 77

*p = 9

rec.E(1, x, *p, c, d)

rec.E(2, b_0, b_1, b_2, b_3, b_4, b_5, b_6, b_7, b_8, b_9, b_10, b_11, b_12, b_13, b_14, b_15)

rec.E(3, b_16, b_17, b_18, b_19, b_20, b_21, b_22, b_23, b_24, b_25, b_26, b_27, b_28, b_29, b_30, b_31)

rec.E(4, b_32, b_33, b_34, b_35, b_36, b_37, b_38, b_39, b_40, b_41, b_42, b_43, b_44, b_45, b_46, b_47)

rec.E(5, b_48, b_49, b_50, b_51, b_52, b_53, b_54, b_55, b_56, b_57, b_58, b_59, b_60, b_61, b_62, b_63)

rec.E(6, b_64, b_65, b_66, b_67, b_68, b_69, b_70, b_71, b_72, b_73, b_74, b_75, b_76, b_77, b_78, b_79)

rec.E(7, b_80, b_81, b_82, b_83, b_84, b_85, b_86, b_87, b_88, b_89, b_90, b_91, b_92, b_93, b_94, b_95)

rec.E(8, b_96, b_97, b_98, b_99, b_100, b_101, b_102, b_103, b_104, b_105, b_106, b_107, b_108, b_109, b_110, b_111)

rec.E(9, b_112, b_113, b_114, b_115, b_116, b_117, b_118, b_119, b_120, b_121, b_122, b_123, b_124, b_125, b_126, b_127)

rec.E(10, b_128, b_129, b_130, b_131, b_132, b_133, b_134, b_135, b_136, b_137, b_138, b_139, b_140, b_141, b_142, b_143)

rec.E(11, b_144, b_145, b_146, b_147, b_148, b_149, b_150, b_151, b_152, b_153, b_154, b_155, b_156, b_157, b_158, b_159)

rec.E(12, b_160, b_161, b_162, b_163, b_164, b_165, b_166, b_167, b_168, b_169, b_170, b_171, b_172, b_173, b_174, b_175)

rec.E(13, b_176, b_177, b_178, b_179, b_180, b_181, b_182, b_183, b_184, b_185, b_186, b_187, b_188, b_189, b_190, b_191)

rec.E(14, b_192, b_193, b_194, b_195, b_196, b_197, b_198, b_199, b_200, b_201, b_202, b_203, b_204, b_205, b_206, b_207)

rec.E(15, b_208, b_209, b_210, b_211, b_212, b_213, b_214, b_215, b_216, b_217, b_218, b_219, b_220, b_221, b_222, b_223)

rec.E(16, b_224, b_225, b_226, b_227, b_228, b_229, b_230, b_231, b_232, b_233, b_234, b_235, b_236, b_237, b_238, b_239)

rec.E(17, b_240, b_241, b_242, b_243, b_244, b_245, b_246, b_247, b_248, b_249, b_250, b_251, b_252, b_253, b_254, b_255)

rec.E(18, b_256, b_257, b_258, b_259, b_260, b_261, b_262, b_263, b_264, b_265, b_266, b_267, b_268, b_269, b_270, b_271)

rec.E(19, b_272, b_273, b_274, b_275, b_276, b_277, b_278, b_279, b_280, b_281, b_282, b_283, b_284, b_285, b_286, b_287)

rec.E(20, b_288, b_289, b_290, b_291, b_292, b_293, b_294, b_295, b_296, b_297, b_298, b_299, b_300, b_301, b_302, b_303)

rec.E(21, b_304, b_305, b_306, b_307, b_308, b_309, b_310, b_311, b_312, b_313, b_314, b_315, b_316, b_317, b_318, b_319)

rec.E(22, b_320, b_321, b_322, b_323, b_324, b_325, b_326, b_327, b_328, b_329, b_330, b_331, b_332, b_333, b_334, b_335)

rec.E(23, b_336, b_337, b_338, b_339, b_340, b_341, b_342, b_343, b_344, b_345, b_346, b_347, b_348, b_349, b_350, b_351)

rec.E(24, b_352, b_353, b_354, b_355, b_356, b_357, b_358, b_359, b_360, b_361, b_362, b_363, b_364, b_365, b_366, b_367)

rec.E(25, b_368, b_369, b_370, b_371, b_372, b_373, b_374, b_375, b_376, b_377, b_378, b_379, b_380, b_381, b_382, b_383)

rec.E(26, b_384, b_385, b_386, b_387, b_388, b_389, b_390, b_391, b_392, b_393, b_394, b_395, b_396, b_397, b_398, b_399)

rec.E(27, b_400, b_401, b_402, b_403, b_404, b_405, b_406, b_407, b_408, b_409, b_410, b_411, b_412, b_413, b_414, b_415)

rec.E(28, b_416, b_417, b_418, b_419, b_420, b_421, b_422, b_423, b_424, b_425, b_426, b_427, b_428, b_429, b_430, b_431)

rec.E(29, b_432, b_433, b_434, b_435, b_436, b_437, b_438, b_439, b_440, b_441, b_442, b_443, b_444, b_445, b_446, b_447)

rec.E(30, b_448, b_449, b_450, b_451, b_452, b_453, b_454, b_455, b_456, b_457, b_458, b_459, b_460, b_461, b_462, b_463)

rec.E(31, b_464, b_465, b_466, b_467, b_468, b_469, b_470, b_471, b_472, b_473, b_474, b_475, b_476, b_477, b_478, b_479)

rec.E(32, b_480, b_481, b_482, b_483, b_484, b_485, b_486, b_487, b_488, b_489, b_490, b_491, b_492, b_493, b_494, b_495)

rec.E(33, b_496, b_497, b_498, b_499, b_500, b_501, b_502, b_503, b_504, b_505, b_506, b_507, b_508, b_509, b_510, b_511)

rec.E(34, b_512, b_513, b_514, b_515, b_516, b_517, b_518, b_519, b_520, b_521, b_522, b_523, b_524, b_525, b_526, b_527)

rec.E(35, b_528, b_529, b_530, b_531, b_532, b_533, b_534, b_535, b_536, b_537, b_538, b_539, b_540, b_541, b_542, b_543)

rec.E(36, b_544, b_545, b_546, b_547, b_548, b_549, b_550, b_551, b_552, b_553, b_554, b_555, b_556, b_557, b_558, b_559)

rec.E(37, b_560, b_561, b_562, b_563, b_564, b_565, b_566, b_567, b_568, b_569, b_570, b_571, b_572, b_573, b_574, b_575)

rec.E(38, b_576, b_577, b_578, b_579, b_580, b_581, b_582, b_583, b_584, b_585, b_586, b_587, b_588, b_589, b_590, b_591)

rec.E(39, b_592, b_593, b_594, b_595, b_596, b_597, b_598, b_599, b_600, b_601, b_602, b_603, b_604, b_605, b_606, b_607)

rec.E(40, b_608, b_609, b_610, b_611, b_612, b_613, b_614, b_615, b_616, b_617, b_618, b_619, b_620, b_621, b_622, b_623)

rec.E(41, b_624, b_625, b_626, b_627, b_628, b_629, b_630, b_631, b_632, b_633, b_634, b_635, b_636, b_637, b_638, b_639)

rec.E(42, b_640, b_641, b_642, b_643, b_644, b_645, b_646, b_647, b_648, b_649, b_650, b_651, b_652, b_653, b_654, b_655)

rec.E(43, b_656, b_657, b_658, b_659, b_660, b_661, b_662, b_663, b_664, b_665, b_666, b_667, b_668, b_669, b_670, b_671)

rec.E(44, b_672, b_673, b_674, b_675, b_676, b_677, b_678, b_679, b_680, b_681, b_682, b_683, b_684, b_685, b_686, b_687)

rec.E(45, b_688, b_689, b_690, b_691, b_692, b_693, b_694, b_695, b_696, b_697, b_698, b_699, b_700, b_701, b_702, b_703)

rec.E(46, b_704, b_705, b_706, b_707, b_708, b_709, b_710, b_711, b_712, b_713, b_714, b_715, b_716, b_717, b_718, b_719)

rec.E(47, b_720, b_721, b_722, b_723, b_724, b_725, b_726, b_727, b_728, b_729, b_730, b_731, b_732, b_733, b_734, b_735)

rec.E(48, b_736, b_737, b_738, b_739, b_740, b_741, b_742, b_743, b_744, b_745, b_746, b_747, b_748, b_749, b_750, b_751)

rec.E(49, b_752, b_753, b_754, b_755, b_756, b_757, b_758, b_759, b_760, b_761, b_762, b_763, b_764, b_765, b_766, b_767)

rec.E(50, b_768, b_769, b_770, b_771, b_772, b_773, b_774, b_775, b_776, b_777, b_778, b_779, b_780, b_781, b_782, b_783)

rec.E(51, b_784, b_785, b_786, b_787, b_788, b_789, b_790, b_791, b_792, b_793, b_794, b_795, b_796, b_797, b_798, b_799)

rec.E(52, b_800, b_801, b_802, b_803, b_804, b_805, b_806, b_807, b_808, b_809, b_810, b_811, b_812, b_813, b_814, b_815)

rec.E(53, b_816, b_817, b_818, b_819, b_820, b_821, b_822, b_823, b_824, b_825, b_826, b_827, b_828, b_829, b_830, b_831)

rec.E(54, b_832, b_833, b_834, b_835, b_836, b_837, b_838, b_839, b_840, b_841, b_842, b_843, b_844, b_845, b_846, b_847)

rec.E(55, b_848, b_849, b_850, b_851, b_852, b_853, b_854, b_855, b_856, b_857, b_858, b_859, b_860, b_861, b_862, b_863)

rec.E(56, b_864, b_865, b_866, b_867, b_868, b_869, b_870, b_871, b_872, b_873, b_874, b_875, b_876, b_877, b_878, b_879)

rec.E(57, b_880, b_881, b_882, b_883, b_884, b_885, b_886, b_887, b_888, b_889, b_890, b_891, b_892, b_893, b_894, b_895)

rec.E(58, b_896, b_897, b_898, b_899, b_900, b_901, b_902, b_903, b_904, b_905, b_906, b_907, b_908, b_909, b_910, b_911)

rec.E(59, b_912, b_913, b_914, b_915, b_916, b_917, b_918, b_919, b_920, b_921, b_922, b_923, b_924, b_925, b_926, b_927)

rec.E(60, b_928, b_929, b_930, b_931, b_932, b_933, b_934, b_935, b_936, b_937, b_938, b_939, b_940, b_941, b_942, b_943)

rec.E(61, b_944, b_945, b_946, b_947, b_948, b_949, b_950, b_951, b_952, b_953, b_954, b_955, b_956, b_957, b_958, b_959)

rec.E(62, b_960, b_961, b_962, b_963, b_964, b_965, b_966, b_967, b_968, b_969, b_970, b_971, b_972, b_973, b_974, b_975)

rec.E(63, b_976, b_977, b_978, b_979, b_980, b_981, b_982, b_983, b_984, b_985, b_986, b_987, b_988, b_989, b_990, b_991)

rec.E(64, b_992, b_993, b_994, b_995, b_996, b_997, b_998, b_999, b_1000, b_1001, b_1002, b_1003, b_1004, b_1005, b_1006, b_1007)

rec.E(65, b_1008, b_1009, b_1010, b_1011, b_1012, b_1013, b_1014, b_1015, b_1016, b_1017, b_1018, b_1019, b_1020, b_1021)
