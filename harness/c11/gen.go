package c11

import (
	"fmt"
	"sort"
	"strings"

	"pgregory.net/rapid"

	"verif/harness/gobatch"
	"verif/harness/progen"
)

// Each snippet kind routes interpreted functions or interpreted types through a
// compiled entry point. A snippet returns the statements, the imports it needs and an
// estimate of how many times compiled code calls back into interpreted code.
type gen struct {
	*progen.G
	imports map[string]bool
	decls   []string
	calls   int  // callbacks from compiled code
	foreign bool // some callback runs on a goroutine other than the evaluating one
}

func (g *gen) imp(p string) { g.imports[p] = true }

func (g *gen) ints(n int) string {
	var l []string
	for i := 0; i < n; i++ {
		l = append(l, fmt.Sprint(g.Int(-9, 30, "elem")))
	}
	return "[]int{" + strings.Join(l, ", ") + "}"
}

func (g *gen) strs(n int) string {
	var l []string
	for i := 0; i < n; i++ {
		l = append(l, g.OneOf("str", `"b"`, `"a"`, `"ab"`, `""`, `"Zz"`, `"é"`, `"a b"`, `"c,d"`))
	}
	return "[]string{" + strings.Join(l, ", ") + "}"
}

func (g *gen) snippet() string {
	ev := g.Ev()
	switch g.Pick(18, "kind") {
	case 0: // sort.Slice with an interpreted less
		g.imp("sort")
		n := g.Int(0, 12, "n")
		g.calls += n * 3
		g.Tag("sort.Slice")
		cmp := g.OneOf("less", "s[i] < s[j]", "s[i] > s[j]", "s[i]%5 < s[j]%5 || (s[i]%5 == s[j]%5 && s[i] < s[j])", "-s[i] < -s[j]")
		return fmt.Sprintf("{\n\ts := %s\n\tsort.Slice(s, func(i, j int) bool { return %s })\n\trec.E(%d, s)\n}\n", g.ints(n), cmp, ev)
	case 1: // sort.SliceStable on structs, comparing one field only (stability observable)
		g.imp("sort")
		n := g.Int(2, 10, "n")
		g.calls += n * 3
		g.Tag("sort.SliceStable")
		var items []string
		for i := 0; i < n; i++ {
			items = append(items, fmt.Sprintf("{%d, %d}", g.Int(0, 3, "key"), i))
		}
		return fmt.Sprintf("{\n\ts := []struct{ k, id int }{%s}\n\tsort.SliceStable(s, func(i, j int) bool { return s[i].k < s[j].k })\n\trec.E(%d, s)\n}\n", strings.Join(items, ", "), ev)
	case 2: // sort.Search
		g.imp("sort")
		g.calls += 5
		g.Tag("sort.Search")
		return fmt.Sprintf("{\n\ts := []int{1, 3, 3, 7, 9, 12, 20}\n\tt := %d\n\trec.E(%d, sort.Search(len(s), func(i int) bool { return s[i] >= t }))\n}\n", g.Int(-2, 25, "target"), ev)
	case 3: // sort.Sort with an interpreted sort.Interface
		g.imp("sort")
		n := g.Int(0, 9, "n")
		g.calls += n * 6
		g.Tag("sort.Sort(interpreted sort.Interface)")
		t := g.Top("byAbs")
		g.decls = append(g.decls,
			fmt.Sprintf("type %s []int", t),
			fmt.Sprintf("func (s %s) Len() int { return len(s) }", t),
			fmt.Sprintf("func (s %s) Less(i, j int) bool {\n\ta, b := s[i], s[j]\n\tif a < 0 {\n\t\ta = -a\n\t}\n\tif b < 0 {\n\t\tb = -b\n\t}\n\treturn a < b || (a == b && s[i] < s[j])\n}", t),
			fmt.Sprintf("func (s %s) Swap(i, j int) { s[i], s[j] = s[j], s[i] }", t))
		return fmt.Sprintf("{\n\ts := %s(%s)\n\tsort.Sort(s)\n\trec.E(%d, []int(s), sort.IsSorted(s))\n}\n", t, g.ints(n), ev)
	case 4: // strings.Map
		g.imp("strings")
		g.calls += 6
		g.Tag("strings.Map")
		f := g.OneOf("mapf", "if r == 'a' {\n\t\t\treturn 'A'\n\t\t}\n\t\treturn r", "if r > 'm' {\n\t\t\treturn -1\n\t\t}\n\t\treturn r + 1", "return r ^ 0x20")
		return fmt.Sprintf("rec.E(%d, strings.Map(func(r rune) rune {\n\t\t%s\n\t}, %s))\n", ev, f, g.OneOf("maps", `"banana"`, `"héllo wörld"`, `""`, `"xyzABC"`))
	case 5: // strings.FieldsFunc / IndexFunc
		g.imp("strings")
		g.calls += 8
		g.Tag("strings.FieldsFunc")
		return fmt.Sprintf("rec.E(%d, strings.FieldsFunc(%s, func(r rune) bool { return r == ',' || r == ' ' }), strings.IndexFunc(%s, func(r rune) bool { return r > 'k' }))\n",
			ev, g.OneOf("ff", `"a,b c,,d"`, `""`, `" , "`, `"héé,x"`), g.OneOf("if", `"abcxyz"`, `"aaa"`, `""`))
	case 6: // bytes.Map
		g.imp("bytes")
		g.calls += 5
		g.Tag("bytes.Map")
		return fmt.Sprintf("rec.E(%d, string(bytes.Map(func(r rune) rune { return r + %d }, []byte(%s))))\n", ev, g.Int(0, 3, "shift"), g.OneOf("bm", `"abc"`, `"HAL"`, `""`))
	case 7: // interpreted Stringer / error through compiled fmt
		g.imp("fmt")
		g.calls += 2
		g.Tag("fmt via Stringer/error proxy")
		t := g.Top("Temp")
		g.decls = append(g.decls,
			fmt.Sprintf("type %s struct{ deg int }", t),
			fmt.Sprintf("func (t %s) String() string { return fmt.Sprint(t.deg) + \"C\" }", t),
			fmt.Sprintf("func (t *%s) Error() string { return \"too hot: \" + t.String() }", t))
		d := g.Int(-5, 40, "deg")
		// compiled code sees the methods only when it receives the value through the
		// compiled interface type (rec.Str takes a fmt.Stringer, rec.Err an error); converted to
		// interface{} the emulated struct is extracted (documented limitation)
		return fmt.Sprintf("{\n\tvar s fmt.Stringer = %s{%d}\n\tvar e error = &%s{%d}\n\trec.E(%d, rec.Str(s), rec.Err(e), s.String(), e.Error())\n}\n", t, d, t, d+1, ev)
	case 8: // interpreted io.Reader / io.Writer through io.Copy
		g.imp("io")
		g.calls += 6
		g.Tag("io.Copy(interpreted Reader, Writer)")
		rd, wr := g.Top("rd"), g.Top("wr")
		chunk := g.Int(1, 5, "chunk")
		g.decls = append(g.decls,
			fmt.Sprintf("type %s struct {\n\tdata string\n\tpos  int\n}", rd),
			fmt.Sprintf("func (r *%s) Read(p []byte) (int, error) {\n\tif r.pos >= len(r.data) {\n\t\treturn 0, io.EOF\n\t}\n\tn := %d\n\tif n > len(p) {\n\t\tn = len(p)\n\t}\n\tif n > len(r.data)-r.pos {\n\t\tn = len(r.data) - r.pos\n\t}\n\tcopy(p, r.data[r.pos:r.pos+n])\n\tr.pos += n\n\treturn n, nil\n}", rd, chunk),
			fmt.Sprintf("type %s struct {\n\tgot   []byte\n\tcalls int\n}", wr),
			fmt.Sprintf("func (w *%s) Write(p []byte) (int, error) {\n\tw.got = append(w.got, p...)\n\tw.calls++\n\treturn len(p), nil\n}", wr))
		return fmt.Sprintf("{\n\tr := &%s{data: %s}\n\tw := &%s{}\n\tn, err := io.Copy(w, r)\n\trec.E(%d, n, err == nil, string(w.got), w.calls)\n}\n", rd, g.OneOf("data", `"hello, world"`, `""`, `"x"`, `"0123456789abcdef"`), wr, ev)
	case 9: // sync.Once
		g.imp("sync")
		g.calls++
		g.Tag("sync.Once.Do")
		return fmt.Sprintf("{\n\tvar once sync.Once\n\tn := 0\n\tfor i := 0; i < %d; i++ {\n\t\tonce.Do(func() { n += 10 })\n\t}\n\trec.E(%d, n)\n}\n", g.Int(1, 4, "n"), ev)
	case 10: // callbacks from N fresh goroutines at once, pure
		n := g.Int(2, 16, "n")
		g.calls += n
		g.foreign = true
		g.Tag("rec.Par pure callback")
		return fmt.Sprintf("{\n\tk := %d\n\trec.E(%d, rec.Par(%d, func(i int) int { return i*i + k }))\n}\n", g.Int(0, 9, "k"), ev, n)
	case 11: // concurrent callbacks sharing a mutex-protected counter
		g.imp("sync")
		n := g.Int(2, 16, "n")
		g.calls += n
		g.foreign = true
		g.Tag("rec.Par callback with mutex-protected shared state")
		return fmt.Sprintf("{\n\tvar mu sync.Mutex\n\ttotal := 0\n\tres := rec.Par(%d, func(i int) int {\n\t\tmu.Lock()\n\t\ttotal += i\n\t\tmu.Unlock()\n\t\treturn i + 1\n\t})\n\trec.E(%d, res, total)\n}\n", n, ev)
	case 12: // callbacks from one foreign goroutine, closure state
		n := g.Int(1, 12, "n")
		g.calls += n
		g.foreign = true
		g.Tag("rec.Seq callback from a foreign goroutine")
		return fmt.Sprintf("{\n\tacc := 0\n\tres := rec.Seq(%d, func(i int) int {\n\t\tacc += i\n\t\treturn acc\n\t})\n\trec.E(%d, res, acc)\n}\n", n, ev)
	case 13: // compiled higher-order helpers
		g.calls += 5
		g.Tag("rec.Fold / rec.Apply")
		return fmt.Sprintf("rec.E(%d, rec.Fold(func(acc, x int) int { return acc*%d + x }, %s), rec.Apply(func(s string) string { return s + s }, %s))\n",
			ev, g.Int(1, 3, "m"), g.ints(g.Int(0, 5, "n")), g.OneOf("ap", `"ab"`, `""`))
	case 14: // compiled functions called from interpreted code: values in and out
		g.imp("strings")
		g.imp("strconv")
		g.Tag("compiled functions called with interpreted values")
		return fmt.Sprintf("{\n\tn, err := strconv.Atoi(%s)\n\tparts := strings.Split(%s, \",\")\n\trec.E(%d, n, err == nil, parts, strings.Repeat(%s, %d), strconv.Itoa(%d), strings.Join(%s, \"-\"))\n}\n",
			g.OneOf("atoi", `"42"`, `"-7"`, `"x1"`, `""`), g.OneOf("split", `"a,b,,c"`, `""`, `"abc"`), ev, g.OneOf("rep", `"ab"`, `"é"`), g.Int(0, 3, "times"), g.Int(-50, 5000, "itoa"), g.strs(g.Int(0, 4, "nj")))
	case 15: // an interpreted named FUNC type with a method, stored in a compiled interface, then the variable is reassigned
		g.imp("fmt")
		g.calls += 3
		g.Tag("named func type as fmt.Stringer, variable reassigned afterwards")
		hf := g.Top("Namer")
		g.decls = append(g.decls,
			fmt.Sprintf("type %s func() string", hf),
			fmt.Sprintf("func (f %s) String() string { return \"<\" + f() + \">\" }", hf))
		return fmt.Sprintf("{\n\tvar h %s = func() string { return %s }\n\tvar s fmt.Stringer = h\n\th = func() string { return \"later\" }\n\trec.E(%d, rec.Str(s), h.String(), s.String())\n}\n", hf, g.OneOf("nm", `"one"`, `"x y"`, `""`), ev)
	case 16: // struct value vs pointer stored in a compiled interface, then the variable is modified
		g.imp("fmt")
		g.calls += 4
		g.Tag("value vs pointer in compiled interface, variable modified afterwards")
		t := g.Top("Pt")
		g.decls = append(g.decls,
			fmt.Sprintf("type %s struct{ x, y int }", t),
			fmt.Sprintf("func (p %s) String() string { return fmt.Sprint(p.x, \",\", p.y) }", t),
			fmt.Sprintf("func (p *%s) Error() string { return fmt.Sprint(\"err \", p.x, \",\", p.y) }", t))
		a, b := g.Int(0, 9, "a"), g.Int(0, 9, "b")
		return fmt.Sprintf("{\n\tv := %s{%d, %d}\n\tvar byval fmt.Stringer = v\n\tvar byptr error = &v\n\tv.x = %d\n\trec.E(%d, rec.Str(byval), rec.Err(byptr), v.String())\n}\n", t, a, b, a+50, ev)
	default: // sort.Strings / sort.Ints on interpreted slices + math
		g.imp("sort")
		g.imp("math")
		g.Tag("sort.Ints/Strings, math")
		return fmt.Sprintf("{\n\ta := %s\n\tb := %s\n\tsort.Ints(a)\n\tsort.Strings(b)\n\trec.E(%d, a, b, math.Sqrt(%d), math.Max(%d, 2.5))\n}\n", g.ints(g.Int(0, 8, "n")), g.strs(g.Int(0, 6, "ns")), ev, g.Int(0, 99, "sq"), g.Int(-3, 5, "mx"))
	}
}

// Generate builds one C11 program.
func Generate(t *rapid.T, px string) gobatch.Program {
	g := &gen{G: progen.New(t, px, 0), imports: map[string]bool{}}
	n := g.Int(1, 6, "nsnippets")
	var body strings.Builder
	for i := 0; i < n; i++ {
		body.WriteString(g.snippet())
	}
	entry := g.Top("main")
	decls := append(g.decls, fmt.Sprintf("func %s() {\n%s}", entry, progen.Indent(body.String())))
	var imps []string
	for p := range g.imports {
		imps = append(imps, p)
	}
	sort.Strings(imps)
	p := gobatch.Program{Imports: imps, Decls: decls, Entry: entry, Tags: g.TagList()}
	switch {
	case g.foreign:
		p.NT = "callback-from-another-goroutine"
	case g.calls >= 10:
		p.NT = ">=10-callbacks-from-compiled-code"
	}
	return p
}
