// C11: interpreted functions and types interoperate with compiled code like Go values.
// Oracle: the Go toolchain (batch build of all generated programs).
package c11

import (
	"os"
	"testing"

	"github.com/cosmos72/gomacro/fast"

	"verif/harness/conc"
	"verif/harness/gobatch"
	"verif/harness/vlib"
)

var rec *vlib.Rec

func TestMain(m *testing.M) {
	rec = vlib.Open("C11")
	rec.Rule("cases = generated programs of 1-6 snippets, each routing interpreted functions or interpreted types through a compiled entry point: sort.Slice/SliceStable/Search, sort.Sort with an interpreted sort.Interface, " +
		"strings.Map/FieldsFunc/IndexFunc, bytes.Map, fmt with interpreted Stringer/error, io.Copy with interpreted Reader/Writer, sync.Once.Do, compiled helpers that invoke a callback from N fresh goroutines at once (pure and with mutex-protected shared state) or from one foreign goroutine, " +
		"and compiled functions called with interpreted values (strconv, strings, math, sort); results compared with compiled Go; the test binary is built with -race; " +
		"non-trivial = compiled code calls back into interpreted code >= 10 times, or from a goroutine other than the evaluating one; distinct = distinct program texts")
	rec.Assume("oracle: gc toolchain on the same text; the compiled callback drivers (rec.Par, rec.Seq, rec.Fold, rec.Apply) are the same source on both sides")
	rec.Assume("values of interpreted named types reach compiled code only through the interfaces the import tables have proxies for (documented)")
	fast.New()
	if conc.IsReplayChild() {
		conc.ReplayChild(rec, cfg())
	}
	os.Exit(vlib.Main(m, rec))
}

func known(p gobatch.Program, got, want gobatch.Result) string { return "" }

func cfg() gobatch.Config {
	return gobatch.Config{Rec: rec, Name: "c11", N: rec.Scale(250, 2500), Gen: Generate, Known: known, Interp: conc.Run(rec, 2, 5)}
}

func TestInterop(t *testing.T) { gobatch.Run(t, cfg()) }

func TestReplays(t *testing.T) { rec.RunReplays(t, conc.SubprocessReplayer()) }
