// C37: REPL command lookup resolves unique prefixes and reports ambiguity.
// Oracle: a linear scan over the list of registered names (reference model).
package c37

import (
	"bytes"
	"encoding/json"
	"fmt"
	"io"
	"os"
	"sort"
	"strings"
	"testing"

	"github.com/cosmos72/gomacro/base"
	"github.com/cosmos72/gomacro/fast"
	"github.com/cosmos72/gomacro/fast/debug"
	"pgregory.net/rapid"

	"verif/harness/vlib"
)

var rec *vlib.Rec

func TestMain(m *testing.M) {
	rec = vlib.Open("C37")
	rec.Rule("cases = (command table, typed prefix) pairs: bounded-exhaustive tables of <=4 names over {a,b}^(1..3) x all prefixes over {a,b}^(0..4); " +
		"rapid state machines of Add/Del/Lookup/Interp.Cmd over names sharing prefixes with each other and with the built-in commands; " +
		"a case is non-trivial when the table holds a name that is a proper prefix of another name of the table, or when >=2 names match the prefix; distinct = distinct (sorted table, prefix) pairs")
	rec.Assume("fast.Commands is process-global: the check owns its process, removes the built-in commands for the exhaustive part and restores them")
	rec.Assume("reference model: exact name wins, else unique prefix match, else ambiguity listing the matching names sorted and space-separated, else io.EOF")
	os.Exit(vlib.Main(m, rec))
}

// ---------------------------------------------------------------- model

type outcome struct {
	Name string // found command ("" if none)
	Err  string // "" found, "EOF" none, else space separated candidates
}

func modelLookup(names []string, prefix string) outcome {
	if prefix == "" {
		return outcome{Err: "EOF"}
	}
	var cand []string
	for _, n := range names {
		if n == prefix {
			return outcome{Name: n}
		}
		if strings.HasPrefix(n, prefix) {
			cand = append(cand, n)
		}
	}
	switch len(cand) {
	case 0:
		return outcome{Err: "EOF"}
	case 1:
		return outcome{Name: cand[0]}
	}
	sort.Strings(cand)
	return outcome{Err: strings.Join(cand, " ")}
}

func realLookup(prefix string) (o outcome) {
	defer func() {
		if p := recover(); p != nil {
			o = outcome{Err: fmt.Sprintf("PANIC: %v", p)}
		}
	}()
	cmd, err := fast.Commands.Lookup(prefix)
	if err == nil {
		return outcome{Name: cmd.Name}
	}
	if err == io.EOF {
		return outcome{Err: "EOF"}
	}
	return outcome{Err: err.Error()}
}

func nontrivial(names []string, prefix string) bool {
	n := 0
	for _, a := range names {
		if strings.HasPrefix(a, prefix) && prefix != "" {
			n++
		}
		for _, b := range names {
			if a != b && strings.HasPrefix(b, a) {
				return true
			}
		}
	}
	return n >= 2
}

func mkCmd(name string) fast.Cmd {
	return fast.Cmd{Name: name, Help: name, Func: func(ir *fast.Interp, arg string, opt base.CmdOpt) (string, base.CmdOpt) {
		called = append(called, name+"("+strings.TrimSpace(arg)+")")
		return "", opt
	}}
}

var called []string

func clearCommands() (saved []fast.Cmd) {
	saved = fast.Commands.List()
	for _, c := range saved {
		fast.Commands.Del(c.Name)
	}
	return saved
}

func restoreCommands(saved []fast.Cmd) {
	for _, c := range fast.Commands.List() {
		fast.Commands.Del(c.Name)
	}
	for _, c := range saved {
		fast.Commands.Add(c)
	}
}

func listNames() []string {
	var l []string
	for _, c := range fast.Commands.List() {
		l = append(l, c.Name)
	}
	return l
}

// ---------------------------------------------------------------- plain case + replay

// A case in plain form: ops are "add NAME", "del NAME", "lookup PREFIX", "cmd TEXT".
type history struct {
	Builtins bool     `json:"builtins"` // built-in commands kept registered
	Ops      []string `json:"ops"`
}

// runHistory applies the history to the real table and the model; returns an error
// describing the first disagreement.
func runHistory(h history) error {
	saved := fast.Commands.List()
	defer restoreCommands(saved)
	var names []string
	if h.Builtins {
		names = listNames()
	} else {
		clearCommands()
	}
	var ir *fast.Interp
	var out bytes.Buffer
	for i, op := range h.Ops {
		verb, arg := op, ""
		if k := strings.IndexByte(op, ' '); k >= 0 {
			verb, arg = op[:k], op[k+1:]
		}
		switch verb {
		case "add":
			ok := fast.Commands.Add(mkCmd(arg))
			if want := arg != ""; ok != want {
				return fmt.Errorf("step %d %q: Add returned %v, want %v", i, op, ok, want)
			}
			if arg != "" && !contains(names, arg) {
				names = append(names, arg)
			}
		case "del":
			ok := fast.Commands.Del(arg)
			want := contains(names, arg)
			if ok != want {
				return fmt.Errorf("step %d %q: Del returned %v, want %v", i, op, ok, want)
			}
			names = remove(names, arg)
		case "lookup":
			got, want := realLookup(arg), modelLookup(names, arg)
			if got != want {
				return fmt.Errorf("step %d %q with table %v: got %+v, want %+v", i, op, sorted(names), got, want)
			}
		case "cmd":
			if ir == nil {
				ir = fast.New()
				ir.Comp.Globals.Stdout = &out
				ir.Comp.Globals.Stderr = &out
			}
			if err := checkCmd(ir, &out, names, arg); err != nil {
				return fmt.Errorf("step %d %q with table %v: %v", i, op, sorted(names), err)
			}
		default:
			return fmt.Errorf("bad op %q", op)
		}
		// invariant: List() is exactly the model's names, sorted
		if got, want := listNames(), sorted(names); !equal(got, want) {
			return fmt.Errorf("after step %d %q: List() = %v, want %v", i, op, got, want)
		}
	}
	return nil
}

// checkCmd feeds ":"+text to Interp.Cmd. Only harness commands and unknown names are
// used as first word (built-ins would run their real implementation).
func checkCmd(ir *fast.Interp, out *bytes.Buffer, names []string, text string) error {
	src := ":" + text
	prefix, arg := text, ""
	if k := strings.IndexByte(text, ' '); k >= 0 {
		prefix, arg = text[:k], text[k+1:]
	}
	want := modelLookup(names, prefix)
	called = nil
	out.Reset()
	var gotSrc string
	var gotOpt base.CmdOpt
	if p := vlib.Try(func() { gotSrc, gotOpt = ir.Cmd(src) }); p != nil {
		return fmt.Errorf("Interp.Cmd(%q) panicked: %v", src, p)
	}
	switch {
	case want.Err == "": // found: the command runs with arg, nothing left to evaluate
		// the argument is handed over with surrounding blanks trimmed (not part of the property)
		if len(called) != 1 || called[0] != want.Name+"("+strings.TrimSpace(arg)+")" {
			return fmt.Errorf("Interp.Cmd(%q): commands run = %v, want [%s(%s)]", src, called, want.Name, arg)
		}
		if gotSrc != "" {
			return fmt.Errorf("Interp.Cmd(%q): leftover source %q", src, gotSrc)
		}
	case want.Err == "EOF": // unknown: evaluated as code, forced
		if len(called) != 0 {
			return fmt.Errorf("Interp.Cmd(%q): unknown command but ran %v", src, called)
		}
		if gotOpt&base.CmdOptForceEval == 0 {
			return fmt.Errorf("Interp.Cmd(%q): unknown command, CmdOptForceEval not set", src)
		}
		if strings.TrimSpace(gotSrc) != strings.TrimSpace(text) {
			return fmt.Errorf("Interp.Cmd(%q): unknown command, source to evaluate = %q, want %q", src, gotSrc, text)
		}
	default: // ambiguous: warning naming the candidates, nothing evaluated
		if len(called) != 0 {
			return fmt.Errorf("Interp.Cmd(%q): ambiguous command but ran %v", src, called)
		}
		if gotSrc != "" {
			return fmt.Errorf("Interp.Cmd(%q): ambiguous command but returned source %q", src, gotSrc)
		}
		if !strings.Contains(out.String(), want.Err) {
			return fmt.Errorf("Interp.Cmd(%q): ambiguity warning %q does not list %q", src, out.String(), want.Err)
		}
	}
	return nil
}

func contains(l []string, s string) bool {
	for _, x := range l {
		if x == s {
			return true
		}
	}
	return false
}
func remove(l []string, s string) []string {
	var r []string
	for _, x := range l {
		if x != s {
			r = append(r, x)
		}
	}
	return r
}
func sorted(l []string) []string {
	r := append([]string(nil), l...)
	sort.Strings(r)
	return r
}
func equal(a, b []string) bool {
	if len(a) != len(b) {
		return false
	}
	for i := range a {
		if a[i] != b[i] {
			return false
		}
	}
	return true
}

func replay(content []byte) error {
	var h history
	if err := json.Unmarshal(content, &h); err != nil {
		return nil // not a C37 history: nothing to check
	}
	return runHistory(h)
}

func TestReplays(t *testing.T) {
	rec.RunReplays(t, replay)
}

// ---------------------------------------------------------------- exhaustive part

func words(alpha string, minLen, maxLen int) []string {
	var out []string
	var gen func(cur string)
	gen = func(cur string) {
		if len(cur) >= minLen {
			out = append(out, cur)
		}
		if len(cur) == maxLen {
			return
		}
		for _, c := range alpha {
			gen(cur + string(c))
		}
	}
	gen("")
	return out
}

func TestExhaustiveSmallTables(t *testing.T) {
	if rec.ReplayOnly() {
		return
	}
	names := words("ab", 1, 3)     // 14 names
	prefixes := words("ab", 0, 4)  // 31 prefixes
	maxSet := rec.Scale(4, 5)      // thorough: tables of up to 5 names
	saved := clearCommands()
	defer restoreCommands(saved)
	idx := 0
	var cur []string
	var walk func(start int)
	failed := false
	walk = func(start int) {
		if failed {
			return
		}
		idx++
		if rec.Mine(idx) {
			// build the table in a rotated insertion order, so that Add's sorting is exercised
			for _, c := range fast.Commands.List() {
				fast.Commands.Del(c.Name)
			}
			for i := range cur {
				fast.Commands.Add(mkCmd(cur[(i+idx)%len(cur)]))
			}
			for _, p := range prefixes {
				rec.Eval(1)
				got, want := realLookup(p), modelLookup(cur, p)
				if nontrivial(cur, p) {
					rec.NT(strings.Join(cur, ",") + "|" + p)
				}
				if got != want {
					h := history{}
					for i := range cur {
						h.Ops = append(h.Ops, "add "+cur[(i+idx)%len(cur)])
					}
					h.Ops = append(h.Ops, "lookup "+p)
					data, _ := json.MarshalIndent(h, "", " ")
					rec.Violation("exhaustive", data, "json", "table %v lookup %q: got %+v want %+v", cur, p, got, want)
					t.Errorf("table %v lookup %q: got %+v want %+v", cur, p, got, want)
					failed = true
					return
				}
			}
			if idx%97 == 0 {
				rec.Sample(map[string]interface{}{"table": append([]string(nil), cur...), "prefixes": "all of {a,b}^(0..4)"})
			}
		}
		if len(cur) == maxSet {
			return
		}
		for i := start; i < len(names); i++ {
			cur = append(cur, names[i])
			walk(i + 1)
			cur = cur[:len(cur)-1]
		}
	}
	walk(0)
	rec.LabelN("exhaustive-tables", idx)
	rec.Exhaustive(true)
}

// ---------------------------------------------------------------- state machine

var namePool = []string{
	"a", "ab", "abc", "abd", "b", "ba", "bab", "zed", "zedx", "zedxy", "ze",
	// share first letters / prefixes with the built-in commands
	"h", "he", "hel", "helpx", "help2", "q", "qu", "quit2", "e", "en", "envy", "o", "op", "d", "de", "debugger", "i", "in",
	"u", "unloadx", "w", "wr", "p", "pa", "c", "co", "x_1", "X",
}

func genName(t *rapid.T, label string) string {
	if rapid.IntRange(0, 9).Draw(t, label+"-kind") == 0 {
		return rapid.StringMatching(`[a-c]{0,4}`).Draw(t, label)
	}
	return rapid.SampledFrom(namePool).Draw(t, label)
}

func genPrefix(t *rapid.T, names []string) string {
	switch rapid.IntRange(0, 5).Draw(t, "pfx-kind") {
	case 0:
		return rapid.StringMatching(`[a-c]{0,4}`).Draw(t, "pfx")
	case 1:
		return rapid.SampledFrom(namePool).Draw(t, "pfx")
	default: // a prefix (possibly whole, possibly extended) of a registered name
		if len(names) == 0 {
			return rapid.SampledFrom(namePool).Draw(t, "pfx")
		}
		n := rapid.SampledFrom(names).Draw(t, "pfx-of")
		k := rapid.IntRange(0, len(n)+1).Draw(t, "pfx-len")
		if k > len(n) {
			return n + "x"
		}
		return n[:k]
	}
}

func TestStateMachine(t *testing.T) {
	builtinNames := listNames()
	rec.Check(t, rec.Scale(3000, 30000), func(t *rapid.T) {
		h := history{Builtins: rapid.Bool().Draw(t, "builtins")}
		var names []string
		if h.Builtins {
			names = append(names, builtinNames...)
		}
		n := rapid.IntRange(1, 30).Draw(t, "nops")
		nt := false
		for i := 0; i < n; i++ {
			switch k := rapid.IntRange(0, 9).Draw(t, "op"); {
			case k <= 2:
				name := genName(t, "add")
				h.Ops = append(h.Ops, "add "+name)
				if name != "" && !contains(names, name) {
					names = append(names, name)
				}
			case k == 3:
				var name string
				if len(names) > 0 && rapid.Bool().Draw(t, "del-existing") {
					name = rapid.SampledFrom(names).Draw(t, "del")
				} else {
					name = genName(t, "del")
				}
				if h.Builtins && contains(builtinNames, name) {
					continue // keep the built-ins: other tests of this process need them
				}
				h.Ops = append(h.Ops, "del "+name)
				names = remove(names, name)
			case k <= 7:
				p := genPrefix(t, names)
				h.Ops = append(h.Ops, "lookup "+p)
				if nontrivial(names, p) {
					nt = true
					rec.NT(strings.Join(sorted(names), ",") + "|" + p)
				}
				rec.Label("lookup:" + classify(modelLookup(names, p)))
			default:
				p := genPrefix(t, names)
				if p == "" || strings.ContainsAny(p, " ") {
					continue
				}
				if o := modelLookup(names, p); o.Err == "" && contains(builtinNames, o.Name) {
					continue // would run a real built-in command
				}
				arg := rapid.SampledFrom([]string{"", " 1+1", " x y", "  \"s\""}).Draw(t, "arg")
				h.Ops = append(h.Ops, "cmd "+p+arg)
				rec.Label("cmd:" + classify(modelLookup(names, p)))
			}
		}
		data, _ := json.MarshalIndent(h, "", " ")
		if nt {
			rec.Sample(h)
		}
		if err := runHistory(h); err != nil {
			rec.Failf(t, "statemachine", data, "json", "%v", err)
		}
	})
}

func classify(o outcome) string {
	switch {
	case o.Err == "":
		return "found"
	case o.Err == "EOF":
		return "none"
	}
	return "ambiguous"
}

// ---------------------------------------------------------------- debugger table (one command per first letter)

func TestDebuggerStyleTable(t *testing.T) {
	rec.Check(t, rec.Scale(2000, 12000), func(t *rapid.T) {
		tbl := debug.Cmds{}
		names := rapid.SliceOfNDistinct(rapid.StringMatching(`[a-d?][a-d]{0,3}`), 0, 5, func(s string) byte { return s[0] }).Draw(t, "names")
		for _, n := range names {
			tbl[n[0]] = debug.Cmd{Name: n}
		}
		p := rapid.StringMatching(`[a-d?]{0,4}`).Draw(t, "prefix")
		cmd, found := tbl.Lookup(p)
		var want string
		for _, n := range names {
			if p != "" && strings.HasPrefix(n, p) {
				want = n
				rec.NT("dbg:" + strings.Join(sorted(names), ",") + "|" + p)
			}
		}
		if found != (want != "") || cmd.Name != want {
			data, _ := json.Marshal(map[string]interface{}{"debugger_table": names, "prefix": p})
			rec.Failf(t, "debugger-table", data, "json", "debugger-style table %v lookup %q: got (%q,%v) want %q", names, p, cmd.Name, found, want)
		}
	})
}
