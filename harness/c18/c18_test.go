// C18: program results do not depend on semantics-neutral interpreter options.
// Oracle: metamorphic - the same program under every option combination must give the
// trace and the panic it gives under the default options (which the C05.. checks
// compare with compiled Go, using the very same generators).
package c18

import (
	"bufio"
	"bytes"
	"encoding/json"
	"fmt"
	"go/constant"
	"go/token"
	"os"
	"os/exec"
	"reflect"
	"regexp"
	"strings"
	"testing"

	"github.com/cosmos72/gomacro/base"
	"github.com/cosmos72/gomacro/base/untyped"
	"github.com/cosmos72/gomacro/fast"
	"github.com/cosmos72/gomacro/go/etoken"
	"pgregory.net/rapid"

	"verif/harness/c05"
	"verif/harness/c08"
	"verif/harness/c09"
	"verif/harness/gobatch"
	"verif/harness/gobatch/rec"
	"verif/harness/progen"
	"verif/harness/vlib"
)

var vrec *vlib.Rec

func TestMain(m *testing.M) {
	if os.Getenv("C18_WORKER") != "" {
		worker()
		return
	}
	vrec = vlib.Open("C18")
	vrec.Rule("cases = (program, option set, entry path) triples: programs from the C05 control-flow, C08 composite/builtin and C09 method/embedding/interface generators, a generator of programs that panic at a random point (run-time error classes and user panics, with and without recover) and a generator of promoted fields and methods through named and unnamed struct types and pointers to them, " +
		"each evaluated through Interp.Eval and through the REPL path (ParseEvalPrint per declaration) under all 32 combinations of {Debugger, Collect Declarations+Statements, TrapPanic, PanicStackTrace, KeepUntyped} and, in a worker process, with the CTI generics extension on; " +
		"compared with the default-option Eval run: trace, whether a panic ended the run and its canonical value; plus random constant expressions evaluated with and without KeepUntyped (value equality). " +
		"A case is non-trivial when the program declares at least one function besides the entry (debug-mode function path) or ends in a panic; distinct = distinct program texts")
	vrec.Assume("the default-option results of the same generators are compared with compiled Go by checks C05.. (same generator code)")
	vrec.Assume("etoken.GENERICS is process-global: the generics-on runs happen in a worker subprocess of the same test binary")
	fast.New() // warm-up outside rapid's timer
	os.Exit(vlib.Main(m, vrec))
}

// ---------------------------------------------------------------- option sets

var optBits = []base.Options{
	base.OptDebugger,
	base.OptCollectDeclarations | base.OptCollectStatements,
	base.OptTrapPanic,
	base.OptPanicStackTrace,
	base.OptKeepUntyped,
}

var optNames = []string{"Debugger", "Collect", "TrapPanic", "StackTrace", "KeepUntyped"}

func comboName(mask int) string {
	var l []string
	for i, n := range optNames {
		if mask&(1<<i) != 0 {
			l = append(l, n)
		}
	}
	if len(l) == 0 {
		return "none"
	}
	return strings.Join(l, "+")
}

func comboOptions(mask int) (set base.Options) {
	for i, b := range optBits {
		if mask&(1<<i) != 0 {
			set |= b
		}
	}
	return set
}

const allOptBits = base.OptDebugger | base.OptCollectDeclarations | base.OptCollectStatements | base.OptTrapPanic | base.OptPanicStackTrace | base.OptKeepUntyped

// ---------------------------------------------------------------- runners

type outcome struct {
	Trace  []string
	Panic  bool   // the run ended in a panic (escaped or trapped)
	PanicV string // canonical panic value when it escaped as a Go value ("" when trapped: only text is available)
	Err    string // compile error
}

func (o outcome) key() string {
	p := ""
	if o.Panic {
		p = "PANIC"
	}
	return strings.Join(o.Trace, "\n") + "\n" + p + "\n" + o.Err
}

// runEval: declarations and the entry call through Interp.Eval, exactly the given option bits.
func runEval(p gobatch.Program, opts base.Options) (o outcome) {
	gobatch.RegisterRec()
	ir := fast.New()
	g := &ir.Comp.Globals
	var sink bytes.Buffer
	g.Stdout, g.Stderr = &sink, &sink
	g.Options = (g.Options &^ allOptBits) | opts
	stage := "compile"
	defer func() {
		if pv := recover(); pv != nil {
			if stage == "compile" {
				o.Err = "compile: " + fmt.Sprint(pv)
				o.Trace = nil
				return
			}
			o.Trace = rec.Take()
			o.Panic = true
			o.PanicV = rec.P(pv)
		}
	}()
	ir.Eval(`import "verif/rec"`)
	for _, imp := range p.Imports {
		ir.Eval(fmt.Sprintf("import %q", imp))
	}
	for _, d := range p.Decls {
		ir.Eval(d)
	}
	stage = "run"
	rec.Reset()
	ir.Eval(p.Entry + "()")
	o.Trace = rec.Take()
	return o
}

// runRepl: the REPL path. A trapped panic shows up as text on Stderr.
func runRepl(p gobatch.Program, opts base.Options) (o outcome) {
	gobatch.RegisterRec()
	ir := fast.New()
	g := &ir.Comp.Globals
	var out, errb bytes.Buffer
	g.Stdout, g.Stderr = &out, &errb
	g.Options = (g.Options &^ allOptBits) | opts
	stage := "compile"
	defer func() {
		if pv := recover(); pv != nil {
			if stage == "compile" {
				o.Err = "compile: " + fmt.Sprint(pv)
				o.Trace = nil
				return
			}
			o.Trace = rec.Take()
			o.Panic = true
			o.PanicV = rec.P(pv)
		}
	}()
	ir.ParseEvalPrint(`import "verif/rec"`)
	for _, imp := range p.Imports {
		ir.ParseEvalPrint(fmt.Sprintf("import %q", imp))
	}
	for _, d := range p.Decls {
		ir.ParseEvalPrint(d)
	}
	if errb.Len() != 0 && opts&base.OptTrapPanic != 0 {
		o.Err = "compile: " + errb.String()
		return o
	}
	stage = "run"
	rec.Reset()
	errb.Reset()
	ir.ParseEvalPrint(p.Entry + "()")
	o.Trace = rec.Take()
	if opts&base.OptTrapPanic != 0 && errb.Len() != 0 {
		o.Panic = true
	}
	return o
}

// ---------------------------------------------------------------- generators

// genPanic: a program that records events and then panics at a random point, in a
// nested call, possibly recovered.
func genPanic(t *rapid.T, px string) gobatch.Program {
	g := progen.New(t, px, 20)
	f := g.Top("f")
	kind := g.Pick(7, "panic-kind")
	var boom string
	switch kind {
	case 0:
		boom = "z := 0\n\trec.E(100, 10/z)"
	case 1:
		boom = "s := []int{1, 2}\n\ti := 5\n\trec.E(100, s[i])"
	case 2:
		boom = "var m map[string]int\n\tm[\"a\"] = 1"
	case 3:
		boom = "var p *int\n\trec.E(100, *p)"
	case 4:
		boom = fmt.Sprintf("panic(%d)", g.Int(-5, 50, "pv"))
	case 5:
		boom = "panic(\"boom\")"
	default:
		boom = "var x interface{} = 1\n\trec.E(100, x.(string))"
	}
	depth := g.Int(0, 3, "depth")
	recoverAt := g.Int(-1, depth, "recover-at") // -1: not recovered
	var decls []string
	decls = append(decls, fmt.Sprintf("func %s0(a int) int {\n\trec.E(1, a)\n\tdefer func() { rec.E(2) }()\n\tif a > %d {\n\t%s\n\t}\n\trec.E(3)\n\treturn a + 1\n}", f, g.Int(-2, 3, "thr"), boom))
	for d := 1; d <= depth; d++ {
		body := fmt.Sprintf("rec.E(%d, a)\n", 10*d)
		if d == recoverAt {
			body += fmt.Sprintf("defer func() { rec.R(\"r%d\", recover()) }()\n", d)
		} else {
			body += fmt.Sprintf("defer func() { rec.E(%d) }()\n", 10*d+1)
		}
		body += fmt.Sprintf("r := %s%d(a + %d)\nrec.E(%d, r)\nreturn r * 2\n", f, d-1, g.Int(0, 2, "inc"), 10*d+2)
		decls = append(decls, fmt.Sprintf("func %s%d(a int) int {\n%s}", f, d, progen.Indent(body)))
	}
	entry := g.Top("main")
	body := fmt.Sprintf("for i := 0; i < %d; i++ {\n\trec.E(200, i, %s)\n}\n", g.Int(1, 3, "n"), g.IntExpr(1))
	if recoverAt == 0 {
		body = "defer func() { rec.R(\"r0\", recover()) }()\n" + body
	}
	body += fmt.Sprintf("rec.E(201, %s%d(%d))\nrec.E(202)\n", f, depth, g.Int(-1, 4, "arg"))
	decls = append(decls, fmt.Sprintf("func %s() {\n%s}", entry, progen.Indent(body)))
	return gobatch.Program{Decls: decls, Entry: entry, Tags: []string{"panic-program", fmt.Sprintf("panic-kind-%d", kind)}}
}

// genEmbed: named types with value and pointer receiver methods, embedded by value and by
// pointer in named structs, in unnamed struct types and behind pointers to them; promoted
// fields and methods are used through every one of them and through an interface.
func genEmbed(t *rapid.T, px string) gobatch.Program {
	g := progen.New(t, px, 20)
	base := g.Top("Counter")
	decls := []string{
		fmt.Sprintf("type %s struct{ n int }", base),
		fmt.Sprintf("func (c *%s) Inc() int { c.n += %d; return c.n }", base, g.Int(1, 5, "inc")),
		fmt.Sprintf("func (c %s) Get() int { return c.n * %d }", base, g.Int(1, 3, "mul")),
	}
	named := g.Top("Outer")
	byPtr := g.Bool("embed-by-pointer")
	emb, lit := base, fmt.Sprintf("%s{%d}", base, g.Int(0, 9, "n0"))
	if byPtr {
		emb, lit = "*"+base, "&"+lit
	}
	decls = append(decls, fmt.Sprintf("type %s struct {\n\t%s\n\ttag string\n}", named, emb))
	iface := g.Top("Getter")
	decls = append(decls, fmt.Sprintf("type %s interface{ Get() int }", iface))
	var body strings.Builder
	n := g.Int(2, 6, "uses")
	for i := 0; i < n; i++ {
		ev := g.Ev()
		switch g.Pick(6, "use") {
		case 0: // named outer struct, addressable
			fmt.Fprintf(&body, "{\n\to := %s{%s, \"a\"}\n\trec.E(%d, o.Inc(), o.Get(), o.n, o.tag)\n}\n", named, lit, ev)
		case 1: // pointer to named outer struct
			fmt.Fprintf(&body, "{\n\tp := &%s{%s, \"b\"}\n\trec.E(%d, p.Inc(), p.Inc(), p.Get(), p.n)\n}\n", named, lit, ev)
		case 2: // unnamed struct type embedding the named type
			fmt.Fprintf(&body, "{\n\tu := struct {\n\t\t%s\n\t\ttag string\n\t}{%s, \"c\"}\n\trec.E(%d, u.Inc(), u.Get(), u.n)\n}\n", emb, lit, ev)
		case 3: // pointer to an unnamed struct type embedding the named type
			fmt.Fprintf(&body, "{\n\tq := &struct {\n\t\t%s\n\t\ttag string\n\t}{%s, \"d\"}\n\trec.E(%d, q.Inc(), q.Get(), q.n, q.tag)\n}\n", emb, lit, ev)
		case 4: // through an interface
			fmt.Fprintf(&body, "{\n\tvar i %s = %s{%s, \"e\"}\n\trec.E(%d, i.Get())\n}\n", iface, named, lit, ev)
		default: // method values
			fmt.Fprintf(&body, "{\n\tp := &%s{%s, \"f\"}\n\tf, h := p.Inc, p.Get\n\trec.E(%d, f(), f(), h(), p.Get())\n}\n", named, lit, ev)
		}
	}
	entry := g.Top("main")
	decls = append(decls, fmt.Sprintf("func %s() {\n%s}", entry, progen.Indent(body.String())))
	return gobatch.Program{Decls: decls, Entry: entry, Tags: []string{"embedding-program"}}
}

var gens = []struct {
	name string
	gen  func(*rapid.T, string) gobatch.Program
}{
	{"c05-control-flow", c05.Generate},
	{"panic-at-random-point", genPanic},
	{"embedding-and-method-sets", genEmbed},
	{"c08-composites-and-builtins", c08.Generate},
	{"c09-methods-embedding-interfaces", c09.Generate},
}

func init() {
	// the C08 generator avoids the shapes of its known findings only when told to: avoid all
	// of them here (under every option set they fail the same way, which proves nothing)
	v := reflect.ValueOf(&c08.Avoid).Elem()
	for i := 0; i < v.NumField(); i++ {
		if v.Field(i).Kind() == reflect.Bool {
			v.Field(i).SetBool(true)
		}
	}
}

// ---------------------------------------------------------------- the property

type caseT struct {
	Program gobatch.Program `json:"program"`
}

func checkProgram(p gobatch.Program, masks []int) error {
	base0 := runEval(p, base.OptTrapPanic) // the default option set of NewGlobals
	for _, m := range masks {
		opts := comboOptions(m)
		for _, path := range []string{"eval", "repl"} {
			var o outcome
			if path == "eval" {
				o = runEval(p, opts)
			} else {
				o = runRepl(p, opts)
			}
			vrec.Eval(1)
			vrec.Label("path:" + path)
			if base0.Err != "" || o.Err != "" {
				// a program must compile under every option set or none
				if (base0.Err == "") != (o.Err == "") {
					return fmt.Errorf("options %s via %s: compile outcome differs: default %q, here %q", comboName(m), path, base0.Err, o.Err)
				}
				continue
			}
			if o.key() != base0.key() {
				return fmt.Errorf("options %s via %s: result differs from the default-option run\n%s", comboName(m), path,
					gobatch.Diff(gobatch.Result{Trace: o.Trace, Panic: fmt.Sprint(o.Panic)}, gobatch.Result{Trace: base0.Trace, Panic: fmt.Sprint(base0.Panic)}))
			}
			if o.Panic && o.PanicV != "" && base0.PanicV != "" && o.PanicV != base0.PanicV {
				return fmt.Errorf("options %s via %s: panic value %s, default options %s", comboName(m), path, o.PanicV, base0.PanicV)
			}
		}
	}
	return nil
}

func allMasks() []int {
	var l []int
	for m := 0; m < 32; m++ {
		l = append(l, m)
	}
	return l
}

func TestOptionInvariance(t *testing.T) {
	var kept []gobatch.Program
	n := vrec.Scale(60, 300)
	vrec.Check(t, n, func(rt *rapid.T) {
		gi := rapid.IntRange(0, len(gens)-1).Draw(rt, "generator")
		p := gens[gi].gen(rt, "P_")
		vrec.Label("generator:" + gens[gi].name)
		if gobatch.Vet(p) != nil {
			vrec.Label("gen-invalid")
			return
		}
		masks := allMasks()
		if !vrec.Thorough() {
			// quick: a covering sample of 8 combinations incl. none and all
			masks = []int{0, 31}
			for len(masks) < 8 {
				masks = append(masks, rapid.IntRange(1, 30).Draw(rt, "mask"))
			}
		}
		for _, m := range masks {
			vrec.Label("options:" + comboName(m))
		}
		if len(p.Decls) > 1 || p.HasTag("panic-program") || p.HasTag("embedding-program") {
			vrec.NT(p.Source("p"))
		}
		if len(kept) < 400 {
			kept = append(kept, p)
		}
		if len(kept)%16 == 1 {
			vrec.Sample(map[string]interface{}{"program": p.Source("p"), "option_sets": len(masks)})
		}
		if os.Getenv("C18_GENONLY") != "" {
			return // debugging aid: only regenerate the programs of a run for the generics worker
		}
		if err := checkProgram(p, masks); err != nil {
			vrec.Failf(rt, "options", p.Replay(), "go", "%v", err)
		}
	})
	if f := os.Getenv("C18_DUMP"); f != "" {
		var b bytes.Buffer
		enc := json.NewEncoder(&b)
		for _, p := range kept {
			enc.Encode(p)
		}
		os.WriteFile(f, b.Bytes(), 0o644)
	}
	if vrec.ReplayOnly() || t.Failed() {
		return
	}
	// generics extension on: worker process, same programs
	checkGenerics(t, kept)
}

// F-C18-1: with the CTI generics extension on, the built-in contract methods (Len, Less,
// Index, Add ...) are ordinary methods of every named basic or container type, so a
// generic-free program that declares a method with one of those names is affected.
var ctiMethodName = regexp.MustCompile(`(?m)^func \([^)]*\) (Add|AddrIndex|And|AndNot|Append|AppendString|Cap|Close|Cmp|Copy|CopyString|DelIndex|Equal|Imag|Index|Len|Less|Lsh|Mul|Neg|Not|Or|Quo|Real|Recv|Rem|Rsh|Send|SetIndex|Slice|Sub|TryIndex|TryRecv|TrySend|Xor)\(`)

func declaresContractMethodName(p gobatch.Program) bool {
	for _, d := range p.Decls {
		if ctiMethodName.MatchString(d) {
			return true
		}
	}
	return false
}

// genericsOutcomes evaluates the programs, in order, in one worker process that has the
// CTI generics extension on (etoken.GENERICS is process-global).
func genericsOutcomes(progs []gobatch.Program) ([]outcome, error) {
	cmd := exec.Command(os.Args[0])
	cmd.Env = append(os.Environ(), "C18_WORKER=1")
	var in bytes.Buffer
	enc := json.NewEncoder(&in)
	for _, p := range progs {
		enc.Encode(p)
	}
	cmd.Stdin = &in
	var out, errb bytes.Buffer
	cmd.Stdout, cmd.Stderr = &out, &errb
	if err := cmd.Run(); err != nil {
		return nil, fmt.Errorf("generics worker failed: %v\n%s", err, errb.String())
	}
	sc := bufio.NewScanner(&out)
	sc.Buffer(make([]byte, 1<<20), 1<<26)
	var outs []outcome
	for sc.Scan() {
		var o outcome
		if err := json.Unmarshal(sc.Bytes(), &o); err != nil {
			continue
		}
		outs = append(outs, o)
	}
	if len(outs) != len(progs) {
		return nil, fmt.Errorf("generics worker answered %d of %d programs\n%s", len(outs), len(progs), errb.String())
	}
	return outs, nil
}

// genericsDiff compares the outcome with generics on with a generics-off evaluation.
func genericsDiff(p gobatch.Program, o outcome) string {
	base0 := runEval(p, base.OptTrapPanic)
	if o.key() != base0.key() || (o.PanicV != base0.PanicV) {
		return "generics extension on (first result) differs from generics off (second result)\n" +
			gobatch.Diff(gobatch.Result{Trace: o.Trace, Panic: o.PanicV, Err: o.Err}, gobatch.Result{Trace: base0.Trace, Panic: base0.PanicV, Err: base0.Err})
	}
	return ""
}

func checkGenerics(t *testing.T, all []gobatch.Program) {
	var progs []gobatch.Program
	for _, p := range all {
		if vrec.Known("F-C18-1") && declaresContractMethodName(p) {
			vrec.Excluded("F-C18-1")
			continue
		}
		progs = append(progs, p)
	}
	if len(progs) == 0 {
		return
	}
	outs, err := genericsOutcomes(progs)
	if err != nil {
		t.Fatalf("INCONCLUSIVE: %v", err)
	}
	for i, p := range progs {
		vrec.Eval(1)
		vrec.Label("options:generics-CTI-on")
		if d := genericsDiff(p, outs[i]); d != "" {
			// the worker ran the earlier programs too: confirm on the program alone
			if one, err := genericsOutcomes([]gobatch.Program{p}); err == nil && genericsDiff(p, one[0]) == "" {
				d = "(only after the " + fmt.Sprint(i) + " programs evaluated before it in the same process) " + d
			}
			q := p
			q.Meta = map[string]string{"generics": "cti"}
			vrec.Violation("generics", q.Replay(), "go", "%s", d)
			t.Errorf("generics extension changes the result of a generic-free program")
			return
		}
	}
}

// worker: reads programs (JSON lines), evaluates them with the CTI generics extension on.
func worker() {
	etoken.GENERICS = etoken.GENERICS_V2_CTI
	sc := bufio.NewScanner(os.Stdin)
	sc.Buffer(make([]byte, 1<<20), 1<<26)
	w := bufio.NewWriter(os.Stdout)
	defer w.Flush()
	for sc.Scan() {
		var p gobatch.Program
		if err := json.Unmarshal(sc.Bytes(), &p); err != nil {
			continue
		}
		o := runEval(p, base.OptTrapPanic)
		b, _ := json.Marshal(o)
		w.Write(b)
		w.WriteByte('\n')
	}
}

// ---------------------------------------------------------------- KeepUntyped on final constants

func TestKeepUntyped(t *testing.T) {
	vrec.Check(t, vrec.Scale(300, 3000), func(rt *rapid.T) {
		g := progen.New(rt, "", 10)
		var src string
		switch g.Pick(4, "const-kind") {
		case 0:
			src = g.IntExpr(3)
		case 1:
			src = fmt.Sprintf("%d.5 * %d / 4", g.Int(0, 9, "a"), g.Int(1, 9, "b"))
		case 2:
			src = fmt.Sprintf("'%c' + %d", rune('a'+g.Int(0, 20, "r")), g.Int(0, 5, "k"))
		default:
			src = fmt.Sprintf("%q + %q", g.OneOf("s1", "a", "", "hé"), g.OneOf("s2", "b", "x\ty"))
		}
		vrec.Label("const-kind")
		eval := func(keep bool) (v interface{}, perr interface{}) {
			ir := fast.New()
			if keep {
				ir.Comp.Globals.Options |= base.OptKeepUntyped
			} else {
				ir.Comp.Globals.Options &^= base.OptKeepUntyped
			}
			perr = vlib.Try(func() {
				x, _ := ir.Eval1(src)
				v = x.Interface()
			})
			return
		}
		tv, terr := eval(false)
		uv, uerr := eval(true)
		if (terr == nil) != (uerr == nil) {
			if terr != nil { // the typed evaluation may overflow its default type; not the property's business
				return
			}
			vrec.Failf(rt, "keepuntyped", []byte(src), "txt", "KeepUntyped evaluation of %s fails (%v) while the default evaluation gives %v", src, uerr, tv)
		}
		if terr != nil {
			return
		}
		lit, ok := uv.(untyped.Lit)
		if !ok {
			// non-constant result: representation must not change
			if fmt.Sprint(uv) != fmt.Sprint(tv) {
				vrec.Failf(rt, "keepuntyped", []byte(src), "txt", "%s: %v with KeepUntyped, %v without", src, uv, tv)
			}
			return
		}
		vrec.NT(src)
		var want constant.Value
		switch x := tv.(type) {
		case int:
			want = constant.MakeInt64(int64(x))
		case int32:
			want = constant.MakeInt64(int64(x))
		case float64:
			want = constant.MakeFloat64(x)
		case string:
			want = constant.MakeString(x)
		case bool:
			want = constant.MakeBool(x)
		default:
			return
		}
		got := lit.Val
		if got.Kind() != want.Kind() {
			got = constant.ToFloat(got)
			want = constant.ToFloat(want)
		}
		if !constant.Compare(got, token.EQL, want) {
			vrec.Failf(rt, "keepuntyped", []byte(src), "txt", "%s: untyped result %v differs from default-typed result %v", src, lit.Val, tv)
		}
	})
}

// ---------------------------------------------------------------- replay

func replay(content []byte) error {
	var sess session
	if json.Unmarshal(content, &sess) == nil && len(sess.Lines) > 0 {
		return checkSession(sess, allMasks())
	}
	p, ok := gobatch.ParseReplay(content)
	if !ok {
		return nil
	}
	if gobatch.Vet(p) != nil {
		return nil
	}
	if err := checkProgram(p, allMasks()); err != nil {
		return err
	}
	outs, err := genericsOutcomes([]gobatch.Program{p})
	if err != nil {
		return vlib.InconclusiveError{Msg: err.Error()}
	}
	if d := genericsDiff(p, outs[0]); d != "" {
		return fmt.Errorf("%s", d)
	}
	return nil
}

func TestReplays(t *testing.T) {
	vrec.RunReplays(t, replay)
}
