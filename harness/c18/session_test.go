package c18

// REPL sessions: sequences of top-level inputs (short variable declarations that
// redefine a name with another type, var/const/type/func declarations and
// redeclarations, assignments, statements, expressions), evaluated one input at a time
// through Interp.Eval and through ParseEvalPrint under every option combination. The
// oracle is the metamorphic relation of the property itself: every input succeeds or
// fails alike, and the values (Eval: value and type of each result; REPL: the text printed
// on Stdout) are the same as under the default options. Sessions need not be valid Go
// files - redefinition is what a REPL is for - they only have to be deterministic.

import (
	"bytes"
	"encoding/json"
	"fmt"
	"strings"
	"testing"

	"github.com/cosmos72/gomacro/base"
	"github.com/cosmos72/gomacro/fast"
	"pgregory.net/rapid"
)

type session struct {
	Lines []string `json:"session"`
}

var sessNames = []string{"a", "b", "c"}
var sessTypes = []string{"int", "float64", "string", "[]int", "T"}

func sessLit(t *rapid.T, typ string) string {
	switch typ {
	case "int":
		return fmt.Sprint(rapid.IntRange(-3, 40).Draw(t, "int"))
	case "float64":
		return rapid.SampledFrom([]string{"2.5", "0.25", "1e3", "7.0", "-1.5"}).Draw(t, "float")
	case "string":
		return rapid.SampledFrom([]string{`"x"`, `"hé"`, `""`, "`raw`"}).Draw(t, "string")
	case "[]int":
		return rapid.SampledFrom([]string{"[]int{1, 2}", "[]int{}", "[]int{7, 8, 9}"}).Draw(t, "slice")
	default:
		return fmt.Sprintf("T{%d, %s}", rapid.IntRange(0, 9).Draw(t, "TA"), rapid.SampledFrom([]string{`"p"`, `"q"`}).Draw(t, "TB"))
	}
}

// sessExpr: an expression of the given type over the variables of the model (name -> type)
func sessExpr(t *rapid.T, typ string, vars map[string]string, consts []string) string {
	var same []string
	for _, n := range sessNames {
		if vars[n] == typ {
			same = append(same, n)
		}
	}
	if len(same) == 0 || rapid.IntRange(0, 2).Draw(t, "lit") == 0 {
		if typ == "int" && len(consts) > 0 && rapid.Bool().Draw(t, "use-const") {
			return rapid.SampledFrom(consts).Draw(t, "const") + " * 2"
		}
		return sessLit(t, typ)
	}
	v := rapid.SampledFrom(same).Draw(t, "var")
	switch typ {
	case "int":
		return fmt.Sprintf("%s %s %s", v, rapid.SampledFrom([]string{"+", "-", "*", "%7 +"}).Draw(t, "op"), sessLit(t, typ))
	case "float64":
		return fmt.Sprintf("%s %s %s", v, rapid.SampledFrom([]string{"+", "*", "/"}).Draw(t, "op"), sessLit(t, typ))
	case "string":
		return v + " + " + sessLit(t, typ)
	case "[]int":
		return fmt.Sprintf("append(%s, %d)", v, rapid.IntRange(0, 5).Draw(t, "elem"))
	}
	return v
}

func genSession(t *rapid.T) session {
	var s session
	vars := map[string]string{}
	var consts []string
	typeDeclared := false
	nfun := 0
	n := rapid.IntRange(3, 14).Draw(t, "nlines")
	pickType := func(label string) string {
		typ := rapid.SampledFrom(sessTypes).Draw(t, label)
		if typ == "T" && !typeDeclared {
			s.Lines = append(s.Lines, "type T struct { A int; B string }")
			typeDeclared = true
		}
		return typ
	}
	for i := 0; i < n; i++ {
		name := rapid.SampledFrom(sessNames).Draw(t, "name")
		switch k := rapid.IntRange(0, 13).Draw(t, "kind"); k {
		case 0, 1, 2: // short declaration: defines or REdefines, possibly with another type
			typ := pickType("type")
			s.Lines = append(s.Lines, fmt.Sprintf("%s := %s", name, sessExpr(t, typ, vars, consts)))
			vars[name] = typ
		case 3: // var declaration, with or without type / value
			typ := pickType("type")
			switch rapid.IntRange(0, 2).Draw(t, "var-form") {
			case 0:
				s.Lines = append(s.Lines, fmt.Sprintf("var %s %s", name, typ))
			case 1:
				s.Lines = append(s.Lines, fmt.Sprintf("var %s = %s", name, sessExpr(t, typ, vars, consts)))
			default:
				s.Lines = append(s.Lines, fmt.Sprintf("var %s %s = %s", name, typ, sessExpr(t, typ, vars, consts)))
			}
			vars[name] = typ
		case 4: // assignment: mostly of the right type, sometimes not (an error under every option set)
			typ, ok := vars[name]
			if !ok || rapid.IntRange(0, 5).Draw(t, "wrong-type") == 0 {
				typ = pickType("type")
			}
			s.Lines = append(s.Lines, fmt.Sprintf("%s = %s", name, sessExpr(t, typ, vars, consts)))
		case 5, 6: // expression input: the REPL prints it
			// never a constant expression: OptKeepUntyped may by contract return those differently
			if e := sessExpr(t, vars[name], vars, consts); vars[name] != "" && startsWithVar(e) {
				s.Lines = append(s.Lines, e)
			} else {
				s.Lines = append(s.Lines, name)
			}
		case 7: // function capturing the variable as it is bound now, then a call
			if typ, ok := vars[name]; ok {
				nfun++
				s.Lines = append(s.Lines, fmt.Sprintf("func f%d() %s { return %s }", nfun, typ, name), fmt.Sprintf("f%d()", nfun))
			}
		case 8: // call of an earlier function after later redefinitions
			if nfun > 0 {
				s.Lines = append(s.Lines, fmt.Sprintf("f%d()", rapid.IntRange(1, nfun).Draw(t, "fun")))
			}
		case 9: // constant, declared or redeclared
			c := rapid.SampledFrom([]string{"k1", "k2"}).Draw(t, "cname")
			s.Lines = append(s.Lines, fmt.Sprintf("const %s = %d", c, rapid.IntRange(1, 9).Draw(t, "cval")))
			if !contains(consts, c) {
				consts = append(consts, c)
			}
		case 10: // statements on the variable
			switch vars[name] {
			case "int":
				s.Lines = append(s.Lines, rapid.SampledFrom([]string{name + "++", name + " += 3", "for i := 0; i < 3; i++ { " + name + " += i }", "if " + name + " > 1 { " + name + " = 0 }"}).Draw(t, "stmt"))
			case "string":
				s.Lines = append(s.Lines, name+` += "!"`)
			case "[]int":
				s.Lines = append(s.Lines, fmt.Sprintf("%s = append(%s, len(%s))", name, name, name))
			case "T":
				s.Lines = append(s.Lines, name+".A++", name+".A")
			}
		case 11: // two names at once
			other := rapid.SampledFrom(sessNames).Draw(t, "other")
			if other != name {
				t1, t2 := pickType("type1"), pickType("type2")
				s.Lines = append(s.Lines, fmt.Sprintf("%s, %s := %s, %s", name, other, sessExpr(t, t1, vars, consts), sessExpr(t, t2, vars, consts)))
				vars[name], vars[other] = t1, t2
			}
		case 12: // type redeclaration
			if rapid.Bool().Draw(t, "redeclare-T") {
				s.Lines = append(s.Lines, "type T struct { A int; B string }")
				typeDeclared = true
			}
		default: // address and dereference
			if _, ok := vars[name]; ok {
				s.Lines = append(s.Lines, fmt.Sprintf("p%s := &%s", name, name), "*p"+name)
			}
		}
	}
	// final look at every name
	for _, nm := range sessNames {
		if _, ok := vars[nm]; ok {
			s.Lines = append(s.Lines, nm)
		}
	}
	return s
}

func startsWithVar(e string) bool {
	for _, n := range sessNames {
		if e == n || strings.HasPrefix(e, n+" ") || strings.HasPrefix(e, "append("+n+",") {
			return true
		}
	}
	return false
}

func contains(l []string, s string) bool {
	for _, x := range l {
		if x == s {
			return true
		}
	}
	return false
}

// runSession returns one observation per input line.
func runSession(s session, opts base.Options, repl bool) []string {
	ir := fast.New()
	g := &ir.Comp.Globals
	var out, errb bytes.Buffer
	g.Stdout, g.Stderr = &out, &errb
	g.Options = (g.Options &^ allOptBits) | opts
	obs := make([]string, len(s.Lines))
	for i, line := range s.Lines {
		out.Reset()
		errb.Reset()
		func() {
			defer func() {
				if pv := recover(); pv != nil {
					obs[i] = "error"
				}
			}()
			if repl {
				ir.ParseEvalPrint(line)
				if errb.Len() != 0 {
					obs[i] = "error"
				} else {
					obs[i] = "ok: " + out.String()
				}
				return
			}
			vals, _ := ir.Eval(line)
			var parts []string
			for _, v := range vals {
				rv := v.ReflectValue()
				if !rv.IsValid() {
					parts = append(parts, "nil")
				} else {
					parts = append(parts, fmt.Sprintf("%v <%v>", rv, rv.Type()))
				}
			}
			obs[i] = "ok: " + strings.Join(parts, ", ")
		}()
	}
	return obs
}

func checkSession(s session, masks []int) error {
	for _, repl := range []bool{false, true} {
		path := "eval"
		if repl {
			path = "repl"
		}
		base0 := runSession(s, base.OptTrapPanic, repl)
		for _, m := range masks {
			got := runSession(s, comboOptions(m), repl)
			vrec.Eval(1)
			vrec.Label("session-path:" + path)
			for i := range got {
				if got[i] != base0[i] {
					return fmt.Errorf("options %s via %s: input %d %q gives %q, with the default options %q\nsession:\n  %s",
						comboName(m), path, i, s.Lines[i], got[i], base0[i], strings.Join(s.Lines, "\n  "))
				}
			}
		}
	}
	return nil
}

func TestReplSessions(t *testing.T) {
	vrec.Check(t, vrec.Scale(120, 1200), func(rt *rapid.T) {
		s := genSession(rt)
		masks := allMasks()
		if !vrec.Thorough() {
			masks = []int{0, 31, 2, 1 << 4}
			for len(masks) < 8 {
				masks = append(masks, rapid.IntRange(1, 30).Draw(rt, "mask"))
			}
		}
		vrec.Label("generator:repl-session")
		redefs, seen := 0, map[string]bool{}
		for _, l := range s.Lines {
			if i := strings.Index(l, " := "); i > 0 && !strings.Contains(l[:i], " ") {
				if seen[l[:i]] {
					redefs++
				}
				seen[l[:i]] = true
			}
		}
		if redefs > 0 {
			vrec.Label("session:redefines-a-name")
			vrec.NT(strings.Join(s.Lines, "\n"))
		}
		data, _ := json.MarshalIndent(s, "", " ")
		if redefs > 0 && len(s.Lines)%7 == 0 {
			vrec.Sample(s)
		}
		if err := checkSession(s, masks); err != nil {
			vrec.Failf(rt, "session", data, "json", "%v", err)
		}
	})
}
