// C07: defer, panic and recover follow Go semantics in interpreted code.
// Oracle: the Go toolchain (gobatch: one batch build of all generated programs, go 1.18
// level, so that recover() after panic(nil) returns nil on both sides).
package c07

import (
	"fmt"
	"os"
	"strconv"
	"strings"
	"testing"

	"pgregory.net/rapid"

	"verif/harness/gobatch"
	"verif/harness/vlib"
)

var rec *vlib.Rec

// known findings whose shape the generator leaves out while they are listed as "known"
var findingIDs = []string{"F-C07-1", "F-C07-2", "F-C07-3", "F-C07-4"}

func TestMain(m *testing.M) {
	rec = vlib.Open("C07")
	rec.Rule("cases = generated Go programs: a DAG of 1-6 interpreted functions (0-2 results, named or not; <= 9 frames per root call, nesting of deferred calls <= 2) whose bodies mix recording statements, " +
		"defers of closures, of declared functions with arguments, of method values (value and pointer receiver), of the builtins close/delete/panic, defers inside loops (0-4 iterations, loop variable captured or passed), " +
		"conditional and unconditional panics with int/string/error/struct/nil/computed values and run-time errors (division by zero, index, nil map, type assertion, nil pointer), " +
		"deferred calls that never enter interpreted code (methods of sync.Mutex, sync.WaitGroup, strings.Builder, bytes.Buffer on local and package-level variables, empty and trivial closures) in function bodies and inside deferred closures, " +
		"recover called directly by the deferred function (closure, declared function, method), one call deeper, from plain helper functions at every position (function bodies, deferred closures, right after a callee returned), outside any deferred call, with the result tested; re-panic of the recovered value, new panic inside a deferred call, " +
		"defer + panic inside a deferred call, named results modified by deferred closures, early returns; 1-4 root calls under a recovering wrapper (the caller continues) and, in a third of the programs, one bare root call whose panic may escape the entry function. " +
		"Compared event by event: order of deferred calls, recovered values (run-time errors by class), results, escaping panic. " +
		"A case is non-trivial when its executed trace shows (a) a panic raised inside a deferred call while an earlier panic has not been recovered, or (b) a recover executed one call deeper than the deferred function, or (c) a deferred call registered in a loop running >= 2 times, or (d) a recover from a plain helper in a function body executed while a panic is pending (the function was reached from a deferred call); distinct = distinct program texts")
	rec.Assume("oracle: gc toolchain, generated module with `go 1.18` (GODEBUG panicnil=1 on both sides: recover() returns nil after panic(nil)), trace formatted by the same compiled recorder on both sides")
	rec.Assume("deferred compiled functions never call recover (documented limitation: recover() inside a compiled function deferred by interpreted code); run-time errors are compared by class, not by message or Go type")
	rec.Assume("programs with a root call outside any recover do not use panic(nil): an escaping nil panic cannot be told from a normal return by recover() in the engine")
	os.Exit(vlib.Main(m, rec))
}

// ntFunc implements the non-triviality rule on the interpreter's trace.
func ntFunc(p gobatch.Program, res gobatch.Result) string {
	active := 0
	loops := map[string]int{}
	var classes []string
	add := func(c string) {
		for _, x := range classes {
			if x == c {
				return
			}
		}
		classes = append(classes, c)
	}
	for _, line := range res.Trace {
		f := strings.Fields(line)
		if len(f) < 2 {
			continue
		}
		switch {
		case f[1] == `"!p"`, f[1] == `"!dp"`:
			active++
		case f[1] == `"!pd"`:
			if active > 0 {
				add("panic-while-panicking")
			}
			active++
		case f[1] == `"!rd"`:
			add("recover-one-call-deeper")
		case f[1] == `"!rb"`:
			if active > 0 {
				// the function runs below a deferred call of a panicking function
				add("helper-recover-in-function-body-while-panicking")
			}
		case f[1] == `"!dl"`:
			loops[f[0]]++
			if loops[f[0]] >= 2 {
				add("defer-in-loop>=2")
			}
		case strings.HasPrefix(f[1], "panic("):
			// rec.R recorded a non-nil recovered value
			if active > 0 {
				active--
			}
		}
	}
	return strings.Join(classes, "+")
}

var devDump = os.Getenv("C07_DEV_DUMP") // development only: directory receiving every disagreement
var devCount int

// nestedRecover reports whether, in the run by compiled Go, a recover() returned a
// non-nil value while at least one OTHER panic raised earlier was still not recovered
// (a panic raised and recovered inside a deferred call, or below it, while the panic
// that made the deferred call run is still in progress). This is the dynamic signature
// of F-C07-2: gomacro keeps a single current panic per goroutine, so that recover also
// cancels the outer panic.
//
// With panic(nil) (go 1.18 semantics) a recover() that stops a panic returns nil and is
// recorded as "recovered-nil": in programs that use panic(nil) (tag panic-value:nil) a
// nil recover at such a moment counts as well.
func nestedRecover(trace []string, nilPanics bool) bool {
	active := 0
	for _, line := range trace {
		f := strings.Fields(line)
		if len(f) < 2 {
			continue
		}
		switch {
		case f[1] == `"!p"`, f[1] == `"!pd"`, f[1] == `"!dp"`:
			active++
		case strings.HasPrefix(f[1], "panic("):
			if active >= 2 {
				return true
			}
			if active > 0 {
				active--
			}
		case nilPanics && f[1] == `"recovered-nil"` && active >= 2:
			return true
		}
	}
	return false
}

func known(p gobatch.Program, got, want gobatch.Result) string {
	if nestedRecover(want.Trace, p.HasTag("panic-value:nil")) && rec.Known("F-C07-2") {
		return "F-C07-2"
	}
	if devDump != "" {
		devCount++
		os.WriteFile(fmt.Sprintf("%s/%s-%03d.go", devDump, os.Getenv("VERIF_SHARD"), devCount),
			[]byte(string(p.Replay())+"\n/*\n"+gobatch.Diff(got, want)+"\n"+strings.Join(p.Tags, "\n")+"\n*/\n"), 0o644)
	}
	return ""
}

var avoid map[string]bool

func genProgram(t *rapid.T, px string) gobatch.Program {
	if avoid == nil {
		avoid = map[string]bool{}
		for _, id := range findingIDs {
			avoid[id] = rec.Known(id)
		}
	}
	return generate(t, px, avoid)
}

func countExcluded(p gobatch.Program) string {
	for _, id := range findingIDs {
		if p.HasTag("excluded-shape:" + id) {
			rec.Excluded(id)
		}
	}
	return ""
}

func TestDeferPanicRecover(t *testing.T) {
	n := rec.Scale(300, 1500)
	if v, err := strconv.Atoi(os.Getenv("C07_DEV_N")); err == nil && v > 0 {
		n = v // development only
	}
	shrink := 0
	if devDump != "" {
		shrink = 1
	}
	gobatch.Run(t, gobatch.Config{
		Rec: rec, Name: "c07", N: n,
		Gen: genProgram, Known: known, Skip: countExcluded, NTFunc: ntFunc, ShrinkSeconds: shrink,
	})
}

func TestReplays(t *testing.T) {
	rec.RunReplays(t, gobatch.Replayer(known))
}
