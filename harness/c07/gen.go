package c07

import (
	"fmt"
	"strings"

	"pgregory.net/rapid"

	"verif/harness/gobatch"
	"verif/harness/progen"
)

// A program is a DAG of functions F0..Fk-1 (Fi calls only Fj, j > i), each with a body
// of recording statements, defers of every kind, panics of every kind of value and
// recovers at every place; the entry function runs a few root calls, most of them
// under a recovering wrapper, some bare (the panic may escape the entry function).

type fun struct {
	name    string
	results int  // 0, 1, 2
	named   bool // named results r (int) [, s (string)]
	frames  int  // static bound of the frames one call creates
}

type gen struct {
	*progen.G
	avoid   map[string]bool
	funs    []*fun // generated so far (callees), in declaration order
	imports map[string]bool
	typeT   string // named type with methods (declared on demand)
	helpers map[string]string
	bare    bool
}

func (g *gen) no(id string) bool { return g.avoid[id] }
func (g *gen) skipped(id string) { g.Tag("excluded-shape:" + id) }

// marker events used by the non-triviality rule (see c07_test.go)
const (
	mPanic        = `"!p"`  // a panic is raised in the normal flow of a function
	mPanicInDefer = `"!pd"` // a panic is raised inside a deferred call
	mDeep         = `"!rd"` // recover called one call deeper than the deferred function
	mLoop         = `"!dl"` // deferred call registered inside a loop runs
	mHelperBody   = `"!rb"` // recover called from a plain helper in a function body
	mDeferPanic   = `"!dp"` // `defer panic(v)` is registered (the panic is raised when the function's deferred calls run)
)

func (g *gen) helper(key, decl string) string {
	if n, ok := g.helpers[key]; ok {
		return n
	}
	n := g.Top(key)
	g.helpers[key] = n
	g.Decls = append([]string{strings.ReplaceAll(decl, "NAME", n)}, g.Decls...)
	return n
}

// interpreted helpers (all package-level functions of the program, never compiled ones)
func (g *gen) hLog() string {
	return g.helper("log", "func NAME(ev int, v int) {\n\trec.E(ev, v)\n}")
}
func (g *gen) hRecov() string {
	// calls recover itself: recovers when it is the deferred function, not when it is called by one
	return g.helper("recov", "func NAME(tag string) {\n\trec.R(tag, recover())\n}")
}

func (g *gen) hRecovVal() string {
	// returns what recover() gives when called from a plain function
	return g.helper("rval", "func NAME() interface{} {\n\treturn recover()\n}")
}

// plainHelperRecover: recover() called from a plain helper function (called, not
// deferred): must return nil wherever the call is made, and must not stop a panic.
func (g *gen) plainHelperRecover(marker string) string {
	g.Tag("recover:plain-helper")
	if g.Bool("helper-form") {
		return fmt.Sprintf("rec.E(%d, %s)\n%s(\"h%d\")\n", g.Ev(), marker, g.hRecov(), g.Ev())
	}
	return fmt.Sprintf("rec.E(%d, %s)\nrec.R(\"h%d\", %s())\n", g.Ev(), marker, g.Ev(), g.hRecovVal())
}

// compiledDefer: a deferred call that never enters interpreted code: a method of a
// compiled type (sync.Mutex, sync.WaitGroup, strings.Builder, bytes.Buffer; local or
// package-level variable) or a closure with an empty / trivial body.
func (g *gen) compiledDefer() string {
	switch g.Pick(7, "compiled-defer") {
	case 0:
		g.Tag("defer:compiled-method(sync.Mutex,local)")
		g.imports["sync"] = true
		v := g.Local("mu")
		return fmt.Sprintf("var %s sync.Mutex\n%s.Lock()\ndefer %s.Unlock()\n", v, v, v)
	case 1:
		g.Tag("defer:compiled-method(sync.Mutex,package-level)")
		g.imports["sync"] = true
		// one mutex per use site: functions form a DAG, so no function is active twice and
		// a mutex is never locked while held
		v := g.helper(fmt.Sprintf("mu%d_", g.Ev()), "var NAME sync.Mutex")
		return fmt.Sprintf("%s.Lock()\ndefer %s.Unlock()\n", v, v)
	case 2:
		g.Tag("defer:compiled-method(sync.WaitGroup)")
		g.imports["sync"] = true
		v := g.Local("wg")
		return fmt.Sprintf("var %s sync.WaitGroup\n%s.Add(1)\ndefer %s.Done()\n", v, v, v)
	case 3:
		g.Tag("defer:compiled-method(strings.Builder)")
		g.imports["strings"] = true
		v := g.Local("sb")
		return fmt.Sprintf("var %s strings.Builder\ndefer func() {\n\trec.E(%d, %s.String())\n}()\ndefer %s.WriteString(\"w\")\n", v, g.Ev(), v, v)
	case 4:
		g.Tag("defer:compiled-method(bytes.Buffer)")
		g.imports["bytes"] = true
		v := g.Local("bb")
		return fmt.Sprintf("%s := &bytes.Buffer{}\ndefer func() {\n\trec.E(%d, %s.Len())\n}()\ndefer %s.WriteByte('x')\n", v, g.Ev(), v, v)
	case 5:
		g.Tag("defer:empty-closure")
		return "defer func() {}()\n"
	default:
		g.Tag("defer:trivial-closure")
		return "defer func() {\n\t_ = 0\n}()\n"
	}
}

// deferFuncVar: the deferred callee is a func-typed VARIABLE (local, captured, struct
// field, slice element, package-level) that is reassigned after the defer statement: the
// function value is fixed when the defer statement runs, like its arguments.
func (g *gen) deferFuncVar() string {
	g.Tag("defer:func-variable-reassigned-afterwards")
	withArg := g.Bool("dfv-arg")
	sig, call := "func()", "()"
	if withArg {
		g.Tag("defer:func-variable-with-args")
		sig, call = "func(k int)", "(a)"
	}
	lit := func(recovers bool) string {
		ev := g.Ev()
		body := fmt.Sprintf("rec.E(%d)\n", ev)
		if withArg {
			body = fmt.Sprintf("rec.E(%d, k)\n", ev)
		}
		if recovers {
			g.Tag("defer:func-variable-recovers")
			body += fmt.Sprintf("rec.R(\"v%d\", recover())\n", g.Ev())
		}
		return sig + " {\n" + progen.Indent(body) + "}"
	}
	first, second := lit(g.Chance(1, 3, "dfv-rec1")), lit(g.Chance(1, 3, "dfv-rec2"))
	v := g.Local("fv")
	var s string
	switch g.Pick(6, "dfv-holder") {
	case 0, 1:
		g.Tag("defer-func-variable:local")
		s = fmt.Sprintf("%s := %s\ndefer %s%s\n%s = %s\n", v, first, v, call, v, second)
	case 2:
		g.Tag("defer-func-variable:captured")
		s = fmt.Sprintf("%s := %s\nfunc() {\n\tdefer %s%s\n\t%s = %s\n}()\n", v, first, v, call, v, progen.Indent(second)[1:len(progen.Indent(second))-1])
	case 3:
		g.Tag("defer-func-variable:struct-field")
		s = fmt.Sprintf("%s := struct{ F %s }{%s}\ndefer %s.F%s\n%s.F = %s\n", v, sig, first, v, call, v, second)
	case 4:
		g.Tag("defer-func-variable:slice-element")
		s = fmt.Sprintf("%s := []%s{%s}\ndefer %s[0]%s\n%s[0] = %s\n", v, sig, first, v, call, v, second)
	default:
		g.Tag("defer-func-variable:assigned-in-loop")
		i, k2 := g.Local("i"), g.Local("q")
		arg := ""
		par := ""
		if withArg {
			arg, par = "a", "k int"
		}
		s = fmt.Sprintf("var %s func(%s)\nfor %s := 0; %s < %d; %s++ {\n\t%s := %s\n\t%s = func(%s) {\n\t\trec.E(%d, %s, %s)\n\t}\n\tdefer %s(%s)\n}\n",
			v, par, i, i, g.Int(2, 3, "dfv-loop-n"), i, k2, i, v, par, g.Ev(), mLoop, k2, v, arg)
		if withArg {
			s = strings.Replace(s, mLoop+", "+k2+")", mLoop+", "+k2+", k)", 1)
		}
		return s
	}
	if g.Chance(1, 3, "dfv-call-now") {
		// the variable itself does hold the new function
		switch {
		case strings.Contains(s, ".F = "):
			s += v + ".F" + call + "\n"
		case strings.Contains(s, "[0] = "):
			s += v + "[0]" + call + "\n"
		default:
			s += v + call + "\n"
		}
	}
	return s
}

func (g *gen) tType() string {
	if g.typeT == "" {
		g.typeT = g.Top("T")
		d := fmt.Sprintf("type %s struct {\n\tid int\n}", g.typeT)
		d1 := fmt.Sprintf("func (t %s) Log(ev int) {\n\trec.E(ev, t.id)\n}", g.typeT)
		d2 := fmt.Sprintf("func (t *%s) Recov(tag string) {\n\trec.R(tag, recover())\n\tt.id++\n}", g.typeT)
		g.Decls = append([]string{d, d1, d2}, g.Decls...)
	}
	return g.typeT
}

// panicValue returns an expression for the operand of panic.
func (g *gen) panicValue() string {
	switch g.Pick(8, "panic-value") {
	case 0, 1:
		g.Tag("panic-value:int")
		return fmt.Sprint(g.Int(1, 99, "pv-int"))
	case 2, 3:
		g.Tag("panic-value:string")
		return fmt.Sprintf("\"p%d\"", g.Int(1, 99, "pv-str"))
	case 4:
		g.Tag("panic-value:error")
		g.imports["errors"] = true
		return fmt.Sprintf("errors.New(\"e%d\")", g.Int(1, 99, "pv-err"))
	case 5:
		g.Tag("panic-value:struct")
		return fmt.Sprintf("struct {\n\tA int\n\tB string\n}{%d, \"s\"}", g.Int(1, 9, "pv-st"))
	case 6:
		if g.bare {
			g.Tag("panic-value:int")
			return "-1"
		}
		g.Tag("panic-value:nil")
		return "nil"
	default:
		g.Tag("panic-value:expression-of-param")
		return "a*10 + 1"
	}
}

// runtimePanic returns statements that raise a run-time error.
func (g *gen) runtimePanic() string {
	v := g.Local("z")
	switch g.Pick(5, "rt-panic") {
	case 0:
		g.Tag("runtime-panic:div0")
		return fmt.Sprintf("%s := a - a\nrec.E(%d, 7/%s)\n", v, g.Ev(), v)
	case 1:
		g.Tag("runtime-panic:index")
		return fmt.Sprintf("%s := []int{1, 2}\nrec.E(%d, %s[len(%s)+a-a])\n", v, g.Ev(), v, v)
	case 2:
		g.Tag("runtime-panic:nilmap")
		return fmt.Sprintf("var %s map[string]int\n%s[\"k\"] = a\n", v, v)
	case 3:
		g.Tag("runtime-panic:typeassert")
		return fmt.Sprintf("var %s interface{} = a\nrec.E(%d, %s.(string))\n", v, g.Ev(), v)
	default:
		g.Tag("runtime-panic:nilptr")
		// (a named struct type: field selection through a pointer to an UNNAMED struct
		// type does not compile in gomacro, which is outside this property)
		return fmt.Sprintf("var %s *%s\nrec.E(%d, %s.id)\n", v, g.tType(), g.Ev(), v)
	}
}

func (g *gen) cond() string {
	return g.OneOf("cond", "a%2 == 0", "a%3 == 1", "a > 3", "a < 100", "a != 5", "a%2 == 1")
}

// callCallee returns statements calling a later function and recording its results.
func (g *gen) callCallee(me int, budget *int) string {
	var cands []*fun
	for _, f := range g.funs {
		if f.frames <= *budget {
			cands = append(cands, f)
		}
	}
	if len(cands) == 0 {
		return fmt.Sprintf("rec.E(%d, a)\n", g.Ev())
	}
	f := cands[g.Pick(len(cands), "callee")]
	*budget -= f.frames
	arg := g.OneOf("callee-arg", "a", "a+1", "a*2", fmt.Sprint(g.Int(0, 9, "callee-lit")))
	g.Tag("call-callee")
	switch f.results {
	case 0:
		return fmt.Sprintf("%s(%s)\nrec.E(%d)\n", f.name, arg, g.Ev())
	case 1:
		return fmt.Sprintf("rec.E(%d, %s(%s))\n", g.Ev(), f.name, arg)
	}
	x, y := g.Local("x"), g.Local("y")
	return fmt.Sprintf("%s, %s := %s(%s)\nrec.E(%d, %s, %s)\n", x, y, f.name, arg, g.Ev(), x, y)
}

// deferredBody generates the statements of a deferred closure at nesting depth d.
func (g *gen) deferredBody(f *fun, d int, budget *int) string {
	var b strings.Builder
	n := g.Int(1, 4, "dbody-n")
	for i := 0; i < n; i++ {
		switch g.Pick(16, "dstmt") {
		case 0, 1:
			fmt.Fprintf(&b, "rec.E(%d)\n", g.Ev())
		case 2, 3, 4:
			g.Tag("recover:direct")
			fmt.Fprintf(&b, "rec.R(\"r%d\", recover())\n", g.Ev())
		case 5:
			// one call deeper: must return nil and must not stop the panic
			g.Tag("recover:one-call-deeper")
			if g.Bool("deep-form") {
				fmt.Fprintf(&b, "func() {\n\trec.E(%d, %s)\n\trec.R(\"d%d\", recover())\n}()\n", g.Ev(), mDeep, g.Ev())
			} else {
				fmt.Fprintf(&b, "rec.E(%d, %s)\n%s(\"d%d\")\n", g.Ev(), mDeep, g.hRecov(), g.Ev())
			}
		case 6:
			g.Tag("repanic:same-value")
			r := g.Local("r")
			fmt.Fprintf(&b, "if %s := recover(); %s != nil {\n\trec.R(\"r%d\", %s)\n\trec.E(%d, %s)\n\tpanic(%s)\n}\n", r, r, g.Ev(), r, g.Ev(), mPanicInDefer, r)
		case 7:
			g.Tag("panic-inside-deferred-call")
			if g.Bool("pd-cond") {
				fmt.Fprintf(&b, "if %s {\n\trec.E(%d, %s)\n\tpanic(%s)\n}\n", g.cond(), g.Ev(), mPanicInDefer, g.panicValue())
			} else {
				fmt.Fprintf(&b, "rec.E(%d, %s)\npanic(%s)\n", g.Ev(), mPanicInDefer, g.panicValue())
				return b.String()
			}
		case 8:
			if f.named {
				g.Tag("deferred-modifies-named-result")
				fmt.Fprintf(&b, "r = r*10 + %d\n", g.Int(1, 9, "nr-add"))
				if f.results == 2 {
					fmt.Fprintf(&b, "s += \"d\"\n")
				}
			} else {
				fmt.Fprintf(&b, "rec.E(%d, a)\n", g.Ev())
			}
		case 9:
			if d < 2 {
				b.WriteString(g.callCallee(0, budget))
			}
		case 10:
			if d < 2 {
				// a defer inside the deferred closure, handling the panic raised right after it
				g.Tag("defer-inside-deferred-call")
				inner := g.deferredBody(f, d+1, budget)
				fmt.Fprintf(&b, "defer func() {\n%s}()\n", progen.Indent(inner))
				if g.Bool("inner-panic") {
					g.Tag("panic-inside-deferred-call")
					fmt.Fprintf(&b, "rec.E(%d, %s)\npanic(%s)\n", g.Ev(), mPanicInDefer, g.panicValue())
					return b.String()
				}
			}
		case 11:
			// recover when (maybe) nothing is panicking, result used in a condition
			g.Tag("recover:result-tested")
			r := g.Local("r")
			fmt.Fprintf(&b, "%s := recover()\nrec.E(%d, %s != nil)\nrec.R(\"r%d\", %s)\n", r, g.Ev(), r, g.Ev(), r)
		case 12, 13:
			// a callee returns (its own deferred calls have run), then recover from a plain helper
			g.Tag("recover:plain-helper-after-callee-in-deferred-call")
			if d < 2 {
				b.WriteString(g.callCallee(0, budget))
			}
			b.WriteString(g.plainHelperRecover(mDeep))
		case 14:
			g.Tag("compiled-defer-inside-deferred-call")
			b.WriteString(g.compiledDefer())
		default:
			b.WriteString(g.plainHelperRecover(mDeep))
		}
	}
	return b.String()
}

// body generates the statements of function f.
func (g *gen) body(f *fun, me int) string {
	var b strings.Builder
	budget := 8
	n := g.Int(2, 7, "body-n")
	fmt.Fprintf(&b, "rec.E(%d, a)\n", g.Ev())
	terminated := false
	for i := 0; i < n && !terminated; i++ {
		switch g.Pick(29, "stmt") {
		case 0:
			fmt.Fprintf(&b, "rec.E(%d, a)\n", g.Ev())
		case 1, 2, 3, 4:
			g.Tag("defer:closure")
			fmt.Fprintf(&b, "defer func() {\n%s}()\n", progen.Indent(g.deferredBody(f, 1, &budget)))
		case 5:
			// arguments of the deferred call are evaluated by the defer statement
			g.Tag("defer:func-with-args")
			fmt.Fprintf(&b, "defer %s(%d, a)\na += %d\n", g.hLog(), g.Ev(), g.Int(1, 5, "arg-bump"))
		case 6:
			g.Tag("defer:method-value")
			t := g.Local("t")
			fmt.Fprintf(&b, "%s := %s{a}\ndefer %s.Log(%d)\n", t, g.tType(), t, g.Ev())
		case 7:
			g.Tag("defer:pointer-method-recovers")
			t := g.Local("t")
			o := g.Local("o")
			fmt.Fprintf(&b, "%s := &%s{a}\ndefer func(%s *%s) {\n\trec.E(%d, %s.id)\n}(%s)\ndefer %s.Recov(\"m%d\")\n", t, g.tType(), o, g.tType(), g.Ev(), o, t, t, g.Ev())
		case 8:
			g.Tag("defer:declared-func-recovers")
			fmt.Fprintf(&b, "defer %s(\"f%d\")\n", g.hRecov(), g.Ev())
		case 9:
			kind := g.Pick(3, "defer-builtin")
			if kind < 2 && g.no("F-C07-1") {
				// F-C07-1: defer close(ch) / defer delete(m, k) do not compile
				g.skipped("F-C07-1")
				kind = 2
			}
			switch kind {
			case 0:
				g.Tag("defer:builtin-close")
				ch := g.Local("ch")
				fmt.Fprintf(&b, "%s := make(chan int, 1)\ndefer func() {\n\t_, ok := <-%s\n\trec.E(%d, ok)\n}()\ndefer close(%s)\n", ch, ch, g.Ev(), ch)
			case 1:
				g.Tag("defer:builtin-delete")
				m := g.Local("m")
				fmt.Fprintf(&b, "%s := map[string]int{\"a\": 1, \"b\": a}\ndefer func() {\n\trec.E(%d, len(%s))\n}()\ndefer delete(%s, \"a\")\n", m, g.Ev(), m, m)
			default:
				g.Tag("defer:builtin-panic")
				fmt.Fprintf(&b, "if %s {\n\trec.E(%d, %s)\n\tdefer panic(%s)\n}\n", g.cond(), g.Ev(), mDeferPanic, g.panicValue())
			}
		case 10, 11:
			k := g.Int(2, 4, "loop-n")
			if g.Chance(1, 5, "loop-short") {
				k = g.Int(0, 1, "loop-n-short")
			}
			i := g.Local("i")
			if g.Bool("loop-capture") {
				// go 1.18: one variable per loop, every closure sees its final value
				g.Tag("defer:in-loop-capturing-loop-var")
				fmt.Fprintf(&b, "for %s := 0; %s < %d; %s++ {\n\tdefer func() {\n\t\trec.E(%d, %s, %s)\n\t}()\n}\n", i, i, k, i, g.Ev(), mLoop, i)
			} else {
				g.Tag("defer:in-loop-with-arg")
				body := fmt.Sprintf("rec.E(%d, %s, k)\n", g.Ev(), mLoop)
				if g.Chance(1, 3, "loop-recover") {
					body += fmt.Sprintf("rec.R(\"l%d\", recover())\n", g.Ev())
				}
				fmt.Fprintf(&b, "for %s := 0; %s < %d; %s++ {\n\tdefer func(k int) {\n%s\t}(%s)\n}\n", i, i, k, i, progen.Indent(progen.Indent(body)), i)
			}
		case 12, 13, 14:
			b.WriteString(g.callCallee(me, &budget))
		case 15, 16:
			if g.Chance(2, 3, "panic-cond") {
				g.Tag("panic:conditional")
				fmt.Fprintf(&b, "if %s {\n\trec.E(%d, %s)\n\tpanic(%s)\n}\n", g.cond(), g.Ev(), mPanic, g.panicValue())
			} else {
				g.Tag("panic:unconditional")
				fmt.Fprintf(&b, "rec.E(%d, %s)\npanic(%s)\n", g.Ev(), mPanic, g.panicValue())
				terminated = true
			}
		case 17:
			fmt.Fprintf(&b, "if %s {\n\trec.E(%d, %s)\n%s}\n", g.cond(), g.Ev(), mPanic, progen.Indent(g.runtimePanic()))
		case 18:
			g.Tag("recover:not-in-deferred-call")
			fmt.Fprintf(&b, "rec.R(\"n%d\", recover())\n", g.Ev())
		case 20, 21, 22:
			b.WriteString(g.compiledDefer())
		case 25, 26, 27:
			b.WriteString(g.deferFuncVar())
		case 23, 24:
			g.Tag("recover:plain-helper-in-function-body")
			b.WriteString(g.plainHelperRecover(mHelperBody))
		default:
			if f.named {
				fmt.Fprintf(&b, "r = a + %d\n", g.Int(1, 50, "set-r"))
			}
			if f.results > 0 && g.Bool("early-return") {
				g.Tag("early-return")
				fmt.Fprintf(&b, "if %s {\n\trec.E(%d)\n\treturn %s\n}\n", g.cond(), g.Ev(), g.retExpr(f))
			}
		}
	}
	if !terminated {
		switch {
		case f.results == 0:
		case f.named && g.Bool("bare-return"):
			b.WriteString("return\n")
		default:
			b.WriteString("return " + g.retExpr(f) + "\n")
		}
	}
	return b.String()
}

func (g *gen) retExpr(f *fun) string {
	e := g.OneOf("ret-expr", "a + 1", "a * 2", fmt.Sprint(g.Int(0, 99, "ret-lit")))
	if f.results == 2 {
		return e + ", \"v\""
	}
	return e
}

func (g *gen) declFun(i int) {
	f := &fun{name: g.Top("F"), results: []int{0, 1, 1, 1, 2}[g.Pick(5, "nresults")]}
	f.named = f.results > 0 && g.Chance(2, 3, "named")
	sig := ""
	switch {
	case f.results == 1 && f.named:
		sig = " (r int)"
		g.Tag("results:named-1")
	case f.results == 1:
		sig = " int"
		g.Tag("results:unnamed-1")
	case f.results == 2 && f.named:
		sig = " (r int, s string)"
		g.Tag("results:named-2")
	case f.results == 2:
		sig = " (int, string)"
		g.Tag("results:unnamed-2")
	default:
		g.Tag("results:none")
	}
	before := len(g.Decls)
	body := g.body(f, i)
	_ = before
	// static frame bound: 1 + the callees this body calls (budget spent)
	f.frames = 1
	for _, c := range g.funs {
		f.frames += strings.Count(body, c.name+"(") * c.frames
	}
	g.Decls = append(g.Decls, fmt.Sprintf("func %s(a int)%s {\n%s}", f.name, sig, progen.Indent(body)))
	g.funs = append(g.funs, f)
}

func generate(t *rapid.T, px string, avoid map[string]bool) gobatch.Program {
	g := &gen{G: progen.New(t, px, 0), avoid: avoid, imports: map[string]bool{}, helpers: map[string]string{}}
	// a root call outside any recover: the panic may escape the entry function. A nil
	// panic value escaping cannot be told from a normal return by the engine's recover():
	// such programs do not use panic(nil).
	g.bare = g.Chance(1, 3, "bare-root")
	k := g.Int(1, 6, "nfuns")
	for i := k - 1; i >= 0; i-- {
		g.declFun(i)
	}
	root := g.funs[len(g.funs)-1]
	if g.Chance(1, 3, "other-root") {
		root = g.funs[g.Pick(len(g.funs), "root")]
	}
	call := func(arg string) string {
		switch root.results {
		case 0:
			return fmt.Sprintf("%s(%s)\nrec.E(%d)\n", root.name, arg, g.Ev())
		case 1:
			return fmt.Sprintf("rec.E(%d, %s(%s))\n", g.Ev(), root.name, arg)
		}
		return fmt.Sprintf("x, y := %s(%s)\nrec.E(%d, x, y)\n", root.name, arg, g.Ev())
	}
	// recovering wrapper: the caller continues after the panic is recovered
	run := g.Top("run")
	g.Decls = append(g.Decls, fmt.Sprintf("func %s(a int) {\n\tdefer func() {\n\t\trec.R(\"top\", recover())\n\t}()\n%s}", run, progen.Indent(call("a"))))
	var body strings.Builder
	n := g.Int(1, 4, "nroots")
	for i := 0; i < n; i++ {
		fmt.Fprintf(&body, "%s(%d)\nrec.E(%d)\n", run, g.Int(0, 9, "root-arg"), g.Ev())
	}
	if g.bare {
		// not wrapped: a panic may escape the entry function (and Eval)
		g.Tag("root-call-without-recover")
		body.WriteString("{\n" + progen.Indent(call(fmt.Sprint(g.Int(0, 9, "bare-arg")))) + "}\n")
	}
	entry := g.Top("main")
	g.Decls = append(g.Decls, fmt.Sprintf("func %s() {\n%s}", entry, progen.Indent(body.String())))
	var imps []string
	for _, p := range []string{"bytes", "errors", "strings", "sync"} {
		if g.imports[p] {
			imps = append(imps, p)
		}
	}
	return gobatch.Program{Decls: g.Decls, Entry: entry, Tags: g.TagList(), Imports: imps}
}
