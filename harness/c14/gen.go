package c14

import (
	"fmt"
	"strings"

	"pgregory.net/rapid"

	"verif/harness/gobatch"
	"verif/harness/progen"
)

// ---- the model of what the history has declared so far

type variable struct {
	name string
	typ  string // Go type text
	cls  string // int uint float complex bool string struct array slice map iface
	slot bool   // kind is stored by gomacro in the integer slot array (bool, ints, floats, complex)
	bulk bool   // declared by the bulk action
	n    int    // slice: current length; array: length
	st   *structType
}

type structType struct {
	name   string
	fields []variable // name, typ, cls of each field
}

type pointer struct {
	name   string
	elem   variable // pseudo variable describing the pointee (name = expression text of the target)
	target string   // expression that denotes the same storage, "" if it may have been detached
	slot   bool     // points into the integer slot array of the top-level environment
	after  int      // number of slot-kind declarations made after the address was taken
	wrote  bool     // written through after >= 1024 such declarations
}

type function struct {
	name string
	kind string // reader writer addr rec closure
	glob variable
}

type hgen struct {
	*progen.G
	items  []string
	vars   []variable
	ptrs   []*pointer
	funcs  []function
	types  []*structType
	bulkSizes    int // how many entries of the bulk size table may be drawn
	lastAddrItem int // index in items of the last input that took the address of a slot-kind variable (-1: none)
	anySlotAddr  bool
}

var scalarTypes = []struct{ typ, cls string }{
	{"int", "int"}, {"int", "int"}, {"int", "int"}, {"int8", "int"}, {"int16", "int"}, {"int32", "int"}, {"int64", "int"},
	{"uint", "uint"}, {"uint8", "uint"}, {"uint16", "uint"}, {"uint32", "uint"}, {"uint64", "uint"}, {"uintptr", "uint"},
	{"float32", "float"}, {"float64", "float"}, {"float64", "float"}, {"complex64", "complex"}, {"complex128", "complex"},
	{"bool", "bool"}, {"string", "string"}, {"string", "string"},
}

func isSlot(cls string) bool {
	switch cls {
	case "int", "uint", "float", "complex", "bool":
		return true
	}
	return false
}

func (g *hgen) add(item string) { g.items = append(g.items, item) }

// lit returns a constant expression assignable to a variable of the given scalar type.
func (g *hgen) lit(typ, cls string) string {
	switch cls {
	case "bool":
		return g.OneOf("lit-bool", "true", "false")
	case "string":
		return g.OneOf("lit-str", `""`, `"a"`, `"héé"`, `"x\ty"`, `"repl"`)
	case "float":
		return g.OneOf("lit-float", "0", "1.5", "-0.25", "3", "1e10", "-7.75")
	case "complex":
		return g.OneOf("lit-complex", "(1+2i)", "(-0.5i)", "3", "(2.5-4i)", "0")
	case "uint":
		if typ == "uint8" {
			return g.OneOf("lit-u8", "0", "1", "7", "200", "255")
		}
		return g.OneOf("lit-uint", "0", "1", "7", "255", "40000", "65535")
	case "int":
		if typ == "int8" {
			return g.OneOf("lit-i8", "0", "1", "-1", "7", "-128", "127")
		}
		return g.OneOf("lit-int", "0", "1", "-1", "7", "-300", "12345", "32767", "-32768")
	}
	panic("lit: " + typ)
}

// value returns an expression of exactly v's type (usable with := and in composite positions).
func (g *hgen) value(v variable) string {
	switch v.cls {
	case "bool", "string":
		return g.lit(v.typ, v.cls)
	case "int", "uint", "float", "complex":
		// sometimes computed from an earlier variable of the same type
		if g.Chance(1, 4, "from-var") {
			for _, o := range g.vars {
				if o.typ == v.typ {
					return "(" + o.name + " + " + v.typ + "(" + g.OneOf("k", "1", "2", "3") + "))"
				}
			}
		}
		return v.typ + "(" + g.lit(v.typ, v.cls) + ")"
	case "struct":
		var parts []string
		for _, f := range v.st.fields {
			parts = append(parts, g.value(f))
		}
		return v.typ + "{" + strings.Join(parts, ", ") + "}"
	case "array":
		return fmt.Sprintf("[3]int{%d, %d, %d}", g.Int(-5, 50, "a0"), g.Int(-5, 50, "a1"), g.Int(-5, 50, "a2"))
	case "slice":
		return fmt.Sprintf("[]int{%d, %d, %d}", g.Int(-5, 50, "s0"), g.Int(-5, 50, "s1"), g.Int(-5, 50, "s2"))
	case "map":
		return fmt.Sprintf(`map[string]int{"a": %d, "b": %d}`, g.Int(-5, 50, "m0"), g.Int(-5, 50, "m1"))
	case "func":
		return fmt.Sprintf("func(a int) int { return a*%d + %d }", g.Int(-3, 5, "fn-mul"), g.Int(-9, 99, "fn-add"))
	case "iface":
		return g.OneOf("iface-val", "interface{}(5)", `interface{}("s")`, "interface{}(2.5)", "interface{}(nil)", "interface{}(true)")
	}
	panic("value: " + v.cls)
}

func (g *hgen) read(exprs ...string) {
	g.add(fmt.Sprintf("rec.E(%d, %s)", g.Ev(), strings.Join(exprs, ", ")))
}

// rd is the expression that observes a value of class cls denoted by expr
// (function values are observed by calling them).
func rd(expr, cls string) string {
	if cls == "func" {
		return "(" + expr + ")(3)"
	}
	return expr
}

func (p *pointer) deref() string { return rd("*"+p.name, p.elem.cls) }

// rdName observes the variable called name.
func (g *hgen) rdName(name string) string {
	for _, v := range g.vars {
		if v.name == name {
			return rd(name, v.cls)
		}
	}
	return name
}

// readVar records v and everything that aliases it.
func (g *hgen) readVar(v variable) {
	exprs := []string{rd(v.name, v.cls)}
	for _, p := range g.ptrs {
		if p.target != "" && (p.target == v.name || strings.HasPrefix(p.target, v.name+".") || strings.HasPrefix(p.target, v.name+"[")) {
			exprs = append(exprs, p.deref())
		}
	}
	g.read(exprs...)
}

func (g *hgen) newScalar() variable {
	st := scalarTypes[g.Pick(len(scalarTypes), "scalar-type")]
	return variable{name: g.Local("v"), typ: st.typ, cls: st.cls, slot: isSlot(st.cls)}
}

func (g *hgen) newComposite() variable {
	v := variable{name: g.Local("v")}
	k := g.Pick(6, "composite")
	if k == 5 {
		v.typ, v.cls = "func(int) int", "func"
		return v
	}
	if len(g.types) > 0 && g.Chance(1, 3, "prefer-struct") {
		k = 0
	}
	if k == 0 && len(g.types) == 0 {
		k = 1
	}
	switch k {
	case 0:
		st := g.types[g.Pick(len(g.types), "which-type")]
		v.typ, v.cls, v.st = st.name, "struct", st
	case 1:
		v.typ, v.cls, v.n = "[3]int", "array", 3
	case 2:
		v.typ, v.cls, v.n = "[]int", "slice", 3
	case 3:
		v.typ, v.cls = "map[string]int", "map"
	default:
		v.typ, v.cls = "interface{}", "iface"
	}
	return v
}

// countSlotDecl updates the counters of pointers taken earlier.
func (g *hgen) countSlotDecl(v variable) {
	if !v.slot {
		return
	}
	for _, p := range g.ptrs {
		if p.slot {
			p.after++
		}
	}
}

func (g *hgen) declared(v variable) {
	g.vars = append(g.vars, v)
	g.countSlotDecl(v)
	if v.slot {
		g.Tag("decl-slot-kind:" + v.typ)
	} else {
		g.Tag("decl-boxed:" + v.cls)
	}
	if g.anySlotAddr && v.typ == "complex128" {
		g.Tag("complex128-declared-after-int-addr")
	}
}

func (g *hgen) declVar() {
	var v variable
	if g.Chance(2, 3, "scalar") {
		v = g.newScalar()
	} else {
		v = g.newComposite()
	}
	switch g.Pick(4, "decl-form") {
	case 0:
		g.add(fmt.Sprintf("var %s %s = %s", v.name, v.typ, g.value(v)))
	case 1:
		g.add(fmt.Sprintf("var %s = %s", v.name, g.value(v)))
	case 2:
		g.add(fmt.Sprintf("%s := %s", v.name, g.value(v)))
	default:
		if v.cls == "map" || v.cls == "func" { // a nil map cannot be assigned into, a nil func cannot be called
			g.add(fmt.Sprintf("var %s %s = %s", v.name, v.typ, g.value(v)))
			break
		}
		g.add(fmt.Sprintf("var %s %s", v.name, v.typ))
		g.Tag("decl-zero-value")
		if v.cls == "slice" {
			v.n = 0
		}
	}
	g.declared(v)
	if g.Chance(1, 2, "read-after-decl") {
		g.readVar(v)
	}
}

func (g *hgen) declMulti() {
	a, b := g.newScalar(), g.newScalar()
	switch g.Pick(3, "multi-form") {
	case 0:
		g.add(fmt.Sprintf("var %s, %s = %s, %s", a.name, b.name, g.value(a), g.value(b)))
	case 1:
		g.add(fmt.Sprintf("%s, %s := %s, %s", a.name, b.name, g.value(a), g.value(b)))
	default:
		g.add(fmt.Sprintf("var (\n\t%s %s = %s\n\t%s = %s\n)", a.name, a.typ, g.value(a), b.name, g.value(b)))
		g.Tag("var-group")
	}
	g.Tag("multi-var-decl")
	g.declared(a)
	g.declared(b)
	g.read(a.name, b.name)
}

func (g *hgen) declType() {
	st := &structType{name: g.Local("T")}
	n := g.Int(1, 4, "nfields")
	var fs []string
	for i := 0; i < n; i++ {
		sc := scalarTypes[g.Pick(len(scalarTypes), "field-type")]
		f := variable{name: fmt.Sprintf("f%d", i), typ: sc.typ, cls: sc.cls}
		st.fields = append(st.fields, f)
		fs = append(fs, f.name+" "+f.typ)
	}
	g.add(fmt.Sprintf("type %s struct {\n\t%s\n}", st.name, strings.Join(fs, "\n\t")))
	g.types = append(g.types, st)
	g.Tag("decl-type")
	v := variable{name: g.Local("v"), typ: st.name, cls: "struct", st: st}
	g.add(fmt.Sprintf("var %s %s = %s", v.name, v.typ, g.value(v)))
	g.declared(v)
	g.readVar(v)
}

func (g *hgen) numericGlobals(classes ...string) []variable {
	var out []variable
	for _, v := range g.vars {
		for _, c := range classes {
			if v.cls == c {
				out = append(out, v)
			}
		}
	}
	return out
}

func (g *hgen) declFunc() {
	gl := g.numericGlobals("int", "uint")
	if len(gl) == 0 {
		g.declVar()
		return
	}
	v := gl[g.Pick(len(gl), "func-global")]
	f := function{name: g.Local("f"), glob: v}
	switch g.Pick(5, "func-kind") {
	case 0:
		f.kind = "reader"
		g.add(fmt.Sprintf("func %s(a int) int {\n\treturn a*%d + int(%s)\n}", f.name, g.Int(-2, 5, "mul"), v.name))
	case 1:
		f.kind = "writer"
		g.add(fmt.Sprintf("func %s(a int) {\n\t%s += %s(a)\n}", f.name, v.name, v.typ))
	case 2:
		f.kind = "addr"
		g.add(fmt.Sprintf("func %s() *%s {\n\treturn &%s\n}", f.name, v.typ, v.name))
	case 3:
		f.kind = "rec"
		g.add(fmt.Sprintf("func %s(n int) int {\n\tif n <= 0 {\n\t\treturn int(%s)\n\t}\n\treturn n + %s(n-1)\n}", f.name, v.name, f.name))
	default:
		f.kind = "closure"
		g.add(fmt.Sprintf("%s := func() int {\n\t%s++\n\treturn int(%s) * 2\n}", f.name, v.name, v.name))
	}
	g.Tag("decl-func:" + f.kind)
	g.funcs = append(g.funcs, f)
	g.callFunc(f)
}

func (g *hgen) callFunc(f function) {
	switch f.kind {
	case "reader", "rec":
		g.read(fmt.Sprintf("%s(%d)", f.name, g.Int(0, 4, "arg")))
	case "writer":
		g.add(fmt.Sprintf("%s(%d)", f.name, g.Int(0, 4, "arg")))
		g.readVar(f.glob)
	case "closure":
		g.read(f.name + "()")
		g.readVar(f.glob)
	case "addr":
		p := &pointer{name: g.Local("p"), elem: variable{name: f.glob.name, typ: f.glob.typ, cls: f.glob.cls}, target: f.glob.name, slot: f.glob.slot}
		g.add(fmt.Sprintf("%s := %s()", p.name, f.name))
		g.ptrs = append(g.ptrs, p)
		g.noteAddr(p, "via-func")
	}
}

func (g *hgen) noteAddr(p *pointer, how string) {
	g.Tag("addr:" + how)
	if p.slot {
		g.Tag("addr-of-slot-kind")
		if !g.anySlotAddr {
			g.Tag("first-slot-addr")
		}
		g.anySlotAddr = true
		g.lastAddrItem = len(g.items) - 1
	}
}

func (g *hgen) takeAddr() {
	if len(g.vars) == 0 {
		g.declVar()
		return
	}
	v := g.vars[g.Pick(len(g.vars), "addr-var")]
	p := &pointer{name: g.Local("p")}
	how := "var"
	if v.typ == "complex128" && vrec.Known("F-C14-3") {
		// known finding: &v of a complex128 variable does not compile. Excluded by construction.
		vrec.Excluded("F-C14-3")
		g.Tag("avoided:F-C14-3")
		g.assign()
		return
	}
	switch {
	case v.cls == "struct" && g.Chance(2, 3, "addr-field"):
		f := v.st.fields[g.Pick(len(v.st.fields), "field")]
		p.target = v.name + "." + f.name
		p.elem = variable{name: p.target, typ: f.typ, cls: f.cls}
		how = "field"
	case (v.cls == "array" || (v.cls == "slice" && v.n > 0)) && g.Chance(2, 3, "addr-elem"):
		p.target = fmt.Sprintf("%s[%d]", v.name, g.Pick(v.n, "idx"))
		p.elem = variable{name: p.target, typ: "int", cls: "int"}
		how = "elem-" + v.cls
	default:
		p.target = v.name
		p.elem = v
		p.slot = v.slot
	}
	if g.Bool("addr-form") {
		g.add(fmt.Sprintf("%s := &%s", p.name, p.target))
	} else {
		g.add(fmt.Sprintf("var %s *%s = &%s", p.name, p.elem.typ, p.target))
	}
	g.ptrs = append(g.ptrs, p)
	g.noteAddr(p, how)
	if g.Chance(1, 2, "read-after-addr") {
		g.read(p.deref())
	}
}

// mutate assigns to the storage denoted by expression place of description v
// (place is a variable name or "(*p)").
func (g *hgen) mutate(place string, v variable) {
	switch v.cls {
	case "int", "uint", "float", "complex":
		switch g.Pick(5, "num-mut") {
		case 0:
			g.add(fmt.Sprintf("%s = %s", place, g.lit(v.typ, v.cls)))
		case 1:
			g.add(fmt.Sprintf("%s += %s", place, g.OneOf("inc", "1", "2", "5")))
		case 2:
			g.add(place + "++")
		case 3:
			g.add(place + "--")
		default:
			g.add(fmt.Sprintf("%s *= %s", place, g.OneOf("mul", "2", "3")))
		}
	case "bool":
		if g.Bool("bool-mut") {
			g.add(fmt.Sprintf("%s = !%s", place, place))
		} else {
			g.add(fmt.Sprintf("%s = %s", place, g.lit(v.typ, v.cls)))
		}
	case "string":
		if g.Bool("str-mut") {
			g.add(fmt.Sprintf("%s += %s", place, g.OneOf("str-add", `"z"`, `"é"`)))
		} else {
			g.add(fmt.Sprintf("%s = %s", place, g.lit(v.typ, v.cls)))
		}
	case "struct":
		if g.Chance(3, 4, "field-mut") {
			f := v.st.fields[g.Pick(len(v.st.fields), "mut-field")]
			g.mutate(strings.TrimSuffix(strings.TrimPrefix(place, "(*"), ")")+"."+f.name, f) // p.f auto-dereferences
		} else {
			g.add(fmt.Sprintf("%s = %s", place, g.value(v)))
		}
	case "array":
		g.add(fmt.Sprintf("%s[%d] = %d", place, g.Pick(3, "arr-idx"), g.Int(-9, 99, "arr-val")))
	case "slice":
		g.add(fmt.Sprintf("%s = append(%s, %d)", place, place, g.Int(-9, 99, "app-val")))
	case "map":
		if g.Chance(1, 4, "map-del") {
			g.add(fmt.Sprintf("delete(%s, %s)", place, g.OneOf("map-key", `"a"`, `"b"`, `"c"`)))
		} else {
			g.add(fmt.Sprintf("%s[%s] = %d", place, g.OneOf("map-key", `"a"`, `"b"`, `"c"`), g.Int(-9, 99, "map-val")))
		}
	case "func":
		g.add(fmt.Sprintf("%s = %s", place, g.value(v)))
	case "iface":
		g.add(fmt.Sprintf("%s = %s", place, g.OneOf("iface-new", "7", `"t"`, "1.25", "nil", "false")))
	}
}

func (g *hgen) assign() {
	if len(g.vars) == 0 {
		g.declVar()
		return
	}
	i := g.Pick(len(g.vars), "assign-var")
	v := g.vars[i]
	if v.cls == "slice" {
		// appending may move the elements: pointers into the old array are detached,
		// identically on both sides; their targets are no longer tracked as aliases
		for _, p := range g.ptrs {
			if strings.HasPrefix(p.target, v.name+"[") {
				p.target = ""
			}
		}
		g.vars[i].n++
	}
	g.mutate(v.name, v)
	g.Tag("assign:" + v.cls)
	g.readVar(v)
}

func (g *hgen) writePtr(p *pointer) {
	g.mutate("(*"+p.name+")", p.elem)
	g.Tag("write-through-pointer")
	if p.slot && p.after >= 1024 {
		p.wrote = true
	}
	exprs := []string{p.deref()}
	if p.target != "" {
		root := p.target
		if i := strings.IndexAny(root, ".["); i >= 0 {
			root = root[:i]
		}
		exprs = append(exprs, g.rdName(root))
		for _, q := range g.ptrs {
			if q != p && q.target == p.target {
				exprs = append(exprs, q.deref())
			}
		}
	}
	g.read(exprs...)
}

// kindOf is the histogram name of v's kind.
func kindOf(v variable) string {
	if isSlot(v.cls) || v.cls == "string" {
		return v.typ
	}
	return v.cls
}

// intGlobal returns an int global (declaring one if there is none).
func (g *hgen) intGlobal() variable {
	for _, v := range g.vars {
		if v.typ == "int" && !v.bulk {
			return v
		}
	}
	v := variable{name: g.Local("n"), typ: "int", cls: "int", slot: true}
	g.add(fmt.Sprintf("var %s int = %d", v.name, g.Int(-9, 99, "n0")))
	g.declared(v)
	return v
}

// reassigned: the whole variable got a new value.
func (g *hgen) reassigned(name string) {
	for i := range g.vars {
		if g.vars[i].name == name && g.vars[i].cls == "slice" {
			g.vars[i].n = 3
			// pointers into the old backing array no longer alias the variable's elements
			for _, p := range g.ptrs {
				if strings.HasPrefix(p.target, name+"[") {
					p.target = ""
				}
			}
		}
	}
}

// assignForms: a global of any kind whose address (and the address of a field / element)
// was taken in an earlier evaluation is assigned by one of the forms of top-level
// assignment; then everything is read back, written through the old pointers and read again.
func (g *hgen) assignForms() {
	var v variable
	if len(g.vars) > 0 && g.Chance(1, 3, "af-existing") {
		v = g.vars[g.Pick(len(g.vars), "af-var")]
		if v.bulk {
			v = variable{}
		}
	}
	if v.name == "" {
		if g.Chance(1, 2, "af-scalar") {
			v = g.newScalar()
		} else {
			v = g.newComposite()
		}
		g.add(fmt.Sprintf("var %s %s = %s", v.name, v.typ, g.value(v)))
		g.declared(v)
	}
	// pointers taken before the assignment: to the variable, and into it
	var whole *pointer
	for _, p := range g.ptrs {
		if p.target == v.name {
			whole = p
		}
	}
	if whole == nil && !(v.typ == "complex128" && vrec.Known("F-C14-3")) {
		whole = &pointer{name: g.Local("p"), elem: v, target: v.name, slot: v.slot}
		g.add(fmt.Sprintf("%s := &%s", whole.name, v.name))
		g.ptrs = append(g.ptrs, whole)
		g.noteAddr(whole, "var")
	}
	if v.cls == "struct" || v.cls == "array" {
		sub := &pointer{name: g.Local("p")}
		if v.cls == "struct" {
			f := v.st.fields[g.Pick(len(v.st.fields), "af-field")]
			sub.target = v.name + "." + f.name
			sub.elem = variable{name: sub.target, typ: f.typ, cls: f.cls}
			g.noteAddr(sub, "field")
		} else {
			sub.target = fmt.Sprintf("%s[%d]", v.name, g.Pick(3, "af-idx"))
			sub.elem = variable{name: sub.target, typ: "int", cls: "int"}
			g.noteAddr(sub, "elem-array")
		}
		g.add(fmt.Sprintf("%s := &%s", sub.name, sub.target))
		g.ptrs = append(g.ptrs, sub)
	}
	if g.Bool("af-read-before") {
		g.readVar(v)
	}
	forms := []string{"plain", "mutate", "tuple-call", "swap", "multi-const", "range", "call-result", "in-func", "tuple-3"}
	if whole != nil {
		forms = append(forms, "deref-tuple")
	}
	form := forms[g.Pick(len(forms), "af-form")]
	g.Tag("assign-form:" + form + " x " + kindOf(v))
	g.Tag("assign-form:" + form)
	g.Tag("assign-forms")
	others := []variable{}
	switch form {
	case "plain":
		g.add(fmt.Sprintf("%s = %s", v.name, g.value(v)))
		g.reassigned(v.name)
	case "mutate": // op=, ++, --, field / element / key assignment, append
		if v.cls == "slice" {
			for _, p := range g.ptrs {
				if strings.HasPrefix(p.target, v.name+"[") {
					p.target = ""
				}
			}
			for i := range g.vars {
				if g.vars[i].name == v.name {
					g.vars[i].n++
				}
			}
		}
		g.mutate(v.name, v)
	case "tuple-call":
		n, f := g.intGlobal(), g.Local("f")
		g.add(fmt.Sprintf("func %s() (%s, int) {\n\treturn %s, %d\n}", f, v.typ, g.value(v), g.Int(-9, 99, "tc-n")))
		if g.Bool("tc-order") {
			g.add(fmt.Sprintf("%s, %s = %s()", v.name, n.name, f))
		} else {
			f2 := g.Local("f")
			g.add(fmt.Sprintf("func %s() (int, %s) {\n\treturn %d, %s\n}", f2, v.typ, g.Int(-9, 99, "tc-n2"), g.value(v)))
			g.add(fmt.Sprintf("%s, %s = %s()", n.name, v.name, f2))
			g.add(fmt.Sprintf("%s, %s = %s()", v.name, n.name, f))
		}
		g.reassigned(v.name)
		others = append(others, n)
	case "swap":
		w := variable{name: g.Local("w"), typ: v.typ, cls: v.cls, slot: v.slot, n: 3, st: v.st}
		g.add(fmt.Sprintf("var %s %s = %s", w.name, w.typ, g.value(w)))
		g.declared(w)
		g.add(fmt.Sprintf("%s, %s = %s, %s", v.name, w.name, w.name, v.name))
		g.reassigned(v.name)
		g.reassigned(w.name)
		for i := range g.vars {
			if g.vars[i].name == w.name {
				g.vars[i].n = v.n // the lengths were swapped too
			}
		}
		others = append(others, w)
	case "multi-const":
		n := g.intGlobal()
		g.add(fmt.Sprintf("%s, %s = %s, %d", v.name, n.name, g.value(v), g.Int(-9, 99, "mc-n")))
		g.reassigned(v.name)
		others = append(others, n)
	case "tuple-3":
		n := g.intGlobal()
		s := variable{name: g.Local("s"), typ: "string", cls: "string"}
		g.add(fmt.Sprintf("var %s string", s.name))
		g.declared(s)
		g.add(fmt.Sprintf("%s, %s, %s = %s, %s, %d", s.name, v.name, n.name, g.lit("string", "string"), g.value(v), g.Int(-9, 99, "t3-n")))
		g.reassigned(v.name)
		others = append(others, n, s)
	case "range":
		n := g.intGlobal()
		g.add(fmt.Sprintf("for %s, %s = range []%s{%s, %s} {\n}", n.name, v.name, v.typ, g.value(v), g.value(v)))
		g.reassigned(v.name)
		others = append(others, n)
	case "call-result":
		f := g.Local("f")
		g.add(fmt.Sprintf("func %s() %s {\n\treturn %s\n}", f, v.typ, g.value(v)))
		g.add(fmt.Sprintf("%s = %s()", v.name, f))
		g.reassigned(v.name)
	case "in-func":
		f := g.Local("f")
		g.add(fmt.Sprintf("func %s() {\n\t%s = %s\n}", f, v.name, g.value(v)))
		g.add(f + "()")
		g.reassigned(v.name)
	case "deref-tuple":
		n := g.intGlobal()
		g.add(fmt.Sprintf("*%s, %s = %s, %d", whole.name, n.name, g.value(v), g.Int(-9, 99, "dt-n")))
		g.reassigned(v.name)
		others = append(others, n)
	}
	// current v (length of a slice may have changed)
	for _, cur := range g.vars {
		if cur.name == v.name {
			v = cur
		}
	}
	g.readVar(v)
	for _, o := range others {
		g.readVar(o)
	}
	// write through the pointers taken before the assignment, read the aliases back
	for _, p := range g.ptrs {
		if p.target != "" && (p.target == v.name || strings.HasPrefix(p.target, v.name+".") || strings.HasPrefix(p.target, v.name+"[")) {
			g.writePtr(p)
		}
	}
	g.readVar(v)
}

func (g *hgen) writeSomePtr() {
	if len(g.ptrs) == 0 {
		g.takeAddr()
		return
	}
	g.writePtr(g.ptrs[g.Pick(len(g.ptrs), "which-ptr")])
}

func (g *hgen) topStmt() {
	gl := g.numericGlobals("int")
	if len(gl) == 0 {
		g.declVar()
		return
	}
	v := gl[g.Pick(len(gl), "stmt-var")]
	switch g.Pick(3, "stmt-kind") {
	case 0:
		g.add(fmt.Sprintf("if %s > 0 {\n\t%s = -%s\n} else {\n\t%s += 3\n}", v.name, v.name, v.name, v.name))
		g.Tag("toplevel-if")
	case 1:
		i := g.Local("i")
		g.add(fmt.Sprintf("for %s := 0; %s < %d; %s++ {\n\t%s += %s(%s)\n}", i, i, g.Int(1, 4, "for-n"), i, v.name, v.typ, i))
		g.Tag("toplevel-for")
	default:
		g.add(fmt.Sprintf("switch {\ncase %s %% 2 == 0:\n\t%s++\ndefault:\n\t%s *= 2\n}", v.name, v.name, v.name))
		g.Tag("toplevel-switch")
	}
	g.readVar(v)
}

func (g *hgen) declConst() {
	c := g.Local("c")
	g.add(fmt.Sprintf("const %s = %d", c, g.Int(-9, 99, "const")))
	v := variable{name: g.Local("v"), typ: "int", cls: "int", slot: true}
	g.add(fmt.Sprintf("var %s int = %s * 2", v.name, c))
	g.Tag("decl-const")
	g.declared(v)
	g.readVar(v)
}

var bulkKinds = []string{"int", "int", "int", "int", "bool", "uint8", "float64", "complex128", "string", "int64"}

func bulkValue(kind string, i int) string {
	switch kind {
	case "bool":
		if i%2 == 0 {
			return "true"
		}
		return "false"
	case "uint8":
		return fmt.Sprint(i % 256)
	case "float64":
		return fmt.Sprintf("%d.5", i)
	case "complex128":
		return fmt.Sprintf("(%d-%di)", i, i+1)
	case "string":
		return fmt.Sprintf(`"s%d"`, i)
	}
	return fmt.Sprint(i*7 - 3)
}

// bulk declares n further variables in one or many inputs.
func (g *hgen) bulk() {
	n := []int{10, 200, 1100, 2100}[rapid.SampledFrom([]int{0, 0, 1, 1, 2, 2, 2, 3}[:g.bulkSizes]).Draw(g.T, "bulk-size")]
	shape := g.OneOf("bulk-shape", "each", "each", "one", "group", "chunks")
	// kinds repeat with a short drawn period, so that few draws describe many declarations
	period := 1
	if g.Bool("bulk-mixed") {
		period = g.Int(2, 7, "bulk-period")
	}
	pattern := make([]string, period)
	for i := range pattern {
		if period == 1 {
			pattern[i] = "int"
		} else {
			pattern[i] = bulkKinds[g.Pick(len(bulkKinds), "bulk-kind")]
		}
	}
	id := g.Local("b")
	g.Tag(fmt.Sprintf("bulk:%d", n))
	g.Tag("bulk-shape:" + shape)
	if period > 1 {
		g.Tag("bulk-mixed-kinds")
	}
	rightAfterAddr := g.anySlotAddr && g.lastAddrItem == len(g.items)-1
	if rightAfterAddr {
		g.Tag("bulk-right-after-slot-addr")
		if shape != "each" {
			g.Tag("multi-decl-input-right-after-slot-addr")
		}
	}
	if g.anySlotAddr {
		g.Tag(fmt.Sprintf("bulk-after-slot-addr:%d", n))
	}
	bv := make([]variable, n)
	lines := make([]string, n)
	for i := range bv {
		k := pattern[i%period]
		cls := "int"
		switch k {
		case "bool":
			cls = "bool"
		case "uint8":
			cls = "uint"
		case "float64":
			cls = "float"
		case "complex128":
			cls = "complex"
		case "string":
			cls = "string"
		}
		bv[i] = variable{name: fmt.Sprintf("%s_%d", id, i), typ: k, cls: cls, slot: isSlot(cls), bulk: true}
		lines[i] = fmt.Sprintf("%s %s = %s", bv[i].name, k, bulkValue(k, i))
	}
	switch shape {
	case "each":
		for _, l := range lines {
			g.add("var " + l)
		}
	case "one":
		g.add("var " + strings.Join(lines, "\nvar "))
	case "group":
		g.add("var (\n\t" + strings.Join(lines, "\n\t") + "\n)")
	default:
		for lo := 0; lo < n; lo += 64 {
			hi := lo + 64
			if hi > n {
				hi = n
			}
			g.add("var " + strings.Join(lines[lo:hi], "\nvar "))
		}
	}
	for _, v := range bv {
		g.countSlotDecl(v)
		if g.anySlotAddr && v.typ == "complex128" {
			g.Tag("complex128-declared-after-int-addr")
		}
	}
	// write through every pointer taken earlier (at most 4) and read the aliases back
	for i, p := range g.ptrs {
		if i >= 4 {
			break
		}
		g.writePtr(p)
	}
	// read some of the new variables, assign two of them, take the address of a late one
	pickIdx := func(label string) int { return g.Pick(n, label) }
	sample := []string{bv[0].name, bv[n-1].name, bv[n/2].name}
	for i := 0; i < 3; i++ {
		sample = append(sample, bv[pickIdx("bulk-read")].name)
	}
	g.read(sample...)
	for i := 0; i < 2; i++ {
		v := bv[pickIdx("bulk-assign")]
		g.mutate(v.name, v)
		g.readVar(v)
	}
	late := bv[n-1-g.Pick(min(n, 8), "bulk-late")]
	if late.typ == "complex128" && vrec.Known("F-C14-3") {
		vrec.Excluded("F-C14-3")
		g.Tag("avoided:F-C14-3")
		for i := n - 1; i >= 0; i-- {
			if bv[i].typ != "complex128" {
				late = bv[i]
				break
			}
		}
	}
	if late.typ == "complex128" { // a bulk of complex128 only
		g.vars = append(g.vars, bv...)
		return
	}
	p := &pointer{name: g.Local("p"), elem: late, target: late.name, slot: late.slot}
	g.add(fmt.Sprintf("%s := &%s", p.name, late.name))
	g.ptrs = append(g.ptrs, p)
	g.noteAddr(p, "bulk-var")
	g.writePtr(p)
	g.vars = append(g.vars, bv...)
}

func min(a, b int) int {
	if a < b {
		return a
	}
	return b
}

// finish reads everything back (and makes every local of the compiled rendering used).
func (g *hgen) finish() {
	var batch []string
	flush := func() {
		if len(batch) > 0 {
			g.read(batch...)
			batch = nil
		}
	}
	for _, v := range g.vars {
		batch = append(batch, rd(v.name, v.cls))
		if len(batch) == 16 {
			flush()
		}
	}
	flush()
	for _, p := range g.ptrs {
		batch = append(batch, p.deref())
		if len(batch) == 16 {
			flush()
		}
	}
	flush()
	for _, f := range g.funcs {
		switch f.kind {
		case "reader", "rec":
			batch = append(batch, f.name+"(2)")
		case "closure":
			batch = append(batch, f.name+"()")
		case "addr":
			batch = append(batch, "*"+f.name+"()")
		case "writer":
			g.add(f.name + "(1)")
		}
	}
	flush()
	// once more after the calls: their effects on the globals
	for _, f := range g.funcs {
		batch = append(batch, f.glob.name)
	}
	flush()
}

// Generate builds one REPL history.
func Generate(t *rapid.T, px string) gobatch.Program {
	g := &hgen{G: progen.New(t, px, 0), lastAddrItem: -1, bulkSizes: 8}
	mode := "eval"
	if g.Chance(1, 4, "mode") {
		mode = "reader"
	}
	nsteps := g.Int(3, 12, "nsteps")
	nbulk := 0
	for s := 0; s < nsteps; s++ {
		k := g.Pick(26, "action")
		// the bulk action is most interesting right after an address was taken
		if g.anySlotAddr && g.lastAddrItem >= len(g.items)-2 && nbulk < 2 && g.Chance(1, 2, "bulk-now") {
			k = 19
		}
		switch {
		case k <= 4:
			g.declVar()
		case k == 5:
			g.declMulti()
		case k == 6:
			g.declType()
		case k <= 8:
			g.declFunc()
		case k <= 11:
			g.takeAddr()
		case k <= 13:
			g.assign()
		case k <= 15:
			g.writeSomePtr()
		case k == 16:
			g.topStmt()
		case k == 17:
			g.declConst()
		case k == 18:
			if len(g.funcs) > 0 {
				g.callFunc(g.funcs[g.Pick(len(g.funcs), "call-which")])
			} else {
				g.declFunc()
			}
		case k >= 20:
			g.assignForms()
		default:
			if nbulk < 2 {
				nbulk++
				g.bulk()
			} else {
				g.assign()
			}
		}
	}
	g.finish()
	p := gobatch.Program{Decls: g.items, Entry: px + "main", Tags: nil, Meta: map[string]string{"mode": mode}}
	g.Tag("mode:" + mode)
	for _, ptr := range g.ptrs {
		if ptr.wrote {
			p.NT = "slot-addr-then->=1024-slot-decls-then-write-through"
		}
	}
	if p.NT == "" && g.Tags["assign-forms"] {
		p.NT = "addr-then-assignment-form-then-write-through"
	}
	p.Tags = g.TagList()
	return p
}
