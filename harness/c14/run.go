package c14

import (
	"bytes"
	"fmt"
	"regexp"
	"strings"

	"github.com/cosmos72/gomacro/fast"

	"verif/harness/gobatch"
	"verif/harness/gobatch/rec"
	"verif/harness/progen"
)

// A case is a REPL history: Program.Decls holds the top-level inputs in order (each is
// one complete declaration or statement, valid both at gomacro's top level and inside a
// Go function body, except `func NAME(...)` declarations which the oracle side turns
// into function-typed variables). Program.Meta["mode"] selects how the history is fed:
//   "eval"   one Interp.Eval per input, as the REPL does
//   "reader" all inputs joined by newlines, through Interp.EvalReader as one stream
// Program.Entry is the name the compiled function gets on the oracle side.

var funcName = regexp.MustCompile(`^func ([A-Za-z_][A-Za-z0-9_]*)\(`)

// oracleItem renders one history input as function-body statements. A function
// declaration `func NAME<signature> {` + body (the first line ends with " {") becomes a
// function-typed variable, declared first and assigned second: the body may call itself.
func oracleItem(item string) string {
	m := funcName.FindStringSubmatch(item)
	if m == nil {
		return item
	}
	first := item
	if i := strings.IndexByte(item, '\n'); i >= 0 {
		first = item[:i]
	}
	if !strings.HasSuffix(first, " {") {
		return item
	}
	name := m[1]
	sig := first[len("func "+name) : len(first)-2]
	rest := item[len(first):]
	return fmt.Sprintf("var %s func%s\n%s = func%s {%s", name, sig, name, sig, rest)
}

// oracleOf renders the history as the body of one compiled function, in order.
func oracleOf(p gobatch.Program) gobatch.Program {
	var b strings.Builder
	for _, it := range p.Decls {
		b.WriteString(oracleItem(it))
		b.WriteString("\n")
	}
	o := p
	o.Decls = []string{"func " + p.Entry + "() {\n" + progen.Indent(b.String()) + "}"}
	return o
}

// runHistory feeds the history to a fresh fast interpreter.
func runHistory(p gobatch.Program) (r gobatch.Result) {
	registerRec()
	rec.Reset()
	ir := fast.New()
	g := &ir.Comp.Globals
	var sink, errs bytes.Buffer
	g.Stdout, g.Stderr = &sink, &errs
	step := -1
	defer func() {
		if pv := recover(); pv != nil {
			r.Trace = rec.Take()
			r.Err = fmt.Sprintf("input %d failed: %v", step, pv)
			if step >= 0 && step < len(p.Decls) {
				r.Err += "\n\tinput: " + firstLine(p.Decls[step])
			}
		}
	}()
	ir.Eval(`import "verif/rec"`)
	for _, imp := range p.Imports {
		ir.Eval("import " + fmt.Sprintf("%q", imp))
	}
	rec.Reset()
	errs.Reset()
	switch p.Meta["mode"] {
	case "reader":
		_, err := ir.EvalReader(strings.NewReader(strings.Join(p.Decls, "\n") + "\n"))
		r.Trace = rec.Take()
		if err != nil {
			r.Err = "EvalReader: " + err.Error()
		} else if errs.Len() != 0 {
			// the stream reader traps the failure of an input, prints it and goes on
			r.Err = "EvalReader printed: " + firstLine(errs.String())
		}
	default:
		for i, it := range p.Decls {
			step = i
			ir.Eval(it)
		}
		r.Trace = rec.Take()
	}
	return r
}

func firstLine(s string) string {
	s = strings.TrimSpace(s)
	if i := strings.IndexByte(s, '\n'); i >= 0 {
		s = s[:i] + " ..."
	}
	if len(s) > 300 {
		s = s[:300] + "..."
	}
	return s
}
