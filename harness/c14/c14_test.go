// C14: REPL-style evaluation, one top-level input at a time, matches in-order Go;
// pointers to globals stay valid however many declarations follow.
// Oracle: the Go toolchain compiling the same history rendered as one function body.
package c14

import (
	"fmt"
	"os"
	"reflect"
	"strings"
	"sync"
	"testing"

	"github.com/cosmos72/gomacro/imports"

	"verif/harness/gobatch"
	"verif/harness/gobatch/rec"
	"verif/harness/vlib"
)

var vrec *vlib.Rec

var regOnce sync.Once

func registerRec() {
	regOnce.Do(func() {
		gobatch.RunInterp(gobatch.Program{Decls: []string{"func X_() {}"}, Entry: "X_"}) // lets the engine register verif/rec first
		if _, ok := imports.Packages["verif/rec"]; !ok {
			imports.Packages["verif/rec"] = imports.Package{Name: "rec", Binds: map[string]reflect.Value{
				"E": reflect.ValueOf(rec.E), "R": reflect.ValueOf(rec.R), "F": reflect.ValueOf(rec.F), "P": reflect.ValueOf(rec.P),
			}}
		}
	})
}

func TestMain(m *testing.M) {
	vrec = vlib.Open("C14")
	vrec.Rule("cases = generated REPL histories (3-12 actions, each action 1..2100 top-level inputs): declarations of variables of every basic kind (integer-slot kinds and boxed kinds), " +
		"structs/arrays/slices/maps/interfaces, method-free struct types, constants, functions (reading/writing globals, returning the address of a global, recursive, closures), assignments, " +
		"address-taking (&x, &s.f, &a[i], through a function), writes through pointers, top-level if/for/switch, and the bulk action (10/200/1100/2100 further variables of one or mixed kinds, " +
		"one input each / one input for all / one var(...) group / chunks of 64) followed by writes through every earlier pointer; values and all aliases are read back after each step with the trace recorder; " +
		"each input is its own Interp.Eval (1 in 4 histories: the whole history through Interp.EvalReader as one stream); " +
		"the assignment-forms action: a global of any kind (all sized ints, floats, complex, string, struct, array, slice, map, interface, func) whose address (and &v.f / &v[i]) was taken in earlier inputs is assigned by plain =, op=/++/element/field, tuple from a call, swap, multi-assign with constants, 3-tuple, range assignment, call result, assignment inside a function, or *p, n = ..., then read, written through the old pointers and read again; " +
		"a case is non-trivial when the address of an integer-slot variable was taken, >= 1024 integer-slot-kind declarations followed, and that pointer was written through afterwards, or when it contains the assignment-forms action (address taken, later assignment form, write through the old pointer); distinct = distinct history texts")
	vrec.Assume("oracle: gc toolchain (module at go 1.18) compiling the same inputs in the same order as the body of one function: declarations become locals, `func f(..)` becomes `var f func(..); f = func(..)`; trace formatted by the same compiled recorder on both sides")
	vrec.Assume("redefinitions are not generated (not valid Go; C15's subject); histories are panic-free by construction")
	os.Exit(vlib.Main(m, vrec))
}

const reallocMsg = "attempt to reallocate Env.Ints[]"

// known classifies a disagreement as one of the registered findings (consulted only
// while they are listed with status "known").
func known(p gobatch.Program, got, want gobatch.Result) string {
	if want.Err != "" || want.Panic != "" {
		return ""
	}
	if strings.Contains(got.Err, "unsupported expression type") && strings.Contains(got.Err, "*complex128") {
		return "F-C14-3" // normally avoided by construction
	}
	if !strings.Contains(got.Err, reallocMsg) {
		return ""
	}
	if p.HasTag("multi-decl-input-right-after-slot-addr") {
		return "F-C14-1"
	}
	if p.HasTag("complex128-declared-after-int-addr") &&
		(p.Meta["mode"] == "reader" || strings.Contains(failingInput(p, got.Err), "complex128")) {
		return "F-C14-2"
	}
	return ""
}

// failingInput returns the text of the input named by "input N failed" in err.
func failingInput(p gobatch.Program, err string) string {
	var n int
	if _, e := fmt.Sscanf(err, "input %d failed", &n); e != nil || n < 0 || n >= len(p.Decls) {
		return ""
	}
	return p.Decls[n]
}

func config() gobatch.Config {
	registerRec()
	return gobatch.Config{
		Rec: vrec, Name: "c14", N: vrec.Scale(90, 150),
		Gen: Generate, Known: known, Interp: runHistory, OracleOf: oracleOf,
	}
}

func TestHistories(t *testing.T) {
	if vrec.ReplayOnly() {
		return
	}
	gobatch.Run(t, config())
}

func TestReplays(t *testing.T) {
	cfg := config()
	inner := gobatch.ReplayerWith(cfg)
	vrec.RunReplays(t, inner)
}
