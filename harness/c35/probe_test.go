package c35

import (
	"fmt"
	"os"
	"strings"
	"testing"

	"github.com/cosmos72/gomacro/fast"
	"github.com/cosmos72/gomacro/go/etoken"
	"pgregory.net/rapid"
	"verif/harness/gobatch"
)

func TestProbe(t *testing.T) {
	etoken.GENERICS = etoken.GENERICS_V2_CTI
	data, err := os.ReadFile(os.Getenv("PROBE"))
	if err != nil {
		t.Skip()
	}
	ir := fast.New()
	for _, chunk := range strings.Split(string(data), "\n//--\n") {
		func() {
			defer func() {
				if p := recover(); p != nil {
					fmt.Printf("PANIC on %q: %v\n", chunk, p)
				}
			}()
			vals, _ := ir.Eval(chunk)
			for _, v := range vals {
				if v.IsValid() && v.CanInterface() {
					fmt.Printf("%q => %v // %T\n", chunk, v.Interface(), v.Interface())
				}
			}
		}()
	}
}

func TestDump(t *testing.T) {
	if os.Getenv("C35_DUMP") == "" {
		t.Skip()
	}
	n := 0
	rec.Check(t, 5, func(rt *rapid.T) {
		n++
		p := Generate(rt, fmt.Sprintf("P%d_", n))
		fmt.Println("=========== GENERIC", p.NT, p.Tags)
		fmt.Println(strings.Join(p.Decls, "\n\n"))
		fmt.Println("----------- SPEC")
		fmt.Println(strings.ReplaceAll(p.Meta["spec"], sepDecl, "\n\n"))
		if err := gobatch.Vet(oracleOf(p)); err != nil {
			fmt.Println("VET ERROR:", err)
		}
	})
}
