package c35

import (
	"fmt"
	"regexp"
	"strings"
)

// side selects how a piece of program text is rendered: as gomacro generic text
// (spec == false: type parameters by name, instances as Name#[args]) or as the
// hand-specialised plain-Go copy (spec == true: type parameters replaced by the closed
// types in env, instances by their mangled names, which registers them for emission).
type side struct {
	g     *G
	spec  bool
	env   []*Ty // spec side, inside a template instance: the closed type bound to each parameter
	canon bool  // render byte as uint8 and rune as int32 (instance keys only)
}

// X is a piece of text that is rendered once per side (and, on the spec side, once
// per instance of the template it belongs to).
type X func(s *side) string

func lit(text string) X { return func(*side) string { return text } }

// cat concatenates strings, *Ty, X and []X (comma separated) parts.
func cat(parts ...interface{}) X {
	return func(s *side) string {
		var b strings.Builder
		for _, p := range parts {
			switch p := p.(type) {
			case string:
				b.WriteString(p)
			case *Ty:
				b.WriteString(p.R(s))
			case X:
				b.WriteString(p(s))
			case []X:
				for i, x := range p {
					if i > 0 {
						b.WriteString(", ")
					}
					b.WriteString(x(s))
				}
			case int:
				fmt.Fprint(&b, p)
			default:
				panic(fmt.Sprintf("cat: bad part %T", p))
			}
		}
		return b.String()
	}
}

// Ty is a type expression, possibly mentioning type parameters of the enclosing template.
type Ty struct {
	k        byte   // b basic, n named (non-generic, declared by the program), e interface{}, p param, s slice, a array, m map, * pointer, c chan, f func, S struct, i instance of a generic type
	name     string // b, n, e, p
	idx      int    // p: parameter index
	n        int    // a: length
	el       []*Ty  // children; f: parameters then results; S: field types; i: type arguments
	nres     int    // f: number of results
	variadic bool   // f: last parameter is variadic (el holds its element type)
	fields   []string
	gt       *GType // i
	under    *Ty    // n: underlying type
}

func basic(name string) *Ty             { return &Ty{k: 'b', name: name} }
func param(i int, name string) *Ty      { return &Ty{k: 'p', idx: i, name: name} }
func sliceOf(e *Ty) *Ty                 { return &Ty{k: 's', el: []*Ty{e}} }
func arrayOf(n int, e *Ty) *Ty          { return &Ty{k: 'a', n: n, el: []*Ty{e}} }
func mapOf(k, v *Ty) *Ty                { return &Ty{k: 'm', el: []*Ty{k, v}} }
func ptrTo(e *Ty) *Ty                   { return &Ty{k: '*', el: []*Ty{e}} }
func chanOf(e *Ty) *Ty                  { return &Ty{k: 'c', el: []*Ty{e}} }
func instOf(gt *GType, args ...*Ty) *Ty { return &Ty{k: 'i', gt: gt, el: args} }
func funcOf(params []*Ty, results []*Ty) *Ty {
	return &Ty{k: 'f', el: append(append([]*Ty{}, params...), results...), nres: len(results)}
}
func structOf(names []string, types []*Ty) *Ty { return &Ty{k: 'S', fields: names, el: types} }

var (
	tInt    = basic("int")
	tBool   = basic("bool")
	tString = basic("string")
	tIface  = &Ty{k: 'e', name: "interface{}"}
)

func (t *Ty) params() []*Ty  { return t.el[:len(t.el)-t.nres] }
func (t *Ty) results() []*Ty { return t.el[len(t.el)-t.nres:] }

// R renders the type on the given side.
func (t *Ty) R(s *side) string {
	switch t.k {
	case 'b':
		if s.canon {
			switch t.name {
			case "byte":
				return "uint8"
			case "rune":
				return "int32"
			}
		}
		return t.name
	case 'n', 'e':
		return t.name
	case 'p':
		if s.spec {
			return s.env[t.idx].R(&side{g: s.g, spec: true, canon: s.canon})
		}
		return t.name
	case 's':
		return "[]" + t.el[0].R(s)
	case 'a':
		return fmt.Sprintf("[%d]%s", t.n, t.el[0].R(s))
	case 'm':
		return "map[" + t.el[0].R(s) + "]" + t.el[1].R(s)
	case '*':
		return "*" + t.el[0].R(s)
	case 'c':
		return "chan " + t.el[0].R(s)
	case 'f':
		var b strings.Builder
		b.WriteString("func(")
		ps := t.params()
		for i, p := range ps {
			if i > 0 {
				b.WriteString(", ")
			}
			if t.variadic && i == len(ps)-1 {
				b.WriteString("...")
			}
			b.WriteString(p.R(s))
		}
		b.WriteString(")")
		rs := t.results()
		switch len(rs) {
		case 0:
		case 1:
			b.WriteString(" " + rs[0].R(s))
		default:
			b.WriteString(" (")
			for i, r := range rs {
				if i > 0 {
					b.WriteString(", ")
				}
				b.WriteString(r.R(s))
			}
			b.WriteString(")")
		}
		return b.String()
	case 'S':
		var b strings.Builder
		b.WriteString("struct {")
		for i, f := range t.fields {
			if i > 0 {
				b.WriteString(";")
			}
			b.WriteString(" " + f + " " + t.el[i].R(s))
		}
		b.WriteString(" }")
		return b.String()
	case 'i':
		if !s.spec {
			parts := make([]string, len(t.el))
			for i, a := range t.el {
				parts[i] = a.R(s)
			}
			return t.gt.name + "#[" + strings.Join(parts, ", ") + "]"
		}
		closed := make([]*Ty, len(t.el))
		for i, a := range t.el {
			closed[i] = subst(a, s.env)
		}
		return s.g.typeInst(t.gt, closed)
	}
	panic("Ty.R: bad kind")
}

// subst replaces the type parameters of t by env (env == nil: t is returned as is).
func subst(t *Ty, env []*Ty) *Ty {
	if env == nil || !t.open() {
		return t
	}
	if t.k == 'p' {
		return env[t.idx]
	}
	c := *t
	c.el = make([]*Ty, len(t.el))
	for i, e := range t.el {
		c.el[i] = subst(e, env)
	}
	return &c
}

// open reports whether t mentions a type parameter.
func (t *Ty) open() bool {
	if t.k == 'p' {
		return true
	}
	for _, e := range t.el {
		if e.open() {
			return true
		}
	}
	return false
}

// key identifies a type within one template (generic-side text).
func (t *Ty) key() string { return t.R(&side{}) }

// Underlying structure of t: named types and instances are resolved (one level at a time,
// repeatedly); the result is never 'n' or 'i'.
func (t *Ty) resolve() *Ty {
	for depth := 0; depth < 8; depth++ {
		switch t.k {
		case 'n':
			t = t.under
		case 'i':
			t = subst(t.gt.under, t.el)
		default:
			return t
		}
	}
	return t
}

// Classes of type parameters, by the operations a template body applies to values.
const (
	cAny        = iota // assignment, composite construction, interface boxing
	cComparable        // == !=, map key
	cOrdered           // + < (integers, floats, string)
	cNumeric           // + - * (integers, floats, complex)
	cInteger           // + - * & | ^ % by non-zero constant, <
)

var className = []string{"any", "comparable", "ordered", "numeric", "integer"}

// implies: a parameter of class have may be passed where class need is required.
func implies(have, need int) bool {
	switch need {
	case cAny:
		return true
	case cComparable:
		return have != cAny
	case cOrdered:
		return have == cOrdered || have == cInteger
	case cNumeric:
		return have == cNumeric || have == cInteger
	case cInteger:
		return have == cInteger
	}
	return false
}

var intKinds = map[string]bool{"int": true, "int8": true, "int16": true, "int32": true, "int64": true,
	"uint": true, "uint8": true, "uint16": true, "uint32": true, "uint64": true, "uintptr": true, "byte": true, "rune": true}

// hasClass reports whether the closed type t supports the operations of class.
func hasClass(t *Ty, class int) bool {
	if class == cAny {
		return true
	}
	u := t
	if t.k == 'n' {
		u = t.under
	}
	switch u.k {
	case 'b':
		switch class {
		case cComparable:
			return true
		case cOrdered:
			return intKinds[u.name] || u.name == "float32" || u.name == "float64" || u.name == "string"
		case cNumeric:
			return intKinds[u.name] || u.name == "float32" || u.name == "float64" || u.name == "complex64" || u.name == "complex128"
		case cInteger:
			return intKinds[u.name]
		}
		return false
	case '*', 'c':
		return class == cComparable
	case 'a':
		return class == cComparable && hasClass(u.el[0], cComparable)
	case 'S':
		if class != cComparable {
			return false
		}
		for _, e := range u.el {
			if !hasClass(e, cComparable) {
				return false
			}
		}
		return true
	}
	return false
}

var wordRe = regexp.MustCompile(`[^A-Za-z0-9]+`)
