// C35: a generic instance behaves like the textual specialisation of its template, and
// instantiating again with identical arguments yields the identical type / a function
// with identical behaviour.
// Oracle: the Go toolchain compiling the hand-specialised copy that the generator renders
// from the same template (type parameters replaced by the arguments, instance names
// mangled); for memoisation additionally the identity of the instantiated types.
package c35

import (
	"bytes"
	"os"
	"strconv"
	"strings"
	"testing"

	"github.com/cosmos72/gomacro/go/etoken"

	"verif/harness/gobatch"
	"verif/harness/vlib"
)

var rec *vlib.Rec

func TestMain(m *testing.M) {
	// process-global switch, read by the parser and by universes when they are created
	etoken.GENERICS = etoken.GENERICS_V2_CTI
	rec = vlib.Open("C35")
	knownFn = rec.Known
	rec.Rule("cases = generated programs: 0-3 generic types (struct / slice / map / func / array shapes, self-recursive ones included) and 1-6 generic functions " +
		"with 1-3 type parameters of classes any/comparable/ordered/numeric/integer, random bodies restricted to the operations of the class (assignment, composite construction, append, " +
		"map store/lookup/delete, closures over T values, defer, local types built from T, type switches and assertions on T, arithmetic and comparison where the class allows, calls of other generic " +
		"functions with arguments built from the own parameters, recursion through the instance cache, permuted parameters), instantiated from an entry function at closure depths 0-4, " +
		"through function values, in package-level initialisers and inside other instances, with basic, named and composite type arguments incl. instances of generic types; " +
		"a case is non-trivial when one of its templates is instantiated with >= 2 distinct argument lists of which one is composite; distinct = distinct program texts. " +
		"memo test: sequences of instantiation requests (equivalent spellings of the same argument list from different scopes) checked for type identity and mutual assignability")
	rec.Assume("oracle: gc toolchain (language go1.18) compiling the hand-specialised copy rendered from the same template; trace formatted by the same compiled recorder on both sides")
	rec.Assume("generics = gomacro 'contracts are interfaces' syntax Name#[T,U] (etoken.GENERICS_V2_CTI, the default of the gomacro command); contract annotations, generic methods, argument inference are documented as not implemented and not generated")
	rec.Assume("values of recursive generic types never reach the compiled recorder (recursive types are emulated: documented limitation); fields of such values are recorded instead")
	os.Exit(vlib.Main(m, rec))
}

func oracleOf(p gobatch.Program) gobatch.Program {
	o := p
	o.Decls = strings.Split(p.Meta["spec"], sepDecl)
	return o
}

func known(p gobatch.Program, got, want gobatch.Result) string { return "" }

var cfg = gobatch.Config{Name: "c35", Gen: Generate, OracleOf: oracleOf, Known: known}

func TestGenericVsSpecialised(t *testing.T) {
	c := cfg
	c.Rec = rec
	c.N = rec.Scale(80, 1000)
	if n, _ := strconv.Atoi(os.Getenv("C35_N")); n > 0 {
		c.N = n // development only
	}
	gobatch.Run(t, c)
}

func TestReplays(t *testing.T) {
	diff := gobatch.ReplayerWith(cfg)
	rec.RunReplays(t, func(content []byte) error {
		if bytes.HasPrefix(content, []byte("//memo:")) {
			return replayMemo(content)
		}
		return diff(content)
	})
}
