package c35

import (
	"bytes"
	"encoding/json"
	"fmt"
	"testing"

	"github.com/cosmos72/gomacro/fast"
	xr "github.com/cosmos72/gomacro/xreflect"
	"pgregory.net/rapid"

	"verif/harness/vlib"
)

// Memoisation seen through the interpreter's API: a sequence of instantiation requests
// of the same generic types / functions, with argument lists spelled in equivalent ways
// (aliases, byte/uint8, parameter names in func types, constant expressions as array
// lengths) and written at different scopes. Requests of one equivalence class must give
// identical, mutually assignable types; requests of different classes different types.

const memoPrelude = `type A1 = int
type AS = []int
type N1 int
type P#[T, U] struct { First T; Second U }
type V#[T] []T
type L#[T] struct { Val T; Next *L#[T] }
type W#[T] struct { In P#[T, T]; Ptr *T }
func Mk#[T, U](a T, b U) P#[T, U] { return P#[T, U]{a, b} }
func Wrap#[T](v T) V#[T] { return V#[T]{v, v} }`

// spellings[i] lists equivalent spellings of one type
var spellings = [][]string{
	{"int", "A1"},
	{"uint8", "byte"},
	{"int32", "rune"},
	{"[]int", "[]A1", "AS"},
	{"string"},
	{"N1"},
	{"struct{A int}", "struct { A A1 }"},
	{"map[string]int", "map[string]A1"},
	{"func(int) string", "func(x int) string", "func(A1) (string)"},
	{"*int", "*A1"},
	{"[2]int", "[1+1]int", "[2]A1"},
	{"interface{}", "interface {}"},
	{"chan int"},
	{"<-chan int"},
	{"P#[int, int]", "P#[A1, int]"},
	{"V#[string]"},
	{"[]N1"},
	{"int64"},
	{"uint"},
}

type memoReq struct {
	Generic string `json:"generic"` // P, V, L, W, Mk, Wrap
	Args    []int  `json:"args"`    // indexes into spellings
	Spell   []int  `json:"spell"`   // which spelling of each
	Site    int    `json:"site"`    // 0 package-level var, 1 inside a function, 2 inside a closure in a function, 3 as composite literal value, 4 inside another instance
}

func (r memoReq) class() string { return fmt.Sprint(r.Generic, r.Args) }

func (r memoReq) typeText() string {
	var b bytes.Buffer
	name := r.Generic
	if name == "Mk" {
		name = "P"
	} else if name == "Wrap" {
		name = "V"
	}
	b.WriteString(name + "#[")
	for i, a := range r.Args {
		if i > 0 {
			b.WriteString(", ")
		}
		b.WriteString(spellings[a][r.Spell[i]])
	}
	b.WriteString("]")
	return b.String()
}

// decl returns the declarations that make variable name hold a value of the instance.
func (r memoReq) decl(name string) string {
	tt := r.typeText()
	args := tt[len(r.Generic)+0:]
	_ = args
	switch r.Generic {
	case "Mk":
		a, b := spellings[r.Args[0]][r.Spell[0]], spellings[r.Args[1]][r.Spell[1]]
		call := fmt.Sprintf("Mk#[%s, %s](*new(%s), *new(%s))", a, b, a, b)
		switch r.Site {
		case 1, 2:
			return fmt.Sprintf("func f%s() %s { return func() %s { return %s }() }\nvar %s = f%s()", name, tt, tt, call, name, name)
		}
		return fmt.Sprintf("var %s = %s", name, call)
	case "Wrap":
		a := spellings[r.Args[0]][r.Spell[0]]
		call := fmt.Sprintf("Wrap#[%s](*new(%s))", a, a)
		if r.Site == 1 || r.Site == 2 {
			return fmt.Sprintf("func f%s() %s { x := %s; return x }\nvar %s = f%s()", name, tt, call, name, name)
		}
		return fmt.Sprintf("var %s = %s", name, call)
	}
	switch r.Site {
	case 1:
		return fmt.Sprintf("func f%s() %s { var x %s; return x }\nvar %s = f%s()", name, tt, tt, name, name)
	case 2:
		return fmt.Sprintf("func f%s() interface{} { return func() interface{} { return func() interface{} { var x %s; return x }() }() }\nvar %s = f%s().(%s)", name, tt, name, name, tt)
	case 3:
		return fmt.Sprintf("var %s = %s{}", name, tt)
	case 4:
		return fmt.Sprintf("var %s = Wrap#[%s](*new(%s))[0]", name, tt, tt)
	}
	return fmt.Sprintf("var %s %s", name, tt)
}

var memoArity = map[string]int{"P": 2, "V": 1, "L": 1, "W": 1, "Mk": 2, "Wrap": 1}

func memoCheck(reqs []memoReq) (err error) {
	ir := fast.New()
	var sink bytes.Buffer
	ir.Comp.Globals.Stdout, ir.Comp.Globals.Stderr = &sink, &sink
	if p := vlib.Try(func() { ir.Eval(memoPrelude) }); p != nil {
		return vlib.Inconclusive(fmt.Sprintf("prelude does not evaluate: %v", p))
	}
	types := make([]xr.Type, len(reqs))
	for i, r := range reqs {
		name := fmt.Sprintf("v%d", i)
		src := r.decl(name)
		if p := vlib.Try(func() { ir.Eval(src) }); p != nil {
			return fmt.Errorf("request %d does not evaluate: %s\n%v", i, src, p)
		}
		b := ir.Comp.Binds[name]
		if b == nil || b.Type == nil {
			return vlib.Inconclusive("no binding for " + name)
		}
		types[i] = b.Type
	}
	for i := range reqs {
		for j := range reqs {
			if i == j {
				continue
			}
			gi, gj := reqs[i], reqs[j]
			fam := func(g string) string {
				switch g {
				case "Mk":
					return "P"
				case "Wrap":
					return "V"
				}
				return g
			}
			if fam(gi.Generic) != fam(gj.Generic) {
				continue
			}
			same := fmt.Sprint(gi.Args) == fmt.Sprint(gj.Args)
			ident := types[i].IdenticalTo(types[j])
			if same && !ident {
				return fmt.Errorf("requests %d (%s) and %d (%s) have identical arguments but the instances are not identical types: %v vs %v",
					i, gi.decl("a"), j, gj.decl("b"), types[i], types[j])
			}
			if !same && ident {
				return fmt.Errorf("requests %d (%s) and %d (%s) have different arguments but yield the identical type %v",
					i, gi.decl("a"), j, gj.decl("b"), types[i])
			}
			if same {
				src := fmt.Sprintf("v%d = v%d", i, j)
				if p := vlib.Try(func() { ir.Eval(src) }); p != nil {
					return fmt.Errorf("instances with identical arguments are not assignable to each other: %s (%s / %s): %v", src, gi.decl("a"), gj.decl("b"), p)
				}
			}
		}
	}
	return nil
}

func TestMemo(t *testing.T) {
	rec.Check(t, rec.Scale(100, 1500), func(rt *rapid.T) {
		n := rapid.IntRange(2, 8).Draw(rt, "n")
		// a small set of argument classes per case so that repeats are frequent
		pool := rapid.SliceOfN(rapid.IntRange(0, len(spellings)-1), 1, 3).Draw(rt, "pool")
		reqs := make([]memoReq, n)
		generics := []string{"P", "V", "L", "W", "Mk", "Wrap", "P", "V"}
		for i := range reqs {
			g := generics[rapid.IntRange(0, len(generics)-1).Draw(rt, "generic")]
			r := memoReq{Generic: g, Site: rapid.IntRange(0, 4).Draw(rt, "site")}
			if g == "L" && (r.Site == 2 || r.Site == 4) {
				r.Site = 1 // the recursive type is not pushed through interfaces or other instances (emulated recursive types: documented limitation)
			}
			for k := 0; k < memoArity[g]; k++ {
				a := pool[rapid.IntRange(0, len(pool)-1).Draw(rt, "arg")]
				r.Args = append(r.Args, a)
				r.Spell = append(r.Spell, rapid.IntRange(0, len(spellings[a])-1).Draw(rt, "spell"))
			}
			reqs[i] = r
		}
		classes := map[string]int{}
		composite := false
		for _, r := range reqs {
			classes[r.class()]++
			rec.Label(fmt.Sprintf("memo:site-%d", r.Site))
			rec.Label("memo:generic-" + r.Generic)
			for _, a := range r.Args {
				if a >= 3 && a != 4 {
					composite = true
				}
			}
		}
		repeated := 0
		for _, c := range classes {
			if c >= 2 {
				repeated++
			}
		}
		replay, _ := json.Marshal(reqs)
		if repeated > 0 && len(classes) >= 2 && composite {
			rec.NT("memo:" + string(replay))
			rec.Label("nontrivial:memo-repeated-class+distinct-class+composite")
		}
		if err := memoCheck(reqs); err != nil {
			if _, inc := err.(vlib.InconclusiveError); inc {
				rt.Fatalf("%v", err)
			}
			rec.Failf(rt, "c35-memo", append([]byte("//memo:"), replay...), "json", "%v", err)
		}
	})
}

func replayMemo(content []byte) error {
	var reqs []memoReq
	if err := json.Unmarshal(bytes.TrimPrefix(content, []byte("//memo:")), &reqs); err != nil {
		return nil
	}
	return memoCheck(reqs)
}
