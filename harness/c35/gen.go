package c35

import (
	"fmt"
	"sort"
	"strings"

	"pgregory.net/rapid"

	"verif/harness/gobatch"
	"verif/harness/progen"
)

// GType is a generic type declaration: type Name#[params] under.
type GType struct {
	name   string
	params []string
	class  []int
	under  *Ty
	rec    bool // recursive (directly or mutually): values never reach the recorder (emulated recursive types are a documented limitation)
}

// GFunc is a generic function declaration.
type GFunc struct {
	name     string
	params   []string
	class    []int
	fnames   []string
	formals  []*Ty
	variadic bool
	results  []*Ty
	resNames []string // named results ("" = unnamed)
	body     X
}

type instReq struct {
	gt   *GType
	gf   *GFunc
	args []*Ty
	name string
}

// G is the state of one program generation.
type G struct {
	*progen.G
	gtypes    []*GType
	gfuncs    []*GFunc
	named     []*Ty
	list      *GType
	listFuncs []*GFunc
	pkgVars   []lvar // package-level variables read and written by template bodies and by the entry function
	tinst     map[string]string
	finst     map[string]string
	pending   []instReq
	argKeys   map[string]map[string]bool // template name -> distinct argument lists
	compArg   map[string]bool            // template name -> instantiated with a composite argument
}

func (g *G) instKey(name string, args []*Ty) string {
	s := &side{g: g, spec: true, canon: true}
	parts := make([]string, len(args))
	for i, a := range args {
		parts[i] = a.R(s)
	}
	return name + "<" + strings.Join(parts, ",") + ">"
}

func (g *G) noteInst(name string, key string, args []*Ty) {
	if g.argKeys[name] == nil {
		g.argKeys[name] = map[string]bool{}
	}
	g.argKeys[name][key] = true
	for _, a := range args {
		if a.k != 'b' {
			g.compArg[name] = true
		}
	}
}

// typeInst returns the mangled name of the specialised copy of gt for the closed args.
func (g *G) typeInst(gt *GType, args []*Ty) string {
	key := g.instKey(gt.name, args)
	if n, ok := g.tinst[key]; ok {
		return n
	}
	n := fmt.Sprintf("%s_i%d", gt.name, len(g.tinst)+1)
	g.tinst[key] = n
	g.noteInst(gt.name, key, args)
	g.pending = append(g.pending, instReq{gt: gt, args: args, name: n})
	return n
}

func (g *G) funcInst(gf *GFunc, args []*Ty) string {
	key := g.instKey(gf.name, args)
	if n, ok := g.finst[key]; ok {
		return n
	}
	n := fmt.Sprintf("%s_i%d", gf.name, len(g.finst)+1)
	g.finst[key] = n
	g.noteInst(gf.name, key, args)
	g.pending = append(g.pending, instReq{gf: gf, args: args, name: n})
	return n
}

// fref renders a reference to an instance of gf.
func fref(gf *GFunc, args []*Ty) X {
	return func(s *side) string {
		if !s.spec {
			parts := make([]string, len(args))
			for i, a := range args {
				parts[i] = a.R(s)
			}
			return gf.name + "#[" + strings.Join(parts, ", ") + "]"
		}
		closed := make([]*Ty, len(args))
		for i, a := range args {
			closed[i] = subst(a, s.env)
		}
		return s.g.funcInst(gf, closed)
	}
}

func (gf *GFunc) signature() X {
	return func(s *side) string {
		var b strings.Builder
		b.WriteString("(")
		for i, f := range gf.formals {
			if i > 0 {
				b.WriteString(", ")
			}
			b.WriteString(gf.fnames[i] + " ")
			if gf.variadic && i == len(gf.formals)-1 {
				b.WriteString("..." + f.el[0].R(s))
			} else {
				b.WriteString(f.R(s))
			}
		}
		b.WriteString(")")
		if len(gf.results) > 0 {
			b.WriteString(" (")
			for i, r := range gf.results {
				if i > 0 {
					b.WriteString(", ")
				}
				if gf.resNames != nil {
					b.WriteString(gf.resNames[i] + " ")
				}
				b.WriteString(r.R(s))
			}
			b.WriteString(")")
		}
		return b.String()
	}
}

// ---------------------------------------------------------------- closed types

var basicPool = []string{"int", "int", "string", "bool", "float64", "int8", "uint8", "int16", "uint16", "int32", "uint32",
	"int64", "uint64", "uint", "float32", "complex64", "byte", "rune", "uintptr"}

// closedType draws a closed type of the given class.
func (g *G) closedType(class int, d int) *Ty {
	for try := 0; try < 40; try++ {
		t := g.closedType1(class, d)
		if hasClass(t, class) {
			return t
		}
	}
	if class == cAny || class == cComparable {
		return tString
	}
	return tInt
}

func (g *G) closedType1(class int, d int) *Ty {
	if class >= cOrdered || d <= 0 || g.Chance(11, 20, "ct-basic") {
		if len(g.named) > 0 && g.Chance(1, 8, "ct-named") {
			return g.named[g.Pick(len(g.named), "ct-named-which")]
		}
		return basic(basicPool[g.Pick(len(basicPool), "ct-basic-which")])
	}
	switch g.Pick(10, "ct-kind") {
	case 0, 1:
		return sliceOf(g.closedType(cAny, d-1))
	case 2:
		return arrayOf(g.Int(0, 3, "ct-alen"), g.closedType(class, d-1))
	case 3:
		return mapOf(g.closedType(cComparable, 0), g.closedType(cAny, d-1))
	case 4:
		return ptrTo(g.closedType(cAny, d-1))
	case 5:
		n := g.Int(1, 3, "ct-nfields")
		names := []string{"A", "B", "C"}[:n]
		ts := make([]*Ty, n)
		for i := range ts {
			ts[i] = g.closedType(class, d-1)
		}
		return structOf(names, ts)
	case 6:
		np := g.Int(0, 2, "ct-fparams")
		ps := make([]*Ty, np)
		for i := range ps {
			ps[i] = g.closedType(cAny, 0)
		}
		var rs []*Ty
		if g.Chance(3, 4, "ct-fres") {
			rs = []*Ty{g.closedType(cAny, d-1)}
		}
		return funcOf(ps, rs)
	case 7:
		if class == cAny {
			return tIface
		}
		return chanOf(g.closedType(cAny, 0))
	case 8:
		return chanOf(g.closedType(cAny, 0))
	default:
		// instance of a generic type as argument
		if len(g.gtypes) > 0 {
			gt := g.gtypes[g.Pick(len(g.gtypes), "ct-inst")]
			args := make([]*Ty, len(gt.params))
			for i := range args {
				args[i] = g.closedType(gt.class[i], d-1)
			}
			return instOf(gt, args...)
		}
		return sliceOf(g.closedType(cAny, d-1))
	}
}

// recordable: values of t may be handed to rec.E (no value of a recursive generic type inside).
func recordable(t *Ty) bool { return recordable1(t, 0) }

func recordable1(t *Ty, depth int) bool {
	if depth > 6 {
		return false
	}
	switch t.k {
	case 'i':
		if t.gt.rec {
			return false
		}
		for _, a := range t.el {
			if !recordable1(a, depth+1) {
				return false
			}
		}
		return recordable1(t.gt.under, depth+1)
	case 'n':
		return recordable1(t.under, depth+1)
	case 'f':
		return true
	}
	for _, e := range t.el {
		if !recordable1(e, depth+1) {
			return false
		}
	}
	return true
}

// ---------------------------------------------------------------- function bodies

type tparam struct {
	name  string
	class int
	ty    *Ty
}

type lvar struct {
	name string
	t    *Ty
	ro   bool
}

type fctx struct {
	g       *G
	tps     []tparam
	scopes  [][]lvar
	budget  int
	depth   int // block nesting
	cdepth  int // closure nesting
	maxFn   int // only g.gfuncs[:maxFn] may be called (no polymorphic recursion)
	results []*Ty
	named   bool // results are named: bare return
	inLoop  bool
}

func (fc *fctx) push()          { fc.scopes = append(fc.scopes, nil) }
func (fc *fctx) pop()           { fc.scopes = fc.scopes[:len(fc.scopes)-1] }
func (fc *fctx) declare(v lvar) { fc.scopes[len(fc.scopes)-1] = append(fc.scopes[len(fc.scopes)-1], v) }

func (fc *fctx) vars(pred func(lvar) bool) []lvar {
	var out []lvar
	seen := map[string]bool{}
	for i := len(fc.scopes) - 1; i >= 0; i-- {
		for j := len(fc.scopes[i]) - 1; j >= 0; j-- {
			v := fc.scopes[i][j]
			if seen[v.name] {
				continue
			}
			seen[v.name] = true
			if pred == nil || pred(v) {
				out = append(out, v)
			}
		}
	}
	return out
}

func (fc *fctx) varsOf(t *Ty, writable bool) []lvar {
	k := t.key()
	return fc.vars(func(v lvar) bool { return v.t.key() == k && !(writable && v.ro) })
}

func (fc *fctx) pickVar(vs []lvar, label string) lvar { return vs[fc.g.Pick(len(vs), label)] }

// classOf: class of an open or closed type inside this function.
func (fc *fctx) classOK(t *Ty, class int) bool {
	if t.k == 'p' {
		return implies(fc.tps[t.idx].class, class)
	}
	if t.open() {
		switch t.k {
		case '*', 'c':
			return class <= cComparable
		}
		return class == cAny
	}
	return hasClass(t, class)
}

// drawType draws a type usable inside this function: built from its type parameters
// when it has some, closed otherwise.
func (fc *fctx) drawType(d int) *Ty {
	g := fc.g
	if len(fc.tps) == 0 || g.Chance(1, 6, "dt-closed") {
		return g.closedType(cAny, d)
	}
	p := fc.tps[g.Pick(len(fc.tps), "dt-param")]
	if d <= 0 || g.Chance(2, 5, "dt-bare") {
		return p.ty
	}
	switch g.Pick(10, "dt-kind") {
	case 0, 1, 2:
		return sliceOf(fc.drawType(d - 1))
	case 3:
		var k *Ty
		var ks []tparam
		for _, q := range fc.tps {
			if implies(q.class, cComparable) {
				ks = append(ks, q)
			}
		}
		if len(ks) > 0 && g.Chance(2, 3, "dt-mapkey-param") {
			k = ks[g.Pick(len(ks), "dt-mapkey")].ty
		} else {
			k = basic(g.OneOf("dt-mapkey-basic", "string", "int", "bool", "uint8"))
		}
		return mapOf(k, fc.drawType(d-1))
	case 4:
		return ptrTo(fc.drawType(d - 1))
	case 5:
		return arrayOf(g.Int(1, 3, "dt-alen"), fc.drawType(d-1))
	case 6:
		ps := []*Ty{p.ty}
		if g.Chance(1, 3, "dt-f2") {
			ps = append(ps, fc.drawType(0))
		}
		var rs []*Ty
		switch g.Pick(3, "dt-fres") {
		case 0:
			rs = []*Ty{fc.drawType(d - 1)}
		case 1:
			rs = []*Ty{tBool}
		}
		return funcOf(ps, rs)
	case 7:
		return structOf([]string{"A", "B"}, []*Ty{fc.drawType(d - 1), g.closedType(cAny, 0)})
	default:
		if len(g.gtypes) > 0 {
			gt := g.gtypes[g.Pick(len(g.gtypes), "dt-inst")]
			args := make([]*Ty, len(gt.params))
			for i := range args {
				args[i] = fc.typeOfClass(gt.class[i], d-1)
			}
			return instOf(gt, args...)
		}
		return sliceOf(p.ty)
	}
}

// typeOfClass draws a type of the class, preferring the function's own parameters.
func (fc *fctx) typeOfClass(class int, d int) *Ty {
	g := fc.g
	var cands []*Ty
	for _, p := range fc.tps {
		if implies(p.class, class) {
			cands = append(cands, p.ty)
		}
	}
	if len(cands) > 0 && g.Chance(3, 4, "toc-param") {
		return cands[g.Pick(len(cands), "toc-which")]
	}
	if class == cAny && len(fc.tps) > 0 && d > 0 && g.Chance(1, 2, "toc-composite") {
		return fc.drawType(d)
	}
	return g.closedType(class, d)
}

func (g *G) basicLit(name string) string {
	switch name {
	case "bool":
		return g.OneOf("lit-bool", "true", "false")
	case "string":
		return g.OneOf("lit-str", `""`, `"a"`, `"ab"`, `"héé"`, `"zz"`, "`r`")
	case "float32", "float64":
		return name + "(" + g.OneOf("lit-float", "1.5", "-0.25", "2", "0", "100.125", "-3") + ")"
	case "complex64", "complex128":
		return name + "(" + g.OneOf("lit-complex", "1+2i", "0", "-1.5i", "2.5", "-2-0.5i") + ")"
	case "int":
		return g.OneOf("lit-int", "0", "1", "2", "3", "7", "(-1)", "(-5)", "100")
	case "int8":
		return "int8(" + g.OneOf("lit-int8", "0", "1", "-1", "127", "-128", "5") + ")"
	case "int16":
		return "int16(" + g.OneOf("lit-int16", "0", "1", "-1", "32767", "-32768", "300") + ")"
	case "int32", "rune":
		return name + "(" + g.OneOf("lit-int32", "0", "1", "-1", "2147483647", "-2147483648", "65") + ")"
	case "int64":
		return "int64(" + g.OneOf("lit-int64", "0", "1", "-1", "9223372036854775807", "-9223372036854775808", "1234567") + ")"
	case "uint8", "byte":
		return name + "(" + g.OneOf("lit-uint8", "0", "1", "255", "128", "7") + ")"
	case "uint16":
		return "uint16(" + g.OneOf("lit-uint16", "0", "1", "65535", "40000") + ")"
	case "uint32":
		return "uint32(" + g.OneOf("lit-uint32", "0", "1", "4294967295", "70000") + ")"
	case "uint64", "uint", "uintptr":
		return name + "(" + g.OneOf("lit-uint64", "0", "1", "18446744073709551615", "9223372036854775808", "12") + ")"
	}
	panic("basicLit: " + name)
}

// expr builds an expression of type t from the variables in scope, by construction
// otherwise. d bounds the depth.
func (fc *fctx) expr(t *Ty, d int) X {
	g := fc.g
	if vs := fc.varsOf(t, false); len(vs) > 0 && g.Chance(7, 10, "e-var") {
		return lit(fc.pickVar(vs, "e-var-which").name)
	}
	if d > 0 && g.Chance(1, 4, "e-derived") {
		if x := fc.derived(t, d); x != nil {
			return x
		}
	}
	return fc.construct(t, t, d)
}

// derived: field of a struct variable, call of a function variable, dereference.
func (fc *fctx) derived(t *Ty, d int) X {
	g := fc.g
	k := t.key()
	var cands []X
	for _, v := range fc.vars(nil) {
		v := v
		u := v.t.resolve()
		switch u.k {
		case 'S':
			for i, ft := range u.el {
				if ft.key() == k {
					cands = append(cands, lit(v.name+"."+u.fields[i]))
				}
			}
		case 'f':
			if false && u.nres == 1 && u.results()[0].key() == k && !u.variadic && len(cands) < 6 {
				ps := u.params()
				args := make([]X, len(ps))
				okArgs := true
				for i, p := range ps {
					if p.key() == k && d <= 1 {
						okArgs = false
						break
					}
					args[i] = fc.expr(p, d-1)
				}
				if okArgs {
					cands = append(cands, cat(v.name, "(", args, ")"))
				}
			}
		case 'a':
			if u.n > 0 && u.el[0].key() == k {
				cands = append(cands, lit(fmt.Sprintf("%s[%d]", v.name, u.n-1)))
			}
		}
	}
	if len(cands) == 0 {
		return nil
	}
	return cands[g.Pick(len(cands), "e-derived-which")]
}

// construct builds a value of type tt whose structure is that of t.
func (fc *fctx) construct(tt, t *Ty, d int) X {
	g := fc.g
	if nilable(t) && refersRec(t) && (d <= 0 || g.Chance(1, 3, "e-rec-zero")) {
		// T(nil) with T mentioning a recursive type fails in gomacro for plain recursive
		// types as well (not a generics matter): the zero value is spelled *new(T)
		return cat("*new(", tt, ")")
	}
	switch t.k {
	case 'n', 'i':
		u := t.resolve()
		switch u.k {
		case 'S', 's', 'a', 'm':
			return fc.construct(tt, u, d)
		}
		return cat(tt, "(", fc.construct(u, u, d), ")")
	case 'b':
		if t.name == "int" && g.Chance(1, 3, "e-len") {
			vs := fc.vars(func(v lvar) bool {
				k := v.t.resolve().k
				return k == 's' || k == 'm' || k == 'a' || (k == 'b' && v.t.resolve().name == "string")
			})
			if len(vs) > 0 {
				return lit("len(" + fc.pickVar(vs, "e-len-which").name + ")")
			}
		}
		if t.name == "bool" && g.Chance(1, 2, "e-cmp") {
			if x := fc.compare(); x != nil {
				return x
			}
		}
		return lit(g.basicLit(t.name))
	case 'e':
		vs := fc.vars(func(v lvar) bool { return recordable(v.t) && v.t.resolve().k != 'f' })
		if len(vs) > 0 && g.Chance(2, 3, "e-iface-var") {
			return lit("interface{}(" + fc.pickVar(vs, "e-iface-which").name + ")")
		}
		return lit("interface{}(" + g.basicLit(g.OneOf("e-iface-basic", "int", "string", "bool", "float64")) + ")")
	case 'p':
		class := fc.tps[t.idx].class
		vs := fc.varsOf(t, false)
		if len(vs) > 0 && class >= cOrdered && d > 0 {
			a, b := fc.pickVar(vs, "e-op-a").name, fc.pickVar(vs, "e-op-b").name
			var ops []string
			switch class {
			case cOrdered:
				ops = []string{"+"}
			case cNumeric:
				ops = []string{"+", "-", "*"}
			case cInteger:
				ops = []string{"+", "-", "*", "&", "|", "^", "&^"}
			}
			return lit("(" + a + " " + ops[g.Pick(len(ops), "e-op")] + " " + b + ")")
		}
		return cat("*new(", tt, ")")
	case 's':
		switch {
		case d <= 0 || g.Chance(1, 5, "e-slice-empty"):
			if g.Bool("e-slice-nil") && !refersRec(t) {
				return cat("(", tt, ")(nil)")
			}
			return cat(tt, "{}")
		case g.Chance(1, 4, "e-slice-make"):
			return cat("make(", tt, ", ", g.Int(0, 3, "e-make-len"), ")")
		}
		n := g.Int(1, 3, "e-slice-n")
		es := make([]X, n)
		for i := range es {
			es[i] = fc.expr(t.el[0], d-1)
		}
		return cat(tt, "{", es, "}")
	case 'a':
		n := 0
		if d > 0 && t.n > 0 {
			n = g.Int(0, t.n, "e-array-n")
		}
		es := make([]X, n)
		for i := range es {
			es[i] = fc.expr(t.el[0], d-1)
		}
		return cat(tt, "{", es, "}")
	case 'm':
		if d <= 0 || g.Chance(1, 3, "e-map-empty") {
			if g.Chance(1, 4, "e-map-nil") && !refersRec(t) {
				return cat("(", tt, ")(nil)")
			}
			return cat(tt, "{}")
		}
		// one entry only: duplicate constant keys are a compile error in Go
		return cat(tt, "{", fc.expr(t.el[0], d-1), ": ", fc.expr(t.el[1], d-1), "}")
	case '*':
		if vs := fc.varsOf(t.el[0], true); len(vs) > 0 && g.Chance(1, 2, "e-addr") {
			return lit("&" + fc.pickVar(vs, "e-addr-which").name)
		}
		if refersRec(t) && d <= 0 {
			return cat("*new(", tt, ")")
		}
		if (d <= 0 || g.Chance(1, 4, "e-ptr-nil")) && !refersRec(t) {
			return cat("(", tt, ")(nil)")
		}
		if g.Bool("e-new") {
			return cat("new(", t.el[0], ")")
		}
		return cat("func() ", tt, " { pv := ", fc.expr(t.el[0], d-1), "; return &pv }()")
	case 'c':
		if g.Chance(1, 4, "e-chan-nil") && !refersRec(t) {
			return cat("(", tt, ")(nil)")
		}
		return cat("make(", tt, ", ", g.Int(0, 2, "e-chan-cap"), ")")
	case 'S':
		es := make([]X, len(t.el))
		for i, ft := range t.el {
			es[i] = fc.expr(ft, d-1)
		}
		if g.Chance(1, 3, "e-struct-keyed") {
			parts := []interface{}{tt, "{"}
			for i, e := range es {
				if i > 0 {
					parts = append(parts, ", ")
				}
				parts = append(parts, t.fields[i]+": ", e)
			}
			return cat(append(parts, "}")...)
		}
		if g.Chance(1, 8, "e-struct-zero") {
			return cat(tt, "{}")
		}
		return cat(tt, "{", es, "}")
	case 'f':
		fc.push()
		ps := t.params()
		var sig strings.Builder
		parts := []interface{}{"func("}
		for i, p := range ps {
			name := g.Local("q")
			if i > 0 {
				parts = append(parts, ", ")
			}
			if t.variadic && i == len(ps)-1 {
				parts = append(parts, name+" ...", p)
				fc.declare(lvar{name, sliceOf(p), true})
			} else {
				parts = append(parts, name+" ", p)
				fc.declare(lvar{name, p, true})
			}
		}
		_ = sig
		parts = append(parts, ") ")
		rs := t.results()
		switch len(rs) {
		case 0:
			parts = append(parts, "{}")
		case 1:
			parts = append(parts, rs[0], " { return ", fc.expr(rs[0], d-1), " }")
		default:
			parts = append(parts, "(", typeList(rs), ") { return ")
			for i, r := range rs {
				if i > 0 {
					parts = append(parts, ", ")
				}
				parts = append(parts, fc.expr(r, d-1))
			}
			parts = append(parts, " }")
		}
		fc.pop()
		return cat(parts...)
	}
	panic("construct: kind " + string(t.k))
}

func typeList(ts []*Ty) X {
	return func(s *side) string {
		parts := make([]string, len(ts))
		for i, t := range ts {
			parts[i] = t.R(s)
		}
		return strings.Join(parts, ", ")
	}
}

// compare builds a boolean from two variables of one comparable / ordered type.
func (fc *fctx) compare() X {
	g := fc.g
	vs := fc.vars(func(v lvar) bool { return fc.classOK(v.t, cComparable) && v.t.k != 'e' })
	if len(vs) == 0 {
		return nil
	}
	a := fc.pickVar(vs, "cmp-a")
	same := fc.varsOf(a.t, false)
	b := fc.pickVar(same, "cmp-b")
	ops := []string{"==", "!="}
	if fc.classOK(a.t, cOrdered) {
		ops = append(ops, "<", "<=", ">", ">=")
	}
	return lit("(" + a.name + " " + ops[g.Pick(len(ops), "cmp-op")] + " " + b.name + ")")
}

// record emits rec.E of an event number and up to 3 recordable variables.
func (fc *fctx) record() X {
	g := fc.g
	args := []string{fmt.Sprint(g.Ev())}
	vs := fc.vars(func(v lvar) bool { return recordable(v.t) })
	for n := 0; n < 3 && len(vs) > 0; n++ {
		if n > 0 && !g.Chance(2, 3, "rec-more") {
			break
		}
		args = append(args, fc.pickVar(vs, "rec-var").name)
	}
	return lit("rec.E(" + strings.Join(args, ", ") + ")\n")
}

func (fc *fctx) block(n int) X {
	fc.push()
	fc.depth++
	var parts []interface{}
	for i := 0; i < n && fc.budget > 0; i++ {
		parts = append(parts, fc.stmt())
	}
	fc.depth--
	fc.pop()
	body := cat(parts...)
	return func(s *side) string { return progen.Indent(body(s)) }
}

// newVar declares name := e and marks it used.
func (fc *fctx) newVar(base string, t *Ty, e X) X {
	name := fc.g.Local(base)
	x := cat(name, " := ", e, "\n_ = ", name, "\n")
	fc.declare(lvar{name, t, false})
	return x
}

func (fc *fctx) stmt() X {
	g := fc.g
	fc.budget--
	d := 2
	if fc.depth > 3 {
		return fc.record()
	}
	switch g.Pick(26, "stmt") {
	case 0, 1, 2:
		t := fc.drawType(2)
		return fc.newVar("v", t, fc.expr(t, d))
	case 3:
		vs := fc.vars(func(v lvar) bool { return !v.ro })
		if len(vs) == 0 {
			return fc.record()
		}
		v := fc.pickVar(vs, "assign-var")
		return cat(v.name, " = ", fc.expr(v.t, d), "\n")
	case 4:
		vs := fc.vars(func(v lvar) bool { return !v.ro && v.t.resolve().k == 's' })
		if len(vs) == 0 {
			return fc.record()
		}
		v := fc.pickVar(vs, "append-var")
		el := v.t.resolve().el[0]
		n := g.Int(1, 2, "append-n")
		es := make([]X, n)
		for i := range es {
			es[i] = fc.expr(el, 1)
		}
		return cat(v.name, " = append(", v.name, ", ", es, ")\n")
	case 5:
		vs := fc.vars(func(v lvar) bool { return v.t.resolve().k == 'm' })
		if len(vs) == 0 {
			return fc.record()
		}
		v := fc.pickVar(vs, "map-var")
		u := v.t.resolve()
		switch g.Pick(3, "map-op") {
		case 0:
			// a store into a nil map panics identically on both sides
			return cat(v.name, "[", fc.expr(u.el[0], 1), "] = ", fc.expr(u.el[1], 1), "\n")
		case 1:
			return cat("delete(", v.name, ", ", fc.expr(u.el[0], 1), ")\n")
		default:
			a, ok := g.Local("mv"), g.Local("ok")
			x := cat(a, ", ", ok, " := ", v.name, "[", fc.expr(u.el[0], 1), "]\n_ = ", a, "\n_ = ", ok, "\n")
			fc.declare(lvar{a, u.el[1], false})
			fc.declare(lvar{ok, tBool, false})
			return x
		}
	case 6, 7, 8:
		return fc.record()
	case 9:
		cond := fc.construct(tBool, tBool, 1)
		then := fc.block(g.Int(1, 3, "if-n"))
		if g.Bool("if-else") {
			return cat("if ", cond, " {\n", then, "} else {\n", fc.block(g.Int(1, 2, "else-n")), "}\n")
		}
		return cat("if ", cond, " {\n", then, "}\n")
	case 10:
		i := g.Local("i")
		fc.push()
		fc.declare(lvar{i, tInt, true})
		body := fc.block(g.Int(1, 3, "for-n"))
		fc.pop()
		return cat("for ", i, " := 0; ", i, " < ", g.Int(1, 3, "for-bound"), "; ", i, "++ {\n", body, "}\n")
	case 11:
		vs := fc.vars(func(v lvar) bool { k := v.t.resolve().k; return k == 's' || k == 'a' })
		if len(vs) == 0 {
			return fc.record()
		}
		v := fc.pickVar(vs, "range-var")
		i, e := g.Local("i"), g.Local("e")
		fc.push()
		fc.declare(lvar{i, tInt, true})
		fc.declare(lvar{e, v.t.resolve().el[0], false})
		body := fc.block(g.Int(1, 2, "range-n"))
		fc.pop()
		return cat("for ", i, ", ", e, " := range ", v.name, " {\n\t_, _ = ", i, ", ", e, "\n", body, "}\n")
	case 12:
		// closure over the variables in scope, called once or twice
		if fc.cdepth >= 2 {
			return fc.record()
		}
		var rs []*Ty
		if g.Bool("clo-res") {
			rs = []*Ty{fc.drawType(1)}
		}
		name := g.Local("clo")
		g.Tag("body:closure")
		fc.cdepth++
		fc.push()
		body := fc.block(g.Int(1, 3, "clo-n"))
		var ret X = lit("")
		if len(rs) == 1 {
			ret = cat("\treturn ", fc.expr(rs[0], 1), "\n")
		}
		fc.pop()
		fc.cdepth--
		ft := funcOf(nil, rs)
		x := cat(name, " := func() ", typeList(rs), " {\n", body, ret, "}\n")
		fc.declare(lvar{name, ft, true})
		calls := g.Int(1, 2, "clo-calls")
		parts := []interface{}{x}
		for i := 0; i < calls; i++ {
			if len(rs) == 1 {
				parts = append(parts, fc.newVar("cr", rs[0], lit(name+"()")))
			} else {
				parts = append(parts, name+"()\n")
			}
		}
		return cat(parts...)
	case 13:
		if fc.cdepth > 0 && g.Bool("defer-skip") {
			return fc.record()
		}
		g.Tag("body:defer")
		return cat("defer func() {\n\t", fc.record(), "}()\n")
	case 14:
		// type switch / assertion with the static type of the boxed value and composites of it
		vs := fc.vars(func(v lvar) bool { k := v.t.resolve().k; return v.t.k != 'e' && k != 'e' && recordable(v.t) })
		if len(vs) == 0 {
			return fc.record()
		}
		v := fc.pickVar(vs, "ts-var")
		g.Tag("body:type-switch-or-assertion")
		if g.Bool("ts-assert") {
			a, ok := g.Local("as"), g.Local("ok")
			x := cat(a, ", ", ok, " := interface{}(", v.name, ").(", v.t, ")\n_ = ", a, "\n_ = ", ok, "\n")
			fc.declare(lvar{a, v.t, false})
			fc.declare(lvar{ok, tBool, false})
			return x
		}
		boxed := v.name
		if g.Chance(1, 3, "ts-slice") {
			boxed = "[]" + "interface{}{" + v.name + "}[0]"
		}
		ev1, ev2, ev3 := g.Ev(), g.Ev(), g.Ev()
		return cat("switch interface{}(", boxed, ").(type) {\ncase ", sliceOf(v.t), ":\n\trec.E(", ev1, ")\ncase ", v.t, ":\n\trec.E(", ev2,
			")\ndefault:\n\trec.E(", ev3, ")\n}\n")
	case 15:
		// local type built from the parameters
		name := g.Local("loc")
		g.Tag("body:local-type")
		ft := fc.drawType(1)
		st := structOf([]string{"X", "N"}, []*Ty{ft, tInt})
		lt := &Ty{k: 'n', name: name, under: st}
		decl := cat("type ", name, " ", st, "\n")
		return cat(decl, fc.newVar("lv", lt, fc.construct(lt, lt, 2)))
	case 16, 17, 18, 19:
		return fc.callGeneric()
	case 20:
		vs := fc.vars(func(v lvar) bool { return !v.ro && v.t.k != 'f' })
		if len(vs) == 0 {
			return fc.record()
		}
		v := fc.pickVar(vs, "ptr-var")
		p := g.Local("p")
		x := cat(p, " := &", v.name, "\n*", p, " = ", fc.expr(v.t, 1), "\n")
		fc.declare(lvar{p, ptrTo(v.t), false})
		return x
	case 24, 25:
		// call of a function value in scope, guarded: a call of a nil function is worded by
		// reflect in a way the recorder does not classify
		vs := fc.vars(func(v lvar) bool { u := v.t.resolve(); return u.k == 'f' && !u.variadic })
		if len(vs) == 0 {
			return fc.record()
		}
		v := fc.pickVar(vs, "fcall-var")
		u := v.t.resolve()
		args := make([]X, len(u.params()))
		for i, pt := range u.params() {
			args[i] = fc.expr(pt, 1)
		}
		call := cat(v.name, "(", args, ")")
		fc.push()
		var inner X
		switch u.nres {
		case 0:
			inner = cat("\t", call, "\n")
		case 1:
			r := fc.newVar("fr", u.results()[0], call)
			rec := fc.record()
			inner = func(s *side) string { return progen.Indent(r(s) + rec(s)) }
		default:
			names := make([]string, u.nres)
			for i := range names {
				names[i] = "_"
			}
			inner = cat("\t", strings.Join(names, ", "), " = ", call, "\n")
		}
		fc.pop()
		return cat("if ", v.name, " != nil {\n", inner, "}\n")
	case 21:
		if fc.depth > 0 && !fc.inLoop && fc.cdepth == 0 && g.Chance(1, 3, "early-return") {
			return fc.ret()
		}
		return fc.record()
	case 22:
		vs := fc.vars(func(v lvar) bool { return !v.ro && v.t.resolve().k == 'S' })
		if len(vs) == 0 {
			return fc.record()
		}
		v := fc.pickVar(vs, "field-var")
		u := v.t.resolve()
		i := g.Pick(len(u.el), "field-which")
		return cat(v.name, ".", u.fields[i], " = ", fc.expr(u.el[i], 1), "\n")
	default:
		vs := fc.vars(func(v lvar) bool { return !v.ro && v.t.resolve().k == 's' })
		if len(vs) == 0 {
			return fc.record()
		}
		v := fc.pickVar(vs, "index-var")
		i := g.Int(0, 2, "index-i")
		return cat("if len(", v.name, ") > ", i, " {\n\t", v.name, "[", i, "] = ", fc.expr(v.t.resolve().el[0], 1), "\n}\n")
	}
}

func (fc *fctx) ret() X {
	if fc.named || len(fc.results) == 0 {
		return lit("return\n")
	}
	es := make([]X, len(fc.results))
	for i, r := range fc.results {
		es[i] = fc.expr(r, 2)
	}
	return cat("return ", es, "\n")
}

// callGeneric instantiates one of the callable generic functions with type arguments
// built from the types at hand and calls it (directly, or through a function value).
func (fc *fctx) callGeneric() X {
	g := fc.g
	if fc.maxFn == 0 {
		return fc.record()
	}
	gf := g.gfuncs[g.Pick(fc.maxFn, "call-which")]
	if len(fc.tps) > 0 {
		g.Tag("site:inside-another-instance")
	}
	args := make([]*Ty, len(gf.params))
	for i := range args {
		args[i] = fc.typeOfClass(gf.class[i], 2)
	}
	return fc.callInstance(gf, args)
}

func (fc *fctx) callInstance(gf *GFunc, args []*Ty) X {
	g := fc.g
	var actual []X
	for i, f := range gf.formals {
		ft := subst(f, args)
		if gf.variadic && i == len(gf.formals)-1 {
			el := ft.el[0]
			// no call without variadic arguments: gomacro passes an empty non-nil slice where Go
			// passes nil, for plain functions as well (not a generics matter)
			switch g.Pick(3, "call-variadic") {
			case 0:
				actual = append(actual, fc.expr(el, 1), fc.expr(el, 1))
			case 1:
				actual = append(actual, fc.expr(el, 1))
			default:
				actual = append(actual, cat(fc.expr(ft, 1), "..."))
			}
			continue
		}
		actual = append(actual, fc.expr(ft, 2))
	}
	var callee X = fref(gf, args)
	var pre X = lit("")
	if g.Chance(1, 5, "call-via-value") {
		fv := g.Local("fv")
		g.Tag("site:through-function-value")
		pre = cat(fv, " := ", callee, "\n")
		callee = lit(fv)
	}
	call := cat(callee, "(", actual, ")")
	switch len(gf.results) {
	case 0:
		return cat(pre, call, "\n")
	case 1:
		return cat(pre, fc.newVar("r", subst(gf.results[0], args), call))
	}
	names := make([]string, len(gf.results))
	var use strings.Builder
	for i, r := range gf.results {
		names[i] = g.Local("r")
		fc.declare(lvar{names[i], subst(r, args), false})
		use.WriteString("_ = " + names[i] + "\n")
	}
	return cat(pre, strings.Join(names, ", "), " := ", call, "\n", use.String())
}

// ---------------------------------------------------------------- declarations

var paramNames = []string{"T", "U", "V"}

func (g *G) drawClass() int {
	switch g.Pick(10, "class") {
	case 0, 1, 2, 3:
		return cAny
	case 4, 5:
		return cComparable
	case 6:
		return cOrdered
	case 7, 8:
		return cNumeric
	}
	return cInteger
}

func (g *G) genType() *GType {
	gt := &GType{name: g.Top("G")}
	np := g.Int(1, 3, "gt-np")
	if g.Chance(1, 2, "gt-np1") {
		np = 1
	}
	fc := &fctx{g: g, scopes: [][]lvar{nil}}
	for i := 0; i < np; i++ {
		gt.params = append(gt.params, paramNames[i])
		gt.class = append(gt.class, cAny)
		fc.tps = append(fc.tps, tparam{paramNames[i], cComparable, param(i, paramNames[i])})
	}
	// parameters are treated as comparable while drawing (map keys); the classes actually
	// required are computed from the result below
	self := make([]*Ty, np)
	for i := range self {
		self[i] = fc.tps[i].ty
	}
	switch g.Pick(8, "gt-shape") {
	case 0:
		gt.under = sliceOf(fc.drawType(1))
	case 1:
		gt.under = mapOf(basic("string"), fc.drawType(1))
	case 2:
		gt.under = funcOf([]*Ty{fc.tps[0].ty}, []*Ty{fc.tps[np-1].ty})
	case 3:
		gt.under = arrayOf(g.Int(1, 3, "gt-alen"), fc.tps[0].ty)
	default:
		n := g.Int(1, 4, "gt-nfields")
		names := []string{"First", "Second", "Third", "Fourth"}[:n]
		ts := make([]*Ty, n)
		for i := range ts {
			switch {
			case i < np:
				ts[i] = fc.tps[i].ty // every parameter is used
				if g.Chance(1, 3, "gt-field-composite") {
					ts[i] = sliceOf(ts[i])
				}
			default:
				ts[i] = fc.drawType(2)
			}
		}
		gt.under = structOf(names, ts)
	}
	needComparable(gt.under, gt.class)
	if refersRec(gt.under) {
		gt.rec = true
	}
	return gt
}

// needComparable marks the parameters used as map keys (directly or through an instance).
func needComparable(t *Ty, class []int) {
	switch t.k {
	case 'm':
		markComparable(t.el[0], class)
	case 'i':
		for i, a := range t.el {
			if i < len(t.gt.class) && t.gt.class[i] >= cComparable {
				markComparable(a, class)
			}
		}
	}
	for _, e := range t.el {
		needComparable(e, class)
	}
}

func markComparable(t *Ty, class []int) {
	if t.k == 'p' {
		if class[t.idx] < cComparable {
			class[t.idx] = cComparable
		}
		return
	}
	if t.k == 'a' || t.k == 'S' {
		for _, e := range t.el {
			markComparable(e, class)
		}
	}
}

func nilable(t *Ty) bool {
	switch t.k {
	case 's', 'm', '*', 'c', 'f':
		return true
	}
	return false
}

func refersRec(t *Ty) bool {
	if t.k == 'i' && t.gt.rec {
		return true
	}
	for _, e := range t.el {
		if refersRec(e) {
			return true
		}
	}
	return false
}

func (g *G) Known(id string) bool { return knownFn != nil && knownFn(id) }

var knownFn func(string) bool

func (g *G) genFunc() *GFunc {
	gf := &GFunc{name: g.Top("F")}
	np := g.Int(1, 3, "gf-np")
	if g.Chance(1, 2, "gf-np1") {
		np = 1
	}
	fc := &fctx{g: g, scopes: [][]lvar{g.pkgVars, nil}, budget: g.Int(3, 12, "gf-budget"), maxFn: len(g.gfuncs)}
	for i := 0; i < np; i++ {
		c := g.drawClass()
		gf.params = append(gf.params, paramNames[i])
		gf.class = append(gf.class, c)
		fc.tps = append(fc.tps, tparam{paramNames[i], c, param(i, paramNames[i])})
	}
	nf := g.Int(1, 4, "gf-nformals")
	for i := 0; i < nf; i++ {
		var t *Ty
		switch {
		case i < np && g.Chance(3, 4, "gf-formal-param"):
			t = fc.tps[i].ty
			if g.Chance(1, 3, "gf-formal-slice") {
				t = sliceOf(t)
			}
		default:
			t = fc.drawType(2)
		}
		name := g.Local("a")
		gf.fnames = append(gf.fnames, name)
		gf.formals = append(gf.formals, t)
		fc.declare(lvar{name, t, false})
	}
	if g.Chance(1, 6, "gf-variadic") {
		gf.variadic = true
		last := len(gf.formals) - 1
		el := gf.formals[last]
		gf.formals[last] = sliceOf(el)
		fc.scopes[1][last].t = gf.formals[last]
	}
	nr := g.Int(0, 2, "gf-nresults")
	if g.Chance(1, 2, "gf-one-result") {
		nr = 1
	}
	for i := 0; i < nr; i++ {
		var t *Ty
		if i == 0 && g.Chance(1, 2, "gf-result-param") {
			t = fc.tps[g.Pick(np, "gf-result-which")].ty
		} else {
			t = fc.drawType(2)
		}
		gf.results = append(gf.results, t)
	}
	fc.results = gf.results
	if nr > 0 && g.Chance(1, 4, "gf-named-results") {
		fc.named = true
		for i, t := range gf.results {
			name := fmt.Sprintf("res%d", i)
			gf.resNames = append(gf.resNames, name)
			fc.declare(lvar{name, t, false})
		}
	}
	// classes demanded by the formal and result types (map keys, instances)
	for _, t := range append(append([]*Ty{}, gf.formals...), gf.results...) {
		needComparable(t, gf.class)
	}
	for i := range fc.tps {
		if gf.class[i] > fc.tps[i].class {
			fc.tps[i].class = gf.class[i]
		}
	}
	var parts []interface{}
	for fc.budget > 0 {
		parts = append(parts, fc.stmt())
	}
	parts = append(parts, fc.record(), fc.ret())
	body := cat(parts...)
	gf.body = func(s *side) string { return progen.Indent(body(s)) }
	// types drawn inside the body may have used parameters as map keys
	return gf
}

// fixed shapes: recursion through the instance cache, mutual recursion, permuted arguments
func (g *G) genRecursive() []*GFunc {
	T, U := param(0, "T"), param(1, "U")
	var out []*GFunc
	switch g.Pick(3, "rec-shape") {
	case 0:
		gf := &GFunc{name: g.Top("R"), params: []string{"T"}, class: []int{cAny},
			fnames: []string{"n", "a", "acc"}, formals: []*Ty{tInt, T, sliceOf(T)}, results: []*Ty{sliceOf(T)}}
		ev := g.Ev()
		gf.body = cat("\tif n > 3 {\n\t\tn = 3\n\t}\n\trec.E(", ev, ", n, len(acc))\n\tif n <= 0 {\n\t\treturn acc\n\t}\n\treturn ", fref(gf, []*Ty{T}), "(n-1, a, append(acc, a))\n")
		out = append(out, gf)
	case 1:
		ev, od := &GFunc{name: g.Top("Ev"), params: []string{"T"}, class: []int{cAny}}, &GFunc{name: g.Top("Od"), params: []string{"T"}, class: []int{cAny}}
		for _, f := range []*GFunc{ev, od} {
			f.fnames = []string{"n", "v"}
			f.formals = []*Ty{tInt, T}
			f.results = []*Ty{tInt, T}
		}
		ev.body = cat("\tif n > 4 {\n\t\tn = 4\n\t}\n\tif n <= 0 {\n\t\treturn 0, v\n\t}\n\tk, w := ", fref(od, []*Ty{T}), "(n-1, v)\n\treturn k + 1, w\n")
		od.body = cat("\tif n > 4 {\n\t\tn = 4\n\t}\n\tif n <= 0 {\n\t\treturn 100, v\n\t}\n\tk, w := ", fref(ev, []*Ty{T}), "(n-1, v)\n\treturn k + 1, w\n")
		out = append(out, ev, od)
	default:
		gf := &GFunc{name: g.Top("Sw"), params: []string{"T", "U"}, class: []int{cAny, cAny},
			fnames: []string{"n", "a", "b"}, formals: []*Ty{tInt, T, U}, results: []*Ty{tInt}}
		e1 := g.Ev()
		gf.body = cat("\tif n > 3 {\n\t\tn = 3\n\t}\n\trec.E(", e1, ", n, a, b)\n\tif n <= 0 {\n\t\treturn 0\n\t}\n\treturn 1 + ", fref(gf, []*Ty{U, T}), "(n-1, b, a)\n")
		out = append(out, gf)
	}
	return out
}

// genList: a recursive generic type used only through the forms that gomacro handles
// for plain recursive types too (recursive types are emulated; corner cases with them are
// a documented limitation): &List#[T]{v, l}, l != nil, l.Rest, l.First.
func (g *G) genList() {
	T := param(0, "T")
	lt := &GType{name: g.Top("List"), params: []string{"T"}, class: []int{cAny}, rec: true}
	self := instOf(lt, T)
	lt.under = structOf([]string{"First", "Rest"}, []*Ty{T, ptrTo(self)})
	g.list = lt
	pl := ptrTo(self)
	push := &GFunc{name: g.Top("Push"), params: []string{"T"}, class: []int{cAny}, fnames: []string{"l", "v"}, formals: []*Ty{pl, T}, results: []*Ty{pl}}
	push.body = cat("\treturn &", self, "{v, l}\n")
	length := &GFunc{name: g.Top("Len"), params: []string{"T"}, class: []int{cAny}, fnames: []string{"l"}, formals: []*Ty{pl}, results: []*Ty{tInt}}
	length.body = lit("\tn := 0\n\tfor ; l != nil; l = l.Rest {\n\t\tn++\n\t}\n\treturn n\n")
	build := &GFunc{name: g.Top("Build"), params: []string{"T"}, class: []int{cAny}, fnames: []string{"vs"}, formals: []*Ty{sliceOf(T)}, results: []*Ty{pl}}
	build.body = cat("\tvar l ", pl, "\n\tfor _, v := range vs {\n\t\tl = ", fref(push, []*Ty{T}), "(l, v)\n\t}\n\trec.E(", g.Ev(), ", ", fref(length, []*Ty{T}), "(l))\n\treturn l\n")
	items := &GFunc{name: g.Top("Items"), params: []string{"T"}, class: []int{cAny}, fnames: []string{"l"}, formals: []*Ty{pl}, results: []*Ty{sliceOf(T)}}
	items.body = cat("\tvar out ", sliceOf(T), "\n\tfor ; l != nil; l = l.Rest {\n\t\tout = append(out, l.First)\n\t}\n\treturn out\n")
	g.listFuncs = []*GFunc{push, length, build, items}
	g.Tag("generic-type:recursive-list")
}

// Generate builds one case: the generic text (Decls) and its hand-specialised copy
// (Meta["spec"]), both rendered from the same templates.
func Generate(t *rapid.T, px string) gobatch.Program {
	g := &G{G: progen.New(t, px, 0), tinst: map[string]string{}, finst: map[string]string{},
		argKeys: map[string]map[string]bool{}, compArg: map[string]bool{}}
	var plain []X // non-generic declarations, in order
	// plain named types that can be type arguments
	for i, n := 0, g.Int(0, 2, "n-named"); i < n; i++ {
		var u *Ty
		if g.Bool("named-basic") {
			u = basic(g.OneOf("named-under", "int", "string", "float64", "uint8", "bool", "int16"))
		} else {
			u = structOf([]string{"A", "B"}, []*Ty{g.closedType(cComparable, 0), g.closedType(cAny, 1)})
		}
		nt := &Ty{k: 'n', name: g.Top("N"), under: u}
		g.named = append(g.named, nt)
		plain = append(plain, cat("type ", nt.name, " ", u))
	}
	// package-level variables: template bodies use them, so an instance must run in the
	// environment of the scope the template was declared in
	for i, n := 0, g.Int(1, 2, "n-pkgvars"); i < n; i++ {
		name := g.Top("W")
		var t *Ty
		var init string
		if i == 0 {
			t, init = tInt, fmt.Sprint(g.Int(1, 50, "pkgvar-int"))
		} else {
			t, init = sliceOf(tString), `[]string{"g"}`
		}
		g.pkgVars = append(g.pkgVars, lvar{name, t, false})
		plain = append(plain, cat("var ", name, " ", t, " = ", init))
	}
	nPrefix := len(plain)
	for i, n := 0, g.Int(0, 3, "n-gtypes"); i < n; i++ {
		g.gtypes = append(g.gtypes, g.genType())
	}
	if g.Chance(1, 3, "with-list") {
		g.genList()
	}
	if g.Chance(1, 3, "with-recursive") {
		g.gfuncs = append(g.gfuncs, g.genRecursive()...)
	}
	for i, n := 0, g.Int(1, 4, "n-gfuncs"); i < n; i++ {
		g.gfuncs = append(g.gfuncs, g.genFunc())
	}
	// a package-level variable initialised through an instance
	var globals []lvar
	if g.Chance(1, 3, "global-var") {
		// the initialiser runs outside any recover on the compiled side, so it goes through a
		// template that cannot panic
		T := param(0, "T")
		id := &GFunc{name: g.Top("Id"), params: []string{"T"}, class: []int{cAny}, fnames: []string{"a", "n"}, formals: []*Ty{T, tInt},
			results: []*Ty{T}, body: cat("\tif n > 0 {\n\t\tvar z ", T, "\n\t\treturn z\n\t}\n\treturn a\n")}
		g.gfuncs = append(g.gfuncs, id)
		fc := &fctx{g: g, scopes: [][]lvar{nil}}
		for i, n := 0, g.Int(1, 2, "n-globals"); i < n; i++ {
			arg := g.closedType(cAny, 2)
			name := g.Top("V")
			plain = append(plain, cat("var ", name, " ", arg, " = ", fref(id, []*Ty{arg}), "(", fc.construct(arg, arg, 2), ", ", g.Int(0, 1, "global-zero"), ")"))
			globals = append(globals, lvar{name, arg, false})
		}
		g.Tag("site:package-level-var")
	}
	// the entry function: instantiation sites at several closure depths
	entry := g.Top("Entry")
	fc := &fctx{g: g, scopes: [][]lvar{append(append([]lvar{}, g.pkgVars...), globals...), nil}, budget: g.Int(6, 22, "entry-budget"), maxFn: len(g.gfuncs)}
	var parts []interface{}
	for fc.budget > 0 {
		parts = append(parts, fc.siteStmt())
	}
	if g.list != nil {
		// the recursive list is used through variables only (constant arguments next to a
		// parameter of recursive type fail in gomacro for plain recursive types too)
		for i, n := 0, g.Int(1, 3, "list-uses"); i < n; i++ {
			arg := []*Ty{g.closedType(cAny, 2)}
			if arg[0].k == 'e' {
				// a nil interface stored into a recursive struct literal panics for plain
				// recursive types too
				arg[0] = tString
			}
			vs, l := g.Local("vs"), g.Local("l")
			st := sliceOf(arg[0])
			use := cat(vs, " := ", fc.construct(st, st, 2), "\n", l, " := ", fref(g.listFuncs[2], arg), "(", vs, ")\n",
				"rec.E(", g.Ev(), ", ", fref(g.listFuncs[1], arg), "(", l, "), ", fref(g.listFuncs[3], arg), "(", l, "))\n")
			if g.Bool("list-in-closure") {
				u := use
				use = func(s *side) string { return "func() {\n" + progen.Indent(u(s)) + "}()\n" }
			}
			parts = append(parts, use)
		}
	}
	parts = append(parts, fc.record())
	body := cat(parts...)
	plain = append(plain, func(s *side) string { return "func " + entry + "() {\n" + progen.Indent(body(s)) + "}" })

	p := gobatch.Program{Entry: entry, Meta: map[string]string{}}
	gs := &side{g: g}
	// generic side: plain named types, generic declarations, then variables and functions
	nNamed := nPrefix
	for _, x := range plain[:nNamed] {
		p.Decls = append(p.Decls, x(gs))
	}
	declTypes := g.gtypes
	if g.list != nil {
		declTypes = append([]*GType{g.list}, g.gtypes...)
	}
	for _, gt := range declTypes {
		p.Decls = append(p.Decls, "type "+gt.name+"#["+strings.Join(gt.params, ", ")+"] "+gt.under.R(gs))
	}
	for _, gf := range append(append([]*GFunc{}, g.listFuncs...), g.gfuncs...) {
		p.Decls = append(p.Decls, "func "+gf.name+"#["+strings.Join(gf.params, ", ")+"]"+gf.signature()(gs)+" {\n"+gf.body(gs)+"}")
	}
	for _, x := range plain[nNamed:] {
		p.Decls = append(p.Decls, x(gs))
	}
	// specialised side
	ss := &side{g: g, spec: true}
	var spec []string
	for _, x := range plain {
		spec = append(spec, x(ss))
	}
	for len(g.pending) > 0 {
		req := g.pending[0]
		g.pending = g.pending[1:]
		is := &side{g: g, spec: true, env: req.args}
		if req.gt != nil {
			spec = append(spec, "type "+req.name+" "+req.gt.under.R(is))
		} else {
			spec = append(spec, "func "+req.name+req.gf.signature()(is)+" {\n"+req.gf.body(is)+"}")
		}
		if len(spec) > 400 {
			break
		}
	}
	p.Meta["spec"] = strings.Join(spec, sepDecl)
	// non-trivial: some template instantiated with >= 2 distinct argument lists, one composite
	names := make([]string, 0, len(g.argKeys))
	for n := range g.argKeys {
		names = append(names, n)
	}
	sort.Strings(names)
	ninst := 0
	for _, n := range names {
		ninst += len(g.argKeys[n])
		if len(g.argKeys[n]) >= 2 && g.compArg[n] && p.NT == "" {
			p.NT = ">=2-argument-lists-one-composite"
		}
	}
	p.Meta["instances"] = fmt.Sprint(ninst)
	switch {
	case ninst == 0:
		g.Tag("instances:0")
	case ninst <= 3:
		g.Tag("instances:1-3")
	case ninst <= 8:
		g.Tag("instances:4-8")
	default:
		g.Tag("instances:9+")
	}
	for _, gt := range g.gtypes {
		if gt.rec {
			g.Tag("generic-type:recursive")
		}
		g.Tag("generic-type:" + string(gt.under.k))
	}
	p.Tags = g.TagList()
	return p
}

const sepDecl = "\n//--\n"

// siteStmt: statements of the entry function; favours instantiations, at several
// closure depths.
func (fc *fctx) siteStmt() X {
	g := fc.g
	switch g.Pick(11, "site") {
	case 0, 1, 2, 3, 4:
		fc.budget--
		g.Tag(fmt.Sprintf("site:closure-depth-%d", fc.cdepth))
		return fc.callGeneric()
	case 5, 10:
		if fc.cdepth >= 4 {
			return fc.stmt()
		}
		fc.budget--
		fc.cdepth++
		fc.push()
		var parts []interface{}
		for i, n := 0, g.Int(1, 4, "site-nest-n"); i < n && fc.budget > 0; i++ {
			parts = append(parts, fc.siteStmt())
		}
		fc.pop()
		fc.cdepth--
		body := cat(parts...)
		return func(s *side) string { return "func() {\n" + progen.Indent(body(s)) + "}()\n" }
	case 6:
		// memoisation seen from the program: a value made by one site is assigned to a
		// variable declared with the same instance at another site
		vs := fc.vars(func(v lvar) bool { return v.t.k == 'i' && !v.ro })
		if len(vs) == 0 {
			return fc.stmt()
		}
		fc.budget--
		v := fc.pickVar(vs, "memo-var")
		name := g.Local("same")
		g.Tag("memo:assign-across-sites")
		x := cat("var ", name, " ", v.t, " = ", v.name, "\n_ = ", name, "\n")
		fc.declare(lvar{name, v.t, false})
		return x
	default:
		return fc.stmt()
	}
}
