// C25: printing a syntax tree with gomacro's forked printer and reparsing it yields the
// same tree; printing the reparsed tree yields the same text again.
// Oracle: round trip (metamorphic) with the standard go/parser as reader and
// astx.Equal as comparator.
package c25

import (
	"bytes"
	"fmt"
	"go/ast"
	stdprinter "go/printer"
	"go/token"
	"os"
	"strings"
	"sync"
	"testing"

	"github.com/cosmos72/gomacro/base/output"
	"github.com/cosmos72/gomacro/fast"
	"github.com/cosmos72/gomacro/go/etoken"
	"github.com/cosmos72/gomacro/go/printer"
	"pgregory.net/rapid"

	"verif/harness/astx"
	"verif/harness/vlib"
)

var rec *vlib.Rec

func TestMain(m *testing.M) {
	rec = vlib.Open("C25")
	rec.Rule("cases = lists of declarations in one of two states. parsed: every non-generic file of a seed-dependent corpus sample (Go 1.23 standard library + /repo, standard parser, comments dropped) and rapid-generated syntactic trees (astx) turned into parsed Go by standard-printer + standard-parser; " +
		"built: the same declarations after fast.Comp.MacroExpandNodeCodewalk, i.e. in the form the interpreter's macro machinery hands to the printer (parentheses and trivial blocks removed). " +
		"Each case is printed through printer.Config.Fprint (whole file) and through base/output.Stringer (declaration by declaration, as WriteDeclsToStream does), reparsed with the standard parser, compared, printed again. " +
		"plus source texts assembled from templates that put literals of every kind with hostile content (raw TAB and other control bytes, backquoted strings with tabs/newlines, escapes, every number base, imaginary) into alignment-sensitive positions (const/var blocks, struct fields with tags, multi-line composite literals, consecutive statements, with and without trailing comments). " +
		"A declaration is non-trivial when printing it needs parentheses or layout decisions: it contains a ParenExpr, a function literal, a binary expression nested >= 3 deep, a composite literal inside an if/for/switch header, a struct tag, or a literal holding a control byte; distinct = distinct (file, declaration, state) or distinct generated source text")
	rec.Assume("reader of printed text: go/parser of Go 1.23.5 (the property's observation point); comparator: astx.Equal(Structural) after removing ParenExpr (parsed state) or after astx.Norm (built state: `else {s}`/`else s` and trivial blocks are the same tree for the interpreter)")
	rec.Assume("explicit empty statements are masked on both sides (go/printer deliberately does not print them, golang issue 3466); comments are dropped before printing (go/printer's comment placement is not idempotent in the standard library either)")
	rec.Assume("harness module built with godebug default=go1.18 (gomacro's own module setting)")
	os.Exit(vlib.Main(m, rec))
}

var config = printer.Config{Mode: printer.UseSpaces | printer.TabIndent, Tabwidth: 8} // the configuration base/output uses (and gofmt)

// ---------------------------------------------------------------- printing

type printFn struct {
	name string
	f    func(efs *etoken.FileSet, file *ast.File) (string, error)
}

func tryPrint(f func() (string, error)) (s string, err error) {
	defer func() {
		if p := recover(); p != nil {
			s, err = "", fmt.Errorf("printer panics: %v", p)
		}
	}()
	return f()
}

var printers = []printFn{
	{"printer.Config.Fprint(file)", func(efs *etoken.FileSet, file *ast.File) (string, error) {
		return tryPrint(func() (string, error) {
			var buf bytes.Buffer
			err := config.Fprint(&buf, &efs.FileSet, file)
			return buf.String(), err
		})
	}},
	{"output.Stringer per declaration", func(efs *etoken.FileSet, file *ast.File) (string, error) {
		return tryPrint(func() (string, error) {
			st := output.Stringer{Fileset: efs}
			var buf bytes.Buffer
			fmt.Fprintf(&buf, "package %s\n\n", file.Name.Name)
			for _, d := range file.Decls {
				s := st.Sprintf("%v", d)
				if strings.HasPrefix(s, "error pretty-printing") {
					return "", fmt.Errorf("Stringer: %.200s", s)
				}
				buf.WriteString(s)
				buf.WriteString("\n")
			}
			return buf.String(), nil
		})
	}},
}

// ---------------------------------------------------------------- normal forms

// dropEmpty removes EmptyStmt from statement lists (in place, on a private copy) and
// clears Implicit; returns how many were dropped.
func dropEmpty(n ast.Node) int {
	dropped := 0
	filter := func(l []ast.Stmt) []ast.Stmt {
		out := l[:0]
		for _, s := range l {
			if _, ok := s.(*ast.EmptyStmt); ok {
				dropped++
				continue
			}
			out = append(out, s)
		}
		return out
	}
	astx.Walk(n, func(c ast.Node) {
		switch c := c.(type) {
		case *ast.BlockStmt:
			c.List = filter(c.List)
		case *ast.CaseClause:
			c.Body = filter(c.Body)
		case *ast.CommClause:
			c.Body = filter(c.Body)
		case *ast.EmptyStmt:
			c.Implicit = false
		}
	})
	return dropped
}

func normalise(n ast.Node, built bool) ast.Node {
	var out ast.Node
	if built {
		out = astx.Norm(n)
	} else {
		out = astx.NormParens(n)
	}
	if k := dropEmpty(out); k > 0 {
		// after dropping, a block may have become trivial: normalise again in built state
		if built {
			out = astx.Norm(out)
		}
	}
	return out
}

// ---------------------------------------------------------------- known findings: exclusion by construction

var strict bool // replay mode: nothing is masked

func known(id string) bool { return !strict && rec.Known(id) }

func isTypeName(x ast.Expr) bool {
	switch t := x.(type) {
	case *ast.Ident:
		return true
	case *ast.SelectorExpr:
		return isTypeName(t.X)
	}
	return false
}

// bareLits collects the slots (pointers to expression fields) that hold a composite
// literal with a type *name* reachable from *slot without crossing a bracket pair:
// the literals whose `{` the parser takes for the start of a block in a statement header.
func bareLits(slot *ast.Expr, out *[]*ast.Expr) {
	switch x := (*slot).(type) {
	case *ast.CompositeLit:
		if isTypeName(x.Type) {
			*out = append(*out, slot)
		}
	case *ast.BinaryExpr:
		bareLits(&x.X, out)
		bareLits(&x.Y, out)
	case *ast.UnaryExpr:
		bareLits(&x.X, out)
	case *ast.StarExpr:
		bareLits(&x.X, out)
	case *ast.SelectorExpr:
		bareLits(&x.X, out)
	case *ast.IndexExpr:
		bareLits(&x.X, out)
	case *ast.SliceExpr:
		bareLits(&x.X, out)
	case *ast.TypeAssertExpr:
		bareLits(&x.X, out)
	case *ast.CallExpr:
		bareLits(&x.Fun, out)
	case *ast.KeyValueExpr:
		bareLits(&x.Key, out)
		bareLits(&x.Value, out)
	}
}

func stmtExprSlots(s ast.Stmt) []*ast.Expr {
	var out []*ast.Expr
	switch s := s.(type) {
	case *ast.ExprStmt:
		out = append(out, &s.X)
	case *ast.AssignStmt:
		for i := range s.Lhs {
			out = append(out, &s.Lhs[i])
		}
		for i := range s.Rhs {
			out = append(out, &s.Rhs[i])
		}
	case *ast.IncDecStmt:
		out = append(out, &s.X)
	case *ast.SendStmt:
		out = append(out, &s.Chan, &s.Value)
	}
	return out
}

// headerSlots: the expression slots printed between a keyword and the `{` of its block.
func headerSlots(n ast.Node) []*ast.Expr {
	var out []*ast.Expr
	switch s := n.(type) {
	case *ast.IfStmt:
		out = append(out, stmtExprSlots(s.Init)...)
		out = append(out, &s.Cond)
	case *ast.ForStmt:
		out = append(out, stmtExprSlots(s.Init)...)
		if s.Cond != nil {
			out = append(out, &s.Cond)
		}
		out = append(out, stmtExprSlots(s.Post)...)
	case *ast.RangeStmt:
		if s.Key != nil {
			out = append(out, &s.Key)
		}
		if s.Value != nil {
			out = append(out, &s.Value)
		}
		out = append(out, &s.X)
	case *ast.SwitchStmt:
		out = append(out, stmtExprSlots(s.Init)...)
		if s.Tag != nil {
			out = append(out, &s.Tag)
		}
	case *ast.TypeSwitchStmt:
		out = append(out, stmtExprSlots(s.Init)...)
		out = append(out, stmtExprSlots(s.Assign)...)
	}
	return out
}

// endsInBareFuncType: an array/slice or map type whose rightmost component is a function
// type without results; as conversion function `[]func()(x)` the argument list is read as
// the result list (the printer parenthesises only a FuncType itself and `*T`).
func endsInBareFuncType(x ast.Expr) bool {
	switch t := x.(type) {
	case *ast.ArrayType:
		return tailIsBareFunc(t.Elt)
	case *ast.MapType:
		return tailIsBareFunc(t.Value)
	}
	return false
}

func tailIsBareFunc(x ast.Expr) bool {
	switch t := x.(type) {
	case *ast.FuncType:
		return t.Results == nil
	case *ast.ArrayType:
		return tailIsBareFunc(t.Elt)
	case *ast.MapType:
		return tailIsBareFunc(t.Value)
	case *ast.StarExpr:
		return tailIsBareFunc(t.X)
	case *ast.ChanType:
		return tailIsBareFunc(t.Value)
	}
	return false
}

func sameUnary(op token.Token) bool {
	switch op {
	case token.ADD, token.SUB, token.AND:
		return true
	}
	return false
}

// reparen puts back, in a tree built by the macro-expansion walk, the parentheses whose
// loss is recorded as known findings, and counts them. What it repairs is exactly:
//
//	F-C25-1  composite literal with a type name, not enclosed in brackets, in an if/for/range/switch header
//	F-C25-2  channel type used as conversion function; `<-chan T` as element of a bidirectional or send channel type;
//	         slice/array/map type ending in a result-less function type used as conversion function (`[]func()(x)`);
//	         unary + - & applied to the same unary operator; pointer indirection `*` applied to a binary expression
//	F-C25-3  (in checkFile) the first print of a built tree is not a formatting fixed point
func reparen(n ast.Node) {
	k1, k2 := known("F-C25-1"), known("F-C25-2")
	if !k1 && !k2 {
		return
	}
	astx.Walk(n, func(c ast.Node) {
		if k1 {
			for _, slot := range headerSlots(c) {
				var lits []*ast.Expr
				bareLits(slot, &lits)
				for _, l := range lits {
					*l = &ast.ParenExpr{X: *l}
					rec.Excluded("F-C25-1")
				}
			}
		}
		if k2 {
			switch c := c.(type) {
			case *ast.CallExpr:
				if _, ok := c.Fun.(*ast.ChanType); ok || endsInBareFuncType(c.Fun) {
					c.Fun = &ast.ParenExpr{X: c.Fun}
					rec.Excluded("F-C25-2")
				}
			case *ast.ChanType:
				if v, ok := c.Value.(*ast.ChanType); ok && v.Dir == ast.RECV && c.Dir == ast.SEND|ast.RECV {
					c.Value = &ast.ParenExpr{X: v}
					rec.Excluded("F-C25-2")
				}
			case *ast.StarExpr:
				if _, ok := c.X.(*ast.BinaryExpr); ok {
					c.X = &ast.ParenExpr{X: c.X}
					rec.Excluded("F-C25-2")
				}
			case *ast.UnaryExpr:
				if in, ok := c.X.(*ast.UnaryExpr); ok && in.Op == c.Op && sameUnary(c.Op) {
					c.X = &ast.ParenExpr{X: in}
					rec.Excluded("F-C25-2")
				}
			}
		}
	})
}

// ---------------------------------------------------------------- the property on one list of declarations

// checkFile: file is a tree whose positions belong to efs. built selects the normal form.
func checkFile(efs *etoken.FileSet, file *ast.File, built bool) error {
	for _, pr := range printers {
		p1, err := pr.f(efs, file)
		if err != nil {
			return fmt.Errorf("%s: %v", pr.name, err)
		}
		efs2 := etoken.NewFileSet()
		f2, err := astx.ParseStd(&efs2.FileSet, "printed.go", []byte(p1))
		if err != nil {
			return fmt.Errorf("%s: printed text does not parse: %v\n--- printed text (excerpt) ---\n%s", pr.name, err, excerpt(p1, err))
		}
		if len(f2.Decls) != len(file.Decls) {
			return fmt.Errorf("%s: %d declarations printed, %d declarations parsed back", pr.name, len(file.Decls), len(f2.Decls))
		}
		if f2.Name.Name != file.Name.Name {
			return fmt.Errorf("%s: package name %q parsed back as %q", pr.name, file.Name.Name, f2.Name.Name)
		}
		for i := range file.Decls {
			want, got := normalise(file.Decls[i], built), normalise(f2.Decls[i], built)
			if err := astx.Equal(got, want, astx.Structural); err != nil {
				one, _ := pr.f(efs, &ast.File{Name: file.Name, Decls: file.Decls[i : i+1]})
				return fmt.Errorf("%s: declaration %d parses back to a different tree (reparsed vs original): %v\n--- printed text ---\n%.1500s", pr.name, i, err, one)
			}
		}
		p2, err := pr.f(efs2, f2)
		if err != nil {
			return fmt.Errorf("%s: second print: %v", pr.name, err)
		}
		if p2 != p1 {
			if !(built && known("F-C25-3")) {
				return fmt.Errorf("%s: printing the reparsed tree gives different text:\n%s", pr.name, firstDiff(p1, p2))
			}
			// known finding F-C25-3: stale positions in rebuilt trees influence the first
			// layout(s). Search on behind it: every further round must parse to the same
			// tree and the text must become a fixed point within maxRounds rounds.
			rec.Excluded("F-C25-3")
			const maxRounds = 4
			prevText, prevFile := p2, f2
			fixed := false
			for round := 3; round <= 2+maxRounds; round++ {
				efsN := etoken.NewFileSet()
				fN, err := astx.ParseStd(&efsN.FileSet, "printed.go", []byte(prevText))
				if err != nil {
					return fmt.Errorf("%s: text of print %d does not parse: %v", pr.name, round-1, err)
				}
				if len(fN.Decls) != len(prevFile.Decls) {
					return fmt.Errorf("%s: print %d parses back to %d declarations instead of %d", pr.name, round-1, len(fN.Decls), len(prevFile.Decls))
				}
				for i := range fN.Decls {
					if err := astx.Equal(normalise(fN.Decls[i], false), normalise(prevFile.Decls[i], false), astx.Structural); err != nil {
						return fmt.Errorf("%s: print %d of declaration %d parses back to a different tree: %v", pr.name, round-1, i, err)
					}
				}
				pN, err := pr.f(efsN, fN)
				if err != nil {
					return fmt.Errorf("%s: print %d: %v", pr.name, round, err)
				}
				if pN == prevText {
					fixed = true
					rec.Label(fmt.Sprintf("F-C25-3:fixed-point-at-print-%d", round-1))
					break
				}
				prevText, prevFile = pN, fN
			}
			if !fixed {
				return fmt.Errorf("%s: printing does not reach a fixed point within %d rounds", pr.name, 2+maxRounds)
			}
		}
	}
	return nil
}

func excerpt(text string, err error) string {
	// error text is "printed.go:LINE:COL: ..."
	var line, col int
	fmt.Sscanf(strings.TrimPrefix(err.Error(), "printed.go:"), "%d:%d", &line, &col)
	lines := strings.Split(text, "\n")
	lo, hi := line-4, line+2
	if lo < 0 {
		lo = 0
	}
	if hi > len(lines) {
		hi = len(lines)
	}
	return strings.Join(lines[lo:hi], "\n")
}

func firstDiff(a, b string) string {
	la, lb := strings.Split(a, "\n"), strings.Split(b, "\n")
	for i := 0; i < len(la) && i < len(lb); i++ {
		if la[i] != lb[i] {
			lo := i - 3
			if lo < 0 {
				lo = 0
			}
			return fmt.Sprintf("first difference at line %d\n--- first print ---\n%s\n--- second print ---\n%s", i+1,
				strings.Join(la[lo:min(i+3, len(la))], "\n"), strings.Join(lb[lo:min(i+3, len(lb))], "\n"))
		}
	}
	return fmt.Sprintf("texts have %d and %d lines; one is a prefix of the other", len(la), len(lb))
}

var (
	interpOnce sync.Once
	interp     *fast.Interp
)

func comp() *fast.Comp {
	interpOnce.Do(func() { interp = fast.New() })
	return interp.Comp
}

// expand pushes every declaration through the macro-expansion code walk (no macro is
// defined: the walk only rebuilds the tree and unwraps trivial nodes).
func expand(file *ast.File) (out *ast.File, err error) {
	defer func() {
		if p := recover(); p != nil {
			out, err = nil, fmt.Errorf("MacroExpandNodeCodewalk panics: %v", p)
		}
	}()
	out = &ast.File{Name: file.Name, Package: file.Package}
	for _, d := range file.Decls {
		n, _ := comp().MacroExpandNodeCodewalk(d)
		nd, ok := n.(ast.Decl)
		if !ok {
			return nil, fmt.Errorf("MacroExpandNodeCodewalk turned a %T into a %T", d, n)
		}
		out.Decls = append(out.Decls, nd)
	}
	return out, nil
}

// checkSource: the whole property on one source text. Returns (error, reason the text
// was skipped or "").
func checkSource(name string, src []byte, onDecl func(state string, idx int, d ast.Decl)) (error, string) {
	efs := etoken.NewFileSet()
	file, err := astx.ParseStd(&efs.FileSet, name, src)
	if err != nil {
		return nil, "skipped:std-parser-rejects"
	}
	if astx.IsGeneric(file) {
		return nil, "excluded:generic-file"
	}
	if onDecl != nil {
		for i, d := range file.Decls {
			onDecl("parsed", i, d)
		}
	}
	if err := checkFile(efs, file, false); err != nil {
		return fmt.Errorf("%s [parsed tree]: %v", name, err), ""
	}
	built, err := expand(file)
	if err != nil {
		return fmt.Errorf("%s: %v", name, err), ""
	}
	for _, d := range built.Decls {
		reparen(d)
	}
	if onDecl != nil {
		for i, d := range built.Decls {
			onDecl("built", i, d)
		}
	}
	if err := checkFile(efs, built, true); err != nil {
		return fmt.Errorf("%s [tree after the macro-expansion walk]: %v", name, err), ""
	}
	return nil, ""
}

// ---------------------------------------------------------------- non-trivial rule

func binDepth(e ast.Expr) int {
	if b, ok := e.(*ast.BinaryExpr); ok {
		return 1 + max(binDepth(b.X), binDepth(b.Y))
	}
	if p, ok := e.(*ast.ParenExpr); ok {
		return binDepth(p.X)
	}
	return 0
}

func classify(d ast.Decl) (labels []string) {
	seen := map[string]bool{}
	add := func(s string) {
		if !seen[s] {
			seen[s] = true
			labels = append(labels, s)
		}
	}
	astx.Walk(d, func(c ast.Node) {
		switch c := c.(type) {
		case *ast.ParenExpr:
			add("nt:paren-expr")
		case *ast.FuncLit:
			add("nt:func-literal")
		case *ast.BinaryExpr:
			if binDepth(c) >= 3 {
				add("nt:binary-depth>=3")
			}
		case *ast.Field:
			if c.Tag != nil {
				add("nt:struct-tag")
			}
		case *ast.BasicLit:
			for i := 0; i < len(c.Value); i++ {
				if b := c.Value[i]; b < 0x20 || b == 0x7f {
					add("nt:literal-with-control-byte")
					break
				}
			}
		}
		for _, slot := range headerSlots(c) {
			found := false
			astx.Walk(*slot, func(x ast.Node) {
				if _, ok := x.(*ast.CompositeLit); ok {
					found = true
				}
			})
			if found {
				add("nt:composite-literal-in-header")
			}
		}
	})
	return labels
}

// ---------------------------------------------------------------- replay

// A replay file is Go source text.
func replay(content []byte) error {
	// development aid: C25_REPLAY_MASKED=1 re-checks a file with the known-finding
	// exclusions switched on (to see whether anything lies behind them)
	strict = os.Getenv("C25_REPLAY_MASKED") == ""
	defer func() { strict = false }()
	err, _ := checkSource("replay.go", content, nil)
	if err == nil {
		err = checkWithComments("replay.go", content)
	}
	return err
}

func TestReplays(t *testing.T) { rec.RunReplays(t, replay) }

// ---------------------------------------------------------------- corpus

func TestCorpus(t *testing.T) {
	if rec.ReplayOnly() {
		return
	}
	// the sample plus, always, the corpus files with raw control bytes inside literals
	hostile := astx.ControlByteLiteralFiles()
	files := astx.Union(astx.Sample(astx.CorpusFiles(), rec.Seed(), rec.Scale(16, 1)), hostile)
	rec.Extra("corpus_files_selected", len(files))
	rec.Extra("corpus_files_with_control_byte_literals", len(hostile))
	for i, path := range files {
		if !rec.Mine(i) {
			continue
		}
		src, err := astx.ReadFile(path)
		if err != nil {
			t.Fatalf("corpus file: %v", err)
		}
		sampled := false
		err, skip := checkSource(path, src, func(state string, idx int, d ast.Decl) {
			rec.Eval(1)
			rec.Label("case:corpus-" + state)
			ls := classify(d)
			for _, l := range ls {
				rec.Label(l)
			}
			if len(ls) > 0 {
				rec.NT(fmt.Sprintf("%s#%d#%s", path, idx, state))
				if !sampled && state == "built" {
					sampled = true
					rec.Sample(map[string]interface{}{"file": path, "decl": idx, "state": state, "why": ls})
				}
			}
		})
		if skip != "" {
			rec.Label(skip)
		}
		if err == nil && skip == "" && astx.HasControlByteLiteral(src) {
			rec.Label("corpus-control-byte-literal-file-checked")
			err = checkWithComments(path, src)
		}
		if err != nil {
			rec.Violation("corpus", src, "go", "%v", err)
			t.Errorf("%v", err)
			return
		}
		rec.Label("corpus-files-checked")
	}
}

// ---------------------------------------------------------------- generated

func TestGenerated(t *testing.T) {
	rec.Check(t, rec.Scale(1200, 12000), func(t *rapid.T) {
		g := astx.NewG(t, astx.Config{Syntactic: true, MaxDepth: rapid.IntRange(2, 5).Draw(t, "depth")})
		gen := &ast.File{Name: ast.NewIdent("p"), Decls: g.Decls(rapid.IntRange(1, 3).Draw(t, "ndecls"))}
		// "parses back" construction: the standard printer and parser turn the generated
		// tree into a tree obtained by parsing valid Go
		var buf bytes.Buffer
		if err := stdprinter.Fprint(&buf, token.NewFileSet(), gen); err != nil {
			rec.Label("discarded:std-printer-error")
			return
		}
		src := buf.Bytes()
		if _, err := astx.ParseStd(token.NewFileSet(), "gen.go", src); err != nil {
			rec.Label("discarded:generated-text-does-not-parse")
			return
		}
		nt := false
		err, skip := checkSource("generated.go", src, func(state string, idx int, d ast.Decl) {
			rec.Label("case:generated-" + state)
			ls := classify(d)
			for _, l := range ls {
				rec.Label(l)
			}
			nt = nt || len(ls) > 0
		})
		if skip != "" {
			rec.Label(skip)
		}
		if nt {
			rec.NT(string(src))
			rec.Sample(string(src))
		}
		if err != nil {
			rec.Failf(t, "generated", src, "go", "%v", err)
		}
	})
}

// ---------------------------------------------------------------- literals in alignment-sensitive positions

var stressNames = []string{"a", "bb", "ccc", "dddddd", "eeeeeeeeeeee", "x1", "someLongerName", "_"}

// literalStressSource assembles one source text: literals drawn from astx's hostile pool
// placed where the printer aligns columns (tabwriter cells) or breaks lines.
func literalStressSource(t *rapid.T) string {
	kinds, texts := astx.HostileLiterals()
	var strs []string
	for i, k := range kinds {
		if k == token.STRING {
			strs = append(strs, texts[i])
		}
	}
	lit := func() string { return rapid.SampledFrom(texts).Draw(t, "lit") }
	str := func() string { return rapid.SampledFrom(strs).Draw(t, "strlit") }
	name := func() string { return rapid.SampledFrom(stressNames[:7]).Draw(t, "name") }
	comments := rapid.Bool().Draw(t, "comments")
	cmt := func() string {
		if comments && rapid.IntRange(0, 2).Draw(t, "cmt") == 0 {
			return " // " + rapid.SampledFrom([]string{"c", "a longer trailing comment", "x\ty"}).Draw(t, "cmt-text")
		}
		return ""
	}
	var b strings.Builder
	b.WriteString("package p\n\n")
	for i, n := 0, rapid.IntRange(1, 4).Draw(t, "nblocks"); i < n; i++ {
		rows := rapid.IntRange(1, 5).Draw(t, "rows")
		switch rapid.IntRange(0, 6).Draw(t, "block") {
		case 0:
			b.WriteString(rapid.SampledFrom([]string{"const", "var"}).Draw(t, "kw") + " (\n")
			for r := 0; r < rows; r++ {
				switch rapid.IntRange(0, 2).Draw(t, "spec") {
				case 0:
					fmt.Fprintf(&b, "\t%s = %s%s\n", name(), lit(), cmt())
				case 1:
					fmt.Fprintf(&b, "\t%s T = f(%s, %s)%s\n", name(), lit(), lit(), cmt())
				default:
					fmt.Fprintf(&b, "\t%s, %s = %s, %s%s\n", name(), name(), lit(), lit(), cmt())
				}
			}
			b.WriteString(")\n\n")
		case 1:
			b.WriteString("type S struct {\n")
			for r := 0; r < rows; r++ {
				fmt.Fprintf(&b, "\t%s %s %s%s\n", name(), rapid.SampledFrom([]string{"int", "map[string]T", "[4]byte"}).Draw(t, "ftype"), str(), cmt())
			}
			b.WriteString("}\n\n")
		case 2:
			b.WriteString("var m = map[interface{}]interface{}{\n")
			for r := 0; r < rows; r++ {
				fmt.Fprintf(&b, "\t%s: %s,%s\n", lit(), lit(), cmt())
			}
			b.WriteString("}\n\n")
		case 3:
			b.WriteString("var s = []interface{}{\n")
			for r := 0; r < rows; r++ {
				fmt.Fprintf(&b, "\t%s, %s,%s\n", lit(), lit(), cmt())
			}
			b.WriteString("}\n\n")
		case 4:
			b.WriteString("func f() {\n")
			for r := 0; r < rows; r++ {
				switch rapid.IntRange(0, 3).Draw(t, "stmt") {
				case 0:
					fmt.Fprintf(&b, "\t%s := %s%s\n", name(), lit(), cmt())
				case 1:
					fmt.Fprintf(&b, "\t%s = g(%s, %s)%s\n", name(), lit(), lit(), cmt())
				case 2:
					fmt.Fprintf(&b, "\th(%s,\n\t\t%s)%s\n", lit(), lit(), cmt())
				default:
					fmt.Fprintf(&b, "\tif x == %s {\n\t\treturn %s%s\n\t}\n", lit(), lit(), cmt())
				}
			}
			b.WriteString("}\n\n")
		case 5:
			b.WriteString("func g() {\n\tswitch x {\n")
			for r := 0; r < rows; r++ {
				fmt.Fprintf(&b, "\tcase %s, %s:%s\n\t\ty = %s\n", lit(), lit(), cmt(), lit())
			}
			b.WriteString("\t}\n}\n\n")
		default:
			fmt.Fprintf(&b, "var %s = T{A: %s, B: %s, C: []U{{%s, %s}, {X: %s}}}%s\n\n", name(), lit(), lit(), lit(), lit(), lit(), cmt())
		}
	}
	return b.String()
}

// checkWithComments: comments kept (they create tabwriter columns): the printed file
// must parse back to the same declarations. No "same text again" demand here:
// go/printer's comment placement is not idempotent in the standard library either.
func checkWithComments(name string, src []byte) error {
	efs := etoken.NewFileSet()
	file, err := astx.ParseStdComments(&efs.FileSet, name, src)
	if err != nil {
		return nil
	}
	for _, cfg := range []printer.Config{config, {Tabwidth: 8}} {
		cfg := cfg
		p1, err := tryPrint(func() (string, error) {
			var buf bytes.Buffer
			err := cfg.Fprint(&buf, &efs.FileSet, file)
			return buf.String(), err
		})
		if err != nil {
			return fmt.Errorf("%s [parsed tree with comments, printer mode %d]: %v", name, cfg.Mode, err)
		}
		f2, err := astx.ParseStd(token.NewFileSet(), "printed.go", []byte(p1))
		if err != nil {
			return fmt.Errorf("%s [parsed tree with comments, printer mode %d]: printed text does not parse: %v\n--- printed text (excerpt) ---\n%s", name, cfg.Mode, err, excerpt(p1, err))
		}
		if len(f2.Decls) != len(file.Decls) {
			return fmt.Errorf("%s [parsed tree with comments, printer mode %d]: %d declarations printed, %d parsed back", name, cfg.Mode, len(file.Decls), len(f2.Decls))
		}
		for i := range file.Decls {
			if err := astx.Equal(normalise(f2.Decls[i], false), normalise(file.Decls[i], false), astx.Structural); err != nil {
				return fmt.Errorf("%s [parsed tree with comments, printer mode %d]: declaration %d parses back to a different tree (reparsed vs original): %v", name, cfg.Mode, i, err)
			}
		}
	}
	return nil
}

func TestLiteralStress(t *testing.T) {
	rec.Check(t, rec.Scale(1200, 10000), func(t *rapid.T) {
		src := []byte(literalStressSource(t))
		if _, err := astx.ParseStd(token.NewFileSet(), "lit.go", src); err != nil {
			rec.Label("discarded:literal-stress-text-does-not-parse")
			return
		}
		nt := false
		err, _ := checkSource("literals.go", src, func(state string, idx int, d ast.Decl) {
			rec.Label("case:literal-stress-" + state)
			ls := classify(d)
			for _, l := range ls {
				rec.Label(l)
			}
			nt = nt || len(ls) > 0
		})
		if nt {
			rec.NT(string(src))
		}
		if err == nil {
			rec.Label("case:literal-stress-with-comments")
			err = checkWithComments("literals.go", src)
		}
		if err != nil {
			rec.Failf(t, "literal-stress", src, "go", "%v", err)
		}
	})
}
