// Oracle O2: go/types + go/constant in-process. Decides whether a snippet is valid Go,
// its static type, and the exact value of constant expressions.
package c01

import (
	"go/ast"
	"go/importer"
	"go/parser"
	"go/token"
	"go/types"
	"strings"
	"sync"
)

var (
	o2once sync.Once
	o2fset *token.FileSet
	o2pkg  *types.Package
	o2memo = map[string]o2res{}
)

type o2res struct {
	tv  types.TypeAndValue
	err error
}

func o2Source() string {
	var sb strings.Builder
	sb.WriteString("package p\n")
	for _, k := range allKinds {
		sb.WriteString("type N" + k.Name() + " " + k.Name() + "\n")
	}
	for _, t := range allTypes() {
		sb.WriteString("var x_" + t.src() + ", y_" + t.src() + " " + t.src() + "\n")
	}
	return sb.String()
}

func o2Init() {
	o2once.Do(func() {
		o2fset = token.NewFileSet()
		f, err := parser.ParseFile(o2fset, "p.go", o2Source(), 0)
		if err != nil {
			panic("harness: O2 package does not parse: " + err.Error())
		}
		conf := types.Config{Importer: importer.Default(), GoVersion: "go1.18"}
		o2pkg, err = conf.Check("p", o2fset, []*ast.File{f}, nil)
		if err != nil {
			panic("harness: O2 package does not type-check: " + err.Error())
		}
	})
}

// o2Eval type-checks an expression in the scope of package p (variables x_T, y_T of every type).
func o2Eval(expr string) (types.TypeAndValue, error) {
	o2Init()
	if r, ok := o2memo[expr]; ok {
		return r.tv, r.err
	}
	tv, err := types.Eval(o2fset, o2pkg, token.NoPos, expr)
	if len(o2memo) > 400000 {
		o2memo = map[string]o2res{}
	}
	o2memo[expr] = o2res{tv, err}
	return tv, err
}

func o2TypeString(t types.Type) string {
	return types.TypeString(types.Default(t), func(*types.Package) string { return "" })
}

func o2Reason(err error) string {
	msg := err.Error()
	switch {
	case strings.Contains(msg, "division by zero"):
		return "constant division by zero"
	case strings.Contains(msg, "overflows"), strings.Contains(msg, "overflow"):
		return "constant overflow"
	case strings.Contains(msg, "negative shift count"):
		return "negative constant shift count"
	case strings.Contains(msg, "invalid shift count"), strings.Contains(msg, "shift count"):
		return "invalid constant shift count"
	case strings.Contains(msg, "truncated"), strings.Contains(msg, "cannot use"), strings.Contains(msg, "cannot convert"):
		return "constant not representable"
	}
	if len(msg) > 80 {
		msg = msg[:80]
	}
	return "other: " + msg
}
