// Layer 2 of C01: random expression trees. The expression text is generated
// type-directed with rapid; go/types (O2) vets it and gives the type and constant value
// of every subexpression; the expected value is computed by walking the go/ast of that
// very text and applying Go's native operators (kindT) node by node.
package c01

import (
	"encoding/json"
	"fmt"
	"go/ast"
	"go/parser"
	"go/token"
	"go/types"
	"reflect"
	"strings"
	"testing"

	xr "github.com/cosmos72/gomacro/xreflect"
	"pgregory.net/rapid"

	"verif/harness/vlib"
)

// treeVar is one variable of a tree case.
type treeVar struct {
	Name    string `json:"name"`
	Type    string `json:"type"`
	Storage string `json:"storage"` // param | local | global | dot | imp
	Level   int    `json:"level"`   // closure level at which a local is declared
	Value   string `json:"value"`
}

type treeCase struct {
	Layer int       `json:"layer"`
	Depth int       `json:"closure_depth"` // the expression is evaluated this many closures deep
	Expr  string    `json:"expr"`
	Vars  []treeVar `json:"vars"`
	Note  string    `json:"note,omitempty"`
}

// exprName returns the identifier used for the variable inside the expression.
func (v treeVar) exprName() string {
	switch v.Storage {
	case "global":
		return "g" + v.Name[:1] + "_" + v.Type
	case "dot":
		return "D" + v.Name[:1] + "_" + v.Type
	case "imp":
		return "vars.V" + v.Name[:1] + "_" + v.Type
	}
	return v.Name
}

// renderTree builds the function literal given to the interpreter.
func renderTree(tc treeCase, R string) string {
	var params []string
	levels := make([][]string, tc.Depth+1)
	for i, v := range tc.Vars {
		p := fmt.Sprintf("p%d", i)
		switch v.Storage {
		case "param":
			params = append(params, v.Name+" "+v.Type)
		case "local":
			params = append(params, p+" "+v.Type)
			levels[v.Level] = append(levels[v.Level], v.Name+" := "+p)
		case "global":
			params = append(params, p+" "+v.Type)
			levels[0] = append(levels[0], v.exprName()+" = "+p)
		default: // compiled variables are set natively
		}
	}
	body := "return " + tc.Expr
	for d := tc.Depth; d >= 0; d-- {
		stmts := strings.Join(levels[d], "; ")
		if stmts != "" {
			stmts += "; "
		}
		body = stmts + body
		if d > 0 {
			body = "return func() " + R + " { " + body + " }()"
		}
	}
	return "(func(" + strings.Join(params, ", ") + ") " + R + " { " + body + " })"
}

// ---------------------------------------------------------------- O2 over a tree

type treeInfo struct {
	expr ast.Expr
	info *types.Info
	typ  types.Type
}

func o2Tree(tc treeCase) (*treeInfo, error) {
	o2Init()
	pkg := types.NewPackage("p", "p")
	for _, k := range allKinds {
		name := "N" + k.Name()
		pkg.Scope().Insert(o2pkg.Scope().Lookup(name))
	}
	o2text := tc.Expr
	for _, v := range tc.Vars {
		t, err := parseTyp(v.Type)
		if err != nil {
			return nil, err
		}
		var gt types.Type
		if t.named {
			gt = o2pkg.Scope().Lookup(v.Type).Type()
		} else {
			gt = types.Universe.Lookup(v.Type).Type()
		}
		name := v.exprName()
		if v.Storage == "imp" { // a qualified name: use a plain alias on the go/types side
			alias := "imp_" + v.Name[:1] + "_" + v.Type
			o2text = strings.ReplaceAll(o2text, name, alias)
			name = alias
		}
		pkg.Scope().Insert(types.NewVar(token.NoPos, pkg, name, gt))
	}
	e, err := parser.ParseExpr(o2text)
	if err != nil {
		return nil, fmt.Errorf("harness: generated expression does not parse: %v", err)
	}
	info := &types.Info{Types: map[ast.Expr]types.TypeAndValue{}}
	if err := types.CheckExpr(o2fset, pkg, token.NoPos, e, info); err != nil {
		return nil, err
	}
	return &treeInfo{expr: e, info: info, typ: types.Default(info.Types[e].Type)}, nil
}

func kindOfType(t types.Type) (kindT, bool) {
	b, ok := types.Default(t).Underlying().(*types.Basic)
	if !ok {
		return nil, false
	}
	k, ok := kindByName[b.Name()]
	return k, ok
}

// ---------------------------------------------------------------- typed evaluator

type evaluator struct {
	ti       *treeInfo
	vars     map[string]evalVar
	excluded string // id of the known finding this tree runs into, if any
	panics   map[string]bool
	nops     int
	nonSimple bool
}

type evalVar struct {
	k kindT
	v val
}

func maxU64(k kindT, v val) bool {
	return k.Class() == cUint && k.Bits() == 64 && v.u == ^uint64(0)
}

func isOneOf(k kindT, v val, xs ...float64) bool {
	for _, x := range xs {
		switch k.Class() {
		case cFloat:
			if v.f == x {
				return true
			}
		case cComplex:
			if v.c == complex(x, 0) {
				return true
			}
		}
	}
	return false
}

func (ev *evaluator) mark(id string) {
	if ev.excluded == "" {
		ev.excluded = id
	}
}

// eval returns the kind and value of e; ok=false after a run-time panic.
func (ev *evaluator) eval(e ast.Expr) (kindT, val, bool) {
	tv, found := ev.ti.info.Types[e]
	if !found {
		panic(fmt.Sprintf("harness: no type recorded for %T", e))
	}
	k, okk := kindOfType(tv.Type)
	if !okk {
		panic(fmt.Sprintf("harness: unexpected type %v", tv.Type))
	}
	if tv.Value != nil {
		v, err := k.FromConst(tv.Value)
		if err != nil {
			panic("harness: " + err.Error())
		}
		// F-C01-5: constant folding of float/complex operators with run-time arithmetic
		if k.Class() == cFloat || k.Class() == cComplex {
			ev.checkFold(e, k, v)
		}
		return k, v, true
	}
	switch e := e.(type) {
	case *ast.ParenExpr:
		return ev.eval(e.X)
	case *ast.Ident:
		x, ok := ev.vars[e.Name]
		if !ok {
			panic("harness: unknown variable " + e.Name)
		}
		if !x.k.Simple(x.v) {
			ev.nonSimple = true
		}
		return x.k, x.v, true
	case *ast.CallExpr: // conversion
		fk, fv, ok := ev.eval(e.Args[0])
		if !ok {
			return k, val{}, false
		}
		r, okc := k.Conv(fk, fv)
		if !okc {
			panic(fmt.Sprintf("harness: conversion %s -> %s not supported by the evaluator", fk.Name(), k.Name()))
		}
		return k, r, true
	case *ast.UnaryExpr:
		ev.nops++
		xk, xv, ok := ev.eval(e.X)
		if !ok {
			return k, val{}, false
		}
		return k, xk.Un(e.Op, xv), true
	case *ast.BinaryExpr:
		ev.nops++
		switch {
		case e.Op == token.LAND || e.Op == token.LOR:
			_, xv, ok := ev.eval(e.X)
			if !ok {
				return k, val{}, false
			}
			if (e.Op == token.LAND && !xv.b) || (e.Op == token.LOR && xv.b) {
				return k, val{b: xv.b}, true
			}
			_, yv, ok := ev.eval(e.Y)
			if !ok {
				return k, val{}, false
			}
			return k, val{b: yv.b}, true
		case isShift(e.Op):
			xk, xv, ok := ev.eval(e.X)
			if !ok {
				return k, val{}, false
			}
			yk, yv, ok := ev.eval(e.Y)
			if !ok {
				return k, val{}, false
			}
			n, p := shiftCount(yk, yv)
			if p != "" {
				ev.panics[p] = true
				return k, val{}, false
			}
			return k, xk.Shift(e.Op, xv, n), true
		}
		xk, xv, ok := ev.eval(e.X)
		if !ok {
			return k, val{}, false
		}
		_, yv, ok := ev.eval(e.Y)
		if !ok {
			return k, val{}, false
		}
		xc := ev.ti.info.Types[e.X].Value != nil
		yc := ev.ti.info.Types[e.Y].Value != nil
		if isCmp(e.Op) {
			return k, val{b: xk.Cmp(e.Op, xv, yv)}, true
		}
		// shapes of the known findings (variable op constant)
		if xc != yc {
			cv := yv
			if xc {
				cv = xv
			}
			fc := xk.Class() == cFloat || xk.Class() == cComplex
			switch {
			case e.Op == token.QUO && yc && maxU64(xk, yv):
				ev.mark("F-C01-1")
			case fc && e.Op == token.QUO && yc && isOneOf(xk, yv, 0):
				ev.mark("F-C01-4")
			case fc && (e.Op == token.ADD || e.Op == token.MUL || (e.Op == token.QUO && yc)) && isOneOf(xk, cv, 0, 1, -1):
				ev.mark("F-C01-3")
			}
		}
		r, p := xk.Bin(e.Op, xv, yv)
		if p != "" {
			ev.panics[p] = true
			return k, val{}, false
		}
		if !k.Simple(r) {
			ev.nonSimple = true
		}
		return k, r, true
	}
	panic(fmt.Sprintf("harness: unexpected node %T", e))
}

// checkFold: e is a constant float/complex expression; if it is an operator node whose
// run-time evaluation differs from the exact constant value, the tree meets F-C01-5.
func (ev *evaluator) checkFold(e ast.Expr, k kindT, exact val) {
	switch e := e.(type) {
	case *ast.ParenExpr:
		ev.checkFoldInner(e.X)
	case *ast.UnaryExpr:
		xk, xv, _ := ev.constOf(e.X)
		if xk != nil && e.Op != token.NOT && !sameVal(k, xk.Un(e.Op, xv), exact) {
			ev.mark("F-C01-5")
		}
		ev.checkFoldInner(e.X)
	case *ast.BinaryExpr:
		xk, xv, _ := ev.constOf(e.X)
		_, yv, _ := ev.constOf(e.Y)
		if xk != nil && !isCmp(e.Op) && !isShift(e.Op) && (xk.Class() == cFloat || xk.Class() == cComplex) {
			if r, _ := xk.Bin(e.Op, xv, yv); !sameVal(k, r, exact) {
				ev.mark("F-C01-5")
			}
		}
		ev.checkFoldInner(e.X)
		ev.checkFoldInner(e.Y)
	case *ast.CallExpr:
		// constant conversion, e.g. float32(float64(-5e-324)): exact value 0, run-time conversion -0
		if xk, xv, ok := ev.constOf(e.Args[0]); ok {
			if r, okc := k.Conv(xk, xv); okc && !sameVal(k, r, exact) {
				ev.mark("F-C01-5")
			}
		}
		ev.checkFoldInner(e.Args[0])
	}
}

func (ev *evaluator) checkFoldInner(e ast.Expr) {
	tv := ev.ti.info.Types[e]
	if tv.Value == nil {
		return
	}
	if k, ok := kindOfType(tv.Type); ok && (k.Class() == cFloat || k.Class() == cComplex) {
		if v, err := k.FromConst(tv.Value); err == nil {
			ev.checkFold(e, k, v)
		}
	}
}

func (ev *evaluator) constOf(e ast.Expr) (kindT, val, bool) {
	tv := ev.ti.info.Types[e]
	if tv.Value == nil {
		return nil, val{}, false
	}
	k, ok := kindOfType(tv.Type)
	if !ok {
		return nil, val{}, false
	}
	v, err := k.FromConst(tv.Value)
	if err != nil {
		return nil, val{}, false
	}
	return k, v, true
}

// ---------------------------------------------------------------- running one tree

type treeResult struct {
	dropped  string // not well-typed (O2 reason)
	excluded string // known finding met
	nt       bool
	nops     int
}

// checkTree runs one tree case; a non-nil error is a violation.
func checkTree(tc treeCase, exclusions bool) (treeResult, error) {
	var res treeResult
	ti, err := o2Tree(tc)
	if err != nil {
		if strings.HasPrefix(err.Error(), "harness:") {
			panic(err.Error())
		}
		res.dropped = o2Reason(err)
		return res, nil
	}
	rk, ok := kindOfType(ti.typ)
	if !ok {
		panic("harness: result type " + ti.typ.String())
	}
	R := normType(o2TypeString(ti.typ))
	ev := &evaluator{ti: ti, vars: map[string]evalVar{}, panics: map[string]bool{}}
	e := getEngine()
	var args []reflect.Value
	storages := map[string]bool{}
	for _, v := range tc.Vars {
		t, err := parseTyp(v.Type)
		if err != nil {
			return res, nil
		}
		x, err := decodeVal(t.k, v.Value)
		if err != nil {
			return res, nil
		}
		name := v.exprName()
		if v.Storage == "imp" {
			name = "imp_" + v.Name[:1] + "_" + v.Type
		}
		ev.vars[name] = evalVar{t.k, x}
		storages[fmt.Sprintf("%s%d", v.Storage, v.Level)] = true
		switch v.Storage {
		case "dot", "imp":
			e.compiled[v.exprName()].Set(t.k.ToReflect(x))
		default:
			args = append(args, t.k.ToReflect(x))
		}
	}
	_, want, okv := ev.eval(ti.expr)
	res.nops = ev.nops
	res.nt = ev.nops >= 3 && len(storages) >= 2 && ev.nonSimple
	if exclusions && ev.excluded != "" && rec.Known(ev.excluded) {
		res.excluded = ev.excluded
		return res, nil
	}
	src := renderTree(tc, R)
	var fv xr.Value
	if p := vlib.Try(func() { fv, _ = e.main.Eval1(src) }); p != nil {
		return res, fmt.Errorf("interpreter rejects %s (valid Go, type %s): %v", src, R, p)
	}
	fn := fv.ReflectValue()
	if fn.Kind() != reflect.Func {
		return res, fmt.Errorf("interpreter evaluates %s to a %v", src, kindOf(fn))
	}
	var out []reflect.Value
	p := vlib.Try(func() { out = fn.Call(args) })
	if p != nil {
		cl := classifyPanic(p)
		if okv {
			return res, fmt.Errorf("%s: interpreter panics (%s), compiled Go yields %s", src, cl, rk.Canon(want))
		}
		if cl != pDiv0 && cl != pNegShift {
			return res, fmt.Errorf("%s: interpreter panics (%s), compiled Go panics with %v", src, cl, ev.panics)
		}
		return res, nil
	}
	if !okv {
		return res, fmt.Errorf("%s: interpreter yields %v, compiled Go panics with %v", src, out[0], ev.panics)
	}
	got, err := rk.FromReflect(out[0])
	if err != nil {
		return res, fmt.Errorf("%s: %v", src, err)
	}
	if !sameVal(rk, got, want) {
		return res, fmt.Errorf("%s with %v: interpreter %s, compiled Go %s", src, tc.Vars, rk.Canon(got), rk.Canon(want))
	}
	return res, nil
}

func replayTree(content []byte) error {
	var tc treeCase
	if err := json.Unmarshal(content, &tc); err != nil || tc.Expr == "" {
		return nil
	}
	_, err := checkTree(tc, false)
	return err
}

// ---------------------------------------------------------------- generator

type treeGen struct {
	t      *rapid.T
	vars   []treeVar
	byType map[string][]int
	noU64  bool
}

var treeTypes = func() []typ {
	var l []typ
	for _, t := range allTypes() {
		if t.named && t.k.Class() == cBool {
			continue // F-C01-6 concerns only static types of named booleans; trees use bool
		}
		l = append(l, t)
	}
	return l
}()

func (g *treeGen) pickType(label string, pred func(typ) bool) typ {
	var l []typ
	for _, t := range treeTypes {
		if pred(t) {
			l = append(l, t)
		}
	}
	return l[rapid.IntRange(0, len(l)-1).Draw(g.t, label)]
}

func (g *treeGen) value(t typ, label string) val {
	b := t.k.Boundary()
	if rapid.IntRange(0, 2).Draw(g.t, label+"-src") == 0 {
		r := &rng{s: rapid.Uint64().Draw(g.t, label+"-rnd")}
		return t.k.Random(r)
	}
	return b[rapid.IntRange(0, len(b)-1).Draw(g.t, label)]
}

func (g *treeGen) constant(t typ, untypedOK bool) string {
	for tries := 0; ; tries++ {
		v := g.value(t, "const")
		if untypedOK && rapid.IntRange(0, 2).Draw(g.t, "untyped") == 0 {
			if s, ok := constText(t, v, true); ok {
				return s
			}
			continue
		}
		if s, ok := constText(t, v, false); ok {
			return s
		}
	}
}

// variable returns the expression name of a variable of type t, creating one if allowed.
func (g *treeGen) variable(t typ) (string, bool) {
	idxs := g.byType[t.src()]
	if len(idxs) > 0 && (len(g.vars) >= 6 || rapid.Bool().Draw(g.t, "reuse")) {
		return g.vars[idxs[rapid.IntRange(0, len(idxs)-1).Draw(g.t, "which")]].exprName(), true
	}
	if len(g.vars) >= 6 {
		return "", false
	}
	sts := []string{"param", "local", "local", "global", "dot", "imp"}
	st := sts[rapid.IntRange(0, len(sts)-1).Draw(g.t, "storage")]
	side := "x"
	if (st == "global" || st == "dot" || st == "imp") && t.named && st != "global" {
		st = "local"
	}
	if st == "global" || st == "dot" || st == "imp" {
		// two variables per type and class exist: x and y
		used := map[string]bool{}
		for _, i := range idxs {
			if g.vars[i].Storage == st {
				used[g.vars[i].Name[:1]] = true
			}
		}
		switch {
		case !used["x"]:
			side = "x"
		case !used["y"]:
			side = "y"
		default:
			st = "local"
		}
	}
	v := treeVar{Type: t.src(), Storage: st}
	v.Name = fmt.Sprintf("%s%d", side, len(g.vars))
	if st == "local" {
		v.Name = fmt.Sprintf("v%d", len(g.vars))
		v.Level = -1 // chosen once the closure depth is known
	}
	v.Value = encodeVal(t.k, g.value(t, "value"))
	g.vars = append(g.vars, v)
	g.byType[t.src()] = append(g.byType[t.src()], len(g.vars)-1)
	return v.exprName(), true
}

func (g *treeGen) leaf(t typ, untypedOK bool) string {
	if rapid.IntRange(0, 3).Draw(g.t, "leaf") != 0 {
		if s, ok := g.variable(t); ok {
			return s
		}
	}
	return g.constant(t, untypedOK)
}

// gen produces an expression of type t (never an untyped constant unless untypedOK).
func (g *treeGen) gen(t typ, depth int, untypedOK bool) string {
	if depth <= 0 || rapid.IntRange(0, 5).Draw(g.t, "stop") == 0 {
		return g.leaf(t, untypedOK)
	}
	k := t.k
	choice := rapid.IntRange(0, 9).Draw(g.t, "node")
	switch {
	case k.Class() == cBool:
		switch {
		case choice <= 4: // comparison of another type
			u := g.pickType("cmp-type", func(u typ) bool { return u.k.Class() != cBool })
			ops := eqOps
			if u.k.Class() != cComplex {
				ops = append(append([]token.Token{}, eqOps...), ordOps...)
			}
			op := ops[rapid.IntRange(0, len(ops)-1).Draw(g.t, "cmp-op")]
			return "(" + g.gen(u, depth-1, false) + " " + op.String() + " " + g.gen(u, depth-1, true) + ")"
		case choice <= 7:
			op := []token.Token{token.LAND, token.LOR, token.EQL, token.NEQ}[rapid.IntRange(0, 3).Draw(g.t, "bool-op")]
			return "(" + g.gen(t, depth-1, false) + " " + op.String() + " " + g.gen(t, depth-1, false) + ")"
		default:
			return "(!" + g.gen(t, depth-1, false) + ")"
		}
	case choice <= 5: // binary operator of the kind
		var ops []token.Token
		for _, op := range binaryOps(k) {
			if !isCmp(op) {
				ops = append(ops, op)
			}
		}
		op := ops[rapid.IntRange(0, len(ops)-1).Draw(g.t, "op")]
		return "(" + g.gen(t, depth-1, false) + " " + op.String() + " " + g.gen(t, depth-1, true) + ")"
	case choice == 6 && isIntClass(k): // shift; the shifted operand is never an untyped constant (documented limitation)
		s := g.pickType("count-type", func(u typ) bool { return isIntClass(u.k) })
		op := shiftOps[rapid.IntRange(0, 1).Draw(g.t, "shift-op")]
		var count string
		if rapid.IntRange(0, 2).Draw(g.t, "count-const") == 0 {
			count = fmt.Sprintf("%d", rapid.IntRange(0, 70).Draw(g.t, "count"))
		} else {
			count = g.gen(s, depth-1, false)
			if rapid.Bool().Draw(g.t, "mask") { // keep most counts small so that results are not all zero
				count = "(" + count + " & " + s.src() + "(15))"
			}
		}
		return "(" + g.gen(t, depth-1, false) + " " + op.String() + " " + count + ")"
	case choice == 7 && len(unaryOps(k)) > 0:
		ops := unaryOps(k)
		op := ops[rapid.IntRange(0, len(ops)-1).Draw(g.t, "unary")]
		return "(" + op.String() + g.gen(t, depth-1, false) + ")"
	case choice == 8 && k.Class() != cString: // conversion from another type
		u := g.pickType("conv-from", func(u typ) bool {
			switch k.Class() {
			case cInt, cUint:
				return isIntClass(u.k)
			case cFloat:
				return isIntClass(u.k) || u.k.Class() == cFloat
			case cComplex:
				return u.k.Class() == cComplex
			}
			return false
		})
		return t.src() + "(" + g.gen(u, depth-1, false) + ")"
	}
	return "(" + g.gen(t, depth-1, false) + ")"
}

func TestRandomTrees(t *testing.T) {
	if rec.ReplayOnly() {
		return
	}
	getEngine()
	rec.Check(t, rec.Scale(2000, 25000), func(rt *rapid.T) {
		g := &treeGen{t: rt, byType: map[string][]int{}}
		root := g.pickType("root-type", func(typ) bool { return true })
		expr := g.gen(root, rapid.IntRange(1, 5).Draw(rt, "depth"), false)
		tc := treeCase{Layer: 2, Expr: expr, Depth: rapid.IntRange(0, 4).Draw(rt, "closure-depth")}
		for i := range g.vars {
			if g.vars[i].Level == -1 {
				g.vars[i].Level = rapid.IntRange(0, tc.Depth).Draw(rt, "level")
			}
		}
		tc.Vars = g.vars
		if rec.Known("F-C01-2") {
			// by construction: no uint64 variable three or more frames away from its use
			for _, v := range tc.Vars {
				// (a closure body that declares a local has a frame of its own, so one closure is enough)
				if strings.HasSuffix(v.Type, "uint64") && (v.Storage == "param" || v.Storage == "local") && tc.Depth >= 1 {
					rec.Excluded("F-C01-2")
					tc.Depth = 0
					for i := range tc.Vars {
						tc.Vars[i].Level = 0
					}
					break
				}
			}
		}
		data, _ := json.MarshalIndent(tc, "", " ")
		res, err := checkTree(tc, true)
		if err != nil {
			rec.Failf(rt, "tree", data, "json", "%v", err)
		}
		switch {
		case res.dropped != "":
			rec.Label("tree:excluded:not-well-typed:" + res.dropped)
			return
		case res.excluded != "":
			rec.Excluded(res.excluded)
			return
		}
		rec.Label(fmt.Sprintf("tree:operators:%d", min(res.nops, 12)))
		rec.Label(fmt.Sprintf("tree:variables:%d", len(tc.Vars)))
		rec.Label(fmt.Sprintf("tree:closure-depth:%d", tc.Depth))
		rec.Label("tree:root:" + root.src())
		for _, v := range tc.Vars {
			rec.Label("tree:storage:" + v.Storage)
		}
		if res.nt {
			rec.NT("tree|" + tc.Expr + "|" + fmt.Sprint(tc.Vars))
			rec.Sample(tc)
		}
	})
}
