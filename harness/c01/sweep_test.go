// Layer 1 of C01: the cell sweep.
package c01

import (
	"fmt"
	"go/token"
	"os"
	"sort"
	"strconv"
	"testing"
)

type sweeper struct {
	e        *engine
	t        *testing.T
	failures int
	bcache   map[string][]val
	ccache   map[string][]val
}

// maxFailures bounds the violations recorded per shard (C01_MAXFAIL overrides, for exploration).
var maxFailures = func() int {
	if n, err := strconv.Atoi(os.Getenv("C01_MAXFAIL")); err == nil && n > 0 {
		return n
	}
	return 12
}()

func (sw *sweeper) boundary(k kindT) []val {
	if b, ok := sw.bcache[k.Name()]; ok {
		return b
	}
	b := k.Boundary()
	sw.bcache[k.Name()] = b
	return b
}

// constSet: the constants tried in const-left / const-right / const-const shapes. Derived
// from the shortcuts in binary_ops.go: identities 0, 1, -1 (= max for unsigned), every
// power of two and its negation, width boundaries, plus a few neighbours and ordinary values.
func (sw *sweeper) constSet(k kindT) []val {
	if c, ok := sw.ccache[k.Name()]; ok {
		return c
	}
	var out []val
	switch k.Class() {
	case cInt, cUint:
		all := sw.boundary(k)
		bits := k.Bits()
		keep := map[val]bool{}
		add := func(v val) {
			if !keep[v] {
				keep[v] = true
				out = append(out, v)
			}
		}
		// the first 12-17 entries of Boundary() are the named specials
		for i, v := range all {
			if i < 12 || (k.Class() == cInt && i < 17) {
				add(v)
			}
		}
		for s := 1; s < bits; s++ {
			if k.Class() == cInt {
				add(val{i: 1 << s})
				add(val{i: -(1 << s)})
				if s == 1 || s == 7 || s == 8 || s == 15 || s == 16 || s == 31 || s == 32 || s == 62 {
					add(val{i: 1<<s - 1})
					add(val{i: 1<<s + 1})
					add(val{i: -(1 << s) - 1})
					add(val{i: -(1 << s) + 1})
				}
			} else {
				add(val{u: 1 << s})
				if s == 1 || s == 7 || s == 8 || s == 15 || s == 16 || s == 31 || s == 32 || s == 63 {
					add(val{u: 1<<s - 1})
					add(val{u: 1<<s + 1})
				}
			}
		}
		// drop values that do not fit the kind (1<<s computed in 64 bits)
		fit := out[:0]
		for _, v := range out {
			r, _ := k.Conv(k, v)
			if r == v {
				fit = append(fit, v)
			}
		}
		out = fit
	default:
		for _, v := range sw.boundary(k) {
			if _, ok := k.Lit(v); ok {
				out = append(out, v)
			}
		}
	}
	sw.ccache[k.Name()] = out
	return out
}

// shift counts of count kind s for a shifted operand of `bits` bits.
func shiftCounts(s kindT, bits int) []val {
	var out []val
	seen := map[val]bool{}
	add := func(n int64) {
		var v val
		if s.Class() == cInt {
			v = val{i: n}
		} else {
			if n < 0 {
				return
			}
			v = val{u: uint64(n)}
		}
		if r, _ := s.Conv(s, v); r != v || seen[v] {
			return
		}
		seen[v] = true
		out = append(out, v)
	}
	w := int64(bits)
	for _, n := range []int64{0, 1, 2, 3, w - 1, w, w + 1, 7, 8, 9, 15, 16, 17, 31, 32, 33, 62, 63, 64, 65, 127, 128, 255, 256, 1 << 16, 1 << 32, -1, -2, -64, -128} {
		add(n)
	}
	b := s.Boundary()
	// min and max of the count kind
	for _, v := range b[:12] {
		if !seen[v] {
			seen[v] = true
			out = append(out, v)
		}
	}
	return out
}

// pickStorages chooses n storage classes among the applicable ones, rotating with salt so
// that every storage class is used by every (operator, type, shape) over the constants.
func pickStorages(app []*storage, n, salt int) []*storage {
	if n >= len(app) {
		return app
	}
	out := make([]*storage, 0, n)
	stride := len(app)/n + 1
	for j := 0; j < n; j++ {
		out = append(out, app[(salt+j*stride)%len(app)])
	}
	return out
}

func applicableStorages(nvars int, ts ...typ) []*storage {
	var out []*storage
	for _, s := range allStorages {
		if s.applicable(nvars, ts...) {
			out = append(out, s)
		}
	}
	return out
}

type pair struct{ a, b val }

// samplePairs: every value of A and every value of B appears at least `reps` times, partners chosen by the rng;
// all=true returns the full product.
func samplePairs(A, B []val, r *rng, reps int, all bool, limit int) []pair {
	var out []pair
	if all && len(A)*len(B) <= limit {
		for _, a := range A {
			for _, b := range B {
				out = append(out, pair{a, b})
			}
		}
		return out
	}
	for i := 0; i < reps; i++ {
		if i == 0 && reps == 1 {
			// one pass: every value of A once (partner by rng)
			for _, a := range A {
				out = append(out, pair{a, B[r.next()%uint64(len(B))]})
			}
			if len(B) <= 64 {
				for _, b := range B {
					out = append(out, pair{A[r.next()%uint64(len(A))], b})
				}
			}
			break
		}
		for _, a := range A {
			out = append(out, pair{a, B[r.next()%uint64(len(B))]})
		}
		for _, b := range B {
			out = append(out, pair{A[r.next()%uint64(len(A))], b})
		}
	}
	// the diagonal and the first few specials against each other are always present
	n := len(A)
	if len(B) < n {
		n = len(B)
	}
	if reps > 0 {
		for i := 0; i < n; i++ {
			out = append(out, pair{A[i], B[i]})
		}
	}
	sp := 12
	for i := 0; i < sp && i < len(A); i++ {
		for j := 0; j < sp && j < len(B); j++ {
			out = append(out, pair{A[i], B[j]})
		}
	}
	return out
}

func sampleVals(A []val, r *rng, every int) []val {
	if every <= 1 {
		return A
	}
	var out []val
	for i, v := range A {
		if i < 17 || r.next()%uint64(every) == 0 {
			out = append(out, v)
		}
	}
	return out
}

func (sw *sweeper) fail(c *cellSpec, a, b val, src, msg string) {
	sw.failures++
	key := "cell:" + c.key()
	rec.Violation(key, c.toJSON(a, b, src, msg), "json", "%s", msg)
	sw.t.Errorf("%s: %s", c.key(), msg)
}

func opLabel(c *cellSpec) string {
	if c.unary {
		return "unary" + c.op.String()
	}
	return c.op.String()
}

// runCell compiles the cell and evaluates it on the given operand pairs.
func (sw *sweeper) runCell(c *cellSpec, pairs []pair) {
	if sw.failures >= maxFailures {
		return
	}
	if sw.excluded(c) {
		return
	}
	cc, err := sw.e.compile(c)
	if err != nil {
		if d, ok := err.(errDropped); ok {
			rec.Label("excluded:not-well-typed:" + d.why)
			return
		}
		var a, b val
		if len(pairs) > 0 {
			a, b = pairs[0].a, pairs[0].b
		}
		src := ""
		if cc != nil {
			src = cc.src
		}
		rec.Eval(1)
		sw.fail(c, a, b, src, err.Error())
		return
	}
	kx, ky := c.tx.k, c.ty.k
	nt := false
	nPanic, nWrap := 0, 0
	for _, p := range pairs {
		var want outcome
		if c.shape == "cc" || c.shape == "c" {
			w, err := wantOf(c, p.a, p.b)
			if err != nil {
				panic("harness: " + err.Error())
			}
			want = w
		} else {
			want = c.oracle(p.a, p.b)
		}
		if !nt {
			if !kx.Simple(p.a) || (!c.unary && !ky.Simple(p.b)) {
				nt = true
			}
		}
		if want.pan != "" {
			nPanic++
		} else if !c.unary && !isCmp(c.op) && !isShift(c.op) && wrapped(kx, c.op, p.a, p.b, want.v) {
			nWrap++
		}
		if rec.Known("F-C01-3") && isF3(c, p.a, p.b) {
			rec.Excluded("F-C01-3")
			continue
		}
		if rec.Known("F-C01-5") && isF5(c, p.a, p.b, want) {
			rec.Excluded("F-C01-5")
			continue
		}
		if msg := sw.e.checkOne(cc, p.a, p.b, want); msg != "" {
			rec.Eval(1)
			sw.fail(c, p.a, p.b, cc.src, msg)
			return
		}
	}
	rec.Eval(len(pairs))
	if nt || nPanic > 0 || nWrap > 0 {
		rec.NT(c.key())
	}
	// histogram
	kname := kx.Name()
	rec.LabelN("op/kind:"+opLabel(c)+"/"+kname, len(pairs))
	if c.tx.named {
		rec.LabelN("named-type", len(pairs))
	}
	rec.LabelN("shape:"+c.shape+"/"+c.form, len(pairs))
	if c.st != nil {
		rec.LabelN("storage:"+c.st.name, len(pairs))
		rec.LabelN("slot:"+c.st.slot(c.tx), len(pairs))
	}
	rec.Label("cells")
	if nPanic > 0 {
		rec.LabelN("outcome:panic", nPanic)
	}
	if nWrap > 0 {
		rec.LabelN("outcome:wrapped-or-nonfinite", nWrap)
	}
	if c.st != nil && c.st.name == "cap3" && len(pairs) > 0 {
		rec.Sample(map[string]string{"source": cc.src, "a": kx.Canon(pairs[0].a), "b": ky.Canon(pairs[0].b), "cell": c.key()})
	}
}

// excluded implements the by-construction exclusion of known findings (cell level).
// Each exclusion is active only while the finding is listed with status "known".
func (sw *sweeper) excluded(c *cellSpec) bool {
	if rec.Known("F-C01-1") && isF1(c) {
		rec.Excluded("F-C01-1")
		return true
	}
	if rec.Known("F-C01-2") && isF2(c) {
		rec.Excluded("F-C01-2")
		return true
	}
	if rec.Known("F-C01-4") && isF4(c) {
		rec.Excluded("F-C01-4")
		return true
	}
	return false
}

// isF1: variable / constant where the constant is the all-ones value of a 64-bit unsigned kind.
func isF1(c *cellSpec) bool {
	k := c.tx.k
	return !c.unary && c.op == token.QUO && c.shape == "cr" && k.Class() == cUint && k.Bits() == 64 && c.cb.u == ^uint64(0)
}

// isF2: a variable of kind uint64 in an integer slot read three or more frames up
// (identifier.go intExpr, default branch).
func isF2(c *cellSpec) bool {
	if c.st == nil {
		return false
	}
	deep := false
	switch c.st.class {
	case "cap", "pcap", "block":
		deep = c.st.depth >= 3
	}
	left := c.leftVar() && c.tx.k.Name() == "uint64"
	right := c.rightVar() && c.ty.k.Name() == "uint64"
	if c.st.class == "capmix" {
		// x lives three function frames up; the parameter b is copied by `y := b` inside a
		// closure body that has its own frame for y, so b is read three frames up as well
		return left || right
	}
	return deep && (left || right)
}

// isF4: floating-point or complex variable divided by a constant zero (valid Go, rejected by the interpreter).
func isF4(c *cellSpec) bool {
	k := c.tx.k
	if c.unary || c.op != token.QUO || c.shape != "cr" {
		return false
	}
	return (k.Class() == cFloat && c.cb.f == 0) || (k.Class() == cComplex && c.cb.c == 0)
}

// isF3: pair-level. The interpreter rewrites x+0, 0+x, x*0, 0*x, x*1, 1*x, x*-1, -1*x, x/1, x/-1
// with a constant operand to x, 0 or -x also for floating-point and complex kinds, where
// the identity fails for operands with a zero, negative-zero, infinite or NaN component
// (and, for *0, a negative component).
func isF3(c *cellSpec, a, b val) bool {
	k := c.tx.k
	if c.unary || (k.Class() != cFloat && k.Class() != cComplex) || (c.shape != "cr" && c.shape != "cl") {
		return false
	}
	cv, v := b, a
	if c.shape == "cl" {
		cv, v = a, b
	}
	var cre, cim float64
	var parts []float64
	if k.Class() == cFloat {
		cre, parts = cv.f, []float64{v.f}
	} else {
		cre, cim, parts = real(cv.c), imag(cv.c), []float64{real(v.c), imag(v.c)}
	}
	if cim != 0 {
		return false
	}
	trigger := false
	switch c.op {
	case token.ADD:
		trigger = cre == 0
	case token.MUL:
		trigger = cre == 0 || cre == 1 || cre == -1
	case token.QUO:
		trigger = c.shape == "cr" && (cre == 1 || cre == -1)
	}
	if !trigger {
		return false
	}
	for _, p := range parts {
		if p == 0 || p != p || p > 1.7e308 || p < -1.7e308 || (c.op == token.MUL && cre == 0 && p < 0) {
			return true
		}
	}
	return false
}

// isF5: pair-level, const-const and unary-const shapes of floating-point and complex kinds:
// the interpreter folds typed constant expressions with run-time arithmetic; where exact
// constant arithmetic (O2) and run-time arithmetic (O3) differ, the case belongs to the finding.
func isF5(c *cellSpec, a, b val, want outcome) bool {
	k := c.tx.k
	if (c.shape != "cc" && c.shape != "c") || (k.Class() != cFloat && k.Class() != cComplex) {
		return false
	}
	o3 := c.oracle(a, b)
	return o3.pan != want.pan || !sameVal(want.k, o3.v, want.v)
}

// isF6: static type of && / || on a named boolean type (interpreter: bool) and of == / != between
// a named boolean and a constant (interpreter: the named type). Values are still compared.
func isF6(c *cellSpec) bool {
	if c.unary || !c.tx.named || c.tx.k.Class() != cBool {
		return false
	}
	switch c.op {
	case token.LAND, token.LOR:
		return true
	case token.EQL, token.NEQ:
		return c.shape != "vv"
	}
	return false
}

func tierScale(quick, thorough int) int { return rec.Scale(quick, thorough) }

func (sw *sweeper) binary(op token.Token, tx typ) {
	k := tx.k
	c0 := cellSpec{op: op, tx: tx, ty: tx}
	B := sw.boundary(k)
	C := sw.constSet(k)
	key := fmt.Sprintf("%s|%s", op, tx.src())
	r := newRng(rec.Seed(), key)
	nrand := tierScale(16, 80)

	// var-var: every storage class. quick: the long pair list for a rotating quarter of
	// the storage classes (a third for unnamed types), the short list (specials x specials
	// + random) for the others; thorough: the long list everywhere.
	longEvery := tierScale(4, 2)
	rot := int(r.next() % 64)
	// the same operand pairs go to every storage class
	longPairs := samplePairs(B, B, r, tierScale(1, 4), rec.Thorough(), 3000)
	shortPairs := samplePairs(B[:min(12, len(B))], B[:min(12, len(B))], r, 0, false, 0)
	for i := 0; i < nrand; i++ {
		p := pair{k.Random(r), k.Random(r)}
		longPairs = append(longPairs, p)
		shortPairs = append(shortPairs, p)
	}
	for si, st := range applicableStorages(2, tx, tx) {
		c := c0
		c.shape, c.form, c.st = "vv", "-", st
		if (si+rot)%longEvery == 0 {
			sw.runCell(&c, longPairs)
		} else {
			sw.runCell(&c, shortPairs)
		}
	}
	// const-right, const-left
	app1 := applicableStorages(1, tx)
	cstep := 1
	if tx.named && !rec.Thorough() {
		cstep = 2 // named variants: every other constant (rotating with the seed), the identities always
	}
	for _, shape := range []string{"cr", "cl"} {
		coff := int(r.next() % uint64(cstep))
		for ci, cv := range C {
			if ci >= 17 && (ci+coff)%cstep != 0 {
				continue
			}
			form := "typed"
			if (ci+int(r.next()%2))%2 == 0 {
				form = "untyped"
			}
			salt := int(r.next() % 1000)
			for _, st := range pickStorages(app1, tierScale(2, 4), ci*3+salt) {
				c := c0
				c.shape, c.form, c.st = shape, form, st
				vals := sampleVals(B, r, tierScale(8, 1))
				for i := 0; i < nrand/3; i++ {
					vals = append(vals, k.Random(r))
				}
				pairs := make([]pair, 0, len(vals))
				for _, v := range vals {
					if shape == "cr" {
						c.cb = cv
						pairs = append(pairs, pair{v, cv})
					} else {
						c.ca = cv
						pairs = append(pairs, pair{cv, v})
					}
				}
				sw.runCell(&c, pairs)
			}
		}
	}
	// const-const: evaluated directly, value and type from go/types
	ncc := tierScale(60, 800)
	forms := []string{"typed", "untypedR", "untypedL"}
	all := len(C)*len(C) <= ncc
	n := ncc
	if all {
		n = len(C) * len(C)
	}
	for i := 0; i < n; i++ {
		c := c0
		c.shape = "cc"
		if all {
			c.ca, c.cb = C[i/len(C)], C[i%len(C)]
		} else {
			c.ca, c.cb = C[r.next()%uint64(len(C))], C[r.next()%uint64(len(C))]
		}
		c.form = forms[r.next()%3]
		sw.runCell(&c, []pair{{c.ca, c.cb}})
	}
}

func (sw *sweeper) shift(op token.Token, tx, ty typ, salt int) {
	c0 := cellSpec{op: op, tx: tx, ty: ty}
	kx, ky := tx.k, ty.k
	B := sw.boundary(kx)
	S := shiftCounts(ky, kx.Bits())
	key := fmt.Sprintf("%s|%s|%s", op, tx.src(), ty.src())
	r := newRng(rec.Seed(), key)
	nrand := tierScale(16, 200)

	app2 := applicableStorages(2, tx, ty)
	for _, st := range pickStorages(app2, tierScale(3, 12), salt) {
		c := c0
		c.shape, c.form, c.st = "vv", "-", st
		pairs := samplePairs(sampleVals(B, r, tierScale(4, 1)), S, r, 1, true, tierScale(1500, 12000))
		for i := 0; i < nrand; i++ {
			pairs = append(pairs, pair{kx.Random(r), S[r.next()%uint64(len(S))]})
		}
		sw.runCell(&c, pairs)
	}
	// constant count (typed or untyped), variable shifted operand
	app1 := applicableStorages(1, tx)
	for ci, cv := range S {
		form := "typed"
		if (ci+salt)%2 == 0 {
			form = "untyped"
		}
		for _, st := range pickStorages(app1, tierScale(1, 4), ci*5+salt) {
			c := c0
			c.shape, c.form, c.st, c.cb = "cr", form, st, cv
			vals := sampleVals(B, r, tierScale(4, 1))
			pairs := make([]pair, 0, len(vals))
			for _, v := range vals {
				pairs = append(pairs, pair{v, cv})
			}
			sw.runCell(&c, pairs)
		}
	}
	// constant shifted operand (always typed: shifting an untyped constant by a
	// non-constant count is a documented limitation), variable count
	C := sw.constSet(kx)
	app1y := applicableStorages(1, ty)
	step := tierScale(6, 1)
	for ci := int(r.next() % uint64(step)); ci < len(C); ci += step {
		for _, st := range pickStorages(app1y, tierScale(1, 3), ci*5+salt) {
			c := c0
			c.shape, c.form, c.st, c.ca = "cl", "typed", st, C[ci]
			pairs := make([]pair, 0, len(S))
			for _, s := range S {
				pairs = append(pairs, pair{C[ci], s})
			}
			sw.runCell(&c, pairs)
		}
	}
	rec.LabelN("excluded:untyped-constant-shifted-by-variable(documented limitation)", 1)
	// const-const
	ncc := tierScale(30, 600)
	for i := 0; i < ncc; i++ {
		c := c0
		c.shape = "cc"
		c.ca, c.cb = C[r.next()%uint64(len(C))], S[r.next()%uint64(len(S))]
		c.form = []string{"typed", "untypedR"}[r.next()%2]
		sw.runCell(&c, []pair{{c.ca, c.cb}})
	}
}

func (sw *sweeper) unary(op token.Token, tx typ) {
	k := tx.k
	c0 := cellSpec{op: op, unary: true, tx: tx, ty: tx}
	B := sw.boundary(k)
	r := newRng(rec.Seed(), "unary"+op.String()+tx.src())
	for _, st := range applicableStorages(1, tx) {
		c := c0
		c.shape, c.form, c.st = "v", "-", st
		var pairs []pair
		for _, v := range B {
			pairs = append(pairs, pair{a: v})
		}
		for i := 0; i < tierScale(32, 1000); i++ {
			pairs = append(pairs, pair{a: k.Random(r)})
		}
		sw.runCell(&c, pairs)
	}
	for _, cv := range sw.constSet(k) {
		c := c0
		c.shape, c.form, c.ca = "c", "typed", cv
		sw.runCell(&c, []pair{{a: cv}})
	}
}

func TestCellSweep(t *testing.T) {
	if rec.ReplayOnly() {
		return
	}
	sw := &sweeper{e: getEngine(), t: t, bcache: map[string][]val{}, ccache: map[string][]val{}}
	idx := 0
	types := allTypes()
	var ints []typ
	for _, tx := range types {
		if isIntClass(tx.k) {
			ints = append(ints, tx)
		}
	}
	// quick tier: the named variant of a kind runs a third of its operators, rotating with the seed
	// (the named dimension only selects the type bookkeeping, the operator closures are shared)
	nidx := int(rec.Seed())
	skipNamed := func(tx typ) bool {
		nidx++
		return tx.named && !rec.Thorough() && nidx%3 != 0
	}
	for _, tx := range types {
		for _, op := range binaryOps(tx.k) {
			if skipNamed(tx) {
				rec.Label("quick-tier-skipped:named-type-unit")
				continue
			}
			idx++
			if rec.Mine(idx) {
				sw.binary(op, tx)
			}
		}
		for _, op := range unaryOps(tx.k) {
			if skipNamed(tx) {
				rec.Label("quick-tier-skipped:named-type-unit")
				continue
			}
			idx++
			if rec.Mine(idx) {
				sw.unary(op, tx)
			}
		}
	}
	// shifts: shifted type x count type; named count types for a rotating subset
	for xi, tx := range ints {
		for yi, ty := range ints {
			if !rec.Thorough() && ((ty.named && (xi+yi)%4 != 0) || (tx.named && (xi+yi+int(rec.Seed()))%3 != 0)) {
				continue
			}
			for _, op := range shiftOps {
				idx++
				if rec.Mine(idx) {
					sw.shift(op, tx, ty, xi*31+yi*7+int(rec.Seed()))
				}
			}
		}
	}
	// report which storage classes / slots exist (sanity of the sweep itself)
	var names []string
	for _, s := range allStorages {
		names = append(names, s.name)
	}
	sort.Strings(names)
	rec.Extra("storage_classes", len(names))
}
