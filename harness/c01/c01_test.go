// C01: typed expressions over basic types evaluate exactly as compiled Go.
//
// Layer 1 (this file): bounded-exhaustive cell sweep operator x kind x shape x storage
// class, oracle = Go's native operators applied by the harness through type
// parameters (O3), go/types + go/constant for everything involving constants (O2).
// Layer 2 (tree_test.go): random expression trees, oracle = typed evaluator over the
// go/ast of the very text given to the interpreter, constants from go/types.
package c01

import (
	"bytes"
	"encoding/json"
	"fmt"
	"go/token"
	"os"
	"reflect"
	"runtime"
	"runtime/debug"
	"strings"
	"testing"

	"github.com/cosmos72/gomacro/fast"
	"github.com/cosmos72/gomacro/imports"
	xr "github.com/cosmos72/gomacro/xreflect"

	"verif/harness/vlib"
)

var rec *vlib.Rec

func TestMain(m *testing.M) {
	rec = vlib.Open("C01")
	debug.SetGCPercent(400) // many short-lived closures; the live heap is small
	runtime.GOMAXPROCS(2)   // the sweep is sequential; idle GC workers only add load to a shared machine
	rec.Rule("layer 1: every cell (operator, operand type incl. a named variant of each kind, shape var-var/const-left/const-right/const-const, constant form typed/untyped, " +
		"storage class param/local/named result/captured depth 1..7/global read at depth 0..4/compiled variable via import and dot-import/boxed top-level variable, int-slot or boxed) " +
		"is run over boundary value pairs of the kind plus seed-derived random pairs; a cell is non-trivial when one of its pairs has an operand outside {0,1} or a result that wrapped, panicked or is NaN/Inf; " +
		"distinct = distinct cells. layer 2: rapid-generated expression trees (depth <= 5) over variables of all storage classes and typed/untyped constants; " +
		"non-trivial = tree with >= 3 operators, >= 2 variables of different storage classes and an intermediate value outside {0,1}; distinct = distinct (expression, values) texts")
	rec.Assume("O3: the harness applies Go's own operators to variables of the operand type through type parameters; it is compiled by gc on every run, so this is the compiled-Go result of a single run-time operation")
	rec.Assume("O2: go/types + go/constant decide validity, static type and the value of every constant (sub)expression; snippets go/types rejects are outside 'well-typed' and are dropped and counted")
	rec.Assume("the compiled result of one run-time operation does not depend on where its operands are stored, so one oracle value serves all storage classes")
	rec.Assume("named types declared by interpreted code are emulated: their values have the reflect type of the underlying kind; the static type is compared through xreflect.Type")
	os.Exit(vlib.Main(m, rec))
}

// ---------------------------------------------------------------- types

type typ struct {
	k     kindT
	named bool
}

func (t typ) src() string {
	if t.named {
		return "N" + t.k.Name()
	}
	return t.k.Name()
}

func parseTyp(s string) (typ, error) {
	named := false
	name := s
	if strings.HasPrefix(s, "N") {
		named, name = true, s[1:]
	}
	k, ok := kindByName[name]
	if !ok {
		return typ{}, fmt.Errorf("unknown type %q", s)
	}
	return typ{k, named}, nil
}

func allTypes() []typ {
	var l []typ
	for _, k := range allKinds {
		l = append(l, typ{k, false})
	}
	for _, k := range allKinds {
		l = append(l, typ{k, true})
	}
	return l
}

var boolTyp = typ{boolKind{}, false}

// ---------------------------------------------------------------- operators

var (
	arithOps   = []token.Token{token.ADD, token.SUB, token.MUL, token.QUO}
	intOnlyOps = []token.Token{token.REM, token.AND, token.OR, token.XOR, token.AND_NOT}
	eqOps      = []token.Token{token.EQL, token.NEQ}
	ordOps     = []token.Token{token.LSS, token.LEQ, token.GTR, token.GEQ}
	shiftOps   = []token.Token{token.SHL, token.SHR}
)

func isCmp(op token.Token) bool {
	switch op {
	case token.EQL, token.NEQ, token.LSS, token.LEQ, token.GTR, token.GEQ:
		return true
	}
	return false
}
func isShift(op token.Token) bool { return op == token.SHL || op == token.SHR }

func binaryOps(k kindT) []token.Token {
	var l []token.Token
	switch k.Class() {
	case cBool:
		l = append(l, token.LAND, token.LOR)
		l = append(l, eqOps...)
	case cInt, cUint:
		l = append(l, arithOps...)
		l = append(l, intOnlyOps...)
		l = append(l, eqOps...)
		l = append(l, ordOps...)
	case cFloat:
		l = append(l, arithOps...)
		l = append(l, eqOps...)
		l = append(l, ordOps...)
	case cComplex:
		l = append(l, arithOps...)
		l = append(l, eqOps...)
	case cString:
		l = append(l, token.ADD)
		l = append(l, eqOps...)
		l = append(l, ordOps...)
	}
	return l
}

func unaryOps(k kindT) []token.Token {
	switch k.Class() {
	case cBool:
		return []token.Token{token.NOT}
	case cInt, cUint:
		return []token.Token{token.ADD, token.SUB, token.XOR}
	case cFloat, cComplex:
		return []token.Token{token.ADD, token.SUB}
	}
	return nil
}

func parseOp(s string) (token.Token, error) {
	for op := token.ADD; op <= token.NOT; op++ {
		if op.String() == s {
			return op, nil
		}
	}
	for _, op := range []token.Token{token.NEQ, token.LEQ, token.GEQ, token.AND_NOT} {
		if op.String() == s {
			return op, nil
		}
	}
	return token.ILLEGAL, fmt.Errorf("unknown operator %q", s)
}

// ---------------------------------------------------------------- storage classes

type storage struct {
	name   string
	class  string // param local localvar result retn cap pcap capmix block glob imp dot full
	depth  int
	full   bool // lives in the interpreter whose top-level integer slots are exhausted
	direct bool // the expression itself is given to Compile/RunExpr1 at top level
}

func storages() []*storage {
	l := []*storage{
		{name: "param", class: "param"},
		{name: "local", class: "local"},
		{name: "localvar", class: "localvar"},
		{name: "result", class: "result"},
		{name: "retn", class: "retn"},
		{name: "capmix", class: "capmix", depth: 3},
	}
	for d := 1; d <= 7; d++ {
		l = append(l, &storage{name: fmt.Sprintf("cap%d", d), class: "cap", depth: d})
	}
	for d := 1; d <= 4; d++ {
		l = append(l, &storage{name: fmt.Sprintf("pcap%d", d), class: "pcap", depth: d})
	}
	for d := 1; d <= 4; d++ {
		l = append(l, &storage{name: fmt.Sprintf("block%d", d), class: "block", depth: d})
	}
	for d := 0; d <= 4; d++ {
		l = append(l, &storage{name: fmt.Sprintf("glob%d", d), class: "glob", depth: d, direct: d == 0})
	}
	for d := 0; d <= 1; d++ {
		l = append(l, &storage{name: fmt.Sprintf("imp%d", d), class: "imp", depth: d, direct: d == 0})
	}
	for d := 0; d <= 4; d++ {
		l = append(l, &storage{name: fmt.Sprintf("dot%d", d), class: "dot", depth: d, direct: d == 0})
	}
	for d := 0; d <= 4; d++ {
		l = append(l, &storage{name: fmt.Sprintf("full%d", d), class: "full", depth: d, direct: d == 0, full: true})
	}
	return l
}

var allStorages = storages()

func storageByName(name string) *storage {
	for _, s := range allStorages {
		if s.name == name {
			return s
		}
	}
	return nil
}

// applicable: compiled variables exist only with unnamed types; capmix needs two variables.
func (s *storage) applicable(nvars int, ts ...typ) bool {
	if s.class == "imp" || s.class == "dot" {
		for _, t := range ts {
			if t.named {
				return false
			}
		}
	}
	if s.class == "capmix" && nvars < 2 {
		return false
	}
	return nvars > 0
}

// slot reports how a variable of type t is stored in this class.
func (s *storage) slot(t typ) string {
	if t.k.Class() == cString {
		return "boxed"
	}
	switch s.class {
	case "imp", "dot", "full":
		return "boxed"
	}
	return "int-slot"
}

// svar is one variable operand.
type svar struct {
	p string // parameter name of the generated function
	n string // name used inside the expression
	t typ
	v int // 0 = left operand, 1 = right operand
}

func (s *storage) varName(side int, t typ) string {
	xy := "xy"[side : side+1]
	switch s.class {
	case "glob":
		return "g" + xy + "_" + t.src()
	case "imp":
		return "vars.V" + xy + "_" + t.src()
	case "dot":
		return "D" + xy + "_" + t.src()
	case "full":
		return "h" + xy + "_" + t.src()
	}
	return xy
}

func nest(depth int, R, inner string) string {
	for i := 0; i < depth; i++ {
		inner = "return func() " + R + " { " + inner + " }()"
	}
	return inner
}

// render returns the source given to the interpreter: a function literal taking the
// variable operands as parameters (or the bare expression for direct classes).
func (s *storage) render(vars []svar, R, E string) string {
	var params, names, pnames []string
	var namedParams []string
	for _, v := range vars {
		params = append(params, v.p+" "+v.t.src())
		namedParams = append(namedParams, v.n+" "+v.t.src())
		names = append(names, v.n)
		pnames = append(pnames, v.p)
	}
	P := strings.Join(params, ", ")
	NP := strings.Join(namedParams, ", ")
	assign := strings.Join(names, ", ") + " = " + strings.Join(pnames, ", ")
	define := strings.Join(names, ", ") + " := " + strings.Join(pnames, ", ")
	ret := "return " + E
	switch s.class {
	case "param":
		return "(func(" + NP + ") " + R + " { " + ret + " })"
	case "local":
		return "(func(" + P + ") " + R + " { " + define + "; " + ret + " })"
	case "localvar":
		var sb strings.Builder
		for _, v := range vars {
			sb.WriteString("var " + v.n + " " + v.t.src() + " = " + v.p + "; ")
		}
		return "(func(" + P + ") " + R + " { " + sb.String() + ret + " })"
	case "result":
		blanks := strings.Repeat("_, ", len(vars))
		return "(func(" + P + ") " + R + " { f := func() (" + NP + ", r_ " + R + ") { " + assign + "; r_ = " + E + "; return }; " +
			blanks + "r_ := f(); return r_ })"
	case "retn":
		return "(func(" + NP + ") (r_ " + R + ") { r_ = " + E + "; return })"
	case "cap":
		return "(func(" + P + ") " + R + " { " + define + "; " + nest(s.depth, R, ret) + " })"
	case "pcap":
		return "(func(" + NP + ") " + R + " { " + nest(s.depth, R, ret) + " })"
	case "capmix":
		return "(func(" + P + ") " + R + " { " + vars[0].n + " := " + vars[0].p + "; return func() " + R + " { return func() " + R + " { " +
			vars[1].n + " := " + vars[1].p + "; return func() " + R + " { " + ret + " }() }() }() })"
	case "block":
		inner := ret
		for d := s.depth; d >= 1; d-- {
			prev := "len(\"\")"
			if d > 1 {
				prev = fmt.Sprintf("k%d", d-1)
			}
			use := ""
			if d == s.depth {
				use = fmt.Sprintf("_ = k%d; ", d)
			}
			inner = fmt.Sprintf("{ k%d := %s; %s%s }", d, prev, use, inner)
		}
		return "(func(" + P + ") " + R + " { " + define + "; " + inner + " })"
	case "glob", "full":
		if s.direct {
			return E
		}
		return "(func(" + P + ") " + R + " { " + assign + "; " + nest(s.depth-1, R, ret) + " })"
	case "imp", "dot":
		if s.direct {
			return E
		}
		return "(func() " + R + " { " + nest(s.depth-1, R, ret) + " })"
	}
	panic("render: unknown storage class " + s.class)
}

// ---------------------------------------------------------------- interpreters

type engine struct {
	main, full *fast.Interp
	compiled   map[string]reflect.Value // compiled variables by name (V?_T, D?_T)
	setters    map[string]reflect.Value
	replaying  bool // no known-finding exclusions while replaying
	out        bytes.Buffer
}

var eng *engine

func getEngine() *engine {
	if eng == nil {
		eng = newEngine()
	}
	return eng
}

func newEngine() *engine {
	e := &engine{compiled: map[string]reflect.Value{}, setters: map[string]reflect.Value{}}
	vars := imports.Package{Name: "vars", Binds: map[string]reflect.Value{}}
	dvars := imports.Package{Name: "dvars", Binds: map[string]reflect.Value{}}
	for _, k := range allKinds {
		rt := k.ToReflect(val{}).Type()
		for _, xy := range []string{"x", "y"} {
			v := reflect.New(rt).Elem()
			vars.Binds["V"+xy+"_"+k.Name()] = v
			e.compiled["vars.V"+xy+"_"+k.Name()] = v
			d := reflect.New(rt).Elem()
			dvars.Binds["D"+xy+"_"+k.Name()] = d
			e.compiled["D"+xy+"_"+k.Name()] = d
		}
	}
	imports.Packages["verif/vars"] = vars
	imports.Packages["verif/dvars"] = dvars

	e.main = e.newInterp()
	e.mustEval(e.main, `import "verif/vars"`)
	e.mustEval(e.main, `import . "verif/dvars"`)
	e.declare(e.main, "g")

	e.full = e.newInterp()
	// exhaust the integer slots of the top-level frame: once an address of a slot is
	// taken the array cannot grow, and later numeric variables are boxed (Comp.NewBind)
	e.mustEval(e.full, "var zz0 int")
	e.mustEval(e.full, "pz0 := &zz0")
	e.mustEval(e.full, "*pz0")
	for i := 0; i < 3; i++ {
		var sb strings.Builder
		sb.WriteString("var ")
		for j := 0; j < 600; j++ {
			if j > 0 {
				sb.WriteString(", ")
			}
			fmt.Fprintf(&sb, "fill%d_%d", i, j)
		}
		sb.WriteString(" int")
		e.mustEval(e.full, sb.String())
		e.mustEval(e.full, "*pz0")
	}
	e.declare(e.full, "h")
	for _, t := range allTypes() {
		if t.k.Class() == cString {
			continue
		}
		b := e.full.Comp.Binds["hx_"+t.src()]
		if b == nil || b.Desc.Class() != fast.VarBind {
			panic(fmt.Sprintf("harness: variable hx_%s of the slot-exhausted interpreter is not boxed: %v", t.src(), b))
		}
		b = e.main.Comp.Binds["gx_"+t.src()]
		if b == nil || b.Desc.Class() != fast.IntBind {
			panic(fmt.Sprintf("harness: variable gx_%s is not in an integer slot: %v", t.src(), b))
		}
	}
	return e
}

func (e *engine) newInterp() *fast.Interp {
	ir := fast.New()
	ir.Comp.Globals.Stdout = &e.out
	ir.Comp.Globals.Stderr = &e.out
	return ir
}

func (e *engine) mustEval(ir *fast.Interp, src string) {
	if p := vlib.Try(func() { ir.Eval(src) }); p != nil {
		panic(fmt.Sprintf("harness setup: %s: %v", src, p))
	}
}

// declare the named variant of every kind and two top-level variables per type.
func (e *engine) declare(ir *fast.Interp, prefix string) {
	for _, k := range allKinds {
		e.mustEval(ir, "type N"+k.Name()+" "+k.Name())
	}
	for _, t := range allTypes() {
		e.mustEval(ir, "var "+prefix+"x_"+t.src()+" "+t.src())
		e.mustEval(ir, "var "+prefix+"y_"+t.src()+" "+t.src())
	}
}

func (e *engine) interp(s *storage) *fast.Interp {
	if s.full {
		return e.full
	}
	return e.main
}

// setVar stores v into the variable that storage class s uses for operand `side`.
func (e *engine) setVar(s *storage, side int, t typ, v val) error {
	name := s.varName(side, t)
	switch s.class {
	case "imp", "dot":
		e.compiled[name].Set(t.k.ToReflect(v))
		return nil
	}
	key := s.class + ":" + name
	set, ok := e.setters[key]
	if !ok {
		ir := e.interp(s)
		var fv xr.Value
		if p := vlib.Try(func() { fv, _ = ir.Eval1("(func(a " + t.src() + ") bool { " + name + " = a; return true })") }); p != nil {
			return fmt.Errorf("cannot compile the setter of %s: %v", name, p)
		}
		// (the setter returns a value only because a function with a single complex128
		// parameter and no result panics in func1ret0.go: see NOTES.md, side findings)
		set = fv.ReflectValue()
		e.setters[key] = set
	}
	set.Call([]reflect.Value{t.k.ToReflect(v)})
	return nil
}

// ---------------------------------------------------------------- one cell

// cellSpec describes one compiled piece of interpreter source: everything except the
// values of the variable operands.
type cellSpec struct {
	op     token.Token
	unary  bool
	tx, ty typ    // operand types; ty differs from tx only for shifts; unused for unary
	shape  string // binary: vv cl cr cc; unary: v c
	form   string // rendering of constants: typed | untyped (cc: typed | untypedL | untypedR)
	st     *storage
	ca, cb val // constant operands, where the shape has them
}

func (c *cellSpec) resultTyp() typ {
	if !c.unary && isCmp(c.op) {
		return boolTyp
	}
	return c.tx
}

func (c *cellSpec) leftVar() bool  { return c.shape == "vv" || c.shape == "cr" || c.shape == "v" }
func (c *cellSpec) rightVar() bool { return !c.unary && (c.shape == "vv" || c.shape == "cl") }

func constText(t typ, v val, untyped bool) (string, bool) {
	lit, ok := t.k.Lit(v)
	if !ok {
		return "", false
	}
	if untyped {
		return "(" + lit + ")", true
	}
	return t.src() + "(" + lit + ")", true
}

// expr renders the expression with the given names for the variable operands.
func (c *cellSpec) expr(xn, yn string) (string, bool) {
	var X, Y string
	var ok bool
	if c.leftVar() {
		X = xn
	} else {
		if X, ok = constText(c.tx, c.ca, c.form == "untypedL" || (c.form == "untyped" && c.shape == "cl")); !ok {
			return "", false
		}
	}
	if c.unary {
		return "(" + c.op.String() + X + ")", true
	}
	if c.rightVar() {
		Y = yn
	} else {
		if Y, ok = constText(c.ty, c.cb, c.form == "untypedR" || (c.form == "untyped" && c.shape == "cr")); !ok {
			return "", false
		}
	}
	return "(" + X + " " + c.op.String() + " " + Y + ")", true
}

func (c *cellSpec) vars() []svar {
	var l []svar
	if c.leftVar() {
		l = append(l, svar{p: "a", n: c.st.varName(0, c.tx), t: c.tx, v: 0})
	}
	if c.rightVar() {
		l = append(l, svar{p: "b", n: c.st.varName(1, c.ty), t: c.ty, v: 1})
	}
	return l
}

func (c *cellSpec) key() string {
	ty := ""
	if !c.unary && isShift(c.op) {
		ty = "," + c.ty.src()
	}
	u := ""
	if c.unary {
		u = "unary"
	}
	stn, slot := "-", "-"
	if c.st != nil {
		stn = c.st.name
		slot = c.st.slot(c.tx)
	}
	return fmt.Sprintf("%s%s|%s%s|%s|%s|%s|%s", u, c.op, c.tx.src(), ty, c.shape, c.form, stn, slot)
}

// expected value of the operation on (a, b): O3.
type outcome struct {
	k   kindT
	v   val
	pan string
}

func (o outcome) String() string {
	if o.pan != "" {
		return "panic(" + o.pan + ")"
	}
	return o.k.Canon(o.v)
}

func (c *cellSpec) oracle(a, b val) outcome {
	k := c.tx.k
	if c.unary {
		return outcome{k: k, v: k.Un(c.op, a)}
	}
	switch {
	case isShift(c.op):
		n, p := shiftCount(c.ty.k, b)
		if p != "" {
			return outcome{k: k, pan: p}
		}
		return outcome{k: k, v: k.Shift(c.op, a, n)}
	case isCmp(c.op):
		return outcome{k: boolKind{}, v: val{b: k.Cmp(c.op, a, b)}}
	}
	r, p := k.Bin(c.op, a, b)
	return outcome{k: k, v: r, pan: p}
}

func classifyPanic(p interface{}) string {
	msg := fmt.Sprint(p)
	if err, ok := p.(error); ok {
		msg = err.Error()
	}
	switch {
	case strings.Contains(msg, "divide by zero"):
		return pDiv0
	case strings.Contains(msg, "negative shift amount"):
		return pNegShift
	}
	if len(msg) > 200 {
		msg = msg[:200]
	}
	return "other: " + msg
}

func normType(s string) string {
	s = strings.TrimPrefix(s, "main.")
	s = strings.TrimPrefix(s, "p.")
	switch s {
	case "byte":
		return "uint8"
	case "rune":
		return "int32"
	}
	return s
}

// compiledCell is a cellSpec compiled by the interpreter.
type compiledCell struct {
	c    *cellSpec
	src  string
	fn   reflect.Value // function classes
	expr *fast.Expr    // direct classes
	vars []svar
	typ  string // static type reported by the interpreter (direct classes and cc)
}

// caseJSON is the replay form of one evaluated case.
type caseJSON struct {
	Layer   int    `json:"layer"`
	Op      string `json:"op"`
	Unary   bool   `json:"unary,omitempty"`
	Type    string `json:"type"`
	Type2   string `json:"type2,omitempty"`
	Shape   string `json:"shape"`
	Form    string `json:"form"`
	Storage string `json:"storage,omitempty"`
	A       string `json:"a"`
	B       string `json:"b,omitempty"`
	Src     string `json:"interpreter_source,omitempty"` // informative
	Note    string `json:"note,omitempty"`
}

func (c *cellSpec) toJSON(a, b val, src, note string) []byte {
	j := caseJSON{Layer: 1, Op: c.op.String(), Unary: c.unary, Type: c.tx.src(), Shape: c.shape, Form: c.form, Src: src, Note: note}
	j.A = encodeVal(c.tx.k, a)
	if !c.unary {
		j.Type2 = c.ty.src()
		j.B = encodeVal(c.ty.k, b)
	}
	if c.st != nil {
		j.Storage = c.st.name
	}
	data, _ := json.MarshalIndent(j, "", " ")
	return data
}

func specFromJSON(j caseJSON) (*cellSpec, val, val, error) {
	var a, b val
	op, err := parseOp(j.Op)
	if err != nil {
		return nil, a, b, err
	}
	tx, err := parseTyp(j.Type)
	if err != nil {
		return nil, a, b, err
	}
	c := &cellSpec{op: op, unary: j.Unary, tx: tx, ty: tx, shape: j.Shape, form: j.Form}
	if a, err = decodeVal(tx.k, j.A); err != nil {
		return nil, a, b, err
	}
	if !j.Unary {
		if j.Type2 != "" {
			if c.ty, err = parseTyp(j.Type2); err != nil {
				return nil, a, b, err
			}
		}
		if b, err = decodeVal(c.ty.k, j.B); err != nil {
			return nil, a, b, err
		}
	}
	if j.Storage != "" {
		if c.st = storageByName(j.Storage); c.st == nil {
			return nil, a, b, fmt.Errorf("unknown storage %q", j.Storage)
		}
	} else if c.shape != "cc" && c.shape != "c" {
		return nil, a, b, fmt.Errorf("storage missing")
	}
	if !c.leftVar() {
		c.ca = a
	}
	if !c.unary && !c.rightVar() {
		c.cb = b
	}
	return c, a, b, nil
}

// errDropped: the snippet is outside the property's domain (go/types rejects it or a constant has no literal).
type errDropped struct{ why string }

func (e errDropped) Error() string { return "dropped: " + e.why }

// compile vets the cell with O2 and compiles it with the interpreter.
// A compile failure of a snippet go/types accepts is a violation (returned as plain error).
func (e *engine) compile(c *cellSpec) (*compiledCell, error) {
	o2expr, ok := c.expr("x_"+c.tx.src(), "y_"+c.ty.src())
	if !ok {
		return nil, errDropped{"constant has no literal form"}
	}
	tv, err := o2Eval(o2expr)
	if err != nil {
		return nil, errDropped{o2Reason(err)}
	}
	R := c.resultTyp().src()
	if want := normType(o2TypeString(tv.Type)); want != R {
		// the harness computes the result type itself; disagreement with go/types is a harness bug
		panic(fmt.Sprintf("harness: result type of %s is %s by go/types, %s by the harness", o2expr, want, R))
	}
	cc := &compiledCell{c: c}
	if c.st == nil { // const-const: direct evaluation, no variables
		cc.src = o2expr
	} else {
		cc.vars = c.vars()
		var xn, yn string
		xn, yn = c.st.varName(0, c.tx), c.st.varName(1, c.ty)
		E, _ := c.expr(xn, yn)
		cc.src = c.st.render(cc.vars, R, E)
	}
	ir := e.main
	if c.st != nil {
		ir = e.interp(c.st)
	}
	if c.st == nil || c.st.direct {
		if p := vlib.Try(func() { cc.expr = ir.Compile(cc.src) }); p != nil {
			return cc, fmt.Errorf("interpreter rejects %s (valid Go, type %s): %v", cc.src, R, p)
		}
		if cc.expr == nil || cc.expr.Type == nil {
			return cc, fmt.Errorf("interpreter compiles %s to nothing", cc.src)
		}
		cc.typ = normType(cc.expr.Type.String())
		if cc.typ != R && !e.replaying && rec.Known("F-C01-6") && isF6(c) {
			rec.Excluded("F-C01-6")
		} else if cc.typ != R {
			return cc, fmt.Errorf("static type of %s: interpreter %s, Go %s", cc.src, cc.typ, R)
		}
		return cc, nil
	}
	var fv xr.Value
	if p := vlib.Try(func() { fv, _ = ir.Eval1(cc.src) }); p != nil {
		return cc, fmt.Errorf("interpreter rejects %s (valid Go): %v", cc.src, p)
	}
	cc.fn = fv.ReflectValue()
	if cc.fn.Kind() != reflect.Func {
		return cc, fmt.Errorf("interpreter evaluates %s to a %v, want a function", cc.src, kindOf(cc.fn))
	}
	return cc, nil
}

// run evaluates the compiled cell on operands (a, b) and returns what the interpreter produced.
func (e *engine) run(cc *compiledCell, a, b val) (outcome, error) {
	c := cc.c
	rk := c.resultTyp().k
	var res reflect.Value
	var p interface{}
	operands := [2]val{a, b}
	if cc.expr != nil {
		if c.st != nil {
			for _, v := range cc.vars {
				if err := e.setVar(c.st, v.v, v.t, operands[v.v]); err != nil {
					return outcome{}, err
				}
			}
		}
		ir := e.main
		if c.st != nil {
			ir = e.interp(c.st)
		}
		p = vlib.Try(func() {
			v, _ := ir.RunExpr1(cc.expr)
			res = v.ReflectValue()
		})
	} else {
		var args []reflect.Value
		switch c.st.class {
		case "imp", "dot":
			for _, v := range cc.vars {
				if err := e.setVar(c.st, v.v, v.t, operands[v.v]); err != nil {
					return outcome{}, err
				}
			}
		default:
			for _, v := range cc.vars {
				args = append(args, v.t.k.ToReflect(operands[v.v]))
			}
		}
		p = vlib.Try(func() {
			out := cc.fn.Call(args)
			if len(out) != 1 {
				panic(fmt.Sprintf("harness: %d results", len(out)))
			}
			res = out[0]
		})
	}
	if p != nil {
		return outcome{k: rk, pan: classifyPanic(p)}, nil
	}
	v, err := rk.FromReflect(res)
	if err != nil {
		return outcome{}, fmt.Errorf("result of %s: %v", cc.src, err)
	}
	return outcome{k: rk, v: v}, nil
}

// checkOne compares one evaluation with the oracle; returns a non-empty message on disagreement.
func (e *engine) checkOne(cc *compiledCell, a, b val, want outcome) string {
	got, err := e.run(cc, a, b)
	if err != nil {
		return err.Error()
	}
	if got.pan != want.pan || (want.pan == "" && !sameVal(want.k, got.v, want.v)) {
		return fmt.Sprintf("%s with a=%s b=%s: interpreter %v, compiled Go %v", cc.src, cc.c.tx.k.Canon(a), cc.c.ty.k.Canon(b), got, want)
	}
	return ""
}

// ---------------------------------------------------------------- replay

func replay(content []byte) error {
	var j caseJSON
	if err := json.Unmarshal(content, &j); err != nil {
		return nil // not a C01 case
	}
	switch j.Layer {
	case 1:
		return replayCell(j)
	case 2:
		return replayTree(content)
	}
	return nil
}

func replayCell(j caseJSON) error {
	c, a, b, err := specFromJSON(j)
	if err != nil {
		return nil // malformed: nothing to check
	}
	e := getEngine()
	e.replaying = true
	defer func() { e.replaying = false }()
	cc, err := e.compile(c)
	if err != nil {
		if _, dropped := err.(errDropped); dropped {
			return nil
		}
		return err
	}
	want, err := wantOf(c, a, b)
	if err != nil {
		return nil
	}
	if msg := e.checkOne(cc, a, b, want); msg != "" {
		return fmt.Errorf("%s", msg)
	}
	return nil
}

// wantOf: O3 when a variable is involved, O2 for const-const.
func wantOf(c *cellSpec, a, b val) (outcome, error) {
	if c.shape == "cc" || c.shape == "c" {
		src, _ := c.expr("", "")
		tv, err := o2Eval(src)
		if err != nil {
			return outcome{}, err
		}
		rk := c.resultTyp().k
		v, err := rk.FromConst(tv.Value)
		if err != nil {
			return outcome{}, err
		}
		return outcome{k: rk, v: v}, nil
	}
	return c.oracle(a, b), nil
}

func TestReplays(t *testing.T) {
	rec.RunReplays(t, replay)
}
