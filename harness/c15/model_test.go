// C15 reference model: an explicit environment name -> (class, type, value) maintained
// from the successful steps only, plus "observers" (pointers, closures, copies of
// function values) that were created under an earlier definition of a name.
package c15

import (
	"fmt"
	"sort"
	"strconv"
	"strings"
)

// ---------------------------------------------------------------- types and values

type field struct{ Name, Typ string }

type layout struct {
	Src    string  // text after "type T "
	Fields []field // nil for a named basic type
	Basic  string  // underlying basic type of a named basic type
}

var layouts = []layout{
	{Src: "struct{A int}", Fields: []field{{"A", "int"}}},
	{Src: "struct{B string; A int}", Fields: []field{{"B", "string"}, {"A", "int"}}},
	{Src: "struct{A string}", Fields: []field{{"A", "string"}}},
	{Src: "struct{A int; C float64}", Fields: []field{{"A", "int"}, {"C", "float64"}}},
	{Src: "int", Basic: "int"},
	{Src: "string", Basic: "string"},
}

var basicTypes = []string{"int", "string", "float64", "bool", "uint8", "[]int"}

func isBasic(t string) bool {
	for _, b := range basicTypes {
		if b == t {
			return true
		}
	}
	return false
}

// incarnation: one successful declaration of a named type.
type incarnation struct {
	Alias   bool // declared as "type Name = layout"
	ID      int
	Name    string
	Lay     int
	Methods map[string]*method
}

type method struct {
	K     int
	Taint string
}

func (inc *incarnation) hasIntA() bool {
	for _, f := range layouts[inc.Lay].Fields {
		if f.Name == "A" && f.Typ == "int" {
			return true
		}
	}
	return false
}

// typeRef is a basic type (Basic != "") or an incarnation of a named type.
type typeRef struct {
	Basic string
	Inc   *incarnation
}

func (t typeRef) same(u typeRef) bool { return t.Basic == u.Basic && t.Inc == u.Inc }

// text is what xreflect prints for the type.
func (t typeRef) text() string {
	if t.Inc != nil {
		if t.Inc.Alias {
			return layouts[t.Inc.Lay].Src // an alias has no name of its own
		}
		return "main." + t.Inc.Name
	}
	return t.Basic
}

// src is how the type is written in source (valid only while the incarnation is current).
func (t typeRef) src() string {
	if t.Inc != nil {
		return t.Inc.Name
	}
	return t.Basic
}

// intClass mirrors which variables gomacro keeps in its unboxed slot array; it is used
// ONLY to delimit the exclusion of known finding F-C15-4 (slot reuse), never as oracle.
func (t typeRef) intClass() bool {
	b := t.Basic
	if t.Inc != nil {
		b = layouts[t.Inc.Lay].Basic
	}
	switch b {
	case "int", "float64", "bool", "uint8":
		return true
	}
	return false
}

type value struct {
	Seed int
	Zero bool
}

func basicLit(typ string, v value) (src, want string) {
	n := v.Seed
	switch typ {
	case "int":
		if v.Zero {
			n = 0
		}
		return strconv.Itoa(n), strconv.Itoa(n)
	case "string":
		if v.Zero {
			return `""`, ""
		}
		return strconv.Quote("s" + strconv.Itoa(n)), "s" + strconv.Itoa(n)
	case "float64":
		if v.Zero {
			return "0.0", "0"
		}
		return strconv.Itoa(n) + ".5", fmt.Sprint(float64(n) + 0.5)
	case "bool":
		b := n%2 == 0 && !v.Zero
		return strconv.FormatBool(b), strconv.FormatBool(b)
	case "uint8":
		if v.Zero {
			n = 0
		}
		n &= 255
		return "uint8(" + strconv.Itoa(n) + ")", strconv.Itoa(n)
	case "[]int":
		if v.Zero {
			return "[]int(nil)", "[]"
		}
		return fmt.Sprintf("[]int{%d, %d}", n, n+1), fmt.Sprintf("[%d %d]", n, n+1)
	}
	panic("bad basic type " + typ)
}

// lit renders a value of type t: source text and the text fmt.Sprint gives for it.
func lit(t typeRef, v value) (src, want string) {
	if t.Inc == nil {
		return basicLit(t.Basic, v)
	}
	l := layouts[t.Inc.Lay]
	if l.Fields == nil {
		s, w := basicLit(l.Basic, v)
		return t.Inc.Name + "(" + s + ")", w
	}
	var ss, ws []string
	for i, f := range l.Fields {
		s, w := basicLit(f.Typ, value{Seed: v.Seed + i, Zero: v.Zero})
		ss = append(ss, f.Name+": "+s)
		ws = append(ws, w)
	}
	return t.Inc.Name + "{" + strings.Join(ss, ", ") + "}", "{" + strings.Join(ws, " ") + "}"
}

// ---------------------------------------------------------------- environment

type cell struct {
	ID  int
	Typ typeRef
	Val value
	// Taint != "": nothing is asserted about this variable any more (reason).
	Taint string
	// ByNameTaint / PtrTaint: exclusion of F-C15-4: observers that reach the variable
	// through its name binding (closures, function bodies) resp. through a pointer are
	// not asserted any more, the variable's slot having been reused with another type.
	ByNameTaint string
	PtrTaint    string
	// ValueOpen: the variable's name was redefined with the same type; whether
	// observers created earlier see the old or the new variable's value is not
	// promised, so only type and readability of observers are asserted.
	ValueOpen bool
}

type fndef struct {
	Sig  int    // index in sigs
	Body string // "const" | "read" | "arg"
	K    int
	Dep  *cell // variable read by the body ("read")
	// ByNameTaint: excluded by F-C15-4 (the body reads a variable whose slot was reused)
	Taint string
}

type sig struct {
	Params string
	Result string
	Call   string // argument list used to call it
}

var sigs = []sig{
	{"()", "int", "()"},
	{"()", "string", "()"},
	{"(a int)", "int", "(3)"},
	{"()", "float64", "()"},
}

type binding struct {
	Class string // "var" "const" "func" "limbo"
	Cell  *cell
	CTyp  string // const: declared basic type ("" = untyped)
	CDef  string // const: default type
	CVal  value
	Fn    *fndef
	Taint string
	// Chain: variables that (by gomacro's slot-reuse rule) share the slot of this
	// name; used only to delimit the F-C15-4 exclusion.
	Chain []*cell
}

type observer struct {
	Name   string
	Kind   string // "ptr" "clo" "fval"
	Target *cell  // ptr, clo
	Fn     *fndef // fval (snapshot)
	Taint  string
}

type model struct {
	Names     map[string]*binding
	Types     map[string]*incarnation // current incarnation of every type name
	Poisoned  map[string]bool         // type names not usable any more (F-C15-2 exclusion)
	AllIncs   []*incarnation
	Observers []*observer
	Cells     []*cell
	nextCell  int
	nextObs   int
}

func newModel() *model {
	return &model{Names: map[string]*binding{}, Types: map[string]*incarnation{}, Poisoned: map[string]bool{}}
}

func (m *model) sortedNames() []string {
	l := make([]string, 0, len(m.Names))
	for n := range m.Names {
		l = append(l, n)
	}
	sort.Strings(l)
	return l
}

func (m *model) sortedTypes() []string {
	l := make([]string, 0, len(m.Types))
	for n := range m.Types {
		l = append(l, n)
	}
	sort.Strings(l)
	return l
}

func (m *model) newCell(t typeRef, v value) *cell {
	m.nextCell++
	c := &cell{ID: m.nextCell, Typ: t, Val: v}
	m.Cells = append(m.Cells, c)
	return c
}

// typeUsable: t can be written in source and denotes the modelled incarnation.
func (m *model) typeUsable(t typeRef) bool {
	if t.Inc == nil {
		return true
	}
	return m.Types[t.Inc.Name] == t.Inc && !m.Poisoned[t.Inc.Name]
}

func (m *model) resolveType(name string) (typeRef, bool) {
	if isBasic(name) {
		return typeRef{Basic: name}, true
	}
	if inc := m.Types[name]; inc != nil && !m.Poisoned[name] {
		return typeRef{Inc: inc}, true
	}
	return typeRef{}, false
}

// liveVars returns names bound to untainted variables, sorted.
func (m *model) liveVars() []string {
	var l []string
	for _, n := range m.sortedNames() {
		b := m.Names[n]
		if b.Class == "var" && b.Taint == "" && b.Cell.Taint == "" {
			l = append(l, n)
		}
	}
	return l
}

func (m *model) liveFuncs() []string {
	var l []string
	for _, n := range m.sortedNames() {
		b := m.Names[n]
		if b.Class == "func" && b.Taint == "" {
			l = append(l, n)
		}
	}
	return l
}

func (m *model) liveConsts() []string {
	var l []string
	for _, n := range m.sortedNames() {
		b := m.Names[n]
		if b.Class == "const" && b.Taint == "" {
			l = append(l, n)
		}
	}
	return l
}

// defined: the name has an asserted definition (limbo and tainted names do not count).
func (m *model) defined(name string) bool {
	b := m.Names[name]
	if b == nil || b.Class == "limbo" || b.Taint != "" {
		return false
	}
	if b.Class == "var" && b.Cell.Taint != "" {
		return false
	}
	return true
}

// fnResult is the text fmt.Sprint gives for the result of calling fn the modelled way.
func fnResult(fn *fndef) (want string, open bool) {
	s := sigs[fn.Sig]
	switch fn.Body {
	case "read":
		_, w := lit(fn.Dep.Typ, fn.Dep.Val)
		return w, fn.Dep.ValueOpen
	case "arg":
		return strconv.Itoa(3 + fn.K), false
	}
	_, w := basicLit(s.Result, value{Seed: fn.K})
	return w, false
}
