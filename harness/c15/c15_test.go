// C15: a failed evaluation leaves earlier definitions intact; redefinitions do not
// change the type or readability of variables declared with the previous definition.
// Oracle: explicit environment model (model_test.go) + a compiled hook that every
// failing input calls before its faulty statement.
package c15

import (
	"bytes"
	"encoding/json"
	"errors"
	"fmt"
	"os"
	"runtime/debug"
	"strconv"
	"strings"
	"testing"

	"github.com/cosmos72/gomacro/base"
	"github.com/cosmos72/gomacro/fast"
	xr "github.com/cosmos72/gomacro/xreflect"
	"pgregory.net/rapid"

	"verif/harness/vlib"
)

var rec *vlib.Rec

const (
	F1 = "F-C15-1" // failing input keeps the compile-time rebinding of names it redeclares
	F2 = "F-C15-2" // type redefinition mutates the named type in place
	F3 = "F-C15-3" // failed method declaration leaves a nil method in the method set
	F4 = "F-C15-4" // variable redefinition reuses the slot: old closures read the new variable under the old type
	F5 = "F-C15-5" // code left in the buffer by a failed compound statement is run by the next var/const declaration
)

func TestMain(m *testing.M) {
	// every history needs its own interpreter and fast.New() builds a new type universe
	// (imports through go/importer): most of the run time is allocation, so collect less often
	debug.SetGCPercent(800)
	fast.New() // the first interpreter of a process costs ~1 s (much more under load): keep it out of rapid's per-case timing
	rec = vlib.Open("C15")
	rec.Rule("cases = histories (rapid state machine, 4-50 steps) over ONE fast.Interp: valid var/const/func/type/method declarations, assignments, pointers, closures and copies of function values, " +
		"interleaved with inputs that fail to compile at every stage (scanner, parser, undefined identifier, type mismatch, argument count, label, faulty function body of an existing/new function, " +
		"faulty method after methodAdd, faulty type declaration) alone or as first/middle/last statement of a multi-statement input, through Compile+RunExpr (= Interp.Eval) and through Interp.EvalReader; " +
		"after every step every modelled name and every observer is read back. non-trivial = history containing a failing input that names an existing function, " +
		"or a redefinition followed by a read of a variable of the old definition (old cell through a pointer/closure, or a variable of an old type incarnation); distinct = distinct histories")
	rec.Assume("unit of 'an evaluation': Interp.Eval(src)/Compile(src)+RunExpr = the whole src (parsed and compiled completely before anything runs, fast/interpreter.go Eval, fast/repl.go Compile); Interp.EvalReader/REPL = each chunk returned by ReadMultiline (a line with balanced brackets), fast/repl.go ReadParseEvalPrint")
	rec.Assume("a step counts as 'failed to compile' when Interp.Compile panics (Eval mode) or EvalReader returns an error (reader mode; the faults used are compile-time faults, confirmed by TestStageProbes)")
	rec.Assume("nothing is asserted about names first introduced by a failed input (the property speaks of names defined before it); they are 'limbo' until successfully declared")
	rec.Assume("when a variable is redefined with the SAME type, whether earlier pointers/closures see the old or the new variable's value is not asserted (not promised); only their type and readability")
	rec.Assume("harness go.mod: go 1.23 with godebug default=go1.18 (the settings of gomacro's own suite)")
	os.Exit(vlib.Main(m, rec))
}

// ---------------------------------------------------------------- plain form of a history

type Op struct {
	K    string `json:"k"` // var const func type method ptr clo fval assign pset hook fail
	Name string `json:"name,omitempty"`
	Typ  string `json:"typ,omitempty"`
	Init string `json:"init,omitempty"` // var: lit short zero copy
	Ref  string `json:"ref,omitempty"`  // copy source / ptr,clo target / fval func / func "read" dep / method receiver type
	Seed int    `json:"seed,omitempty"`
	Lay  int    `json:"lay,omitempty"`
	Sig  int    `json:"sig,omitempty"`
	Body string `json:"body,omitempty"`
	// fail
	Fault      string `json:"fault,omitempty"`
	Stage      string `json:"stage,omitempty"`
	FaultSrc   string `json:"fault_src,omitempty"`
	Affects    string `json:"affects,omitempty"`  // existing or new name the faulty statement declares
	AffKind    string `json:"aff_kind,omitempty"` // var func method type const
	Pre        []Op   `json:"pre,omitempty"`
	Post       []Op   `json:"post,omitempty"`
	Sep        string `json:"sep,omitempty"`
	Reader     bool   `json:"reader,omitempty"`
	PreHooks   int    `json:"pre_hooks,omitempty"`   // reader mode: hook calls on their own earlier lines
	HookForm   string `json:"hook_form,omitempty"`   // "" assign var if
	Wrap       string `json:"wrap,omitempty"`        // "" block if for: compound statement around hook + fault
	NoReadback bool   `json:"no_readback,omitempty"` // the read-back of the model is left to the next step
	Whole      bool   `json:"whole,omitempty"`       // not reader: call Interp.Eval itself instead of Compile + RunExpr
	Trap       bool   `json:"trap,omitempty"`        // reader mode: OptTrapPanic left on (errors are printed, not returned)
	Src        string `json:"src,omitempty"`         // rendered text (informative; recomputed on replay)
}

type History struct {
	Ops []Op `json:"ops"`
}

// ---------------------------------------------------------------- runner

type runner struct {
	ir      *fast.Interp
	out     bytes.Buffer
	hookLog []int
	m       *model
	ntRead  bool // a variable of an old definition was read after a redefinition
	ntFunc  bool // a failing input named an existing function
	// afterFailed: the previous step was an input that failed to compile. (The read-backs in
	// between go through compileNode, which discards stale statements of the code buffer,
	// so failing inputs with no_readback are the ones that can expose F-C15-5.)
	afterFailed bool
}

var errDiscard = errors.New("discard")

func newRunner() *runner {
	r := &runner{ir: fast.New(), m: newModel()}
	r.ir.Comp.Globals.Stdout = &r.out
	r.ir.Comp.Globals.Stderr = &r.out
	r.ir.DeclFunc("hook", func(k int) int {
		r.hookLog = append(r.hookLog, k)
		return k
	})
	return r
}

type outcome struct {
	compileErr interface{}
	runErr     interface{}
	vals       []xr.Value
	types      []xr.Type
}

// eval is Interp.Eval split into its two halves so that the stage of a failure is observed.
func (r *runner) eval(src string) (o outcome) {
	r.out.Reset()
	var e *fast.Expr
	if p := vlib.Try(func() { e = r.ir.Compile(src) }); p != nil {
		o.compileErr = p
		return o
	}
	if p := vlib.Try(func() { o.vals, o.types = r.ir.RunExpr(e) }); p != nil {
		o.runErr = p
	}
	return o
}

func short(p interface{}) string {
	s := fmt.Sprint(p)
	if len(s) > 200 {
		s = s[:200] + "..."
	}
	return strings.ReplaceAll(s, "\n", " ")
}

// read evaluates src, which the model says is valid and yields one value of type
// wantTyp printing as wantVal. open = the value is not asserted.
func (r *runner) read(src, wantTyp, wantRType, wantVal string, open bool) error {
	h0 := len(r.hookLog)
	o := r.eval(src)
	if len(r.hookLog) != h0 {
		return fmt.Errorf("reading %q called the hook %v: code of an earlier failed input ran", src, r.hookLog[h0:])
	}
	if o.compileErr != nil {
		return fmt.Errorf("reading %q does not compile any more: %s", src, short(o.compileErr))
	}
	if o.runErr != nil {
		return fmt.Errorf("reading %q panics: %s", src, short(o.runErr))
	}
	if len(o.vals) != 1 || len(o.types) != 1 || o.types[0] == nil {
		return fmt.Errorf("reading %q: %d values", src, len(o.vals))
	}
	if got := o.types[0].String(); got != wantTyp {
		return fmt.Errorf("reading %q: type %s, want %s", src, got, wantTyp)
	}
	v := o.vals[0]
	if !v.IsValid() {
		return fmt.Errorf("reading %q: invalid (unset) value, want %s %s", src, wantTyp, wantVal)
	}
	var got, gotRT string
	if p := vlib.Try(func() {
		rv := v.ReflectValue()
		gotRT = rv.Type().String()
		got = fmt.Sprint(rv.Interface())
	}); p != nil {
		return fmt.Errorf("reading %q: value cannot be inspected: %s", src, short(p))
	}
	if wantRType != "" && gotRT != wantRType {
		return fmt.Errorf("reading %q: the value has dynamic type %s, want %s (static type %s)", src, gotRT, wantRType, wantTyp)
	}
	if !open && got != wantVal {
		return fmt.Errorf("reading %q: value %s, want %s", src, got, wantVal)
	}
	return nil
}

func rtypeOf(t typeRef) string {
	if t.Inc == nil {
		return t.Basic
	}
	l := layouts[t.Inc.Lay]
	if l.Fields == nil {
		return l.Basic
	}
	return "" // struct: checked through the value text and the fields
}

func (r *runner) checkCell(expr string, c *cell, open bool) error {
	_, want := lit(c.Typ, c.Val)
	if err := r.read(expr, c.Typ.text(), rtypeOf(c.Typ), want, open); err != nil {
		return err
	}
	if c.Typ.Inc != nil {
		inc := c.Typ.Inc
		if inc != r.m.Types[inc.Name] {
			r.ntRead = true
			rec.Label("read:var-of-old-type-incarnation")
		}
		for i, f := range layouts[inc.Lay].Fields {
			_, w := basicLit(f.Typ, value{Seed: c.Val.Seed + i, Zero: c.Val.Zero})
			if err := r.read("("+expr+")."+f.Name, f.Typ, f.Typ, w, open); err != nil {
				return err
			}
		}
		for _, mn := range sortedKeys(inc.Methods) {
			me := inc.Methods[mn]
			if me.Taint != "" {
				continue
			}
			w := me.K
			if inc.hasIntA() {
				for i, f := range layouts[inc.Lay].Fields {
					if f.Name == "A" && !c.Val.Zero {
						w += c.Val.Seed + i
					}
				}
			}
			if err := r.read("("+expr+")."+mn+"()", "int", "int", strconv.Itoa(w), open); err != nil {
				return err
			}
		}
	}
	return nil
}

func sortedKeys(m map[string]*method) []string {
	l := make([]string, 0, len(m))
	for k := range m {
		l = append(l, k)
	}
	for i := 1; i < len(l); i++ {
		for j := i; j > 0 && l[j] < l[j-1]; j-- {
			l[j], l[j-1] = l[j-1], l[j]
		}
	}
	return l
}

func (r *runner) checkFn(call string, fn *fndef) error {
	if fn.Taint != "" {
		return nil
	}
	if fn.Body == "read" {
		if fn.Dep.Taint != "" || fn.Dep.ByNameTaint != "" {
			return nil
		}
	}
	want, open := fnResult(fn)
	res := sigs[fn.Sig].Result
	return r.read(call, res, res, want, open)
}

// checkAll reads back every modelled name and observer.
func (r *runner) checkAll() error {
	m := r.m
	for _, n := range m.sortedNames() {
		b := m.Names[n]
		if b.Taint != "" {
			continue
		}
		switch b.Class {
		case "var":
			if b.Cell.Taint != "" {
				continue
			}
			if err := r.checkCell(n, b.Cell, false); err != nil {
				return err
			}
		case "const":
			_, w := basicLit(b.CDef, b.CVal)
			if err := r.read(n, b.CDef, b.CDef, w, false); err != nil {
				return err
			}
		case "func":
			if err := r.checkFn(n+sigs[b.Fn.Sig].Call, b.Fn); err != nil {
				return err
			}
		}
	}
	// a type name keeps its definition: a literal of the current incarnation has the
	// modelled fields
	for _, n := range m.sortedTypes() {
		if m.Poisoned[n] {
			continue
		}
		t := typeRef{Inc: m.Types[n]}
		src, want := lit(t, value{Seed: 7})
		if err := r.read(src, t.text(), rtypeOf(t), want, false); err != nil {
			return err
		}
	}
	for _, ob := range m.Observers {
		if ob.Taint != "" {
			continue
		}
		switch ob.Kind {
		case "ptr":
			c := ob.Target
			if c.Taint != "" || c.PtrTaint != "" {
				continue
			}
			if !m.boundTo(c) {
				r.ntRead = true
				rec.Label("read:old-variable-through-pointer")
			}
			if err := r.checkCell("*"+ob.Name, c, c.ValueOpen); err != nil {
				return err
			}
		case "clo":
			c := ob.Target
			if c.Taint != "" || c.ByNameTaint != "" {
				continue
			}
			if !m.boundTo(c) {
				r.ntRead = true
				rec.Label("read:old-variable-through-closure")
			}
			if err := r.checkCell(ob.Name+"()", c, c.ValueOpen); err != nil {
				return err
			}
		case "fval":
			if err := r.checkFn(ob.Name+sigs[ob.Fn.Sig].Call, ob.Fn); err != nil {
				return err
			}
		}
	}
	return nil
}

func (m *model) boundTo(c *cell) bool {
	for _, b := range m.Names {
		if b.Class == "var" && b.Cell == c {
			return true
		}
	}
	return false
}

// ---------------------------------------------------------------- rendering of valid steps

// render gives the source text of a valid op in the current model, or an error when the
// op does not make sense in this state (then it is skipped, not a violation).
func (r *runner) render(op Op) (string, error) {
	m := r.m
	bad := func(f string, a ...interface{}) (string, error) { return "", fmt.Errorf(f, a...) }
	switch op.K {
	case "hook":
		return fmt.Sprintf("hook(%d)", op.Seed), nil
	case "var":
		if op.Init == "copy" {
			b := m.Names[op.Ref]
			if !m.defined(op.Ref) || b.Class != "var" || op.Ref == op.Name {
				return bad("copy source %s", op.Ref)
			}
			return fmt.Sprintf("var %s = %s", op.Name, op.Ref), nil
		}
		t, ok := m.resolveType(op.Typ)
		if !ok {
			return bad("type %s", op.Typ)
		}
		s, _ := lit(t, value{Seed: op.Seed})
		switch op.Init {
		case "zero":
			return fmt.Sprintf("var %s %s", op.Name, t.src()), nil
		case "short":
			return fmt.Sprintf("%s := %s", op.Name, s), nil
		}
		return fmt.Sprintf("var %s %s = %s", op.Name, t.src(), s), nil
	case "assign":
		b := m.Names[op.Name]
		if !m.defined(op.Name) || b.Class != "var" || !m.typeUsable(b.Cell.Typ) {
			return bad("assign %s", op.Name)
		}
		s, _ := lit(b.Cell.Typ, value{Seed: op.Seed})
		return fmt.Sprintf("%s = %s", op.Name, s), nil
	case "const":
		if !isBasic(op.Typ) || op.Typ == "[]int" {
			return bad("const type")
		}
		s, _ := basicLit(op.Typ, value{Seed: op.Seed})
		if op.Init == "typed" {
			return fmt.Sprintf("const %s %s = %s", op.Name, op.Typ, s), nil
		}
		if op.Typ == "uint8" {
			return bad("untyped uint8")
		}
		return fmt.Sprintf("const %s = %s", op.Name, s), nil
	case "func":
		if op.Sig < 0 || op.Sig >= len(sigs) {
			return bad("sig")
		}
		sg := sigs[op.Sig]
		var body string
		switch op.Body {
		case "read":
			b := m.Names[op.Ref]
			if !m.defined(op.Ref) || b.Class != "var" || b.Cell.Typ.Basic != sg.Result || op.Ref == op.Name {
				return bad("func reads %s", op.Ref)
			}
			body = op.Ref
		case "arg":
			if op.Sig != 2 {
				return bad("arg body")
			}
			body = fmt.Sprintf("a + %d", op.Seed)
		default:
			body, _ = basicLit(sg.Result, value{Seed: op.Seed})
		}
		return fmt.Sprintf("func %s%s %s { return %s }", op.Name, sg.Params, sg.Result, body), nil
	case "type":
		if op.Lay < 0 || op.Lay >= len(layouts) || m.Poisoned[op.Name] {
			return bad("type")
		}
		if op.Init == "alias" {
			// alias declaration: the name denotes the layout type itself (no methods can be declared on it)
			return fmt.Sprintf("type %s = %s", op.Name, layouts[op.Lay].Src), nil
		}
		return fmt.Sprintf("type %s %s", op.Name, layouts[op.Lay].Src), nil
	case "method":
		inc := m.Types[op.Ref]
		if inc == nil || m.Poisoned[op.Ref] || inc.Alias {
			return bad("receiver")
		}
		body := strconv.Itoa(op.Seed)
		if inc.hasIntA() {
			body = "t.A + " + body
		}
		return fmt.Sprintf("func (t %s) %s() int { return %s }", op.Ref, op.Name, body), nil
	case "ptr":
		if !m.defined(op.Ref) || m.Names[op.Ref].Class != "var" {
			return bad("ptr target")
		}
		return fmt.Sprintf("%s := &%s", op.Name, op.Ref), nil
	case "clo":
		b := m.Names[op.Ref]
		if !m.defined(op.Ref) || b.Class != "var" || !m.typeUsable(b.Cell.Typ) {
			return bad("clo target")
		}
		return fmt.Sprintf("%s := func() %s { return %s }", op.Name, b.Cell.Typ.src(), op.Ref), nil
	case "fval":
		if !m.defined(op.Ref) || m.Names[op.Ref].Class != "func" {
			return bad("fval")
		}
		return fmt.Sprintf("%s := %s", op.Name, op.Ref), nil
	case "pset":
		ob := m.observer(op.Name)
		if ob == nil || ob.Kind != "ptr" || ob.Taint != "" {
			return bad("pset")
		}
		c := ob.Target
		if c.Taint != "" || c.PtrTaint != "" || c.ValueOpen || !m.typeUsable(c.Typ) {
			return bad("pset target")
		}
		s, _ := lit(c.Typ, value{Seed: op.Seed})
		return fmt.Sprintf("*%s = %s", op.Name, s), nil
	}
	return bad("unknown op %q", op.K)
}

func (m *model) observer(name string) *observer {
	for _, ob := range m.Observers {
		if ob.Name == name {
			return ob
		}
	}
	return nil
}

// ---------------------------------------------------------------- model updates

// redefine applies what a successful redefinition of name means for the variables of
// the previous definition. Returns the slot chain the new binding inherits.
func (m *model) redefine(name, newClass string, newType typeRef) []*cell {
	old := m.Names[name]
	if old == nil {
		return nil
	}
	slotClass := func(cl string) bool { return cl == "var" || cl == "func" || cl == "limbo" }
	if !slotClass(newClass) {
		return nil // a constant has no slot
	}
	oldInt := old.Class == "var" && old.Cell.Typ.intClass()
	if old.Class == "limbo" || old.Class == "const" {
		// what the failed input left is not modelled; constants have no slot
		if old.Class == "const" {
			return nil
		}
		return old.Chain
	}
	newInt := newClass == "var" && newType.intClass()
	same := old.Class == "var" && newClass == "var" && old.Cell.Typ.same(newType)
	if old.Class == "var" {
		if same {
			old.Cell.ValueOpen = true
			rec.Label("redef:var-same-type")
		} else {
			rec.Label("redef:var-different-type-or-class")
		}
	}
	reuse := oldInt == newInt
	chain := old.Chain
	if old.Class == "var" {
		chain = append(append([]*cell(nil), chain...), old.Cell)
	}
	if !reuse {
		return nil
	}
	if !same && known(F4) {
		for _, c := range chain {
			if c.ByNameTaint == "" {
				c.ByNameTaint = F4
				rec.Excluded(F4)
			}
			if c.Typ.intClass() && c.PtrTaint == "" {
				c.PtrTaint = F4
			}
		}
	}
	return chain
}

func (m *model) taintName(name, why string) {
	b := m.Names[name]
	if b == nil {
		return
	}
	b.Taint = why
	if b.Cell != nil {
		b.Cell.Taint = why
	}
	for _, c := range b.Chain {
		c.Taint = why
	}
}

// apply updates the model after op ran successfully.
func (r *runner) apply(op Op) {
	m := r.m
	switch op.K {
	case "var":
		var t typeRef
		v := value{Seed: op.Seed}
		if op.Init == "copy" {
			src := m.Names[op.Ref].Cell
			t, v = src.Typ, src.Val
		} else {
			t, _ = m.resolveType(op.Typ)
			v.Zero = op.Init == "zero"
		}
		chain := m.redefine(op.Name, "var", t)
		m.Names[op.Name] = &binding{Class: "var", Cell: m.newCell(t, v), Chain: chain}
	case "assign":
		m.Names[op.Name].Cell.Val = value{Seed: op.Seed}
	case "const":
		m.redefine(op.Name, "const", typeRef{})
		b := &binding{Class: "const", CDef: op.Typ, CVal: value{Seed: op.Seed}}
		if op.Init == "typed" {
			b.CTyp = op.Typ
		}
		m.Names[op.Name] = b
	case "func":
		fn := &fndef{Sig: op.Sig, Body: op.Body, K: op.Seed}
		if op.Body == "read" {
			fn.Dep = m.Names[op.Ref].Cell
		}
		chain := m.redefine(op.Name, "func", typeRef{})
		m.Names[op.Name] = &binding{Class: "func", Fn: fn, Chain: chain}
	case "type":
		old := m.Types[op.Name]
		inc := &incarnation{ID: len(m.AllIncs), Name: op.Name, Lay: op.Lay, Methods: map[string]*method{}, Alias: op.Init == "alias"}
		if inc.Alias {
			rec.Label("decl:type-alias")
		}
		m.AllIncs = append(m.AllIncs, inc)
		m.Types[op.Name] = inc
		if old != nil {
			if old.Lay != op.Lay {
				rec.Label("redef:type-different-layout")
				if known(F2) {
					for _, c := range m.Cells {
						if c.Typ.Inc != nil && c.Typ.Inc.Name == op.Name && c.Taint == "" {
							c.Taint = F2
							rec.Excluded(F2)
						}
					}
					m.Poisoned[op.Name] = true
				}
			} else {
				rec.Label("redef:type-same-layout")
			}
		}
	case "method":
		inc := m.Types[op.Ref]
		inc.Methods[op.Name] = &method{K: op.Seed}
		if known(F2) {
			for _, o := range m.AllIncs {
				if o != inc && o.Name == inc.Name {
					if me := o.Methods[op.Name]; me != nil && me.Taint == "" {
						me.Taint = F2
						rec.Excluded(F2)
					}
				}
			}
		}
	case "ptr", "clo":
		m.Observers = append(m.Observers, &observer{Name: op.Name, Kind: op.K, Target: m.Names[op.Ref].Cell})
	case "fval":
		cp := *m.Names[op.Ref].Fn
		m.Observers = append(m.Observers, &observer{Name: op.Name, Kind: "fval", Fn: &cp})
	case "pset":
		m.observer(op.Name).Target.Val = value{Seed: op.Seed}
	}
}

// declares reports the name a (restricted) statement of a failing input declares.
func declares(op Op) string {
	switch op.K {
	case "var", "const", "func":
		return op.Name
	}
	return ""
}

// afterFailure updates the model after a failing input: nothing changes, except that
// names the input introduced are limbo, and the shapes of known findings are tainted.
func (r *runner) afterFailure(op Op) {
	m := r.m
	mark := func(name string) {
		if name == "" {
			return
		}
		if b := m.Names[name]; b == nil {
			m.Names[name] = &binding{Class: "limbo"}
		} else if b.Class == "limbo" || !m.defined(name) {
			// already unasserted
		} else if known(F1) {
			m.taintName(name, F1)
			rec.Excluded(F1)
		} // else: the property says the name keeps its type and value: asserted
	}
	for _, d := range append(append([]Op(nil), op.Pre...), op.Post...) {
		mark(declares(d))
	}
	switch op.AffKind {
	case "var": // var declaration whose initialiser is faulty: F1 shape when the name exists
		mark(op.Affects)
	case "varsafe", "const", "func": // init compiled first / deferred restore: asserted, but a new name is limbo
		if m.Names[op.Affects] == nil {
			m.Names[op.Affects] = &binding{Class: "limbo"}
		}
	case "method":
		if inc := m.Types[op.Ref]; inc != nil {
			if me := inc.Methods[op.Affects]; me != nil && me.Taint == "" && known(F3) {
				me.Taint = F3
				rec.Excluded(F3)
			}
			if known(F3) && known(F2) {
				for _, o := range m.AllIncs {
					if o.Name == inc.Name {
						if me := o.Methods[op.Affects]; me != nil && me.Taint == "" {
							me.Taint = F3
						}
					}
				}
			}
		}
	}
}

// ---------------------------------------------------------------- one step

func (r *runner) failSrc(op Op) (string, error) {
	var parts []string
	for _, d := range op.Pre {
		s, err := r.render(d)
		if err != nil {
			return "", err
		}
		parts = append(parts, s)
	}
	// the hook call right before the faulty statement, in several statement forms; the
	// pair may sit inside a compound statement (the fault then hits a half-compiled block)
	hook := fmt.Sprintf("hook(%d)", 1000+op.Seed)
	switch op.HookForm {
	case "assign":
		hook = "_ = " + hook
	case "var":
		hook = "var _ = " + hook
	case "if":
		hook = "if " + hook + " > 0 { }"
	}
	switch op.Wrap {
	case "block":
		parts = append(parts, "{ "+hook+"; "+op.FaultSrc+" }")
	case "if":
		parts = append(parts, "if true { "+hook+"; "+op.FaultSrc+" }")
	case "for":
		parts = append(parts, "for i := 0; i < 1; i++ { "+hook+"; "+op.FaultSrc+" }")
	default:
		parts = append(parts, hook, op.FaultSrc)
	}
	for _, d := range op.Post {
		s, err := r.render(d)
		if err != nil {
			return "", err
		}
		parts = append(parts, s)
	}
	sep := op.Sep
	if sep != "\n" {
		sep = "; "
	}
	if op.Reader {
		sep = "; " // one line = one evaluation
	}
	src := strings.Join(parts, sep)
	if op.Reader {
		for i := op.PreHooks - 1; i >= 0; i-- {
			src = fmt.Sprintf("hook(%d)\n", 2000+i) + src
		}
		src += "\n"
	}
	return src, nil
}

// step runs one op. It returns errDiscard when the history cannot be continued
// soundly, nil when the property held, another error on a violation.
func (r *runner) step(op *Op) error {
	rec.Label("op:" + op.K)
	wasAfterFailed := r.afterFailed
	r.afterFailed = false
	if op.K == "fail" {
		err := r.stepFail(op)
		r.afterFailed = err == nil
		return err
	}
	src, err := r.render(*op)
	if err != nil {
		rec.Label("skipped-op")
		return nil
	}
	op.Src = src
	h0 := len(r.hookLog)
	o := r.eval(src)
	moved := r.hookLog[h0:]
	switch {
	case o.compileErr != nil:
		// a step meant to be valid failed to compile: then it is a failed evaluation
		rec.Label("valid-op-failed-to-compile")
		if len(moved) != 0 {
			return fmt.Errorf("step %q failed to compile (%s) but the hook was called %v", src, short(o.compileErr), moved)
		}
		if n := declares(*op); n != "" && r.m.Names[n] == nil {
			r.m.Names[n] = &binding{Class: "limbo"}
		}
		if err := r.checkAll(); err != nil {
			return fmt.Errorf("after step %q failed to compile (%s): %v", src, short(o.compileErr), err)
		}
		return nil
	case o.runErr != nil:
		if wasAfterFailed && op.K == "var" && op.Init != "copy" {
			// a variable declaration with a literal or zero initialiser has
			// nothing that can panic: what panicked is code the failed input left behind
			if known(F5) {
				rec.Excluded(F5)
				rec.Label("discard:valid-op-panicked-at-run-time")
				return errDiscard
			}
			return fmt.Errorf("step %q, evaluated right after an input that failed to compile, panicked at run time (%s): code left over from the failed input ran", src, short(o.runErr))
		}
		if op.K != "hook" && len(moved) != 0 {
			// the step itself contains no hook call: only code of a failed input can have made it
			return fmt.Errorf("step %q called the hook %v (and then panicked: %s): code of an earlier failed input ran", src, moved, short(o.runErr))
		}
		rec.Label("discard:valid-op-panicked-at-run-time")
		rec.Note("valid step %q panicked at run time: %s", src, short(o.runErr))
		return errDiscard
	}
	if op.K == "hook" {
		if len(moved) != 1 || moved[0] != op.Seed {
			return fmt.Errorf("step %q: hook calls %v, want [%d] (the hook is not observable)", src, moved, op.Seed)
		}
	} else if len(moved) != 0 {
		return fmt.Errorf("step %q called the hook %v: code of an earlier failed input ran", src, moved)
	}
	r.apply(*op)
	if err := r.checkAll(); err != nil {
		return fmt.Errorf("after successful step %q: %v", src, err)
	}
	return nil
}

func (r *runner) stepFail(op *Op) error {
	m := r.m
	src, err := r.failSrc(*op)
	if err != nil {
		rec.Label("skipped-op")
		return nil
	}
	op.Src = src
	rec.Label("fail:stage:" + op.Stage)
	rec.Label("fail:fault:" + op.Fault)
	pos := "only"
	switch {
	case len(op.Pre) > 0 && len(op.Post) > 0:
		pos = "middle"
	case len(op.Pre) > 0:
		pos = "last"
	case len(op.Post) > 0:
		pos = "first"
	}
	rec.Label("fail:position:" + pos)
	if op.Wrap != "" {
		rec.Label("fail:inside-compound-statement:" + op.Wrap)
	}
	if op.AffKind == "func" && m.defined(op.Affects) && m.Names[op.Affects].Class == "func" {
		r.ntFunc = true
		rec.Label("fail:names-existing-function")
	}
	if op.AffKind == "method" {
		if inc := m.Types[op.Ref]; inc != nil && inc.Methods[op.Affects] != nil {
			rec.Label("fail:names-existing-method")
		} else {
			rec.Label("fail:names-new-method")
		}
	}
	h0 := len(r.hookLog)
	var failure interface{}
	if op.Reader {
		rec.Label("fail:entry:EvalReader")
		r.out.Reset()
		// with OptTrapPanic (the default of fast.New) the REPL loop prints the error of a
		// chunk to Stderr and goes on; without it EvalReader returns the error
		g := &r.ir.Comp.Globals
		saved := g.Options
		if op.Trap {
			g.Options |= base.OptTrapPanic
			rec.Label("fail:entry:EvalReader:errors-trapped")
		} else {
			g.Options &^= base.OptTrapPanic
		}
		var rerr error
		p := vlib.Try(func() { _, rerr = r.ir.EvalReader(strings.NewReader(src)) })
		g.Options = saved
		if p != nil {
			return fmt.Errorf("EvalReader(%q) panicked instead of returning the error: %s", src, short(p))
		}
		if op.Trap {
			// the failure is what the user sees: a Stderr line that is not a "// warning" comment
			for _, line := range strings.Split(r.out.String(), "\n") {
				if t := strings.TrimSpace(line); t != "" && !strings.HasPrefix(t, "//") && rerr == nil {
					rerr = errors.New(t)
				}
			}
		}
		if rerr == nil {
			rec.Label("discard:accepted:" + op.Fault)
			return errDiscard
		}
		failure = rerr
	} else if op.Whole {
		// Interp.Eval itself: the failure stage is not observable, the faults are compile-time by construction
		rec.Label("fail:entry:Eval")
		r.out.Reset()
		if failure = vlib.Try(func() { r.ir.Eval(src) }); failure == nil {
			rec.Label("discard:accepted:" + op.Fault)
			return errDiscard
		}
	} else {
		rec.Label("fail:entry:Compile+RunExpr")
		o := r.eval(src)
		if o.compileErr == nil {
			rec.Label("discard:accepted:" + op.Fault)
			return errDiscard
		}
		failure = o.compileErr
	}
	moved := r.hookLog[h0:]
	wantMoved := 0
	if op.Reader {
		wantMoved = op.PreHooks // earlier lines are evaluations of their own and succeeded
	}
	if len(moved) != wantMoved {
		return fmt.Errorf("input %q failed to compile (%s) but the hook was called %v (want %d calls): code of the failed input ran", src, short(failure), moved, wantMoved)
	}
	for i, k := range moved {
		if k != 2000+i {
			return fmt.Errorf("input %q failed to compile (%s) but the hook was called %v: code of the failed evaluation ran", src, short(failure), moved)
		}
	}
	// a new method declared by a failed input must not appear in the method set
	var probe string
	if op.AffKind == "method" && !known(F3) {
		if inc := m.Types[op.Ref]; inc != nil && inc.Methods[op.Affects] == nil {
			for _, n := range m.liveVars() {
				if m.Names[n].Cell.Typ.Inc == inc {
					probe = n + "." + op.Affects
					break
				}
			}
		}
	}
	r.afterFailure(*op)
	if op.NoReadback && probe == "" {
		rec.Label("fail:readback-deferred-to-next-step")
		return nil
	}
	if probe != "" {
		if o := r.eval(probe); o.compileErr == nil {
			return fmt.Errorf("after input %q failed to compile (%s): %q compiles now, the type gained the method of the failed declaration", src, short(failure), probe)
		}
	}
	if err := r.checkAll(); err != nil {
		return fmt.Errorf("after input %q failed to compile (%s): %v", src, short(failure), err)
	}
	return nil
}

// runHistory replays a history from scratch.
func runHistory(h *History) error {
	r := newRunner()
	for i := range h.Ops {
		if err := r.step(&h.Ops[i]); err != nil {
			if err == errDiscard {
				return nil
			}
			return fmt.Errorf("step %d: %v", i, err)
		}
	}
	return nil
}

// replaying: while a saved input is re-checked no finding counts as known, so that the
// replay of a known finding fails for as long as gomacro has the defect.
var replaying bool

// VERIF_C15_ASSUME_FIXED (comma separated ids) lets a proposed fix be tried in a scratch
// worktree before the lead changes known_findings.json: those ids count as not known.
func known(id string) bool {
	if replaying || strings.Contains(","+os.Getenv("VERIF_C15_ASSUME_FIXED")+",", ","+id+",") {
		return false
	}
	return rec.Known(id)
}

func replay(content []byte) error {
	replaying = true
	defer func() { replaying = false }()
	var h History
	if err := json.Unmarshal(content, &h); err != nil || len(h.Ops) == 0 {
		return nil
	}
	return runHistory(&h)
}

func TestReplays(t *testing.T) {
	rec.RunReplays(t, replay)
}

// ---------------------------------------------------------------- generator

var valuePool = []string{"a", "b", "c", "d"}
var typePool = []string{"T", "U"}
var methodPool = []string{"M", "N"}

type gen struct {
	t   *rapid.T
	r   *runner
	seq int
}

func (g *gen) fresh(prefix string) string {
	g.seq++
	return fmt.Sprintf("%s%d", prefix, g.seq)
}

func (g *gen) seed() int { return 1 + uni(g.t, "seed", 90) }

// uni draws a uniformly distributed index in [0,n): rapid's integer generators favour
// small values (by design), which starved most fault kinds; booleans are unbiased.
func uni(t *rapid.T, label string, n int) int {
	v := 0
	for i := 0; i < 10; i++ {
		v <<= 1
		if rapid.Bool().Draw(t, label) {
			v |= 1
		}
	}
	return v % n
}

func (g *gen) pick(label string, l []string) string {
	return l[uni(g.t, label, len(l))]
}

func (g *gen) usableTypes() []string {
	l := append([]string(nil), basicTypes...)
	for _, n := range g.r.m.sortedTypes() {
		if !g.r.m.Poisoned[n] {
			l = append(l, n, n) // favour named types
		}
	}
	return l
}

// declName picks the name for a declaration in a VALID step: mostly from the small pool
// so that redefinitions are frequent.
func (g *gen) declName() string { return g.pick("name", valuePool) }

// failName picks a name declared inside a failing input. While F-C15-1 is known, names
// with an asserted definition are avoided by construction (and counted).
func (g *gen) failName(allowExisting bool) string {
	n := g.pick("fname", valuePool)
	if g.r.m.defined(n) && !(allowExisting && !known(F1)) {
		if known(F1) {
			rec.Excluded(F1)
		}
		return g.fresh("q")
	}
	return n
}

func (g *gen) varOp(name string) Op {
	m := g.r.m
	op := Op{K: "var", Name: name, Seed: g.seed()}
	op.Init = g.pick("init", []string{"lit", "lit", "short", "zero", "copy"})
	if op.Init == "copy" {
		var srcs []string
		for _, n := range m.liveVars() {
			if n != name {
				srcs = append(srcs, n)
			}
		}
		if len(srcs) == 0 {
			op.Init = "lit"
		} else {
			op.Ref = g.pick("copy-src", srcs)
			return op
		}
	}
	op.Typ = g.pick("type", g.usableTypes())
	return op
}

func (g *gen) constOp(name string) Op {
	op := Op{K: "const", Name: name, Seed: g.seed()}
	op.Typ = g.pick("ctype", []string{"int", "string", "float64", "bool", "uint8"})
	op.Init = g.pick("cinit", []string{"untyped", "typed"})
	if op.Typ == "uint8" {
		op.Init = "typed"
	}
	return op
}

func (g *gen) funcOp(name string, allowRead bool) Op {
	m := g.r.m
	op := Op{K: "func", Name: name, Seed: g.seed(), Sig: uni(g.t, "sig", len(sigs)), Body: "const"}
	if op.Sig == 2 {
		op.Body = "arg"
		return op
	}
	if allowRead && rapid.Bool().Draw(g.t, "reads-var") {
		var deps []string
		for _, n := range m.liveVars() {
			if n != name && m.Names[n].Cell.Typ.Basic == sigs[op.Sig].Result {
				deps = append(deps, n)
			}
		}
		if len(deps) > 0 {
			op.Body, op.Ref = "read", g.pick("dep", deps)
		}
	}
	return op
}

func (g *gen) assignOp() (Op, bool) {
	m := g.r.m
	var l []string
	for _, n := range m.liveVars() {
		if m.typeUsable(m.Names[n].Cell.Typ) {
			l = append(l, n)
		}
	}
	if len(l) == 0 {
		return Op{}, false
	}
	return Op{K: "assign", Name: g.pick("assign", l), Seed: g.seed()}, true
}

// validOp draws one valid step.
func (g *gen) validOp() Op {
	m := g.r.m
	for {
		switch k := uni(g.t, "valid-kind", 100); {
		case k < 24:
			return g.varOp(g.declName())
		case k < 32:
			if op, ok := g.assignOp(); ok {
				return op
			}
		case k < 40:
			return g.constOp(g.declName())
		case k < 52:
			return g.funcOp(g.declName(), true)
		case k < 62:
			n := g.pick("tname", typePool)
			if !m.Poisoned[n] {
				op := Op{K: "type", Name: n, Lay: uni(g.t, "lay", len(layouts))}
				// at most one alias declaration per history, of a struct layout: the model keeps one
				// identity per declaration, while two aliases of one layout (or an alias of int) denote
				// one and the same type
				hasAlias := false
				for _, inc := range m.AllIncs {
					hasAlias = hasAlias || inc.Alias
				}
				if !hasAlias && layouts[op.Lay].Fields != nil && uni(g.t, "alias", 3) == 0 {
					op.Init = "alias"
				}
				return op
			}
		case k < 70:
			var l []string
			for _, n := range m.sortedTypes() {
				if !m.Poisoned[n] && layouts[m.Types[n].Lay].Fields != nil && !m.Types[n].Alias {
					l = append(l, n)
				}
			}
			if len(l) > 0 {
				return Op{K: "method", Ref: g.pick("recv", l), Name: g.pick("mname", methodPool), Seed: g.seed()}
			}
		case k < 78:
			if l := m.liveVars(); len(l) > 0 {
				return Op{K: "ptr", Name: g.fresh("p"), Ref: g.pick("ptr-of", l)}
			}
		case k < 86:
			var l []string
			for _, n := range m.liveVars() {
				if m.typeUsable(m.Names[n].Cell.Typ) {
					l = append(l, n)
				}
			}
			if len(l) > 0 {
				return Op{K: "clo", Name: g.fresh("g"), Ref: g.pick("clo-of", l)}
			}
		case k < 90:
			if l := m.liveFuncs(); len(l) > 0 {
				return Op{K: "fval", Name: g.fresh("h"), Ref: g.pick("fval-of", l)}
			}
		case k < 96:
			var l []string
			for _, ob := range m.Observers {
				c := ob.Target
				if ob.Kind == "ptr" && ob.Taint == "" && c.Taint == "" && c.PtrTaint == "" && !c.ValueOpen && m.typeUsable(c.Typ) {
					l = append(l, ob.Name)
				}
			}
			if len(l) > 0 {
				return Op{K: "pset", Name: g.pick("pset", l), Seed: g.seed()}
			}
		default:
			return Op{K: "hook", Seed: g.seed()}
		}
	}
}

// sideOp draws a valid statement placed before/after the faulty one in a failing input.
func (g *gen) sideOp() Op {
	switch uni(g.t, "side-kind", 6) {
	case 0, 1:
		op := g.varOp(g.failName(true))
		if op.Init == "copy" {
			op.Init, op.Typ = "lit", "int"
		}
		return op
	case 2:
		return g.constOp(g.failName(true))
	case 3:
		return g.funcOp(g.failName(true), false)
	case 4:
		if op, ok := g.assignOp(); ok {
			return op
		}
	}
	return Op{K: "hook", Seed: g.seed()}
}

type fault struct {
	ID, Stage string
	Make      func(g *gen, op *Op) bool // fills FaultSrc (+Affects...), false = not applicable now
}

// wrongLit is a literal gomacro refuses to convert to t (it accepts 1 for a string).
func wrongLit(t string) string {
	if t == "bool" {
		return `"s"`
	}
	return "true"
}

func plain(src string) func(*gen, *Op) bool {
	return func(g *gen, op *Op) bool { op.FaultSrc = src; return true }
}

var faults = []fault{
	{"sc-string", "scanner", plain(`"abc`)},
	{"sc-rune", "scanner", plain(`'ab'`)},
	{"sc-hex", "scanner", plain(`0x`)},
	{"sc-raw", "scanner", plain("`raw")},
	{"pa-operand", "parser", plain(`z9 +`)},
	{"pa-brace", "parser", plain(`for {`)},
	{"pa-closing", "parser", plain(`}`)},
	{"pa-func", "parser", plain(`func`)},
	{"pa-assign", "parser", plain(`z9 = = 3`)},
	{"un-ident", "undefined", plain(`undefinedQ`)},
	{"un-call", "undefined", plain(`undefinedF(1)`)},
	{"un-assign", "undefined", func(g *gen, op *Op) bool {
		l := g.r.m.liveVars()
		if len(l) == 0 {
			return false
		}
		op.FaultSrc = g.pick("v", l) + " = undefinedQ"
		return true
	}},
	{"un-var", "undefined", func(g *gen, op *Op) bool {
		// the initialiser is compiled before the name is bound: existing names are asserted
		op.Affects, op.AffKind = g.pick("v", valuePool), "varsafe"
		op.FaultSrc = "var " + op.Affects + " = undefinedQ"
		return true
	}},
	{"un-short", "undefined", func(g *gen, op *Op) bool {
		op.Affects, op.AffKind = g.pick("v", valuePool), "varsafe"
		op.FaultSrc = op.Affects + " := undefinedQ + 1"
		return true
	}},
	{"un-const", "undefined", func(g *gen, op *Op) bool {
		op.Affects, op.AffKind = g.pick("v", valuePool), "const"
		op.FaultSrc = "const " + op.Affects + " = undefinedQ"
		return true
	}},
	{"mm-const", "mismatch", func(g *gen, op *Op) bool {
		// the conversion of the constant is checked before the name is bound: asserted
		op.Affects, op.AffKind = g.pick("v", valuePool), "const"
		op.FaultSrc = "const " + op.Affects + ` int = "s"`
		return true
	}},
	{"mm-var-typed", "mismatch", func(g *gen, op *Op) bool {
		// explicit type + faulty initialiser: the name is bound before the fault (F-C15-1 shape)
		op.Affects, op.AffKind = g.failName(true), "var"
		op.FaultSrc = "var " + op.Affects + ` int = "s"`
		return true
	}},
	{"mm-var-multi", "undefined", func(g *gen, op *Op) bool {
		op.Affects, op.AffKind = g.failName(true), "var"
		op.FaultSrc = "var " + op.Affects + ", " + g.fresh("q") + " int = 1, undefinedQ"
		return true
	}},
	{"mm-assign", "mismatch", func(g *gen, op *Op) bool {
		m := g.r.m
		var l []string
		for _, n := range m.liveVars() {
			if b := m.Names[n].Cell.Typ.Basic; b == "int" || b == "string" || b == "bool" || b == "float64" {
				l = append(l, n)
			}
		}
		if len(l) == 0 {
			return false
		}
		n := g.pick("v", l)
		op.FaultSrc = n + " = " + wrongLit(m.Names[n].Cell.Typ.Basic)
		return true
	}},
	{"mm-cond", "mismatch", plain(`if 1 { }`)},
	{"mm-lhs", "mismatch", plain(`1 = 2`)},
	{"ac-many", "argcount", plain(`hook(1, 2)`)},
	{"ac-few", "argcount", plain(`hook()`)},
	{"ac-func", "argcount", func(g *gen, op *Op) bool {
		l := g.r.m.liveFuncs()
		if len(l) == 0 {
			return false
		}
		op.FaultSrc = g.pick("f", l) + "(1, 2, 3)"
		return true
	}},
	{"lb-break", "label", plain(`break L0`)},
	{"lb-goto", "label", plain(`goto L0`)},
	{"lb-continue", "label", plain(`for { continue L1 }`)},
	{"fb-undefined", "funcbody", func(g *gen, op *Op) bool {
		return g.funcBodyFault(op, func(sg sig) string { return "return undefinedQ" })
	}},
	{"fb-mismatch", "funcbody", func(g *gen, op *Op) bool {
		return g.funcBodyFault(op, func(sg sig) string { return "return " + wrongLit(sg.Result) })
	}},
	{"fb-recursive", "funcbody", func(g *gen, op *Op) bool {
		return g.funcBodyFault(op, func(sg sig) string { return "return " + op.Affects + sg.Call + " + undefinedQ" })
	}},
	{"me-field", "method", func(g *gen, op *Op) bool {
		return g.methodFault(op, "t", "return t.Zq")
	}},
	{"me-ptr-recv", "method", func(g *gen, op *Op) bool {
		return g.methodFault(op, "*", "return undefinedQ")
	}},
	{"ty-field", "typedecl", func(g *gen, op *Op) bool {
		op.Affects, op.AffKind = g.pick("t", typePool), "type"
		op.FaultSrc = "type " + op.Affects + " struct{ A undefinedType }"
		return true
	}},
	{"ty-selfref", "typedecl", func(g *gen, op *Op) bool {
		op.Affects, op.AffKind = g.pick("t", typePool), "type"
		op.FaultSrc = "type " + op.Affects + " struct{ N *" + op.Affects + "; X undefinedType }"
		return true
	}},
}

func (g *gen) funcBodyFault(op *Op, body func(sig) string) bool {
	m := g.r.m
	// prefer the name of an existing function (the deferred restore in Comp.DeclFunc)
	name := g.pick("f", valuePool)
	if l := m.liveFuncs(); len(l) > 0 && uni(g.t, "existing-func", 4) > 0 {
		name = g.pick("f", l)
	}
	op.Affects, op.AffKind = name, "func"
	sg := sigs[uni(g.t, "sig", len(sigs))]
	op.FaultSrc = fmt.Sprintf("func %s%s %s { hook(%d); %s }", name, sg.Params, sg.Result, 3000+op.Seed, body(sg))
	return true
}

func (g *gen) methodFault(op *Op, recv string, body string) bool {
	m := g.r.m
	var l []string
	for _, n := range m.sortedTypes() {
		if !m.Poisoned[n] && layouts[m.Types[n].Lay].Fields != nil {
			l = append(l, n)
		}
	}
	if len(l) == 0 {
		return false
	}
	op.Ref = g.pick("recv", l)
	op.Affects, op.AffKind = g.pick("mname", methodPool), "method"
	r := "t " + op.Ref
	if recv == "*" {
		r = "t *" + op.Ref
	}
	op.FaultSrc = fmt.Sprintf("func (%s) %s() int { hook(%d); %s }", r, op.Affects, 3000+op.Seed, body)
	return true
}

func (g *gen) failOp() Op {
	for {
		f := faults[uni(g.t, "fault", len(faults))]
		op := Op{K: "fail", Fault: f.ID, Stage: f.Stage, Seed: g.seed()}
		if !f.Make(g, &op) {
			continue
		}
		op.Reader = uni(g.t, "reader", 4) == 0
		if op.Reader {
			op.PreHooks = uni(g.t, "pre-hooks", 3)
			op.Trap = rapid.Bool().Draw(g.t, "trap")
		}
		op.Whole = !op.Reader && rapid.Bool().Draw(g.t, "whole-eval")
		op.NoReadback = uni(g.t, "no-readback", 3) == 0
		op.HookForm = g.pick("hook-form", []string{"", "", "assign", "var", "if"})
		if op.AffKind == "" && f.Stage != "scanner" && f.Stage != "parser" {
			op.Wrap = g.pick("wrap", []string{"", "", "block", "if", "for"})
		}
		op.Sep = g.pick("sep", []string{"; ", "\n"})
		npre := uni(g.t, "npre", 3)
		npost := uni(g.t, "npost", 3)
		used := map[string]bool{op.Affects: true}
		add := func(dst *[]Op, n int) {
			for i := 0; i < n; i++ {
				d := g.sideOp()
				if n := declares(d); n != "" {
					if used[n] {
						continue
					}
					used[n] = true
				}
				*dst = append(*dst, d)
			}
		}
		add(&op.Pre, npre)
		add(&op.Post, npost)
		return op
	}
}

// ---------------------------------------------------------------- the property

func TestHistories(t *testing.T) {
	rec.Check(t, rec.Scale(300, 2500), func(t *rapid.T) {
		r := newRunner()
		g := &gen{t: t, r: r}
		var h History
		n := rapid.IntRange(4, 50).Draw(t, "steps")
		for i := 0; i < n; i++ {
			var op Op
			if uni(t, "kind", 100) < 35 {
				op = g.failOp()
			} else {
				op = g.validOp()
			}
			h.Ops = append(h.Ops, op)
			err := r.step(&h.Ops[len(h.Ops)-1])
			if err == errDiscard {
				rec.Label("history:discarded")
				var srcs []string
				for _, o := range h.Ops {
					srcs = append(srcs, o.Src)
				}
				rec.Note("discarded history: %q", srcs)
				return
			}
			if err != nil {
				data, _ := json.MarshalIndent(h, "", " ")
				rec.Failf(t, "histories", data, "json", "step %d: %v", i, err)
			}
		}
		if r.ntFunc || r.ntRead {
			data, _ := json.Marshal(h)
			rec.NT(string(data))
			rec.Sample(h)
		}
		if r.ntFunc {
			rec.Label("history:nontrivial:failing-input-names-existing-function")
		}
		if r.ntRead {
			rec.Label("history:nontrivial:old-definition-read-after-redefinition")
		}
	})
}

// TestStageProbes runs every fault template alone on a small fixed environment and
// records that it fails at compile time (the premise of the histories), without
// asserting anything the property does not say.
func TestStageProbes(t *testing.T) {
	if rec.ReplayOnly() || rec.Shard() != 0 {
		return
	}
	for _, src := range []string{
		`"abc`, `'ab'`, `0x`, "`raw", `z9 +`, `for {`, `}`, `func`, `z9 = = 3`, `undefinedQ`, `undefinedF(1)`,
		`x = undefinedQ`, `var n1 = undefinedQ`, `n2 := undefinedQ + 1`, `const n3 = undefinedQ`, `const n8 int = "s"`, `var n4 int = "s"`,
		`var n5, n6 int = 1, undefinedQ`, `if 1 { }`, `1 = 2`, `hook(1, 2)`, `hook()`, `f(1, 2, 3)`,
		`break L0`, `goto L0`, `for { continue L1 }`, `func f() string { return undefinedQ }`, `func f() int { return true }`, `func f() string { return true }`, `func f() float64 { return true }`,
		`func f(a int) int { return true }`, `x = true`, `var s9 string = "a"; s9 = true`, `var f9 float64 = 1.5; f9 = true`, `var b9 bool = true; b9 = "s"`,
		`func (t T) M() int { return t.Zq }`, `func (t *T) M() int { return undefinedQ }`,
		`type T struct{ A undefinedType }`, `type T struct{ N *T; X undefinedType }`,
		// duplicate labels: Go rejects them, gomacro does not diagnose them (recorded, not used)
		`func n7() { L: ; L: ; }`,
	} {
		r := newRunner()
		for _, s := range []string{`var x int = 5`, `func f() int { return 1 }`, `type T struct{A int}`} {
			if o := r.eval(s); o.compileErr != nil || o.runErr != nil {
				t.Fatalf("setup %q failed", s)
			}
		}
		rec.Eval(1)
		o := r.eval("hook(7); " + src)
		switch {
		case o.compileErr != nil:
			rec.Label("stage-probe:fails-at-compile-time")
		case o.runErr != nil:
			rec.Label("stage-probe:fails-at-run-time: " + src)
		default:
			rec.Label("stage-probe:accepted: " + src)
		}
	}
}
