// Package progen holds the building blocks shared by the generators of Go programs
// (group A of DESIGN.md): unique naming under a case prefix, lexical scopes of typed
// variables, type-directed construction of small integer/boolean/string expressions
// that cannot fail at run time, and the statement budget. Every random choice is a
// rapid draw. The per-property grammars live in the property packages.
package progen

import (
	"fmt"
	"strings"

	"pgregory.net/rapid"
)

// Var is a variable in scope.
type Var struct {
	Name string
	Type string // Go type text: "int", "string", "bool", "[]int", ...
	// ReadOnly variables (loop counters, termination guards) are never assigned by
	// generated statements.
	ReadOnly bool
}

// G is the state of one program generation.
type G struct {
	T      *rapid.T
	Px     string // prefix of every package-level name
	n      int    // name counter
	ev     int    // event counter
	scopes [][]Var
	Budget int // remaining statements
	Tags   map[string]bool
	Decls  []string // finished top-level declarations, in dependency order
}

func New(t *rapid.T, px string, budget int) *G {
	return &G{T: t, Px: px, Budget: budget, Tags: map[string]bool{}, scopes: [][]Var{nil}}
}

// Tag records a generator feature.
func (g *G) Tag(s string) { g.Tags[s] = true }

func (g *G) TagList() []string {
	var l []string
	for k := range g.Tags {
		l = append(l, k)
	}
	// deterministic order
	for i := 1; i < len(l); i++ {
		for j := i; j > 0 && l[j] < l[j-1]; j-- {
			l[j], l[j-1] = l[j-1], l[j]
		}
	}
	return l
}

// Local returns a fresh local identifier.
func (g *G) Local(base string) string { g.n++; return fmt.Sprintf("%s%d", base, g.n) }

// Top returns a fresh package-level identifier (prefixed).
func (g *G) Top(base string) string { g.n++; return fmt.Sprintf("%s%s%d", g.Px, base, g.n) }

// Ev returns the next event number.
func (g *G) Ev() int { g.ev++; return g.ev }

func (g *G) Int(lo, hi int, label string) int { return rapid.IntRange(lo, hi).Draw(g.T, label) }
func (g *G) Bool(label string) bool          { return rapid.Bool().Draw(g.T, label) }
func (g *G) Pick(n int, label string) int    { return rapid.IntRange(0, n-1).Draw(g.T, label) }
func (g *G) OneOf(label string, opts ...string) string {
	return opts[rapid.IntRange(0, len(opts)-1).Draw(g.T, label)]
}

// Chance is true with probability about num/den.
func (g *G) Chance(num, den int, label string) bool {
	return rapid.IntRange(0, den-1).Draw(g.T, label) < num
}

// ---- scopes

func (g *G) Push()              { g.scopes = append(g.scopes, nil) }
func (g *G) Pop()               { g.scopes = g.scopes[:len(g.scopes)-1] }
func (g *G) Depth() int         { return len(g.scopes) }
func (g *G) Declare(v Var)      { g.scopes[len(g.scopes)-1] = append(g.scopes[len(g.scopes)-1], v) }
func (g *G) SaveScopes() [][]Var { s := g.scopes; g.scopes = [][]Var{nil}; return s }
func (g *G) RestoreScopes(s [][]Var) { g.scopes = s }

// Vars returns the visible variables of type typ ("" = all), innermost last.
func (g *G) Vars(typ string, writable bool) []Var {
	var out []Var
	seen := map[string]bool{}
	for i := len(g.scopes) - 1; i >= 0; i-- {
		for j := len(g.scopes[i]) - 1; j >= 0; j-- {
			v := g.scopes[i][j]
			if seen[v.Name] {
				continue
			}
			seen[v.Name] = true
			if (typ == "" || v.Type == typ) && !(writable && v.ReadOnly) {
				out = append(out, v)
			}
		}
	}
	return out
}

// ---- expressions that cannot panic

// IntExpr builds an int expression of bounded depth from variables in scope and
// literals. Division and remainder use non-zero constant divisors, shifts use small
// constant counts, so evaluation never panics; overflow wraps identically everywhere.
func (g *G) IntExpr(depth int) string {
	vars := g.Vars("int", false)
	if depth <= 0 || g.Chance(2, 5, "int-leaf") {
		if len(vars) > 0 && g.Chance(3, 4, "int-var") {
			return vars[g.Pick(len(vars), "int-which")].Name
		}
		return fmt.Sprint(g.Int(-3, 20, "int-lit"))
	}
	a := g.IntExpr(depth - 1)
	switch g.Pick(9, "int-op") {
	case 0:
		return "(" + a + " + " + g.IntExpr(depth-1) + ")"
	case 1:
		return "(" + a + " - " + g.IntExpr(depth-1) + ")"
	case 2:
		return "(" + a + " * " + fmt.Sprint(g.Int(-3, 5, "mul")) + ")"
	case 3:
		return "(" + a + " / " + fmt.Sprint(g.OneOf("div", "2", "3", "-2", "7", "4")) + ")"
	case 4:
		return "(" + a + " % " + fmt.Sprint(g.OneOf("rem", "2", "3", "5", "-3", "8")) + ")"
	case 5:
		return "(" + a + " & " + g.IntExpr(depth-1) + ")"
	case 6:
		return "(" + a + " ^ " + g.IntExpr(depth-1) + ")"
	case 7:
		return "(" + a + " << " + fmt.Sprint(g.Int(0, 3, "shl")) + ")"
	default:
		if strings.HasPrefix(a, "-") {
			return "(-(" + a + "))" // "--1" would be a decrement
		}
		return "(-" + a + ")"
	}
}

// BoolExpr builds a bool expression.
func (g *G) BoolExpr(depth int) string {
	if depth <= 0 || g.Chance(1, 2, "bool-leaf") {
		vars := g.Vars("bool", false)
		if len(vars) > 0 && g.Chance(1, 3, "bool-var") {
			return vars[g.Pick(len(vars), "bool-which")].Name
		}
		op := g.OneOf("cmp", "<", "<=", ">", ">=", "==", "!=")
		return "(" + g.IntExpr(1) + " " + op + " " + g.IntExpr(1) + ")"
	}
	switch g.Pick(3, "bool-op") {
	case 0:
		return "(" + g.BoolExpr(depth-1) + " && " + g.BoolExpr(depth-1) + ")"
	case 1:
		return "(" + g.BoolExpr(depth-1) + " || " + g.BoolExpr(depth-1) + ")"
	default:
		return "(!" + g.BoolExpr(depth-1) + ")"
	}
}

// StrExpr builds a string expression.
func (g *G) StrExpr(depth int) string {
	vars := g.Vars("string", false)
	if depth <= 0 || g.Chance(1, 2, "str-leaf") {
		if len(vars) > 0 && g.Chance(2, 3, "str-var") {
			return vars[g.Pick(len(vars), "str-which")].Name
		}
		return g.OneOf("str-lit", `""`, `"a"`, `"ab"`, `"héé"`, `"x\ty"`, "`r`")
	}
	return "(" + g.StrExpr(depth-1) + " + " + g.StrExpr(depth-1) + ")"
}

// Expr builds an expression of one of the scalar types known to progen.
func (g *G) Expr(typ string, depth int) string {
	switch typ {
	case "int":
		return g.IntExpr(depth)
	case "bool":
		return g.BoolExpr(depth)
	case "string":
		return g.StrExpr(depth)
	}
	panic("progen: no expression generator for type " + typ)
}

// Record emits a trace event with a fresh number and the values of up to 3 visible
// scalar variables.
func (g *G) Record() string {
	args := []string{fmt.Sprint(g.Ev())}
	vars := g.Vars("", false)
	n := 0
	for _, v := range vars {
		if n >= 3 {
			break
		}
		if v.Type == "int" || v.Type == "bool" || v.Type == "string" {
			if g.Chance(1, 2, "rec-var") {
				args = append(args, v.Name)
				n++
			}
		}
	}
	return "rec.E(" + strings.Join(args, ", ") + ")"
}

// Indent indents every line of a block of text by one tab.
func Indent(s string) string {
	lines := strings.Split(strings.TrimRight(s, "\n"), "\n")
	for i, l := range lines {
		if l != "" {
			lines[i] = "\t" + l
		}
	}
	return strings.Join(lines, "\n") + "\n"
}
