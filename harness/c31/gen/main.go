// Command gen writes /verif/harness/c31/zz_generated_ref_test.go.
//
// It links the gomacro tree under test, reads ONLY THE KEYS of imports.Packages
// (package paths, and the names in Binds / Types / Proxies / Untypeds / Wrappers; for
// Wrappers nothing but the type name), asks the standard library's go/types (source
// importer) what each name is in the real package, and writes Go source in which
// entry "Name" of package p is paired with the expression p.Name itself, compiled by gc
// into the test binary. Values behind the keys are never read here, so a wrong value
// behind a right key cannot leak into the reference.
//
// The output is deterministic (sorted) so that the committed file is unchanged when
// the key set is unchanged.
package main

import (
	"bytes"
	"flag"
	"fmt"
	"go/constant"
	"go/format"
	"go/importer"
	"go/token"
	"go/types"
	"io"
	"os"
	"os/exec"
	"path/filepath"
	"reflect"
	"sort"
	"strconv"
	"strings"

	"github.com/cosmos72/gomacro/imports"

	// link every gomacro package that registers its own table (x_package.go), the same
	// set the test binary links (see c31_test.go)
	_ "github.com/cosmos72/gomacro/ast2"
	_ "github.com/cosmos72/gomacro/base"
	_ "github.com/cosmos72/gomacro/base/dep"
	_ "github.com/cosmos72/gomacro/base/genimport"
	_ "github.com/cosmos72/gomacro/base/inspect"
	_ "github.com/cosmos72/gomacro/base/output"
	_ "github.com/cosmos72/gomacro/base/paths"
	_ "github.com/cosmos72/gomacro/base/reflect"
	_ "github.com/cosmos72/gomacro/base/strings"
	_ "github.com/cosmos72/gomacro/base/untyped"
	_ "github.com/cosmos72/gomacro/classic"
	_ "github.com/cosmos72/gomacro/cmd"
	_ "github.com/cosmos72/gomacro/fast"
	_ "github.com/cosmos72/gomacro/go/etoken"
	_ "github.com/cosmos72/gomacro/go/parser"
	_ "github.com/cosmos72/gomacro/go/printer"
	_ "github.com/cosmos72/gomacro/go/scanner"
	_ "github.com/cosmos72/gomacro/go/types"
	_ "github.com/cosmos72/gomacro/go/typeutil"
	_ "github.com/cosmos72/gomacro/xreflect"
)

var outFlag = flag.String("o", "c31/zz_generated_ref_test.go", "output file")

func main() {
	flag.Parse()
	if mf := os.Getenv("VERIF_MODFILE"); mf != "" {
		// go/build shells out to `go list` to locate module packages: same module file
		os.Setenv("GOFLAGS", strings.TrimSpace(os.Getenv("GOFLAGS")+" -modfile="+mf))
	}
	fset := token.NewFileSet()
	paths := make([]string, 0, len(imports.Packages))
	for p := range imports.Packages {
		paths = append(paths, p)
	}
	sort.Strings(paths)
	imp := newImporter(fset, paths)

	var body bytes.Buffer
	var importLines []string
	nEntries := 0
	for i, path := range paths {
		tab := imports.Packages[path]
		alias := fmt.Sprintf("p%d", i)
		gpkg, err := imp.Import(path)
		used := false
		w := func(format string, args ...interface{}) {
			fmt.Fprintf(&body, format, args...)
			nEntries++
		}
		q := strconv.Quote
		if err != nil || gpkg == nil {
			msg := "nil package"
			if err != nil {
				msg = err.Error()
			}
			fmt.Fprintf(os.Stderr, "gen: cannot load %q: %s\n", path, msg)
			gpkg = nil
		}
		goName := ""
		if gpkg != nil {
			goName = gpkg.Name()
		}
		fmt.Fprintf(&body, "\t// ---- %s\n\trefPkgs = append(refPkgs, refPkg{Path: %s, GoName: %s, Loaded: %v})\n", path, q(path), q(goName), gpkg != nil)
		lookup := func(name string) types.Object {
			if gpkg == nil {
				return nil
			}
			if !token.IsExported(name) {
				return nil
			}
			return gpkg.Scope().Lookup(name)
		}
		head := func(table, name string) string {
			return fmt.Sprintf("\tadd(refEntry{Pkg: %s, Table: %s, Name: %s, ", q(path), q(table), q(name))
		}
		missing := func(table, name string) {
			why := "package has no exported symbol of this name"
			if gpkg == nil {
				why = "package cannot be loaded by go/types"
			} else if !token.IsExported(name) {
				why = "name is not an exported identifier"
			}
			w("%sClass: clsMissing, Detail: %s})\n", head(table, name), q(why))
		}
		wrong := func(table, name string, obj types.Object, want string) {
			w("%sClass: clsWrong, Detail: %s})\n", head(table, name), q(fmt.Sprintf("go/types: %s is a %s, not %s", name, objClass(obj), want)))
		}

		// ---------------- Binds
		for _, name := range keys(tab.Binds) {
			obj := lookup(name)
			switch obj := obj.(type) {
			case nil:
				missing("Binds", name)
			case *types.Func:
				if sig := obj.Type().(*types.Signature); sig.TypeParams() != nil {
					wrong("Binds", name, obj, "a non-generic function, variable or constant")
					break
				}
				used = true
				w("%sClass: clsFunc, V: reflect.ValueOf(%s.%s)})\n", head("Binds", name), alias, name)
			case *types.Var:
				used = true
				w("%sClass: clsVar, V: reflect.ValueOf(&%s.%s)})\n", head("Binds", name), alias, name)
			case *types.Const:
				if b, ok := obj.Type().(*types.Basic); ok && b.Info()&types.IsUntyped != 0 {
					w("%sClass: clsUntyped, UKind: %s, Exact: %s})\n", head("Binds", name), q(ukind(b)), q(exact(obj.Val())))
				} else {
					used = true
					w("%sClass: clsConst, V: reflect.ValueOf(%s.%s), Exact: %s})\n", head("Binds", name), alias, name, q(exact(obj.Val())))
				}
			default:
				wrong("Binds", name, obj, "a function, variable or constant")
			}
		}
		// ---------------- Types
		typeExpr := func(table, name string) (string, *types.TypeName) {
			obj := lookup(name)
			if obj == nil {
				missing(table, name)
				return "", nil
			}
			tn, ok := obj.(*types.TypeName)
			if !ok {
				wrong(table, name, obj, "a type")
				return "", nil
			}
			if named, ok := tn.Type().(*types.Named); ok && named.TypeParams() != nil {
				wrong(table, name, obj, "a non-generic type")
				return "", nil
			}
			used = true
			return fmt.Sprintf("reflect.TypeOf((*%s.%s)(nil)).Elem()", alias, name), tn
		}
		for _, name := range keys(tab.Types) {
			if te, tn := typeExpr("Types", name); tn != nil {
				w("%sClass: clsType, T: %s, IsAlias: %v})\n", head("Types", name), te, tn.IsAlias())
			}
		}
		// ---------------- Proxies
		for _, name := range keys(tab.Proxies) {
			te, tn := typeExpr("Proxies", name)
			if tn == nil {
				continue
			}
			it, ok := tn.Type().Underlying().(*types.Interface)
			if !ok {
				wrong("Proxies", name, tn, "an interface type")
				continue
			}
			var ms []string
			for i := 0; i < it.NumMethods(); i++ {
				m := it.Method(i)
				n := m.Name()
				if !m.Exported() {
					n = m.Pkg().Path() + "." + n
				}
				ms = append(ms, n)
			}
			sort.Strings(ms)
			w("%sClass: clsIface, T: %s, Names: %s})\n", head("Proxies", name), te, strlist(ms))
		}
		// ---------------- Untypeds
		for _, name := range keys(tab.Untypeds) {
			obj := lookup(name)
			c, ok := obj.(*types.Const)
			if obj == nil {
				missing("Untypeds", name)
				continue
			}
			var b *types.Basic
			if ok {
				b, _ = c.Type().(*types.Basic)
			}
			if !ok || b == nil || b.Info()&types.IsUntyped == 0 {
				wrong("Untypeds", name, obj, "an untyped constant")
				continue
			}
			w("%sClass: clsUntyped, UKind: %s, Exact: %s})\n", head("Untypeds", name), q(ukind(b)), q(exact(c.Val())))
		}
		// ---------------- Wrappers (only the type name is read from the table)
		for _, name := range keys(tab.Wrappers) {
			obj := lookup(name)
			if obj == nil {
				missing("Wrappers", name)
				continue
			}
			tn, ok := obj.(*types.TypeName)
			if !ok {
				wrong("Wrappers", name, obj, "a type")
				continue
			}
			promoted, explicit := methodsOf(tn.Type())
			w("%sClass: clsMethods, Names: %s, Explicit: %s, Ambiguous: %s})\n", head("Wrappers", name), strlist(promoted), strlist(explicit), strlist(ambiguousOf(tn.Type())))
		}
		if used {
			importLines = append(importLines, fmt.Sprintf("\t%s %s\n", alias, q(path)))
		}
	}

	var out bytes.Buffer
	out.WriteString("// Code generated by verif/harness/c31/gen from the KEYS of imports.Packages and go/types. DO NOT EDIT.\n\n")
	out.WriteString("package c31\n\nimport (\n\t\"reflect\"\n\n")
	for _, l := range importLines {
		out.WriteString(l)
	}
	out.WriteString(")\n\n")
	fmt.Fprintf(&out, "const refEntryCount = %d\n\n", nEntries)
	out.WriteString("func init() {\n\tadd := func(e refEntry) { refEntries = append(refEntries, e) }\n")
	out.Write(body.Bytes())
	out.WriteString("}\n")

	src, err := format.Source(out.Bytes())
	if err != nil {
		os.WriteFile(*outFlag+".broken", out.Bytes(), 0o644)
		fmt.Fprintln(os.Stderr, "gen: generated source does not parse:", err)
		os.Exit(1)
	}
	if old, err := os.ReadFile(*outFlag); err == nil && bytes.Equal(old, src) {
		fmt.Printf("gen: %s up to date (%d packages, %d entries)\n", *outFlag, len(paths), nEntries)
		return
	}
	tmp := filepath.Join(filepath.Dir(*outFlag), ".zz_generated_ref.tmp")
	if err := os.WriteFile(tmp, src, 0o644); err != nil {
		fmt.Fprintln(os.Stderr, "gen:", err)
		os.Exit(1)
	}
	if err := os.Rename(tmp, *outFlag); err != nil {
		fmt.Fprintln(os.Stderr, "gen:", err)
		os.Exit(1)
	}
	fmt.Printf("gen: wrote %s (%d packages, %d entries)\n", *outFlag, len(paths), nEntries)
}

func keys(m interface{}) []string {
	var l []string
	for _, k := range reflect.ValueOf(m).MapKeys() {
		l = append(l, k.String())
	}
	sort.Strings(l)
	return l
}

func strlist(l []string) string {
	if len(l) == 0 {
		return "nil"
	}
	var b strings.Builder
	b.WriteString("[]string{")
	for i, s := range l {
		if i > 0 {
			b.WriteString(", ")
		}
		b.WriteString(strconv.Quote(s))
	}
	b.WriteString("}")
	return b.String()
}

func objClass(obj types.Object) string {
	switch obj := obj.(type) {
	case *types.Func:
		if obj.Type().(*types.Signature).TypeParams() != nil {
			return "generic function"
		}
		return "function"
	case *types.Var:
		return "variable"
	case *types.Const:
		if b, ok := obj.Type().(*types.Basic); ok && b.Info()&types.IsUntyped != 0 {
			return "untyped constant"
		}
		return "typed constant"
	case *types.TypeName:
		if named, ok := obj.Type().(*types.Named); ok && named.TypeParams() != nil {
			return "generic type"
		}
		if _, ok := obj.Type().Underlying().(*types.Interface); ok {
			return "interface type"
		}
		return "type"
	}
	return fmt.Sprintf("%T", obj)
}

func ukind(b *types.Basic) string {
	switch b.Kind() {
	case types.UntypedBool:
		return "bool"
	case types.UntypedInt:
		return "int"
	case types.UntypedRune:
		return "rune"
	case types.UntypedFloat:
		return "float"
	case types.UntypedComplex:
		return "complex"
	case types.UntypedString:
		return "string"
	case types.UntypedNil:
		return "nil"
	}
	return "?" + b.Name()
}

// exact renders a constant without loss: bool true/false, string quoted, int decimal,
// float as "a/b" or a big.Float 'p' text, complex as "re im" of those.
func exact(v constant.Value) string {
	switch v.Kind() {
	case constant.Complex:
		return constant.Real(v).ExactString() + " " + constant.Imag(v).ExactString()
	case constant.String:
		return constant.StringVal(v) // raw; quoted by the caller
	}
	return v.ExactString()
}

// methodsOf returns the exported method names of *T (and T) that go/types reports as
// promoted through an embedded field (selection index longer than 1) and those declared
// explicitly on T.
func methodsOf(t types.Type) (promoted, explicit []string) {
	seen := map[string]bool{}
	for _, typ := range []types.Type{t, types.NewPointer(t)} {
		ms := types.NewMethodSet(typ)
		for i := 0; i < ms.Len(); i++ {
			sel := ms.At(i)
			f := sel.Obj()
			if !f.Exported() || seen[f.Name()] {
				continue
			}
			seen[f.Name()] = true
			if len(sel.Index()) > 1 {
				promoted = append(promoted, f.Name())
			} else {
				explicit = append(explicit, f.Name())
			}
		}
	}
	sort.Strings(promoted)
	sort.Strings(explicit)
	return
}

// newImporter returns a go/types importer that reads the export data gc itself wrote
// for exactly the packages the test binary is built from: one `go list -export -deps`
// call (same module file, same tags) yields the file of every package; unknown paths
// simply have none.
func newImporter(fset *token.FileSet, paths []string) types.Importer {
	args := []string{"list", "-e", "-export", "-deps", "-tags", "verif", "-f", "{{.ImportPath}}\t{{.Export}}"}
	if mf := os.Getenv("VERIF_MODFILE"); mf != "" {
		args = append(args, "-modfile="+mf)
	}
	args = append(args, "--")
	args = append(args, paths...)
	cmd := exec.Command("go", args...)
	cmd.Stderr = nil
	outb, err := cmd.Output()
	if err != nil && len(outb) == 0 {
		fmt.Fprintln(os.Stderr, "gen: go list -export failed:", err)
		os.Exit(1)
	}
	files := map[string]string{}
	for _, line := range strings.Split(string(outb), "\n") {
		f := strings.SplitN(line, "\t", 2)
		if len(f) == 2 && f[1] != "" {
			files[f[0]] = f[1]
		}
	}
	lookup := func(path string) (io.ReadCloser, error) {
		f, ok := files[path]
		if !ok {
			return nil, fmt.Errorf("no export data for %q", path)
		}
		return os.Open(f)
	}
	return importer.ForCompiler(fset, "gc", lookup)
}

// ambiguousOf returns the exported names that are NOT methods of *T although at least
// two directly embedded fields of T have a method of that name (the selector is
// ambiguous, Go promotes none of them).
func ambiguousOf(t types.Type) []string {
	st, ok := t.Underlying().(*types.Struct)
	if !ok {
		return nil
	}
	own := map[string]bool{}
	ms := types.NewMethodSet(types.NewPointer(t))
	for i := 0; i < ms.Len(); i++ {
		own[ms.At(i).Obj().Name()] = true
	}
	count := map[string]int{}
	for i := 0; i < st.NumFields(); i++ {
		f := st.Field(i)
		if !f.Embedded() {
			continue
		}
		ft := f.Type()
		if _, isPtr := ft.(*types.Pointer); !isPtr {
			if _, isIface := ft.Underlying().(*types.Interface); !isIface {
				ft = types.NewPointer(ft)
			}
		}
		fms := types.NewMethodSet(ft)
		for j := 0; j < fms.Len(); j++ {
			if o := fms.At(j).Obj(); o.Exported() {
				count[o.Name()]++
			}
		}
	}
	var l []string
	for n, c := range count {
		if c >= 2 && !own[n] {
			l = append(l, n)
		}
	}
	sort.Strings(l)
	return l
}
