// C31 (c): proxy forwarding, the property-based part.
//
// For proxy struct P of interface I and every method M of I: every M_ field is filled
// with a reflect.MakeFunc recorder, M is called on *P through I's method table with
// argument values built from a rapid-drawn tape, and the check demands that exactly
// the field M_ was called, once, with (P.Object, the same arguments), and that the
// caller receives exactly the results the recorder returned.
package c31

import (
	"errors"
	"fmt"
	"hash/fnv"
	"math"
	"reflect"
	"sort"
	"strings"
	"testing"
	"unsafe"

	"github.com/cosmos72/gomacro/imports"
	"pgregory.net/rapid"

	"verif/harness/vlib"
)

// ---------------------------------------------------------------- value identity

// funcWord returns the funcval pointer of a func value (reflect's Pointer() gives the
// code pointer, which is the same stub for every MakeFunc product).
func funcWord(v reflect.Value) (unsafe.Pointer, bool) {
	if v.IsNil() {
		return nil, true
	}
	if !v.CanInterface() {
		return nil, false
	}
	i := v.Interface()
	return (*[2]unsafe.Pointer)(unsafe.Pointer(&i))[1], true
}

// sameValue: b is a unchanged: equal bits for scalars (NaN payloads included), the same
// object for pointers, maps, channels and functions, the same backing array, length and
// capacity for slices, recursively for arrays, structs and interfaces.
func sameValue(a, b reflect.Value) bool {
	if a.IsValid() != b.IsValid() {
		return false
	}
	if !a.IsValid() {
		return true
	}
	if a.Type() != b.Type() {
		return false
	}
	switch a.Kind() {
	case reflect.Bool:
		return a.Bool() == b.Bool()
	case reflect.Int, reflect.Int8, reflect.Int16, reflect.Int32, reflect.Int64:
		return a.Int() == b.Int()
	case reflect.Uint, reflect.Uint8, reflect.Uint16, reflect.Uint32, reflect.Uint64, reflect.Uintptr:
		return a.Uint() == b.Uint()
	case reflect.Float32, reflect.Float64:
		return math.Float64bits(a.Float()) == math.Float64bits(b.Float())
	case reflect.Complex64, reflect.Complex128:
		x, y := a.Complex(), b.Complex()
		return math.Float64bits(real(x)) == math.Float64bits(real(y)) && math.Float64bits(imag(x)) == math.Float64bits(imag(y))
	case reflect.String:
		return a.String() == b.String()
	case reflect.Ptr, reflect.Map, reflect.Chan, reflect.UnsafePointer:
		return a.Pointer() == b.Pointer()
	case reflect.Func:
		pa, oka := funcWord(a)
		pb, okb := funcWord(b)
		if !oka || !okb {
			return a.IsNil() == b.IsNil()
		}
		return pa == pb
	case reflect.Slice:
		if a.IsNil() != b.IsNil() || a.Len() != b.Len() || a.Cap() != b.Cap() {
			return false
		}
		return a.Pointer() == b.Pointer()
	case reflect.Array:
		for i := 0; i < a.Len(); i++ {
			if !sameValue(a.Index(i), b.Index(i)) {
				return false
			}
		}
		return true
	case reflect.Struct:
		for i := 0; i < a.NumField(); i++ {
			if !sameValue(a.Field(i), b.Field(i)) {
				return false
			}
		}
		return true
	case reflect.Interface:
		if a.IsNil() != b.IsNil() {
			return false
		}
		if a.IsNil() {
			return true
		}
		return sameValue(a.Elem(), b.Elem())
	}
	return false
}

// ---------------------------------------------------------------- values from a tape

type tape struct {
	data []uint64
	pos  int
}

func (t *tape) next() uint64 {
	if t.pos < len(t.data) {
		t.pos++
		return t.data[t.pos-1]
	}
	return 0
}

// n returns a choice in [0,k); an exhausted tape always chooses 0, the simplest value.
func (t *tape) n(k int) int { return int(t.next() % uint64(k)) }

var (
	implementers     map[reflect.Type][]reflect.Type // interface type -> pointer-to-proxy types implementing it
	allProxyPtrTypes []reflect.Type
	rtypeError       = reflect.TypeOf((*error)(nil)).Elem()
)

func proxyPtrTypes() []reflect.Type {
	if allProxyPtrTypes == nil {
		var paths []string
		for p := range imports.Packages {
			paths = append(paths, p)
		}
		sort.Strings(paths)
		for _, p := range paths {
			var names []string
			for n := range imports.Packages[p].Proxies {
				names = append(names, n)
			}
			sort.Strings(names)
			for _, n := range names {
				if pt := imports.Packages[p].Proxies[n]; pt != nil && pt.Kind() == reflect.Struct {
					allProxyPtrTypes = append(allProxyPtrTypes, reflect.PtrTo(pt))
				}
			}
		}
		implementers = map[reflect.Type][]reflect.Type{}
	}
	return allProxyPtrTypes
}

func implementersOf(it reflect.Type) []reflect.Type {
	all := proxyPtrTypes()
	if l, ok := implementers[it]; ok {
		return l
	}
	l := []reflect.Type{}
	for _, pt := range all {
		if pt.Implements(it) {
			l = append(l, pt)
		}
	}
	implementers[it] = l
	return l
}

var someStrings = []string{"", "a", "gomacro", "\x00\xff", "日本語", "a longer string with spaces and \n newline"}

const maxDepth = 4

// build makes a value of exactly type t from the tape. hashable: the value will be a
// map key, so interfaces must not hold unhashable dynamic values.
func build(t reflect.Type, tp *tape, depth int, hashable bool) reflect.Value {
	v := reflect.New(t).Elem()
	if depth > maxDepth {
		return v
	}
	switch t.Kind() {
	case reflect.Bool:
		v.SetBool(tp.n(2) == 1)
	case reflect.Int, reflect.Int8, reflect.Int16, reflect.Int32, reflect.Int64:
		bits := uint(t.Bits())
		var x int64
		switch tp.n(6) {
		case 0:
			x = 0
		case 1:
			x = 1
		case 2:
			x = -1
		case 3:
			x = int64(1)<<(bits-1) - 1
		case 4:
			x = -(int64(1) << (bits - 1))
		default:
			x = int64(tp.next())
		}
		v.SetInt(x) // truncates to the width
	case reflect.Uint, reflect.Uint8, reflect.Uint16, reflect.Uint32, reflect.Uint64, reflect.Uintptr:
		var x uint64
		switch tp.n(4) {
		case 0:
			x = 0
		case 1:
			x = 1
		case 2:
			x = math.MaxUint64
		default:
			x = tp.next()
		}
		v.SetUint(x)
	case reflect.Float32, reflect.Float64:
		var f float64
		switch tp.n(7) {
		case 0:
			f = 0
		case 1:
			f = 1.5
		case 2:
			f = math.Copysign(0, -1)
		case 3:
			f = math.Inf(1)
		case 4:
			f = math.NaN()
		case 5:
			f = -math.MaxFloat32
		default:
			f = math.Float64frombits(tp.next())
		}
		v.SetFloat(f)
	case reflect.Complex64, reflect.Complex128:
		re := build(reflect.TypeOf(float64(0)), tp, depth+1, hashable).Float()
		im := build(reflect.TypeOf(float64(0)), tp, depth+1, hashable).Float()
		v.SetComplex(complex(re, im))
	case reflect.String:
		v.SetString(someStrings[tp.n(len(someStrings))])
	case reflect.Ptr:
		if tp.n(3) != 0 {
			p := reflect.New(t.Elem())
			p.Elem().Set(build(t.Elem(), tp, depth+1, false))
			v.Set(p)
		}
	case reflect.Slice:
		switch k := tp.n(5); k {
		case 0: // nil
		case 1:
			v.Set(reflect.MakeSlice(t, 0, 0))
		default:
			n := k - 1
			s := reflect.MakeSlice(t, n, n+tp.n(3))
			for i := 0; i < n; i++ {
				s.Index(i).Set(build(t.Elem(), tp, depth+1, false))
			}
			v.Set(s)
		}
	case reflect.Array:
		n := t.Len()
		if n > 4 {
			n = 4
		}
		for i := 0; i < n; i++ {
			v.Index(i).Set(build(t.Elem(), tp, depth+1, hashable))
		}
	case reflect.Map:
		switch k := tp.n(4); k {
		case 0: // nil
		default:
			m := reflect.MakeMap(t)
			for i := 0; i < k-1; i++ {
				m.SetMapIndex(build(t.Key(), tp, depth+1, true), build(t.Elem(), tp, depth+1, false))
			}
			v.Set(m)
		}
	case reflect.Struct:
		for i := 0; i < t.NumField(); i++ {
			if f := t.Field(i); f.PkgPath == "" { // exported: settable
				v.Field(i).Set(build(f.Type, tp, depth+1, hashable))
			}
		}
	case reflect.Chan:
		if tp.n(2) == 1 {
			c := reflect.MakeChan(reflect.ChanOf(reflect.BothDir, t.Elem()), 1)
			v.Set(c.Convert(t))
		}
	case reflect.Func:
		if tp.n(2) == 1 {
			ft := t
			v.Set(reflect.MakeFunc(ft, func([]reflect.Value) []reflect.Value {
				out := make([]reflect.Value, ft.NumOut())
				for i := range out {
					out[i] = reflect.Zero(ft.Out(i))
				}
				return out
			}))
		}
	case reflect.UnsafePointer:
		if tp.n(2) == 1 {
			v.Set(reflect.ValueOf(unsafe.Pointer(new(int64))).Convert(t))
		}
	case reflect.Interface:
		k := tp.n(6)
		if k == 0 {
			break // nil interface
		}
		if t.NumMethod() == 0 {
			var x reflect.Value
			switch k {
			case 1:
				x = reflect.ValueOf(int(tp.next()))
			case 2:
				x = reflect.ValueOf(someStrings[tp.n(len(someStrings))])
			case 3:
				x = reflect.ValueOf(new(int))
			case 4:
				if hashable {
					x = reflect.ValueOf(struct{ A, B int }{1, 2})
				} else {
					x = reflect.ValueOf([]byte("bytes"))
				}
			default:
				x = reflect.ValueOf(math.NaN())
			}
			v.Set(x)
			break
		}
		if t.Implements(rtypeError) && rtypeError.Implements(t) { // the error interface itself (or identical)
			v.Set(reflect.ValueOf(errors.New("recorded error")).Convert(t))
			break
		}
		if rtypeError.Implements(t) && k == 1 {
			v.Set(reflect.ValueOf(errors.New("recorded error")))
			break
		}
		if impl := implementersOf(t); len(impl) != 0 {
			// a fresh proxy object standing in for an arbitrary implementation; it is only passed around
			v.Set(reflect.New(impl[tp.n(len(impl))].Elem()))
		}
	}
	return v
}

// ---------------------------------------------------------------- one proxy-method case

type recordedCall struct {
	field string
	args  []reflect.Value
}

func tapeHash(tp []uint64, spread bool) string {
	h := fnv.New64a()
	for _, x := range tp {
		var b [8]byte
		for i := range b {
			b[i] = byte(x >> (8 * i))
		}
		h.Write(b[:])
	}
	return fmt.Sprintf("%016x/%v", h.Sum64(), spread)
}

// runProxyCase performs one forwarding experiment. nparams is returned for the
// non-triviality rule.
func runProxyCase(proxy, iface reflect.Type, method string, data []uint64, spread bool) (nparams int, err error) {
	if proxy == nil || proxy.Kind() != reflect.Struct {
		return 0, fmt.Errorf("proxy is not a struct type: %v", proxy)
	}
	pp := reflect.PtrTo(proxy)
	if !pp.Implements(iface) {
		return 0, fmt.Errorf("<%v> does not implement <%v>", pp, iface)
	}
	im, ok := iface.MethodByName(method)
	if !ok {
		return 0, fmt.Errorf("harness: interface %v has no method %s", iface, method)
	}
	mt := im.Type // without receiver
	nparams = mt.NumIn()
	tp := &tape{data: data}

	recv := reflect.New(proxy)
	object := new(int)
	f0, ok := proxy.FieldByName("Object")
	if !ok || f0.Type != rtypeEmptyInterface {
		return nparams, fmt.Errorf("<%v> has no field Object interface{}", proxy)
	}
	recv.Elem().FieldByIndex(f0.Index).Set(reflect.ValueOf(object))

	// results the target field will return
	results := make([]reflect.Value, mt.NumOut())
	for i := range results {
		results[i] = build(mt.Out(i), tp, 0, false)
	}
	var calls []recordedCall
	for i := 0; i < proxy.NumField(); i++ {
		f := proxy.Field(i)
		if f.Type.Kind() != reflect.Func || f.PkgPath != "" {
			continue
		}
		name, ft := f.Name, f.Type
		recv.Elem().Field(i).Set(reflect.MakeFunc(ft, func(args []reflect.Value) []reflect.Value {
			calls = append(calls, recordedCall{name, args})
			if name == method+"_" && ft.NumOut() == len(results) {
				ok := true
				for i, r := range results {
					if r.Type() != ft.Out(i) {
						ok = false
					}
				}
				if ok {
					return results
				}
			}
			out := make([]reflect.Value, ft.NumOut())
			for i := range out {
				out[i] = reflect.Zero(ft.Out(i))
			}
			return out
		}))
	}

	// arguments
	args := make([]reflect.Value, 0, mt.NumIn()+3)
	nfixed := mt.NumIn()
	if mt.IsVariadic() {
		nfixed--
	}
	for i := 0; i < nfixed; i++ {
		args = append(args, build(mt.In(i), tp, 0, false))
	}
	var variadic []reflect.Value
	if mt.IsVariadic() {
		st := mt.In(nfixed)
		if spread {
			k := tp.n(4)
			for i := 0; i < k; i++ {
				variadic = append(variadic, build(st.Elem(), tp, 0, false))
			}
			args = append(args, variadic...)
		} else {
			args = append(args, build(st, tp, 0, false))
		}
	}

	lastProxyCall = lastProxyCall[:0]
	for _, a := range args {
		lastProxyCall = append(lastProxyCall, showDeep(a, 0))
	}
	lastProxyResults = lastProxyResults[:0]
	for _, r := range results {
		lastProxyResults = append(lastProxyResults, showDeep(r, 0))
	}

	// call through the interface's method table, as compiled code holding an I would
	iv := reflect.New(iface).Elem()
	iv.Set(recv)
	mv := iv.MethodByName(method)
	var outs []reflect.Value
	if p := vlib.Try(func() {
		if mt.IsVariadic() && !spread {
			outs = mv.CallSlice(args)
		} else {
			outs = mv.Call(args)
		}
	}); p != nil {
		return nparams, fmt.Errorf("(*%v).%s panics: %v", proxy, method, p)
	}

	if len(calls) != 1 {
		var l []string
		for _, c := range calls {
			l = append(l, c.field)
		}
		return nparams, fmt.Errorf("(*%v).%s called %d function fields %v, expecting exactly one call of %s_", proxy, method, len(calls), l, method)
	}
	c := calls[0]
	if c.field != method+"_" {
		return nparams, fmt.Errorf("(*%v).%s forwards to field %s, expecting %s_", proxy, method, c.field, method)
	}
	if len(c.args) != mt.NumIn()+1 {
		return nparams, fmt.Errorf("(*%v).%s forwards %d arguments, expecting 1 + %d", proxy, method, len(c.args), mt.NumIn())
	}
	a0 := c.args[0]
	if a0.Kind() != reflect.Interface || a0.IsNil() || a0.Elem().Kind() != reflect.Ptr || a0.Elem().Pointer() != reflect.ValueOf(object).Pointer() {
		return nparams, fmt.Errorf("(*%v).%s does not pass P.Object as first argument", proxy, method)
	}
	for i := 0; i < nfixed; i++ {
		if !sameValue(args[i], c.args[i+1]) {
			return nparams, fmt.Errorf("(*%v).%s changes argument %d on the way to %s_", proxy, method, i, method)
		}
	}
	if mt.IsVariadic() {
		got := c.args[nfixed+1]
		if spread {
			if got.Kind() != reflect.Slice || got.Len() != len(variadic) {
				return nparams, fmt.Errorf("(*%v).%s forwards %d variadic arguments, expecting %d", proxy, method, got.Len(), len(variadic))
			}
			for i := range variadic {
				if !sameValue(variadic[i], got.Index(i)) {
					return nparams, fmt.Errorf("(*%v).%s changes variadic argument %d on the way to %s_", proxy, method, i, method)
				}
			}
		} else if !sameValue(args[nfixed], got) {
			return nparams, fmt.Errorf("(*%v).%s changes the variadic slice on the way to %s_", proxy, method, method)
		}
	}
	if len(outs) != len(results) {
		return nparams, fmt.Errorf("(*%v).%s returns %d results, expecting %d", proxy, method, len(outs), len(results))
	}
	for i := range results {
		if !sameValue(results[i], outs[i]) {
			return nparams, fmt.Errorf("(*%v).%s changes result %d on the way back from %s_", proxy, method, i, method)
		}
	}
	return nparams, nil
}

// arguments and results of the latest runProxyCase, rendered for rec.Sample
var lastProxyCall, lastProxyResults []string

func showDeep(v reflect.Value, depth int) string {
	if !v.IsValid() {
		return "<invalid>"
	}
	switch v.Kind() {
	case reflect.Slice:
		if v.IsNil() {
			return fmt.Sprintf("%v(nil)", v.Type())
		}
		s := fmt.Sprintf("%v(len=%d cap=%d){", v.Type(), v.Len(), v.Cap())
		for i := 0; i < v.Len() && i < 3 && depth < 2; i++ {
			s += showDeep(v.Index(i), depth+1) + ","
		}
		return s + "}"
	case reflect.Ptr, reflect.Map, reflect.Chan, reflect.Func, reflect.UnsafePointer:
		if v.IsNil() {
			return fmt.Sprintf("%v(nil)", v.Type())
		}
		if v.Kind() == reflect.Ptr && depth < 2 {
			return "&" + showDeep(v.Elem(), depth+1)
		}
		return fmt.Sprintf("%v(non-nil)", v.Type())
	case reflect.Interface:
		if v.IsNil() {
			return fmt.Sprintf("%v(nil)", v.Type())
		}
		return fmt.Sprintf("%v(%s)", v.Type(), showDeep(v.Elem(), depth+1))
	case reflect.Struct:
		return fmt.Sprintf("%v{...}", v.Type())
	}
	return show(v)
}

func proxyTypes(e *refEntry) (proxy, iface reflect.Type, err error) {
	if e.Class != clsIface {
		return nil, nil, fmt.Errorf("key names no interface: %s", e.Detail)
	}
	proxy = imports.Packages[e.Pkg].Proxies[e.Name]
	if proxy == nil {
		return nil, nil, fmt.Errorf("harness: no proxy under that key (stale reference)")
	}
	return proxy, e.T, nil
}

func TestProxies(t *testing.T) {
	if rec.ReplayOnly() {
		return
	}
	idx := 0
	n := rec.Scale(40, 600)
	for i := range refEntries {
		e := &refEntries[i]
		if e.Table != "Proxies" || e.Class != clsIface {
			continue
		}
		idx++
		if !rec.Mine(idx) {
			continue
		}
		proxy, iface, err := proxyTypes(e)
		if err != nil {
			t.Fatalf("%v: %v", e, err)
		}
		if !reflect.PtrTo(proxy).Implements(iface) {
			continue // reported by TestEntries (checkProxyShape)
		}
		if strings.HasPrefix(e.Pkg, ownPrefix) && oldLayoutProxy(proxy, iface) && skip("F-C31-3") {
			continue
		}
		nm := iface.NumMethod()
		rec.Check(t, n, func(rt *rapid.T) {
			for j := 0; j < nm; j++ {
				m := iface.Method(j)
				data := rapid.SliceOfN(rapid.Uint64(), 0, 40).Draw(rt, m.Name)
				spread := false
				if m.Type.IsVariadic() {
					spread = rapid.Bool().Draw(rt, "spread")
				}
				if j > 0 {
					rec.Eval(1)
				}
				nparams, err := runProxyCase(proxy, iface, m.Name, data, spread)
				rec.Label(fmt.Sprintf("proxy-case:params=%d", min(nparams, 4)))
				if m.Type.IsVariadic() {
					rec.Label(fmt.Sprintf("proxy-case:variadic-spread=%v", spread))
				}
				if nparams >= 1 {
					rec.Sample(map[string]interface{}{"test": "proxy", "proxy": fmt.Sprint(proxy), "interface": fmt.Sprint(iface), "method": m.Name,
						"arguments": append([]string{}, lastProxyCall...), "results_returned_by_recorder": append([]string{}, lastProxyResults...), "tape": data})
				}
				if nparams >= 2 {
					rec.NT("proxy:" + e.key() + "\x00" + m.Name + "\x00" + tapeHash(data, spread))
				}
				if err != nil {
					c := replayCase{Kind: "proxy", Pkg: e.Pkg, Name: e.Name, Method: m.Name, Spread: spread, Tape: data}
					rec.Failf(rt, "proxy:"+e.key()+"\x00"+m.Name, c.bytes(), "json", "%v", err)
				}
			}
		})
	}
}

func replayProxy(c replayCase) error {
	e := findEntry(c.Pkg, "Proxies", c.Name)
	if e == nil {
		return nil // no proxy under that key any more
	}
	proxy, iface, err := proxyTypes(e)
	if err != nil {
		return fmt.Errorf("%v: %v", e, err)
	}
	if _, ok := iface.MethodByName(c.Method); !ok {
		return nil
	}
	_, err = runProxyCase(proxy, iface, c.Method, c.Tape, c.Spread)
	return err
}
