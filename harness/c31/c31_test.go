// C31: precompiled import tables bind each name to exactly that exported symbol.
//
// Oracle: a generated reference (zz_generated_ref_test.go, written by ./gen on every
// check run from the KEYS of the tables and go/types) in which entry "Name" of package
// p is paired with the expression p.Name compiled by gc, plus go/types facts (constant
// values, promoted method sets). Proxies are exercised with rapid-drawn argument values
// against reflect.MakeFunc recorders.
package c31

import (
	"encoding/json"
	"fmt"
	"go/constant"
	"go/token"
	"hash/fnv"
	"math"
	"math/big"
	"os"
	"reflect"
	"sort"
	"strconv"
	"strings"
	"testing"

	"github.com/cosmos72/gomacro/base/untyped"
	"github.com/cosmos72/gomacro/fast"
	"github.com/cosmos72/gomacro/imports"
	xr "github.com/cosmos72/gomacro/xreflect"

	// link every gomacro package that registers its own table (x_package.go); must be
	// the same list as in gen/main.go
	_ "github.com/cosmos72/gomacro/ast2"
	_ "github.com/cosmos72/gomacro/base"
	_ "github.com/cosmos72/gomacro/base/dep"
	_ "github.com/cosmos72/gomacro/base/genimport"
	_ "github.com/cosmos72/gomacro/base/inspect"
	_ "github.com/cosmos72/gomacro/base/output"
	_ "github.com/cosmos72/gomacro/base/paths"
	_ "github.com/cosmos72/gomacro/base/reflect"
	_ "github.com/cosmos72/gomacro/base/strings"
	_ "github.com/cosmos72/gomacro/classic"
	_ "github.com/cosmos72/gomacro/cmd"
	_ "github.com/cosmos72/gomacro/go/etoken"
	_ "github.com/cosmos72/gomacro/go/parser"
	_ "github.com/cosmos72/gomacro/go/printer"
	_ "github.com/cosmos72/gomacro/go/scanner"
	_ "github.com/cosmos72/gomacro/go/types"
	_ "github.com/cosmos72/gomacro/go/typeutil"

	"verif/harness/vlib"
)

var rec *vlib.Rec

func TestMain(m *testing.M) {
	rec = vlib.Open("C31")
	rec.Rule("cases = (a) every entry of every table of imports.Packages (Binds, Types, Proxies, Untypeds, Wrappers), enumerated exhaustively and compared with the gc-compiled expression p.Name / the go/types constant / the go/types promoted-method set, " +
		"(b) the same Binds and Types names read through a fast.Interp after import, " +
		"(c) per proxy method, rapid-drawn argument and result values (all reflect kinds, nil and non-nil) forwarded through reflect.MakeFunc recorders; " +
		"non-trivial = a table entry that is not a function (variable, constant, type, proxy, wrapper list), or a proxy-method case whose method has >= 2 parameters; distinct = distinct (package, table, name) resp. (package, interface, method, argument tape)")
	rec.Assume("only the KEYS of the tables reach the reference; the reference values are the expressions p.Name compiled by gc into this binary and the constants/method sets go/types reads from gc's own export data")
	rec.Assume("a top-level function is identified by its code pointer (reflect.Value.Pointer), a variable by its address; zero-size variables are compared by type only")
	rec.Assume("the generator (c31/gen) and this test binary link the same gomacro packages, hence see the same imports.Packages key set; TestKeySet aborts the run as a harness error otherwise")
	os.Exit(vlib.Main(m, rec))
}

// ---------------------------------------------------------------- reference (filled by the generated file)

type class int

const (
	clsMissing class = iota // go/types: no such exported symbol / package not loadable
	clsWrong                // symbol exists but is of a class this table cannot bind
	clsFunc
	clsVar
	clsConst   // typed constant
	clsUntyped // untyped constant
	clsType
	clsIface   // interface type (key of Proxies)
	clsMethods // named type (key of Wrappers)
)

var classNames = map[class]string{clsMissing: "missing", clsWrong: "wrong-class", clsFunc: "func", clsVar: "var",
	clsConst: "typed-const", clsUntyped: "untyped-const", clsType: "type", clsIface: "iface", clsMethods: "wrapper-list"}

type refEntry struct {
	Pkg, Table, Name string
	Class            class
	Detail           string
	V                reflect.Value // clsFunc: the function; clsVar: its address; clsConst: the value
	T                reflect.Type  // clsType, clsIface
	IsAlias          bool
	UKind, Exact     string   // constants: untyped kind, exact value text from go/types
	Names            []string // clsIface: method names; clsMethods: promoted methods of *T
	Explicit         []string // clsMethods: methods declared on T itself
	Ambiguous        []string // clsMethods: names >= 2 embedded fields have but *T does not (ambiguous selector)
}

type refPkg struct {
	Path, GoName string
	Loaded       bool
}

var (
	refEntries []refEntry
	refPkgs    []refPkg
)

func (e *refEntry) key() string { return e.Pkg + "\x00" + e.Table + "\x00" + e.Name }
func (e *refEntry) String() string {
	return fmt.Sprintf("imports.Packages[%q].%s[%q]", e.Pkg, e.Table, e.Name)
}

func findEntry(pkg, table, name string) *refEntry {
	for i := range refEntries {
		e := &refEntries[i]
		if e.Pkg == pkg && e.Table == table && e.Name == name {
			return e
		}
	}
	return nil
}

// ---------------------------------------------------------------- known findings

// Known findings (all: tables that are stale or were generated by a defective
// analysis; see NOTES.md). Each is excluded by its exact shape and counted, the search
// goes on behind it.
//
// F-C31-1: fast/x_package.go binds "OptDefaults"/"OptKeepUntyped", names package fast does
//
//	not export (the constants are COptDefaults / COptKeepUntyped).
//
// F-C31-2: go/typeutil/x_package.go registers its table under the path
//
//	"github.com/cosmos72/gomacro/typeutil", which is not a package.
//
// F-C31-3: proxies in gomacro's own x_package tables still have the old layout (function
//
//	fields without the leading object parameter); Package.Validate rejects them, so
//	importing those packages in the interpreter panics.
//
// F-C31-4: wrapper lists in gomacro's own x_package tables name methods that are declared
//
//	on the type itself or that do not exist (stale lists).
//
// F-C31-5: wrapper lists name methods that >= 2 embedded fields have, which Go does not
//
//	promote at all (bufio.ReadWriter: Buffered, Reset, Size).
//
// F-C31-6: tables generated for an older Go release disagree with the toolchain that
//
//	compiles them: unicode.Version is "11.0.0" in Untypeds, go/types.Func lists Pkg
//	(nowadays declared on Func itself) as a wrapper.
//
// F-C31-7: without a go/types importer (reflection-only type translation) the import of
//
//	database/sql/driver makes the interpreter's interface{} denote driver.Value; the
//	alias fast.I = interface{} is then exposed as driver.Value (defect in xreflect).
const ownPrefix = "github.com/cosmos72/gomacro/"

func knownMissing(e *refEntry) string {
	if e.Class != clsMissing {
		return ""
	}
	if e.Pkg == ownPrefix+"fast" && e.Table == "Binds" && (e.Name == "OptDefaults" || e.Name == "OptKeepUntyped") {
		return "F-C31-1"
	}
	if e.Pkg == ownPrefix+"typeutil" {
		return "F-C31-2"
	}
	return ""
}

// noSkip is set while a replay file is re-checked: a replay is judged without exclusions.
var noSkip bool

// skip reports (and counts) that the case matches known finding id, if id is listed as known.
func skip(id string) bool {
	if id != "" && !noSkip && rec.Known(id) {
		rec.Excluded(id)
		return true
	}
	return false
}

func excluded(e *refEntry) bool { return skip(knownMissing(e)) }

// oldLayoutProxy: every function field has exactly the interface method's type, i.e. it
// lacks the leading object parameter (the shape of F-C31-3).
func oldLayoutProxy(proxy, iface reflect.Type) bool {
	if proxy == nil || proxy.Kind() != reflect.Struct || iface == nil || iface.Kind() != reflect.Interface || iface.NumMethod() == 0 {
		return false
	}
	for i := 0; i < iface.NumMethod(); i++ {
		m := iface.Method(i)
		f, ok := proxy.FieldByName(m.Name + "_")
		if !ok || f.Type != m.Type {
			return false
		}
	}
	return true
}

// pkgHasOldLayoutProxy: importing this package panics in Package.Validate because of F-C31-3
func pkgHasOldLayoutProxy(path string) bool {
	if !strings.HasPrefix(path, ownPrefix) {
		return false
	}
	pkg := imports.Packages[path]
	for name, proxy := range pkg.Proxies {
		if t := pkg.Types[name]; t != nil && oldLayoutProxy(proxy, t) {
			return true
		}
	}
	return false
}

// ---------------------------------------------------------------- key set

// TestKeySet: the generated reference must cover exactly the keys this binary sees.
// A difference is a harness error (generator not run / different link set), never a
// property violation: the run ends INCONCLUSIVE.
func TestKeySet(t *testing.T) {
	if rec.ReplayOnly() {
		return
	}
	if len(refEntries) != refEntryCount {
		t.Fatalf("generated reference inconsistent: %d entries, header says %d", len(refEntries), refEntryCount)
	}
	have := map[string]bool{}
	for i := range refEntries {
		have[refEntries[i].key()] = true
	}
	havePkg := map[string]bool{}
	for _, p := range refPkgs {
		havePkg[p.Path] = true
	}
	var diffs []string
	n := 0
	for path, pkg := range imports.Packages {
		if !havePkg[path] {
			diffs = append(diffs, "package not in reference: "+path)
		}
		delete(havePkg, path)
		for table, ks := range tableKeys(pkg) {
			for _, k := range ks {
				n++
				key := path + "\x00" + table + "\x00" + k
				if !have[key] {
					diffs = append(diffs, fmt.Sprintf("key not in reference: %s %s %s", path, table, k))
				}
				delete(have, key)
			}
		}
	}
	for k := range have {
		diffs = append(diffs, "reference entry without table key: "+strings.ReplaceAll(k, "\x00", " "))
	}
	for p := range havePkg {
		diffs = append(diffs, "reference package without table: "+p)
	}
	sort.Strings(diffs)
	if len(diffs) > 0 {
		if len(diffs) > 20 {
			diffs = append(diffs[:20], "...")
		}
		t.Fatalf("zz_generated_ref_test.go is stale relative to imports.Packages (run: cd /verif/harness && go run -tags verif ./c31/gen):\n%s", strings.Join(diffs, "\n"))
	}
	if rec.Shard() == 0 {
		rec.Extra("tables", len(imports.Packages))
		rec.Extra("table_entries", n)
	}
}

func tableKeys(pkg imports.Package) map[string][]string {
	m := map[string][]string{}
	for k := range pkg.Binds {
		m["Binds"] = append(m["Binds"], k)
	}
	for k := range pkg.Types {
		m["Types"] = append(m["Types"], k)
	}
	for k := range pkg.Proxies {
		m["Proxies"] = append(m["Proxies"], k)
	}
	for k := range pkg.Untypeds {
		m["Untypeds"] = append(m["Untypeds"], k)
	}
	for k := range pkg.Wrappers {
		m["Wrappers"] = append(m["Wrappers"], k)
	}
	return m
}

// ---------------------------------------------------------------- (a) table entry vs reference

type replayCase struct {
	Kind   string   `json:"kind"` // "entry" | "interp" | "proxy"
	Mode   string   `json:"mode,omitempty"`
	After  []string `json:"after,omitempty"` // interp: packages imported earlier into the same interpreter, in order
	Pkg    string   `json:"pkg"`
	Table  string   `json:"table,omitempty"`
	Name   string   `json:"name"`
	Method string   `json:"method,omitempty"`
	Spread bool     `json:"spread,omitempty"`
	Tape   []uint64 `json:"tape,omitempty"`
}

func (c replayCase) bytes() []byte {
	b, _ := json.MarshalIndent(c, "", " ")
	return append(b, '\n')
}

func TestEntries(t *testing.T) {
	if rec.ReplayOnly() {
		return
	}
	for i := range refEntries {
		if !rec.Mine(i) {
			continue
		}
		e := &refEntries[i]
		if excluded(e) {
			continue
		}
		rec.Eval(1)
		rec.Label("entry:" + e.Table + ":" + classNames[e.Class])
		if e.Class != clsFunc {
			rec.NT("entry:" + e.key())
		}
		if i%61 == rec.Shard() {
			rec.Sample(sampleEntry(e))
		}
		var err error
		if p := vlib.Try(func() { err = checkEntry(e) }); p != nil {
			err = fmt.Errorf("panic while checking: %v", p)
		}
		if err != nil {
			c := replayCase{Kind: "entry", Pkg: e.Pkg, Table: e.Table, Name: e.Name}
			rec.Violation("entry:"+e.key(), c.bytes(), "json", "%v: %v", e, err)
			t.Errorf("%v: %v", e, err)
		}
	}
	rec.Exhaustive(true)
}

// sampleEntry renders one case verbatim for the evidence file: the key, what the
// reference says it must be, and what the table holds.
func sampleEntry(e *refEntry) map[string]interface{} {
	m := map[string]interface{}{"test": "entry", "package": e.Pkg, "table": e.Table, "name": e.Name, "class": classNames[e.Class]}
	pkg := imports.Packages[e.Pkg]
	switch e.Table {
	case "Binds":
		m["table_value"] = show(pkg.Binds[e.Name])
		switch e.Class {
		case clsFunc, clsConst:
			m["expected"] = show(e.V)
		case clsVar:
			m["expected"] = "variable at " + show(e.V)
			if v := pkg.Binds[e.Name]; v.IsValid() && v.CanAddr() {
				m["table_value"] = "variable at " + show(v.Addr())
			}
		case clsUntyped:
			m["expected"] = "untyped " + e.UKind + " " + e.Exact
		}
	case "Types":
		m["expected"] = fmt.Sprint(e.T)
		m["table_value"] = fmt.Sprint(pkg.Types[e.Name])
	case "Untypeds":
		m["expected"] = "untyped " + e.UKind + " " + e.Exact
		m["table_value"] = pkg.Untypeds[e.Name]
	case "Proxies":
		m["expected"] = fmt.Sprintf("struct forwarding %v of %v", e.Names, e.T)
		m["table_value"] = fmt.Sprint(pkg.Proxies[e.Name])
	case "Wrappers":
		m["expected"] = fmt.Sprintf("subset of promoted methods %v", e.Names)
		m["table_value"] = fmt.Sprint(pkg.Wrappers[e.Name])
	}
	if e.Class == clsMissing || e.Class == clsWrong {
		m["expected"] = e.Detail
	}
	return m
}

// checkEntry compares the value behind one table key with the reference.
func checkEntry(e *refEntry) error {
	pkg, ok := imports.Packages[e.Pkg]
	if !ok {
		return fmt.Errorf("harness: no table for package (stale reference)")
	}
	switch e.Class {
	case clsMissing, clsWrong:
		return fmt.Errorf("the key names nothing this table can bind: %s", e.Detail)
	}
	switch e.Table {
	case "Binds":
		v, ok := pkg.Binds[e.Name]
		if !ok {
			return fmt.Errorf("harness: key vanished (stale reference)")
		}
		return checkBind(e, v)
	case "Types":
		typ, ok := pkg.Types[e.Name]
		if !ok {
			return fmt.Errorf("harness: key vanished (stale reference)")
		}
		if typ != e.T {
			return fmt.Errorf("table type is <%v>, the package's type of that name is <%v>", typ, e.T)
		}
		if !e.IsAlias && (typ.Name() != e.Name || typ.PkgPath() != pkgPathOf(e.Pkg)) {
			return fmt.Errorf("table type <%v> is not the named type %s.%s", typ, e.Pkg, e.Name)
		}
		rec.Label("type-kind:" + typ.Kind().String())
		return nil
	case "Untypeds":
		s, ok := pkg.Untypeds[e.Name]
		if !ok {
			return fmt.Errorf("harness: key vanished (stale reference)")
		}
		return checkUntyped(e, s)
	case "Proxies":
		proxy, ok := pkg.Proxies[e.Name]
		if !ok {
			return fmt.Errorf("harness: key vanished (stale reference)")
		}
		return checkProxyShape(e, proxy)
	case "Wrappers":
		list, ok := pkg.Wrappers[e.Name]
		if !ok {
			return fmt.Errorf("harness: key vanished (stale reference)")
		}
		return checkWrappers(e, list)
	}
	return fmt.Errorf("harness: unknown table %q", e.Table)
}

// pkgPathOf: reflect reports the path of a vendored std package with its vendor/ prefix;
// none is in the tables today, so the import path is the reflect path.
func pkgPathOf(importPath string) string { return importPath }

func checkBind(e *refEntry, v reflect.Value) error {
	if !v.IsValid() {
		return fmt.Errorf("table value is the invalid reflect.Value")
	}
	switch e.Class {
	case clsFunc:
		if v.Kind() != reflect.Func {
			return fmt.Errorf("%s is a function, table value has kind %v", e.Name, v.Kind())
		}
		if v.CanAddr() {
			return fmt.Errorf("%s is a function, table value is addressable (a variable)", e.Name)
		}
		if v.Type() != e.V.Type() {
			return fmt.Errorf("table function has type <%v>, %s has type <%v>", v.Type(), e.Name, e.V.Type())
		}
		if v.Pointer() != e.V.Pointer() {
			return fmt.Errorf("table value is another function (code pointer %#x, %s is at %#x)", v.Pointer(), e.Name, e.V.Pointer())
		}
	case clsVar:
		want := e.V.Elem()
		if !v.CanAddr() || !v.CanSet() {
			return fmt.Errorf("%s is a variable, table value is not addressable/settable (a copy)", e.Name)
		}
		if v.Type() != want.Type() {
			return fmt.Errorf("table variable has type <%v>, %s has type <%v>", v.Type(), e.Name, want.Type())
		}
		if want.Type().Size() == 0 {
			rec.Label("var:zero-size")
			return nil
		}
		if v.Addr().Pointer() != e.V.Pointer() {
			return fmt.Errorf("table value is another variable (address %#x, &%s is %#x)", v.Addr().Pointer(), e.Name, e.V.Pointer())
		}
	case clsConst:
		if v.CanAddr() {
			return fmt.Errorf("%s is a constant, table value is addressable (a variable)", e.Name)
		}
		if v.Type() != e.V.Type() {
			return fmt.Errorf("table constant has type <%v>, %s has type <%v>", v.Type(), e.Name, e.V.Type())
		}
		if !sameValue(v, e.V) {
			return fmt.Errorf("table constant is %v, %s is %v", show(v), e.Name, show(e.V))
		}
		// the compiled expression and go/types must agree (cross-check of the reference itself)
		if c, err := parseExact(kindOfConst(e.V), e.Exact); err == nil {
			if err := equalsConst(e.V, c); err != nil {
				return fmt.Errorf("harness: compiled %s disagrees with go/types %s: %v", show(e.V), e.Exact, err)
			}
		}
		rec.Label("const-kind:" + v.Kind().String())
	case clsUntyped:
		// the Binds entry of an untyped constant is an approximation in some type chosen by
		// the table generator; the property fixes its value: the Go value of the constant,
		// converted to that type.
		if v.CanAddr() {
			return fmt.Errorf("%s is a constant, table value is addressable (a variable)", e.Name)
		}
		c, err := parseExact(e.UKind, e.Exact)
		if err != nil {
			return fmt.Errorf("harness: %v", err)
		}
		if err := equalsConst(v, c); err != nil {
			return fmt.Errorf("table value %v is not the untyped %s constant %s = %s: %v", show(v), e.UKind, e.Name, e.Exact, err)
		}
		if _, ok := imports.Packages[e.Pkg].Untypeds[e.Name]; !ok {
			rec.Label("untyped-bind-without-untyped-entry")
		}
		rec.Label("untyped-bind-type:" + v.Type().String())
	default:
		return fmt.Errorf("harness: class %v in Binds", e.Class)
	}
	return nil
}

func show(v reflect.Value) string {
	if !v.IsValid() {
		return "<invalid>"
	}
	switch v.Kind() {
	case reflect.String:
		return fmt.Sprintf("%s(%q)", v.Type(), v.String())
	case reflect.Func, reflect.Ptr, reflect.Map, reflect.Chan, reflect.UnsafePointer:
		return fmt.Sprintf("%s(%#x)", v.Type(), v.Pointer())
	case reflect.Int, reflect.Int8, reflect.Int16, reflect.Int32, reflect.Int64:
		return fmt.Sprintf("%s(%d)", v.Type(), v.Int())
	case reflect.Uint, reflect.Uint8, reflect.Uint16, reflect.Uint32, reflect.Uint64, reflect.Uintptr:
		return fmt.Sprintf("%s(%d)", v.Type(), v.Uint())
	case reflect.Float32, reflect.Float64:
		return fmt.Sprintf("%s(%v)", v.Type(), v.Float())
	case reflect.Complex64, reflect.Complex128:
		return fmt.Sprintf("%s(%v)", v.Type(), v.Complex())
	case reflect.Bool:
		return fmt.Sprintf("%s(%v)", v.Type(), v.Bool())
	}
	return fmt.Sprintf("%s(...)", v.Type())
}

func kindOfConst(v reflect.Value) string {
	switch v.Kind() {
	case reflect.Bool:
		return "bool"
	case reflect.String:
		return "string"
	case reflect.Float32, reflect.Float64:
		return "float"
	case reflect.Complex64, reflect.Complex128:
		return "complex"
	}
	return "int"
}

// parseExact rebuilds the go/types constant from the text the generator wrote.
func parseExact(ukind, s string) (constant.Value, error) {
	switch ukind {
	case "bool":
		return constant.MakeBool(s == "true"), nil
	case "string":
		return constant.MakeString(s), nil
	case "int", "rune":
		c := constant.MakeFromLiteral(s, token.INT, 0)
		if c.Kind() != constant.Int {
			return nil, fmt.Errorf("cannot parse integer %q", s)
		}
		return c, nil
	case "float":
		return parseReal(s)
	case "complex":
		f := strings.Fields(s)
		if len(f) != 2 {
			return nil, fmt.Errorf("cannot parse complex %q", s)
		}
		re, err := parseReal(f[0])
		if err != nil {
			return nil, err
		}
		im, err := parseReal(f[1])
		if err != nil {
			return nil, err
		}
		return constant.BinaryOp(constant.ToComplex(re), token.ADD, constant.MakeImag(im)), nil
	}
	return nil, fmt.Errorf("unknown untyped kind %q", ukind)
}

func parseReal(s string) (constant.Value, error) {
	if r, ok := new(big.Rat).SetString(s); ok {
		return constant.Make(r), nil
	}
	if f, _, err := new(big.Float).SetPrec(512).Parse(s, 0); err == nil {
		return constant.Make(f), nil
	}
	return nil, fmt.Errorf("cannot parse real %q", s)
}

// equalsConst: v (a value of a basic kind) holds the constant c converted to v's type
// by Go's constant conversion rules (integers must be representable; floats round to
// nearest even).
func equalsConst(v reflect.Value, c constant.Value) error {
	switch v.Kind() {
	case reflect.Bool:
		if c.Kind() != constant.Bool {
			return fmt.Errorf("kind mismatch: bool vs %v", c.Kind())
		}
		if v.Bool() != constant.BoolVal(c) {
			return fmt.Errorf("different value")
		}
	case reflect.String:
		if c.Kind() != constant.String {
			return fmt.Errorf("kind mismatch: string vs %v", c.Kind())
		}
		if v.String() != constant.StringVal(c) {
			return fmt.Errorf("different value")
		}
	case reflect.Int, reflect.Int8, reflect.Int16, reflect.Int32, reflect.Int64:
		ci := constant.ToInt(c)
		if ci.Kind() != constant.Int || c.Kind() == constant.Complex {
			return fmt.Errorf("kind mismatch: integer type vs non-integer constant")
		}
		if !constant.Compare(constant.MakeInt64(v.Int()), token.EQL, ci) {
			return fmt.Errorf("different value")
		}
	case reflect.Uint, reflect.Uint8, reflect.Uint16, reflect.Uint32, reflect.Uint64, reflect.Uintptr:
		ci := constant.ToInt(c)
		if ci.Kind() != constant.Int || c.Kind() == constant.Complex {
			return fmt.Errorf("kind mismatch: integer type vs non-integer constant")
		}
		if !constant.Compare(constant.MakeUint64(v.Uint()), token.EQL, ci) {
			return fmt.Errorf("different value")
		}
	case reflect.Float32:
		cf := constant.ToFloat(c)
		if cf.Kind() != constant.Float && cf.Kind() != constant.Int || c.Kind() == constant.Complex {
			return fmt.Errorf("kind mismatch: float type vs %v constant", c.Kind())
		}
		f, _ := constant.Float32Val(cf)
		if math.Float32bits(float32(v.Float())) != math.Float32bits(f) {
			return fmt.Errorf("different value (constant rounds to %v)", f)
		}
	case reflect.Float64:
		cf := constant.ToFloat(c)
		if cf.Kind() != constant.Float && cf.Kind() != constant.Int || c.Kind() == constant.Complex {
			return fmt.Errorf("kind mismatch: float type vs %v constant", c.Kind())
		}
		f, _ := constant.Float64Val(cf)
		if math.Float64bits(v.Float()) != math.Float64bits(f) {
			return fmt.Errorf("different value (constant rounds to %v)", f)
		}
	case reflect.Complex64, reflect.Complex128:
		cc := constant.ToComplex(c)
		if cc.Kind() != constant.Complex {
			return fmt.Errorf("kind mismatch: complex type vs %v constant", c.Kind())
		}
		re, _ := constant.Float64Val(constant.Real(cc))
		im, _ := constant.Float64Val(constant.Imag(cc))
		if v.Kind() == reflect.Complex64 {
			r32, _ := constant.Float32Val(constant.Real(cc))
			i32, _ := constant.Float32Val(constant.Imag(cc))
			re, im = float64(r32), float64(i32)
		}
		z := v.Complex()
		if math.Float64bits(real(z)) != math.Float64bits(re) || math.Float64bits(imag(z)) != math.Float64bits(im) {
			return fmt.Errorf("different value")
		}
	default:
		return fmt.Errorf("a constant cannot have kind %v", v.Kind())
	}
	return nil
}

func checkUntyped(e *refEntry, s string) error {
	if e.Class != clsUntyped {
		return fmt.Errorf("harness: class %v in Untypeds", e.Class)
	}
	want, err := parseExact(e.UKind, e.Exact)
	if err != nil {
		return fmt.Errorf("harness: %v", err)
	}
	var kind untyped.Kind
	var val constant.Value
	if p := vlib.Try(func() { kind, val = untyped.Unmarshal(s) }); p != nil {
		return fmt.Errorf("untyped.Unmarshal(%q) panics: %v", s, p)
	}
	wantKind := map[string]reflect.Kind{"bool": reflect.Bool, "int": reflect.Int, "rune": reflect.Int32,
		"float": reflect.Float64, "complex": reflect.Complex128, "string": reflect.String}[e.UKind]
	if reflect.Kind(kind) != wantKind {
		return fmt.Errorf("%q decodes to kind %v, Go gives %s the kind untyped %s", s, kind, e.Name, e.UKind)
	}
	if val == nil || val.Kind() == constant.Unknown {
		return fmt.Errorf("%q decodes to no value", s)
	}
	if !constEqual(val, want) {
		if e.Pkg == "unicode" && e.Name == "Version" && skip("F-C31-6") {
			return nil
		}
		return fmt.Errorf("%q decodes to %s, Go gives %s the value %s", s, val.ExactString(), e.Name, want.ExactString())
	}
	rec.Label("untyped-kind:" + e.UKind)
	if !smallConst(want) {
		rec.Label("untyped:not-int64-or-float64-exact")
	}
	return nil
}

func constEqual(a, b constant.Value) bool {
	ka, kb := a.Kind(), b.Kind()
	num := func(k constant.Kind) bool { return k == constant.Int || k == constant.Float || k == constant.Complex }
	if num(ka) && num(kb) {
		return constant.Compare(a, token.EQL, b)
	}
	if ka != kb {
		return false
	}
	switch ka {
	case constant.Bool:
		return constant.BoolVal(a) == constant.BoolVal(b)
	case constant.String:
		return constant.StringVal(a) == constant.StringVal(b)
	}
	return false
}

func smallConst(c constant.Value) bool {
	switch c.Kind() {
	case constant.Int:
		_, ok := constant.Int64Val(c)
		return ok
	case constant.Float:
		_, ok := constant.Float64Val(c)
		return ok
	}
	return true
}

func checkWrappers(e *refEntry, list []string) error {
	if e.Class != clsMethods {
		return fmt.Errorf("harness: class %v in Wrappers", e.Class)
	}
	set := func(l []string) map[string]bool {
		m := map[string]bool{}
		for _, n := range l {
			m[n] = true
		}
		return m
	}
	promoted, explicit, ambiguous, listed := set(e.Names), set(e.Explicit), set(e.Ambiguous), set(list)
	own := strings.HasPrefix(e.Pkg, ownPrefix)
	var bad []string
	for _, n := range list {
		switch {
		case promoted[n]:
		case ambiguous[n]:
			if !skip("F-C31-5") {
				bad = append(bad, n+" (>= 2 embedded fields have it: ambiguous, not a method of the type)")
			}
		case own && skip("F-C31-4"):
		case e.Pkg == "go/types" && e.Name == "Func" && n == "Pkg" && explicit[n] && skip("F-C31-6"):
		case explicit[n]:
			bad = append(bad, n+" (declared on the type itself)")
		default:
			bad = append(bad, n+" (not in the method set of *"+e.Name+")")
		}
	}
	// the converse (every promoted method is listed) is not demanded by the property: counted only
	for _, n := range e.Names {
		if !listed[n] {
			rec.Label("wrappers:promoted-method-not-listed")
		}
	}
	rec.LabelN("wrappers:listed-methods", len(list))
	if len(bad) != 0 {
		return fmt.Errorf("listed wrapper methods of %s that are not promoted from an embedded field: %s", e.Name, strings.Join(bad, ", "))
	}
	return nil
}

var rtypeEmptyInterface = reflect.TypeOf((*interface{})(nil)).Elem()

// checkProxyShape: the proxy is a struct {Object interface{}; M_ func(interface{}, params) results ...}
// whose pointer implements the interface of that name (taken from the compiled
// expression, not from the table).
func checkProxyShape(e *refEntry, proxy reflect.Type) error {
	if e.Class != clsIface {
		return fmt.Errorf("harness: class %v in Proxies", e.Class)
	}
	iface := e.T
	if iface.Kind() != reflect.Interface {
		return fmt.Errorf("harness: reference type %v is not an interface", iface)
	}
	if proxy == nil || proxy.Kind() != reflect.Struct {
		return fmt.Errorf("proxy is not a struct type: %v", proxy)
	}
	pp := reflect.PtrTo(proxy)
	if !pp.Implements(iface) {
		return fmt.Errorf("<%v> does not implement <%v>", pp, iface)
	}
	if strings.HasPrefix(e.Pkg, ownPrefix) && oldLayoutProxy(proxy, iface) && skip("F-C31-3") {
		return nil
	}
	if pp.NumMethod() != iface.NumMethod() {
		return fmt.Errorf("<%v> has %d methods, <%v> has %d", pp, pp.NumMethod(), iface, iface.NumMethod())
	}
	if len(e.Names) != iface.NumMethod() {
		return fmt.Errorf("harness: go/types lists %d methods, reflect %d", len(e.Names), iface.NumMethod())
	}
	if proxy.NumField() != iface.NumMethod()+1 {
		return fmt.Errorf("<%v> has %d fields, expecting 1 + %d methods", proxy, proxy.NumField(), iface.NumMethod())
	}
	if f := proxy.Field(0); f.Name != "Object" || f.Type != rtypeEmptyInterface {
		return fmt.Errorf("<%v> field 0 is %s %v, expecting Object interface{}", proxy, f.Name, f.Type)
	}
	for i := 0; i < iface.NumMethod(); i++ {
		m := iface.Method(i)
		f, ok := proxy.FieldByName(m.Name + "_")
		if !ok {
			return fmt.Errorf("<%v> has no field %s_", proxy, m.Name)
		}
		if want := funcWithFirstParam(m.Type, rtypeEmptyInterface); f.Type != want {
			return fmt.Errorf("<%v> field %s has type <%v>, expecting <%v>", proxy, f.Name, f.Type, want)
		}
	}
	if tt, ok := imports.Packages[e.Pkg].Types[e.Name]; !ok || tt != iface {
		return fmt.Errorf("proxy for %s, but Types[%q] is %v", e.Name, e.Name, tt)
	}
	rec.LabelN("proxy-methods", iface.NumMethod())
	return nil
}

func funcWithFirstParam(ft reflect.Type, in0 reflect.Type) reflect.Type {
	in := []reflect.Type{in0}
	for i := 0; i < ft.NumIn(); i++ {
		in = append(in, ft.In(i))
	}
	var out []reflect.Type
	for i := 0; i < ft.NumOut(); i++ {
		out = append(out, ft.Out(i))
	}
	return reflect.FuncOf(in, out, ft.IsVariadic())
}

// ---------------------------------------------------------------- (b) the same names through the interpreter

// Two interpreters. "reflect": the Universe has no go/types importer, imported types are
// built from reflection alone (what a gomacro binary does on a machine without the Go
// toolchain); importing is cheap, every package is imported. "gotypes": the default,
// xreflect asks go/importer for the package, which runs `go list -export` once per
// package (0.3 s idle, seconds on a loaded machine): quick samples packages, thorough
// takes all of them.
type interpPkg struct {
	mode  string
	ir    *fast.Interp
	alias map[string]string
	order []string // successfully imported, in order
}

var interps = map[string]*interpPkg{}

func interpFor(mode, path string) (*fast.Interp, string, error) {
	ip := interps[mode]
	if ip == nil {
		ip = &interpPkg{mode: mode, ir: fast.New(), alias: map[string]string{}}
		if mode == "reflect" {
			ip.ir.Comp.Universe.Importer = &xr.Importer{}
		}
		interps[mode] = ip
	}
	if a, ok := ip.alias[path]; ok {
		if a == "" {
			return nil, "", fmt.Errorf("import failed earlier")
		}
		return ip.ir, a, nil
	}
	a := fmt.Sprintf("pkg%d", len(ip.alias))
	if p := vlib.Try(func() { ip.ir.Eval(fmt.Sprintf("import %s %q", a, path)) }); p != nil {
		ip.alias[path] = ""
		return nil, "", fmt.Errorf("import %q in the interpreter fails: %v", path, p)
	}
	ip.alias[path] = a
	ip.order = append(ip.order, path)
	return ip.ir, a, nil
}

// goTypesSample: the packages this shard imports with the go/types importer.
func goTypesSample(mine []string) map[string]bool {
	sel := map[string]bool{}
	if rec.Thorough() {
		for _, p := range mine {
			sel[p] = true
		}
		return sel
	}
	type hp struct {
		h uint64
		p string
	}
	var l []hp
	for _, p := range mine {
		if strings.HasPrefix(p, ownPrefix) || strings.Contains(p, ".") {
			continue // not in GOROOT: go/importer cannot find them, same path as "reflect"
		}
		h := fnv.New64a()
		fmt.Fprintf(h, "%d/%s", rec.Seed(), p)
		l = append(l, hp{h.Sum64(), p})
	}
	sort.Slice(l, func(i, j int) bool { return l[i].h < l[j].h })
	for i := 0; i < len(l) && i < 3; i++ {
		sel[l[i].p] = true
	}
	return sel
}

func TestInterp(t *testing.T) {
	if rec.ReplayOnly() {
		return
	}
	pkgIndex := map[string]int{}
	var mine []string
	for i, p := range refPkgs {
		pkgIndex[p.Path] = i
		if rec.Mine(i) {
			mine = append(mine, p.Path)
		}
	}
	sample := goTypesSample(mine)
	for _, mode := range []string{"reflect", "gotypes"} {
		for i := range refEntries {
			e := &refEntries[i]
			if !rec.Mine(pkgIndex[e.Pkg]) || (mode == "gotypes" && !sample[e.Pkg]) {
				continue
			}
			if e.Table != "Binds" && e.Table != "Types" {
				continue
			}
			if e.Class == clsMissing || e.Class == clsWrong {
				continue // reported by TestEntries (or a known finding)
			}
			if pkgHasOldLayoutProxy(e.Pkg) && skip("F-C31-3") {
				continue
			}
			rec.Eval(1)
			rec.Label("interp-" + mode + ":" + classNames[e.Class])
			if e.Class != clsFunc {
				rec.NT("interp:" + mode + ":" + e.key())
			}
			if i%397 == rec.Shard() {
				rec.Sample(map[string]interface{}{"test": "interp", "mode": mode, "package": e.Pkg, "table": e.Table, "name": e.Name,
					"class": classNames[e.Class], "read_as": map[class]string{clsFunc: "pkg.Name (code pointer)", clsVar: "&pkg.Name (address)",
						clsConst: "pkg.Name (type, value)", clsUntyped: "pkg.Name == exact literal; default type", clsType: "new(pkg.Name) (type identity)"}[e.Class]})
			}
			var err error
			if p := vlib.Try(func() { err = checkInterp(mode, e) }); p != nil {
				err = fmt.Errorf("panic while checking: %v", p)
			}
			if err != nil {
				c := replayCase{Kind: "interp", Mode: mode, Pkg: e.Pkg, Table: e.Table, Name: e.Name}
				if ip := interps[mode]; ip != nil {
					c.After = append([]string{}, ip.order...)
				}
				rec.Violation("interp:"+mode+":"+e.key(), c.bytes(), "json", "%v seen through the interpreter (%s): %v", e, mode, err)
				t.Errorf("%v seen through the interpreter (%s): %v", e, mode, err)
			}
		}
	}
}

func eval1(ir *fast.Interp, src string) (v reflect.Value, err error) {
	if p := vlib.Try(func() {
		xv, _ := ir.Eval1(src)
		v = xv.ReflectValue()
	}); p != nil {
		return reflect.Value{}, fmt.Errorf("%s: %v", src, p)
	}
	return v, nil
}

// checkInterp reads pkg.Name through a fast.Interp and compares with the reference.
func checkInterp(mode string, e *refEntry) error {
	ir, alias, err := interpFor(mode, e.Pkg)
	if err != nil {
		return err
	}
	sel := alias + "." + e.Name
	switch e.Class {
	case clsFunc:
		v, err := eval1(ir, sel)
		if err != nil {
			return err
		}
		if !v.IsValid() || v.Kind() != reflect.Func || v.Type() != e.V.Type() {
			return fmt.Errorf("%s evaluates to %v, expecting a <%v>", sel, show(v), e.V.Type())
		}
		if v.Pointer() != e.V.Pointer() {
			return fmt.Errorf("%s evaluates to another function (code pointer %#x, expecting %#x)", sel, v.Pointer(), e.V.Pointer())
		}
	case clsVar:
		v, err := eval1(ir, "&"+sel)
		if err != nil {
			return err
		}
		if !v.IsValid() || v.Type() != e.V.Type() {
			return fmt.Errorf("&%s evaluates to %v, expecting a <%v>", sel, show(v), e.V.Type())
		}
		if e.V.Type().Elem().Size() != 0 && v.Pointer() != e.V.Pointer() {
			return fmt.Errorf("&%s evaluates to %#x, the variable is at %#x", sel, v.Pointer(), e.V.Pointer())
		}
	case clsConst:
		v, err := eval1(ir, sel)
		if err != nil {
			return err
		}
		if !v.IsValid() || v.Type() != e.V.Type() {
			return fmt.Errorf("%s evaluates to %v, expecting a <%v>", sel, show(v), e.V.Type())
		}
		if !sameValue(v, e.V) {
			return fmt.Errorf("%s evaluates to %v, expecting %v", sel, show(v), show(e.V))
		}
	case clsUntyped:
		c, err := parseExact(e.UKind, e.Exact)
		if err != nil {
			return fmt.Errorf("harness: %v", err)
		}
		if _, ok := imports.Packages[e.Pkg].Untypeds[e.Name]; !ok {
			// no exact entry: the interpreter only has the approximation of Binds (checked by TestEntries)
			rec.Label("interp:untyped-without-untyped-entry")
			return nil
		}
		return checkInterpUntyped(ir, sel, e, c)
	case clsType:
		if mode == "reflect" && e.T.Kind() == reflect.Interface && e.T.Name() == "" && e.T.NumMethod() == 0 && skip("F-C31-7") {
			return nil
		}
		// new(T) rather than (*T)(nil): the nil conversion panics inside the interpreter for
		// the recursive function type fast.Stmt, which is not a property of the tables
		v, err := eval1(ir, "new("+sel+")")
		if err != nil {
			return err
		}
		if !v.IsValid() || v.Kind() != reflect.Ptr || v.Type().Elem() != e.T {
			return fmt.Errorf("new(%s) evaluates to %v, expecting a *<%v>", sel, show(v), e.T)
		}
	}
	return nil
}

// checkInterpUntyped: the untyped constant keeps its exact value and kind inside the
// interpreter. Exactness is observed by comparing, in interpreted constant arithmetic,
// with a literal of the exact value (for a rational a/b: sel*b == a, both integers).
func checkInterpUntyped(ir *fast.Interp, sel string, e *refEntry, c constant.Value) error {
	var cmp string
	switch e.UKind {
	case "bool":
		cmp = fmt.Sprintf("%s == %v", sel, constant.BoolVal(c))
	case "string":
		cmp = fmt.Sprintf("%s == %s", sel, strconv.Quote(constant.StringVal(c)))
	case "int", "rune":
		cmp = fmt.Sprintf("%s == %s", sel, c.ExactString())
	case "float":
		num, den := constant.Num(c), constant.Denom(c)
		if num.Kind() != constant.Int || den.Kind() != constant.Int {
			rec.Label("interp:untyped-float-not-rational")
			return nil
		}
		cmp = fmt.Sprintf("%s * %s == %s", sel, den.ExactString(), num.ExactString())
	default:
		rec.Label("interp:untyped-" + e.UKind + "-skipped")
		return nil
	}
	v, err := eval1(ir, cmp)
	if err != nil {
		return err
	}
	if !v.IsValid() || v.Kind() != reflect.Bool {
		return fmt.Errorf("%s evaluates to %v, expecting a bool", cmp, show(v))
	}
	if !v.Bool() && e.Pkg == "unicode" && e.Name == "Version" && skip("F-C31-6") {
		return nil
	}
	if !v.Bool() {
		return fmt.Errorf("%s is false in the interpreter: the constant does not have the value Go assigns it (%s)", cmp, e.Exact)
	}
	// default type and value when the constant is representable in its default type
	def := map[string]reflect.Type{"bool": reflect.TypeOf(false), "string": reflect.TypeOf(""), "int": reflect.TypeOf(int(0)),
		"rune": reflect.TypeOf(rune(0)), "float": reflect.TypeOf(float64(0))}[e.UKind]
	representable := true
	switch e.UKind {
	case "int":
		_, representable = constant.Int64Val(c)
	case "rune":
		i, ok := constant.Int64Val(c)
		representable = ok && i == int64(int32(i))
	case "float":
		f, _ := constant.Float64Val(c)
		representable = !math.IsInf(f, 0)
	}
	if !representable {
		rec.Label("interp:untyped-overflows-default-type")
		return nil
	}
	v, err = eval1(ir, sel)
	if err != nil {
		return err
	}
	if !v.IsValid() || v.Type() != def {
		return fmt.Errorf("%s evaluates to %v, expecting the default type %v of an untyped %s constant", sel, show(v), def, e.UKind)
	}
	if err := equalsConst(v, c); err != nil {
		return fmt.Errorf("%s evaluates to %v, Go assigns %s: %v", sel, show(v), e.Exact, err)
	}
	return nil
}

// ---------------------------------------------------------------- replay

func TestReplays(t *testing.T) { rec.RunReplays(t, replay) }

func replay(content []byte) error {
	var c replayCase
	if err := json.Unmarshal(content, &c); err != nil {
		return fmt.Errorf("harness: bad replay file: %v", err)
	}
	noSkip = true
	defer func() { noSkip = false }()
	switch c.Kind {
	case "entry", "interp":
		e := findEntry(c.Pkg, c.Table, c.Name)
		if e == nil {
			// the key is gone from the tables: nothing is bound under that name any more
			return nil
		}
		var err error
		if c.Kind == "entry" {
			err = checkEntry(e)
		} else if e.Class != clsMissing && e.Class != clsWrong {
			mode := c.Mode
			if mode != "gotypes" {
				mode = "reflect"
			}
			saved := interps
			interps = map[string]*interpPkg{} // a fresh interpreter with exactly the recorded history
			defer func() { interps = saved }()
			for _, p := range c.After {
				if p != e.Pkg {
					interpFor(mode, p)
				}
			}
			err = checkInterp(mode, e)
		}
		if err != nil {
			return fmt.Errorf("%v: %v", e, err)
		}
		return nil
	case "proxy":
		return replayProxy(c)
	}
	return fmt.Errorf("harness: unknown replay kind %q", c.Kind)
}
