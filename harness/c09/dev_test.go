//go:build c09dev

package c09

import (
	"time"
	"fmt"
	"os"
	"regexp"
	"sort"
	"testing"

	"pgregory.net/rapid"

	"verif/harness/gobatch"
)

// development aid: histogram of interpreter-side compile errors / escaped panics
func TestDevErrors(t *testing.T) {
	hist := map[string]int{}
	example := map[string]gobatch.Program{}
	re := regexp.MustCompile(`[A-Z]\d+N\d+_|\d+`)
	seq := 0
	n := 0
	if os.Getenv("C09_SITES") == "1" {
		devSites = 1
		defer func() { devSites = 0 }()
	}
	rec.Check(t, 500, func(rt *rapid.T) {
		seq++
		p := Generate(rt, fmt.Sprintf("S0N%d_", seq))
		if err := gobatch.Vet(p); err != nil {
			k := "VET " + re.ReplaceAllString(err.Error(), "#")
			hist[k]++
			example[k] = p
			return
		}
		n++
		res := gobatch.RunInterp(p)
		k := ""
		if res.Err != "" {
			k = "ERR " + re.ReplaceAllString(res.Err, "#")
		} else if res.Panic != "" {
			k = "PANIC " + re.ReplaceAllString(res.Panic, "#")
		}
		if k != "" {
			if len(k) > 110 {
				k = k[:110]
			}
			k += "  TAGS " + fmt.Sprint(p.Tags)
			hist[k]++
			if old, ok := example[k]; !ok || len(p.Source("p")) < len(old.Source("p")) {
				example[k] = p
			}
		}
	})
	keys := []string{}
	for k := range hist {
		keys = append(keys, k)
	}
	sort.Slice(keys, func(i, j int) bool { return hist[keys[i]] > hist[keys[j]] })
	for i, k := range keys {
		fmt.Printf("%4d  %s\n", hist[k], k)
		os.WriteFile(fmt.Sprintf("/tmp/c09dev/ex%02d.go", i), example[k].Replay(), 0o644)
	}
	fmt.Println("valid programs:", n)
}

// TestDevOne runs one replay file (C09_ONE) declaration by declaration in gomacro.
func TestDevOne(t *testing.T) {
	path := os.Getenv("C09_ONE")
	if path == "" {
		return
	}
	data, _ := os.ReadFile(path)
	p, ok := gobatch.ParseReplay(data)
	if !ok {
		t.Fatal("not a replay")
	}
	fmt.Println("vet:", gobatch.Vet(p))
	for i := range p.Decls {
		q := p
		q.Decls = append(append([]string{}, p.Decls[:i+1]...), "func DevNoop() {}")
		q.Entry = "DevNoop"
		r := gobatch.RunInterp(q)
		if r.Err != "" {
			fmt.Printf("decl %d fails: %s\n%s\n", i, r.Err, p.Decls[i])
			return
		}
	}
	r := gobatch.RunInterp(p)
	fmt.Println("interp:", r.String())
	if os.Getenv("C09_ORACLE") != "" {
		w, err := gobatch.OracleOne(os.TempDir(), p)
		fmt.Println("oracle:", err, "\n"+w.String())
		fmt.Println(gobatch.Diff(r, w))
	}
}

// TestDevProbes runs every replay under C09_DIR in the interpreter only.
func TestDevProbes(t *testing.T) {
	dir := os.Getenv("C09_DIR")
	if dir == "" {
		return
	}
	ents, _ := os.ReadDir(dir)
	for _, e := range ents {
		if len(e.Name()) < 3 || e.Name()[len(e.Name())-3:] != ".go" {
			continue
		}
		data, _ := os.ReadFile(dir + "/" + e.Name())
		p, ok := gobatch.ParseReplay(data)
		if !ok {
			continue
		}
		r := gobatch.RunInterp(p)
		fmt.Printf("== %s vet=%v\n   %s\n", e.Name(), gobatch.Vet(p), regexp.MustCompile(`\n`).ReplaceAllString(r.String(), " | "))
	}
}

// TestDevHang regenerates the main-stream programs of one shard (same seed as the
// driver: set VERIF_TIER/SEED/SHARD/NSHARDS) and reports those that do not finish.
func TestDevHang(t *testing.T) {
	if os.Getenv("C09_HANG") == "" {
		return
	}
	gobatch.EvalTimeout = 20 * time.Second
	seq := 0
	rec.Check(t, rec.Scale(150, 1000), func(rt *rapid.T) {
		seq++
		p := Generate(rt, fmt.Sprintf("S%dN%d_", rec.Shard(), seq))
		if gobatch.Vet(p) != nil {
			return
		}
		t0 := time.Now()
		res := gobatch.RunInterp(p)
		if d := time.Since(t0); d > 5*time.Second || res.Err != "" {
			fmt.Printf("SLOW/ERR case %d: %v %q\n", seq, d, res.Err)
			os.WriteFile(fmt.Sprintf("/tmp/c09dev/hang-%d-%d.go", rec.Shard(), seq), p.Replay(), 0o644)
		}
	})
}
