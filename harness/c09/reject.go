package c09

import (
	"fmt"
	"go/types"

	"pgregory.net/rapid"

	"verif/harness/gobatch"
)

// badSite is a statement that Go rejects for a selector / method-set reason.
type badSite struct {
	kind string
	stmt string
}

// badSites enumerates, by Go's own rules (go/types lookups on the type-checked
// skeleton), the invalid selector and method-set uses available in this hierarchy.
func (g *gen) badSites() []badSite {
	var out []badSite
	names := append([]string{}, selNames...)
	for _, r := range g.recvs {
		for _, name := range names {
			s := g.look(r.ti, r.ptr, r.addr, name)
			switch s.kind {
			case selAmbiguous:
				out = append(out, badSite{"ambiguous-selector", fmt.Sprintf("_ = %s.%s\n", r.text, name)})
			case selPtrNeeded:
				// find the signature through the addressable lookup
				s2 := g.look(r.ti, r.ptr, true, name)
				if s2.kind == selMethod {
					out = append(out, badSite{"pointer-method-on-unaddressable-value", fmt.Sprintf("%s.%s(%s)\n", r.text, name, g.zeroArgs(s2.params))})
					out = append(out, badSite{"pointer-method-value-of-unaddressable-value", fmt.Sprintf("_ = %s.%s\n", r.text, name)})
				}
			}
		}
		// ambiguous embedded-field names
		for _, td := range g.types {
			s := g.look(r.ti, r.ptr, r.addr, td.name)
			if s.kind == selAmbiguous {
				out = append(out, badSite{"ambiguous-embedded-field", fmt.Sprintf("_ = %s.%s\n", r.text, td.name)})
			}
		}
		// interface satisfaction by *T only
		for idx, id := range g.ifaces {
			it := id.named.Underlying().(*types.Interface)
			if !r.ptr && !types.Implements(g.typeOf(r.ti, false), it) && types.Implements(g.typeOf(r.ti, true), it) {
				out = append(out, badSite{"value-lacks-pointer-methods-for-interface", fmt.Sprintf("var iv %s = %s\n_ = iv\n", id.text(), r.text)})
				g.noteStdQuiet(idx)
			}
		}
	}
	for i, td := range g.types {
		// method expression T.M with M in the method set of *T only
		msV, msP := types.NewMethodSet(g.typeOf(i, false)), types.NewMethodSet(g.typeOf(i, true))
		for _, name := range names {
			if msP.Lookup(g.pkg, name) != nil && msV.Lookup(g.pkg, name) == nil {
				// T.M with M in the method set of *T only: gomacro accepts it on purpose
				// (its own test concrete_method_to_func_2: sync.WaitGroup.Done) and the
				// property speaks of method sets for interface satisfaction only
				countLabel("excluded:method-expression-on-value-type-of-pointer-method(accepted by design)")
			}
		}
		// impossible assertion / type-switch case: the type lacks the interface's methods
		for _, id := range g.ifaces {
			it := id.named.Underlying().(*types.Interface)
			for _, ptr := range []bool{false, true} {
				if types.Implements(g.typeOf(i, ptr), it) {
					continue
				}
				tx := td.name
				if ptr {
					tx = "*" + tx
				}
				if id.std == "sort.Interface" {
					continue
				}
				out = append(out, badSite{"impossible-type-assertion", fmt.Sprintf("var iv %s\n_, _ = iv.(%s)\n", id.text(), tx)})
				out = append(out, badSite{"impossible-type-switch-case", fmt.Sprintf("var iv %s\nswitch iv.(type) {\ncase %s:\n}\n", id.text(), tx)})
			}
		}
	}
	return out
}

func (g *gen) noteStdQuiet(idx int) {}

func (g *gen) zeroArgs(n int) string {
	s := ""
	for i := 0; i < n; i++ {
		if i > 0 {
			s += ", "
		}
		s += "0"
	}
	return s
}

// GenerateReject builds a program that Go must reject (one invalid statement appended to
// a valid control program) together with that control program.
func GenerateReject(t *rapid.T, px string) (bad, control gobatch.Program, kind string, ok bool) {
	g := newGen(t, px, rapid.Bool().Draw(t, "small-pool"))
	body := g.entryPrologue()
	sites := g.badSites()
	if len(sites) == 0 {
		return bad, control, "", false
	}
	// draw a kind first so that rare kinds are not swamped by frequent ones
	kinds := []string{}
	seen := map[string]bool{}
	for _, s := range sites {
		switch s.kind {
		case "pointer-method-on-unaddressable-value", "pointer-method-value-of-unaddressable-value":
			if !seen[s.kind] && excl("F-C09-8") {
				seen[s.kind] = true
			}
		}
		if !seen[s.kind] {
			seen[s.kind] = true
			kinds = append(kinds, s.kind)
		}
	}
	if len(kinds) == 0 {
		return bad, control, "", false
	}
	kind = kinds[g.Pick(len(kinds), "bad-kind")]
	// ambiguity and method-set kinds are rarer than impossible assertions: prefer them
	var rare []string
	for _, k := range kinds {
		if k != "impossible-type-assertion" && k != "impossible-type-switch-case" {
			rare = append(rare, k)
		}
	}
	if len(rare) > 0 && g.Chance(3, 4, "bad-prefer-rare") {
		kind = rare[g.Pick(len(rare), "bad-rare-kind")]
	}
	for _, k := range kinds {
		if (k == "ambiguous-selector" || k == "ambiguous-embedded-field") && g.Chance(1, 2, "bad-prefer-ambiguous") {
			kind = k
			break
		}
	}
	var of []badSite
	for _, s := range sites {
		if s.kind == kind {
			of = append(of, s)
		}
	}
	site := of[g.Pick(len(of), "bad-site")]
	usesFmt := false
	for _, id := range g.ifaces {
		_ = id
	}
	if containsStd(site.stmt, "fmt.") {
		usesFmt = true
	}
	g.useFmt = usesFmt
	g.useSort = containsStd(site.stmt, "sort.")
	control = g.finish(body+"rec.E(1)\n", nil, map[string]string{"stream": "reject-control"})
	bad = g.finish(body+site.stmt+"rec.E(1)\n", nil, map[string]string{"stream": "reject", "kind": kind})
	return bad, control, kind, true
}

func containsStd(s, what string) bool {
	for i := 0; i+len(what) <= len(s); i++ {
		if s[i:i+len(what)] == what {
			return true
		}
	}
	return false
}
