package c09

import (
	"fmt"
	"go/ast"
	"go/parser"
	"go/token"
	"go/types"
	"sort"
	"strings"

	"pgregory.net/rapid"

	"verif/harness/gobatch"
	"verif/harness/progen"
)

// ---------------------------------------------------------------- the hierarchy

type embedDef struct {
	ti  int  // index of the embedded named type
	ptr bool // embedded as *T
}

type fieldDef struct {
	name, typ string // typ: "int" or "string"
}

type methDef struct {
	name   string
	ptr    bool   // pointer receiver
	params int    // number of int parameters (0 or 1; 2 for Less/Swap)
	res    string // "int", "string", "bool", ""
}

type typeDef struct {
	name    string
	kind    string // "struct", "int", "string", "slice"
	embeds  []embedDef
	fields  []fieldDef
	methods []methDef
	depth   int // longest embedding chain below this type
	named   *types.Named
	sortable bool // slice kind with Len/Less/Swap
	sortPtr  bool // ... declared on the pointer receiver
}

type ifaceDef struct {
	name    string
	embeds  []int // indexes of earlier interfaces
	methods []methDef
	named   *types.Named
	std     string // "fmt.Stringer", "error", "sort.Interface" for the twins of standard interfaces
}

var pool = []string{"A", "B", "C", "D"}

// knownOn reports whether the exclusion-by-construction of a known finding is active
// (set by TestMain to rec.Known); countExcluded counts a skipped shape.
var (
	knownOn       = func(id string) bool { return true }
	countExcluded = func(id string) {}
	countLabel    = func(name string) {}
)

// excl is true when the shape belonging to known finding id must be avoided.
func excl(id string) bool {
	if knownOn(id) {
		countExcluded(id)
		return true
	}
	return false
}

// default signature of the pool names (kept mostly fixed so that interfaces are satisfiable)
func defaultSig(name string) (params int, res string) {
	switch name {
	case "A":
		return 0, "int"
	case "B":
		return 1, "int"
	case "C":
		return 0, "string"
	}
	return 1, "int"
}

func sigText(m methDef) string {
	ps := make([]string, m.params)
	for i := range ps {
		ps[i] = fmt.Sprintf("x%d int", i)
	}
	s := "(" + strings.Join(ps, ", ") + ")"
	if m.res != "" {
		s += " " + m.res
	}
	return s
}

func ifaceSigText(m methDef) string {
	ps := make([]string, m.params)
	for i := range ps {
		ps[i] = "int"
	}
	s := m.name + "(" + strings.Join(ps, ", ") + ")"
	if m.res != "" {
		s += " " + m.res
	}
	return s
}

type gen struct {
	*progen.G
	types  []*typeDef
	ifaces []*ifaceDef // interpreted interfaces, then the twins of the standard ones
	pkg    *types.Package
	val    int

	declPool        []string // names drawn for declared fields and methods
	useFmt, useSort bool
	deep, shadow    bool
	recvs           []rexpr // receiver expressions available in the entry function
	invalid         []string // statements that Go must reject (reject stream)
	invalidTags     []string
}

func (g *gen) nextVal() int { g.val++; return g.val }

func (g *gen) tname(i int) string { return g.types[i].name }

func (g *gen) genHierarchy() {
	n := g.Int(2, 6, "ntypes")
	for i := 0; i < n; i++ {
		td := &typeDef{name: fmt.Sprintf("%sT%d", g.Px, i), kind: "struct"}
		if k := g.Pick(12, "kind"); k == 0 {
			td.kind = "int"
		} else if k == 1 {
			td.kind = "string"
		} else if k == 2 {
			td.kind = "slice"
		}
		used := map[string]bool{}
		if td.kind == "struct" {
			// embedded types: earlier types, depth limit 3
			if i > 0 {
				ne := []int{1, 1, 2, 2, 0, 1}[g.Pick(6, "nembeds")]
				seen := map[int]bool{}
				for k := 0; k < ne; k++ {
					j := g.Pick(i, "embed-which")
					if k == 0 && g.Bool("embed-previous") {
						j = i - 1 // chains: depth grows
					}
					if seen[j] || g.types[j].depth+1 > 3 {
						continue
					}
					seen[j] = true
					e := embedDef{ti: j, ptr: g.Chance(2, 5, "embed-ptr")}
					td.embeds = append(td.embeds, e)
					if d := g.types[j].depth + 1; d > td.depth {
						td.depth = d
					}
				}
			}
			nf := g.Pick(3, "nfields")
			for k := 0; k < nf; k++ {
				name := g.declPool[g.Pick(len(g.declPool), "field-name")]
				if used[name] {
					continue
				}
				used[name] = true
				typ := "int"
				if g.Chance(1, 4, "field-string") {
					typ = "string"
				}
				td.fields = append(td.fields, fieldDef{name, typ})
			}
		}
		nm := g.Pick(4, "nmethods")
		for k := 0; k < nm; k++ {
			name := g.declPool[g.Pick(len(g.declPool), "meth-name")]
			if used[name] {
				continue
			}
			used[name] = true
			m := methDef{name: name, ptr: g.Chance(2, 5, "meth-ptr")}
			m.params, m.res = defaultSig(name)
			if g.Chance(1, 7, "meth-odd-sig") {
				m.params = g.Pick(2, "odd-params")
				m.res = g.OneOf("odd-res", "int", "string")
			}
			td.methods = append(td.methods, m)
		}
		if g.Chance(1, 4, "stringer") {
			td.methods = append(td.methods, methDef{name: "String", ptr: g.Chance(1, 3, "stringer-ptr"), res: "string"})
		}
		if g.Chance(1, 6, "error") {
			td.methods = append(td.methods, methDef{name: "Error", ptr: g.Chance(1, 3, "error-ptr"), res: "string"})
		}
		if td.kind == "slice" {
			td.sortable = true
			td.sortPtr = g.Chance(1, 4, "sort-ptr")
			td.methods = append(td.methods,
				methDef{name: "Len", ptr: td.sortPtr, res: "int"},
				methDef{name: "Less", ptr: td.sortPtr, params: 2, res: "bool"},
				methDef{name: "Swap", ptr: td.sortPtr, params: 2})
		}
		g.types = append(g.types, td)
	}
	ni := g.Int(1, 3, "nifaces")
	for i := 0; i < ni; i++ {
		id := &ifaceDef{name: fmt.Sprintf("%sI%d", g.Px, i)}
		have := map[string]bool{}
		if i > 0 && g.Chance(1, 3, "iface-embed") {
			j := g.Pick(i, "iface-embed-which")
			id.embeds = append(id.embeds, j)
			for _, m := range g.allIfaceMethods(j) {
				have[m.name] = true
			}
		}
		nm := g.Int(1, 3, "iface-nmeth")
		for k := 0; k < nm; k++ {
			name := pool[g.Pick(len(pool), "iface-meth")]
			if have[name] {
				continue
			}
			have[name] = true
			m := methDef{name: name}
			m.params, m.res = defaultSig(name)
			id.methods = append(id.methods, m)
		}
		if g.Chance(1, 6, "iface-string") && !have["String"] {
			id.methods = append(id.methods, methDef{name: "String", res: "string"})
		}
		if len(id.embeds) > 0 {
			// known finding F-C09-9: explicit methods must all sort before the embedded ones
			inconsistent := false
			for _, m := range id.methods {
				for _, em := range g.allIfaceMethodsOf(id.embeds) {
					if m.name > em.name {
						inconsistent = true
					}
				}
			}
			if inconsistent && excl("F-C09-9") {
				id.embeds = nil
			}
		}
		if len(id.methods) == 0 && len(id.embeds) == 0 {
			m := methDef{name: "A"}
			m.params, m.res = defaultSig("A")
			id.methods = append(id.methods, m)
		}
		g.ifaces = append(g.ifaces, id)
	}
	g.ifaces = append(g.ifaces,
		&ifaceDef{name: g.Px + "StdStringer", std: "fmt.Stringer", methods: []methDef{{name: "String", res: "string"}}},
		&ifaceDef{name: g.Px + "StdError", std: "error", methods: []methDef{{name: "Error", res: "string"}}},
		&ifaceDef{name: g.Px + "StdSort", std: "sort.Interface", methods: []methDef{{name: "Len", res: "int"}, {name: "Less", params: 2, res: "bool"}, {name: "Swap", params: 2}}},
	)
}

func (g *gen) allIfaceMethodsOf(embeds []int) []methDef {
	var out []methDef
	for _, e := range embeds {
		out = append(out, g.allIfaceMethods(e)...)
	}
	return out
}

func (g *gen) allIfaceMethods(i int) []methDef {
	id := g.ifaces[i]
	var out []methDef
	for _, e := range id.embeds {
		out = append(out, g.allIfaceMethods(e)...)
	}
	return append(out, id.methods...)
}

// ifaceText is how the program text names the interface.
func (id *ifaceDef) text() string {
	if id.std != "" {
		return id.std
	}
	return id.name
}

func (g *gen) typeDeclText(td *typeDef) string {
	switch td.kind {
	case "int":
		return "type " + td.name + " int"
	case "string":
		return "type " + td.name + " string"
	case "slice":
		return "type " + td.name + " []int"
	}
	var b strings.Builder
	b.WriteString("type " + td.name + " struct {\n")
	for _, e := range td.embeds {
		if e.ptr {
			b.WriteString("\t*" + g.tname(e.ti) + "\n")
		} else {
			b.WriteString("\t" + g.tname(e.ti) + "\n")
		}
	}
	for _, f := range td.fields {
		b.WriteString("\t" + f.name + " " + f.typ + "\n")
	}
	b.WriteString("}")
	return b.String()
}

func (g *gen) ifaceDeclText(id *ifaceDef) string {
	var b strings.Builder
	b.WriteString("type " + id.name + " interface {\n")
	for _, e := range id.embeds {
		b.WriteString("\t" + g.ifaces[e].name + "\n")
	}
	for _, m := range id.methods {
		b.WriteString("\t" + ifaceSigText(m) + "\n")
	}
	b.WriteString("}")
	return b.String()
}

func recvText(td *typeDef, m methDef) string {
	if m.ptr {
		return "(r *" + td.name + ")"
	}
	return "(r " + td.name + ")"
}

// typecheckSkeleton type-checks the declarations with empty method bodies (go/types, in
// process) so that every later selector / conversion / assertion is classified by Go's
// own rules and not by a re-implementation.
func (g *gen) typecheckSkeleton() {
	var b strings.Builder
	b.WriteString("package p\n")
	for _, td := range g.types {
		b.WriteString(g.typeDeclText(td) + "\n")
		for _, m := range td.methods {
			fmt.Fprintf(&b, "func %s %s%s { panic(0) }\n", recvText(td, m), m.name, sigText(m))
		}
	}
	for _, id := range g.ifaces {
		b.WriteString(g.ifaceDeclText(id) + "\n")
	}
	fset := token.NewFileSet()
	f, err := parser.ParseFile(fset, "skel.go", b.String(), 0)
	if err != nil {
		panic("c09 generator: skeleton does not parse: " + err.Error() + "\n" + b.String())
	}
	conf := types.Config{GoVersion: "go1.18"}
	pkg, err := conf.Check("p", fset, []*ast.File{f}, nil)
	if err != nil {
		panic("c09 generator: skeleton does not type-check: " + err.Error() + "\n" + b.String())
	}
	g.pkg = pkg
	for _, td := range g.types {
		td.named = pkg.Scope().Lookup(td.name).Type().(*types.Named)
	}
	for _, id := range g.ifaces {
		id.named = pkg.Scope().Lookup(id.name).Type().(*types.Named)
	}
}

// ---------------------------------------------------------------- selector classification

const (
	selNone = iota
	selField
	selMethod
	selAmbiguous
	selPtrNeeded // pointer-receiver method, receiver not addressable and no pointer on the path
)

type sel struct {
	kind     int
	depth    int // number of embedding levels crossed
	indirect bool
	ftyp     string // "int"/"string" for a plain field
	embTi    int    // embedded field: type index, else -1
	embPtr   bool
	params   int
	res      string
	ptrRecv  bool
	owner    int // index of the type declaring the method
	shadow   bool
	f14      bool // a method that hides >= 2 same-depth fields of the same name (F-C09-14)
}

func (g *gen) typeOf(ti int, ptr bool) types.Type {
	var T types.Type = g.types[ti].named
	if ptr {
		T = types.NewPointer(T)
	}
	return T
}

func (g *gen) tiOfNamed(n types.Type) int {
	for i, td := range g.types {
		if types.Identical(td.named, n) {
			return i
		}
	}
	return -1
}

func (g *gen) look(ti int, ptr, addr bool, name string) sel {
	obj, index, indirect := types.LookupFieldOrMethod(g.typeOf(ti, ptr), addr, g.pkg, name)
	s := sel{embTi: -1, owner: -1, indirect: indirect}
	if obj == nil {
		switch {
		case index != nil:
			s.kind = selAmbiguous
		case indirect:
			s.kind = selPtrNeeded
		}
		return s
	}
	s.depth = len(index) - 1
	var occ []int
	g.occurrences(ti, name, 0, &occ)
	for _, d := range occ {
		if d > s.depth {
			s.shadow = true
		}
	}
	switch o := obj.(type) {
	case *types.Var:
		s.kind = selField
		t := o.Type()
		if p, ok := t.(*types.Pointer); ok {
			s.embPtr = true
			t = p.Elem()
		}
		if b, ok := t.(*types.Basic); ok {
			s.ftyp = b.Name()
		} else {
			s.embTi = g.tiOfNamed(t)
		}
	case *types.Func:
		s.kind = selMethod
		sig := o.Type().(*types.Signature)
		s.params = sig.Params().Len()
		if sig.Results().Len() > 0 {
			s.res = sig.Results().At(0).Type().(*types.Basic).Name()
		}
		rt := sig.Recv().Type()
		if p, ok := rt.(*types.Pointer); ok {
			s.ptrRecv = true
			rt = p.Elem()
		}
		s.owner = g.tiOfNamed(rt)
		var focc []int
		g.fieldOcc(ti, name, 0, &focc)
		min, cnt := -1, 0
		for _, d := range focc {
			if min < 0 || d < min {
				min, cnt = d, 1
			} else if d == min {
				cnt++
			}
		}
		s.f14 = cnt >= 2
	}
	return s
}

// occurrences lists the depths at which name is declared (as field, embedded field or
// method) in the embedding tree of type ti, along every path.
func (g *gen) occurrences(ti int, name string, depth int, out *[]int) {
	td := g.types[ti]
	for _, f := range td.fields {
		if f.name == name {
			*out = append(*out, depth)
		}
	}
	for _, m := range td.methods {
		if m.name == name {
			*out = append(*out, depth)
		}
	}
	for _, e := range td.embeds {
		if g.tname(e.ti) == name {
			*out = append(*out, depth)
		}
		g.occurrences(e.ti, name, depth+1, out)
	}
}

// fieldOcc lists the depths at which a plain field called name occurs below type ti.
func (g *gen) fieldOcc(ti int, name string, depth int, out *[]int) {
	td := g.types[ti]
	for _, f := range td.fields {
		if f.name == name {
			*out = append(*out, depth)
		}
	}
	for _, e := range td.embeds {
		g.fieldOcc(e.ti, name, depth+1, out)
	}
}

func (g *gen) noteSel(s sel) {
	if s.depth >= 2 {
		g.deep = true
		g.Tag("selector-depth>=2")
	}
	if s.depth == 3 {
		g.Tag("selector-depth-3")
	}
	if s.shadow {
		g.shadow = true
		g.Tag("selector-shadows-deeper-name")
	}
	if s.kind == selMethod && s.depth >= 1 {
		g.Tag("promoted-method")
		if s.ptrRecv {
			g.Tag("promoted-pointer-method")
		}
	}
	if s.kind == selField && s.depth >= 1 {
		g.Tag("promoted-field")
	}
	if s.indirect && s.depth >= 1 {
		g.Tag("through-embedded-pointer-or-ptr-recv")
	}
}

// names that can be selected: the pool plus the standard method names
var selNames = []string{"A", "B", "C", "D", "String", "Error", "Len"}

// ---------------------------------------------------------------- values and receivers

// rexpr is an expression whose static type is the named type ti or a pointer to it.
type rexpr struct {
	text string
	ti   int
	ptr  bool
	addr bool   // addressable
	base string // variable to observe after a mutation ("" if none)
	bti  int
	bptr bool
}

// mk builds a fully populated value of type ti (no nil embedded pointers).
func (g *gen) mk(ti int) string {
	td := g.types[ti]
	switch td.kind {
	case "int":
		return fmt.Sprintf("%s(%sZ + %d)", td.name, g.Px, g.nextVal())
	case "string":
		return fmt.Sprintf("%s(%sS + \"s%d\")", td.name, g.Px, g.nextVal())
	case "slice":
		n := g.Int(0, 4, "slice-len")
		items := make([]string, n)
		for i := range items {
			items[i] = fmt.Sprint(g.Int(0, 9, "slice-item"))
		}
		return td.name + "{" + strings.Join(items, ", ") + "}"
	}
	var parts []string
	for _, e := range td.embeds {
		if e.ptr {
			parts = append(parts, fmt.Sprintf("%s: %s", g.tname(e.ti), g.mkPtr(e.ti)))
		} else {
			parts = append(parts, fmt.Sprintf("%s: %s", g.tname(e.ti), g.mk(e.ti)))
		}
	}
	for _, f := range td.fields {
		if f.typ == "int" {
			parts = append(parts, fmt.Sprintf("%s: %d", f.name, g.nextVal()))
		} else {
			parts = append(parts, fmt.Sprintf("%s: \"f%d\"", f.name, g.nextVal()))
		}
	}
	return td.name + "{" + strings.Join(parts, ", ") + "}"
}

func (g *gen) mkPtr(ti int) string {
	td := g.types[ti]
	if td.kind == "struct" && g.Bool("ptr-form") {
		return "&" + g.mk(ti)
	}
	return fmt.Sprintf("%sNew%d(%s)", g.Px, ti, g.mk(ti))
}

// obs lists up to max expressions of basic type that observe the state reachable from r.
func (g *gen) obs(text string, ti int, ptr bool, max int) []string {
	td := g.types[ti]
	deref := text
	if ptr {
		deref = "(*" + text + ")"
	}
	switch td.kind {
	case "int":
		return []string{"int(" + deref + ")"}
	case "string":
		return []string{"string(" + deref + ")"}
	case "slice":
		return []string{"[]int(" + deref + ")"}
	}
	var out []string
	for _, name := range pool {
		if len(out) >= max {
			break
		}
		s := g.look(ti, ptr, true, name)
		if s.kind == selField && s.ftyp != "" {
			out = append(out, text+"."+name)
		}
	}
	// explicit paths into embedded fields, one level
	for _, e := range td.embeds {
		if len(out) >= max {
			break
		}
		s := g.look(ti, ptr, true, g.tname(e.ti))
		if s.kind != selField {
			continue
		}
		sub := g.obs(text+"."+g.tname(e.ti), e.ti, e.ptr, 1)
		out = append(out, sub...)
	}
	if len(out) > max {
		out = out[:max]
	}
	return out
}

func (g *gen) obsStmt(r rexpr) string {
	if r.base == "" {
		return ""
	}
	o := g.obs(r.base, r.bti, r.bptr, 3)
	if len(o) == 0 {
		return ""
	}
	return fmt.Sprintf("rec.E(%d, %s)\n", g.Ev(), strings.Join(o, ", "))
}

// pickRecv draws a receiver expression, possibly extended by explicit embedded-field steps.
func (g *gen) pickRecv() rexpr {
	r := g.recvs[g.Pick(len(g.recvs), "recv")]
	if g.Bool("recv-prefer-deep") {
		// prefer a receiver whose type has the longest embedding chain
		best := 0
		for _, c := range g.recvs {
			if d := g.types[c.ti].depth; d > best {
				best = d
			}
		}
		var deep []rexpr
		for _, c := range g.recvs {
			if g.types[c.ti].depth == best {
				deep = append(deep, c)
			}
		}
		r = deep[g.Pick(len(deep), "recv-deep")]
	}
	for steps := 0; steps < 2 && g.Chance(1, 4, "explicit-step"); steps++ {
		td := g.types[r.ti]
		if len(td.embeds) == 0 {
			break
		}
		e := td.embeds[g.Pick(len(td.embeds), "step-embed")]
		s := g.look(r.ti, r.ptr, r.addr, g.tname(e.ti))
		if s.kind != selField || s.embTi != e.ti {
			break
		}
		g.noteSel(s)
		g.Tag("explicit-embedded-path")
		r = rexpr{text: r.text + "." + g.tname(e.ti), ti: e.ti, ptr: e.ptr, addr: r.addr || s.indirect, base: r.base, bti: r.bti, bptr: r.bptr}
	}
	return r
}

// asValue / asPointer render r with static type exactly T / *T ("" if impossible).
func asValue(r rexpr) string {
	if r.ptr {
		return "(*" + r.text + ")"
	}
	return r.text
}

func asPointer(r rexpr) string {
	if r.ptr {
		return r.text
	}
	if r.addr {
		return "(&" + r.text + ")"
	}
	return ""
}

func (g *gen) args(n int) string {
	a := make([]string, n)
	for i := range a {
		a[i] = fmt.Sprint(g.Int(0, 9, "arg"))
	}
	return strings.Join(a, ", ")
}

// ---------------------------------------------------------------- method bodies

func (g *gen) methodDecl(ti int, m methDef) string {
	td := g.types[ti]
	tag := fmt.Sprintf("%q", fmt.Sprintf("T%d.%s", ti, m.name))
	var body strings.Builder
	self := rexpr{text: "r", ti: ti, ptr: m.ptr, addr: true}
	switch m.name {
	case "Len":
		return fmt.Sprintf("func %s Len() int { return len(%s) }", recvText(td, m), asValue(self))
	case "Less":
		return fmt.Sprintf("func %s Less(x0, x1 int) bool { rec.E(%s, x0, x1); return %s[x0] < %s[x1] }", recvText(td, m), tag, asValue(self), asValue(self))
	case "Swap":
		return fmt.Sprintf("func %s Swap(x0, x1 int) { %s[x0], %s[x1] = %s[x1], %s[x0] }", recvText(td, m), asValue(self), asValue(self), asValue(self), asValue(self))
	}
	o := g.obs("r", ti, m.ptr, 3)
	ev := append([]string{tag}, o...)
	for i := 0; i < m.params; i++ {
		ev = append(ev, fmt.Sprintf("x%d", i))
	}
	fmt.Fprintf(&body, "rec.E(%s)\n", strings.Join(ev, ", "))
	x := "1"
	if m.params > 0 {
		x = "x0"
	}
	// mutation of the receiver (visible to the caller only through a pointer receiver)
	var intSel, strSel string
	for _, name := range pool {
		s := g.look(ti, m.ptr, true, name)
		if s.kind == selField && s.ftyp == "int" && intSel == "" {
			intSel = "r." + name
		}
		if s.kind == selField && s.ftyp == "string" && strSel == "" {
			strSel = "r." + name
		}
	}
	switch td.kind {
	case "int":
		intSel = "int(" + asValue(self) + ")"
		if g.Chance(2, 3, "mutate") {
			fmt.Fprintf(&body, "%s += %s(%s + 1)\n", asValue(self), td.name, x)
		}
	case "string":
		strSel = "string(" + asValue(self) + ")"
		if g.Chance(2, 3, "mutate") {
			fmt.Fprintf(&body, "%s += \"+\"\n", asValue(self))
		}
	case "slice":
		intSel = "len(" + asValue(self) + ")"
		if g.Chance(2, 3, "mutate") {
			fmt.Fprintf(&body, "if len(%s) > 0 { %s[0] += %s + 1 }\n", asValue(self), asValue(self), x)
		}
	default:
		if intSel != "" && g.Chance(2, 3, "mutate") {
			fmt.Fprintf(&body, "%s += %s + 1\n", intSel, x)
		} else if strSel != "" && g.Chance(1, 2, "mutate-s") {
			fmt.Fprintf(&body, "%s += \"+\"\n", strSel)
		}
	}
	// call of a method promoted from (or declared on) an embedded type: terminates because
	// embedding only refers to earlier types
	inner := ""
	if td.kind == "struct" && g.Chance(1, 2, "inner-call") {
		for _, name := range pool {
			s := g.look(ti, m.ptr, true, name)
			if s.kind == selMethod && s.owner >= 0 && s.owner < ti && s.res == m.res && !(s.f14 && excl("F-C09-14")) {
				// evaluated in its own statement: Go does not order a call relative to
				// the variable reads of the same expression
				fmt.Fprintf(&body, "in := r.%s(%s)\n", name, g.args(s.params))
				inner = "in"
				g.Tag("method-calls-promoted-method")
				break
			}
		}
	}
	k := g.nextVal()
	switch m.res {
	case "int":
		e := fmt.Sprintf("%d + %s*100", k, x)
		if intSel != "" {
			e += " + " + intSel
		}
		if inner != "" {
			e += " + " + inner
		}
		fmt.Fprintf(&body, "return %s\n", e)
	case "string":
		e := fmt.Sprintf("\"T%d.%s#%d\"", ti, m.name, k)
		if strSel != "" {
			e += " + " + strSel
		}
		if inner != "" {
			e += " + " + inner
		}
		fmt.Fprintf(&body, "return %s\n", e)
	}
	return fmt.Sprintf("func %s %s%s {\n%s}", recvText(td, m), m.name, sigText(m), progen.Indent(body.String()))
}

// ---------------------------------------------------------------- sites

func (g *gen) guarded(body string) string {
	return fmt.Sprintf("func() {\n\tdefer func() { rec.R(\"g%d\", recover()) }()\n%s}()\n", g.Ev(), progen.Indent(body))
}

// nameOrder returns names in a drawn rotation; with probability 1/2 the names that
// resolve through the most embedding levels on r come first.
func (g *gen) nameOrder(r rexpr, names []string) []string {
	start := g.Pick(len(names), "name-start")
	out := make([]string, 0, len(names))
	for k := range names {
		out = append(out, names[(start+k)%len(names)])
	}
	if g.Bool("name-prefer-deep") {
		sort.SliceStable(out, func(i, j int) bool {
			return g.look(r.ti, r.ptr, r.addr, out[i]).depth > g.look(r.ti, r.ptr, r.addr, out[j]).depth
		})
	}
	return out
}

func (g *gen) siteFieldRead() string {
	r := g.pickRecv()
	for _, name := range g.nameOrder(r, pool) {
		s := g.look(r.ti, r.ptr, r.addr, name)
		if s.kind == selField && s.ftyp != "" {
			g.noteSel(s)
			g.Tag("field-read")
			return fmt.Sprintf("rec.E(%d, %s.%s)\n", g.Ev(), r.text, name)
		}
	}
	return ""
}

func (g *gen) siteFieldWrite() string {
	r := g.pickRecv()
	for _, name := range g.nameOrder(r, pool) {
		s := g.look(r.ti, r.ptr, r.addr, name)
		if s.kind == selField && s.ftyp != "" && (r.addr || s.indirect) {
			if !r.addr && !r.ptr && excl("F-C09-5") {
				// assignment through an embedded pointer of a non-addressable struct value
				continue
			}
			g.noteSel(s)
			g.Tag("field-write")
			var st string
			if s.ftyp == "int" {
				st = fmt.Sprintf("%s.%s %s %d\n", r.text, name, g.OneOf("wop", "=", "+=", "-="), g.nextVal())
			} else {
				st = fmt.Sprintf("%s.%s %s \"w%d\"\n", r.text, name, g.OneOf("wops", "=", "+="), g.nextVal())
			}
			return st + fmt.Sprintf("rec.E(%d, %s.%s)\n", g.Ev(), r.text, name) + g.obsStmt(r)
		}
	}
	return ""
}

// pickMethod finds a method selectable on r.
func (g *gen) pickMethod(r rexpr) (string, sel, bool) {
	for _, name := range g.nameOrder(r, selNames) {
		s := g.look(r.ti, r.ptr, r.addr, name)
		if s.kind == selMethod {
			if k := g.types[r.ti].kind; s.ptrRecv && !r.ptr && s.depth == 0 && (k == "int" || k == "string") && excl("F-C09-3") {
				// pointer method on an addressable operand of a named basic type
				continue
			}
			if s.f14 && excl("F-C09-14") {
				continue
			}
			return name, s, true
		}
	}
	return "", sel{}, false
}

func (g *gen) siteMethodCall() string {
	r := g.pickRecv()
	name, s, ok := g.pickMethod(r)
	if !ok {
		return ""
	}
	g.noteSel(s)
	g.Tag("method-call")
	if s.ptrRecv && !r.ptr && s.depth == 0 {
		g.Tag("auto-address-receiver")
	}
	if !s.ptrRecv && r.ptr && s.depth == 0 {
		g.Tag("auto-deref-receiver")
	}
	return fmt.Sprintf("rec.E(%d, %s.%s(%s))\n", g.Ev(), r.text, name, g.args(s.params)) + g.obsStmt(r)
}

func (g *gen) mutateBase(r rexpr) string {
	if r.base == "" {
		return ""
	}
	td := g.types[r.bti]
	deref := r.base
	if r.bptr {
		deref = "(*" + r.base + ")"
	}
	switch td.kind {
	case "int":
		return fmt.Sprintf("%s += 1000\n", deref)
	case "string":
		return fmt.Sprintf("%s += \"!\"\n", deref)
	case "slice":
		return fmt.Sprintf("%s = append(%s, %d)\n", deref, deref, g.Int(0, 9, "app"))
	}
	for _, name := range pool {
		s := g.look(r.bti, r.bptr, true, name)
		if s.kind == selField && s.ftyp == "int" {
			return fmt.Sprintf("%s.%s += 1000\n", r.base, name)
		}
		if s.kind == selField && s.ftyp == "string" {
			return fmt.Sprintf("%s.%s += \"!\"\n", r.base, name)
		}
	}
	return ""
}

func (g *gen) siteMethodValue() string {
	r := g.pickRecv()
	name, s, ok := g.pickMethod(r)
	if !ok {
		return ""
	}
	g.noteSel(s)
	g.Tag("method-value")
	f := g.Local("mv")
	st := fmt.Sprintf("%s := %s.%s\n", f, r.text, name)
	if g.Chance(2, 3, "mv-mutate") && !(!s.ptrRecv && excl("F-C09-13")) {
		// the receiver is evaluated and (for value receivers) copied when the method
		// value is created
		st += g.mutateBase(r)
		g.Tag("method-value-then-mutate")
	}
	n := g.Int(1, 2, "mv-calls")
	for i := 0; i < n; i++ {
		if s.res == "" {
			st += fmt.Sprintf("%s(%s)\n", f, g.args(s.params))
		} else {
			st += fmt.Sprintf("rec.E(%d, %s(%s))\n", g.Ev(), f, g.args(s.params))
		}
	}
	return st + g.obsStmt(r)
}

func (g *gen) siteMethodExpr() string {
	r := g.pickRecv()
	usePtr := g.Bool("mexpr-ptr")
	var recvArg, tx string
	if usePtr {
		recvArg = asPointer(r)
		tx = "(*" + g.tname(r.ti) + ")"
	} else {
		recvArg = asValue(r)
		tx = g.tname(r.ti)
	}
	if recvArg == "" {
		return ""
	}
	if strings.Contains(recvArg, "[\"k\"]") {
		// f(m["k"]) with a named element type fails to compile in gomacro whatever f is:
		// a defect of calls / map index expressions, outside this property
		countLabel("excluded:map-index-expression-as-sole-call-argument(not C09)")
		return ""
	}
	ms := types.NewMethodSet(g.typeOf(r.ti, usePtr))
	start := g.Pick(len(selNames), "mname-start")
	for k := 0; k < len(selNames); k++ {
		name := selNames[(start+k)%len(selNames)]
		if ms.Lookup(g.pkg, name) == nil {
			continue
		}
		s := g.look(r.ti, usePtr, false, name)
		if s.kind != selMethod {
			continue
		}
		if usePtr != s.ptrRecv && excl("F-C09-1") {
			// (*T).M with a value-receiver M, or T.M with a pointer method promoted
			// through an embedded pointer
			continue
		}
		g.noteSel(s)
		g.Tag("method-expr")
		if usePtr {
			g.Tag("method-expr-on-pointer-type")
			if !s.ptrRecv {
				g.Tag("method-expr-(*T).valueMethod")
			}
		}
		args := recvArg
		if s.params > 0 {
			args += ", " + g.args(s.params)
		}
		if g.Bool("mexpr-var") {
			f := g.Local("me")
			g.Tag("method-expr-stored")
			return fmt.Sprintf("%s := %s.%s\nrec.E(%d, %s(%s))\n", f, tx, name, g.Ev(), f, args) + g.obsStmt(r)
		}
		return fmt.Sprintf("rec.E(%d, %s.%s(%s))\n", g.Ev(), tx, name, args) + g.obsStmt(r)
	}
	return ""
}

// callsOn renders calls of every method of interface id on variable v.
func (g *gen) callsOn(v string, idx int) string {
	st := ""
	for _, m := range g.allIfaceMethods(idx) {
		switch m.name {
		case "Less", "Swap":
			continue
		}
		st += fmt.Sprintf("rec.E(%d, %s.%s(%s))\n", g.Ev(), v, m.name, g.args(m.params))
	}
	return st
}

// dyn describes a value stored in an interface: its text and dynamic type.
type dyn struct {
	text string
	ti   int // -1: basic value / nil
	ptr  bool
	basic string // "int", "string", "nil" when ti == -1
	r    rexpr
}

func (g *gen) dynOfRecv(r rexpr) dyn { return dyn{text: r.text, ti: r.ti, ptr: r.ptr, r: r} }

// implementers lists the ways r can be stored in interface idx (as value and/or pointer).
func (g *gen) storeForms(r rexpr, idx int) []dyn {
	it := g.ifaces[idx].named.Underlying().(*types.Interface)
	var out []dyn
	if types.Implements(g.typeOf(r.ti, r.ptr), it) {
		out = append(out, g.dynOfRecv(r))
	}
	if !r.ptr && r.addr && types.Implements(g.typeOf(r.ti, true), it) {
		out = append(out, dyn{text: "&" + r.text, ti: r.ti, ptr: true, r: r})
	}
	if r.ptr && types.Implements(g.typeOf(r.ti, false), it) {
		out = append(out, dyn{text: "*" + r.text, ti: r.ti, ptr: false, r: r})
	}
	if g.ifaces[idx].std != "" {
		// compiled interface = proxy: the stored form must match the receiver kind of
		// every method (known finding F-C09-4)
		var ok []dyn
		for _, d := range out {
			bad := ""
			for _, m := range g.allIfaceMethods(idx) {
				if s := g.look(d.ti, d.ptr, false, m.name); s.kind == selMethod && s.ptrRecv != d.ptr {
					if d.ptr {
						bad = "F-C09-4" // pointer stored, value-receiver method
					} else {
						bad = "F-C09-10" // value stored, pointer method promoted through an embedded pointer
					}
				}
			}
			if bad != "" && excl(bad) {
				continue
			}
			ok = append(ok, d)
		}
		out = ok
	}
	return out
}

func (g *gen) noteStd(idx int) {
	switch g.ifaces[idx].std {
	case "fmt.Stringer":
		g.useFmt = true
		g.Tag("iface:fmt.Stringer")
	case "error":
		g.Tag("iface:error")
	case "sort.Interface":
		g.useSort = true
		g.Tag("iface:sort.Interface")
	default:
		g.Tag("iface:interpreted")
	}
}

func (g *gen) siteIface() string {
	// draw an interface, then look for a receiver implementing it
	istart := g.Pick(len(g.ifaces), "iface")
	for a := 0; a < len(g.ifaces); a++ {
		idx := (istart + a) % len(g.ifaces)
		id := g.ifaces[idx]
		rstart := g.Pick(len(g.recvs), "iface-recv")
		for b := 0; b < len(g.recvs); b++ {
			r := g.recvs[(rstart+b)%len(g.recvs)]
			forms := g.storeForms(r, idx)
			if len(forms) == 0 {
				continue
			}
			d := forms[g.Pick(len(forms), "store-form")]
			g.noteStd(idx)
			// which method-set rule was exercised
			if d.ptr && !types.Implements(g.typeOf(d.ti, false), id.named.Underlying().(*types.Interface)) {
				g.Tag("iface-needs-pointer-method-set")
			}
			for _, m := range g.allIfaceMethods(idx) {
				s := g.look(d.ti, d.ptr, false, m.name)
				g.noteSel(s)
			}
			iv := g.Local("iv")
			st := fmt.Sprintf("var %s %s = %s\n", iv, id.text(), d.text)
			if g.Chance(1, 2, "iface-mutate") && !(!d.ptr && excl("F-C09-12")) {
				st += g.mutateBase(r) // a stored value is a copy, a stored pointer is not
				g.Tag("iface-store-then-mutate")
			}
			st += g.callsOn(iv, idx)
			st += g.obsStmt(r)
			switch id.std {
			case "sort.Interface":
				st += fmt.Sprintf("sort.Sort(%s)\nrec.E(%d, sort.IsSorted(%s))\n", iv, g.Ev(), iv)
				st += g.obsStmt(r)
				g.Tag("compiled-code-calls-proxy")
			}
			// follow-ups on the interface value
			switch g.Pick(6, "iface-follow") {
			case 0: // static conversion to a smaller interface
				for c := 0; c < len(g.ifaces) && !excl("F-C09-6"); c++ {
					jdx := (idx + 1 + c) % len(g.ifaces)
					if jdx == idx {
						continue
					}
					jt := g.ifaces[jdx].named.Underlying().(*types.Interface)
					if types.AssignableTo(id.named, jt) {
						g.noteStd(jdx)
						g.Tag("iface-to-iface-static-conversion")
						jv := g.Local("jv")
						st += fmt.Sprintf("var %s %s = %s\n", jv, g.ifaces[jdx].text(), iv)
						st += g.callsOn(jv, jdx)
						break
					}
				}
			case 1, 2: // assertion back to concrete types
				st += g.assertSite(iv, idx, d)
			case 3:
				st += g.typeSwitchSite(iv, idx, []dyn{d})
			case 4: // interface method expression
				ms := g.allIfaceMethods(idx)
				m := ms[g.Pick(len(ms), "imexpr")]
				if m.name != "Less" && m.name != "Swap" && id.std != "error" {
					g.Tag("method-expr-on-interface")
					args := iv
					if m.params > 0 {
						args += ", " + g.args(m.params)
					}
					st += fmt.Sprintf("rec.E(%d, %s.%s(%s))\n", g.Ev(), id.text(), m.name, args)
				}
			case 5: // method value from an interface
				ms := g.allIfaceMethods(idx)
				m := ms[g.Pick(len(ms), "imval")]
				if m.name != "Less" && m.name != "Swap" {
					g.Tag("method-value-from-interface")
					f := g.Local("imv")
					st += fmt.Sprintf("%s := %s.%s\nrec.E(%d, %s(%s))\n", f, iv, m.name, g.Ev(), f, g.args(m.params))
				}
			}
			return st
		}
	}
	return ""
}

// siteIfaceImplicit: a value becomes an interface value through an implicit conversion
// other than a variable declaration: call argument, return value, plain assignment,
// element of a composite literal, append.
func (g *gen) siteIfaceImplicit() string {
	istart := g.Pick(len(g.ifaces), "imp-iface")
	for a := 0; a < len(g.ifaces); a++ {
		idx := (istart + a) % len(g.ifaces)
		id := g.ifaces[idx]
		rstart := g.Pick(len(g.recvs), "imp-recv")
		for b := 0; b < len(g.recvs); b++ {
			r := g.recvs[(rstart+b)%len(g.recvs)]
			forms := g.storeForms(r, idx)
			if len(forms) == 0 {
				continue
			}
			d := forms[g.Pick(len(forms), "imp-store-form")]
			g.noteStd(idx)
			form := g.Pick(5, "imp-form")
			k := g.types[d.ti].kind
			if !d.ptr && (k == "int" || k == "string") && (form == 0 || form >= 3) && excl("F-C09-17") {
				form = 1 + g.Pick(2, "imp-form-alt") // return or assignment
			}
			if form == 4 && excl("F-C09-18") {
				form = g.Pick(4, "imp-form-noappend")
				if !d.ptr && (k == "int" || k == "string") && (form == 0 || form == 3) && excl("F-C09-17") {
					form = 1
				}
			}
			iv := g.Local("iv")
			var st string
			switch form {
			case 0:
				g.Tag("iface-implicit:call-argument")
				st = fmt.Sprintf("%s := %sId%d(%s)\n", iv, g.Px, idx, d.text)
			case 1:
				g.Tag("iface-implicit:return-value")
				st = fmt.Sprintf("%s := func() %s { return %s }()\n", iv, id.text(), d.text)
			case 2:
				g.Tag("iface-implicit:assignment")
				st = fmt.Sprintf("var %s %s\n%s = %s\n", iv, id.text(), iv, d.text)
			case 3:
				g.Tag("iface-implicit:composite-literal-element")
				st = fmt.Sprintf("%s := []%s{%s}[0]\n", iv, id.text(), d.text)
			default:
				g.Tag("iface-implicit:append")
				l := g.Local("il")
				st = fmt.Sprintf("var %s []%s\n%s = append(%s, %s)\n%s := %s[0]\n", l, id.text(), l, l, d.text, iv, l)
			}
			if k == "int" || k == "string" {
				g.Tag("iface-implicit:named-basic-type")
			}
			if id.std == "sort.Interface" {
				st += fmt.Sprintf("sort.Sort(%s)\n", iv)
			}
			return st + g.callsOn(iv, idx) + g.obsStmt(r)
		}
	}
	return ""
}

// concrete target types for assertions and type-switch cases
type target struct {
	text  string
	ti    int
	ptr   bool
	basic string
}

func (g *gen) targets() []target {
	var out []target
	for i, td := range g.types {
		out = append(out, target{text: td.name, ti: i}, target{text: "*" + td.name, ti: i, ptr: true})
	}
	out = append(out, target{text: "int", ti: -1, basic: "int"}, target{text: "string", ti: -1, basic: "string"})
	return out
}

func (g *gen) assertable(idx int, t target) bool {
	if idx < 0 {
		return true // interface{}
	}
	it := g.ifaces[idx].named.Underlying().(*types.Interface)
	if t.ti < 0 {
		return types.Implements(types.Typ[map[string]types.BasicKind{"int": types.Int, "string": types.String}[t.basic]], it)
	}
	return types.Implements(g.typeOf(t.ti, t.ptr), it)
}

func (d dyn) matches(t target) bool {
	if d.ti < 0 || t.ti < 0 {
		return d.ti < 0 && t.ti < 0 && d.basic == t.basic
	}
	return d.ti == t.ti && d.ptr == t.ptr
}

// obsTarget observes variable y of target type t; full=false restricts to what is safe
// on a zero value.
func (g *gen) obsTarget(y string, t target, full bool) []string {
	if t.ti < 0 {
		return []string{y}
	}
	if t.ptr {
		if !full {
			return []string{y + " == nil"}
		}
		o := g.obs(y, t.ti, true, 2)
		return append([]string{y + " == nil"}, o...)
	}
	if full {
		return g.obs(y, t.ti, false, 2)
	}
	td := g.types[t.ti]
	switch td.kind {
	case "int":
		return []string{"int(" + y + ")"}
	case "string":
		return []string{"string(" + y + ")"}
	case "slice":
		return []string{"len(" + y + ")", y + " == nil"}
	}
	var out []string
	for _, f := range td.fields {
		out = append(out, y+"."+f.name)
	}
	return out
}

// shape is the reflect-level shape of a named type: interpreted named types are emulated
// by their underlying types, field names are kept.
func (g *gen) shape(ti int) string {
	td := g.types[ti]
	switch td.kind {
	case "int", "string":
		return td.kind
	case "slice":
		return "[]int"
	}
	s := "struct{"
	for _, e := range td.embeds {
		s += g.tname(e.ti) + ":"
		if e.ptr {
			s += "*"
		}
		s += g.shape(e.ti) + ";"
	}
	for _, f := range td.fields {
		s += f.name + " " + f.typ + ";"
	}
	return s + "}"
}

func (g *gen) shapeOf(ti int, ptr bool, basic string) string {
	if ti < 0 {
		return basic
	}
	if ptr {
		return "*" + g.shape(ti)
	}
	return g.shape(ti)
}

// confusable: t is a different type than the dynamic type of d but has the same
// reflect-level shape (known finding F-C09-7, assertions from interface{} and from
// compiled interfaces).
func (g *gen) confusable(idx int, d dyn, t target) bool {
	if idx >= 0 && g.ifaces[idx].std == "" {
		return false
	}
	if d.matches(t) || d.basic == "nil" {
		return false
	}
	return g.shapeOf(d.ti, d.ptr, d.basic) == g.shapeOf(t.ti, t.ptr, t.basic)
}

// assertSite: x.(T) with and without comma-ok on interface variable iv of interface idx
// (-1: interface{}) holding d.
func (g *gen) assertSite(iv string, idx int, d dyn) string {
	ts := g.targets()
	var cand []target
	for _, t := range ts {
		if g.assertable(idx, t) {
			if g.confusable(idx, d, t) && excl("F-C09-7") {
				continue
			}
			cand = append(cand, t)
		}
	}
	if len(cand) == 0 {
		return ""
	}
	var t target
	if g.Chance(1, 2, "assert-hit") {
		found := false
		for _, c := range cand {
			if d.matches(c) {
				t, found = c, true
			}
		}
		if !found {
			t = cand[g.Pick(len(cand), "assert-target")]
		}
	} else {
		t = cand[g.Pick(len(cand), "assert-target")]
	}
	hit := d.matches(t)
	// same underlying layout, different name: the assertion must still distinguish them
	if !hit && d.ti >= 0 && t.ti >= 0 && d.ptr == t.ptr && types.Identical(g.types[d.ti].named.Underlying(), g.types[t.ti].named.Underlying()) {
		g.Tag("assert-to-type-with-identical-underlying")
	}
	y := g.Local("y")
	var st string
	if g.Bool("comma-ok") {
		g.Tag("assert-comma-ok")
		ok := g.Local("ok")
		o := g.obsTarget(y, t, hit)
		st = fmt.Sprintf("%s, %s := %s.(%s)\n_ = %s\nrec.E(%s)\n", y, ok, iv, t.text, y, strings.Join(append([]string{fmt.Sprint(g.Ev()), ok}, o...), ", "))
	} else {
		g.Tag("assert-single-value")
		o := g.obsTarget(y, t, true)
		body := fmt.Sprintf("%s := %s.(%s)\n_ = %s\nrec.E(%s)\n", y, iv, t.text, y, strings.Join(append([]string{fmt.Sprint(g.Ev())}, o...), ", "))
		if hit {
			st = body
		} else {
			g.Tag("assert-panics")
			st = g.guarded(body)
		}
	}
	if hit {
		g.Tag("assert-succeeds")
		// a method call on the asserted value
		if t.ti >= 0 {
			yr := rexpr{text: y, ti: t.ti, ptr: t.ptr, addr: true}
			if name, s, ok := g.pickMethod(yr); ok {
				g.noteSel(s)
				if s.res != "" && name != "Less" {
					st += fmt.Sprintf("rec.E(%d, %s.%s(%s))\n", g.Ev(), y, name, g.args(s.params))
				}
			}
		}
	} else {
		g.Tag("assert-fails")
	}
	return st
}

// typeSwitchSite: a type switch over interface variable iv (interface idx or -1) whose
// possible dynamic values are ds.
func (g *gen) typeSwitchSite(iv string, idx int, ds []dyn) string {
	ts := g.targets()
	var cand []target
	for _, t := range ts {
		if g.assertable(idx, t) {
			conf, conf19 := false, false
			for _, d := range ds {
				if g.confusable(idx, d, t) {
					conf = true
				}
				// F-C09-19: with multi-type cases the confusion also happens for interpreted interfaces
				if !d.matches(t) && d.basic != "nil" && g.shapeOf(d.ti, d.ptr, d.basic) == g.shapeOf(t.ti, t.ptr, t.basic) {
					conf19 = true
				}
			}
			if conf && excl("F-C09-7") {
				continue
			}
			if conf19 && !conf && excl("F-C09-19") {
				continue
			}
			cand = append(cand, t)
		}
	}
	// make sure hits are likely: put the matching targets first with good probability
	var chosen []target
	used := map[string]bool{}
	for _, d := range ds {
		for _, c := range cand {
			if d.matches(c) && !used[c.text] && g.Chance(2, 3, "ts-include-hit") {
				used[c.text] = true
				chosen = append(chosen, c)
			}
		}
	}
	extra := g.Int(0, 3, "ts-extra")
	for k := 0; k < extra && len(cand) > 0; k++ {
		c := cand[g.Pick(len(cand), "ts-extra-which")]
		if !used[c.text] {
			used[c.text] = true
			chosen = append(chosen, c)
		}
	}
	// shuffle by drawn swaps
	for i := len(chosen) - 1; i > 0; i-- {
		j := g.Pick(i+1, "ts-shuffle")
		chosen[i], chosen[j] = chosen[j], chosen[i]
	}
	g.Tag("type-switch")
	y := g.Local("y")
	var b strings.Builder
	bind := true
	if idx >= 0 && excl("F-C09-11") {
		bind = false
		g.Tag("type-switch-without-binding")
	}
	use := "\t_ = " + y + "\n"
	if bind {
		fmt.Fprintf(&b, "switch %s := %s.(type) {\n", y, iv)
	} else {
		use = ""
		fmt.Fprintf(&b, "switch %s.(type) {\n", iv)
	}
	defaultAt := -1
	if g.Chance(3, 4, "ts-default") || len(chosen) == 0 {
		defaultAt = g.Pick(len(chosen)+1, "ts-default-at")
		g.Tag("type-switch-default")
	}
	nilDone := !g.Chance(1, 3, "ts-nil")
	i := 0
	emitDefault := func() {
		fmt.Fprintf(&b, "default:\n%s\trec.E(%d, \"default\")\n", use, g.Ev())
	}
	pos := 0
	for i < len(chosen) {
		if pos == defaultAt {
			emitDefault()
		}
		pos++
		if !nilDone && g.Chance(1, 3, "ts-nil-here") {
			nilDone = true
			g.Tag("type-switch-case-nil")
			fmt.Fprintf(&b, "case nil:\n%s\trec.E(%d, \"nil-case\")\n", use, g.Ev())
		}
		if i+1 < len(chosen) && g.Chance(1, 4, "ts-multi") {
			g.Tag("type-switch-multi-type-case")
			fmt.Fprintf(&b, "case %s, %s:\n%s\trec.E(%d, \"multi\")\n", chosen[i].text, chosen[i+1].text, use, g.Ev())
			i += 2
			continue
		}
		t := chosen[i]
		var o []string
		if bind {
			o = g.obsTarget(y, t, true)
		}
		// a nil pointer of the case type cannot occur: stored pointers are non-nil
		fmt.Fprintf(&b, "case %s:\n%s\trec.E(%s)\n", t.text, use, strings.Join(append([]string{fmt.Sprint(g.Ev())}, o...), ", "))
		if t.ti >= 0 && bind {
			yr := rexpr{text: y, ti: t.ti, ptr: t.ptr, addr: true}
			if name, s, ok := g.pickMethod(yr); ok && s.res != "" && name != "Less" {
				g.noteSel(s)
				fmt.Fprintf(&b, "\trec.E(%d, %s.%s(%s))\n", g.Ev(), y, name, g.args(s.params))
			}
		}
		i++
	}
	if defaultAt >= pos {
		emitDefault()
	}
	b.WriteString("}\n")
	return b.String()
}

// siteAssertAny: values of several dynamic types stored in interface{} and asserted.
func (g *gen) dynValues(n int) []dyn {
	var ds []dyn
	for k := 0; k < n; k++ {
		switch g.Pick(8, "dyn-kind") {
		case 0:
			ds = append(ds, dyn{text: fmt.Sprint(g.nextVal()), ti: -1, basic: "int"})
		case 1:
			ds = append(ds, dyn{text: fmt.Sprintf("\"d%d\"", g.nextVal()), ti: -1, basic: "string"})
		case 2:
			ds = append(ds, dyn{text: "nil", ti: -1, basic: "nil"})
		default:
			r := g.pickRecv()
			ds = append(ds, g.dynOfRecv(r))
		}
	}
	return ds
}

func (g *gen) siteAssertAny() string {
	d := g.dynValues(1)[0]
	x := g.Local("x")
	g.Tag("assert-from-empty-interface")
	st := fmt.Sprintf("var %s interface{} = %s\n", x, d.text)
	return st + g.assertSite(x, -1, d)
}

func (g *gen) siteTypeSwitch() string {
	ds := g.dynValues(g.Int(2, 5, "ts-values"))
	texts := make([]string, len(ds))
	for i, d := range ds {
		texts[i] = d.text
	}
	x := g.Local("x")
	g.Tag("type-switch-over-values")
	body := g.typeSwitchSite(x, -1, ds)
	return fmt.Sprintf("for _, %s := range []interface{}{%s} {\n%s}\n", x, strings.Join(texts, ", "), progen.Indent(body))
}

func (g *gen) site() string {
	for try := 0; try < 4; try++ {
		var s string
		switch k := g.Pick(26, "site"); {
		case k < 3:
			s = g.siteFieldRead()
		case k < 5:
			s = g.siteFieldWrite()
		case k < 9:
			s = g.siteMethodCall()
		case k < 11:
			s = g.siteMethodValue()
		case k < 13:
			s = g.siteMethodExpr()
		case k < 16:
			s = g.siteIface()
		case k < 18:
			s = g.siteAssertAny()
		case k < 20:
			s = g.siteTypeSwitch()
		case k < 24:
			s = g.siteTypeSwitchMixed()
		default:
			s = g.siteIfaceImplicit()
		}
		if s != "" {
			return s
		}
	}
	return fmt.Sprintf("rec.E(%d)\n", g.Ev())
}

// ---------------------------------------------------------------- program assembly

func (g *gen) declareAll() {
	g.Decls = append(g.Decls, fmt.Sprintf("var %sZ = 0", g.Px), fmt.Sprintf("var %sS = \"\"", g.Px))
	for i, td := range g.types {
		g.Decls = append(g.Decls, g.typeDeclText(td))
		for _, m := range td.methods {
			g.Decls = append(g.Decls, g.methodDecl(i, m))
		}
		g.Decls = append(g.Decls, fmt.Sprintf("func %sNew%d(v %s) *%s { return &v }", g.Px, i, td.name, td.name))
	}
	for _, id := range g.ifaces {
		if id.std == "" {
			g.Decls = append(g.Decls, g.ifaceDeclText(id))
		}
	}
	for k, id := range g.ifaces {
		// identity functions: an argument is converted to the parameter's interface type
		g.Decls = append(g.Decls, fmt.Sprintf("func %sId%d(i %s) %s { return i }", g.Px, k, id.text(), id.text()))
	}
	for i, td := range g.types {
		g.Decls = append(g.Decls,
			fmt.Sprintf("func %sMk%d() %s { return %s }", g.Px, i, td.name, g.mk(i)),
			fmt.Sprintf("func %sMkP%d() *%s { return %s }", g.Px, i, td.name, g.mkPtr(i)))
	}
}

// entryPrologue declares the variables of the entry function and fills g.recvs.
func (g *gen) entryPrologue() string {
	var b strings.Builder
	for i, td := range g.types {
		v, p := fmt.Sprintf("v%d", i), fmt.Sprintf("p%d", i)
		fmt.Fprintf(&b, "%s := %s\n", v, g.mk(i))
		if g.Bool("p-alias") {
			fmt.Fprintf(&b, "%s := &%s\n", p, v)
			g.Tag("pointer-aliases-variable")
		} else {
			fmt.Fprintf(&b, "%s := %s\n", p, g.mkPtr(i))
		}
		fmt.Fprintf(&b, "_, _ = %s, %s\n", v, p)
		g.recvs = append(g.recvs,
			rexpr{text: v, ti: i, addr: true, base: v, bti: i},
			rexpr{text: p, ti: i, ptr: true, base: p, bti: i, bptr: true},
			rexpr{text: "(*" + p + ")", ti: i, addr: true, base: p, bti: i, bptr: true},
			rexpr{text: "(&" + v + ")", ti: i, ptr: true, base: v, bti: i},
			rexpr{text: fmt.Sprintf("%sMk%d()", g.Px, i), ti: i},
			rexpr{text: fmt.Sprintf("%sMkP%d()", g.Px, i), ti: i, ptr: true},
		)
		if td.kind == "struct" || td.kind == "slice" {
			g.recvs = append(g.recvs, rexpr{text: g.mk(i), ti: i})
		}
		if g.Chance(1, 3, "map-var") {
			m := fmt.Sprintf("m%d", i)
			fmt.Fprintf(&b, "%s := map[string]%s{\"k\": %s}\n_ = %s\n", m, td.name, g.mk(i), m)
			g.recvs = append(g.recvs, rexpr{text: m + "[\"k\"]", ti: i})
		}
		if g.Chance(1, 3, "slice-var") {
			s := fmt.Sprintf("s%d", i)
			fmt.Fprintf(&b, "%s := []%s{%s, %s}\n_ = %s\n", s, td.name, g.mk(i), g.mk(i), s)
			idx := g.Pick(2, "slice-idx")
			g.recvs = append(g.recvs, rexpr{text: fmt.Sprintf("%s[%d]", s, idx), ti: i, addr: true, base: fmt.Sprintf("%s[%d]", s, idx), bti: i})
		}
	}
	return b.String()
}

func (g *gen) finish(body string, extraDecls []string, meta map[string]string) gobatch.Program {
	entry := g.Px + "Main"
	decls := append([]string{}, g.Decls...)
	decls = append(decls, extraDecls...)
	decls = append(decls, fmt.Sprintf("func %s() {\n%s}", entry, progen.Indent(body)))
	p := gobatch.Program{Decls: decls, Entry: entry, Tags: g.TagList(), Meta: meta}
	all := strings.Join(decls, "\n")
	for _, imp := range []string{"fmt", "sort", "time", "errors", "strings", "bytes"} {
		if strings.Contains(all, imp+".") {
			p.Imports = append(p.Imports, imp)
		}
	}
	switch {
	case g.deep && g.shadow:
		p.NT = "depth>=2+shadowing"
	case g.deep:
		p.NT = "depth>=2"
	case g.shadow:
		p.NT = "shadowing"
	}
	return p
}

func newGen(t *rapid.T, px string, smallPool bool) *gen {
	g := &gen{G: progen.New(t, px, 0), declPool: pool}
	if smallPool {
		g.declPool = pool[:2] // two names only: same-depth collisions become frequent
	}
	g.genHierarchy()
	g.typecheckSkeleton()
	g.declareAll()
	return g
}

// devSites > 0 fixes the number of use sites (development aid only).
var devSites = 0

// Generate builds one valid program (main stream).
func Generate(t *rapid.T, px string) gobatch.Program {
	g := newGen(t, px, false)
	body := g.entryPrologue()
	n := g.Int(3, 10, "nsites")
	if devSites > 0 {
		n = devSites
	}
	for i := 0; i < n; i++ {
		body += g.site()
	}
	// final state of every variable
	for _, r := range g.recvs {
		if r.base == r.text && devSites == 0 {
			body += g.obsStmt(r)
		}
	}
	return g.finish(body, nil, nil)
}

var _ = sort.Strings
