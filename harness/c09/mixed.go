package c09

import (
	"fmt"
	"go/types"
	"strings"

	"verif/harness/progen"
)

// Type switches whose case lists MIX interface types and concrete types in every
// order, run with values that match several clauses: Go takes the first matching
// clause in source order. (Added after seeded change C09-b: the jump table of
// fast/switch_type.go typeswitchGotoMap must only hold the concrete cases that come
// before the first interface case.)

// mcase is one case type of a mixed switch.
type mcase struct {
	text  string
	iface int    // index into g.ifaces (interpreted flavour) or -1
	t     target // concrete target (interpreted flavour)
	// compiled flavour
	cIface string // "fmt.Stringer" / "error" ("" = concrete)
	cType  string // concrete compiled type text
}

// mval is one subject value of a mixed switch.
type mval struct {
	text string
	d    dyn    // interpreted flavour
	ctyp string // compiled flavour: concrete type text ("" = not nameable / nil)
	str  bool   // implements fmt.Stringer
	err  bool   // implements error
	isNil bool
}

// ---- compiled flavour: compiled values, compiled interfaces (fully supported by gomacro)

func (g *gen) compiledVals() []mval {
	z := g.Px + "Z"
	return []mval{
		{text: fmt.Sprint(g.nextVal()), ctyp: "int"},
		{text: fmt.Sprintf("\"c%d\"", g.nextVal()), ctyp: "string"},
		{text: "1.5", ctyp: "float64"},
		{text: "true", ctyp: "bool"},
		{text: fmt.Sprintf("time.Duration(%s + %d)", z, g.nextVal()), ctyp: "time.Duration", str: true},
		{text: fmt.Sprintf("time.Month(%s + %d)", z, 1+g.Pick(12, "month")), ctyp: "time.Month", str: true},
		{text: "time.Unix(0, 0).UTC()", ctyp: "time.Time", str: true},
		{text: "&strings.Builder{}", ctyp: "*strings.Builder", str: true},
		{text: fmt.Sprintf("bytes.NewBufferString(\"b%d\")", g.nextVal()), ctyp: "*bytes.Buffer", str: true},
		{text: fmt.Sprintf("errors.New(\"e%d\")", g.nextVal()), err: true},
		{text: "nil", isNil: true},
	}
}

var compiledConcrete = []string{"int", "string", "float64", "bool", "time.Duration", "time.Month", "time.Time", "*strings.Builder", "*bytes.Buffer"}

func (c mcase) matchesCompiled(v mval) bool {
	if v.isNil {
		return false
	}
	switch c.cIface {
	case "fmt.Stringer":
		return v.str
	case "error":
		return v.err
	}
	return c.cType == v.ctyp
}

// obsCompiled observes y of the case type.
func obsCompiled(c mcase, y string) string {
	switch {
	case c.cIface == "fmt.Stringer":
		return y + ".String()"
	case c.cIface == "error":
		return y + ".Error()"
	}
	switch c.cType {
	case "int", "string", "float64", "bool":
		return y
	}
	return y + ".String()"
}

func (g *gen) mixedCompiled() string {
	all := g.compiledVals()
	// values: 3-6, biased to those that implement an interface
	var vals []mval
	n := g.Int(3, 6, "mc-nvals")
	for k := 0; k < n; k++ {
		v := all[g.Pick(len(all), "mc-val")]
		if !v.str && !v.err && g.Bool("mc-prefer-iface-value") {
			v = all[4+g.Pick(6, "mc-val-iface")]
		}
		vals = append(vals, v)
	}
	// cases: 1-2 interface cases, 2-5 concrete ones (those of the values first)
	var cases []mcase
	used := map[string]bool{}
	add := func(c mcase) {
		if !used[c.text] {
			used[c.text] = true
			cases = append(cases, c)
		}
	}
	add(mcase{text: "fmt.Stringer", cIface: "fmt.Stringer", iface: -1})
	if g.Bool("mc-error-case") {
		add(mcase{text: "error", cIface: "error", iface: -1})
	}
	for _, v := range vals {
		if v.ctyp != "" && g.Chance(3, 4, "mc-include-hit") {
			add(mcase{text: v.ctyp, cType: v.ctyp, iface: -1})
		}
	}
	extra := g.Int(1, 3, "mc-extra")
	for k := 0; k < extra; k++ {
		ct := compiledConcrete[g.Pick(len(compiledConcrete), "mc-extra-which")]
		add(mcase{text: ct, cType: ct, iface: -1})
	}
	g.Tag("ts-mixed:compiled-values")
	texts := make([]string, len(vals))
	for i, v := range vals {
		texts[i] = v.text
	}
	x := g.Local("x")
	body := g.mixedSwitch(x, cases, func(c mcase, v mval) bool { return c.matchesCompiled(v) }, vals,
		func(c mcase, y string) string { return fmt.Sprintf("\trec.E(%d, %s)\n", g.Ev(), obsCompiled(c, y)) }, true)
	return fmt.Sprintf("for _, %s := range []interface{}{%s} {\n%s}\n", x, strings.Join(texts, ", "), progen.Indent(body))
}

// ---- interpreted flavour: values of the hierarchy, interpreted and compiled interfaces

func (g *gen) implementsIface(d dyn, idx int) bool {
	it := g.ifaces[idx].named.Underlying().(*types.Interface)
	if d.ti < 0 {
		switch d.basic {
		case "int":
			return types.Implements(types.Typ[types.Int], it)
		case "string":
			return types.Implements(types.Typ[types.String], it)
		}
		return false
	}
	return types.Implements(g.typeOf(d.ti, d.ptr), it)
}

func (g *gen) mixedInterpreted() string {
	// interface cases: 1-3 distinct interfaces (not sort.Interface: its methods need indexes)
	var icand []int
	for idx, id := range g.ifaces {
		if id.std != "sort.Interface" {
			icand = append(icand, idx)
		}
	}
	ni := g.Int(1, 3, "mi-nifaces")
	var ics []int
	seen := map[int]bool{}
	for k := 0; k < ni; k++ {
		idx := icand[g.Pick(len(icand), "mi-iface")]
		if !seen[idx] {
			seen[idx] = true
			ics = append(ics, idx)
		}
	}
	// subject type: interface{} or an interpreted interface
	// The subject always has an interpreted interface type: over interface{} gomacro does
	// not see that an interpreted value implements an interface (documented limitation:
	// "interface -> interface type switches do not support interpreted types stored in
	// interfaces"); through an interpreted interface the concrete xr.Type travels along.
	countLabel("excluded:documented(interface case over interface{} holding an interpreted value)")
	var scand []int
	for idx, id := range g.ifaces {
		if id.std == "" {
			scand = append(scand, idx)
		}
	}
	subj := scand[g.Pick(len(scand), "mi-subject")]
	// values: prefer those implementing one of the interface cases
	var vals []mval
	want := g.Int(2, 5, "mi-nvals")
	for try := 0; try < 12 && len(vals) < want; try++ {
		r := g.recvs[g.Pick(len(g.recvs), "mi-recv")]
		var forms []dyn
		if subj >= 0 {
			forms = g.storeForms(r, subj)
		} else {
			forms = []dyn{g.dynOfRecv(r)}
			if !r.ptr && r.addr {
				forms = append(forms, dyn{text: "&" + r.text, ti: r.ti, ptr: true, r: r})
			}
		}
		if len(forms) == 0 {
			continue
		}
		d := forms[g.Pick(len(forms), "mi-form")]
		if k := g.types[d.ti].kind; !d.ptr && (k == "int" || k == "string") && excl("F-C09-17") {
			continue // element of a named basic type in a composite literal of interface type
		}
		hit := false
		for _, idx := range ics {
			if g.implementsIface(d, idx) {
				hit = true
			}
		}
		if hit || g.Chance(1, 4, "mi-accept-nonmatching") {
			vals = append(vals, mval{text: d.text, d: d})
		}
	}
	if len(vals) == 0 {
		return ""
	}
	if g.Chance(1, 4, "mi-nil-value") && !excl("F-C09-16") {
		vals = append(vals, mval{text: "nil", d: dyn{text: "nil", ti: -1, basic: "nil"}, isNil: true})
	}
	// concrete cases: the types of the values first, then extras, 2-5 in total if possible
	var cand []target
	for _, t := range g.targets() {
		if !g.assertable(subj, t) {
			continue
		}
		conf, conf19 := false, false
		for _, v := range vals {
			if g.confusable(subj, v.d, t) {
				conf = true
			}
			// F-C09-19: in these switches (multi-type cases) the confusion of F-C09-7 also
			// happens when the subject is an interpreted interface
			if !v.d.matches(t) && v.d.basic != "nil" && g.shapeOf(v.d.ti, v.d.ptr, v.d.basic) == g.shapeOf(t.ti, t.ptr, t.basic) {
				conf19 = true
			}
		}
		if conf && excl("F-C09-7") {
			continue
		}
		if conf19 && !conf && excl("F-C09-19") {
			continue
		}
		cand = append(cand, t)
	}
	var cases []mcase
	used := map[string]bool{}
	for _, idx := range ics {
		id := g.ifaces[idx]
		if !used[id.text()] {
			used[id.text()] = true
			cases = append(cases, mcase{text: id.text(), iface: idx})
			g.noteStd(idx)
		}
	}
	nconc := 0
	for _, v := range vals {
		for _, c := range cand {
			if v.d.matches(c) && !used[c.text] && g.Chance(3, 4, "mi-include-hit") {
				used[c.text] = true
				cases = append(cases, mcase{text: c.text, iface: -1, t: c})
				nconc++
			}
		}
	}
	extra := g.Int(1, 3, "mi-extra")
	for k := 0; (k < extra || nconc < 2) && k < 8 && len(cand) > 0; k++ {
		c := cand[g.Pick(len(cand), "mi-extra-which")]
		if !used[c.text] {
			used[c.text] = true
			cases = append(cases, mcase{text: c.text, iface: -1, t: c})
			nconc++
		}
	}
	g.Tag("ts-mixed:interpreted-values")
	if subj >= 0 {
		g.Tag("ts-mixed:subject-of-interpreted-interface-type")
	}
	match := func(c mcase, v mval) bool {
		if v.isNil {
			return false
		}
		if c.iface >= 0 {
			return g.implementsIface(v.d, c.iface)
		}
		return v.d.matches(c.t)
	}
	obs := func(c mcase, y string) string {
		if c.iface >= 0 {
			return progen.Indent(g.callsOn(y, c.iface))
		}
		o := g.obsTarget(y, c.t, true)
		return fmt.Sprintf("\trec.E(%s)\n", strings.Join(append([]string{fmt.Sprint(g.Ev())}, o...), ", "))
	}
	texts := make([]string, len(vals))
	for i, v := range vals {
		texts[i] = v.text
	}
	x := g.Local("x")
	body := g.mixedSwitch(x, cases, match, vals, obs, false)
	elem := "interface{}"
	if subj >= 0 {
		elem = g.ifaces[subj].text()
	}
	return fmt.Sprintf("for _, %s := range []%s{%s} {\n%s}\n", x, elem, strings.Join(texts, ", "), progen.Indent(body))
}

// mixedSwitch renders the switch over x: the case types are shuffled, sometimes two
// neighbours are merged into one multi-type clause, default and case nil are optional,
// the variable is bound or not. It also labels which first-match situations the subject
// values create.
func (g *gen) mixedSwitch(x string, cases []mcase, match func(mcase, mval) bool, vals []mval, obs func(c mcase, y string) string, ifaceInMulti bool) string {
	for i := len(cases) - 1; i > 0; i-- {
		j := g.Pick(i+1, "mx-shuffle")
		cases[i], cases[j] = cases[j], cases[i]
	}
	isIface := func(c mcase) bool { return c.iface >= 0 || c.cIface != "" }
	hasNil := false
	for _, v := range vals {
		if v.isNil {
			hasNil = true
		}
	}
	// an interface type inside a multi-type clause: with interpreted values gomacro compares
	// reflect types only (documented limitation); with a nil subject it panics (F-C09-15)
	mergeable := func(a, b mcase) bool {
		if !isIface(a) && !isIface(b) {
			return true
		}
		if !ifaceInMulti {
			countLabel("excluded:documented(interface type in a multi-type case with interpreted values)")
			return false
		}
		if hasNil && excl("F-C09-15") {
			return false
		}
		return true
	}
	// clauses
	var clauses [][]mcase
	for i := 0; i < len(cases); i++ {
		if i+1 < len(cases) && g.Chance(1, 5, "mx-multi") && mergeable(cases[i], cases[i+1]) {
			clauses = append(clauses, []mcase{cases[i], cases[i+1]})
			i++
			continue
		}
		clauses = append(clauses, []mcase{cases[i]})
	}
	nconc, firstIface, lastIface := 0, -1, -1
	for ci, cl := range clauses {
		for _, c := range cl {
			if isIface(c) {
				if firstIface < 0 {
					firstIface = ci
				}
				lastIface = ci
			} else {
				nconc++
			}
		}
		if len(cl) == 2 && isIface(cl[0]) != isIface(cl[1]) {
			g.Tag("ts-mixed:multi-type-case-mixing-interface-and-concrete")
		}
	}
	if nconc >= 2 {
		g.Tag("ts-mixed:>=2-concrete-cases")
	}
	switch {
	case firstIface == 0:
		g.Tag("ts-mixed:interface-case-first")
	case lastIface == len(clauses)-1 && firstIface == lastIface:
		g.Tag("ts-mixed:interface-case-last")
	case firstIface > 0:
		g.Tag("ts-mixed:interface-case-in-the-middle")
	}
	// which first-match situations occur
	for _, v := range vals {
		first := -1
		var later []int
		for ci, cl := range clauses {
			m := false
			for _, c := range cl {
				if match(c, v) {
					m = true
				}
			}
			if m {
				if first < 0 {
					first = ci
				} else {
					later = append(later, ci)
				}
			}
		}
		if first < 0 {
			g.Tag("ts-mixed:value-matching-no-case")
			continue
		}
		clauseHasIface := func(ci int) bool {
			for _, c := range clauses[ci] {
				if isIface(c) && match(c, v) {
					return true
				}
			}
			return false
		}
		for _, l := range later {
			switch {
			case clauseHasIface(first) && !clauseHasIface(l):
				g.Tag("ts-mixed:interface-case-before-concrete-match")
			case !clauseHasIface(first) && clauseHasIface(l):
				g.Tag("ts-mixed:concrete-case-before-interface-match")
			case clauseHasIface(first) && clauseHasIface(l):
				g.Tag("ts-mixed:two-interface-cases-match")
			}
		}
	}
	bind := g.Chance(2, 3, "mx-bind")
	y := g.Local("y")
	var b strings.Builder
	use := ""
	if bind {
		g.Tag("ts-mixed:bound")
		use = "\t_ = " + y + "\n"
		fmt.Fprintf(&b, "switch %s := %s.(type) {\n", y, x)
	} else {
		g.Tag("ts-mixed:unbound")
		fmt.Fprintf(&b, "switch %s.(type) {\n", x)
	}
	defaultAt := -1
	if g.Chance(2, 3, "mx-default") {
		defaultAt = g.Pick(len(clauses)+1, "mx-default-at")
	}
	nilAt := -1
	if g.Chance(1, 3, "mx-nil") {
		nilAt = g.Pick(len(clauses)+1, "mx-nil-at")
	}
	emitExtra := func(pos int) {
		if pos == defaultAt {
			fmt.Fprintf(&b, "default:\n%s\trec.E(%d, \"default\")\n", use, g.Ev())
		}
		if pos == nilAt {
			fmt.Fprintf(&b, "case nil:\n%s\trec.E(%d, \"nil-case\")\n", use, g.Ev())
		}
	}
	for ci, cl := range clauses {
		emitExtra(ci)
		if len(cl) == 2 {
			fmt.Fprintf(&b, "case %s, %s:\n%s\trec.E(%d, \"multi\")\n", cl[0].text, cl[1].text, use, g.Ev())
			continue
		}
		fmt.Fprintf(&b, "case %s:\n%s\trec.E(%d, %q)\n", cl[0].text, use, g.Ev(), "case")
		if bind {
			b.WriteString(obs(cl[0], y))
		}
	}
	emitExtra(len(clauses))
	b.WriteString("}\n")
	return b.String()
}

func (g *gen) siteTypeSwitchMixed() string {
	g.Tag("type-switch")
	if g.Chance(1, 3, "mixed-flavour") {
		return g.mixedCompiled()
	}
	return g.mixedInterpreted()
}
