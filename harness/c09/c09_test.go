// C09: methods, embedding, interfaces and type switches behave as in Go.
// Oracle: the Go toolchain (gobatch) for valid programs; go/types for the rejection stream.
package c09

import (
	"fmt"
	"os"
	"strings"
	"testing"

	"github.com/cosmos72/gomacro/fast"
	"pgregory.net/rapid"

	"verif/harness/gobatch"
	"verif/harness/vlib"
)

var rec *vlib.Rec

func TestMain(m *testing.M) {
	rec = vlib.Open("C09")
	rec.Rule("main stream: cases = generated Go programs declaring 2-6 named types (structs embedding earlier types by value or pointer to depth 3, named int/string/[]int), " +
		"field and method names from a pool of 4 (A,B,C,D) plus String/Error/Len/Less/Swap, value and pointer receivers, 1-3 interpreted interfaces and fmt.Stringer/error/sort.Interface, " +
		"and 3-10 use sites (field read/write, method call, method value, method expression, interface store + calls, static interface conversion, assertions with/without comma-ok, type switches); " +
		"a case is non-trivial when at least one of its selectors is resolved through >= 2 embedding levels or selects a name that is also declared deeper in the embedding tree (shadowing); distinct = distinct program texts. " +
		"reject stream: a valid control program plus ONE statement that go/types rejects (ambiguous selector, pointer method on unaddressable value, value type lacking pointer methods stored in an interface, T.pointerMethod, impossible assertion/case); " +
		"non-trivial when the kind is an ambiguity or a method-set violation")
	rec.Assume("oracle: gc toolchain at language level go1.18 for valid programs (trace formatted by the same compiled recorder on both sides); go/types (go1.18) decides which selector / method-set uses are invalid")
	rec.Assume("documented limitations excluded by construction: no interface-to-interface type assertion or type-switch case with an interface type; no value of an interpreted named type with methods handed to compiled code except through the proxies of fmt.Stringer, error, sort.Interface; no typed constant converted to an interpreted interface")
	// warm-up outside any time budget: the first fast.New() of a process loads the whole
	// import table (0.7 s idle, minutes on a starved machine) and would otherwise be
	// charged to the first generated program
	fast.New()
	knownOn = rec.Known
	countExcluded = rec.Excluded
	countLabel = rec.Label
	os.Exit(vlib.Main(m, rec))
}

func known(p gobatch.Program, got, want gobatch.Result) string { return "" }

func skip(p gobatch.Program) string { return "" }

func TestHierarchies(t *testing.T) {
	gobatch.Run(t, gobatch.Config{
		Rec: rec, Name: "c09", N: rec.Scale(150, 1000),
		Gen: Generate, Known: known, Skip: skip,
	})
}

// checkReject decides one case of the rejection stream; "" = holds.
func checkReject(bad gobatch.Program) string {
	res := gobatch.RunInterp(bad)
	if strings.HasPrefix(res.Err, "compile:") {
		return ""
	}
	return fmt.Sprintf("go/types rejects this program (%v) but gomacro compiled and ran it:\n%s", gobatch.Vet(bad), res.String())
}

func TestRejected(t *testing.T) {
	seq := 0
	rec.Check(t, rec.Scale(100, 600), func(rt *rapid.T) {
		seq++
		px := fmt.Sprintf("R%dN%d_", rec.Shard(), seq)
		bad, control, kind, ok := GenerateReject(rt, px)
		if !ok {
			rec.Label("reject:no-invalid-use-available")
			return
		}
		if err := gobatch.Vet(control); err != nil {
			rec.Label("gen-invalid(reject control)")
			rec.Note("reject stream: control program invalid: %v", err)
			return
		}
		if err := gobatch.Vet(bad); err == nil {
			rec.Label("gen-invalid(reject program accepted by go/types)")
			rec.Note("reject stream: go/types accepts kind %s:\n%s", kind, bad.Source("p"))
			return
		}
		if cr := gobatch.RunInterp(control); cr.Err != "" {
			// the valid part already fails in gomacro: that is the main stream's business
			rec.Label("reject:control-fails-in-gomacro")
			return
		}
		rec.Label("reject:" + kind)
		if kind != "" {
			rec.NT(bad.Source("p"))
		}
		if msg := checkReject(bad); msg != "" {
			rec.Failf(rt, "c09-reject-"+kind, bad.Replay(), "go", "%s", msg)
		}
	})
}

func replay(content []byte) error {
	p, ok := gobatch.ParseReplay(content)
	if ok && p.Meta["stream"] == "reject" {
		if gobatch.Vet(p) == nil {
			return nil // valid Go: outside the rejection stream
		}
		if msg := checkReject(p); msg != "" {
			return fmt.Errorf("%s", msg)
		}
		return nil
	}
	return gobatch.Replayer(known)(content)
}

func TestReplays(t *testing.T) {
	rec.RunReplays(t, replay)
}
