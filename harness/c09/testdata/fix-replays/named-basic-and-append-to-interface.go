//gobatch:{"decls": ["type T string", "func (r T) M() int { return len(r) }", "func (r T) String() string { return \"T:\" + string(r) }", "type Q int", "func (q Q) M() int { return int(q) }", "type S struct{ A int }", "func (r S) M() int { return r.A }", "func (r S) String() string { return \"S\" }", "type P struct{ A int }", "func (r *P) M() int { r.A++; return r.A }", "type I interface{ M() int }", "type H struct{ X I; Y fmt.Stringer }", "var Z = \"\"", "func F(i I) int { return i.M() }", "func G(s fmt.Stringer) string { return s.String() }", "func V(k int, is ...I) int { n := k; for _, i := range is { n = n*10 + i.M() }; return n }", "func Two() (a I, b fmt.Stringer) { v := T(Z + \"xyz\"); return v, v }", "func Main() { v := T(Z + \"ab\"); q := Q(len(Z) + 7); l := []I{v, q}; rec.E(1, l[0].M(), l[1].M()); a := [2]I{v, q}; rec.E(2, a[0].M(), a[1].M()); m := map[string]I{\"k\": v}; rec.E(3, m[\"k\"].M()); h := H{X: q, Y: v}; rec.E(4, h.X.M(), h.Y.String()); h2 := H{v, v}; rec.E(5, h2.X.M(), h2.Y.String()); rec.E(6, F(v), F(q), G(v), V(1, v, q), V(2, q)); x, y := Two(); rec.E(7, x.M(), y.String()); ch := make(chan I, 1); ch <- q; rec.E(8, (<-ch).M()); ss := []fmt.Stringer{v}; rec.E(9, ss[0].String()); var k []I; k = append(k, S{3}); k = append(k, q, &P{4}, v); k = append(k, l...); rec.E(10, len(k), k[0].M(), k[1].M(), k[2].M(), k[3].M(), k[4].M(), k[5].M()); var ks []fmt.Stringer; ks = append(ks, S{1}, v); rec.E(11, ks[0].String(), ks[1].String()); ke := append([]interface{}{}, q, v, 5); rec.E(12, len(ke), int(ke[0].(Q)), ke[2].(int)); _, isq := k[1].(Q); _, iss := k[0].(S); rec.E(13, isq, iss) }"], "entry": "Main", "imports": ["fmt"]}
package p

import "verif/rec"
import "fmt"

var _ = rec.E

type T string

func (r T) M() int { return len(r) }

func (r T) String() string { return "T:" + string(r) }

type Q int

func (q Q) M() int { return int(q) }

type S struct{ A int }

func (r S) M() int { return r.A }

func (r S) String() string { return "S" }

type P struct{ A int }

func (r *P) M() int { r.A++; return r.A }

type I interface{ M() int }

type H struct{ X I; Y fmt.Stringer }

var Z = ""

func F(i I) int { return i.M() }

func G(s fmt.Stringer) string { return s.String() }

func V(k int, is ...I) int { n := k; for _, i := range is { n = n*10 + i.M() }; return n }

func Two() (a I, b fmt.Stringer) { v := T(Z + "xyz"); return v, v }

func Main() { v := T(Z + "ab"); q := Q(len(Z) + 7); l := []I{v, q}; rec.E(1, l[0].M(), l[1].M()); a := [2]I{v, q}; rec.E(2, a[0].M(), a[1].M()); m := map[string]I{"k": v}; rec.E(3, m["k"].M()); h := H{X: q, Y: v}; rec.E(4, h.X.M(), h.Y.String()); h2 := H{v, v}; rec.E(5, h2.X.M(), h2.Y.String()); rec.E(6, F(v), F(q), G(v), V(1, v, q), V(2, q)); x, y := Two(); rec.E(7, x.M(), y.String()); ch := make(chan I, 1); ch <- q; rec.E(8, (<-ch).M()); ss := []fmt.Stringer{v}; rec.E(9, ss[0].String()); var k []I; k = append(k, S{3}); k = append(k, q, &P{4}, v); k = append(k, l...); rec.E(10, len(k), k[0].M(), k[1].M(), k[2].M(), k[3].M(), k[4].M(), k[5].M()); var ks []fmt.Stringer; ks = append(ks, S{1}, v); rec.E(11, ks[0].String(), ks[1].String()); ke := append([]interface{}{}, q, v, 5); rec.E(12, len(ke), int(ke[0].(Q)), ke[2].(int)); _, isq := k[1].(Q); _, iss := k[0].(S); rec.E(13, isq, iss) }
