package c29

// Embedding shapes the standard library hardly has: the same struct type reached through
// two embedded fields at equal or at different depths, by value or by pointer, with and
// without a shallower field or method that hides the deeper ones. Compiled fixture types
// (reflect knows their exact promoted fields and method sets) are additional roots
// ("fixture <Name>"), and the "embed" operation builds struct{ A; B; [X int] } over two of
// the method-less ones with reflect.StructOf (the Universe constructors emulate embedded fields, see xtypeOf).

import (
	"encoding/json"
	"fmt"
	r "reflect"
	"sort"
	"strings"
	"testing"

	xr "github.com/cosmos72/gomacro/xreflect"
	"pgregory.net/rapid"
)

type FxLeaf struct{ X, W int }
type FxLeft struct {
	FxLeaf
	Y int
}
type FxRight struct {
	FxLeaf
	Z int
}

// X is reached twice at depth 2: ambiguous, not promoted; Y and Z are promoted
type FxDiamond struct {
	FxLeft
	FxRight
}

// a direct field hides both paths
type FxDiamondShadow struct {
	FxLeft
	FxRight
	X string
}

// the leaf is also embedded directly: depth 1 wins over the two depth-2 paths
type FxDiamondShallow struct {
	FxLeaf
	FxLeft
	FxRight
}
type FxPLeft struct {
	*FxLeaf
	Y int
}
type FxPRight struct {
	*FxLeaf
	Z int
}

// pointer embedding, equal depth
type FxPDiamond struct {
	*FxPLeft
	FxPRight
}

// three levels: the ambiguity is one level further down
type FxDeepL struct{ FxLeft }
type FxDeepR struct{ FxRight }
type FxDeepDiamond struct {
	FxDeepL
	FxDeepR
}

// unequal depths: FxLeaf.X through FxLeft is at depth 2, through FxDeepR at depth 3: no ambiguity
type FxUneven struct {
	FxLeft
	FxDeepR
}

// self reference through an embedded pointer
type FxSelf struct {
	*FxSelf
	V int
}

// two distinct leaf types with the same field name at the same depth
type FxOther struct{ X, Q int }
type FxTwoLeaves struct {
	FxLeaf
	FxOther
}

// methods: value and pointer receivers on the leaf
type FxM struct{ N int }

func (FxM) Get() int         { return 0 }
func (*FxM) Set(int)         {}
func (FxM) Only() int        { return 1 }
func (m FxM) String() string { return fmt.Sprint(m.N) }

type FxML struct {
	FxM
	A int
}
type FxMR struct {
	FxM
	B int
}

// Get, Set, Only, String are reached twice at depth 2: in no method set
type FxMDiamond struct {
	FxML
	FxMR
}

// a method of the outer type hides the ambiguous ones
type FxMDiamondShadow struct {
	FxML
	FxMR
}

func (FxMDiamondShadow) Get() int { return 2 }

// depth 1 wins
type FxMShallow struct {
	FxM
	FxML
}
type FxMDeepL struct{ FxML }
type FxMDeepR struct{ *FxMR }

// methods ambiguous at depth 3
type FxMDeepDiamond struct {
	FxMDeepL
	FxMDeepR
}

var fixtures = map[string]r.Type{
	"FxLeaf": r.TypeOf(FxLeaf{}), "FxLeft": r.TypeOf(FxLeft{}), "FxRight": r.TypeOf(FxRight{}),
	"FxDiamond": r.TypeOf(FxDiamond{}), "FxDiamondShadow": r.TypeOf(FxDiamondShadow{}),
	"FxDiamondShallow": r.TypeOf(FxDiamondShallow{}), "FxPLeft": r.TypeOf(FxPLeft{}), "FxPRight": r.TypeOf(FxPRight{}),
	"FxPDiamond": r.TypeOf(FxPDiamond{}), "FxDeepL": r.TypeOf(FxDeepL{}), "FxDeepR": r.TypeOf(FxDeepR{}),
	"FxDeepDiamond": r.TypeOf(FxDeepDiamond{}), "FxUneven": r.TypeOf(FxUneven{}), "FxSelf": r.TypeOf(FxSelf{}),
	"FxOther": r.TypeOf(FxOther{}), "FxTwoLeaves": r.TypeOf(FxTwoLeaves{}),
	"FxM": r.TypeOf(FxM{}), "FxML": r.TypeOf(FxML{}), "FxMR": r.TypeOf(FxMR{}), "FxMDiamond": r.TypeOf(FxMDiamond{}),
	"FxMDiamondShadow": r.TypeOf(FxMDiamondShadow{}), "FxMShallow": r.TypeOf(FxMShallow{}),
	"FxMDeepL": r.TypeOf(FxMDeepL{}), "FxMDeepR": r.TypeOf(FxMDeepR{}), "FxMDeepDiamond": r.TypeOf(FxMDeepDiamond{}),
}

// fixtures without methods anywhere: reflect.StructOf can embed them in any position
var plainFixtures = []string{"FxLeaf", "FxLeft", "FxRight", "FxDiamond", "FxDiamondShadow", "FxDiamondShallow",
	"FxPLeft", "FxPRight", "FxDeepL", "FxDeepR", "FxDeepDiamond", "FxUneven", "FxOther", "FxTwoLeaves"}

func fixtureDescs() []Desc {
	var l []Desc
	for _, n := range sortedKeys(fixtures) {
		l = append(l, Desc{Root: "fixture " + n})
	}
	return l
}

// embeddedName: the field name Go gives to an embedded field of type t (T or *T)
func embeddedName(t r.Type) string {
	if t.Kind() == r.Ptr {
		t = t.Elem()
	}
	return t.Name()
}

// embedFields: the fields of the "embed" operation: struct{ cur; other; [X int] }, N bit 0 adds the shadowing field
func embedFieldsR(cur, other r.Type, n int) []r.StructField {
	f := []r.StructField{
		{Name: embeddedName(cur), Type: cur, Anonymous: true},
		{Name: embeddedName(other), Type: other, Anonymous: true},
	}
	if n&1 != 0 {
		f = append(f, r.StructField{Name: "X", Type: r.TypeOf(0)})
	}
	return f
}

// ---------------------------------------------------------------- promoted fields and methods against reflect

type candidate struct {
	name    string
	pkgpath string // of an unexported name
}

// embeddedCandidates: every field name and every exported method name that occurs in a
// struct embedded (transitively, through pointers) in rt, the ambiguous ones included
func embeddedCandidates(rt r.Type) (fields []candidate, methods []string) {
	seenT := map[r.Type]bool{}
	seenF := map[candidate]bool{}
	seenM := map[string]bool{}
	var walk func(t r.Type, depth int)
	walk = func(t r.Type, depth int) {
		if t.Kind() == r.Ptr {
			t = t.Elem()
		}
		if t.Kind() != r.Struct || seenT[t] || depth > 6 {
			return
		}
		seenT[t] = true
		for i := 0; i < t.NumField(); i++ {
			f := t.Field(i)
			c := candidate{f.Name, f.PkgPath}
			if f.Name != "_" && !seenF[c] {
				seenF[c] = true
				fields = append(fields, c)
			}
			if f.Anonymous {
				ft := f.Type
				for _, mt := range []r.Type{ft, ptrIfNot(ft)} {
					for j := 0; j < mt.NumMethod(); j++ {
						if m := mt.Method(j); m.PkgPath == "" && !seenM[m.Name] {
							seenM[m.Name] = true
							methods = append(methods, m.Name)
						}
					}
				}
				walk(ft, depth+1)
			}
		}
	}
	walk(rt, 0)
	sort.Slice(fields, func(i, j int) bool {
		return fields[i].name+" "+fields[i].pkgpath < fields[j].name+" "+fields[j].pkgpath
	})
	sort.Strings(methods)
	return fields, methods
}

func ptrIfNot(t r.Type) r.Type {
	if t.Kind() == r.Ptr || t.Kind() == r.Interface {
		return t
	}
	return r.PtrTo(t)
}

func hasEmbedded(rt r.Type) bool {
	for i := 0; i < rt.NumField(); i++ {
		if rt.Field(i).Anonymous {
			return true
		}
	}
	return false
}

// comparePromoted: selection through embedded fields. reflect.Type.FieldByName finds a
// name iff exactly one field of that name exists at the shallowest depth where the name
// occurs (Go's selector rule); the interpreter type must find it under the same
// condition, with the same index path. Methods: an exported name is in the method set of
// T or *T (reflect) iff MethodByName finds exactly one.
func comparePromoted(xt xr.Type, rt r.Type, label bool, errf func(string, ...interface{})) {
	if rt.Kind() != r.Struct || !hasEmbedded(rt) {
		return
	}
	fields, methods := embeddedCandidates(rt)
	// reflect matches field names without their package: skip unexported names that occur with two packages
	pkgsOf := map[string]map[string]bool{}
	for _, c := range fields {
		if pkgsOf[c.name] == nil {
			pkgsOf[c.name] = map[string]bool{}
		}
		pkgsOf[c.name][c.pkgpath] = true
	}
	methodSet := map[string]bool{}
	for _, mt := range []r.Type{rt, r.PtrTo(rt)} {
		for j := 0; j < mt.NumMethod(); j++ {
			methodSet[mt.Method(j).Name] = true
		}
	}
	for _, c := range fields {
		if len(pkgsOf[c.name]) > 1 {
			lab(label, "excluded:unexported-field-name-of-two-packages")
			continue
		}
		rf, ok := rt.FieldByName(c.name)
		xf, n := xt.FieldByName(c.name, c.pkgpath)
		switch {
		case ok && n != 1:
			errf("FieldByName(%q): reflect finds the field at %v, interpreter type finds %d", c.name, rf.Index, n)
		case !ok && n == 1:
			errf("FieldByName(%q): reflect finds no (or no unique) field, interpreter type finds exactly one at %v", c.name, xf.Index)
		case ok:
			if fmt.Sprint(xf.Index) != fmt.Sprint(rf.Index) || xf.Name != rf.Name || !sameR(xf.Type, rf.Type) {
				errf("FieldByName(%q) = %s %v at %v, reflect %v at %v", c.name, xf.Name, xf.Type, xf.Index, rf.Type, rf.Index)
			}
			if len(rf.Index) > 1 {
				lab(label, fmt.Sprintf("promoted-field:found-depth-%d", len(rf.Index)))
				if xf.Offset != offsetOf(rt, rf.Index) && !throughPointer(rt, rf.Index) {
					errf("FieldByName(%q) offset %d, reflect %d", c.name, xf.Offset, offsetOf(rt, rf.Index))
				}
			}
		default:
			lab(label, "promoted-field:ambiguous-or-hidden")
		}
	}
	for _, name := range methods {
		_, n := xt.MethodByName(name, "")
		in := methodSet[name]
		if _, isField := rt.FieldByName(name); isField {
			// a field and a method of one name: reflect's field lookup ignores methods, the rule is not compared
			lab(label, "excluded:name-is-field-and-method")
			continue
		}
		switch {
		case in && n != 1:
			errf("MethodByName(%q) finds %d, reflect has it in a method set", name, n)
		case !in && n == 1:
			errf("MethodByName(%q) finds exactly one method, reflect has it in neither method set (ambiguous or hidden)", name)
		case in:
			lab(label, "promoted-method:in-set")
		default:
			lab(label, "promoted-method:ambiguous-or-hidden")
		}
	}
}

// offsetOf: offset of the field at an index path that crosses no pointer
func offsetOf(rt r.Type, index []int) uintptr {
	var off uintptr
	for _, i := range index {
		if rt.Kind() == r.Ptr {
			rt = rt.Elem()
		}
		f := rt.Field(i)
		off += f.Offset
		rt = f.Type
	}
	return off
}

func throughPointer(rt r.Type, index []int) bool {
	for k, i := range index {
		f := rt.Field(i)
		if k < len(index)-1 && f.Type.Kind() == r.Ptr {
			return true
		}
		rt = f.Type
		if rt.Kind() == r.Ptr {
			rt = rt.Elem()
		}
	}
	return false
}

// ---------------------------------------------------------------- the test

func genEmbedDesc(t *rapid.T) Desc {
	if rapid.IntRange(0, 3).Draw(t, "static") == 0 {
		return rapid.SampledFrom(fixtureDescs()).Draw(t, "fixture")
	}
	pick := func(label string) Desc {
		d := Desc{Root: "fixture " + rapid.SampledFrom(plainFixtures).Draw(t, label)}
		if rapid.IntRange(0, 3).Draw(t, label+"-ptr") == 0 {
			d.Ops = []Op{{Kind: "ptr"}}
		}
		return d
	}
	a := pick("a")
	b := pick("b")
	for b.Root == a.Root {
		b = pick("b")
	}
	a.Ops = append(a.Ops, Op{Kind: "embed", N: rapid.IntRange(0, 1).Draw(t, "shadow"), Other: &b})
	// wrappers around the struct: lookups resolve through one pointer
	if rapid.IntRange(0, 4).Draw(t, "wrap") == 0 {
		a.Ops = append(a.Ops, Op{Kind: "ptr"})
	}
	return a
}

func TestEmbedding(t *testing.T) {
	if !rec.ReplayOnly() {
		// every fixture once, in one long-lived universe and in a fresh one each
		u := newUniverse()
		for _, d := range fixtureDescs() {
			rt, _ := rtypeOf(d)
			rec.Eval(1)
			rec.NT(d.String())
			errs := compareType(u, u.FromReflectType(rt), rt, true)
			errs = append(errs, runCase(Case{Types: []Desc{d}}, false)...)
			if len(errs) > 0 {
				data, _ := json.MarshalIndent(Case{Types: []Desc{d}}, "", " ")
				rec.Violation("fixture:"+d.String(), data, "json", "%s", strings.Join(errs, "\n  "))
				t.Errorf("%s", strings.Join(errs, "\n  "))
			}
		}
	}
	rec.Check(t, rec.Scale(150, 2000), func(t *rapid.T) {
		n := rapid.IntRange(1, 2).Draw(t, "ntypes")
		c := Case{}
		for i := 0; i < n; i++ {
			c.Types = append(c.Types, genEmbedDesc(t))
			c.Order = append(c.Order, rapid.IntRange(0, 1).Draw(t, "order"))
		}
		for _, d := range c.Types {
			if _, err := rtypeOf(d); err == nil {
				rec.Label("embedding-case")
				rec.NT(d.String())
			}
		}
		rec.Sample(c)
		if errs := runCase(c, true); len(errs) > 0 {
			data, _ := json.MarshalIndent(c, "", " ")
			rec.Failf(t, "embedding", data, "json", "%s", strings.Join(errs, "\n  "))
		}
	})
}
