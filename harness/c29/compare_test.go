package c29

import (
	"fmt"
	r "reflect"
	"regexp"
	"strings"

	"github.com/cosmos72/gomacro/imports"
	xr "github.com/cosmos72/gomacro/xreflect"

	"verif/harness/vlib"
)

func lab(on bool, s string) {
	if on {
		rec.Label(s)
	}
}

// qualified identifier in go/types style: path.Name
var reQualified = regexp.MustCompile(`((?:[A-Za-z0-9_\-~.]+/)*[A-Za-z0-9_\-~]+(?:\.v[0-9]+)?)\.([A-Za-z_][A-Za-z0-9_]*)`)

// pkgName: the name of the package with the given path
func pkgName(path string) string {
	if p, ok := imports.Packages[path]; ok && p.Name != "" {
		return p.Name
	}
	elems := strings.Split(path, "/")
	last := elems[len(elems)-1]
	if len(elems) > 1 && regexp.MustCompile(`^v[0-9]+$`).MatchString(last) {
		last = elems[len(elems)-2]
	}
	if i := strings.Index(last, ".v"); i > 0 {
		last = last[:i]
	}
	return last
}

func pathsToNames(s string) string {
	return reQualified.ReplaceAllStringFunc(s, func(m string) string {
		sub := reQualified.FindStringSubmatch(m)
		return pkgName(sub[1]) + "." + sub[2]
	})
}

func stripQualifiers(s string) string {
	return reQualified.ReplaceAllString(s, "$2")
}

func hasLiteral(s string) bool {
	return strings.Contains(s, "struct {") || strings.Contains(s, "interface {") || strings.Contains(s, "func(") ||
		strings.Contains(s, "struct{") || strings.Contains(s, "interface{")
}

func sameR(x xr.Type, rt r.Type) bool {
	if x == nil {
		return false
	}
	if x.ReflectType() == rt {
		return true
	}
	if mentionsForward(x.ReflectType(), map[r.Type]bool{}) {
		rec.Label("excluded:component-is-emulated-recursive-type(Forward)")
		return true
	}
	return false
}

// compareType checks the attributes of one interpreter type against its reflect type.
func compareType(u *xr.Universe, xt xr.Type, rt r.Type, label bool) (errs []string) {
	errf := func(format string, args ...interface{}) {
		if len(errs) < 12 {
			errs = append(errs, fmt.Sprintf("type %v: ", rt)+fmt.Sprintf(format, args...))
		}
	}
	if p := vlib.Try(func() { compareType1(xt, rt, label, errf) }); p != nil {
		errf("panic while reading the interpreter type: %v", p)
	}
	return errs
}

func compareType1(xt xr.Type, rt r.Type, label bool, errf func(string, ...interface{})) {
	if xt == nil {
		errf("interpreter type is nil")
		return
	}
	lab(label, "kind:"+rt.Kind().String())
	if xt.Kind() != rt.Kind() {
		errf("Kind %v, reflect %v", xt.Kind(), rt.Kind())
		return
	}
	if xt.ReflectType() != rt {
		if mentionsForward(xt.ReflectType(), map[r.Type]bool{}) {
			// recursive type rebuilt from reflection (its package cannot be imported): xreflect
			// approximates it with the placeholder xreflect.Forward, i.e. an emulated type
			lab(label, "excluded:emulated-recursive-type(Forward)")
			return
		}
		errf("ReflectType() is %v", xt.ReflectType())
		return
	}
	if xt.Size() != rt.Size() || xt.Align() != rt.Align() || xt.FieldAlign() != rt.FieldAlign() {
		errf("Size/Align/FieldAlign %d/%d/%d, reflect %d/%d/%d", xt.Size(), xt.Align(), xt.FieldAlign(), rt.Size(), rt.Align(), rt.FieldAlign())
	}
	if rt.Kind() == r.UnsafePointer {
		// documented limitation (unsafe.Pointer is a predeclared basic type for xreflect; reflect reports package "unsafe")
		lab(label, "excluded:unsafe-pointer-name")
	} else if xt.Name() != rt.Name() || xt.PkgPath() != rt.PkgPath() {
		errf("Name %q PkgPath %q, reflect %q %q", xt.Name(), xt.PkgPath(), rt.Name(), rt.PkgPath())
	}
	if xt.Named() != (rt.Name() != "") {
		errf("Named() = %v, reflect name %q", xt.Named(), rt.Name())
	}
	// String
	xs, rs := xt.String(), rt.String()
	switch {
	case hasLiteral(rs) || hasLiteral(xs):
		lab(label, "excluded:string-with-type-literal")
	case pathsToNames(xs) == rs:
		lab(label, "string:equal-after-path-to-name")
	case stripQualifiers(xs) == stripQualifiers(rs):
		lab(label, "string:package-name-unresolved")
	default:
		errf("String() %q (mapped %q), reflect %q", xs, pathsToNames(xs), rs)
	}
	switch rt.Kind() {
	case r.Struct:
		if xt.NumField() != rt.NumField() {
			errf("NumField %d, reflect %d", xt.NumField(), rt.NumField())
			break
		}
		for i := 0; i < rt.NumField(); i++ {
			xf, rf := xt.Field(i), rt.Field(i)
			if xf.Name != rf.Name || xf.Offset != rf.Offset || xf.Anonymous != rf.Anonymous || xf.Tag != rf.Tag ||
				len(xf.Index) != 1 || xf.Index[0] != i {
				errf("Field(%d) = {%s offset %d anonymous %v tag %q index %v}, reflect {%s offset %d anonymous %v tag %q}",
					i, xf.Name, xf.Offset, xf.Anonymous, xf.Tag, xf.Index, rf.Name, rf.Offset, rf.Anonymous, rf.Tag)
			}
			if !sameR(xf.Type, rf.Type) {
				errf("Field(%d) %s has type %v, reflect %v", i, rf.Name, xf.Type, rf.Type)
			}
			var xp string
			if xf.Pkg != nil {
				xp = xf.Pkg.Path()
			}
			if rf.PkgPath != "" && xp != rf.PkgPath {
				errf("Field(%d) %s is unexported in package %q, reflect %q", i, rf.Name, xp, rf.PkgPath)
			}
			if rf.Anonymous {
				lab(label, "field:embedded")
			}
			// lookup by name agrees
			if rf.Name != "_" {
				yf, n := xt.FieldByName(rf.Name, rf.PkgPath)
				if n != 1 || yf.Name != rf.Name || len(yf.Index) != 1 || yf.Index[0] != i {
					errf("FieldByName(%q) = %v (count %d), want direct field %d", rf.Name, yf.Index, n, i)
				}
			}
		}
	case r.Ptr, r.Slice, r.Chan:
		if !sameR(xt.Elem(), rt.Elem()) {
			errf("Elem() %v, reflect %v", xt.Elem(), rt.Elem())
		}
		if rt.Kind() == r.Chan && xt.ChanDir() != rt.ChanDir() {
			errf("ChanDir %v, reflect %v", xt.ChanDir(), rt.ChanDir())
		}
	case r.Array:
		if !sameR(xt.Elem(), rt.Elem()) || xt.Len() != rt.Len() {
			errf("Elem()/Len() %v/%d, reflect %v/%d", xt.Elem(), xt.Len(), rt.Elem(), rt.Len())
		}
	case r.Map:
		if !sameR(xt.Elem(), rt.Elem()) || !sameR(xt.Key(), rt.Key()) {
			errf("Key()/Elem() %v/%v, reflect %v/%v", xt.Key(), xt.Elem(), rt.Key(), rt.Elem())
		}
	case r.Func:
		if xt.NumIn() != rt.NumIn() || xt.NumOut() != rt.NumOut() || xt.IsVariadic() != rt.IsVariadic() {
			errf("NumIn/NumOut/IsVariadic %d/%d/%v, reflect %d/%d/%v", xt.NumIn(), xt.NumOut(), xt.IsVariadic(), rt.NumIn(), rt.NumOut(), rt.IsVariadic())
			break
		}
		for i := 0; i < rt.NumIn(); i++ {
			if !sameR(xt.In(i), rt.In(i)) {
				errf("In(%d) %v, reflect %v", i, xt.In(i), rt.In(i))
			}
		}
		for i := 0; i < rt.NumOut(); i++ {
			if !sameR(xt.Out(i), rt.Out(i)) {
				errf("Out(%d) %v, reflect %v", i, xt.Out(i), rt.Out(i))
			}
		}
		if rt.IsVariadic() {
			lab(label, "func:variadic")
		}
	}
	compareMethods(xt, rt, label, errf)
	comparePromoted(xt, rt, label, errf)
}

// sigOf returns the parameter and result types of a func type without its first nrecv parameters
func sigOf(ft r.Type, nrecv int) string {
	var b strings.Builder
	for i := nrecv; i < ft.NumIn(); i++ {
		fmt.Fprintf(&b, "%v,", ft.In(i))
	}
	fmt.Fprintf(&b, "variadic=%v->", ft.IsVariadic())
	for i := 0; i < ft.NumOut(); i++ {
		fmt.Fprintf(&b, "%v,", ft.Out(i))
	}
	return b.String()
}

// compareMethods: every method in reflect's method sets of T and *T must be found by
// MethodByName with the same signature; every exported method the interpreter type
// lists must be in reflect's method set of T or *T. NumMethod is not compared as a number.
func compareMethods(xt xr.Type, rt r.Type, label bool, errf func(string, ...interface{})) {
	isIface := rt.Kind() == r.Interface
	type rm struct {
		sig  string
		from string
	}
	want := map[string]rm{}
	for i := 0; i < rt.NumMethod(); i++ {
		m := rt.Method(i)
		nrecv := 1
		if isIface {
			nrecv = 0
		}
		if m.PkgPath != "" {
			continue // unexported interface method: name needs its package, checked below by listing
		}
		want[m.Name] = rm{sigOf(m.Type, nrecv), "T"}
	}
	if !isIface && rt.Kind() != r.Ptr {
		pt := r.PtrTo(rt)
		for i := 0; i < pt.NumMethod(); i++ {
			m := pt.Method(i)
			if _, ok := want[m.Name]; !ok {
				want[m.Name] = rm{sigOf(m.Type, 1), "*T"}
			}
		}
	}
	if len(want) > 0 {
		lab(label, "type-with-methods")
	}
	// lookups are made on the type itself, or for a pointer type on the pointer (MethodByName resolves through it)
	for name, w := range want {
		m, n := xt.MethodByName(name, "")
		if n != 1 {
			errf("MethodByName(%q) finds %d methods, reflect has it in the method set of %s", name, n, w.from)
			continue
		}
		lab(label, "method:found-"+w.from)
		if len(m.FieldIndex) > 0 {
			lab(label, "method:promoted")
		}
		if m.Type == nil {
			errf("MethodByName(%q) has nil type", name)
			continue
		}
		mrt := m.Type.ReflectType()
		if mrt == nil || mrt.Kind() != r.Func {
			errf("MethodByName(%q) has reflect type %v", name, mrt)
			continue
		}
		if got := sigOf(mrt, 1); got != w.sig {
			errf("MethodByName(%q) signature %s, reflect %s", name, got, w.sig)
		}
	}
	// what the interpreter type lists
	if rt.Kind() == r.Ptr || (!xt.Named() && !isIface) {
		return
	}
	n := xt.NumMethod()
	for i := 0; i < n; i++ {
		m := xt.Method(i)
		if m.Name == "" || !isExportedName(m.Name) {
			continue
		}
		if _, ok := want[m.Name]; !ok {
			errf("Method(%d) %s is listed but is in neither reflect method set", i, m.Name)
		}
	}
	if isIface && n != rt.NumMethod() {
		errf("interface NumMethod %d, reflect %d", n, rt.NumMethod())
	}
}

func isExportedName(s string) bool { return s != "" && s[0] >= 'A' && s[0] <= 'Z' }

// comparePair checks the four predicates on (a, b) against reflect.
func comparePair(xa xr.Type, ra r.Type, xb xr.Type, rb r.Type, label bool) (errs []string) {
	errf := func(format string, args ...interface{}) {
		if len(errs) < 6 {
			errs = append(errs, fmt.Sprintf("pair (%v, %v): ", ra, rb)+fmt.Sprintf(format, args...))
		}
	}
	if xa == nil || xb == nil || xa.ReflectType() != ra || xb.ReflectType() != rb {
		return nil // already reported by compareType
	}
	if ra.Kind() == r.UnsafePointer || rb.Kind() == r.UnsafePointer {
		// the two oracles disagree (go/types: pointers convert to unsafe.Pointer, reflect: they do not) and
		// unsafe.Pointer is a documented limitation of gomacro
		lab(label, "excluded:unsafe-pointer-pair")
		return nil
	}
	if label {
		rec.Eval(1) // every ordered pair compared is a case of its own
		if cl := arrayLenClass(ra, rb); cl != "" {
			rec.Label("pair:array-len-" + cl)
			rec.NT("pair|" + ra.String() + "|" + rb.String())
		}
	}
	p := vlib.Try(func() {
		identical := ra == rb
		if got := xa.IdenticalTo(xb); got != identical {
			errf("IdenticalTo %v, reflect types equal: %v", got, identical)
		}
		check := func(name string, got, want bool) {
			if got != want {
				errf("%s = %v, reflect %v", name, got, want)
			}
			if want && !identical {
				lab(label, "pair-true:"+name)
				if label {
					rec.NT("pair|" + ra.String() + "|" + rb.String()) // one key per ordered pair, whatever the predicate
				}
			} else {
				lab(label, fmt.Sprintf("pair-%v:%s", want, name))
			}
		}
		check("AssignableTo", xa.AssignableTo(xb), ra.AssignableTo(rb))
		check("ConvertibleTo", xa.ConvertibleTo(xb), ra.ConvertibleTo(rb))
		if ra == rb {
			check("Comparable", xa.Comparable(), ra.Comparable())
		}
		if rb.Kind() == r.Interface {
			check("Implements", xa.Implements(xb), ra.Implements(rb))
		}
	})
	if p != nil {
		errf("panic: %v", p)
	}
	return errs
}

var rtypeOfForward = r.TypeOf((*xr.Forward)(nil)).Elem()

func mentionsForward(rt r.Type, seen map[r.Type]bool) bool {
	if rt == nil || seen[rt] {
		return false
	}
	seen[rt] = true
	if rt == rtypeOfForward {
		return true
	}
	switch rt.Kind() {
	case r.Ptr, r.Slice, r.Array, r.Chan:
		return mentionsForward(rt.Elem(), seen)
	case r.Map:
		return mentionsForward(rt.Key(), seen) || mentionsForward(rt.Elem(), seen)
	case r.Func:
		for i := 0; i < rt.NumIn(); i++ {
			if mentionsForward(rt.In(i), seen) {
				return true
			}
		}
		for i := 0; i < rt.NumOut(); i++ {
			if mentionsForward(rt.Out(i), seen) {
				return true
			}
		}
	case r.Struct:
		if rt.Name() != "" {
			return false
		}
		for i := 0; i < rt.NumField(); i++ {
			if mentionsForward(rt.Field(i).Type, seen) {
				return true
			}
		}
	}
	return false
}

// reachesGeneric: does FromReflectType(rt) have to translate an instantiated generic
// type? It recurses through unnamed composites and through named types of packages
// outside the standard library (rebuilt from reflection), and stops at named
// standard-library types (taken from go/types). Generic types are not supported by
// gomacro's importer ("importing generic functions or types is not supported yet").
func reachesGeneric(rt r.Type, seen map[r.Type]bool) bool {
	if rt == nil || seen[rt] {
		return false
	}
	seen[rt] = true
	if strings.Contains(rt.Name(), "[") {
		return true
	}
	if rt.Name() != "" {
		if first := strings.SplitN(rt.PkgPath(), "/", 2)[0]; !strings.Contains(first, ".") && rt.PkgPath() != "" && !strings.HasPrefix(rt.PkgPath(), "verif/") {
			return false // named standard-library type
		}
	}
	switch rt.Kind() {
	case r.Ptr, r.Slice, r.Array, r.Chan:
		return reachesGeneric(rt.Elem(), seen)
	case r.Map:
		return reachesGeneric(rt.Key(), seen) || reachesGeneric(rt.Elem(), seen)
	case r.Func:
		for i := 0; i < rt.NumIn(); i++ {
			if reachesGeneric(rt.In(i), seen) {
				return true
			}
		}
		for i := 0; i < rt.NumOut(); i++ {
			if reachesGeneric(rt.Out(i), seen) {
				return true
			}
		}
	case r.Struct:
		for i := 0; i < rt.NumField(); i++ {
			if reachesGeneric(rt.Field(i).Type, seen) {
				return true
			}
		}
	case r.Interface:
		for i := 0; i < rt.NumMethod(); i++ {
			if reachesGeneric(rt.Method(i).Type, seen) {
				return true
			}
		}
	}
	return false
}

func isStdNamed(rt r.Type) bool {
	if rt.Name() == "" || rt.PkgPath() == "" {
		return rt.Name() != "" // predeclared
	}
	first := strings.SplitN(rt.PkgPath(), "/", 2)[0]
	return !strings.Contains(first, ".") && !strings.HasPrefix(rt.PkgPath(), "verif/")
}

// children of a reflect type (what FromReflectType walks when it rebuilds a type from reflection)
func rchildren(rt r.Type) []r.Type {
	var l []r.Type
	switch rt.Kind() {
	case r.Ptr, r.Slice, r.Array, r.Chan:
		l = append(l, rt.Elem())
	case r.Map:
		l = append(l, rt.Key(), rt.Elem())
	case r.Func:
		for i := 0; i < rt.NumIn(); i++ {
			l = append(l, rt.In(i))
		}
		for i := 0; i < rt.NumOut(); i++ {
			l = append(l, rt.Out(i))
		}
	case r.Struct:
		for i := 0; i < rt.NumField(); i++ {
			l = append(l, rt.Field(i).Type)
		}
	case r.Interface:
		for i := 0; i < rt.NumMethod(); i++ {
			l = append(l, rt.Method(i).Type)
		}
	}
	return l
}

// isRecursive: the named type t reaches itself without passing through a named
// standard-library type (those come from go/types, not from reflection)
func isRecursive(t r.Type) bool {
	seen := map[r.Type]bool{}
	var walk func(x r.Type) bool
	walk = func(x r.Type) bool {
		for _, c := range rchildren(x) {
			if c == t {
				return true
			}
			if seen[c] || isStdNamed(c) {
				continue
			}
			seen[c] = true
			if walk(c) {
				return true
			}
		}
		return false
	}
	return walk(t)
}

// reachesEmulatedRecursive: rt is an unnamed composite over a recursive named type of a
// package the importer cannot load: xreflect rebuilds such a type from reflection with the
// placeholder xreflect.Forward (its emulation of recursive types), and composites over it
// are approximations (ReflectType() []xreflect.Forward, cache entries replaced).
func reachesEmulatedRecursive(rt r.Type) bool {
	if rt.Name() != "" {
		return false
	}
	seen := map[r.Type]bool{}
	var walk func(x r.Type) bool
	walk = func(x r.Type) bool {
		for _, c := range rchildren(x) {
			if seen[c] || isStdNamed(c) {
				continue
			}
			seen[c] = true
			if c.Name() != "" && isRecursive(c) {
				return true
			}
			if walk(c) {
				return true
			}
		}
		return false
	}
	return walk(rt)
}

// arrayLenClass: "" unless ra and rb have the same structure and differ only in array
// lengths; then the class of the first differing lengths (left vs right): "0-vs-n",
// "n-vs-0" or "m-vs-n". Such pairs are the boundary cases of type identity.
func arrayLenClass(ra, rb r.Type) string {
	if ra == rb {
		return ""
	}
	la, lb, ok := lenDiff(ra, rb, 0)
	if !ok || la == lb {
		return ""
	}
	switch {
	case la == 0:
		return "0-vs-n"
	case lb == 0:
		return "n-vs-0"
	}
	return "m-vs-n"
}

// lenDiff walks two reflect types in lockstep; ok = same structure up to array lengths;
// la, lb = the first pair of differing lengths (equal when none differs).
func lenDiff(a, b r.Type, depth int) (la, lb int, ok bool) {
	if a == b {
		return 0, 0, true
	}
	if depth > 6 || a.Kind() != b.Kind() || a.Name() != "" || b.Name() != "" {
		return 0, 0, false
	}
	merge := func(xs, ys []r.Type) (int, int, bool) {
		if len(xs) != len(ys) {
			return 0, 0, false
		}
		fa, fb := 0, 0
		for i := range xs {
			x, y, ok := lenDiff(xs[i], ys[i], depth+1)
			if !ok {
				return 0, 0, false
			}
			if fa == fb {
				fa, fb = x, y
			}
		}
		return fa, fb, true
	}
	switch a.Kind() {
	case r.Array:
		x, y, ok := lenDiff(a.Elem(), b.Elem(), depth+1)
		if !ok {
			return 0, 0, false
		}
		if a.Len() != b.Len() {
			return a.Len(), b.Len(), true
		}
		return x, y, true
	case r.Chan:
		if a.ChanDir() != b.ChanDir() {
			return 0, 0, false
		}
		return lenDiff(a.Elem(), b.Elem(), depth+1)
	case r.Ptr, r.Slice:
		return lenDiff(a.Elem(), b.Elem(), depth+1)
	case r.Map:
		return merge([]r.Type{a.Key(), a.Elem()}, []r.Type{b.Key(), b.Elem()})
	case r.Func:
		if a.IsVariadic() != b.IsVariadic() || a.NumIn() != b.NumIn() || a.NumOut() != b.NumOut() {
			return 0, 0, false
		}
		return merge(rchildren(a), rchildren(b))
	case r.Struct:
		if a.NumField() != b.NumField() {
			return 0, 0, false
		}
		for i := 0; i < a.NumField(); i++ {
			fa, fb := a.Field(i), b.Field(i)
			if fa.Name != fb.Name || fa.Anonymous != fb.Anonymous || fa.Tag != fb.Tag || fa.PkgPath != fb.PkgPath {
				return 0, 0, false
			}
		}
		return merge(rchildren(a), rchildren(b))
	}
	return 0, 0, false
}
