// C29: interpreter types (xreflect) are canonical and agree with reflect and Go typing rules.
// Oracle: package reflect (standard-library twin) on the same compiled types.
package c29

import (
	"encoding/json"
	"fmt"
	"go/importer"
	"go/token"
	gotypes "go/types"
	"io"
	"os"
	"os/exec"
	r "reflect"
	"sort"
	"strings"
	"testing"
	"unsafe"

	"github.com/cosmos72/gomacro/imports"
	xr "github.com/cosmos72/gomacro/xreflect"
	"pgregory.net/rapid"

	"verif/harness/vlib"
)

var rec *vlib.Rec

func TestMain(m *testing.M) {
	rec = vlib.Open("C29")
	rec.Rule("cases = reflect types: every type of imports.Packages (declared types, types of bound values) of a seed-stratified subset of packages (thorough: all) plus what they reach " +
		"through one step of elem/key/field/param/result/method; rapid-drawn composites (ptr, slice, array, chan x3, map, func, variadic func, struct) of depth 1-4 over them, built twice: " +
		"from reflect and from components with the Universe constructors, in drawn order, in a fresh Universe; predicate pairs (type x pool of interfaces, basics and neighbours). " +
		"A case is non-trivial when the type is a struct with an embedded field or has >= 1 method, or when a predicate answers true for a non-identical pair; distinct = distinct type descriptions / pairs")
	rec.Assume("oracle: package reflect applied to the same compiled types (sizes, offsets, method sets, AssignableTo/ConvertibleTo/Comparable/Implements)")
	rec.Assume("all types are compiled (reflect) types: no emulated named/recursive/interface types are created, as the property restricts the comparison to non-emulated types")
	rec.Assume("String() is compared after mapping package paths (xreflect, go/types style) to package names (reflect style), only for types whose text has no struct/interface/func literal; NumMethod is not compared as a number (DESIGN.md C29)")
	known = func(id string) bool {
		return rec.Known(id) && id != unmask && os.Getenv("VERIF_C29_IGNORE_KNOWN") == ""
	}
	os.Exit(vlib.Main(m, rec))
}

var known = func(id string) bool { return false }
var unmask string

// ---------------------------------------------------------------- type descriptions (plain, replayable)

// Desc describes a reflect type: a root taken from the import tables (or a basic type)
// and a list of operations applied to it.
type Desc struct {
	Root string `json:"root"` // "type <pkgpath> <Name>", "bind <pkgpath> <Name>", "basic <kind>"
	Ops  []Op   `json:"ops,omitempty"`
}

// Op: navigation ("elem","key","field","in","out","method") or construction
// ("ptr","slice","array","chan","map" (key = Other, elem = current), "mapkey" (key = current, elem = Other),
// "func" (func(current, Other) current), "vfunc" (func(Other, ...current)), "struct" (struct{A current; B Other})).
type Op struct {
	Kind  string `json:"op"`
	N     int    `json:"n,omitempty"`
	Other *Desc  `json:"other,omitempty"`
}

func (d Desc) String() string {
	s := d.Root
	for _, op := range d.Ops {
		s += " " + op.Kind
		if op.N != 0 {
			s += fmt.Sprint(":", op.N)
		}
		if op.Other != nil {
			s += "(" + op.Other.String() + ")"
		}
	}
	return s
}

var basics = map[string]r.Type{
	"bool": r.TypeOf(false), "int": r.TypeOf(0), "int8": r.TypeOf(int8(0)), "int16": r.TypeOf(int16(0)),
	"int32": r.TypeOf(int32(0)), "int64": r.TypeOf(int64(0)), "uint": r.TypeOf(uint(0)), "uint8": r.TypeOf(uint8(0)),
	"uint16": r.TypeOf(uint16(0)), "uint32": r.TypeOf(uint32(0)), "uint64": r.TypeOf(uint64(0)), "uintptr": r.TypeOf(uintptr(0)),
	"float32": r.TypeOf(float32(0)), "float64": r.TypeOf(float64(0)), "complex64": r.TypeOf(complex64(0)),
	"complex128": r.TypeOf(complex128(0)), "string": r.TypeOf(""), "error": r.TypeOf((*error)(nil)).Elem(),
	"interface": r.TypeOf((*interface{})(nil)).Elem(),
}

func rootType(root string) (r.Type, error) {
	f := strings.Fields(root)
	if len(f) == 2 && f[0] == "basic" {
		if t, ok := basics[f[1]]; ok {
			return t, nil
		}
		return nil, fmt.Errorf("unknown basic %q", f[1])
	}
	if len(f) == 2 && f[0] == "fixture" {
		if t, ok := fixtures[f[1]]; ok {
			return t, nil
		}
		return nil, fmt.Errorf("unknown fixture %q", f[1])
	}
	if len(f) != 3 {
		return nil, fmt.Errorf("bad root %q", root)
	}
	pkg, ok := imports.Packages[f[1]]
	if !ok {
		return nil, fmt.Errorf("no package %q in imports.Packages", f[1])
	}
	switch f[0] {
	case "type":
		if t, ok := pkg.Types[f[2]]; ok {
			return t, nil
		}
	case "bind":
		if v, ok := pkg.Binds[f[2]]; ok && v.IsValid() {
			return v.Type(), nil
		}
	}
	return nil, fmt.Errorf("root %q not found", root)
}

// rtypeOf builds the reflect type of a description (reflect side only).
func rtypeOf(d Desc) (t r.Type, err error) {
	defer func() {
		if p := recover(); p != nil {
			err = fmt.Errorf("reflect cannot build %v: %v", d, p)
		}
	}()
	t, err = rootType(d.Root)
	if err != nil {
		return nil, err
	}
	for _, op := range d.Ops {
		var o r.Type
		if op.Other != nil {
			if o, err = rtypeOf(*op.Other); err != nil {
				return nil, err
			}
		}
		switch op.Kind {
		case "elem":
			t = t.Elem()
		case "key":
			t = t.Key()
		case "field":
			t = t.Field(op.N).Type
		case "in":
			t = t.In(op.N)
		case "out":
			t = t.Out(op.N)
		case "method":
			t = t.Method(op.N).Type
		case "ptr":
			t = r.PtrTo(t)
		case "slice":
			t = r.SliceOf(t)
		case "array":
			t = r.ArrayOf(op.N, t)
		case "chan":
			t = r.ChanOf(r.ChanDir(op.N), t)
		case "map":
			t = r.MapOf(o, t)
		case "mapkey":
			t = r.MapOf(t, o)
		case "func":
			t = r.FuncOf([]r.Type{t, o}, []r.Type{t}, false)
		case "vfunc":
			t = r.FuncOf([]r.Type{o, r.SliceOf(t)}, nil, true)
		case "struct":
			t = r.StructOf([]r.StructField{{Name: "A", Type: t}, {Name: "B", Type: o}})
		case "embed":
			t = r.StructOf(embedFieldsR(t, o, op.N))
		default:
			return nil, fmt.Errorf("bad op %q", op.Kind)
		}
	}
	return t, nil
}

// xtypeOf builds the same type with the Universe: navigation ops are done on the
// reflect side, the remaining (construction) ops with the Universe constructors.
func xtypeOf(u *xr.Universe, d Desc) (t xr.Type, err error) {
	defer func() {
		if p := recover(); p != nil {
			err = fmt.Errorf("panic: %v", p)
		}
	}()
	nav := 0
	for i, op := range d.Ops {
		switch op.Kind {
		case "elem", "key", "field", "in", "out", "method":
			nav = i + 1
		case "embed":
			// Universe.StructOf deliberately never builds reflect structs with embedded fields (it
			// emulates them): a struct with embedded fields is a non-emulated type only when it
			// comes from reflect, so this step is taken on the reflect side
			nav = i + 1
		}
	}
	base, err := rtypeOf(Desc{Root: d.Root, Ops: d.Ops[:nav]})
	if err != nil {
		return nil, err
	}
	t = u.FromReflectType(base)
	for _, op := range d.Ops[nav:] {
		var o xr.Type
		if op.Other != nil {
			if o, err = xtypeOf(u, *op.Other); err != nil {
				return nil, err
			}
		}
		switch op.Kind {
		case "ptr":
			t = u.PtrTo(t)
		case "slice":
			t = u.SliceOf(t)
		case "array":
			t = u.ArrayOf(op.N, t)
		case "chan":
			t = u.ChanOf(r.ChanDir(op.N), t)
		case "map":
			t = u.MapOf(o, t)
		case "mapkey":
			t = u.MapOf(t, o)
		case "func":
			t = u.FuncOf([]xr.Type{t, o}, []xr.Type{t}, false)
		case "vfunc":
			t = u.FuncOf([]xr.Type{o, u.SliceOf(t)}, nil, true)
		case "struct":
			t = u.StructOf([]xr.StructField{{Name: "A", Type: t}, {Name: "B", Type: o}})
		default:
			return nil, fmt.Errorf("bad op %q", op.Kind)
		}
	}
	return t, nil
}

// ---------------------------------------------------------------- universes

var sharedImporter = fastImporter()

// fastImporter: xreflect.DefaultImporter() asks importer.Default() for the go/types
// description of a package, which runs one `go list -export` per package and per
// dependency (0.3-1 s each). The harness swaps that standard-library importer (not gomacro
// code) for an equivalent one reading the same gc export data, located by ONE
// `go list -export std` run. Packages outside the standard library are not found, as
// happens with the default importer when the process does not run inside their module.
func fastImporter() *xr.Importer {
	imp := xr.DefaultImporter()
	cmd := exec.Command("go", "list", "-export", "-f", "{{.ImportPath}}\t{{.Export}}", "std")
	cmd.Dir = os.TempDir()
	out, err := cmd.Output()
	if err != nil {
		fmt.Fprintln(os.Stderr, "c29: go list -export std failed, keeping the default importer:", err)
		return imp
	}
	export := map[string]string{}
	for _, line := range strings.Split(strings.TrimSpace(string(out)), "\n") {
		if f := strings.SplitN(line, "\t", 2); len(f) == 2 && f[1] != "" {
			export[f[0]] = f[1]
		}
	}
	lookup := func(path string) (io.ReadCloser, error) {
		if f, ok := export[path]; ok {
			return os.Open(f)
		}
		return nil, fmt.Errorf("no export data for %q", path)
	}
	std := importer.ForCompiler(token.NewFileSet(), "gc", lookup).(gotypes.ImporterFrom)
	f := r.ValueOf(imp).Elem().FieldByName("from")
	if !f.IsValid() {
		fmt.Fprintln(os.Stderr, "c29: xreflect.Importer has no field 'from', keeping the default importer")
		return imp
	}
	r.NewAt(f.Type(), unsafe.Pointer(f.UnsafeAddr())).Elem().Set(r.ValueOf(std))
	return imp
}

// newUniverse: a fresh type cache; the package importer (and its converted packages) is
// shared, as loading a package costs one `go list` run.
func newUniverse() *xr.Universe {
	u := xr.NewUniverse()
	u.Importer = sharedImporter
	return u
}

// ---------------------------------------------------------------- one case

type Case struct {
	Types  []Desc `json:"types"`
	Order  []int  `json:"order,omitempty"`  // per type: 0 reflect first, 1 components first
	Unmask string `json:"unmask,omitempty"` // replay of this known finding: its exclusion is off
}

type udKey struct{}

// sameObject: the two values denote the same type object of the universe
func sameObject(a, b xr.Type, token interface{}) bool {
	if a == nil || b == nil {
		return false
	}
	if a.GoType() != b.GoType() {
		return false
	}
	a.SetUserData(udKey{}, token)
	got, ok := b.GetUserData(udKey{})
	return ok && got == token
}

func runCase(c Case, label bool) (errs []string) {
	u := newUniverse()
	var xts []xr.Type
	var rts []r.Type
	for i, d := range c.Types {
		rt, err := rtypeOf(d)
		if err != nil {
			return nil // not constructible by reflect: outside the domain
		}
		if reachesGeneric(rt, map[r.Type]bool{}) {
			if label {
				rec.Label("excluded:generic-instantiation")
			}
			continue
		}
		if reachesEmulatedRecursive(rt) {
			if label {
				rec.Label("excluded:composite-over-emulated-recursive-type")
			}
			continue
		}
		order := 0
		if i < len(c.Order) {
			order = c.Order[i]
		}
		var viaReflect, viaParts xr.Type
		var e1, e2 error
		build := func(k int) {
			if k == 0 {
				if p := vlib.Try(func() { viaReflect = u.FromReflectType(rt) }); p != nil {
					e1 = fmt.Errorf("panic: %v", p)
				}
			} else {
				viaParts, e2 = xtypeOf(u, d)
			}
		}
		build(order)
		build(1 - order)
		if e1 != nil {
			errs = append(errs, fmt.Sprintf("%v: FromReflectType(%v) fails: %v", d, rt, e1))
			continue
		}
		if e2 != nil {
			errs = append(errs, fmt.Sprintf("%v: building %v from components fails: %v", d, rt, e2))
			continue
		}
		again := u.FromReflectType(rt)
		if !sameObject(viaReflect, again, &i) {
			errs = append(errs, fmt.Sprintf("%v: FromReflectType(%v) twice gives two type objects (%v / %v)", d, rt, viaReflect, again))
		}
		if !sameObject(viaReflect, viaParts, &rt) || !viaReflect.IdenticalTo(viaParts) {
			errs = append(errs, fmt.Sprintf("%v: %v from reflect and from components (order %d) are two type objects: %v / %v", d, rt, order, viaReflect, viaParts))
		}
		if viaParts.ReflectType() != rt && !mentionsForward(viaParts.ReflectType(), map[r.Type]bool{}) {
			errs = append(errs, fmt.Sprintf("%v: built from components has reflect type %v, want %v", d, viaParts.ReflectType(), rt))
		}
		errs = append(errs, compareType(u, viaReflect, rt, label)...)
		xts = append(xts, viaReflect)
		rts = append(rts, rt)
	}
	for i := range xts {
		for j := range xts {
			errs = append(errs, comparePair(xts[i], rts[i], xts[j], rts[j], label)...)
		}
	}
	return errs
}

func replay(content []byte) error {
	var c Case
	if err := json.Unmarshal(content, &c); err != nil || len(c.Types) == 0 {
		return nil
	}
	unmask = c.Unmask
	defer func() { unmask = "" }()
	if errs := runCase(c, false); len(errs) > 0 {
		return fmt.Errorf("%s", strings.Join(errs, "\n  "))
	}
	return nil
}

func TestReplays(t *testing.T) {
	rec.RunReplays(t, replay)
}

// ---------------------------------------------------------------- the table types

func pkgPaths() []string {
	var l []string
	for p := range imports.Packages {
		l = append(l, p)
	}
	sort.Strings(l)
	return l
}

func sortedKeys[V any](m map[string]V) []string {
	var l []string
	for k := range m {
		l = append(l, k)
	}
	sort.Strings(l)
	return l
}

// roots of one package: declared types and types of bound values
func pkgRoots(path string) []Desc {
	pkg := imports.Packages[path]
	var l []Desc
	for _, n := range sortedKeys(pkg.Types) {
		l = append(l, Desc{Root: "type " + path + " " + n})
	}
	for _, n := range sortedKeys(pkg.Binds) {
		if v := pkg.Binds[n]; v.IsValid() {
			l = append(l, Desc{Root: "bind " + path + " " + n})
		}
	}
	return l
}

// neighbours: what a type reaches in one navigation step (plus pointer to it)
func neighbours(d Desc, rt r.Type) []Desc {
	var l []Desc
	add := func(op Op) {
		nd := Desc{Root: d.Root, Ops: append(append([]Op(nil), d.Ops...), op)}
		l = append(l, nd)
	}
	switch rt.Kind() {
	case r.Ptr, r.Slice, r.Array, r.Chan:
		add(Op{Kind: "elem"})
	case r.Map:
		add(Op{Kind: "elem"})
		add(Op{Kind: "key"})
	case r.Struct:
		for i := 0; i < rt.NumField() && i < 6; i++ {
			add(Op{Kind: "field", N: i})
		}
	case r.Func:
		for i := 0; i < rt.NumIn() && i < 3; i++ {
			add(Op{Kind: "in", N: i})
		}
		for i := 0; i < rt.NumOut() && i < 2; i++ {
			add(Op{Kind: "out", N: i})
		}
	}
	if rt.Kind() != r.Interface {
		for i := 0; i < rt.NumMethod() && i < 3; i++ {
			add(Op{Kind: "method", N: i})
		}
	}
	if len(d.Ops) == 0 && rt.Kind() != r.Ptr {
		add(Op{Kind: "ptr"})
	}
	return l
}

func pickPackages() []string {
	all := pkgPaths()
	if rec.Thorough() {
		return all
	}
	// seed-stratified: every k-th package, offset by the seed (k = 3: with the export-data
	// importer of fastImporter a package costs milliseconds, so a third of them fits the quick budget on a loaded machine)
	k := 3
	var l []string
	for i, p := range all {
		if (i+int(rec.Seed()))%k == 0 {
			l = append(l, p)
		}
	}
	return l
}

func TestTableTypes(t *testing.T) {
	if rec.ReplayOnly() {
		return
	}
	pkgs := pickPackages()
	rec.LabelN("packages-selected", len(pkgs)/rec.NShards())
	u := newUniverse() // one long-lived universe, as an interpreter has
	seen := map[r.Type]bool{}
	nviol := 0
	for i, path := range pkgs {
		if !rec.Mine(i) {
			continue
		}
		roots := pkgRoots(path)
		var work []Desc
		for _, d := range roots {
			work = append(work, d)
			if rt, err := rtypeOf(d); err == nil {
				work = append(work, neighbours(d, rt)...)
			}
		}
		for _, d := range work {
			rt, err := rtypeOf(d)
			if err != nil || seen[rt] {
				continue
			}
			seen[rt] = true
			if reachesGeneric(rt, map[r.Type]bool{}) {
				rec.Label("excluded:generic-instantiation")
				continue
			}
			if reachesEmulatedRecursive(rt) {
				rec.Label("excluded:composite-over-emulated-recursive-type")
				continue
			}
			rec.Eval(1)
			var errs []string
			var xt xr.Type
			if p := vlib.Try(func() { xt = u.FromReflectType(rt) }); p != nil {
				errs = append(errs, fmt.Sprintf("%v: FromReflectType(%v) panics: %v", d, rt, p))
			} else {
				again := u.FromReflectType(rt)
				if !sameObject(xt, again, &errs) {
					errs = append(errs, fmt.Sprintf("%v: FromReflectType(%v) twice gives two type objects", d, rt))
				}
				errs = append(errs, compareType(u, xt, rt, true)...)
				for _, pd := range poolDescs {
					prt, _ := rtypeOf(pd)
					pxt := u.FromReflectType(prt)
					errs = append(errs, comparePair(xt, rt, pxt, prt, true)...)
					errs = append(errs, comparePair(pxt, prt, xt, rt, true)...)
				}
			}
			if nontrivialType(rt) {
				rec.NT(d.String())
			}
			if len(errs) > 0 && nviol < 5 {
				nviol++
				c := Case{Types: []Desc{d}}
				data, _ := json.MarshalIndent(c, "", " ")
				// confirm in a fresh universe; if it does not reproduce there the long-lived universe matters: keep the message
				rec.Violation("table:"+d.String(), data, "json", "%s", strings.Join(errs, "\n  "))
				t.Errorf("%s", strings.Join(errs, "\n  "))
			}
		}
	}
}

// pool of second operands for the predicates
var poolDescs = []Desc{
	{Root: "basic interface"}, {Root: "basic error"}, {Root: "basic int"}, {Root: "basic string"}, {Root: "basic uint8"},
	{Root: "basic float64"}, {Root: "basic int64"},
	{Root: "basic uint8", Ops: []Op{{Kind: "slice"}}},
	{Root: "basic int32", Ops: []Op{{Kind: "slice"}}},
	{Root: "basic int", Ops: []Op{{Kind: "array", N: 0}}}, {Root: "basic int", Ops: []Op{{Kind: "array", N: 1}}},
	{Root: "basic uint8", Ops: []Op{{Kind: "array", N: 0}}}, {Root: "basic uint8", Ops: []Op{{Kind: "array", N: 2}}},
	{Root: "basic uint8", Ops: []Op{{Kind: "array", N: 16}}}, {Root: "basic string", Ops: []Op{{Kind: "array", N: 0}}},
	{Root: "basic uint8", Ops: []Op{{Kind: "array", N: 0}, {Kind: "ptr"}}}, {Root: "basic uint8", Ops: []Op{{Kind: "array", N: 0}, {Kind: "slice"}}},
	{Root: "type io Reader"}, {Root: "type io Writer"}, {Root: "type io ReadWriter"}, {Root: "type io Closer"}, {Root: "type io ReadCloser"},
	{Root: "type fmt Stringer"}, {Root: "type sort Interface"}, {Root: "type time Duration"}, {Root: "type time Time"},
	{Root: "type os File", Ops: []Op{{Kind: "ptr"}}}, {Root: "type bytes Buffer", Ops: []Op{{Kind: "ptr"}}},
	{Root: "type net Conn"}, {Root: "type net Addr"}, {Root: "type reflect Type"}, {Root: "type hash Hash"},
	{Root: "type encoding BinaryMarshaler"}, {Root: "type encoding/json Marshaler"}, {Root: "type flag Value"},
	{Root: "type strings Builder", Ops: []Op{{Kind: "ptr"}}}, {Root: "type io/fs FileInfo"}, {Root: "type io/fs FileMode"},
	{Root: "type net IP"}, {Root: "type os FileMode"}, {Root: "type context Context"},
}

func nontrivialType(rt r.Type) bool {
	if rt.NumMethod() > 0 || (rt.Kind() != r.Ptr && rt.Kind() != r.Interface && r.PtrTo(rt).NumMethod() > 0) {
		return true
	}
	if rt.Kind() == r.Struct {
		for i := 0; i < rt.NumField(); i++ {
			if rt.Field(i).Anonymous {
				return true
			}
		}
	}
	return false
}

// ---------------------------------------------------------------- rapid: composites built both ways in fresh universes

var allRoots []Desc

func roots() []Desc {
	if allRoots == nil {
		for _, p := range pickPackages() {
			allRoots = append(allRoots, pkgRoots(p)...)
		}
		for _, b := range sortedKeys(basics) {
			allRoots = append(allRoots, Desc{Root: "basic " + b})
		}
	}
	return allRoots
}

func genDesc(t *rapid.T, depth int, label string) Desc {
	var d Desc
	if rapid.IntRange(0, 3).Draw(t, label+"-basic") == 0 {
		d = Desc{Root: "basic " + rapid.SampledFrom(sortedKeys(basics)).Draw(t, label+"-b")}
	} else if rapid.Bool().Draw(t, label+"-pool") {
		d = rapid.SampledFrom(poolDescs).Draw(t, label+"-p")
		d.Ops = append([]Op(nil), d.Ops...)
	} else {
		d = rapid.SampledFrom(roots()).Draw(t, label+"-root")
	}
	n := rapid.IntRange(0, depth).Draw(t, label+"-n")
	for i := 0; i < n; i++ {
		k := rapid.SampledFrom([]string{"ptr", "slice", "array", "chan", "map", "mapkey", "func", "vfunc", "struct", "elem", "field", "method"}).Draw(t, label+"-op")
		op := Op{Kind: k}
		rt, err := rtypeOf(d)
		if err != nil {
			break
		}
		switch k {
		case "array":
			op.N = rapid.SampledFrom([]int{0, 1, 3, 7}).Draw(t, label+"-len")
			if rt.Size() > 1<<16 {
				continue
			}
		case "chan":
			op.N = rapid.SampledFrom([]int{int(r.RecvDir), int(r.SendDir), int(r.BothDir)}).Draw(t, label+"-dir")
			if rt.Size() > 1<<15 {
				continue // reflect.ChanOf rejects large elements
			}
		case "map", "mapkey", "func", "vfunc", "struct":
			o := genDesc(t, depth-1-i, label+"o")
			op.Other = &o
			ort, err := rtypeOf(o)
			if err != nil {
				continue
			}
			if k == "map" && !ort.Comparable() || k == "mapkey" && !rt.Comparable() {
				continue
			}
		case "elem":
			switch rt.Kind() {
			case r.Ptr, r.Slice, r.Array, r.Chan, r.Map:
			default:
				continue
			}
		case "field":
			if rt.Kind() != r.Struct || rt.NumField() == 0 {
				continue
			}
			op.N = rapid.IntRange(0, rt.NumField()-1).Draw(t, label+"-fi")
		case "method":
			if rt.Kind() == r.Interface || rt.NumMethod() == 0 {
				continue
			}
			op.N = rapid.IntRange(0, rt.NumMethod()-1).Draw(t, label+"-mi")
		}
		// navigation after a construction is folded away by building: keep descriptions normal (navigation first)
		if (k == "elem" || k == "field" || k == "method") && hasConstruction(d.Ops) {
			continue
		}
		nd := Desc{Root: d.Root, Ops: append(append([]Op(nil), d.Ops...), op)}
		if _, err := rtypeOf(nd); err != nil {
			continue
		}
		d = nd
	}
	return d
}

func hasConstruction(ops []Op) bool {
	for _, op := range ops {
		switch op.Kind {
		case "elem", "key", "field", "in", "out", "method":
		default:
			return true
		}
	}
	return false
}

func TestComposites(t *testing.T) {
	rec.Check(t, rec.Scale(250, 3000), func(t *rapid.T) {
		n := rapid.IntRange(1, 3).Draw(t, "ntypes")
		c := Case{}
		for i := 0; i < n; i++ {
			c.Types = append(c.Types, genDesc(t, 4, fmt.Sprint("t", i)))
			c.Order = append(c.Order, rapid.IntRange(0, 1).Draw(t, "order"))
		}
		if n >= 2 && rapid.Bool().Draw(t, "dup") {
			c.Types[1] = c.Types[0] // the same type twice in one universe, possibly in the other order
		} else if n >= 2 && rapid.Bool().Draw(t, "lenvariant") {
			// the same type up to one array length (boundary lengths): identity must tell them apart, both ways
			la := rapid.SampledFrom(boundaryLens).Draw(t, "la")
			lb := rapid.SampledFrom(boundaryLens).Draw(t, "lb")
			c.Types[0], c.Types[1] = lenVariants(c.Types[0], la, lb)
			rec.Label("composite:length-variant")
		}
		for _, d := range c.Types {
			if rt, err := rtypeOf(d); err == nil {
				rec.Label("composite-kind:" + rt.Kind().String())
				rec.Label(fmt.Sprintf("composite-depth:%d", len(d.Ops)))
				if nontrivialType(rt) {
					rec.NT(d.String())
				}
			}
		}
		rec.Sample(c)
		if errs := runCase(c, true); len(errs) > 0 {
			data, _ := json.MarshalIndent(c, "", " ")
			rec.Failf(t, "composites", data, "json", "%s", strings.Join(errs, "\n  "))
		}
	})
}

// ---------------------------------------------------------------- arrays of boundary lengths, bare and nested one level

var boundaryLens = []int{0, 1, 2, 1000}

// lenVariants returns d with its first array operation set to length la resp. lb; if d has
// none, the array operation is inserted right after the navigation part (so it ends up
// nested inside the constructions that follow).
func lenVariants(d Desc, la, lb int) (Desc, Desc) {
	mk := func(n int) Desc {
		ops := append([]Op(nil), d.Ops...)
		for i := range ops {
			if ops[i].Kind == "array" {
				ops[i].N = n
				return Desc{Root: d.Root, Ops: ops}
			}
		}
		nav := 0
		for i, op := range ops {
			switch op.Kind {
			case "elem", "key", "field", "in", "out", "method":
				nav = i + 1
			}
		}
		out := append(append(append([]Op(nil), ops[:nav]...), Op{Kind: "array", N: n}), ops[nav:]...)
		return Desc{Root: d.Root, Ops: out}
	}
	return mk(la), mk(lb)
}

var arrayElems = []Desc{
	{Root: "basic int"}, {Root: "basic uint8"}, {Root: "basic string"}, {Root: "basic error"},
	{Root: "type time Duration"}, {Root: "type time Time"}, {Root: "type io Reader"},
	{Root: "type bytes Buffer", Ops: []Op{{Kind: "ptr"}}},
}

var strDesc = Desc{Root: "basic string"}

// wrappers put the array one level inside another type
var arrayWrappers = [][]Op{
	nil,
	{{Kind: "ptr"}}, {{Kind: "slice"}}, {{Kind: "array", N: 2}},
	{{Kind: "chan", N: int(r.BothDir)}}, {{Kind: "chan", N: int(r.RecvDir)}},
	{{Kind: "map", Other: &strDesc}}, {{Kind: "mapkey", Other: &strDesc}},
	{{Kind: "func", Other: &strDesc}}, {{Kind: "vfunc", Other: &strDesc}}, {{Kind: "struct", Other: &strDesc}},
}

// TestArrayBoundaries: for every element type and wrapper, the arrays of all boundary
// lengths in one fresh universe: built both ways (canonicity), attributes, and all
// ordered pairs (identity and the predicates must separate [0]T from [n]T in both directions).
func TestArrayBoundaries(t *testing.T) {
	if rec.ReplayOnly() {
		return
	}
	idx := 0
	for _, e := range arrayElems {
		for wi, w := range arrayWrappers {
			for order := 0; order < 2; order++ {
				idx++
				if !rec.Mine(idx) {
					continue
				}
				c := Case{}
				for _, n := range boundaryLens {
					ops := append(append([]Op(nil), e.Ops...), Op{Kind: "array", N: n})
					ops = append(ops, w...)
					d := Desc{Root: e.Root, Ops: ops}
					if _, err := rtypeOf(d); err != nil {
						rec.Label("array-boundary:not-constructible-by-reflect")
						continue // e.g. channel element too large, map key not comparable
					}
					c.Types = append(c.Types, d)
					c.Order = append(c.Order, order)
				}
				rec.Eval(1)
				rec.Label(fmt.Sprintf("array-boundary:wrapper-%d", wi))
				if errs := runCase(c, true); len(errs) > 0 {
					data, _ := json.MarshalIndent(c, "", " ")
					rec.Violation("array-boundaries:"+c.Types[0].String(), data, "json", "%s", strings.Join(errs, "\n  "))
					t.Errorf("%s", strings.Join(errs, "\n  "))
				}
			}
		}
	}
}
