//go:build c08dev

package c08

import (
	"fmt"
	"os"
	"sort"
	"strings"
	"testing"
	"time"

	"pgregory.net/rapid"

	"verif/harness/gobatch"
)

// TestDevFile: C08_FILE=path of a file with declarations separated by //-- lines, entry = C08_ENTRY.
func TestDevFile(t *testing.T) {
	path := os.Getenv("C08_FILE")
	if path == "" {
		t.Skip()
	}
	data, _ := os.ReadFile(path)
	var p gobatch.Program
	if pp, ok := gobatch.ParseReplay(data); ok {
		p = pp
	} else {
		p = gobatch.Program{Decls: strings.Split(string(data), "\n//--\n"), Entry: os.Getenv("C08_ENTRY")}
		if imp := os.Getenv("C08_IMPORTS"); imp != "" {
			p.Imports = strings.Split(imp, ",")
		}
	}
	if err := gobatch.Vet(p); err != nil {
		t.Fatalf("vet: %v", err)
	}
	gobatch.EvalTimeout = 5 * time.Minute
	got := gobatch.RunInterp(p)
	fmt.Println("=== gomacro\n" + got.String())
	if os.Getenv("C08_ORACLE") != "" {
		w, err := gobatch.OracleOne("/tmp/c08dev", p)
		fmt.Println("=== gc", err, "\n"+w.String())
		fmt.Println("=== diff\n" + gobatch.Diff(got, w))
	}
}

// TestDevGen: generate C08_N programs, report vet failures and interpreter compile errors.
func TestDevGen(t *testing.T) {
	if os.Getenv("C08_N") == "" {
		t.Skip()
	}
	n := 0
	fmt.Sscan(os.Getenv("C08_N"), &n)
	errs := map[string]int{}
	ex := map[string]string{}
	seq := 0
	rapid.Check(t, func(rt *rapid.T) {
		seq++
		if seq > n {
			return
		}
		p := Generate(rt, fmt.Sprintf("D%d_", seq))
		if err := gobatch.Vet(p); err != nil {
			k := "VET: " + err.Error()
			errs[k]++
			ex[k] = p.Source("p")
			return
		}
		r := gobatch.RunInterp(p)
		if r.Err != "" {
			k := r.Err
			if i := strings.Index(k, "\n"); i > 0 {
				k = k[:i]
			}
			if len(k) > 150 {
				k = k[:150]
			}
			// drop position
			errs[k]++
			ex[k] = p.Source("p")
		}
		if r.Panic != "" {
			k := "ESCAPED " + r.Panic
			errs[k]++
			ex[k] = p.Source("p") + "\n/* trace:\n" + strings.Join(r.Trace, "\n") + "*/"
		}
	})
	var ks []string
	for k := range errs {
		ks = append(ks, k)
	}
	sort.Strings(ks)
	for i, k := range ks {
		fmt.Printf("%4d  [%d] %s\n", errs[k], i, k)
		os.WriteFile(fmt.Sprintf("/tmp/c08dev/ex%d.go", i), []byte(ex[k]), 0o644)
	}
}
