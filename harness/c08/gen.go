package c08

import (
	"fmt"
	"sort"
	"strings"

	"pgregory.net/rapid"

	"verif/harness/gobatch"
	"verif/harness/progen"
)

// elem describes an element kind usable inside arrays, slices, maps and structs.
type elem struct {
	typ    string   // Go type text
	lits   []string // expressions of that type usable where the type is known from context (untyped constants allowed)
	scalar bool     // basic kind: typ(lit) is a valid typed expression
	cmp    bool     // == is defined and cannot panic
	key    bool     // usable as map key in generated programs
	short  string   // label for histograms
}

// typed returns an expression whose static type is e.typ whatever the context.
func (e *elem) typed(lit string) string {
	if e.scalar && e.typ != "string" && e.typ != "bool" {
		return e.typ + "(" + lit + ")"
	}
	if lit == "nil" {
		return "(" + e.typ + ")(nil)"
	}
	return lit
}

// slice model: what the generator knows statically about a slice variable.
type slv struct {
	name     string
	e        *elem
	len, cap int
	capKnown bool // false after an append that had to grow: Go does not specify the new capacity
}

type gen struct {
	*progen.G
	out     strings.Builder // body of the function being generated
	nt      map[string]bool
	elems   []*elem
	scalars []*elem
	structP *elem // comparable struct type
	structQ *elem // comparable struct embedding P
	typeR   string
	helpers map[string]string // name -> declaration of package-level helpers actually used
	pfields map[string]*elem
	horder  []string
	rtag    int
}

func (g *gen) emit(format string, args ...interface{}) {
	s := fmt.Sprintf(format, args...)
	if !strings.HasSuffix(s, "\n") {
		s += "\n"
	}
	g.out.WriteString(s)
}

func (g *gen) ntMark(class string) { g.nt[class] = true }

// capture runs f and returns what it emitted instead of appending it to the body.
func (g *gen) capture(f func()) string {
	saved := g.out.String()
	g.out.Reset()
	f()
	s := g.out.String()
	g.out.Reset()
	g.out.WriteString(saved)
	return s
}

// risky wraps statements in a closure that records whether, and with which class, they panic.
func (g *gen) risky(stmts string) {
	g.rtag++
	tag := fmt.Sprintf("r%d", g.rtag)
	g.emit("func() {\n\tdefer func() { rec.R(%q, recover()) }()\n%s}()", tag, progen.Indent(stmts))
}

// maybeRisky wraps the statements when they may panic; statements known to be safe are
// emitted bare half of the time (exercises direct access to the locals of the frame
// besides access through a closure).
// riskyAny is risky() for operations whose run-time error the shared recorder cannot
// classify whatever the wording (make with len > cap: reflect says "len > cap", the
// runtime "makeslice: cap out of range"): only whether a panic happened is recorded.
func (g *gen) riskyAny(stmts string) {
	g.rtag++
	tag := fmt.Sprintf("r%d", g.rtag)
	g.emit("func() {\n\tdefer func() { rec.E(%q, recover() != nil) }()\n%s}()", tag, progen.Indent(stmts))
}

func (g *gen) maybeRisky(mayPanic bool, stmts string) {
	if mayPanic || g.Bool("wrap-safe") {
		g.risky(stmts)
		return
	}
	g.emit("%s", stmts)
}

func (g *gen) pickElem(label string) *elem { return g.elems[g.Pick(len(g.elems), label)] }
func (g *gen) pickScalar(label string) *elem {
	return g.scalars[g.Pick(len(g.scalars), label)]
}

func (g *gen) val(e *elem) string {
	x := e.lits[g.Pick(len(e.lits), "val")]
	if strings.HasPrefix(x, "[...]") {
		if Avoid.EllipsisHint {
			OnExcluded("F-C08-9")
			return e.lits[0]
		}
		g.Tag("literal:ellipsis-array-as-element")
	}
	return x
}
func (g *gen) tval(e *elem) string {
	return e.typed(g.val(e))
}

// Avoid holds the exclusions-by-construction of the known findings of C08; a field is
// switched on (TestMain) while the finding is listed as "known" in known_findings.json.
// OnExcluded is called with the finding id every time the generator steps around one.
var Avoid struct {
	NonInt        bool // F-C08-1: place index / slice bound / make size of integer type other than int is rejected
	CopyResult    bool // F-C08-2: the result of copy() cannot be used
	NilArrayCap   bool // F-C08-3: cap(p) with p a nil pointer to array panics
	RangePtrArray bool // F-C08-4: range over a pointer to array iterates over a copy made at loop entry
	IdentityOp    bool // F-C08-5: x op= c with c the identity of op is dropped (no map insert, no nil-map / nil-pointer panic)
	NilIfaceKey   bool // F-C08-6: m[nil] on a map with interface key panics
	MakeLenCap    bool // F-C08-7: make([]T, len, cap) with len < 0 or len > cap: wrong panic or none
	NilDerefValue bool // F-C08-8: *p as a value, p a nil pointer to array or struct, yields an invalid value instead of panicking
	EllipsisHint  bool // F-C08-9: [...]T{...} where the context supplies the expected type is typed [0]T
	AppendOverlap bool // F-C08-11: append(s[:k], t...) in place with t overlapping the destination copies element by element
}
var OnExcluded = func(id string) {}

// intForm renders the int value v either as a literal (constant path of the
// interpreter) or through a fresh local variable of type int, uint8, int64 or uint
// (run-time path); constOK says whether a constant is acceptable to the Go type
// checker at that position; site is "read" (index in an rvalue), "place" (index in an
// assignment target or under &), "slice" (slice bound) or "make".
func (g *gen) intForm(v int, constOK bool, site string) string {
	if constOK && v >= 0 && g.Chance(1, 3, "const-"+site) {
		g.Tag("bound-form:const")
		return fmt.Sprint(v)
	}
	name := g.Local("n")
	typ := ""
	switch g.Pick(10, "var-form-"+site) {
	case 0:
		if v >= 0 && v <= 255 {
			typ = "uint8"
		}
	case 1:
		typ = "int64"
	case 2:
		if v >= 0 {
			typ = "uint"
		}
	}
	if typ != "" && site != "read" && Avoid.NonInt {
		OnExcluded("F-C08-1")
		typ = ""
	}
	if typ != "" {
		g.Tag("bound-form:" + typ + "-var:" + site)
		g.emit("var %s %s = %d", name, typ, v)
		return name
	}
	g.Tag("bound-form:int-var")
	g.emit("%s := %d", name, v)
	return name
}

// intOnly renders v through an int variable or (when allowed) a constant.
func (g *gen) intOnly(v int, constOK bool, what string) string {
	if constOK && v >= 0 && g.Chance(1, 3, "const-"+what) {
		g.Tag("bound-form:const")
		return fmt.Sprint(v)
	}
	name := g.Local("n")
	g.Tag("bound-form:int-var")
	g.emit("%s := %d", name, v)
	return name
}


// pos names the position of a bound relative to len and cap for the histogram.
func pos(v, l, c int) string {
	switch {
	case v < 0:
		return "<0"
	case v == l+1 && v == c+1:
		return "len+1=cap+1"
	case v == l && v == c:
		if v == 0 {
			return "0=len=cap"
		}
		return "len=cap"
	case v == 0 && l == 0:
		return "0=len"
	case v == 0:
		return "0"
	case v == l-1:
		return "len-1"
	case v == l:
		return "len"
	case v == l+1 && v < c:
		return "len+1"
	case v == c-1:
		return "cap-1"
	case v == c:
		return "cap"
	case v == c+1:
		return "cap+1"
	case v == l+1:
		return "len+1"
	case v < l:
		return "inside"
	case v < c:
		return "len..cap"
	}
	return "far"
}

func adjacent(v, l, c int) bool {
	d := func(a, b int) bool { return a-b <= 1 && b-a <= 1 }
	return d(v, l) || d(v, c) || d(v, 0)
}

// bound draws an int around {0, len, cap} +-1.
func (g *gen) bound(l, c int, capKnown bool, label string) int {
	cands := []int{-1, 0, 1, l - 1, l, l + 1}
	if capKnown {
		cands = append(cands, c-1, c, c+1)
	} else {
		cands = append(cands, l+1000) // certainly beyond any capacity the runtime may have chosen
	}
	v := cands[g.Pick(len(cands), label)]
	if !capKnown && v > l && v < l+1000 {
		v = l + 1000
	}
	if v < -1 {
		v = -1
	}
	return v
}

// validBound draws a bound in [lo, hi], preferring the ends.
func (g *gen) validBound(lo, hi int, label string) int {
	if hi < lo {
		return lo
	}
	switch g.Pick(4, label+"-end") {
	case 0:
		return lo
	case 1:
		return hi
	}
	return g.Int(lo, hi, label)
}

// ---------------------------------------------------------------- slices

func (g *gen) recSlice(s *slv) {
	if s.capKnown {
		if g.Chance(1, 3, "rec-upto-cap") && s.cap > s.len {
			g.Tag("observe:upto-cap")
			g.emit("rec.E(%d, %s, %s[:cap(%s)])", g.Ev(), s.name, s.name, s.name)
		} else {
			g.emit("rec.E(%d, %s)", g.Ev(), s.name)
		}
	} else {
		g.emit("rec.E(%d, len(%s), %s[:len(%s):len(%s)])", g.Ev(), s.name, s.name, s.name, s.name)
	}
}

// newSlice declares a slice variable in one of several ways and returns its model.
func (g *gen) newSlice(e *elem) *slv {
	name := g.Local("s")
	s := &slv{name: name, e: e, capKnown: true}
	switch g.Pick(6, "slice-ctor") {
	case 0: // make(len)
		s.len = g.Int(0, 4, "mk-len")
		s.cap = s.len
		g.Tag("ctor:make2")
		g.emit("%s := make([]%s, %s)", name, e.typ, g.intOnly(s.len, true, "mklen"))
	case 1: // make(len, cap)
		s.len = g.Int(0, 3, "mk-len")
		s.cap = s.len + g.Int(0, 3, "mk-extra")
		if s.cap == s.len && g.Chance(2, 3, "mk-extra-force") {
			s.cap = s.len + g.Int(1, 2, "mk-extra2") // spare capacity is where len and cap bounds differ
		}
		g.Tag("ctor:make3")
		l := g.intOnly(s.len, true, "mklen")
		c := g.intOnly(s.cap, true, "mkcap")
		g.emit("%s := make([]%s, %s, %s)", name, e.typ, l, c)
	case 2: // literal
		s.len = g.Int(0, 4, "lit-len")
		s.cap = s.len
		g.Tag("ctor:literal")
		vals := make([]string, s.len)
		for i := range vals {
			vals[i] = g.val(e)
		}
		g.emit("%s := []%s{%s}", name, e.typ, strings.Join(vals, ", "))
		return s
	case 3: // nil
		g.Tag("ctor:nil-slice")
		g.emit("var %s []%s", name, e.typ)
		return s
	case 4: // slice of a local array
		n := g.Int(1, 5, "arr-n")
		lo := g.Int(0, n, "arr-lo")
		hi := g.Int(lo, n, "arr-hi")
		a := g.Local("a")
		g.Tag("ctor:array-slice")
		vals := make([]string, n)
		for i := range vals {
			vals[i] = g.val(e)
		}
		g.emit("%s := [%d]%s{%s}", a, n, e.typ, strings.Join(vals, ", "))
		g.emit("%s := %s[%d:%d]", name, a, lo, hi)
		s.len, s.cap = hi-lo, n-lo
		return s
	default: // 3-index slice of a literal
		n := g.Int(1, 5, "l3-n")
		lo := g.Int(0, n, "l3-lo")
		hi := g.Int(lo, n, "l3-hi")
		mx := g.Int(hi, n, "l3-max")
		vals := make([]string, n)
		for i := range vals {
			vals[i] = g.val(e)
		}
		g.Tag("ctor:slice3-of-literal")
		g.emit("%s := []%s{%s}[%d:%d:%d]", name, e.typ, strings.Join(vals, ", "), lo, hi, mx)
		s.len, s.cap = hi-lo, mx-lo
		return s
	}
	// fill made slices with recognisable values
	for i := 0; i < s.len; i++ {
		g.emit("%s[%d] = %s", name, i, g.val(e))
	}
	return s
}

func (g *gen) sliceScenario() {
	e := g.pickElem("slice-elem")
	g.Tag("slice-of:" + e.short)
	vars := []*slv{g.newSlice(e)}
	g.recSlice(vars[0])
	nops := g.Int(2, 7, "slice-nops")
	for i := 0; i < nops; i++ {
		s := vars[g.Pick(len(vars), "slice-var")]
		switch g.Pick(12, "slice-op") {
		case 0:
			g.sliceIndexRead(s)
		case 1:
			g.sliceIndexWrite(s, vars)
		case 2, 3:
			if t := g.slice2(s); t != nil {
				vars = append(vars, t)
			}
		case 4:
			if t := g.slice3(s); t != nil {
				vars = append(vars, t)
			}
		case 5, 6:
			vars = append(vars, g.appendOp(s, vars))
		case 7:
			g.copyOp(s, vars)
		case 8:
			g.elemPointer(s, vars)
		case 9:
			g.emit("rec.E(%d, len(%s), %s == nil)", g.Ev(), s.name, s.name)
			if s.capKnown {
				g.emit("rec.E(%d, cap(%s))", g.Ev(), s.name)
			}
		case 10:
			g.sliceCallee(s, vars)
		default:
			g.sliceRange(s)
		}
	}
	for _, s := range vars {
		g.recSlice(s)
	}
}

func (g *gen) sliceIndexRead(s *slv) {
	i := g.bound(s.len, s.cap, s.capKnown, "idx")
	g.Tag("index-read:slice:" + pos(i, s.len, s.len))
	if adjacent(i, s.len, s.len) {
		g.ntMark("bounds-adjacent-index")
	}
	ix := g.intForm(i, true, "read")
	g.maybeRisky(i < 0 || i >= s.len, fmt.Sprintf("rec.E(%d, %s[%s])", g.Ev(), s.name, ix))
}

func (g *gen) sliceIndexWrite(s *slv, vars []*slv) {
	i := g.bound(s.len, s.cap, s.capKnown, "idx")
	g.Tag("index-write:slice:" + pos(i, s.len, s.len))
	if adjacent(i, s.len, s.len) {
		g.ntMark("bounds-adjacent-index")
	}
	ix := g.intForm(i, true, "place")
	g.maybeRisky(i < 0 || i >= s.len, fmt.Sprintf("%s[%s] = %s", s.name, ix, g.val(s.e)))
	// the write is visible through every alias
	for _, v := range vars {
		g.recSlice(v)
	}
}

// slice2 emits t = s[lo:hi] in one of the four syntactic forms.
func (g *gen) slice2(s *slv) *slv {
	t := &slv{name: g.Local("s"), e: s.e, capKnown: true}
	g.emit("var %s []%s", t.name, s.e.typ)
	form := g.Pick(4, "slice2-form")
	lo, hi := 0, s.len
	var los, his string
	if form == 0 || form == 2 {
		lo = g.bound(s.len, s.cap, s.capKnown, "lo")
	}
	if form == 1 || form == 2 {
		hi = g.bound(s.len, s.cap, s.capKnown, "hi")
		if g.Chance(1, 2, "hi-ge-lo") && hi < lo {
			hi = lo
		}
	}
	// Go rejects constant lo > constant hi at compile time
	loConst := true
	if form == 0 || form == 2 {
		los = g.intForm(lo, loConst, "slice")
	}
	if form == 1 || form == 2 {
		hiConstOK := !(isLit(los) && hi < lo)
		his = g.intForm(hi, hiConstOK, "slice")
	}
	ok := lo >= 0 && lo <= hi && hi <= s.cap && (s.capKnown || hi <= s.len)
	if !s.capKnown && hi > s.len && hi < s.len+1000 {
		return nil // cannot happen (bound() avoids it); be safe
	}
	g.Tag(fmt.Sprintf("slice2:slice:lo=%s,hi=%s", pos(lo, s.len, s.cap), pos(hi, s.len, s.cap)))
	if adjacent(lo, s.len, s.cap) || adjacent(hi, s.len, s.cap) {
		g.ntMark("bounds-adjacent-slice")
	}
	g.maybeRisky(!ok, fmt.Sprintf("%s = %s[%s:%s]", t.name, s.name, los, his))
	if ok {
		t.len, t.cap, t.capKnown = hi-lo, s.cap-lo, s.capKnown
	}
	g.recSlice(t)
	return t
}

func isLit(s string) bool { return s != "" && s[0] >= '0' && s[0] <= '9' }

func (g *gen) slice3(s *slv) *slv {
	if !s.capKnown {
		return nil
	}
	t := &slv{name: g.Local("s"), e: s.e, capKnown: true}
	g.emit("var %s []%s", t.name, s.e.typ)
	lo := g.bound(s.len, s.cap, true, "lo")
	hi := g.bound(s.len, s.cap, true, "hi")
	mx := g.bound(s.len, s.cap, true, "max")
	if g.Chance(2, 3, "ordered") {
		b := []int{lo, hi, mx}
		sort.Ints(b)
		lo, hi, mx = b[0], b[1], b[2]
	}
	omitLo := g.Chance(1, 4, "omit-lo")
	los := ""
	if omitLo {
		lo = 0
	} else {
		los = g.intForm(lo, true, "slice")
	}
	his := g.intForm(hi, !(isLit(los) && hi < lo), "slice")
	mxs := g.intForm(mx, !(isLit(his) && mx < hi) && !(isLit(los) && mx < lo), "slice")
	ok := lo >= 0 && lo <= hi && hi <= mx && mx <= s.cap
	g.Tag(fmt.Sprintf("slice3:slice:hi=%s,max=%s", pos(hi, s.len, s.cap), pos(mx, s.len, s.cap)))
	g.ntMark("bounds-adjacent-slice3")
	g.maybeRisky(!ok, fmt.Sprintf("%s = %s[%s:%s:%s]", t.name, s.name, los, his, mxs))
	if ok {
		t.len, t.cap = hi-lo, mx-lo
	}
	g.recSlice(t)
	return t
}

// appendOp emits t := append(s', values...) where s' is s or a prefix of s, then
// writes through the result and records every alias, so that sharing (or not) of
// the backing array is observed.
func (g *gen) appendOp(s *slv, vars []*slv) *slv {
	t := &slv{name: g.Local("s"), e: s.e, capKnown: true}
	base, bl, bc := s.name, s.len, s.cap
	if !s.capKnown {
		// deterministic whatever capacity the runtime chose
		base = fmt.Sprintf("%s[:len(%s):len(%s)]", s.name, s.name, s.name)
		bc = bl
		g.Tag("append:cap-clamped-base")
	} else if s.len > 0 && g.Chance(1, 3, "append-prefix") {
		k := g.validBound(0, s.len, "prefix")
		base = fmt.Sprintf("%s[:%s]", s.name, g.intForm(k, true, "slice"))
		bl = k
		g.Tag("append:to-prefix")
	}
	n := 0
	var args string
	switch g.Pick(5, "append-args") {
	case 0: // spread another slice (maybe itself); every slice of the scenario may share the backing array
		o := vars[g.Pick(len(vars), "append-src")]
		n = o.len
		if n > 0 && bl+n <= bc && Avoid.AppendOverlap {
			OnExcluded("F-C08-11")
			n = g.Int(1, 2, "spread-lit-n")
			args = ", []" + s.e.typ + "{" + strings.TrimSuffix(strings.Repeat(s.e.lits[0]+", ", n), ", ") + "}..."
			g.Tag("append:spread-literal")
			break
		}
		args = ", " + o.name + "..."
		g.Tag("append:spread")
		if o == s {
			g.Tag("append:self-spread")
		}
		if n > 0 && bl+n <= bc {
			g.Tag("append:spread-in-place-maybe-overlapping")
		}
	case 1:
		if s.e.typ == "uint8" {
			str := g.OneOf("append-str", `"xy"`, `""`, `"héé"`)
			n = len(strUnquote(str))
			args = ", " + str + "..."
			g.Tag("append:string-spread")
			break
		}
		fallthrough
	default:
		n = g.Int(0, 3, "append-n")
		for i := 0; i < n; i++ {
			args += ", " + g.val(s.e)
		}
	}
	nl := bl + n
	rel := "below-cap"
	switch {
	case nl == bc:
		rel = "at-cap"
	case nl == bc+1:
		rel = "cap+1"
	case nl > bc:
		rel = "over-cap"
	}
	if n == 0 {
		rel = "nothing"
	}
	g.Tag("append:" + rel)
	g.emit("%s := append(%s%s)", t.name, base, args)
	t.len = nl
	if nl <= bc {
		t.cap = bc
	} else {
		t.capKnown = false
		t.cap = nl // model: only the part up to len is specified
	}
	// observe aliasing: write through the result, read through everything
	if t.len > 0 {
		w := g.validBound(0, t.len-1, "alias-w")
		g.emit("%s[%d] = %s", t.name, w, g.val(s.e))
		g.ntMark("aliasing-after-append")
		g.Tag("observe:aliasing-after-append")
	}
	g.recSlice(t)
	for _, v := range vars {
		g.recSlice(v)
	}
	return t
}

func strUnquote(s string) string { return strings.Trim(s, `"`) }

func ident(s string) string { return strings.ReplaceAll(s, "-", "_") }

func (g *gen) copyOp(s *slv, vars []*slv) {
	o := vars[g.Pick(len(vars), "copy-src")]
	n := g.Local("n")
	a := g.validBound(0, s.len, "copy-a")
	b := g.validBound(0, o.len, "copy-b")
	dst := s.name
	if a > 0 || g.Bool("copy-dst-sliced") {
		dst = fmt.Sprintf("%s[%s:]", s.name, g.intForm(a, true, "slice"))
	} else {
		a = 0
	}
	src := o.name
	if s.e.typ == "uint8" && g.Chance(1, 3, "copy-string") {
		src = g.OneOf("copy-str", `"héllo"`, `""`, `"ab"`)
		g.Tag("copy:string-src")
	} else {
		if b > 0 || g.Bool("copy-src-sliced") {
			src = fmt.Sprintf("%s[%s:]", o.name, g.intForm(b, true, "slice"))
		} else {
			b = 0
		}
		switch {
		case o == s && a < b:
			g.Tag("copy:overlap-down")
		case o == s && a > b:
			g.Tag("copy:overlap-up")
		case o == s:
			g.Tag("copy:same")
		default:
			g.Tag("copy:maybe-aliased")
		}
	}
	if Avoid.CopyResult {
		OnExcluded("F-C08-2")
		g.emit("copy(%s, %s)", dst, src)
	} else {
		g.Tag("copy:result-used")
		g.emit("%s := copy(%s, %s)", n, dst, src)
		g.emit("rec.E(%d, %s)", g.Ev(), n)
	}
	for _, v := range vars {
		g.recSlice(v)
	}
}

func (g *gen) elemPointer(s *slv, vars []*slv) {
	i := g.bound(s.len, s.cap, s.capKnown, "ptr-idx")
	p := g.Local("p")
	g.Tag("addr-of-elem:slice:" + pos(i, s.len, s.len))
	g.emit("var %s *%s", p, s.e.typ)
	ix := g.intForm(i, true, "place")
	ok := i >= 0 && i < s.len
	g.maybeRisky(!ok, fmt.Sprintf("%s = &%s[%s]", p, s.name, ix))
	if adjacent(i, s.len, s.len) {
		g.ntMark("bounds-adjacent-index")
	}
	g.risky(fmt.Sprintf("*%s = %s", p, g.val(s.e)))
	if !ok {
		g.Tag("nil-deref:write")
	}
	for _, v := range vars {
		g.recSlice(v)
	}
}

// sliceCallee passes the slice to a function that writes an element and appends: the
// write is visible to the caller, the new length is not.
func (g *gen) sliceCallee(s *slv, vars []*slv) {
	name := g.Px + "cs_" + ident(s.e.short)
	if _, ok := g.helpers[name]; !ok {
		v := s.e.lits[0]
		g.addHelper(name, fmt.Sprintf("func %s(s []%s) int {\n\tif len(s) > 0 {\n\t\ts[len(s)-1] = %s\n\t}\n\ts = append(s, %s)\n\treturn len(s)\n}", name, s.e.typ, v, v))
	}
	g.Tag("callee:slice-param")
	if s.capKnown && s.cap > s.len {
		g.ntMark("aliasing-after-append")
	}
	g.emit("rec.E(%d, %s(%s))", g.Ev(), name, s.name)
	for _, v := range vars {
		g.recSlice(v)
	}
}

func (g *gen) addHelper(name, decl string) {
	if _, ok := g.helpers[name]; ok {
		return
	}
	g.helpers[name] = decl
	g.horder = append(g.horder, name)
}

func (g *gen) sliceRange(s *slv) {
	i, v := g.Local("i"), g.Local("v")
	g.Tag("range:slice")
	// the range expression is evaluated once: growing/shrinking s inside does not change the iteration count
	g.emit("for %s, %s := range %s {\n\trec.E(%d, %s, %s)\n}", i, v, s.name, g.Ev(), i, v)
}

// ---------------------------------------------------------------- arrays

func (g *gen) arrayScenario() {
	e := g.pickElem("array-elem")
	n := g.Int(0, 5, "array-n")
	g.Tag("array-of:" + e.short)
	a, b := g.Local("a"), g.Local("a")
	vals := make([]string, n)
	for i := range vals {
		vals[i] = g.val(e)
	}
	at := fmt.Sprintf("[%d]%s", n, e.typ)
	switch g.Pick(3, "array-ctor") {
	case 0:
		g.emit("%s := %s{%s}", a, at, strings.Join(vals, ", "))
	case 1:
		g.Tag("literal:array-ellipsis")
		g.emit("%s := [...]%s{%s}", a, e.typ, strings.Join(vals, ", "))
	default:
		g.emit("var %s %s", a, at)
		for i := 0; i < n; i++ {
			g.emit("%s[%d] = %s", a, i, vals[i])
		}
	}
	g.emit("%s := %s", b, a) // value copy
	g.Tag("array:value-copy")
	p := g.Local("p")
	g.emit("%s := &%s", p, a)
	recAll := func() { g.emit("rec.E(%d, %s, %s, *%s)", g.Ev(), a, b, p) }
	recAll()
	nops := g.Int(2, 6, "array-nops")
	for k := 0; k < nops; k++ {
		switch g.Pick(10, "array-op") {
		case 0, 1: // index read on array / copy / pointer
			i := g.bound(n, n, true, "idx")
			constOK := i >= 0 && i < n
			tgt := g.OneOf("array-tgt", a, b, p)
			g.Tag("index-read:" + tgtKind(tgt, p) + ":" + pos(i, n, n))
			g.ntMark("bounds-adjacent-index")
			ix := g.intForm(i, constOK, "read")
			g.maybeRisky(!constOK, fmt.Sprintf("rec.E(%d, %s[%s])", g.Ev(), tgt, ix))
		case 2, 3: // index write
			i := g.bound(n, n, true, "idx")
			constOK := i >= 0 && i < n
			tgt := g.OneOf("array-tgt", a, b, p)
			g.Tag("index-write:" + tgtKind(tgt, p) + ":" + pos(i, n, n))
			g.ntMark("bounds-adjacent-index")
			ix := g.intForm(i, constOK, "place")
			g.maybeRisky(!constOK, fmt.Sprintf("%s[%s] = %s", tgt, ix, g.val(e)))
			recAll()
		case 4, 5: // slice the array or the pointer: the slice aliases the array
			tgt := g.OneOf("array-tgt", a, p)
			t := g.Local("s")
			g.emit("var %s []%s", t, e.typ)
			lo := g.bound(n, n, true, "lo")
			hi := g.bound(n, n, true, "hi")
			if g.Chance(2, 3, "ordered") && hi < lo {
				lo, hi = hi, lo
			}
			three := g.Chance(1, 3, "array-slice3")
			mx := n
			if three {
				mx = g.bound(n, n, true, "max")
				if g.Chance(2, 3, "ordered3") && mx < hi {
					mx, hi = hi, mx
					if hi < lo {
						lo, hi = hi, lo
					}
				}
			}
			// constants must satisfy the static checks: 0 <= c <= len(array), ordered
			los := g.intForm(lo, lo >= 0 && lo <= n, "slice")
			his := g.intForm(hi, hi >= 0 && hi <= n && !(isLit(los) && hi < lo), "slice")
			ok := lo >= 0 && lo <= hi && hi <= n
			expr := fmt.Sprintf("%s[%s:%s]", tgt, los, his)
			if three {
				mxs := g.intForm(mx, mx >= 0 && mx <= n && !(isLit(his) && mx < hi) && !(isLit(los) && mx < lo), "slice")
				ok = ok && hi <= mx && mx <= n
				expr = fmt.Sprintf("%s[%s:%s:%s]", tgt, los, his, mxs)
				g.Tag(fmt.Sprintf("slice3:%s:hi=%s,max=%s", tgtKind(tgt, p), pos(hi, n, n), pos(mx, n, n)))
			} else {
				g.Tag(fmt.Sprintf("slice2:%s:lo=%s,hi=%s", tgtKind(tgt, p), pos(lo, n, n), pos(hi, n, n)))
			}
			g.ntMark("bounds-adjacent-slice")
			g.maybeRisky(!ok, fmt.Sprintf("%s = %s", t, expr))
			g.emit("rec.E(%d, %s)", g.Ev(), t)
			// write through the slice: visible in a (and *p), not in b
			g.risky(fmt.Sprintf("%s[0] = %s", t, g.val(e)))
			recAll()
		case 6:
			if e.cmp {
				g.Tag("array:compare")
				g.emit("rec.E(%d, %s == %s, %s != *%s, %s == %s)", g.Ev(), a, b, b, p, p, "&"+a)
			}
		case 7: // pass by value
			name := g.Px + "ca_" + ident(e.short) + fmt.Sprint(n)
			if n > 0 {
				g.addHelper(name, fmt.Sprintf("func %s(x %s) %s {\n\tx[0] = %s\n\treturn x\n}", name, at, at, e.lits[0]))
				g.Tag("callee:array-param")
				g.emit("rec.E(%d, %s(%s))", g.Ev(), name, a)
				recAll()
			}
		case 8: // range over the array iterates over a copy; over the pointer it does not
			if n >= 2 {
				i, v := g.Local("i"), g.Local("v")
				tgt := g.OneOf("array-range-tgt", a, p)
				if tgt == p && Avoid.RangePtrArray {
					OnExcluded("F-C08-4")
					g.Tag("range:array-ptr")
					g.emit("for %s, %s := range %s {\n\trec.E(%d, %s, %s)\n}", i, v, tgt, g.Ev(), i, v)
				} else {
					g.Tag("range:" + tgtKind(tgt, p) + "-with-write")
					g.emit("for %s, %s := range %s {\n\t%s[%d] = %s\n\trec.E(%d, %s, %s)\n}", i, v, tgt, a, n-1, g.val(e), g.Ev(), i, v)
				}
				recAll()
			}
		default:
			g.Tag("len-cap:array")
			g.emit("rec.E(%d, len(%s), cap(%s), len(%s), cap(%s), len(%s[:]))", g.Ev(), a, a, p, p, a)
		}
	}
	// nil pointer to array
	if g.Chance(1, 3, "nil-array-ptr") {
		q := g.Local("q")
		g.Tag("nil-deref:array-ptr")
		g.emit("var %s *%s", q, at)
		if Avoid.NilArrayCap {
			OnExcluded("F-C08-3")
			g.emit("rec.E(%d, len(%s), %s == nil)", g.Ev(), q, q)
		} else {
			g.Tag("len-cap:nil-array-ptr")
			g.emit("rec.E(%d, len(%s), cap(%s), %s == nil)", g.Ev(), q, q, q)
		}
		switch g.Pick(5, "nil-array-op") {
		case 0:
			g.risky(fmt.Sprintf("rec.E(%d, %s[%s])", g.Ev(), q, g.intForm(0, n > 0, "read")))
		case 1:
			g.risky(fmt.Sprintf("%s[%s] = %s", q, g.intForm(0, n > 0, "place"), g.val(e)))
		case 2:
			g.risky(fmt.Sprintf("rec.E(%d, %s[:])", g.Ev(), q))
		case 3:
			if Avoid.NilDerefValue {
				OnExcluded("F-C08-8")
				g.risky(fmt.Sprintf("rec.E(%d, len(*%s))", g.Ev(), q))
			} else {
				g.Tag("nil-deref:whole-array-value")
				g.risky(fmt.Sprintf("rec.E(%d, *%s)", g.Ev(), q))
			}
		default:
			i := g.Local("i")
			g.risky(fmt.Sprintf("for %s := range %s {\n\trec.E(%d, %s)\n}", i, q, g.Ev(), i))
		}
	}
}

func tgtKind(tgt, p string) string {
	if tgt == p {
		return "array-ptr"
	}
	return "array"
}

// ---------------------------------------------------------------- strings

func (g *gen) stringScenario() {
	s := g.Local("s")
	lit := g.OneOf("str", `"héllo"`, `""`, `"a"`, `"abc"`, `"日本"`)
	n := len(strUnquote(lit))
	g.Tag("string")
	isConst := g.Chance(1, 4, "const-string")
	if isConst {
		g.Tag("string:constant")
		g.emit("const %s = %s", s, lit)
	} else {
		g.emit("%s := %s", s, lit)
	}
	g.emit("rec.E(%d, %s, len(%s))", g.Ev(), s, s)
	nops := g.Int(2, 5, "string-nops")
	for k := 0; k < nops; k++ {
		switch g.Pick(6, "string-op") {
		case 0, 1:
			i := g.bound(n, n, true, "idx")
			ok := i >= 0 && i < n
			g.Tag("index-read:string:" + pos(i, n, n))
			g.ntMark("bounds-adjacent-index")
			ix := g.intForm(i, ok || !isConst, "read")
			g.maybeRisky(!ok, fmt.Sprintf("rec.E(%d, %s[%s])", g.Ev(), s, ix))
		case 2, 3:
			lo := g.bound(n, n, true, "lo")
			hi := g.bound(n, n, true, "hi")
			if g.Chance(2, 3, "ordered") && hi < lo {
				lo, hi = hi, lo
			}
			form := g.Pick(3, "string-slice-form")
			var los, his string
			if form != 1 {
				los = g.intForm(lo, !isConst || lo <= n, "slice")
			} else {
				lo = 0
			}
			if form != 0 {
				his = g.intForm(hi, (!isConst || hi <= n) && !(isLit(los) && hi < lo), "slice")
			} else {
				hi = n
			}
			ok := lo >= 0 && lo <= hi && hi <= n
			g.Tag(fmt.Sprintf("slice2:string:lo=%s,hi=%s", pos(lo, n, n), pos(hi, n, n)))
			g.ntMark("bounds-adjacent-slice")
			g.maybeRisky(!ok, fmt.Sprintf("rec.E(%d, %s[%s:%s])", g.Ev(), s, los, his))
		case 4:
			g.Tag("string:bytes-roundtrip")
			b := g.Local("b")
			g.emit("%s := []byte(%s)", b, s)
			g.emit("rec.E(%d, len(%s), string(%s), len([]rune(%s)))", g.Ev(), b, b, s)
			if n > 0 {
				g.emit("%s[0] = 'X'\nrec.E(%d, string(%s), %s)", b, g.Ev(), b, s)
			}
		default:
			i, r := g.Local("i"), g.Local("r")
			g.Tag("range:string")
			g.emit("for %s, %s := range %s {\n\trec.E(%d, %s, %s)\n}", i, r, s, g.Ev(), i, r)
		}
	}
}

// ---------------------------------------------------------------- maps

func (g *gen) keyElems() []*elem {
	var ks []*elem
	for _, e := range g.elems {
		if e.key {
			ks = append(ks, e)
		}
	}
	return ks
}

func (g *gen) mapScenario() {
	ks := g.keyElems()
	k := ks[g.Pick(len(ks), "map-key")]
	v := g.pickElem("map-val")
	m := g.Local("m")
	mt := fmt.Sprintf("map[%s]%s", k.typ, v.typ)
	g.Tag("map-key:" + k.short)
	g.Tag("map-val:" + v.short)
	isNil := false
	switch g.Pick(5, "map-ctor") {
	case 0:
		g.Tag("ctor:nil-map")
		g.emit("var %s %s", m, mt)
		isNil = true
	case 1:
		g.Tag("ctor:make-map")
		g.emit("%s := make(%s)", m, mt)
	case 2:
		g.Tag("ctor:make-map-size")
		g.emit("%s := make(%s, %s)", m, mt, g.intOnly(g.Int(-1, 3, "map-size"), true, "mapsize"))
	default:
		g.Tag("ctor:map-literal")
		// distinct constant keys are required by the compiler: use each literal at most once
		perm := rapid.Permutation(k.lits).Draw(g.T, "map-lit-keys")
		n := g.Int(0, len(perm), "map-lit-n")
		if n > 3 {
			n = 3
		}
		var items []string
		zeroKeySeen := false
		for i := 0; i < n; i++ {
			// two spellings of the zero struct value (P{} and P{X: 0}) are equal keys that the
			// compiler cannot see; which element then survives is not defined by the language
			// (gc inserts statically initialised elements first): use one of them only
			if lit := perm[i]; lit == k.typ+"{}" || lit == k.typ+"{X: 0}" || lit == k.typ+`{X: ""}` || lit == k.typ+"{X: false}" {
				if zeroKeySeen {
					continue
				}
				zeroKeySeen = true
			}
			if perm[i] == "nil" && Avoid.NilIfaceKey {
				OnExcluded("F-C08-6")
				continue
			}
			if strings.HasPrefix(perm[i], "[...]") && Avoid.EllipsisHint {
				OnExcluded("F-C08-9")
				continue
			}
			items = append(items, perm[i]+": "+g.val(v))
		}
		g.emit("%s := %s{%s}", m, mt, strings.Join(items, ", "))
	}
	g.emit("rec.E(%d, %s, len(%s), %s == nil)", g.Ev(), m, m, m)
	nops := g.Int(3, 8, "map-nops")
	for i := 0; i < nops; i++ {
		key := g.val(k)
		if key == "nil" {
			if Avoid.NilIfaceKey {
				OnExcluded("F-C08-6")
				key = k.lits[0]
			} else {
				g.Tag("map:nil-interface-key")
			}
		}
		switch g.Pick(10, "map-op") {
		case 0, 1:
			if isNil {
				g.Tag("map:nil-write")
				g.ntMark("nil-map-write")
			}
			g.Tag("map:insert")
			g.maybeRisky(isNil, fmt.Sprintf("%s[%s] = %s", m, key, g.val(v)))
		case 2:
			g.Tag("map:read")
			g.emit("rec.E(%d, %s[%s])", g.Ev(), m, key)
		case 3:
			g.Tag("map:comma-ok")
			x, ok := g.Local("x"), g.Local("ok")
			if g.Bool("commaok-form") {
				g.emit("%s, %s := %s[%s]\nrec.E(%d, %s, %s)", x, ok, m, key, g.Ev(), x, ok)
			} else {
				g.emit("var %s %s\nvar %s bool\n%s, %s = %s[%s]\nrec.E(%d, %s, %s)", x, v.typ, ok, x, ok, m, key, g.Ev(), x, ok)
			}
		case 4:
			g.Tag("map:delete")
			g.emit("delete(%s, %s)", m, key)
		case 5:
			g.emit("rec.E(%d, len(%s))", g.Ev(), m)
		case 6: // read-modify-write of an element
			switch {
			case v.scalar && v.typ != "bool" && v.typ != "string" && !strings.HasPrefix(v.typ, "complex"):
				g.Tag("map:op-assign")
				op := g.OneOf("map-aop", "+=", "-=", "*=", "++", "--")
				if isNil {
					g.ntMark("nil-map-write")
				}
				if op == "++" || op == "--" {
					g.maybeRisky(isNil, fmt.Sprintf("%s[%s]%s", m, key, op))
				} else {
					g.maybeRisky(isNil, fmt.Sprintf("%s[%s] %s %s", m, key, op, g.opVal(v, op)))
				}
			case v.typ == "string":
				g.Tag("map:op-assign")
				g.maybeRisky(isNil, fmt.Sprintf("%s[%s] += %s", m, key, g.opVal(v, "+=")))
			case v.typ == "[]int":
				g.Tag("map:append-to-elem")
				g.maybeRisky(isNil, fmt.Sprintf("%s[%s] = append(%s[%s], 7)", m, key, m, key))
			case v.typ == "map[string]int":
				g.Tag("map:write-inner-map")
				g.ntMark("nil-map-write")
				g.risky(fmt.Sprintf("%s[%s][\"z\"] = 5", m, key))
			case v == g.structP:
				g.Tag("map:struct-elem-copy")
				x := g.Local("x")
				g.emit("%s := %s[%s]\n%s.X = %s", x, m, key, x, g.val(g.fieldElem("X")))
				g.maybeRisky(isNil, fmt.Sprintf("%s[%s] = %s", m, key, x))
			case v.typ == "[2]int":
				g.Tag("map:array-elem-index")
				g.emit("rec.E(%d, %s[%s][1], len(%s[%s]))", g.Ev(), m, key, m, key)
			default:
				g.emit("rec.E(%d, len(%s))", g.Ev(), m)
			}
		case 7: // range with commutative accumulation
			if k.typ == "int" || k.typ == "uint8" || k.typ == "string" {
				acc, kk := g.Local("acc"), g.Local("k")
				g.Tag("range:map")
				if k.typ == "string" {
					g.emit("%s := 0\nfor %s := range %s {\n\t%s += len(%s) + 1\n}\nrec.E(%d, %s)", acc, kk, m, acc, kk, g.Ev(), acc)
				} else {
					g.emit("%s := 0\nfor %s := range %s {\n\t%s += int(%s)*3 + 1\n}\nrec.E(%d, %s)", acc, kk, m, acc, kk, g.Ev(), acc)
				}
			}
		case 8: // alias: maps are references
			m2 := g.Local("m")
			g.Tag("map:alias")
			g.emit("%s := %s", m2, m)
			g.maybeRisky(isNil, fmt.Sprintf("%s[%s] = %s", m2, key, g.val(v)))
			g.emit("rec.E(%d, %s, %s)", g.Ev(), m, m2)
		default:
			g.emit("rec.E(%d, %s)", g.Ev(), m)
		}
	}
	g.emit("rec.E(%d, %s, len(%s))", g.Ev(), m, m)
	if g.Chance(1, 4, "iface-key") {
		g.ifaceKeyMap()
	}
}

// opVal draws the right operand of an op-assignment.
func (g *gen) opVal(v *elem, op string) string {
	identity := func(x string) bool {
		return (op == "*=" && x == "1") || (op != "*=" && (x == "0" || x == `""`))
	}
	// arithmetic belongs to C01: its known finding F-C01-3 (x*0 folded to +0 for floats) is not re-reported here
	floatZero := func(x string) bool { return op == "*=" && x == "0" && strings.HasPrefix(v.typ, "float") }
	other := func() string {
		for _, l := range v.lits {
			if !identity(l) && !floatZero(l) {
				return l
			}
		}
		panic("no operand for " + v.typ + " " + op)
	}
	x := g.val(v)
	if floatZero(x) {
		g.Tag("excluded:float-times-constant-zero(F-C01-3)")
		return other()
	}
	if identity(x) {
		if Avoid.IdentityOp {
			OnExcluded("F-C08-5")
			return other()
		}
		g.Tag("map:op-assign-identity-operand")
	}
	return x
}

func (g *gen) ifaceKeyMap() {
	m := g.Local("m")
	g.Tag("map-key:interface")
	g.emit("%s := map[interface{}]int{1: 1, \"a\": 2, 2.5: 3, [2]int{1, 2}: 4, %s{}: 5}", m, g.structP.typ)
	g.emit("rec.E(%d, len(%s), %s[1], %s[\"a\"], %s[[2]int{1, 2}], %s[int8(1)], %s[%s{}])", g.Ev(), m, m, m, m, m, m, g.structP.typ)
	if g.Bool("unhashable") {
		g.Tag("map:unhashable-key")
		k := g.Local("k")
		g.emit("var %s interface{} = []int{1}", k)
		switch g.Pick(3, "unhashable-op") {
		case 0:
			g.risky(fmt.Sprintf("%s[%s] = 1", m, k))
		case 1:
			g.risky(fmt.Sprintf("rec.E(%d, %s[%s])", g.Ev(), m, k))
		default:
			g.risky(fmt.Sprintf("delete(%s, %s)", m, k))
		}
	}
}

// ---------------------------------------------------------------- structs and pointers

func (g *gen) fieldElem(name string) *elem {
	return g.pfields[name]
}

func (g *gen) structScenario() {
	P, Q, R := g.structP.typ, g.structQ.typ, g.typeR
	g.Tag("struct")
	q1, q2 := g.Local("q"), g.Local("q")
	g.emit("%s := %s", q1, g.val(g.structQ))
	g.emit("%s := %s", q2, q1)
	pq := g.Local("p")
	g.emit("%s := &%s", pq, q1)
	recQ := func() {
		g.emit("rec.E(%d, %s, %s, %s == %s, *%s == %s)", g.Ev(), q1, q2, q1, q2, pq, q2)
	}
	recQ()
	var r string
	nops := g.Int(3, 8, "struct-nops")
	for i := 0; i < nops; i++ {
		switch g.Pick(12, "struct-op") {
		case 0: // promoted field through embedding
			g.Tag("struct:promoted-field-write")
			tgt := g.OneOf("q-tgt", q1, q2, pq)
			g.emit("%s.X = %s", tgt, g.val(g.fieldElem("X")))
			recQ()
		case 1:
			g.Tag("struct:embedded-explicit")
			tgt := g.OneOf("q-tgt", q1, q2, pq)
			g.emit("%s.%s.Y = %s", tgt, P, g.val(g.fieldElem("Y")))
			recQ()
		case 2:
			g.Tag("struct:array-field-write")
			tgt := g.OneOf("q-tgt", q1, q2, pq)
			i := g.bound(2, 2, true, "idx")
			ok := i >= 0 && i < 2
			g.ntMark("bounds-adjacent-index")
			g.maybeRisky(!ok, fmt.Sprintf("%s.A[%s] = %d", tgt, g.intForm(i, ok, "place"), g.Int(0, 255, "u8")))
			recQ()
		case 3:
			g.Tag("struct:assign-embedded-whole")
			g.emit("%s.%s = %s", q2, P, g.val(g.structP))
			recQ()
		case 4:
			g.Tag("struct:read-fields")
			g.emit("rec.E(%d, %s.X, %s.%s.X, (*%s).N, %s.A[1], %s.%s)", g.Ev(), q1, q2, P, pq, pq, pq, P)
		case 5: // nil pointer to struct
			np := g.Local("np")
			g.Tag("nil-deref:struct-ptr")
			g.emit("var %s *%s", np, Q)
			switch g.Pick(5, "nil-struct-op") {
			case 0:
				g.risky(fmt.Sprintf("rec.E(%d, %s.N)", g.Ev(), np))
			case 1:
				g.risky(fmt.Sprintf("%s.N = \"w\"", np))
			case 2:
				g.risky(fmt.Sprintf("rec.E(%d, %s.X)", g.Ev(), np))
			case 3:
				if Avoid.NilDerefValue {
					OnExcluded("F-C08-8")
					g.risky(fmt.Sprintf("rec.E(%d, (*%s).N)", g.Ev(), np))
				} else {
					g.Tag("nil-deref:whole-struct-value")
					g.risky(fmt.Sprintf("rec.E(%d, *%s)", g.Ev(), np))
				}
			default:
				g.risky(fmt.Sprintf("%s.A[1] = 3", np))
			}
		case 6: // R: nested struct with reference fields
			if r == "" {
				r = g.Local("r")
				if g.Bool("r-keyed") {
					g.Tag("literal:struct-keyed-nested")
					g.emit("%s := %s{Q: %s, S: []int{1, 2, 3}, M: map[string]int{\"a\": 1}, Ptr: &%s{}, I: %s}", r, R, g.val(g.structQ), P, g.OneOf("r-i", "1", `"s"`, "nil", P+"{}", "[]int{1}"))
				} else {
					g.Tag("literal:struct-partial")
					g.emit("%s := %s{S: make([]int, 2, 4)}", r, R)
				}
			}
			r2 := g.Local("r")
			g.Tag("struct:copy-shares-references")
			g.emit("%s := %s", r2, r)
			g.emit("%s.Q.X = %s", r2, g.val(g.fieldElem("X")))
			g.emit("%s.Q.%s.Y = %s", r2, P, g.val(g.fieldElem("Y")))
			g.risky(fmt.Sprintf("%s.S[0] = 9", r2))
			g.risky(fmt.Sprintf("%s.M[\"b\"] = 2", r2))
			g.risky(fmt.Sprintf("%s.Ptr.X = %s", r2, g.val(g.fieldElem("X"))))
			g.emit("%s.S = append(%s.S, 5)", r2, r2)
			g.ntMark("aliasing-after-append")
			g.emit("rec.E(%d, %s.Q, %s.S[:cap(%s.S)], %s.M, %s.Ptr, %s.I)", g.Ev(), r, r, r, r, r, r)
			g.emit("rec.E(%d, %s.Q, len(%s.S), %s.S[:len(%s.S):len(%s.S)], %s.M, %s.Ptr, %s.I)", g.Ev(), r2, r2, r2, r2, r2, r2, r2, r2)
		case 7: // slice / array / map of structs
			sl := g.Local("sl")
			g.Tag("literal:slice-of-struct-elided")
			g.emit("%s := []%s{%s, {}, %s}", sl, P, elide(g.val(g.structP), P), elide(g.val(g.structP), P))
			i := g.bound(3, 3, true, "idx")
			ok := i >= 0 && i < 3
			g.ntMark("bounds-adjacent-index")
			g.Tag("struct:field-of-slice-elem")
			g.maybeRisky(!ok, fmt.Sprintf("%s[%s].X = %s", sl, g.intForm(i, true, "place"), g.val(g.fieldElem("X"))))
			pe := g.Local("pe")
			g.emit("%s := &%s[1]\n%s.Y = %s", pe, sl, pe, g.val(g.fieldElem("Y")))
			g.emit("rec.E(%d, %s, *%s)", g.Ev(), sl, pe)
		case 8:
			sp := g.Local("sp")
			g.Tag("literal:slice-of-ptr-elided")
			g.emit("%s := []*%s{%s, nil, {}}", sp, P, elide(g.val(g.structP), P))
			i := g.bound(3, 3, true, "idx")
			g.ntMark("bounds-adjacent-index")
			g.risky(fmt.Sprintf("%s[%s].X = %s", sp, g.intForm(i, true, "read"), g.val(g.fieldElem("X"))))
			g.emit("rec.E(%d, %s)", g.Ev(), sp)
		case 9: // new and &T{}
			n1, n2 := g.Local("n"), g.Local("n")
			g.Tag("new-and-addr-literal")
			g.emit("%s := new(%s)\n%s := &%s", n1, Q, n2, g.val(g.structQ))
			g.emit("%s.N = \"new\"\n*%s = *%s\n%s.A[0]++", n1, n2, n1, n2)
			g.emit("rec.E(%d, %s, %s, %s == %s, *%s == *%s)", g.Ev(), n1, n2, n1, n2, n1, n2)
		case 10: // comparing structs holding interfaces with uncomparable dynamic values
			g.Tag("struct:compare-uncomparable-dynamic")
			type_ := "struct {\n\tI interface{}\n}"
			a, b := g.Local("u"), g.Local("u")
			v1 := g.OneOf("unc-1", "1", "[]int{1}", `"s"`, "map[int]int{}", "[2]int{1, 2}")
			v2 := g.OneOf("unc-2", "1", "[]int{1}", `"s"`, "[2]int{1, 2}")
			g.emit("%s := %s{%s}\n%s := %s{I: %s}", a, type_, v1, b, type_, v2)
			g.risky(fmt.Sprintf("rec.E(%d, %s == %s)", g.Ev(), a, b))
			g.risky(fmt.Sprintf("rec.E(%d, %s.I == %s.I)", g.Ev(), a, b))
		default: // pointer to a field and to a local
			pf := g.Local("pf")
			g.Tag("addr-of-field")
			g.emit("%s := &%s.X\n*%s = %s", pf, q1, pf, g.val(g.fieldElem("X")))
			recQ()
		}
	}
	recQ()
}

// elide turns "P{1, 2}" into "{1, 2}" (element type elided inside an outer literal).
func elide(lit, typ string) string {
	return strings.TrimPrefix(lit, typ)
}

// ---------------------------------------------------------------- make and literals

func (g *gen) makeScenario() {
	e := g.pickElem("make-elem")
	g.Tag("make")
	s := g.Local("s")
	g.emit("var %s []%s", s, e.typ)
	l := g.Int(-1, 3, "make-len")
	if g.Bool("make-2") {
		g.Tag("make:len:" + pos(l, 0, 0))
		ls := g.intForm(l, true, "make")
		g.maybeRisky(l < 0, fmt.Sprintf("%s = make([]%s, %s)", s, e.typ, ls))
	} else {
		c := l + g.Int(-1, 2, "make-cap-delta")
		if c < -1 {
			c = -1
		}
		g.Tag(fmt.Sprintf("make:len-vs-cap:%s", pos(l, c, c)))
		ls := g.intForm(l, true, "make")
		cs := g.intForm(c, !(isLit(ls) && c < l), "make")
		g.ntMark("make-len-cap-adjacent")
		if (l < 0 || c < l) && Avoid.MakeLenCap {
			OnExcluded("F-C08-7")
			g.emit("_, _ = %s, %s", ls, cs)
		} else {
			g.riskyAny(fmt.Sprintf("%s = make([]%s, %s, %s)", s, e.typ, ls, cs))
		}
	}
	g.emit("rec.E(%d, %s, %s == nil)", g.Ev(), s, s)
	if g.Bool("make-new") {
		p := g.Local("p")
		g.Tag("new:" + e.short)
		g.emit("%s := new(%s)\nrec.E(%d, *%s)\n*%s = %s\nrec.E(%d, %s)", p, e.typ, g.Ev(), p, p, g.val(e), g.Ev(), p)
	}
}

func (g *gen) literalScenario() {
	e := g.pickElem("lit-elem")
	x := g.Local("x")
	switch g.Pick(9, "literal-kind") {
	case 0: // index keys in a slice literal
		g.Tag("literal:slice-index-keys")
		g.emit("%s := []%s{%d: %s, %s, %d: %s}", x, e.typ, g.Int(2, 4, "k1"), g.val(e), g.val(e), g.Int(0, 1, "k2"), g.val(e))
	case 1:
		g.Tag("literal:array-ellipsis-index-keys")
		g.emit("%s := [...]%s{%d: %s, %s, 0: %s}", x, e.typ, g.Int(1, 4, "k1"), g.val(e), g.val(e), g.val(e))
		g.emit("rec.E(%d, len(%s))", g.Ev(), x)
	case 2:
		g.Tag("literal:array-sparse")
		g.emit("%s := [5]%s{%d: %s}", x, e.typ, g.Int(0, 4, "k1"), g.val(e))
	case 3:
		g.Tag("literal:nested-slices-elided")
		g.emit("%s := [][]%s{{%s, %s}, {}, nil, {%s}}", x, e.typ, g.val(e), g.val(e), g.val(e))
		g.risky(fmt.Sprintf("rec.E(%d, %s[%s][%s])", g.Ev(), x, g.intForm(g.Int(0, 4, "i"), true, "read"), g.intForm(g.Int(0, 2, "j"), true, "read")))
		g.ntMark("bounds-adjacent-index")
	case 4:
		g.Tag("literal:array-of-arrays")
		g.emit("%s := [2][3]%s{{%s}, {1: %s}}", x, e.typ, g.val(e), g.val(e))
		r := g.Local("row")
		g.emit("%s := %s[1]\n%s[0] = %s\nrec.E(%d, %s, len(%s), len(%s[0]))", r, x, r, g.val(e), g.Ev(), r, x, x)
	case 5:
		g.Tag("literal:map-of-struct-elided")
		g.emit("%s := map[string]%s{\"a\": %s, \"b\": {}}", x, g.structP.typ, elide(g.val(g.structP), g.structP.typ))
		g.emit("rec.E(%d, %s[\"a\"].X, %s[\"zz\"])", g.Ev(), x, x)
	case 6:
		g.Tag("literal:map-array-key-elided")
		g.emit("%s := map[[2]int]%s{{1, 2}: %s, {}: %s}", x, e.typ, g.val(e), g.val(e))
		g.emit("rec.E(%d, %s[[2]int{1, 2}], len(%s))", g.Ev(), x, x)
	case 7:
		g.Tag("literal:map-struct-key")
		P := g.structP.typ
		g.emit("%s := map[%s]%s{%s: %s}", x, P, e.typ, elide(g.structP.lits[0], P), g.val(e))
		g.emit("%s[%s] = %s", x, g.val(g.structP), g.val(e))
		g.emit("rec.E(%d, %s[%s], len(%s))", g.Ev(), x, g.structP.lits[0], x)
	default: // non-constant elements: evaluation order of calls is lexical
		g.Tag("literal:calls-in-index-keyed")
		f := g.Px + "ord"
		g.addHelper(f, fmt.Sprintf("func %s(n int) int {\n\trec.E(\"ord\", n)\n\treturn n\n}", f))
		g.emit("%s := []int{2: %s(1), 0: %s(2), %s(3)}", x, f, f, f)
	}
	g.emit("rec.E(%d, %s)", g.Ev(), x)
}

// ---------------------------------------------------------------- program

func (g *gen) setupTypes() {
	sc := []*elem{
		{typ: "int", lits: []string{"1", "0", "-7", "42", "1000003"}, short: "int"},
		{typ: "int8", lits: []string{"-128", "127", "5", "0"}, short: "int8"},
		{typ: "uint8", lits: []string{"200", "255", "1", "0"}, short: "uint8"},
		{typ: "uint16", lits: []string{"65535", "256", "0"}, short: "uint16"},
		{typ: "int32", lits: []string{"-2147483648", "70000", "0"}, short: "int32"},
		{typ: "int64", lits: []string{"1 << 40", "-1 << 63", "3", "0"}, short: "int64"},
		{typ: "uint64", lits: []string{"18446744073709551615", "1 << 63", "9", "0"}, short: "uint64"},
		{typ: "uint", lits: []string{"3", "1 << 32", "0"}, short: "uint"},
		{typ: "float32", lits: []string{"1.5", "-0.25", "3e38", "0"}, short: "float32"},
		{typ: "float64", lits: []string{"2.5", "-1e300", "0.1", "0"}, short: "float64"},
		{typ: "complex128", lits: []string{"(1 - 2i)", "3i", "0"}, short: "complex128"},
		{typ: "string", lits: []string{`"a"`, `""`, `"héé"`, `"xyz"`}, short: "string"},
		{typ: "bool", lits: []string{"true", "false"}, short: "bool"},
	}
	for _, e := range sc {
		e.scalar, e.cmp, e.key = true, true, true
	}
	g.scalars = sc
	// struct types of this program
	fx, fy := g.pickScalar("field-x"), g.pickScalar("field-y")
	g.pfields = map[string]*elem{"X": fx, "Y": fy}
	P := g.Top("P")
	Q := g.Top("Q")
	R := g.Top("R")
	g.Decls = append(g.Decls, fmt.Sprintf("type %s struct {\n\tX %s\n\tY %s\n}", P, fx.typ, fy.typ))
	g.Decls = append(g.Decls, fmt.Sprintf("type %s struct {\n\t%s\n\tN string\n\tA [2]uint8\n}", Q, P))
	g.Decls = append(g.Decls, fmt.Sprintf("type %s struct {\n\tQ %s\n\tS []int\n\tM map[string]int\n\tPtr *%s\n\tI interface{}\n}", R, Q, P))
	g.structP = &elem{typ: P, cmp: true, key: true, short: "struct",
		lits: []string{P + "{" + fx.lits[0] + ", " + fy.lits[0] + "}", P + "{X: " + fx.lits[1] + "}", P + "{}", P + "{Y: " + fy.lits[1] + ", X: " + fx.lits[0] + "}"}}
	g.structQ = &elem{typ: Q, cmp: true, short: "struct-embedding",
		lits: []string{Q + "{" + g.structP.lits[0] + ", \"n\", [2]uint8{1, 2}}", Q + "{N: \"k\", A: [2]uint8{1: 9}}", Q + "{" + P + ": " + g.structP.lits[1] + "}", Q + "{}"}}
	g.typeR = R
	ip := g.Px + "ip"
	comp := []*elem{
		{typ: "[2]int", lits: []string{"[2]int{1, 2}", "[2]int{}", "[2]int{1: 5}", "[...]int{7, 8}"}, cmp: true, key: true, short: "array"},
		{typ: "[]int", lits: []string{"[]int{1, 2, 3}", "nil", "[]int{}", "make([]int, 1, 2)"}, short: "slice"},
		{typ: "*int", lits: []string{ip + "(3)", "nil", "new(int)"}, short: "ptr"},
		{typ: "map[string]int", lits: []string{"map[string]int{\"a\": 1}", "nil", "map[string]int{}"}, short: "map"},
		{typ: "interface{}", lits: []string{"1", `"s"`, "nil", "2.5", "[2]int{1, 2}", P + "{}", "uint8(1)"}, key: true, short: "interface"},
		g.structP, g.structQ,
	}
	g.addHelper(ip, fmt.Sprintf("func %s(v int) *int {\n\treturn &v\n}", ip))
	g.elems = append(append([]*elem{}, sc...), comp...)
}

// Generate builds one C08 program.
func Generate(t *rapid.T, px string) gobatch.Program {
	g := &gen{G: progen.New(t, px, 60), nt: map[string]bool{}, helpers: map[string]string{}}
	g.setupTypes()
	entry := g.Top("main")
	nsc := g.Int(2, 6, "nscenarios")
	var bodies []string
	for i := 0; i < nsc; i++ {
		body := g.capture(func() {
			switch g.Pick(12, "scenario") {
			case 0, 1, 2, 3:
				g.sliceScenario()
			case 4, 5:
				g.arrayScenario()
			case 6, 7:
				g.mapScenario()
			case 8:
				g.stringScenario()
			case 9:
				g.structScenario()
			case 10:
				g.makeScenario()
			default:
				g.literalScenario()
			}
		})
		// each scenario in its own block: its locals do not collide and go out of scope
		bodies = append(bodies, "{\n"+progen.Indent(body)+"}\n")
	}
	for _, h := range g.horder {
		g.Decls = append(g.Decls, g.helpers[h])
	}
	g.Decls = append(g.Decls, fmt.Sprintf("func %s() {\n%s}", entry, progen.Indent(strings.Join(bodies, ""))))
	var nts []string
	for k := range g.nt {
		nts = append(nts, k)
	}
	sort.Strings(nts)
	for _, k := range nts {
		g.Tag("nt:" + k)
	}
	p := gobatch.Program{Decls: g.Decls, Entry: entry, Tags: g.TagList()}
	if len(nts) > 0 {
		p.NT = "bounds-adjacent-or-aliasing-after-append"
	}
	return p
}
