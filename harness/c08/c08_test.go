// C08: composite data types and builtins behave as in Go; run-time panics happen
// exactly when (and of the class that) compiled Go panics.
// Oracle: the Go toolchain (batch build of all generated programs, go 1.18 level).
package c08

import (
	"os"
	"testing"
	"time"

	"verif/harness/gobatch"
	"verif/harness/vlib"
)

var rec *vlib.Rec

func TestMain(m *testing.M) {
	rec = vlib.Open("C08")
	rec.Rule("cases = generated Go programs made of 2-6 scenarios, each a short straight-line history of operations on one family of aliased values: " +
		"slices (make/literal/nil/array-backed; index read/write, 2- and 3-index slicing, append to the slice or a prefix incl. self-spread, copy with overlap, &s[i], callee writes, range), " +
		"arrays (value copy, pointer to array, slicing array and pointer, compare, by-value parameter, range over copy vs pointer, nil *array), strings, " +
		"maps (nil/make/literal; insert, read, comma-ok, delete, op-assign, aliases, struct/array/interface keys, unhashable keys), structs (embedding, promoted fields, copies sharing references, nil pointers, ==, uncomparable dynamic values), " +
		"make with len/cap, new, composite literals (keyed, positional, elided, index keys, [...]); element kinds: 13 basic kinds, array, slice, pointer, map, interface, 2 struct types; " +
		"every index / bound is drawn from {-1, 0, 1, len-1, len, len+1, cap-1, cap, cap+1} and rendered as a constant or through an int/uint8/int64/uint variable; " +
		"operations that may panic run in a closure whose deferred function records the class of the recovered run-time error; " +
		"a case is non-trivial when it performs an index or slice operation with a bound within 1 of 0, len or cap, or writes through the result of an append and then reads every alias; distinct = distinct program texts")
	rec.Assume("oracle: gc toolchain, generated module with `go 1.18`, values formatted by the same compiled recorder on both sides")
	rec.Assume("run-time errors are compared by class (index, slicebounds, nilmap, nilptr, makesize, unhashable, uncomparable), not by message text")
	rec.Assume("the capacity chosen by append when it must grow is not specified by Go: after such an append the generated program only observes the slice up to len and clamps the capacity before appending again")
	rec.Assume("EvalTimeout of the interpreter side raised to 5 min: on the shared, heavily loaded machine a fresh process needs up to 30 s before its first evaluation; the timeout stays a safety net, never an oracle")
	gobatch.EvalTimeout = 5 * time.Minute
	// exclusions by construction, each only while the finding is listed as "known"
	Avoid.NonInt = rec.Known("F-C08-1")
	Avoid.CopyResult = rec.Known("F-C08-2")
	Avoid.NilArrayCap = rec.Known("F-C08-3")
	Avoid.RangePtrArray = rec.Known("F-C08-4")
	Avoid.IdentityOp = rec.Known("F-C08-5")
	Avoid.NilIfaceKey = rec.Known("F-C08-6")
	Avoid.MakeLenCap = rec.Known("F-C08-7")
	Avoid.NilDerefValue = rec.Known("F-C08-8")
	Avoid.EllipsisHint = rec.Known("F-C08-9")
	Avoid.AppendOverlap = rec.Known("F-C08-11")
	OnExcluded = func(id string) { rec.Excluded(id) }
	os.Exit(vlib.Main(m, rec))
}

func known(p gobatch.Program, got, want gobatch.Result) string { return "" }

func TestComposites(t *testing.T) {
	gobatch.Run(t, gobatch.Config{
		Rec: rec, Name: "c08", N: rec.Scale(300, 3000),
		Gen: Generate, Known: known,
	})
}

func TestReplays(t *testing.T) {
	rec.RunReplays(t, gobatch.Replayer(known))
}
