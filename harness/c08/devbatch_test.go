//go:build c08dev

package c08

import (
	"bytes"
	"fmt"
	"os"
	"os/exec"
	"path/filepath"
	"sort"
	"strings"
	"testing"
	"time"

	"pgregory.net/rapid"

	"verif/harness/gobatch"
)

const devMain = `package main

import (
	"fmt"
	"os"
	"bufio"
	"verif/rec"
	"verif/p"
)

var out = bufio.NewWriter(os.Stdout)

func run(id string, f func()) {
	rec.Reset()
	esc := ""
	func() {
		defer func() {
			if p := recover(); p != nil {
				esc = rec.P(p)
			}
		}()
		f()
	}()
	fmt.Fprintf(out, "#CASE %%s\n", id)
	for _, l := range rec.Take() {
		fmt.Fprintf(out, " %%s\n", l)
	}
	if esc != "" {
		fmt.Fprintf(out, "!%%s\n", esc)
	}
}

func main() {
	defer out.Flush()
%s}
`

// TestDevBatch: C08_BATCH=n programs, all compared with one oracle build; prints every disagreement's first differing line.
func TestDevBatch(t *testing.T) {
	if os.Getenv("C08_BATCH") == "" {
		t.Skip()
	}
	gobatch.EvalTimeout = 10 * time.Minute
	av := os.Getenv("C08_AVOID") // digits of the findings to avoid, e.g. 134567
	Avoid.NonInt = strings.Contains(av, "1")
	Avoid.CopyResult = strings.Contains(av, "2")
	Avoid.NilArrayCap = strings.Contains(av, "3")
	Avoid.RangePtrArray = strings.Contains(av, "4")
	Avoid.IdentityOp = strings.Contains(av, "5")
	Avoid.NilIfaceKey = strings.Contains(av, "6")
	Avoid.MakeLenCap = strings.Contains(av, "7")
	Avoid.NilDerefValue = strings.Contains(av, "8")
	Avoid.EllipsisHint = strings.Contains(av, "9")
	Avoid.AppendOverlap = strings.Contains(av, "a")
	n := 0
	fmt.Sscan(os.Getenv("C08_BATCH"), &n)
	type cs struct {
		p   gobatch.Program
		got gobatch.Result
	}
	var cases []cs
	seq := 0
	rapid.Check(t, func(rt *rapid.T) {
		seq++
		if seq > n {
			return
		}
		p := Generate(rt, fmt.Sprintf("D%d_", seq))
		if err := gobatch.Vet(p); err != nil {
			fmt.Println("VET:", err)
			os.WriteFile(fmt.Sprintf("/tmp/c08dev/vet%d.go", seq), []byte(p.Source("p")), 0o644)
			return
		}
		cases = append(cases, cs{p, gobatch.RunInterp(p)})
	})
	dir := "/tmp/c08dev/m"
	os.RemoveAll(dir)
	os.MkdirAll(dir+"/rec", 0o755)
	os.MkdirAll(dir+"/p", 0o755)
	os.WriteFile(dir+"/go.mod", []byte("module verif\n\ngo 1.18\n"), 0o644)
	src, _ := os.ReadFile("/verif/harness/gobatch/rec/rec.go")
	os.WriteFile(dir+"/rec/rec.go", src, 0o644)
	var calls strings.Builder
	for i, c := range cases {
		os.WriteFile(fmt.Sprintf("%s/p/c%d.go", dir, i), []byte(c.p.Source("p")), 0o644)
		fmt.Fprintf(&calls, "\trun(\"%d\", p.%s)\n", i, c.p.Entry)
	}
	os.WriteFile(dir+"/main.go", []byte(fmt.Sprintf(devMain, calls.String())), 0o644)
	cmd := exec.Command("go", "build", "-o", "o.bin", ".")
	cmd.Dir = dir
	cmd.Env = append(os.Environ(), "GOFLAGS=-mod=mod", "GOPROXY=off", "GOSUMDB=off", "GOTOOLCHAIN=local", "GOWORK=off")
	if outb, err := cmd.CombinedOutput(); err != nil {
		t.Fatalf("build: %v\n%s", err, outb)
	}
	var stdout bytes.Buffer
	run := exec.Command(filepath.Join(dir, "o.bin"))
	run.Stdout = &stdout
	if err := run.Run(); err != nil {
		t.Fatalf("run: %v", err)
	}
	want := map[string]gobatch.Result{}
	var cur string
	var r gobatch.Result
	flush := func() {
		if cur != "" {
			want[cur] = r
		}
	}
	for _, line := range strings.Split(stdout.String(), "\n") {
		switch {
		case strings.HasPrefix(line, "#CASE "):
			flush()
			cur = strings.TrimPrefix(line, "#CASE ")
			r = gobatch.Result{}
		case strings.HasPrefix(line, " "):
			r.Trace = append(r.Trace, line[1:])
		case strings.HasPrefix(line, "!"):
			r.Panic = line[1:]
		}
	}
	flush()
	classes := map[string][]int{}
	nbad := 0
	for i, c := range cases {
		w := want[fmt.Sprint(i)]
		if c.got.Equal(w) {
			continue
		}
		nbad++
		k := ""
		switch {
		case c.got.Err != "":
			k = c.got.Err
			if j := strings.Index(k, ": "); j > 0 { // drop "compile"
				k = k[j+2:]
			}
			if j := strings.Index(k, ": "); j > 0 { // drop position
				k = k[j+2:]
			}
			if j := strings.Index(k, "\n"); j > 0 {
				k = k[:j]
			}
			k = "ERR " + k
		default:
			j := 0
			for j < len(c.got.Trace) && j < len(w.Trace) && c.got.Trace[j] == w.Trace[j] {
				j++
			}
			g, ww := "<end> esc="+c.got.Panic, "<end> esc="+w.Panic
			if j < len(c.got.Trace) {
				g = c.got.Trace[j]
			}
			if j < len(w.Trace) {
				ww = w.Trace[j]
			}
			k = "DIFF gomacro: " + g + " | gc: " + ww
		}
		if len(k) > 230 {
			k = k[:230]
		}
		classes[k] = append(classes[k], i)
		os.WriteFile(fmt.Sprintf("/tmp/c08dev/bad%d.go", i), append(c.p.Replay(), []byte("\n/*\n"+gobatch.Diff(c.got, w)+"*/\n")...), 0o644)
	}
	var ks []string
	for k := range classes {
		ks = append(ks, k)
	}
	sort.Strings(ks)
	fmt.Printf("%d of %d disagree\n", nbad, len(cases))
	for _, k := range ks {
		fmt.Printf("%3d %v  %s\n", len(classes[k]), classes[k][:min(3, len(classes[k]))], k)
	}
}

func min(a, b int) int {
	if a < b {
		return a
	}
	return b
}
