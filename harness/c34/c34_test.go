// C34: generic-contract (CTI) methods on basic and container types agree with Go's
// operators and builtins. Oracle O3: the operator / builtin applied by the harness.
package c34

import (
	"bytes"
	"encoding/json"
	"fmt"
	"go/token"
	"os"
	"reflect"
	"runtime/debug"
	"sort"
	"strings"
	"testing"

	"github.com/cosmos72/gomacro/fast"
	"github.com/cosmos72/gomacro/go/etoken"
	xr "github.com/cosmos72/gomacro/xreflect"
	"pgregory.net/rapid"

	"verif/harness/vlib"
)

var rec *vlib.Rec

func TestMain(m *testing.M) {
	// process-global switch, must be set before the interpreter (its universe) is created
	etoken.GENERICS = etoken.GENERICS_V2_CTI
	debug.SetGCPercent(400)
	rec = vlib.Open("C34")
	rec.Rule("basic kinds: every cell (contract method, basic kind, call form: method call / method expression / method value) over boundary operand pairs of the kind plus seed-derived random pairs; " +
		"a cell is non-trivial when one of its pairs has an operand outside {0,1} or a wrapping / panicking / non-finite result; " +
		"containers: rapid-generated operations on slices, arrays, maps, channels, strings; non-trivial = container with >= 2 elements or a panicking index; distinct = distinct cells / distinct (method, container, arguments) texts")
	rec.Assume("O3: Go's operators and builtins compiled into the harness by gc")
	rec.Assume("etoken.GENERICS = GENERICS_V2_CTI is set before fast.New(); the check owns its process")
	rec.Assume("calls that the interpreter does not compile are outside the property ('whenever ... compiles') and are counted")
	os.Exit(vlib.Main(m, rec))
}

var (
	interp *fast.Interp
	out    bytes.Buffer
)

func ir() *fast.Interp {
	if interp == nil {
		interp = fast.New()
		interp.Comp.Globals.Stdout = &out
		interp.Comp.Globals.Stderr = &out
	}
	return interp
}

// compileFunc evaluates a function literal; a compile failure is returned as error text.
func compileFunc(src string) (fn reflect.Value, cerr string) {
	var fv xr.Value
	if p := vlib.Try(func() { fv, _ = ir().Eval1(src) }); p != nil {
		return reflect.Value{}, fmt.Sprint(p)
	}
	fn = fv.ReflectValue()
	if fn.Kind() != reflect.Func {
		return reflect.Value{}, "not a function: " + fn.Kind().String()
	}
	return fn, ""
}

func classifyPanic(p interface{}) string {
	msg := fmt.Sprint(p)
	if err, ok := p.(error); ok {
		msg = err.Error()
	}
	switch {
	case strings.Contains(msg, "divide by zero"):
		return pDiv0
	case strings.Contains(msg, "index out of range"):
		return "index"
	case strings.Contains(msg, "out of bounds"), strings.Contains(msg, "bounds out of range"):
		return "bounds"
	case strings.Contains(msg, "nil map"):
		return "nilmap"
	case strings.Contains(msg, "closed channel"), strings.Contains(msg, "close of nil channel"):
		return "chan"
	}
	if len(msg) > 160 {
		msg = msg[:160]
	}
	return "other: " + msg
}

// ---------------------------------------------------------------- basic kinds

// methodSpec: how a contract method maps to a Go operator.
type methodSpec struct {
	name  string
	arity int         // operands besides the ignored receiver (1 or 2); for Equal/Cmp/Less/Real/Imag/Len the receiver is an operand
	recv  bool        // the receiver is the first operand
	op    token.Token // operator
	res   string      // "same" | "bool" | "int" | "part" | "byte" | "string"
	kind  string      // bin | cmp | cmp3 | un | shift | real | imag | len | index | slice
}

var methodSpecs = map[string]methodSpec{
	"Equal":  {name: "Equal", arity: 2, recv: true, op: token.EQL, res: "bool", kind: "cmp"},
	"Less":   {name: "Less", arity: 2, recv: true, op: token.LSS, res: "bool", kind: "cmp"},
	"Cmp":    {name: "Cmp", arity: 2, recv: true, res: "int", kind: "cmp3"},
	"Add":    {name: "Add", arity: 2, op: token.ADD, res: "same", kind: "bin"},
	"Sub":    {name: "Sub", arity: 2, op: token.SUB, res: "same", kind: "bin"},
	"Mul":    {name: "Mul", arity: 2, op: token.MUL, res: "same", kind: "bin"},
	"Quo":    {name: "Quo", arity: 2, op: token.QUO, res: "same", kind: "bin"},
	"Rem":    {name: "Rem", arity: 2, op: token.REM, res: "same", kind: "bin"},
	"And":    {name: "And", arity: 2, op: token.AND, res: "same", kind: "bin"},
	"AndNot": {name: "AndNot", arity: 2, op: token.AND_NOT, res: "same", kind: "bin"},
	"Or":     {name: "Or", arity: 2, op: token.OR, res: "same", kind: "bin"},
	"Xor":    {name: "Xor", arity: 2, op: token.XOR, res: "same", kind: "bin"},
	"Neg":    {name: "Neg", arity: 1, op: token.SUB, res: "same", kind: "un"},
	"Not":    {name: "Not", arity: 1, op: token.XOR, res: "same", kind: "un"}, // ! for bool
	"Lsh":    {name: "Lsh", arity: 2, op: token.SHL, res: "same", kind: "shift"},
	"Rsh":    {name: "Rsh", arity: 2, op: token.SHR, res: "same", kind: "shift"},
	"Real":   {name: "Real", arity: 1, recv: true, res: "part", kind: "real"},
	"Imag":   {name: "Imag", arity: 1, recv: true, res: "part", kind: "imag"},
	"Len":    {name: "Len", arity: 1, recv: true, res: "int", kind: "len"},
	"Index":  {name: "Index", arity: 2, recv: true, res: "byte", kind: "index"},
	"Slice":  {name: "Slice", arity: 3, recv: true, res: "same", kind: "slice"},
}

var callForms = []string{"call", "expr", "value"}

// basicCase is the replay form of one basic-kind case.
type basicCase struct {
	Part   string `json:"part"` // "basic"
	Kind   string `json:"kind"`
	Method string `json:"method"`
	Form   string `json:"form"`
	A      string `json:"a"`
	B      string `json:"b,omitempty"`
	I      int    `json:"i,omitempty"`
	J      int    `json:"j,omitempty"`
	Src    string `json:"interpreter_source,omitempty"`
	Note   string `json:"note,omitempty"`
}

func partKind(k kindT) kindT {
	if k.Bits() == 64 {
		return kindByName["float32"]
	}
	return kindByName["float64"]
}

// basicSource renders the function literal for (kind, method, form).
func basicSource(k kindT, ms methodSpec, form string) string {
	T := k.Name()
	var R, params, args, recvName string
	switch ms.res {
	case "same":
		R = T
	case "bool":
		R = "bool"
	case "int":
		R = "int"
	case "byte":
		R = "uint8"
	case "part":
		R = partKind(k).Name()
	}
	switch ms.kind {
	case "shift":
		params, args = "a "+T+", b uint8", "a, b"
	case "index":
		params, args = "a "+T+", i int", "i"
	case "slice":
		params, args = "a "+T+", i int, j int", "i, j"
	default:
		switch {
		case ms.recv && ms.arity == 1:
			params, args = "a "+T, ""
		case ms.recv:
			params, args = "a "+T+", b "+T, "b"
		case ms.arity == 1:
			params, args = "a "+T, "a"
		default:
			params, args = "a "+T+", b "+T, "a, b"
		}
	}
	pre := ""
	recvName = "a"
	if !ms.recv {
		pre = "var z " + T + "; "
		recvName = "z"
	}
	var call string
	switch form {
	case "call":
		call = recvName + "." + ms.name + "(" + args + ")"
	case "expr":
		all := recvName
		if args != "" {
			all += ", " + args
		}
		call = T + "." + ms.name + "(" + all + ")"
	case "value":
		pre += "f := " + recvName + "." + ms.name + "; "
		call = "f(" + args + ")"
	}
	return "(func(" + params + ") " + R + " { " + pre + "return " + call + " })"
}

type bOutcome struct {
	text string // canonical value
	pan  string
}

func (o bOutcome) String() string {
	if o.pan != "" {
		return "panic(" + o.pan + ")"
	}
	return o.text
}

// basicOracle: Go's operator on (a, b) / builtin on (a, i, j).
func basicOracle(k kindT, ms methodSpec, a, b val, i, j int) bOutcome {
	switch ms.kind {
	case "bin":
		r, p := k.Bin(ms.op, a, b)
		if p != "" {
			return bOutcome{pan: p}
		}
		return bOutcome{text: k.Canon(r)}
	case "cmp":
		return bOutcome{text: fmt.Sprint(k.Cmp(ms.op, a, b))}
	case "cmp3":
		switch {
		case k.Cmp(token.LSS, a, b):
			return bOutcome{text: "int(-1)"}
		case k.Cmp(token.GTR, a, b):
			return bOutcome{text: "int(1)"}
		case k.Cmp(token.EQL, a, b):
			return bOutcome{text: "int(0)"}
		}
		return bOutcome{text: "unordered"} // NaN: the property names no operator for it
	case "un":
		op := ms.op
		if k.Class() == cBool {
			op = token.NOT
		}
		return bOutcome{text: k.Canon(k.Un(op, a))}
	case "shift":
		return bOutcome{text: k.Canon(k.Shift(ms.op, a, b.u))}
	case "real":
		pk := partKind(k)
		x := a.c
		return bOutcome{text: pk.Canon(val{f: real(x)})}
	case "imag":
		pk := partKind(k)
		x := a.c
		return bOutcome{text: pk.Canon(val{f: imag(x)})}
	case "len":
		s := a.s
		return bOutcome{text: fmt.Sprintf("int(%d)", len(s))}
	case "index":
		s := a.s
		var r bOutcome
		if p := vlib.Try(func() { r = bOutcome{text: fmt.Sprintf("uint8(%d)", s[i])} }); p != nil {
			return bOutcome{pan: classifyPanic(p)}
		}
		return r
	case "slice":
		s := a.s
		var r bOutcome
		if p := vlib.Try(func() { r = bOutcome{text: k.Canon(val{s: s[i:j]})} }); p != nil {
			return bOutcome{pan: classifyPanic(p)}
		}
		return r
	}
	panic("basicOracle: " + ms.kind)
}

func canonResult(k kindT, ms methodSpec, rv reflect.Value) string {
	switch ms.res {
	case "same":
		v, err := k.FromReflect(rv)
		if err != nil {
			return "bad result: " + err.Error()
		}
		return k.Canon(v)
	case "bool":
		if rv.Kind() != reflect.Bool {
			return "bad result kind " + rv.Kind().String()
		}
		return fmt.Sprint(rv.Bool())
	case "int":
		if rv.Kind() != reflect.Int {
			return "bad result kind " + rv.Kind().String()
		}
		return fmt.Sprintf("int(%d)", rv.Int())
	case "byte":
		if rv.Kind() != reflect.Uint8 {
			return "bad result kind " + rv.Kind().String()
		}
		return fmt.Sprintf("uint8(%d)", rv.Uint())
	case "part":
		pk := partKind(k)
		v, err := pk.FromReflect(rv)
		if err != nil {
			return "bad result: " + err.Error()
		}
		return pk.Canon(v)
	}
	return "?"
}

func basicArgs(k kindT, ms methodSpec, a, b val, i, j int) []reflect.Value {
	switch ms.kind {
	case "shift":
		return []reflect.Value{k.ToReflect(a), reflect.ValueOf(uint8(b.u))}
	case "index":
		return []reflect.Value{k.ToReflect(a), reflect.ValueOf(i)}
	case "slice":
		return []reflect.Value{k.ToReflect(a), reflect.ValueOf(i), reflect.ValueOf(j)}
	}
	if ms.arity == 1 {
		return []reflect.Value{k.ToReflect(a)}
	}
	return []reflect.Value{k.ToReflect(a), k.ToReflect(b)}
}

// checkBasic runs one call and compares; "" if it agrees.
func checkBasic(fn reflect.Value, k kindT, ms methodSpec, a, b val, i, j int) string {
	want := basicOracle(k, ms, a, b, i, j)
	if want.text == "unordered" {
		return ""
	}
	var got bOutcome
	var res []reflect.Value
	if p := vlib.Try(func() { res = fn.Call(basicArgs(k, ms, a, b, i, j)) }); p != nil {
		got.pan = classifyPanic(p)
	} else {
		got.text = canonResult(k, ms, res[0])
	}
	if got != want {
		return fmt.Sprintf("%s.%s a=%s b=%s i=%d j=%d: interpreter %v, Go %v", k.Name(), ms.name, k.Canon(a), k.Canon(b), i, j, got, want)
	}
	return ""
}

// declaredMethods asks the interpreter which methods the basic type has.
func declaredMethods(k kindT) []string {
	_, t := ir().Eval1("(*" + k.Name() + ")(nil)")
	xt := t.Elem()
	var l []string
	for i := 0; i < xt.NumMethod(); i++ {
		l = append(l, xt.Method(i).Name)
	}
	sort.Strings(l)
	return l
}

type pair struct{ a, b val }

func basicPairs(k kindT, ms methodSpec, r *rng) []pair {
	B := k.Boundary()
	var out []pair
	if ms.kind == "shift" {
		for _, a := range B {
			for _, n := range []uint64{0, 1, 2, 7, 8, 15, 16, 31, 32, 33, 63, 64, 65, 127, 128, 255, uint64(k.Bits() - 1), uint64(k.Bits()), uint64(k.Bits() + 1)} {
				if len(B) > 100 && r.next()%3 != 0 && n > 1 {
					continue
				}
				out = append(out, pair{a, val{u: n}})
			}
		}
		return out
	}
	if ms.arity == 1 {
		for _, a := range B {
			out = append(out, pair{a: a})
		}
		for i := 0; i < rec.Scale(64, 2000); i++ {
			out = append(out, pair{a: k.Random(r)})
		}
		return out
	}
	sp := 14
	for i := 0; i < sp && i < len(B); i++ {
		for j := 0; j < sp && j < len(B); j++ {
			out = append(out, pair{B[i], B[j]})
		}
	}
	reps := rec.Scale(1, 6)
	if len(B)*len(B) <= rec.Scale(3000, 200000) {
		for _, a := range B {
			for _, b := range B {
				out = append(out, pair{a, b})
			}
		}
	} else {
		for n := 0; n < reps; n++ {
			for _, a := range B {
				out = append(out, pair{a, B[r.next()%uint64(len(B))]})
				out = append(out, pair{B[r.next()%uint64(len(B))], a})
			}
		}
		for _, a := range B {
			out = append(out, pair{a, a})
		}
	}
	for i := 0; i < rec.Scale(64, 2000); i++ {
		out = append(out, pair{k.Random(r), k.Random(r)})
	}
	return out
}

var failures int

func TestBasicKinds(t *testing.T) {
	if rec.ReplayOnly() {
		return
	}
	idx := 0
	for _, k := range allKinds {
		methods := declaredMethods(k)
		rec.Label(fmt.Sprintf("declared-methods:%s:%d", k.Name(), len(methods)))
		for _, name := range methods {
			ms, ok := methodSpecs[name]
			if !ok || (k.Class() != cString && (ms.kind == "len" || ms.kind == "index" || ms.kind == "slice")) {
				t.Errorf("harness: method %s.%s is declared by the interpreter but the check has no oracle for it", k.Name(), name)
				continue
			}
			for _, form := range callForms {
				idx++
				if !rec.Mine(idx) || failures > 12 {
					continue
				}
				sweepBasic(t, k, ms, form)
			}
		}
	}
}

func sweepBasic(t *testing.T, k kindT, ms methodSpec, form string) {
	cell := k.Name() + "." + ms.name + "/" + form
	src := basicSource(k, ms, form)
	fn, cerr := compileFunc(src)
	if cerr != "" {
		rec.Label("excluded:does-not-compile:" + form)
		rec.Note("does not compile (%s): %s: %s", form, src, firstLine(cerr))
		return
	}
	r := newRng(rec.Seed(), cell)
	n, nt := 0, false
	report := func(a, b val, i, j int, msg string) {
		failures++
		c := basicCase{Part: "basic", Kind: k.Name(), Method: ms.name, Form: form, A: encodeVal(k, a), B: encodeVal(k, b), I: i, J: j, Src: src, Note: msg}
		if ms.kind == "shift" {
			c.B = fmt.Sprint(b.u)
		}
		data, _ := json.MarshalIndent(c, "", " ")
		rec.Violation("basic:"+cell, data, "json", "%s: %s", src, msg)
		t.Errorf("%s: %s: %s", cell, src, msg)
	}
	switch ms.kind {
	case "len", "index", "slice":
		for _, a := range k.Boundary() {
			L := len(a.s)
			for _, i := range []int{0, 1, 2, L - 1, L, L + 1, -1} {
				js := []int{0}
				if ms.kind == "slice" {
					js = []int{0, 1, i, L - 1, L, L + 1, -1}
				}
				for _, j := range js {
					n++
					nt = nt || L >= 2
					if msg := checkBasic(fn, k, ms, a, val{}, i, j); msg != "" {
						report(a, val{}, i, j, msg)
						return
					}
				}
				if ms.kind == "len" {
					break
				}
			}
		}
	default:
		for _, p := range basicPairs(k, ms, r) {
			n++
			if !k.Simple(p.a) || (ms.arity == 2 && ms.kind != "shift" && !k.Simple(p.b)) {
				nt = true
			}
			if msg := checkBasic(fn, k, ms, p.a, p.b, 0, 0); msg != "" {
				report(p.a, p.b, 0, 0, msg)
				return
			}
		}
	}
	rec.Eval(n)
	if nt {
		rec.NT(cell)
	}
	rec.LabelN("method:"+ms.name, n)
	rec.LabelN("kind:"+k.Name(), n)
	rec.LabelN("form:"+form, n)
	rec.Label("cells")
	if ms.name == "Quo" && form == "call" {
		rec.Sample(map[string]string{"cell": cell, "source": src})
	}
}

func firstLine(s string) string {
	if i := strings.IndexByte(s, '\n'); i >= 0 {
		s = s[:i]
	}
	if len(s) > 200 {
		s = s[:200]
	}
	return s
}

// ---------------------------------------------------------------- replay

func replay(content []byte) error {
	var probe struct {
		Part string `json:"part"`
	}
	if err := json.Unmarshal(content, &probe); err != nil {
		return nil
	}
	switch probe.Part {
	case "basic":
		var c basicCase
		if err := json.Unmarshal(content, &c); err != nil {
			return nil
		}
		k, ok := kindByName[c.Kind]
		ms, ok2 := methodSpecs[c.Method]
		if !ok || !ok2 {
			return nil
		}
		a, err := decodeVal(k, c.A)
		if err != nil {
			return nil
		}
		var b val
		if ms.kind == "shift" {
			fmt.Sscan(c.B, &b.u)
		} else if c.B != "" || k.Class() == cString {
			if b, err = decodeVal(k, c.B); err != nil {
				return nil
			}
		}
		fn, cerr := compileFunc(basicSource(k, ms, c.Form))
		if cerr != "" {
			return nil // does not compile: outside the property
		}
		if msg := checkBasic(fn, k, ms, a, b, c.I, c.J); msg != "" {
			return fmt.Errorf("%s", msg)
		}
	case "container":
		var c containerCase
		if err := json.Unmarshal(content, &c); err != nil {
			return nil
		}
		return runContainer(c)
	}
	return nil
}

func TestReplays(t *testing.T) {
	rec.RunReplays(t, replay)
}

// ---------------------------------------------------------------- containers

// containerCase: one container method call in plain form.
type containerCase struct {
	Part   string   `json:"part"` // "container"
	Cont   string   `json:"container"` // slice | array | map | chan | string
	Elem   string   `json:"elem"`      // int | string | float64 | uint8
	Method string   `json:"method"`
	Form   string   `json:"form"`
	Items  []string `json:"items"` // contents (map: key=value with int keys 0..)
	Extra  int      `json:"extra_cap"`
	Nil    bool     `json:"nil,omitempty"`
	I      int      `json:"i"`
	J      int      `json:"j"`
	K      int      `json:"k"`
	Args   []string `json:"args,omitempty"` // element arguments (Append, SetIndex, Send ...)
	Note   string   `json:"note,omitempty"`
}

const arrayLen = 4

// elemOps: the three element kinds handled generically through reflection on the harness side.
func elemType(name string) reflect.Type {
	switch name {
	case "int":
		return reflect.TypeOf(int(0))
	case "string":
		return reflect.TypeOf("")
	case "float64":
		return reflect.TypeOf(float64(0))
	case "uint8":
		return reflect.TypeOf(uint8(0))
	}
	panic("elemType " + name)
}

func elemValue(name, s string) reflect.Value {
	k := kindByName[name]
	v, err := decodeVal(k, s)
	if err != nil {
		v = val{}
	}
	return k.ToReflect(v)
}

func (c containerCase) typeSrc() string {
	switch c.Cont {
	case "slice":
		return "[]" + c.Elem
	case "array":
		return fmt.Sprintf("[%d]%s", arrayLen, c.Elem)
	case "map":
		return "map[int]" + c.Elem
	case "chan":
		return "chan " + c.Elem
	}
	return "string"
}

// build creates the native container value.
func (c containerCase) build() reflect.Value {
	et := elemType(c.Elem)
	switch c.Cont {
	case "slice":
		if c.Nil {
			return reflect.Zero(reflect.SliceOf(et))
		}
		s := reflect.MakeSlice(reflect.SliceOf(et), len(c.Items), len(c.Items)+c.Extra)
		for i, it := range c.Items {
			s.Index(i).Set(elemValue(c.Elem, it))
		}
		return s
	case "array":
		a := reflect.New(reflect.ArrayOf(arrayLen, et)).Elem()
		for i, it := range c.Items {
			if i < arrayLen {
				a.Index(i).Set(elemValue(c.Elem, it))
			}
		}
		return a
	case "map":
		mt := reflect.MapOf(reflect.TypeOf(0), et)
		if c.Nil {
			return reflect.Zero(mt)
		}
		m := reflect.MakeMap(mt)
		for i, it := range c.Items {
			m.SetMapIndex(reflect.ValueOf(i*2), elemValue(c.Elem, it))
		}
		return m
	case "chan":
		ch := reflect.MakeChan(reflect.ChanOf(reflect.BothDir, et), len(c.Items)+c.Extra)
		for _, it := range c.Items {
			ch.Send(elemValue(c.Elem, it))
		}
		return ch
	}
	return reflect.ValueOf(strings.Join(c.Items, ""))
}

// containerMethods: method -> (parameter list after the container, result list, call arguments)
type cmSpec struct {
	params  string // extra parameters of the generated function
	results string
	args    string
	conts   string // containers that have the method
}

var containerSpecs = map[string]cmSpec{
	"Len":       {"", "int", "", "slice array map chan string"},
	"Cap":       {"", "int", "", "slice array chan"},
	"Index":     {"i int", "E", "i", "slice array map string"},
	"TryIndex":  {"i int", "(E, bool)", "i", "map"},
	"SetIndex":  {"i int, e E", "", "i, e", "slice array map"},
	"DelIndex":  {"i int", "", "i", "map"},
	"AddrIndex": {"i int, e E", "", "i", "slice array"}, // *c.AddrIndex(i) = e
	"Append":    {"e1 E, e2 E", "C", "e1, e2", "slice"},
	"Copy":      {"src C", "", "src", "slice"},
	"Slice":     {"i int, j int", "S", "i, j", "slice array string"},
	"Slice3":    {"i int, j int, k int", "S", "i, j, k", "slice array"},
	"Send":      {"e E", "", "e", "chan"},
	"TrySend":   {"e E", "bool", "e", "chan"},
	"Recv":      {"", "(E, bool)", "", "chan"},
	"TryRecv":   {"", "(E, bool)", "", "chan"},
	"Close":     {"", "", "", "chan"},
}

func (c containerCase) source() (string, bool) {
	sp, ok := containerSpecs[c.Method]
	if !ok || !strings.Contains(sp.conts, c.Cont) {
		return "", false
	}
	C := c.typeSrc()
	E := c.Elem
	if c.Cont == "string" {
		E = "uint8"
	}
	S := C
	if c.Cont == "array" {
		S = "[]" + c.Elem
	}
	sub := func(s string) string {
		s = strings.ReplaceAll(s, "C", C)
		s = strings.ReplaceAll(s, "S", S)
		return strings.ReplaceAll(s, "E", E)
	}
	params := "c " + C
	if c.Cont == "array" {
		params = "c *" + C // arrays travel by pointer so that mutations are visible
	}
	if sp.params != "" {
		params += ", " + sub(sp.params)
	}
	recv := "c"
	var call string
	switch c.Form {
	case "call":
		call = recv + "." + c.Method + "(" + sp.args + ")"
	case "value":
		call = "f(" + sp.args + ")"
	case "expr":
		T := "(" + C + ")"
		if c.Cont == "array" {
			T = "(*" + C + ")"
		}
		all := recv
		if sp.args != "" {
			all += ", " + sp.args
		}
		call = T + "." + c.Method + "(" + all + ")"
	}
	pre := ""
	if c.Form == "value" {
		pre = "f := " + recv + "." + c.Method + "; "
	}
	body := ""
	switch {
	case c.Method == "AddrIndex":
		body = pre + "*" + call + " = e"
	case sp.results == "":
		body = pre + call
	default:
		body = pre + "return " + call
	}
	return "(func(" + params + ") " + sub(sp.results) + " { " + body + " })", true
}

// native applies the builtin; returns results (canonical text) and mutates cont.
func (c containerCase) native(cont reflect.Value, args []reflect.Value) (res string, pan string) {
	p := vlib.Try(func() {
		i, j, k := c.I, c.J, c.K
		switch c.Method {
		case "Len":
			res = fmt.Sprint(cont.Len())
		case "Cap":
			res = fmt.Sprint(cont.Cap())
		case "Index":
			if c.Cont == "map" {
				v := cont.MapIndex(reflect.ValueOf(i))
				if !v.IsValid() {
					v = reflect.Zero(cont.Type().Elem())
				}
				res = canonAny(v)
			} else {
				res = canonAny(nativeIndex(cont, i))
			}
		case "TryIndex":
			v := cont.MapIndex(reflect.ValueOf(i))
			ok := v.IsValid()
			if !ok {
				v = reflect.Zero(cont.Type().Elem())
			}
			res = canonAny(v) + "," + fmt.Sprint(ok)
		case "SetIndex":
			if c.Cont == "map" {
				if cont.IsNil() {
					panic("assignment to entry in nil map")
				}
				cont.SetMapIndex(reflect.ValueOf(i), args[0])
			} else {
				nativeIndex(cont, i).Set(args[0])
			}
		case "AddrIndex":
			nativeIndex(cont, i).Set(args[0])
		case "DelIndex":
			cont.SetMapIndex(reflect.ValueOf(i), reflect.Value{})
		case "Append":
			res = canonSeq(reflect.Append(cont, args[0], args[1]), false)
		case "Copy":
			reflect.Copy(cont, args[0])
		case "Slice":
			if c.Cont == "string" {
				s := cont.String()
				res = fmt.Sprintf("%q", s[i:j])
			} else {
				res = canonSeq(nativeSlice(cont, i, j, 0, false), true)
			}
		case "Slice3":
			res = canonSeq(nativeSlice(cont, i, j, k, true), true)
		case "Send":
			cont.Send(args[0])
		case "TrySend":
			res = fmt.Sprint(cont.TrySend(args[0]))
		case "Recv", "TryRecv":
			v, ok := cont.TryRecv()
			if !v.IsValid() {
				v = reflect.Zero(cont.Type().Elem())
			}
			res = canonAny(v) + "," + fmt.Sprint(ok)
		case "Close":
			cont.Close()
		}
	})
	if p != nil {
		return "", classifyPanic(p)
	}
	return res, ""
}

// nativeIndex / nativeSlice use Go's own indexing and slicing on the concrete element types.
func nativeIndex(cont reflect.Value, i int) reflect.Value {
	if cont.Kind() == reflect.String {
		s := cont.String()
		return reflect.ValueOf(s[i])
	}
	probe := make([]struct{}, cont.Len())
	_ = probe[i] // Go's own bounds check
	return cont.Index(i)
}

func nativeSlice(cont reflect.Value, i, j, k int, three bool) reflect.Value {
	// run Go's own bounds rules on a []int of the same len and cap
	n, cp := cont.Len(), cont.Len()
	if cont.Kind() == reflect.Slice {
		cp = cont.Cap()
	}
	probe := make([]int, n, cp)
	if !three {
		_ = probe[i:j]
		return cont.Slice(i, j)
	}
	_ = probe[i:j:k]
	return cont.Slice3(i, j, k)
}

func canonAny(v reflect.Value) string {
	switch v.Kind() {
	case reflect.Float64:
		return kindByName["float64"].Canon(val{f: v.Float()})
	case reflect.String:
		return fmt.Sprintf("%q", v.String())
	}
	return fmt.Sprint(v.Interface())
}

func canonSeq(v reflect.Value, withCap bool) string {
	var sb strings.Builder
	if v.Kind() == reflect.Slice && v.IsNil() {
		sb.WriteString("nil")
	}
	sb.WriteString("[")
	for i := 0; i < v.Len(); i++ {
		if i > 0 {
			sb.WriteString(" ")
		}
		sb.WriteString(canonAny(v.Index(i)))
	}
	sb.WriteString("]")
	if withCap {
		fmt.Fprintf(&sb, " cap=%d", v.Cap())
	}
	return sb.String()
}

func canonCont(v reflect.Value) string {
	switch v.Kind() {
	case reflect.Slice, reflect.Array:
		return canonSeq(v, false)
	case reflect.Map:
		keys := v.MapKeys()
		sort.Slice(keys, func(i, j int) bool { return keys[i].Int() < keys[j].Int() })
		var sb strings.Builder
		if v.IsNil() {
			sb.WriteString("nil")
		}
		sb.WriteString("map[")
		for _, k := range keys {
			fmt.Fprintf(&sb, "%d:%s ", k.Int(), canonAny(v.MapIndex(k)))
		}
		sb.WriteString("]")
		return sb.String()
	case reflect.Chan:
		return fmt.Sprintf("chan len=%d cap=%d", v.Len(), v.Cap())
	}
	return canonAny(v)
}

var compileCache = map[string]reflect.Value{}
var compileErr = map[string]string{}

// runContainer executes one case on both sides; error = violation.
func runContainer(c containerCase) error {
	src, ok := c.source()
	if !ok {
		return nil
	}
	fn, cached := compileCache[src]
	if !cached {
		if _, bad := compileErr[src]; bad {
			return nil
		}
		var cerr string
		fn, cerr = compileFunc(src)
		if cerr != "" {
			compileErr[src] = cerr
			rec.Label("excluded:does-not-compile:container:" + c.Form)
			rec.Note("does not compile: %s: %s", src, firstLine(cerr))
			return nil
		}
		compileCache[src] = fn
	}
	E := c.Elem
	var eargs []reflect.Value
	for _, a := range c.Args {
		eargs = append(eargs, elemValue(E, a))
	}
	for len(eargs) < 2 {
		eargs = append(eargs, reflect.Zero(elemType(E)))
	}
	// two identical containers
	natC, intC := c.build(), c.build()
	var srcN, srcI reflect.Value
	if c.Method == "Copy" {
		cc := c
		cc.Items, cc.Nil = c.Args, false
		srcN, srcI = cc.build(), cc.build()
	}
	// native
	nargs := eargs
	if c.Method == "Copy" {
		nargs = []reflect.Value{srcN}
	}
	wantRes, wantPan := c.native(natC, nargs)
	// interpreter
	var in []reflect.Value
	if c.Cont == "array" {
		in = append(in, intC.Addr())
	} else {
		in = append(in, intC)
	}
	sp := containerSpecs[c.Method]
	switch sp.params {
	case "i int":
		in = append(in, reflect.ValueOf(c.I))
	case "i int, e E":
		in = append(in, reflect.ValueOf(c.I), eargs[0])
	case "e1 E, e2 E":
		in = append(in, eargs[0], eargs[1])
	case "src C":
		in = append(in, srcI)
	case "i int, j int":
		in = append(in, reflect.ValueOf(c.I), reflect.ValueOf(c.J))
	case "i int, j int, k int":
		in = append(in, reflect.ValueOf(c.I), reflect.ValueOf(c.J), reflect.ValueOf(c.K))
	case "e E":
		in = append(in, eargs[0])
	}
	var gotRes, gotPan string
	var outv []reflect.Value
	if p := vlib.Try(func() { outv = fn.Call(in) }); p != nil {
		gotPan = classifyPanic(p)
	} else {
		var parts []string
		for _, o := range outv {
			switch {
			case c.Method == "Append":
				parts = append(parts, canonSeq(o, false))
			case c.Method == "Slice" && c.Cont != "string", c.Method == "Slice3":
				parts = append(parts, canonSeq(o, true))
			case c.Method == "Len" || c.Method == "Cap" || c.Method == "TrySend":
				parts = append(parts, fmt.Sprint(o.Interface()))
			default:
				parts = append(parts, canonAny(o))
			}
		}
		gotRes = strings.Join(parts, ",")
	}
	if gotPan != wantPan || (wantPan == "" && gotRes != wantRes) {
		return fmt.Errorf("%s on %s %s (i=%d j=%d k=%d args=%v): interpreter result %q panic %q, Go result %q panic %q",
			src, c.typeSrc(), canonCont(c.build()), c.I, c.J, c.K, c.Args, gotRes, gotPan, wantRes, wantPan)
	}
	// state of the containers afterwards
	if wantPan == "" {
		if a, b := canonCont(intC), canonCont(natC); a != b {
			return fmt.Errorf("%s on %s (i=%d args=%v): container afterwards: interpreter %s, Go %s", src, c.typeSrc(), c.I, c.Args, a, b)
		}
	}
	return nil
}

func TestContainers(t *testing.T) {
	methods := make([]string, 0, len(containerSpecs))
	for m := range containerSpecs {
		methods = append(methods, m)
	}
	sort.Strings(methods)
	rec.Check(t, rec.Scale(6000, 100000), func(rt *rapid.T) {
		c := containerCase{Part: "container"}
		c.Method = rapid.SampledFrom(methods).Draw(rt, "method")
		conts := strings.Fields(containerSpecs[c.Method].conts)
		c.Cont = rapid.SampledFrom(conts).Draw(rt, "container")
		c.Elem = rapid.SampledFrom([]string{"int", "string", "float64", "uint8"}).Draw(rt, "elem")
		if c.Cont == "string" {
			c.Elem = "string"
		}
		c.Form = rapid.SampledFrom(callForms).Draw(rt, "form")
		k := kindByName[c.Elem]
		n := rapid.IntRange(0, 5).Draw(rt, "n")
		if c.Cont == "array" {
			n = arrayLen
		}
		genElem := func(label string) string {
			b := k.Boundary()
			return encodeVal(k, b[rapid.IntRange(0, len(b)-1).Draw(rt, label)])
		}
		for i := 0; i < n; i++ {
			c.Items = append(c.Items, genElem("item"))
		}
		c.Extra = rapid.IntRange(0, 3).Draw(rt, "extra")
		if c.Cont == "slice" || c.Cont == "map" {
			c.Nil = rapid.IntRange(0, 9).Draw(rt, "nil") == 0
			if c.Nil {
				c.Items = nil
			}
		}
		L := len(c.Items)
		if c.Cont == "string" {
			L = len(strings.Join(c.Items, ""))
		}
		c.I = rapid.IntRange(-1, L+c.Extra+1).Draw(rt, "i")
		c.J = rapid.IntRange(-1, L+c.Extra+1).Draw(rt, "j")
		c.K = rapid.IntRange(-1, L+c.Extra+1).Draw(rt, "k")
		if rapid.IntRange(0, 2).Draw(rt, "ordered") != 0 { // mostly valid bounds
			v := []int{c.I, c.J, c.K}
			sort.Ints(v)
			c.I, c.J, c.K = v[0], v[1], v[2]
		}
		na := rapid.IntRange(0, 3).Draw(rt, "nargs")
		for i := 0; i < na; i++ {
			c.Args = append(c.Args, genElem("arg"))
		}
		// blocking operations are outside what a sequential check can observe: keep Send/Recv non-blocking
		if c.Cont == "chan" {
			if c.Method == "Send" && c.Extra == 0 {
				c.Extra = 1
			}
			if c.Method == "Recv" && len(c.Items) == 0 {
				c.Items = []string{genElem("item")}
			}
		}
		if _, ok := c.source(); !ok {
			return
		}
		if rec.Known("F-C34-1") && c.Method == "TryRecv" && len(c.Items) == 0 {
			rec.Excluded("F-C34-1") // TryRecv on an empty open channel
			return
		}
		data, _ := json.MarshalIndent(c, "", " ")
		if err := runContainer(c); err != nil {
			rec.Failf(rt, "container:"+c.Method+"/"+c.Cont, data, "json", "%v", err)
		}
		rec.Label("container:" + c.Method + "/" + c.Cont)
		rec.Label("container-form:" + c.Form)
		if len(c.Items) >= 2 || c.I < 0 || c.I >= L {
			rec.NT(string(data))
			rec.Sample(c)
		}
	})
}
