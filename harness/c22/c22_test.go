// C22: the uniform syntax-tree wrapper (ast2) round-trips every node losslessly.
// Oracle: round trip wrap -> New -> Get/Set (or Append) -> unwrap, compared with the
// original by astx.Equal (position-insensitive, reflection over every go/ast field);
// pointer identity of ToNode(ToAst(n)); Size() against the indices Get/Set accept.
package c22

import (
	"bytes"
	"fmt"
	"go/ast"
	"go/token"
	"os"
	"reflect"
	"strings"
	"testing"

	"github.com/cosmos72/gomacro/ast2"
	"github.com/cosmos72/gomacro/go/etoken"
	"pgregory.net/rapid"

	"verif/harness/astx"
	"verif/harness/vlib"
)

var rec *vlib.Rec

func TestMain(m *testing.M) {
	rec = vlib.Open("C22")
	rec.Rule("cases = top-level declarations/nodes: every declaration of a seed-dependent sample of the corpus (Go 1.23 standard library + /repo), parsed with gomacro's parser and, for non-generic files, with the standard parser; " +
		"plus rapid-generated structurally valid trees (astx, Syntactic=false, with and without gomacro extension encodings, nil optional children, nil/empty lists, Bad* nodes, odd tokens). " +
		"Every node of each case is checked (identity, Size vs Get/Set, rebuild). A case is non-trivial when it contains a node with a flag that New() must carry (3-index slice, variadic call, alias type, directional channel, Incomplete, Implicit, extension operator) " +
		"or a node with >= 2 present children of different classes (expression / statement / list / field list); distinct = distinct (file, declaration index) or distinct generated tree text")
	rec.Assume("rebuild protocols are those of gomacro's own callers: fast.Comp.macroExpandCodewalk (New, Append(nil) up to Size, Set(i, child), leaves with Size()==0 passed through) and MacroExpand1 / the commented CloneAst (New, Append(child))")
	rec.Assume("structural equality = astx.Equal(Structural): every go/ast field except positions, Obj/Scope/Unresolved, comments; position-derived flags (CallExpr.Ellipsis, TypeSpec.Assign) are compared")
	rec.Assume("harness module built with godebug default=go1.18 (gomacro's own module setting)")
	os.Exit(vlib.Main(m, rec))
}

// ---------------------------------------------------------------- the property on one tree

// tryAst runs f and returns the panic value as error text ("" if none)
func try(f func()) (msg string) {
	defer func() {
		if p := recover(); p != nil {
			msg = fmt.Sprint(p)
			if msg == "" {
				msg = "panic"
			}
		}
	}()
	f()
	return ""
}

func isNilAst(x ast2.Ast) bool {
	return x == nil || x.Interface() == nil
}

// rebuildWalk: the protocol of macroExpandCodewalk.
func rebuildWalk(in ast2.Ast) ast2.Ast {
	if in == nil || in.Size() == 0 {
		return in
	}
	out := in.New()
	n := in.Size()
	if s, ok := out.(ast2.AstWithSlice); ok {
		for s.Size() < n {
			s = s.Append(nil)
		}
		out = s
	}
	for i := 0; i < n; i++ {
		child := in.Get(i)
		if child != nil && child.Size() != 0 {
			child = rebuildWalk(child)
		}
		out.Set(i, child)
	}
	return out
}

// rebuildAll: New() on every non-nil node including leaves; Append(child) for lists.
func rebuildAll(in ast2.Ast) ast2.Ast {
	if isNilAst(in) {
		return in
	}
	out := in.New()
	n := in.Size()
	if s, ok := out.(ast2.AstWithSlice); ok {
		for i := 0; i < n; i++ {
			s = s.Append(rebuildAll(in.Get(i)))
		}
		return s
	}
	for i := 0; i < n; i++ {
		out.Set(i, rebuildAll(in.Get(i)))
	}
	return out
}

// knownGetIgnoresIndex: finding F-C22-1 - Get(i) of these wrappers ignores i.
func knownGetIgnoresIndex(n ast.Node) bool {
	switch n.(type) {
	case *ast.BranchStmt, *ast.DeferStmt, *ast.GoStmt:
		return true
	}
	return false
}

// strict is set while a replay file is re-checked: no known finding is masked then.
var strict bool

func known(id string) bool { return !strict && rec.Known(id) }

// maskKnown removes, in place, what known findings are about, so that the search goes
// on behind them (exclusion by construction, counted).
func maskKnown(n ast.Node) {
	if !known("F-C22-2") {
		return
	}
	astx.Walk(n, func(c ast.Node) {
		if cl, ok := c.(*ast.CompositeLit); ok && cl.Incomplete {
			cl.Incomplete = false
			rec.Excluded("F-C22-2")
		}
	})
}

// checkNode: identity and Size() consistency of one node.
func checkNode(n ast.Node) error {
	if _, ok := n.(*ast.Package); ok {
		return nil // excluded by construction: never generated, no parser of gomacro yields it
	}
	var x ast2.AstWithNode
	if p := try(func() { x = ast2.ToAst(n) }); p != "" {
		return fmt.Errorf("%T: ToAst panics: %s", n, p)
	}
	if x == nil {
		return fmt.Errorf("%T: ToAst returned nil for a non-nil node", n)
	}
	var back ast.Node
	if p := try(func() { back = ast2.ToNode(x) }); p != "" {
		return fmt.Errorf("%T: ToNode(ToAst(n)) panics: %s", n, p)
	}
	if back != n {
		return fmt.Errorf("%T: ToNode(ToAst(n)) is not the original node (got %T %p, want %p)", n, back, back, n)
	}
	if x.Interface() != interface{}(n) {
		return fmt.Errorf("%T: ToAst(n).Interface() is not the original node", n)
	}
	var size int
	if p := try(func() { size = x.Size() }); p != "" {
		return fmt.Errorf("%T: Size panics: %s", n, p)
	}
	if size < 0 {
		return fmt.Errorf("%T: Size() = %d", n, size)
	}
	// every index below Size can be read
	for i := 0; i < size; i++ {
		if p := try(func() { x.Get(i) }); p != "" {
			return fmt.Errorf("%T: Size() = %d but Get(%d) panics: %s", n, size, i, p)
		}
	}
	// ... and written (on an empty copy, so that the original is not touched)
	var fresh ast2.Ast
	if p := try(func() { fresh = x.New() }); p != "" {
		return fmt.Errorf("%T: New panics: %s", n, p)
	}
	if s, ok := fresh.(ast2.AstWithSlice); ok {
		for i := 0; i < size; i++ {
			if p := try(func() { s = s.Append(nil) }); p != "" {
				return fmt.Errorf("%T: Append(nil) panics: %s", n, p)
			}
		}
		fresh = s
		if got := fresh.Size(); got != size {
			return fmt.Errorf("%T: after %d Append calls on New(), Size() = %d", n, size, got)
		}
	} else if got := fresh.Size(); got != size {
		return fmt.Errorf("%T: New().Size() = %d, original Size() = %d", n, got, size)
	}
	for i := 0; i < size; i++ {
		if p := try(func() { fresh.Set(i, nil) }); p != "" {
			return fmt.Errorf("%T: Size() = %d but Set(%d, nil) panics: %s", n, size, i, p)
		}
	}
	// indices outside 0..Size-1 are refused by both
	for _, i := range []int{-1, size, size + 1} {
		if p := try(func() { x.Get(i) }); p == "" {
			if knownGetIgnoresIndex(n) && known("F-C22-1") {
				rec.Excluded("F-C22-1")
			} else {
				return fmt.Errorf("%T: Size() = %d but Get(%d) does not report a bad index", n, size, i)
			}
		}
		if p := try(func() { fresh.Set(i, nil) }); p == "" {
			return fmt.Errorf("%T: Size() = %d but Set(%d, nil) does not report a bad index", n, size, i)
		}
	}
	return nil
}

// checkTree: the whole property on one tree. label is used in messages only.
func checkTree(n ast.Node) error {
	if n == nil || reflect.ValueOf(n).IsNil() {
		return nil
	}
	maskKnown(n)
	var err error
	astx.Walk(n, func(c ast.Node) {
		if err == nil {
			err = checkNode(c)
		}
	})
	if err != nil {
		return err
	}
	orig := astx.Clone(n)
	for _, proto := range []struct {
		name string
		f    func(ast2.Ast) ast2.Ast
	}{{"New/Append(nil)/Set (code walk protocol)", rebuildWalk}, {"New/Set, New/Append(child) on every node", rebuildAll}} {
		var out ast.Node
		if p := try(func() { out = ast2.ToNode(proto.f(ast2.ToAst(n))) }); p != "" {
			return fmt.Errorf("rebuild by %s panics: %s", proto.name, p)
		}
		if err := astx.Equal(n, orig, astx.WithPos); err != nil {
			return fmt.Errorf("rebuild by %s modified the original tree: %v", proto.name, err)
		}
		if err := astx.Equal(out, orig, astx.Structural); err != nil {
			return fmt.Errorf("rebuild by %s differs from the original (rebuilt vs original): %v", proto.name, err)
		}
		if out == n && ast2.ToAst(n).Size() != 0 {
			return fmt.Errorf("rebuild by %s returned the original node, not a copy", proto.name)
		}
	}
	return nil
}

// ---------------------------------------------------------------- non-trivial rule, labels

type stats struct {
	kinds map[string]int
	flags map[string]int
	nt    bool
}

func newStats() *stats { return &stats{kinds: map[string]int{}, flags: map[string]int{}} }

func (s *stats) flag(name string) { s.flags[name]++; s.nt = true }

func (s *stats) scan(n ast.Node) {
	astx.Walk(n, func(c ast.Node) {
		s.kinds[strings.TrimPrefix(reflect.TypeOf(c).String(), "*ast.")]++
		switch c := c.(type) {
		case *ast.SliceExpr:
			if c.Slice3 {
				s.flag("flag:slice3")
			}
		case *ast.CallExpr:
			if c.Ellipsis.IsValid() {
				s.flag("flag:variadic-call")
			}
		case *ast.TypeSpec:
			if c.Assign.IsValid() {
				s.flag("flag:alias")
			}
		case *ast.ChanType:
			if c.Dir != ast.SEND|ast.RECV {
				s.flag("flag:chan-dir")
			}
		case *ast.InterfaceType:
			if c.Incomplete {
				s.flag("flag:incomplete")
			}
		case *ast.StructType:
			if c.Incomplete {
				s.flag("flag:incomplete")
			}
		case *ast.EmptyStmt:
			if c.Implicit {
				s.flag("flag:implicit-semicolon")
			}
		case *ast.UnaryExpr:
			if c.Op >= etoken.QUOTE {
				s.flag("ext:quote-or-block-expr")
			}
		case *ast.GenDecl:
			if c.Tok == token.PACKAGE {
				s.flag("ext:package")
			}
		case *ast.FuncDecl:
			if c.Recv != nil && len(c.Recv.List) == 0 {
				s.flag("ext:macro-decl")
			}
			if c.Recv != nil && len(c.Recv.List) >= 2 {
				s.flag("ext:generic-func")
			}
		case *ast.IfStmt, *ast.ForStmt, *ast.RangeStmt, *ast.SwitchStmt, *ast.TypeSwitchStmt, *ast.FuncLit, *ast.CaseClause, *ast.CommClause, *ast.Field, *ast.ValueSpec:
			s.nt = true // children of different classes (expression / statement / block / list)
		}
	})
}

func (s *stats) flush() {
	for k, v := range s.kinds {
		rec.LabelN("node:"+k, v)
	}
	for k, v := range s.flags {
		rec.LabelN(k, v)
	}
}

// ---------------------------------------------------------------- replay

// Replay forms: Go source text (checked through both parsers, every declaration), or a
// JSON tree written by astx.Marshal (first byte '{').
func replay(content []byte) error {
	strict = true
	defer func() { strict = false }()
	if t := bytes.TrimSpace(content); len(t) > 0 && t[0] == '{' {
		n, err := astx.Unmarshal(content)
		if err != nil {
			return nil // not a C22 tree
		}
		return checkTree(n)
	}
	return checkSource("replay.go", content, nil, nil)
}

func TestReplays(t *testing.T) { rec.RunReplays(t, replay) }

// checkSource parses src with both parsers and checks every top-level node. onCase is
// called per top-level node (for counting); it may be nil.
func checkSource(name string, src []byte, st *stats, onCase func(parserName string, idx int, n ast.Node)) error {
	forkNodes, ferr := astx.ParseFork(etoken.NewFileSet(), name, src, false)
	if ferr != nil {
		if st != nil {
			if strings.HasPrefix(ferr.Error(), "panic:") {
				rec.Label("skipped:fork-parser-panics") // C24's business
			} else {
				rec.Label("skipped:fork-parser-rejects")
			}
		}
		forkNodes = nil
	}
	for i, n := range forkNodes {
		if st != nil {
			st.scan(n)
		}
		if onCase != nil {
			onCase("fork", i, n)
		}
		if err := checkTree(n); err != nil {
			return fmt.Errorf("%s, gomacro parser, top-level node %d (%T): %v", name, i, n, err)
		}
	}
	f, serr := astx.ParseStd(token.NewFileSet(), name, src)
	if serr != nil {
		if st != nil {
			rec.Label("skipped:std-parser-rejects")
		}
		return nil
	}
	if astx.IsGeneric(f) {
		if st != nil {
			rec.Label("excluded:generic-file-std-parser") // go 1.18 TypeParams/IndexListExpr are newer than ast2
		}
		return nil
	}
	for i, d := range f.Decls {
		if st != nil {
			st.scan(d)
		}
		if onCase != nil {
			onCase("std", i, d)
		}
		if err := checkTree(d); err != nil {
			return fmt.Errorf("%s, standard parser, declaration %d (%T): %v", name, i, d, err)
		}
	}
	// the file node itself (File wrapper: Decls as children)
	if err := checkTree(f); err != nil {
		return fmt.Errorf("%s, standard parser, *ast.File: %v", name, err)
	}
	return nil
}

// ---------------------------------------------------------------- corpus sweep

func TestCorpus(t *testing.T) {
	if rec.ReplayOnly() {
		return
	}
	files := astx.Sample(astx.CorpusFiles(), rec.Seed(), rec.Scale(12, 1))
	rec.Extra("corpus_files_selected", len(files))
	st := newStats()
	defer st.flush()
	nfiles := 0
	for i, path := range files {
		if !rec.Mine(i) {
			continue
		}
		src, err := astx.ReadFile(path)
		if err != nil {
			t.Fatalf("corpus file: %v", err)
		}
		nfiles++
		err = checkSource(path, src, st, func(parserName string, idx int, n ast.Node) {
			rec.Eval(1)
			if caseNT(n) {
				rec.NT(fmt.Sprintf("%s#%s#%d", path, parserName, idx))
			}
			if idx == 0 && parserName == "std" {
				rec.Sample(map[string]interface{}{"file": path, "parser": parserName, "decl": idx, "kind": fmt.Sprintf("%T", n)})
			}
		})
		if err != nil {
			rec.Violation("corpus", src, "go", "%v", err)
			t.Errorf("%v", err)
			return
		}
	}
	rec.LabelN("corpus-files-checked", nfiles)
}

func caseNT(n ast.Node) bool {
	s := newStats()
	s.scan(n)
	return s.nt
}

// ---------------------------------------------------------------- generated trees

func TestGenerated(t *testing.T) {
	st := newStats()
	defer st.flush()
	rec.Check(t, rec.Scale(5000, 40000), func(t *rapid.T) {
		cfg := astx.Config{Syntactic: false, Extensions: rapid.Bool().Draw(t, "extensions"), MaxDepth: rapid.IntRange(1, 5).Draw(t, "depth")}
		n := astx.NewG(t, cfg).Node(astx.AnyNode)
		data := astx.Marshal(n)
		s := newStats()
		s.scan(n)
		for k, v := range s.kinds {
			st.kinds[k] += v
		}
		for k, v := range s.flags {
			st.flags[k] += v
		}
		if s.nt {
			rec.NT(string(data))
		}
		rec.Sample(map[string]interface{}{"generated": fmt.Sprintf("%T", n), "nodes": len(s.kinds), "extensions": cfg.Extensions})
		if err := checkTree(n); err != nil {
			rec.Failf(t, "generated", data, "json", "generated tree (%T): %v", n, err)
		}
	})
}

// Syntactic trees too: the shapes real programs have, without a parser in between
// (positions all unset, as in trees built by macros).
func TestGeneratedSyntactic(t *testing.T) {
	st := newStats()
	defer st.flush()
	rec.Check(t, rec.Scale(1500, 15000), func(t *rapid.T) {
		cfg := astx.Config{Syntactic: true, Extensions: rapid.Bool().Draw(t, "extensions"), MaxDepth: rapid.IntRange(2, 5).Draw(t, "depth")}
		n := astx.NewG(t, cfg).Node(astx.AnyNode)
		data := astx.Marshal(n)
		s := newStats()
		s.scan(n)
		for k, v := range s.kinds {
			st.kinds[k] += v
		}
		for k, v := range s.flags {
			st.flags[k] += v
		}
		if s.nt {
			rec.NT(string(data))
		}
		if err := checkTree(n); err != nil {
			rec.Failf(t, "generated-syntactic", data, "json", "generated tree (%T): %v", n, err)
		}
	})
}

// ast.Package: ast2 marks its Get/Set "TODO" (children are not reachable). No parser of
// gomacro produces it. Excluded by construction and counted.
func TestPackageExcluded(t *testing.T) {
	if rec.ReplayOnly() {
		return
	}
	rec.Label("excluded:ast.Package-wrapper-marked-TODO-in-ast2")
}
