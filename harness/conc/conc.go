// Package conc is shared by the concurrency checks (C10, C11): it runs a program in the
// interpreter with the ownership hooks (build tag verif) armed and turns race-detector
// reports and hook violations into a result that cannot equal the oracle's.
package conc

import (
	"fmt"
	"os"
	"path/filepath"
	"strings"

	"github.com/cosmos72/gomacro/fast"

	"verif/harness/gobatch"
)

var raceSeen = map[string]int64{}

// raceReports returns the text the race detector appended to its log files since the
// last call (GORACE=log_path=<shard_dir>/race is set by the driver from check.json).
func raceReports() string {
	dir := os.Getenv("VERIF_SCRATCH")
	if dir == "" {
		return ""
	}
	files, _ := filepath.Glob(filepath.Join(dir, "race.*"))
	var out strings.Builder
	for _, f := range files {
		data, err := os.ReadFile(f)
		if err != nil {
			continue
		}
		if int64(len(data)) > raceSeen[f] {
			out.Write(data[raceSeen[f]:])
			raceSeen[f] = int64(len(data))
		}
	}
	return out.String()
}

// Run is a gobatch.Config.Interp: the interpreter run plus hook and race oracles.
// Repeats > 1 re-runs the program and requires identical results (schedule perturbation).
func Run(repeats int, perturb uint64) func(p gobatch.Program) gobatch.Result {
	return func(p gobatch.Program) gobatch.Result {
		var first gobatch.Result
		for i := 0; i < repeats; i++ {
			fast.VerifReset()
			if i%2 == 1 {
				fast.VerifSetPerturb(perturb)
			} else {
				fast.VerifSetPerturb(0)
			}
			r := gobatch.RunInterp(p)
			fast.VerifSetPerturb(0)
			c := fast.VerifStats()
			if c.OwnerViolations != 0 || c.ConcurrentEntries != 0 {
				r.Err = fmt.Sprintf("ownership hooks: %d owner violations, %d concurrent entries into one runtime record; events %+v", c.OwnerViolations, c.ConcurrentEntries, fast.VerifEvents())
				return r
			}
			if rep := raceReports(); rep != "" {
				if strings.Contains(rep, "gomacro") {
					if len(rep) > 3000 {
						rep = rep[:3000]
					}
					r.Err = "race detector report with gomacro frames:\n" + rep
					return r
				}
			}
			if i == 0 {
				first = r
			} else if !r.Equal(first) {
				r.Err = fmt.Sprintf("run %d of the same program differs from run 0:\n%s", i, gobatch.Diff(r, first))
				return r
			}
		}
		return first
	}
}
