// Package conc is shared by the concurrency checks (C10, C11): it runs a program in the
// interpreter with the ownership hooks (build tag verif) armed and turns race-detector
// reports and hook violations into a result that cannot equal the oracle's.
package conc

import (
	"fmt"
	"os"
	"os/exec"
	"path/filepath"
	"runtime"
	"strings"

	"github.com/cosmos72/gomacro/fast"

	"verif/harness/gobatch"
	"verif/harness/vlib"
)

var raceSeen = map[string]int64{}

// Quiet is set while replays run: a replay reports through its returned error (which the
// caller classifies as known finding, regression or --replay result), not directly.
var Quiet bool

// raceReports returns the text the race detector appended to its log files since the
// last call (GORACE=log_path=<shard_dir>/race is set by the driver from check.json).
func raceReports() string {
	dir := os.Getenv("VERIF_SCRATCH")
	if dir == "" {
		return ""
	}
	files, _ := filepath.Glob(filepath.Join(dir, "race.*"))
	var out strings.Builder
	for _, f := range files {
		data, err := os.ReadFile(f)
		if err != nil {
			continue
		}
		if int64(len(data)) > raceSeen[f] {
			out.Write(data[raceSeen[f]:])
			raceSeen[f] = int64(len(data))
		}
	}
	return out.String()
}

// Run is a gobatch.Config.Interp: the interpreter run plus hook and race oracles.
// Repeats > 1 re-runs the program and requires identical results (schedule perturbation).
//
// A race report makes the testing package fail the test as soon as rapid looks at it, before
// gobatch compares anything, so violations seen here are recorded at once through rec.
func Run(rec *vlib.Rec, repeats int, perturb uint64) func(p gobatch.Program) gobatch.Result {
	return func(p gobatch.Program) gobatch.Result {
		var first gobatch.Result
		for i := 0; i < repeats; i++ {
			fast.VerifReset()
			if i%2 == 1 {
				fast.VerifSetPerturb(perturb)
			} else {
				fast.VerifSetPerturb(0)
			}
			r := gobatch.RunInterp(p)
			fast.VerifSetPerturb(0)
			c := fast.VerifStats()
			if c.OwnerViolations != 0 || c.ConcurrentEntries != 0 {
				r.Err = fmt.Sprintf("ownership hooks: %d owner violations, %d concurrent entries into one runtime record; events %+v", c.OwnerViolations, c.ConcurrentEntries, fast.VerifEvents())
				if !Quiet {
					rec.Violation("ownership-hooks", p.Replay(), "go", "%s", r.Err)
				}
				return r
			}
			if rep := raceReports(); rep != "" {
				if strings.Contains(rep, "gomacro") {
					if len(rep) > 3000 {
						rep = rep[:3000]
					}
					r.Err = "race detector report with gomacro frames:\n" + rep
					if !Quiet {
						rec.Violation("race-report", p.Replay(), "go", "%s", r.Err)
					}
					return r
				}
			}
			if i == 0 {
				first = r
			} else if !r.Equal(first) {
				r.Err = fmt.Sprintf("run %d of the same program differs from run 0:\n%s", i, gobatch.Diff(r, first))
				return r
			}
		}
		return first
	}
}

// ---- replays in a child process
//
// A race report makes the testing package fail the whole test process. A replay that is
// EXPECTED to race (known finding) must therefore not run inside the shard's process: it
// runs in a child (the same test binary, re-executed), and the parent reads the verdict.

const childEnv = "VERIF_CONC_REPLAY_CHILD"

// IsReplayChild reports whether this process was started by SubprocessReplayer.
func IsReplayChild() bool { return os.Getenv(childEnv) != "" }

// ReplayChild is the child's whole job: replay one file, print the verdict, exit.
func ReplayChild(rec *vlib.Rec, cfg gobatch.Config) {
	Quiet = true
	data, err := os.ReadFile(os.Getenv(childEnv))
	if err != nil {
		fmt.Println("CONC-REPLAY-RESULT: inconclusive", err)
		os.Exit(0)
	}
	verdict := "ok"
	func() {
		defer func() {
			if p := recover(); p != nil {
				verdict = fmt.Sprintf("error panic: %v", p)
			}
		}()
		// schedule-dependent failures need parallelism and may need several attempts
		runtime.GOMAXPROCS(8)
		for attempt := 0; attempt < 5 && verdict == "ok"; attempt++ {
			if e := gobatch.ReplayerWith(cfg)(data); e != nil {
				if _, inc := e.(vlib.InconclusiveError); inc {
					verdict = "inconclusive " + e.Error()
				} else {
					verdict = "error " + strings.ReplaceAll(e.Error(), "\n", "\\n")
				}
			}
		}
	}()
	fmt.Println("CONC-REPLAY-RESULT: " + verdict)
	os.Exit(0)
}

// SubprocessReplayer replays each input in a child process under the race detector.
func SubprocessReplayer() vlib.Replayer {
	return func(content []byte) error {
		dir, err := os.MkdirTemp(os.Getenv("VERIF_SCRATCH"), "replay-child-")
		if err != nil {
			return vlib.Inconclusive(err.Error())
		}
		defer os.RemoveAll(dir)
		file := filepath.Join(dir, "input")
		os.WriteFile(file, content, 0o644)
		cmd := exec.Command(os.Args[0], "-test.run", "^$")
		cmd.Dir = dir
		cmd.Env = append(os.Environ(), childEnv+"="+file, "VERIF_SCRATCH="+dir, "VERIF_OUT="+dir,
			"GORACE=log_path="+filepath.Join(dir, "race")+" halt_on_error=0", "VERIF_REPLAY=")
		out, _ := cmd.CombinedOutput() // the exit status is 66 after a race report: not the verdict
		for _, line := range strings.Split(string(out), "\n") {
			if strings.HasPrefix(line, "CONC-REPLAY-RESULT: ") {
				v := strings.TrimPrefix(line, "CONC-REPLAY-RESULT: ")
				switch {
				case v == "ok":
					return nil
				case strings.HasPrefix(v, "error "):
					return fmt.Errorf("%s", strings.ReplaceAll(strings.TrimPrefix(v, "error "), "\\n", "\n"))
				default:
					return vlib.Inconclusive("replay child: " + v)
				}
			}
		}
		tail := string(out)
		if len(tail) > 1500 {
			tail = tail[len(tail)-1500:]
		}
		return vlib.Inconclusive("replay child gave no verdict:\n" + tail)
	}
}
