package c17

import (
	"fmt"
	"os"
	"sync"
	"testing"

	"pgregory.net/rapid"
)

// harness defects (inputs the oracle cannot judge, generator intent != reference) make the
// run inconclusive; they are never reported as violations.
var (
	defectMu    sync.Mutex
	defectCount int
	defectFirst string
)

func harnessDefect(kind, src string, err error) {
	if os.Getenv("C17_DEBUG") != "" {
		fmt.Fprintf(os.Stderr, "DEFECT %s: %v\n", kind, err)
	}
	rec.Label("harness-defect:" + kind)
	defectMu.Lock()
	defectCount++
	if defectFirst == "" {
		defectFirst = fmt.Sprintf("%s: %v\n%s", kind, err, src)
	}
	defectMu.Unlock()
}

func reportDefects(t *testing.T) {
	defectMu.Lock()
	defer defectMu.Unlock()
	if defectCount != 0 {
		t.Errorf("INCONCLUSIVE: %d generated inputs could not be judged; first: %s", defectCount, defectFirst)
		defectCount, defectFirst = 0, ""
	}
}

// runCase generates, checks and accounts one case. It returns the violation (nil if none).
func runCase(sp spec, c chooser, stream string) (gd generated, verr error) {
	gd = generate(sp, c)
	ci, err := checkSource(gd.Src)
	if _, ok := err.(*outsideDomain); ok {
		harnessDefect("not-judgeable", gd.Src, err)
		return gd, nil
	}
	if ci != nil {
		if ierr := compareIntent(gd, ci, !sp.Runs); ierr != nil {
			harnessDefect("intent-mismatch", gd.Src, ierr)
			return gd, nil
		}
		rec.Label("stream:" + stream)
		rec.Label("expect:" + ci.Expect)
		rec.Label("got:" + ci.Got)
		rec.Label(fmt.Sprintf("units:%d", bucket(ci.Units)))
		rec.Label(fmt.Sprintf("edges:%d", bucket(ci.Edges)))
		rec.Label(fmt.Sprintf("back-edges:%d", bucket(ci.BackEdges)))
		rec.Label(fmt.Sprintf("runs:%d", ci.Runs))
		if ci.TypeFwd > 0 {
			rec.Label("with-typefwd")
		}
		if gd.Dropped > 0 {
			rec.LabelN("edge-not-realisable", gd.Dropped)
		}
		for _, k := range sp.Kinds {
			rec.Label("kind:" + kindNames[k])
		}
		for _, l := range gd.Labels {
			rec.Label(l)
		}
		if gd.NShadow >= 1 && ci.BackEdges >= 1 {
			rec.NT(gd.Src)
			rec.Sample(gd.Src)
		}
	}
	return gd, err
}

func bucket(n int) int {
	switch {
	case n <= 6:
		return n
	case n <= 10:
		return 10
	case n <= 20:
		return 20
	case n <= 40:
		return 40
	}
	return 99
}

// ---------------------------------------------------------------- (a) bounded-exhaustive

func specOf(n, mask, kc int) spec {
	sp := spec{Kinds: make([]kind, n), Adj: make([][]bool, n), Group: true}
	for i := 0; i < n; i++ {
		sp.Kinds[i] = kind(kc % int(nKinds))
		kc /= int(nKinds)
		sp.Adj[i] = make([]bool, n)
	}
	b := 0
	for i := 0; i < n; i++ {
		for j := 0; j < n; j++ {
			if i != j {
				sp.Adj[i][j] = mask>>uint(b)&1 == 1
				b++
			}
		}
	}
	return sp
}

// every labelled digraph on n <= 3 declarations x every kind assignment (sites drawn from a
// splitmix64 stream keyed by seed and case index; thorough: three streams per case).
// thorough adds every labelled digraph on 4 declarations x 64 of the 1296 kind assignments.
func TestExhaustiveSmallGraphs(t *testing.T) {
	if rec.ReplayOnly() {
		return
	}
	idx := 0
	one := func(n, mask, kc, variant int) bool {
		idx++
		if !rec.Mine(idx) {
			return true
		}
		sp := specOf(n, mask, kc)
		c := &mixChooser{s: uint64(rec.Seed())*0x9e3779b97f4a7c15 + uint64(idx)*0xd1b54a32d192ed03 + uint64(variant)}
		sp.ShadowP = []int{0, 50, 100}[c.Intn(3)]
		rec.Eval(1)
		gd, err := runCase(sp, c, fmt.Sprintf("exhaustive-%d", n))
		if err != nil {
			rec.Violation("exhaustive", []byte(gd.Src), "go", "%v", err)
			t.Errorf("graph #%d: %v\n%s", idx, err, gd.Src)
			return false
		}
		return true
	}
	defer reportDefects(t)
	variants := rec.Scale(1, 3)
	for n := 1; n <= 3; n++ {
		nk := 1
		for i := 0; i < n; i++ {
			nk *= int(nKinds)
		}
		for mask := 0; mask < 1<<uint(n*(n-1)); mask++ {
			for kc := 0; kc < nk; kc++ {
				for v := 0; v < variants; v++ {
					if !one(n, mask, kc, v) {
						return
					}
				}
			}
		}
	}
	rec.LabelN("exhaustive-graphs-x-kinds", idx)
	rec.Exhaustive(true)
	if rec.Thorough() {
		const nk4 = 1296
		for mask := 0; mask < 1<<12; mask++ {
			start := (mask*131 + int(rec.Seed())*17) % nk4
			for k := 0; k < 64; k++ {
				if !one(4, mask, (start+k*37)%nk4, 0) {
					return
				}
			}
		}
		rec.LabelN("all-digraphs-on-4-x-64-kind-assignments", 4096*64)
	}
}

// ---------------------------------------------------------------- (a') drawn graphs on 4-5 declarations

func drawSpec(t *rapid.T, n int, density int) spec {
	sp := spec{Kinds: make([]kind, n), Adj: make([][]bool, n)}
	for i := 0; i < n; i++ {
		sp.Kinds[i] = kind(rapid.IntRange(0, int(nKinds)-1).Draw(t, "kind"))
		sp.Adj[i] = make([]bool, n)
	}
	for i := 0; i < n; i++ {
		for j := 0; j < n; j++ {
			if i != j {
				sp.Adj[i][j] = rapid.IntRange(0, 99).Draw(t, "edge") < density
			}
		}
	}
	sp.ShadowP = rapid.SampledFrom([]int{0, 30, 60, 100}).Draw(t, "shadowp")
	sp.Group = rapid.Bool().Draw(t, "group")
	sp.Runs = rapid.IntRange(0, 9).Draw(t, "runs") < 3
	return sp
}

func TestDrawnSmallGraphs(t *testing.T) {
	rec.Check(t, rec.Scale(3000, 30000), func(t *rapid.T) {
		n := rapid.IntRange(2, 5).Draw(t, "n")
		sp := drawSpec(t, n, rapid.SampledFrom([]int{10, 25, 40, 60}).Draw(t, "density"))
		gd, err := runCase(sp, rapidChooser{t}, "drawn-small")
		if err != nil {
			rec.Failf(t, "drawn-small", []byte(gd.Src), "go", "%v", err)
		}
	})
	reportDefects(t)
}

// ---------------------------------------------------------------- (b) larger graphs

func TestDrawnLargeGraphs(t *testing.T) {
	rec.Check(t, rec.Scale(800, 6000), func(t *rapid.T) {
		n := rapid.IntRange(6, 25).Draw(t, "n")
		sp := spec{Kinds: make([]kind, n), Adj: make([][]bool, n)}
		// hidden order: edges go from later to earlier in the hidden order, so the graph is a DAG
		// whose edges point both ways in source order
		hidden := rapid.Permutation(seq(n)).Draw(t, "hidden")
		rank := make([]int, n)
		for r, i := range hidden {
			rank[i] = r
		}
		for i := 0; i < n; i++ {
			sp.Kinds[i] = kind(rapid.IntRange(0, int(nKinds)-1).Draw(t, "kind"))
			sp.Adj[i] = make([]bool, n)
		}
		density := rapid.SampledFrom([]int{5, 10, 20, 35}).Draw(t, "density")
		for i := 0; i < n; i++ {
			for j := 0; j < n; j++ {
				if rank[j] < rank[i] {
					sp.Adj[i][j] = rapid.IntRange(0, 99).Draw(t, "edge") < density
				}
			}
		}
		// sometimes close a cycle
		if rapid.IntRange(0, 9).Draw(t, "cycle") == 0 {
			i := rapid.IntRange(0, n-1).Draw(t, "ci")
			j := rapid.IntRange(0, n-1).Draw(t, "cj")
			if i != j {
				sp.Adj[i][j], sp.Adj[j][i] = true, true
			}
		}
		sp.ShadowP = rapid.SampledFrom([]int{0, 5, 15, 30}).Draw(t, "shadowp")
		sp.Group = rapid.Bool().Draw(t, "group")
		sp.Runs = rapid.IntRange(0, 9).Draw(t, "runs") < 3
		gd, err := runCase(sp, rapidChooser{t}, "drawn-large")
		if err != nil {
			rec.Failf(t, "drawn-large", []byte(gd.Src), "go", "%v", err)
		}
	})
	reportDefects(t)
}

func seq(n int) []int {
	l := make([]int, n)
	for i := range l {
		l[i] = i
	}
	return l
}
