package c17

import (
	"fmt"
	"sort"
	"strings"

	"pgregory.net/rapid"
)

// ---------------------------------------------------------------- choices

// chooser abstracts the source of choices: rapid (shrinkable) or a splitmix64 stream
// derived from (VERIF_SEED, case index) for the bounded-exhaustive part.
type chooser interface {
	Intn(n int) int // uniform in [0,n), 0 when n <= 1
}

type rapidChooser struct{ t *rapid.T }

func (c rapidChooser) Intn(n int) int {
	if n <= 1 {
		return 0
	}
	return rapid.IntRange(0, n-1).Draw(c.t, "c")
}

type mixChooser struct{ s uint64 }

func (c *mixChooser) Intn(n int) int {
	if n <= 1 {
		return 0
	}
	c.s += 0x9e3779b97f4a7c15
	z := c.s
	z = (z ^ (z >> 30)) * 0xbf58476d1ce4e5b9
	z = (z ^ (z >> 27)) * 0x94d049bb133111eb
	z ^= z >> 31
	return int(z % uint64(n))
}

func pct(c chooser, p int) bool { return c.Intn(100) < p }

// ---------------------------------------------------------------- specification of a case

type kind int

const (
	kConst kind = iota
	kVar
	kFunc
	kType
	kMethod
	kVarMulti
	nKinds
)

var kindNames = [...]string{"const", "var", "func", "type", "method", "varmulti"}

type spec struct {
	Kinds   []kind
	Adj     [][]bool // Adj[i][j]: declaration i depends on declaration j (source order = index order)
	ShadowP int      // percent of non-edges rendered as a shadowed occurrence
	Runs    bool     // surround / split with package, import, statement runs
	Group   bool     // allow var ( ... ) / const ( ... ) / type ( ... ) groups
}

type gnode struct {
	kind    kind
	name    string // identifier declared (method: method name)
	name2   string // varmulti: second identifier
	unit    string // name of the unit as the sorter reports it
	recv    string // method: receiver type name
	intVal  bool   // var/const usable directly as int expression
	canon   bool   // func callable as name()
	out     []int  // realised targets
	shadows []int  // non-targets rendered shadowed
	ptrRecv bool
	struct_ bool // type must be a struct (it is a receiver)
	aux     bool
}

type generated struct {
	Src       string
	Intent    map[string]map[string]bool // unit name -> unit names it depends on
	NShadow   int
	Labels    []string
	Dropped   int
	UnitOrder []string
}

type gen struct {
	c      chooser
	nodes  []*gnode
	reach  [][]bool
	tmp    int
	labels []string
	nShad  int
	cur    int // node being rendered
	intent map[string]map[string]bool
}

func (g *gen) label(s string) { g.labels = append(g.labels, s) }

func (g *gen) temp(prefix string) string {
	g.tmp++
	return fmt.Sprintf("%s%d_", prefix, g.tmp)
}

func nameOf(i, n int) string {
	if n <= 8 {
		return string(rune('a' + i))
	}
	return fmt.Sprintf("n%d", i)
}

func realisable(from, to kind) bool {
	switch from {
	case kConst, kType:
		return to == kConst || to == kType
	}
	return true
}

// ---------------------------------------------------------------- rendering

func generate(sp spec, c chooser) generated {
	n := len(sp.Kinds)
	g := &gen{c: c, intent: map[string]map[string]bool{}}
	for i := 0; i < n; i++ {
		nd := &gnode{kind: sp.Kinds[i], name: nameOf(i, n)}
		nd.unit = nd.name
		g.nodes = append(g.nodes, nd)
	}
	dropped := 0
	for i := 0; i < n; i++ {
		for j := 0; j < n; j++ {
			if i == j || !sp.Adj[i][j] {
				continue
			}
			if !realisable(sp.Kinds[i], sp.Kinds[j]) {
				dropped++
				continue
			}
			g.nodes[i].out = append(g.nodes[i].out, j)
		}
	}
	// methods: receiver
	order := make([]int, n) // rendering order: indexes into g.nodes
	for i := range order {
		order[i] = i
	}
	for i := 0; i < n; i++ {
		nd := g.nodes[i]
		if nd.kind != kMethod {
			continue
		}
		nd.name = "m" + nd.name
		var typeTargets []int
		for _, j := range nd.out {
			if g.nodes[j].kind == kType {
				typeTargets = append(typeTargets, j)
			}
		}
		if len(typeTargets) != 0 {
			r := typeTargets[c.Intn(len(typeTargets))]
			g.nodes[r].struct_ = true
			nd.recv = g.nodes[r].name
			// the edge to r is realised by the receiver: remove it from out, keep it as intent
			var rest []int
			for _, j := range nd.out {
				if j != r {
					rest = append(rest, j)
				}
			}
			nd.out = rest
		} else {
			aux := &gnode{kind: kType, name: "R" + nameOf(i, n), struct_: true, aux: true}
			aux.unit = aux.name
			g.nodes = append(g.nodes, aux)
			nd.recv = aux.name
			// insert the auxiliary type at a drawn place of the rendering order
			at := c.Intn(len(order) + 1)
			order = append(order, 0)
			copy(order[at+1:], order[at:])
			order[at] = len(g.nodes) - 1
		}
		nd.unit = nd.recv + "." + nd.name
	}
	for _, nd := range g.nodes {
		g.intent[nd.unit] = map[string]bool{}
	}
	for _, nd := range g.nodes {
		if nd.kind == kMethod {
			g.intent[nd.unit][nd.recv] = true
		}
		if nd.kind == kVarMulti {
			nd.name2 = nd.name + "x"
			g.intent[nd.name2] = g.intent[nd.unit] // same set
		}
	}
	// methods with incoming edges need a value receiver (they are referenced as T.m)
	incoming := make([]bool, len(g.nodes))
	for _, nd := range g.nodes {
		for _, j := range nd.out {
			incoming[j] = true
		}
	}
	for i, nd := range g.nodes {
		if nd.kind == kMethod && !incoming[i] && pct(c, 50) {
			nd.ptrRecv = true
		}
	}
	// reachability (for type cycles: only indirect type expressions on a cycle)
	N := len(g.nodes)
	g.reach = make([][]bool, N)
	for i := range g.reach {
		g.reach[i] = make([]bool, N)
		for _, j := range g.nodes[i].out {
			g.reach[i][j] = true
		}
	}
	for k := 0; k < N; k++ {
		for i := 0; i < N; i++ {
			if g.reach[i][k] {
				for j := 0; j < N; j++ {
					if g.reach[k][j] {
						g.reach[i][j] = true
					}
				}
			}
		}
	}
	// shadows: drawn among the non-targets (own name excluded: it is handled as self reference)
	for i, nd := range g.nodes {
		isTarget := map[int]bool{i: true}
		for _, j := range nd.out {
			isTarget[j] = true
			if g.nodes[j].kind == kMethod {
				// a method expression T.m mentions T too
				for r := range g.nodes {
					if g.nodes[r].name == g.nodes[j].recv {
						isTarget[r] = true
					}
				}
			}
		}
		for j := range g.nodes {
			// a method has no package-level name that could be shadowed
			if isTarget[j] || g.nodes[j].aux || g.nodes[j].kind == kMethod || (nd.kind == kMethod && g.nodes[j].name == nd.recv) {
				continue
			}
			if pct(c, sp.ShadowP) {
				nd.shadows = append(nd.shadows, j)
			}
		}
	}
	// how each node can be used by others (decided before rendering anybody)
	typedVar := map[int]string{}
	sigParams := map[int][]int{}
	sigResult := map[int]int{}
	for i, nd := range g.nodes {
		switch nd.kind {
		case kConst:
			nd.intVal = true
		case kVar:
			nd.intVal = true
			var cands []int
			for _, j := range nd.out {
				if k := g.nodes[j].kind; k == kType || k == kConst {
					cands = append(cands, j)
				}
			}
			if len(cands) != 0 && pct(c, 35) {
				j := cands[c.Intn(len(cands))]
				g.cur = i
				if g.nodes[j].kind == kType {
					typedVar[i] = g.typeExpr(j, false)
				} else {
					typedVar[i] = "[" + g.ref(j) + "]int"
				}
				nd.intVal = false
				nd.out = remove(nd.out, j)
				g.label("site:var-declared-type")
			}
		case kVarMulti:
			nd.intVal = true
		case kFunc, kMethod:
			nd.canon = nd.kind == kFunc
			sigResult[i] = -1
			for _, j := range append([]int(nil), nd.out...) {
				if g.nodes[j].kind != kType {
					continue
				}
				switch c.Intn(4) {
				case 0:
					sigParams[i] = append(sigParams[i], j)
					nd.out = remove(nd.out, j)
					nd.canon = false
				case 1:
					if sigResult[i] < 0 {
						sigResult[i] = j
						nd.out = remove(nd.out, j)
						nd.canon = false
					}
				}
			}
		}
	}
	// render
	texts := make([]string, len(g.nodes))
	for i, nd := range g.nodes {
		g.cur = i
		switch nd.kind {
		case kConst:
			texts[i] = g.renderConst(i)
		case kVar:
			texts[i] = g.renderVar(i, typedVar[i])
		case kVarMulti:
			texts[i] = g.renderVarMulti(i)
		case kType:
			texts[i] = g.renderType(i)
		case kFunc, kMethod:
			texts[i] = g.renderFunc(i, sigParams[i], sigResult[i])
		}
	}
	// assemble in rendering order, optionally grouping neighbours of the same keyword
	var items []string
	var unitOrder []string
	keyword := func(k kind) string {
		switch k {
		case kConst:
			return "const"
		case kVar, kVarMulti:
			return "var"
		case kType:
			return "type"
		}
		return ""
	}
	for p := 0; p < len(order); p++ {
		i := order[p]
		nd := g.nodes[i]
		unitOrder = append(unitOrder, nd.unit)
		if nd.name2 != "" {
			unitOrder = append(unitOrder, nd.name2)
		}
		kw := keyword(nd.kind)
		if kw == "" {
			items = append(items, texts[i])
			continue
		}
		if sp.Group && pct(c, 40) {
			group := []string{texts[i]}
			for p+1 < len(order) && keyword(g.nodes[order[p+1]].kind) == kw && pct(c, 60) {
				p++
				nd2 := g.nodes[order[p]]
				unitOrder = append(unitOrder, nd2.unit)
				if nd2.name2 != "" {
					unitOrder = append(unitOrder, nd2.name2)
				}
				group = append(group, texts[order[p]])
			}
			g.label(fmt.Sprintf("group:%s-%d", kw, len(group)))
			items = append(items, kw+" (\n\t"+strings.Join(group, "\n\t")+"\n)")
			continue
		}
		items = append(items, kw+" "+texts[i])
	}
	if sp.Runs {
		items = g.addRuns(items)
	}
	return generated{
		Src:       strings.Join(items, "\n") + "\n",
		Intent:    g.intent,
		NShadow:   g.nShad,
		Labels:    g.labels,
		Dropped:   dropped,
		UnitOrder: unitOrder,
	}
}

func remove(l []int, x int) []int {
	var r []int
	for _, e := range l {
		if e != x {
			r = append(r, e)
		}
	}
	return r
}

// ref emits the name of node j as a free reference from the node being rendered and records the intent.
func (g *gen) ref(j int) string {
	from, to := g.nodes[g.cur], g.nodes[j]
	name := to.name
	if to.kind == kMethod {
		name = to.recv + "." + to.name
		g.intent[from.unit][to.recv] = true
	} else if to.kind == kVarMulti && pct(g.c, 50) {
		name = to.name2
	}
	if g.cur != j {
		if to.kind == kVarMulti && name == to.name2 {
			g.intent[from.unit][to.name2] = true
		} else {
			g.intent[from.unit][to.unit] = true
		}
	}
	return name
}

// wrap turns statements into an int expression through a function literal.
func (g *gen) wrap(stmts string) string {
	return "func() int { " + stmts + "; return 1 }()"
}

// stmtUse: a statement that uses node j, valid inside any function body.
func (g *gen) stmtUse(j int) string {
	to := g.nodes[j]
	switch to.kind {
	case kType:
		switch g.c.Intn(4) {
		case 0:
			t := g.temp("t")
			return "var " + t + " " + g.ref(j) + "; _ = " + t
		case 1:
			return "_ = new(" + g.ref(j) + ")"
		case 2:
			return "_ = []" + g.ref(j) + "{}"
		default:
			t := g.temp("t")
			return "var " + t + " interface{}; _, _ = " + t + ".(" + g.ref(j) + ")"
		}
	}
	if to.kind == kFunc && to.canon && pct(g.c, 50) {
		return "_ = " + g.ref(j) + "()"
	}
	return "_ = " + g.ref(j)
}

// intUse: an int-valued expression that uses node j (not constant in general).
func (g *gen) intUse(j int) string {
	to := g.nodes[j]
	switch to.kind {
	case kConst:
		return g.ref(j)
	case kVar:
		if to.intVal {
			return g.ref(j)
		}
	case kVarMulti:
		return g.ref(j)
	case kFunc:
		if to.canon && pct(g.c, 70) {
			return g.ref(j) + "()"
		}
	case kType:
		if pct(g.c, 50) {
			return "len([]" + g.ref(j) + "{})"
		}
	}
	return g.wrap(g.stmtUse(j))
}

// constUse: a constant int expression that uses node j (const or type).
func (g *gen) constUse(j int) string {
	if g.nodes[j].kind == kType {
		return "len([1]" + g.ref(j) + "{})"
	}
	return g.ref(j)
}

// typeExpr: a type expression mentioning type j; indirect when j can reach the current node.
func (g *gen) typeExpr(j int, forceIndirect bool) string {
	indirect := forceIndirect || g.reach[j][g.cur] || j == g.cur
	n := g.ref(j)
	forms := []string{"*" + n, "[]" + n, "map[int]" + n, "func(" + n + ") " + n, "chan " + n, "func() " + n, "[]*" + n}
	if !indirect {
		forms = append(forms, n, n, "[2]"+n, "struct{ f_ "+n+" }")
	}
	return forms[g.c.Intn(len(forms))]
}

// ---- shadows

// shadowStmt: statements in which the name of node s occurs only as / bound to a local
// entity. Returns the text; "scoped" forms do not leak the name into the enclosing block.
func (g *gen) shadowStmt(s int) string {
	n := g.nodes[s].name
	if g.nodes[s].kind == kVarMulti && pct(g.c, 30) {
		n = g.nodes[s].name2
	}
	g.nShad++
	k := g.c.Intn(19)
	var text, lab string
	switch k {
	case 0:
		text, lab = "var "+n+" = 1; _ = "+n, "var"
	case 1:
		text, lab = n+" := 1; _ = "+n, "define"
	case 2:
		text, lab = "for "+n+" := range []int{1} { _ = "+n+" }", "range-key"
	case 3:
		text, lab = "for _, "+n+" := range []int{1} { _ = "+n+" }", "range-value"
	case 4:
		text, lab = "for "+n+" := 0; "+n+" < 1; "+n+"++ { _ = "+n+" }", "for-init"
	case 5:
		text, lab = n+": for { break "+n+" }", "label-break"
	case 6:
		k := g.temp("k")
		text, lab = n+": for "+k+" := 0; "+k+" < 1; "+k+"++ { continue "+n+" }", "label-continue"
	case 7:
		x := g.temp("x")
		text, lab = "var "+x+" interface{} = 1; switch "+n+" := "+x+".(type) { case int: _ = "+n+"; default: _ = "+n+" }", "typeswitch"
	case 8:
		text, lab = "if "+n+" := 1; "+n+" > 0 { _ = "+n+" }", "if-init"
	case 9:
		text, lab = "switch "+n+" := 1; "+n+" { case 1: _ = "+n+" }", "switch-init"
	case 10:
		ch := g.temp("ch")
		text, lab = ch+" := make(chan int, 1); "+ch+" <- 1; select { case "+n+" := <-"+ch+": _ = "+n+" }", "select-recv"
	case 11:
		y := g.temp("y")
		text, lab = "type "+n+" int; var "+y+" "+n+"; _ = "+y, "local-type"
	case 12:
		text, lab = "const "+n+" = 1; _ = "+n, "local-const"
	case 13:
		text, lab = "func("+n+" int) { _ = "+n+" }(1)", "funclit-param"
	case 14:
		text, lab = "_ = func() ("+n+" int) { "+n+" = 1; return }()", "funclit-result"
	case 15:
		text, lab = "_ = struct{ "+n+" int }{"+n+": 1}."+n, "field-key-selector"
	case 16:
		z := g.temp("z")
		text, lab = n+", "+z+" := 1, 2; _, _ = "+n+", "+z, "define-multi"
	case 17:
		text, lab = "{ goto "+n+"; "+n+": _ = 1 }", "label-goto"
	default:
		z := g.temp("z")
		text, lab = "var "+z+" struct{ "+n+" int }; "+z+"."+n+" = 1; _ = "+z+"."+n, "selector"
	}
	g.label("shadow:" + lab)
	return text
}

// shadowExpr: an int expression in which the name of node s occurs only shadowed.
func (g *gen) shadowExpr(s int) string {
	n := g.nodes[s].name
	switch g.c.Intn(5) {
	case 0:
		g.nShad++
		g.label("shadow:funclit-param")
		return "func(" + n + " int) int { return " + n + " }(1)"
	case 1:
		g.nShad++
		g.label("shadow:funclit-result")
		return "func() (" + n + " int) { " + n + " = 1; return }()"
	case 2:
		g.nShad++
		g.label("shadow:field-key-selector")
		return "struct{ " + n + " int }{" + n + ": 1}." + n
	}
	return g.wrap(g.nest(g.shadowStmt(s), g.c.Intn(3)))
}

// ---- edges inside function bodies

// edgeStmt: statements that contain one free reference to node j, possibly next to a
// local declaration of the same name whose scope does not cover the reference.
func (g *gen) edgeStmt(j int) string {
	n := g.nodes[j].name
	k := g.c.Intn(27)
	var text, lab string
	switch k {
	case 0, 1, 2:
		text, lab = g.stmtUse(j), "plain"
	case 3:
		v := g.temp("v")
		text, lab = v+" := "+g.intUse(j)+"; _ = "+v, "define-rhs"
	case 4:
		text, lab = "if "+g.intUse(j)+" > 0 { }", "if-cond"
	case 5:
		k := g.temp("k")
		text, lab = "for "+k+" := range make([]int, "+g.intUse(j)+"%2) { _ = "+k+" }", "range-expr"
	case 6:
		text, lab = "switch "+g.intUse(j)+" { default: }", "switch-tag"
	case 7:
		x := g.temp("x")
		text, lab = "defer func("+x+" int) { }("+g.intUse(j)+")", "defer-arg"
	case 8:
		text, lab = "func() { "+g.stmtUse(j)+" }()", "closure"
	case 9:
		text, lab = "switch { case "+g.intUse(j)+" > 0: }", "case-expr"
	case 10: // reference before the local declaration of the same name
		text, lab = "{ "+g.stmtUse(j)+"; "+n+" := 1; _ = "+n+" }", "before-local"
	case 11: // reference after the scope of a local of the same name ended
		text, lab = "{ "+n+" := 1; _ = "+n+" }; "+g.stmtUse(j), "after-local-scope"
	case 12: // the initialiser of the local refers to the global
		text, lab = "{ "+n+" := "+g.intUse(j)+"; _ = "+n+" }", "define-self-init"
	case 13:
		text, lab = "{ var "+n+" = "+g.intUse(j)+"; _ = "+n+" }", "var-self-init"
	case 14:
		text, lab = "if "+n+" := "+g.intUse(j)+"; "+n+" > 0 { _ = "+n+" }", "if-self-init"
	case 15:
		text, lab = "func("+n+" int) { _ = "+n+" }("+g.intUse(j)+")", "funclit-arg-self"
	case 16:
		text, lab = "for "+n+" := range make([]int, "+g.intUse(j)+"%2) { _ = "+n+" }", "range-self"
	case 17:
		text, lab = "switch "+n+" := "+g.intUse(j)+"; "+n+" { default: _ = "+n+" }", "switch-self-init"
	case 18: // each case clause is its own block
		text, lab = "switch { case true: "+n+" := 1; _ = "+n+"; case false: "+g.stmtUse(j)+" }", "other-case-clause"
	case 19: // labels live in their own namespace
		text, lab = n+": for { "+g.stmtUse(j)+"; break "+n+" }", "under-same-label"
	case 20:
		text, lab = "if "+n+" := 1; "+n+" > 1 { } ; "+g.stmtUse(j), "after-if-init-scope"
	case 22:
		text, lab = "for "+n+" := range []int{1} { _ = "+n+" }; "+g.stmtUse(j), "after-range-scope"
	case 23:
		text, lab = "for _, "+n+" := range []int{1} { _ = "+n+" }; "+g.stmtUse(j), "after-range-value-scope"
	case 24:
		text, lab = "switch "+n+" := 1; "+n+" { default: }; "+g.stmtUse(j), "after-switch-init-scope"
	case 25:
		x := g.temp("x")
		text, lab = "var "+x+" interface{} = 1; switch "+n+" := "+x+".(type) { default: _ = "+n+" }; "+g.stmtUse(j), "after-typeswitch-scope"
	case 26:
		ch := g.temp("ch")
		text, lab = ch+" := make(chan int, 1); "+ch+" <- 1; select { case "+n+" := <-"+ch+": _ = "+n+" }; "+g.stmtUse(j), "after-select-scope"
	default:
		text, lab = "for "+n+" := 0; "+n+" < 1; "+n+"++ { }; "+g.stmtUse(j), "after-for-init-scope"
	}
	g.label("edge:body-" + lab)
	return text
}

// nest wraps statements into depth nested blocks of drawn kinds.
func (g *gen) nest(stmts string, depth int) string {
	for d := 0; d < depth; d++ {
		switch g.c.Intn(11) {
		case 0:
			stmts = "{ " + stmts + " }"
		case 1:
			stmts = "if true { " + stmts + " }"
		case 2:
			stmts = "if false { } else { " + stmts + " }"
		case 3:
			k := g.temp("k")
			stmts = "for " + k + " := 0; " + k + " < 1; " + k + "++ { " + stmts + " }"
		case 4:
			stmts = "switch { case true: " + stmts + " }"
		case 5:
			stmts = "func() { " + stmts + " }()"
		case 6:
			k := g.temp("k")
			stmts = "switch " + k + " := 1; " + k + " { default: " + stmts + " }"
		case 7:
			stmts = "select { default: " + stmts + " }"
		case 8:
			k := g.temp("k")
			stmts = "for " + k + " := range [1]int{} { _ = " + k + "; " + stmts + " }"
		case 9:
			stmts = "defer func() { " + stmts + " }()"
		default:
			l := g.temp("L")
			stmts = l + ": for { " + stmts + "; break " + l + " }"
		}
	}
	g.label(fmt.Sprintf("depth:%d", depth))
	return stmts
}

// body renders the statements of a function-like body for targets and shadows of the current node.
// Shadows whose declaration leaks into the block are fine: shadowed names are never targets.
func (g *gen) body(targets, shadows []int, self int) []string {
	var parts []string
	for _, j := range targets {
		parts = append(parts, g.nest(g.edgeStmt(j), g.c.Intn(4)))
	}
	for _, s := range shadows {
		parts = append(parts, g.nest(g.shadowStmt(s), g.c.Intn(3)))
	}
	if self >= 0 && !g.nodes[self].ptrRecv && pct(g.c, 30) {
		// recursion: the own name is not a dependency
		parts = append(parts, g.nest("if false { "+g.stmtUse(self)+" }", g.c.Intn(3)))
		g.label("self-reference")
	}
	// drawn order of the parts
	for i := len(parts) - 1; i > 0; i-- {
		k := g.c.Intn(i + 1)
		parts[i], parts[k] = parts[k], parts[i]
	}
	return parts
}

// ---- declarations

// valueExpr builds an int expression realising targets and shadows (var initialisers).
func (g *gen) valueExpr(targets, shadows []int) string {
	terms := []string{"1"}
	for _, j := range targets {
		var t, lab string
		switch g.c.Intn(8) {
		case 0, 1:
			t, lab = g.intUse(j), "direct"
		case 2, 3:
			t, lab = g.wrap(g.nest(g.edgeStmt(j), g.c.Intn(3))), "funclit-body"
		case 4:
			t, lab = "[]int{"+g.intUse(j)+"}[0]", "slice-literal"
		case 5:
			t, lab = "struct{ f_ int }{f_: "+g.intUse(j)+"}.f_", "struct-literal-value"
		case 6:
			t, lab = "map[int]int{1: "+g.intUse(j)+"}[1]", "map-literal-value"
		default:
			n := g.nodes[j].name
			t, lab = "func("+n+" int) int { return "+n+" }("+g.intUse(j)+")", "funclit-arg-self"
		}
		g.label("edge:init-" + lab)
		terms = append(terms, t)
	}
	for _, s := range shadows {
		terms = append(terms, g.shadowExpr(s))
	}
	for i := len(terms) - 1; i > 0; i-- {
		k := g.c.Intn(i + 1)
		terms[i], terms[k] = terms[k], terms[i]
	}
	return strings.Join(terms, " + ")
}

func (g *gen) renderConst(i int) string {
	nd := g.nodes[i]
	terms := []string{"1"}
	for _, j := range nd.out {
		terms = append(terms, g.constUse(j))
		g.label("edge:const-expr")
	}
	for _, s := range nd.shadows {
		n := g.nodes[s].name
		terms = append(terms, "len([1]struct{ "+n+" int }{{"+n+": 1}})")
		g.nShad++
		g.label("shadow:const-field-key")
	}
	typ := ""
	if pct(g.c, 20) {
		typ = " int"
	}
	return nd.name + typ + " = " + strings.Join(terms, " + ")
}

func (g *gen) renderVar(i int, typed string) string {
	nd := g.nodes[i]
	if typed != "" {
		if len(nd.out) == 0 && len(nd.shadows) == 0 && pct(g.c, 60) {
			return nd.name + " " + typed
		}
		z := g.temp("z")
		return nd.name + " " + typed + " = func() " + typed + " { _ = " + g.valueExpr(nd.out, nd.shadows) + "; var " + z + " " + typed + "; return " + z + " }()"
	}
	typ := ""
	if pct(g.c, 20) {
		typ = " int"
	}
	return nd.name + typ + " = " + g.valueExpr(nd.out, nd.shadows)
}

func (g *gen) renderVarMulti(i int) string {
	nd := g.nodes[i]
	half := len(nd.out) / 2
	e1 := g.valueExpr(nd.out[:half], nil)
	e2 := g.valueExpr(nd.out[half:], nd.shadows)
	g.label("edge:varmulti")
	return nd.name + ", " + nd.name2 + " = func() (int, int) { return " + e1 + ", " + e2 + " }()"
}

func (g *gen) renderType(i int) string {
	nd := g.nodes[i]
	// single-target non-struct shapes
	if !nd.struct_ && len(nd.out) == 1 && len(nd.shadows) == 0 && pct(g.c, 40) {
		j := nd.out[0]
		if g.nodes[j].kind == kConst {
			g.label("edge:type-array-len")
			return nd.name + " [" + g.ref(j) + "]int"
		}
		g.label("edge:type-direct")
		if pct(g.c, 30) {
			return nd.name + " interface{ m_(" + g.typeExpr(j, false) + ") }"
		}
		return nd.name + " " + g.typeExpr(j, true)
	}
	var fields []string
	for _, j := range nd.out {
		f := g.temp("f")
		if g.nodes[j].kind == kConst {
			fields = append(fields, f+" ["+g.ref(j)+"]int")
			g.label("edge:field-array-len")
		} else {
			fields = append(fields, f+" "+g.typeExpr(j, false))
			g.label("edge:field-type")
		}
	}
	for _, s := range nd.shadows {
		n := g.nodes[s].name
		g.nShad++
		switch g.c.Intn(3) {
		case 0:
			fields = append(fields, n+" int")
			g.label("shadow:struct-field")
		case 1:
			fields = append(fields, g.temp("f")+" func("+n+" int)")
			g.label("shadow:functype-param")
		default:
			fields = append(fields, g.temp("f")+" interface{ "+n+"() }")
			g.label("shadow:interface-method")
		}
	}
	if pct(g.c, 25) {
		fields = append(fields, g.temp("f")+" *"+g.ref(i)) // self reference through a pointer
		g.label("self-reference")
	}
	if len(fields) == 0 && !nd.struct_ && pct(g.c, 50) {
		return nd.name + " int"
	}
	for i := len(fields) - 1; i > 0; i-- {
		k := g.c.Intn(i + 1)
		fields[i], fields[k] = fields[k], fields[i]
	}
	return nd.name + " struct { " + strings.Join(fields, "; ") + " }"
}

func (g *gen) renderFunc(i int, params []int, result int) string {
	nd := g.nodes[i]
	var ps []string
	for _, j := range params {
		ps = append(ps, g.temp("p")+" "+g.typeExpr(j, false))
		g.label("edge:param-type")
	}
	resName, resType := "r_", "int"
	if result >= 0 {
		resType = g.typeExpr(result, false)
		g.label("edge:result-type")
	}
	recvName := "r0_"
	// signature-level shadows: parameter / named result / receiver
	var bodyShadows []int
	var pre []string
	for _, s := range nd.shadows {
		n := g.nodes[s].name
		switch k := g.c.Intn(10); {
		case k == 0 && nd.kind == kFunc && nd.canon:
			// a shadowing parameter would change the call form: keep canonical functions parameterless
			bodyShadows = append(bodyShadows, s)
		case k == 0 && !nd.canon:
			ps = append(ps, n+" int")
			pre = append(pre, "_ = "+n)
			g.nShad++
			g.label("shadow:param")
		case k == 1 && resName == "r_" && resType == "int":
			resName = n
			g.nShad++
			g.label("shadow:named-result")
		case k == 2 && nd.kind == kMethod && recvName == "r0_":
			recvName = n
			pre = append(pre, "_ = "+n)
			g.nShad++
			g.label("shadow:receiver")
		default:
			bodyShadows = append(bodyShadows, s)
		}
	}
	parts := g.body(nd.out, bodyShadows, i)
	parts = append(pre, parts...)
	if resType == "int" {
		parts = append(parts, resName+" = 1")
	}
	parts = append(parts, "return")
	head := "func "
	if nd.kind == kMethod {
		star := ""
		if nd.ptrRecv {
			star = "*"
		}
		head += "(" + recvName + " " + star + nd.recv + ") "
	}
	return head + nd.name + "(" + strings.Join(ps, ", ") + ") (" + resName + " " + resType + ") {\n\t" + strings.Join(parts, "\n\t") + "\n}"
}

// ---- package / import / statement runs

func (g *gen) addRuns(items []string) []string {
	stmts := []string{
		"x9_ := 1", "println(1)", "if true { }", "for k9_ := 0; k9_ < 1; k9_++ { }", "1 + 2", "\"s\"",
		"fmt.Println(1)", "y9_ := a", "println(b)", "a := 7", "switch { }", "(func() { })()",
	}
	pick := func() []string {
		var l []string
		for k := 1 + g.c.Intn(3); k > 0; k-- {
			l = append(l, stmts[g.c.Intn(len(stmts))])
		}
		return l
	}
	var out []string
	if pct(g.c, 50) {
		out = append(out, "package main")
		g.label("run:package")
	}
	switch g.c.Intn(4) {
	case 0:
		out = append(out, `import "fmt"`)
		g.label("run:import")
	case 1:
		out = append(out, "import (\n\t\"fmt\"\n\t\"os\"\n)", `import "strings"`)
		g.label("run:import-group")
	}
	if pct(g.c, 40) {
		out = append(out, pick()...)
		g.label("run:stmts-before")
	}
	// split the declarations into 1..3 runs
	cuts := map[int]bool{}
	if len(items) > 1 {
		for k := g.c.Intn(3); k > 0; k-- {
			cuts[1+g.c.Intn(len(items)-1)] = true
		}
	}
	for i, it := range items {
		if cuts[i] {
			if pct(g.c, 25) {
				out = append(out, `import "sort"`)
				g.label("run:import-between")
			} else {
				out = append(out, pick()...)
				g.label("run:stmts-between")
			}
		}
		out = append(out, it)
	}
	if pct(g.c, 50) {
		out = append(out, pick()...)
		g.label("run:stmts-after")
	}
	return out
}

// ---------------------------------------------------------------- intent vs reference

// compareIntent checks that the reference graph derived from the text by go/types equals what the
// generator meant to render (restricted to same-run pairs, which the reference already did).
// A difference is a defect of the harness, not of gomacro.
func compareIntent(gd generated, ci *caseInfo, singleRun bool) error {
	if !singleRun {
		// cross-run edges are dropped by the reference: intent must be a superset
		for from, tos := range ci.RefEdges {
			for _, to := range tos {
				if !gd.Intent[from][to] {
					return fmt.Errorf("reference edge %s -> %s was not intended", from, to)
				}
			}
		}
		return nil
	}
	got := map[string]bool{}
	for from, tos := range ci.RefEdges {
		for _, to := range tos {
			got[from+" -> "+to] = true
		}
	}
	want := map[string]bool{}
	for from, tos := range gd.Intent {
		for to := range tos {
			want[from+" -> "+to] = true
		}
	}
	var diff []string
	for e := range got {
		if !want[e] {
			diff = append(diff, "unintended "+e)
		}
	}
	for e := range want {
		if !got[e] {
			diff = append(diff, "missing "+e)
		}
	}
	if len(diff) != 0 {
		sort.Strings(diff)
		return fmt.Errorf("intent and reference differ: %s", strings.Join(diff, "; "))
	}
	return nil
}
