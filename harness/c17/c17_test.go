// C17: the dependency sorter (base/dep) returns a deterministic, source-stable
// topological order.
//
// Oracle (reference model, O5): the dependency graph is derived independently with the
// standard library (go/parser + go/types Info.Uses on the same text), the expected
// order is Kahn's algorithm taking the ready declaration with the smallest source
// position. The plain form of a case is its source text; everything below
// checkSource() works from the text alone (no rapid), so a replay is just the text.
package c17

import (
	"bytes"
	"fmt"
	goast "go/ast"
	goparser "go/parser"
	gotoken "go/token"
	"go/types"
	"os"
	"sort"
	"strings"
	"testing"
	"time"

	"github.com/cosmos72/gomacro/base/dep"
	"github.com/cosmos72/gomacro/go/etoken"
	"github.com/cosmos72/gomacro/go/parser"

	"verif/harness/vlib"
)

var rec *vlib.Rec

func TestMain(m *testing.M) {
	rec = vlib.Open("C17")
	rec.Rule("cases = Go source texts rendered from a dependency digraph over declarations of kinds const/var/func/type/method/var-multi: " +
		"every labelled digraph on <=3 declarations x every kind assignment (thorough: plus every labelled digraph on 4 declarations x 64 of the 1296 kind assignments), rapid-drawn digraphs on 2-5 declarations, random graphs on 6-25 declarations, " +
		"each edge realised at a drawn site (initialiser, declared type, signature, function body at block depth 0-3, closure, struct field type, next to a local that shadows the same name before/after/around it) and " +
		"non-edges optionally realised as shadowed occurrences (parameter, named result, receiver, var/:=/const/type local, range/for/if/switch/type-switch/select binding, label, struct field, selector, struct-literal key); " +
		"optionally surrounded/split by package, import, statement and expression runs. " +
		"A case is non-trivial when it has >=1 shadowed occurrence and >=1 real edge pointing backwards in source order; distinct = distinct source texts")
	rec.Assume("reference dependency graph = go/types Info.Uses of identifiers resolving to package-level objects of the same declaration run (own name excluded; method expressions T.m count for method T.m; value selectors do not), go1.23 standard library")
	rec.Assume("inputs are valid Go except for dependency cycles: go/types must report no error other than initialization-cycle / invalid-recursive-type errors, otherwise the input counts as a generator error (inconclusive), never as a violation")
	rec.Assume("gomacro's own parser is used to produce the node list handed to the sorter and to delimit the non-declaration top-level nodes (blanked out before go/types sees the text)")
	rec.Assume("a cycle that mixes type and non-type declarations may be either reported as declaration loop or sorted with forward declarations (the statement leaves it open); it must terminate: 10 s + 30 s watchdog around 20 sorts that normally take < 5 ms")
	rec.Assume("harness go.mod: godebug default=go1.18 (same settings as gomacro's own suite)")
	os.Exit(vlib.Main(m, rec))
}

// ---------------------------------------------------------------- gomacro side

type entry struct {
	Kind dep.Kind
	Name string
	Off  int
}

func (e entry) String() string { return fmt.Sprintf("%s:%s@%d", e.Kind, e.Name, e.Off) }

type outcome struct {
	List  []entry
	Panic string // non-empty: All() panicked with this text
}

func (o outcome) String() string {
	if o.Panic != "" {
		return "panic(" + strings.TrimSpace(strings.Replace(o.Panic, "\n", " | ", -1)) + ")"
	}
	var b strings.Builder
	for i, e := range o.List {
		if i > 0 {
			b.WriteByte(' ')
		}
		b.WriteString(e.String())
	}
	return b.String()
}

// key is what must be identical between repeated sorts of the same input: the returned list,
// or the fact that a declaration loop was reported (which of several cycles the message
// spells out, and starting from which member, is not part of the property).
func (o outcome) key() string {
	if strings.Contains(o.Panic, "declaration loop") {
		return "panic(declaration loop)"
	}
	return o.String()
}

const nSorts = 20

func gmParse(src string) (nodes []goast.Node, fset *etoken.FileSet, err error) {
	if p := vlib.Try(func() {
		var p parser.Parser
		fset = etoken.NewFileSet()
		p.Init(fset, "c17.go", 0, []byte(src))
		nodes, err = p.Parse()
	}); p != nil {
		return nil, nil, fmt.Errorf("parser panic: %v", p)
	}
	return nodes, fset, err
}

func gmSortOnce(nodes []goast.Node, fset *etoken.FileSet) (o outcome) {
	if p := vlib.Try(func() {
		s := dep.NewSorter()
		s.LoadNodes(nodes)
		for _, d := range s.All() {
			o.List = append(o.List, entry{d.Kind, d.Name, fset.Position(d.Pos).Offset})
		}
	}); p != nil {
		o = outcome{Panic: fmt.Sprint(p)}
		if o.Panic == "" {
			o.Panic = "<empty panic>"
		}
	}
	return o
}

// gmSort sorts the same node list nSorts times, each time with a fresh Sorter.
// hang is true when the sorter did not come back within the watchdog.
func gmSort(nodes []goast.Node, fset *etoken.FileSet) (outs []outcome, hang bool) {
	done := make(chan []outcome, 1)
	go func() {
		var l []outcome
		for i := 0; i < nSorts; i++ {
			l = append(l, gmSortOnce(nodes, fset))
		}
		done <- l
	}()
	select {
	case outs = <-done:
		return outs, false
	case <-time.After(10 * time.Second):
	}
	select {
	case outs = <-done:
		return outs, false
	case <-time.After(30 * time.Second):
		return nil, true
	}
}

// ---------------------------------------------------------------- reference side

type unit struct {
	Name   string
	Kind   dep.Kind
	Off    int // offset of the name in the source text
	Run    int // index of the run of top-level nodes it belongs to
	IsType bool
	Deps   map[int]bool // dependencies inside the same run
	All    map[int]bool // dependencies on any declaration of the text (what go/types sees)
}

type run struct {
	Class string  // "package", "import", "decl", "stmt"
	Pos   []int   // non-decl runs: offset of each expected entry
	Units []int   // decl runs
	Lo    int     // byte range
	Hi    int
}

type reference struct {
	Units    []*unit
	Runs     []run
	TypeErrs []string
}

type outsideDomain struct{ msg string }

func (e *outsideDomain) Error() string { return "outside the domain of the check: " + e.msg }

func outside(format string, args ...interface{}) error {
	return &outsideDomain{fmt.Sprintf(format, args...)}
}

const refPrefix = "package p;"

func classOf(node goast.Node) string {
	switch node := node.(type) {
	case *goast.GenDecl:
		switch node.Tok {
		case gotoken.PACKAGE:
			return "package"
		case gotoken.IMPORT:
			return "import"
		}
		return "decl"
	case goast.Decl:
		return "decl"
	}
	return "stmt"
}

func buildReference(src string, nodes []goast.Node, fset *etoken.FileSet) (*reference, error) {
	ref := &reference{}
	text := []byte(src)
	off := func(p gotoken.Pos) int { return fset.Position(p).Offset }
	for _, node := range nodes {
		if node == nil {
			continue
		}
		cl := classOf(node)
		lo, hi := off(node.Pos()), off(node.End())
		if hi > len(text) || !node.End().IsValid() {
			hi = len(text)
		}
		if n := len(ref.Runs); n == 0 || ref.Runs[n-1].Class != cl {
			ref.Runs = append(ref.Runs, run{Class: cl, Lo: lo})
		}
		r := &ref.Runs[len(ref.Runs)-1]
		r.Hi = hi
		switch cl {
		case "package":
			g := node.(*goast.GenDecl)
			for _, spec := range g.Specs {
				vs, ok := spec.(*goast.ValueSpec)
				if !ok {
					return nil, outside("package clause is not a ValueSpec")
				}
				switch {
				case len(vs.Names) != 0:
					r.Pos = append(r.Pos, off(vs.Names[0].Pos()))
				case len(vs.Values) != 0:
					r.Pos = append(r.Pos, off(vs.Values[0].Pos()))
				default:
					r.Pos = append(r.Pos, 0)
				}
			}
		case "import":
			for _, spec := range node.(*goast.GenDecl).Specs {
				r.Pos = append(r.Pos, off(spec.Pos()))
			}
		case "stmt":
			r.Pos = append(r.Pos, lo)
		}
		if cl != "decl" {
			if cl == "package" || cl == "import" {
				// the keyword starts before Pos() for gomacro's package clause: blank the whole line
				for lo > 0 && text[lo-1] != '\n' {
					lo--
				}
				for hi < len(text) && text[hi] != '\n' {
					hi++
				}
			}
			for i := lo; i < hi && i < len(text); i++ {
				if text[i] != '\n' {
					text[i] = ' '
				}
			}
		}
	}
	reftext := refPrefix + string(text)
	gofset := gotoken.NewFileSet()
	file, err := goparser.ParseFile(gofset, "ref.go", reftext, 0)
	if err != nil {
		return nil, outside("go/parser rejects the declarations: %v", err)
	}
	info := &types.Info{
		Uses: map[*goast.Ident]types.Object{},
		Defs: map[*goast.Ident]types.Object{},
	}
	conf := types.Config{Error: func(err error) { ref.TypeErrs = append(ref.TypeErrs, err.Error()) }}
	pkg, _ := conf.Check("p", gofset, []*goast.File{file}, info)
	if pkg == nil {
		return nil, outside("go/types returned no package")
	}
	pkgScope := pkg.Scope()

	goff := func(p gotoken.Pos) int { return gofset.Position(p).Offset - len(refPrefix) }
	runOf := func(o int) int {
		for i, r := range ref.Runs {
			if r.Class == "decl" && o >= r.Lo && o < r.Hi {
				return i
			}
		}
		return -1
	}
	byObj := map[types.Object]int{}
	byName := map[string]int{}
	addUnit := func(name string, kind dep.Kind, id *goast.Ident) (int, error) {
		u := &unit{Name: name, Kind: kind, Off: goff(id.Pos()), IsType: kind == dep.Type, Deps: map[int]bool{}, All: map[int]bool{}}
		u.Run = runOf(u.Off)
		if u.Run < 0 {
			return 0, outside("declaration %s at offset %d lies in no declaration run", name, u.Off)
		}
		if _, dup := byName[name]; dup {
			return 0, outside("name %s declared twice", name)
		}
		if id.Name == "_" {
			return 0, outside("blank declaration")
		}
		obj := info.Defs[id]
		if obj == nil {
			return 0, outside("go/types did not define %s", name)
		}
		idx := len(ref.Units)
		ref.Units = append(ref.Units, u)
		ref.Runs[u.Run].Units = append(ref.Runs[u.Run].Units, idx)
		byObj[obj] = idx
		byName[name] = idx
		return idx, nil
	}
	// first pass: units. second pass: edges (all objects must be known).
	type scan struct {
		from  []int
		nodes []goast.Node
	}
	var scans []scan
	for _, d := range file.Decls {
		switch d := d.(type) {
		case *goast.FuncDecl:
			name, kind := d.Name.Name, dep.Func
			if d.Recv != nil && len(d.Recv.List) != 0 {
				kind = dep.Method
				t := d.Recv.List[0].Type
				if st, ok := t.(*goast.StarExpr); ok {
					t = st.X
				}
				id, ok := t.(*goast.Ident)
				if !ok {
					return nil, outside("receiver type is not an identifier")
				}
				name = id.Name + "." + name
			}
			idx, err := addUnit(name, kind, d.Name)
			if err != nil {
				return nil, err
			}
			scans = append(scans, scan{[]int{idx}, []goast.Node{d}})
		case *goast.GenDecl:
			var inherited []goast.Node // const: last spec with type or values
			for _, spec := range d.Specs {
				switch spec := spec.(type) {
				case *goast.ImportSpec:
					return nil, outside("import left in the declaration text")
				case *goast.TypeSpec:
					if spec.TypeParams != nil {
						return nil, outside("generic type")
					}
					idx, err := addUnit(spec.Name.Name, dep.Type, spec.Name)
					if err != nil {
						return nil, err
					}
					scans = append(scans, scan{[]int{idx}, []goast.Node{spec.Type}})
				case *goast.ValueSpec:
					kind := dep.Var
					if d.Tok == gotoken.CONST {
						kind = dep.Const
					} else if len(spec.Names) > 1 && len(spec.Values) == 1 {
						kind = dep.VarMulti
					}
					var idxs []int
					for _, id := range spec.Names {
						idx, err := addUnit(id.Name, kind, id)
						if err != nil {
							return nil, err
						}
						idxs = append(idxs, idx)
					}
					if d.Tok == gotoken.CONST {
						if spec.Type != nil || len(spec.Values) != 0 {
							inherited = nil
							if spec.Type != nil {
								inherited = append(inherited, spec.Type)
							}
							if len(spec.Values) != len(spec.Names) {
								return nil, outside("const spec with %d names and %d values", len(spec.Names), len(spec.Values))
							}
							for i := range spec.Values {
								sc := scan{[]int{idxs[i]}, []goast.Node{spec.Values[i]}}
								if spec.Type != nil {
									sc.nodes = append(sc.nodes, spec.Type)
								}
								scans = append(scans, sc)
							}
							inherited = nil
							if spec.Type != nil {
								inherited = append(inherited, spec.Type)
							}
							for _, v := range spec.Values {
								inherited = append(inherited, v)
							}
							if len(spec.Names) != 1 && len(spec.Values) != 0 {
								// per-name inheritance of multi-name const specs is not modelled
								inherited = []goast.Node{nil}
							}
						} else {
							// implicit repetition of the previous expression list (Go spec, "Constant declarations")
							if len(inherited) == 1 && inherited[0] == nil || len(spec.Names) != 1 {
								return nil, outside("implicit repetition of a multi-name const spec")
							}
							scans = append(scans, scan{idxs, inherited})
						}
						continue
					}
					if spec.Type != nil {
						scans = append(scans, scan{idxs, []goast.Node{spec.Type}})
					}
					if len(spec.Values) == len(spec.Names) {
						for i := range spec.Values {
							scans = append(scans, scan{[]int{idxs[i]}, []goast.Node{spec.Values[i]}})
						}
					} else if len(spec.Values) == 1 {
						scans = append(scans, scan{idxs, []goast.Node{spec.Values[0]}})
					} else if len(spec.Values) != 0 {
						return nil, outside("var spec with %d names and %d values", len(spec.Names), len(spec.Values))
					}
				}
			}
		}
	}
	for _, sc := range scans {
		for _, n := range sc.nodes {
			if n == nil {
				continue
			}
			var walk func(n goast.Node) bool
			edge := func(to int) {
				for _, from := range sc.from {
					if from != to {
						ref.Units[from].All[to] = true
						if ref.Units[from].Run == ref.Units[to].Run {
							ref.Units[from].Deps[to] = true
						}
					}
				}
			}
			use := func(id *goast.Ident) {
				if obj := info.Uses[id]; obj != nil {
					if to, ok := byObj[obj]; ok {
						edge(to)
					}
				}
			}
			walk = func(n goast.Node) bool {
				switch n := n.(type) {
				case *goast.SelectorExpr:
					goast.Inspect(n.X, walk)
					// the selected name counts only in a method expression T.m with T an identifier naming a
					// package-level type that has a declared method m. Decided by name, not by Uses[Sel]:
					// go/types does not resolve selectors on a type it found invalid (cycle)
					if x, ok := n.X.(*goast.Ident); ok {
						if tn, isType := info.Uses[x].(*types.TypeName); isType && tn.Parent() == pkgScope {
							if to, ok := byName[x.Name+"."+n.Sel.Name]; ok {
								edge(to)
							}
						}
					}
					return false
				case *goast.Ident:
					use(n)
				}
				return true
			}
			goast.Inspect(n, walk)
		}
	}
	return ref, nil
}

func cycleClassError(msg string) bool {
	if i := strings.Index(msg, ": "); i >= 0 && strings.HasPrefix(msg[i+2:], "\t") {
		return true // continuation line of a cycle report: "\ta refers to b" ... "\ta"
	}
	if strings.Contains(msg, "invalid array length") && strings.Contains(msg, "constant unknown") {
		return true // follow-on error: the constant lies on a reported cycle
	}
	return strings.Contains(msg, "initialization cycle") || strings.Contains(msg, "invalid recursive type") ||
		strings.Contains(msg, "invalid cycle") || strings.Contains(msg, "illegal cycle")
}

// sccs returns, for the units of one run, the strongly connected components with a cycle.
func (ref *reference) cyclicSCCs(units []int, all bool) [][]int {
	index := map[int]int{}
	low := map[int]int{}
	on := map[int]bool{}
	var stack []int
	var res [][]int
	next := 0
	var strong func(v int)
	strong = func(v int) {
		index[v], low[v] = next, next
		next++
		stack = append(stack, v)
		on[v] = true
		deps := ref.Units[v].Deps
		if all {
			deps = ref.Units[v].All
		}
		for _, w := range sortedKeys(deps) {
			if _, seen := index[w]; !seen {
				strong(w)
				if low[w] < low[v] {
					low[v] = low[w]
				}
			} else if on[w] && index[w] < low[v] {
				low[v] = index[w]
			}
		}
		if low[v] == index[v] {
			var comp []int
			for {
				w := stack[len(stack)-1]
				stack = stack[:len(stack)-1]
				on[w] = false
				comp = append(comp, w)
				if w == v {
					break
				}
			}
			if len(comp) > 1 {
				sort.Ints(comp)
				res = append(res, comp)
			}
		}
	}
	for _, v := range units {
		if _, seen := index[v]; !seen {
			strong(v)
		}
	}
	return res
}

func sortedKeys(m map[int]bool) []int {
	l := make([]int, 0, len(m))
	for k := range m {
		l = append(l, k)
	}
	sort.Ints(l)
	return l
}

// kahn returns the reference order of an acyclic run: repeatedly the ready
// declaration with the smallest source position.
func (ref *reference) kahn(units []int) []int {
	done := map[int]bool{}
	var order []int
	for len(order) < len(units) {
		best := -1
		for _, u := range units {
			if done[u] {
				continue
			}
			ready := true
			for d := range ref.Units[u].Deps {
				if !done[d] {
					ready = false
					break
				}
			}
			if ready && (best < 0 || ref.Units[u].Off < ref.Units[best].Off) {
				best = u
			}
		}
		if best < 0 {
			panic("kahn: cyclic input")
		}
		done[best] = true
		order = append(order, best)
	}
	return order
}

// ---------------------------------------------------------------- the check on one text

type caseInfo struct {
	Units      int
	Edges      int
	BackEdges  int
	Runs       int
	Expect     string // "order", "loop", "either"
	Got        string // "order", "loop"
	TypeFwd    int
	RefEdges   map[string][]string
}

// checkSource returns (info, nil) when the property holds on src, a *outsideDomain error when
// src cannot be judged, any other error when the property is violated.
func checkSource(src string) (*caseInfo, error) {
	nodes, fset, err := gmParse(src)
	if err != nil {
		return nil, outside("gomacro's parser rejects the text: %v", err)
	}
	ref, err := buildReference(src, nodes, fset)
	if err != nil {
		return nil, err
	}
	ci := &caseInfo{Units: len(ref.Units), Runs: len(ref.Runs), RefEdges: map[string][]string{}}
	mustLoop, mayLoop := false, false
	var loopDesc string
	type runPlan struct {
		cyc   [][]int
		order []int
	}
	plans := make([]runPlan, len(ref.Runs))
	anyCycle := false
	for ri, r := range ref.Runs {
		if r.Class != "decl" {
			continue
		}
		for _, u := range r.Units {
			for _, d := range sortedKeys(ref.Units[u].Deps) {
				ci.Edges++
				if ref.Units[d].Off > ref.Units[u].Off {
					ci.BackEdges++
				}
				ci.RefEdges[ref.Units[u].Name] = append(ci.RefEdges[ref.Units[u].Name], ref.Units[d].Name)
			}
		}
		cyc := ref.cyclicSCCs(r.Units, false)
		plans[ri].cyc = cyc
		for _, comp := range cyc {
			anyCycle = true
			hasType := false
			for _, u := range comp {
				if ref.Units[u].IsType {
					hasType = true
				}
			}
			if hasType {
				mayLoop = true
			} else {
				mustLoop = true
				var names []string
				for _, u := range comp {
					names = append(names, ref.Units[u].Name)
				}
				loopDesc = strings.Join(names, ",")
			}
		}
		if len(cyc) == 0 {
			plans[ri].order = ref.kahn(r.Units)
		}
	}
	// go/types sees the whole text as one package: cycles across runs count for it
	var allUnits []int
	for i := range ref.Units {
		allUnits = append(allUnits, i)
	}
	pkgCycle := len(ref.cyclicSCCs(allUnits, true)) != 0
	_ = anyCycle
	for _, e := range ref.TypeErrs {
		if !pkgCycle || !cycleClassError(e) {
			return nil, outside("go/types rejects the declarations: %s", e)
		}
	}
	switch {
	case mustLoop:
		ci.Expect = "loop"
	case mayLoop:
		ci.Expect = "either"
	default:
		ci.Expect = "order"
	}

	outs, hang := gmSort(nodes, fset)
	if hang {
		return ci, fmt.Errorf("the sorter does not terminate (no result after 40 s for %d sorts of %d declarations)", nSorts, len(ref.Units))
	}
	// (i) determinism
	for i := 1; i < len(outs); i++ {
		if outs[i].key() != outs[0].key() {
			return ci, fmt.Errorf("nondeterministic: sort #0 gave [%s], sort #%d of the same nodes gave [%s]", outs[0], i, outs[i])
		}
	}
	got := outs[0]
	if got.Panic != "" {
		ci.Got = "loop"
		if !strings.Contains(got.Panic, "declaration loop") {
			return ci, fmt.Errorf("the sorter panicked with something else than a declaration loop: %s", got.Panic)
		}
		if !mustLoop && !mayLoop {
			return ci, fmt.Errorf("declaration loop reported for an acyclic input (reference edges %v): %s", ci.RefEdges, got)
		}
		return ci, nil
	}
	ci.Got = "order"
	if mustLoop {
		return ci, fmt.Errorf("the declarations {%s} form a dependency cycle without a type (reference edges %v) but no declaration loop was reported: got [%s]", loopDesc, ci.RefEdges, got)
	}
	// split the output along the runs
	k := 0
	for ri, r := range ref.Runs {
		if r.Class != "decl" {
			for _, pos := range r.Pos {
				if k >= len(got.List) {
					return ci, fmt.Errorf("output ends before the %s at offset %d: got [%s]", r.Class, pos, got)
				}
				e := got.List[k]
				k++
				okKind := false
				switch r.Class {
				case "package":
					okKind = e.Kind == dep.Package
				case "import":
					okKind = e.Kind == dep.Import
				default:
					okKind = e.Kind == dep.Expr || e.Kind == dep.Stmt
				}
				if !okKind || (e.Off != pos && r.Class != "package") {
					return ci, fmt.Errorf("run %d (%s): expected the %s at offset %d at output index %d, got %s: [%s]", ri, r.Class, r.Class, pos, k-1, e, got)
				}
			}
			continue
		}
		// collect the entries of this declaration run: they are exactly the next ones naming its units
		inRun := map[string]int{}
		for _, u := range r.Units {
			inRun[ref.Units[u].Name] = u
		}
		start := k
		for k < len(got.List) {
			if _, ok := inRun[got.List[k].Name]; !ok {
				break
			}
			switch got.List[k].Kind {
			case dep.Package, dep.Import, dep.Expr, dep.Stmt:
				return ci, fmt.Errorf("run %d: entry %s has a non-declaration kind: [%s]", ri, got.List[k], got)
			}
			k++
		}
		seg := got.List[start:k]
		posReal := map[int]int{} // unit -> index in seg
		posFwd := map[int]int{}
		onCycle := map[int]bool{}
		for _, comp := range plans[ri].cyc {
			for _, u := range comp {
				onCycle[u] = true
			}
		}
		for i, e := range seg {
			u := inRun[e.Name]
			un := ref.Units[u]
			if e.Kind == dep.TypeFwd {
				ci.TypeFwd++
				if !un.IsType || !onCycle[u] {
					return ci, fmt.Errorf("forward declaration of %s, which is not a type on a dependency cycle (reference edges %v): [%s]", e.Name, ci.RefEdges, got)
				}
				if _, dup := posFwd[u]; dup {
					return ci, fmt.Errorf("type %s is forward-declared twice: [%s]", e.Name, got)
				}
				if _, after := posReal[u]; after {
					return ci, fmt.Errorf("forward declaration of %s comes after its declaration: [%s]", e.Name, got)
				}
				posFwd[u] = i
				continue
			}
			if _, dup := posReal[u]; dup {
				return ci, fmt.Errorf("%s is returned twice: [%s]", e.Name, got)
			}
			posReal[u] = i
			if e.Kind != un.Kind {
				return ci, fmt.Errorf("%s is returned with kind %s, expected %s: [%s]", e.Name, e.Kind, un.Kind, got)
			}
			if e.Off != un.Off {
				return ci, fmt.Errorf("%s is returned with position offset %d, its name is at offset %d: [%s]", e.Name, e.Off, un.Off, got)
			}
		}
		for _, u := range r.Units {
			if _, ok := posReal[u]; !ok {
				return ci, fmt.Errorf("run %d: declaration %s is missing from (or misplaced in) the output: [%s]", ri, ref.Units[u].Name, got)
			}
		}
		// dependencies first
		for _, u := range r.Units {
			for _, d := range sortedKeys(ref.Units[u].Deps) {
				if posReal[d] < posReal[u] {
					continue
				}
				if f, ok := posFwd[d]; ok && f < posReal[u] {
					continue
				}
				return ci, fmt.Errorf("%s is placed before %s, whose name occurs free in it (reference edges %v): [%s]",
					ref.Units[u].Name, ref.Units[d].Name, ci.RefEdges, got)
			}
		}
		// exact order for acyclic runs
		if len(plans[ri].cyc) == 0 {
			for i, u := range plans[ri].order {
				if seg[i].Name != ref.Units[u].Name {
					var want []string
					for _, u := range plans[ri].order {
						want = append(want, ref.Units[u].Name)
					}
					return ci, fmt.Errorf("run %d: order differs from 'earliest ready declaration first': want %v (reference edges %v), got [%s]", ri, want, ci.RefEdges, got)
				}
			}
		}
	}
	if k != len(got.List) {
		return ci, fmt.Errorf("unexpected extra entry %s at output index %d: [%s]", got.List[k], k, got)
	}
	return ci, nil
}

// ---------------------------------------------------------------- replay

func replay(content []byte) error {
	content = bytes.TrimPrefix(content, []byte("\xef\xbb\xbf"))
	_, err := checkSource(string(content))
	if _, ok := err.(*outsideDomain); ok {
		fmt.Fprintf(os.Stderr, "replay: %v\n", err)
		return nil
	}
	return err
}

func TestReplays(t *testing.T) {
	rec.RunReplays(t, replay)
}
