// C36: code completion returns exactly the matching in-scope names, sorted and unique,
// and head/tail reassemble the line.
//
// Oracle: a reference model computed from the harness's own description of what it
// declared (names, struct types with fields, embedded types and methods, imported
// packages with the keys of the import tables); the names of the universe scope and
// the keywords are taken from a pristine interpreter that never declared anything.
package c36

import (
	"encoding/json"
	"fmt"
	"os"
	"sort"
	"strings"
	"testing"
	"unicode/utf8"

	"github.com/cosmos72/gomacro/fast"
	"github.com/cosmos72/gomacro/imports"
	"pgregory.net/rapid"

	"verif/harness/vlib"
)

var rec *vlib.Rec

func TestMain(m *testing.M) {
	rec = vlib.Open("C36")
	rec.Rule("case = history of top-level declarations (var, const, func, random embedding trees of struct types (fan-out 0-3 per node, depth up to 3, by value and by pointer, own fields and methods at every node, member names from a small pool so that shadowing and same-depth duplicates occur), further methods with value and pointer receivers, imports with and without alias) interleaved with completion queries (line, cursor): single words, v.pre, v.f.pre, pkg.Pre, empty word after a dot, text before the word and after the cursor, blanks around dots, cursor beyond the end, unknown roots; " +
		"a query is non-trivial when its expected set has >= 2 elements from >= 2 sources (declared var/const/func/type, keyword or universe, field, own method, promoted field, promoted method, package member) or its line has text after the cursor; distinct = distinct (declarations so far, line, cursor)")
	rec.Assume("reference model of Go selector validity on an addressable variable: own and promoted fields, methods with value and pointer receivers of the type and of its embedded types (by value or pointer); same-depth duplicates are ambiguous (x.name does not compile, gomacro documents nothing about them): their presence in the completions is not asserted")
	rec.Assume("keywords and universe-scope names are not modelled: they are what a pristine interpreter completes for the same word (differential), harness-declared names are exact in both directions")
	rec.Assume("package members = keys of Binds and Types of imports.Packages[path]")
	rec.Assume("the cursor is a byte offset at a rune boundary, as Interp.CompleteWords slices line[:pos]")
	// the first fast.New() of a process is slow (export data lookup): pay it here, not
	// inside rapid's per-iteration timer (rapid stops early when iterations look slow)
	if !rec.ReplayOnly() {
		vlib.Try(func() { pristineWords("a"); newHistory() })
	}
	os.Exit(vlib.Main(m, rec))
}

// known reports whether the exclusion of a known finding is active. C36_NO_EXCLUDE
// (development only: a list of finding ids) switches exclusions off, to try a fix in a
// scratch worktree before the entry of known_findings.json is changed to "fixed".
func known(id string) bool {
	return rec.Known(id) && !strings.Contains(os.Getenv("C36_NO_EXCLUDE"), id)
}

// ---------------------------------------------------------------- the case in plain form

type Query struct {
	Line string `json:"line"`
	Pos  int    `json:"pos"`
	// expectation computed by the model when the query was generated
	Word   string   `json:"word"`             // typed partial last word
	Chain  bool     `json:"chain,omitempty"`  // dotted chain: Want is complete; otherwise Want holds only the declared names and the pristine interpreter adds keywords/universe
	Want   []string `json:"want"`
	Maybe  []string `json:"maybe,omitempty"` // ambiguous selectors (same name twice at the shallowest depth): Go rejects x.name, gomacro documents nothing, so their presence is not asserted
	Source string   `json:"source,omitempty"` // sources of the expected elements, for the non-trivial rule
}

type Step struct {
	Decl  string `json:"decl,omitempty"`
	Query *Query `json:"query,omitempty"`
}

type Case struct {
	Steps []Step `json:"steps"`
}

var pristine *fast.Interp

func pristineWords(word string) []string {
	if pristine == nil {
		pristine = fast.New()
	}
	_, l, _ := pristine.CompleteWords(word, len(word))
	return l
}

func sortedUnique(l []string) []string {
	l = append([]string(nil), l...)
	sort.Strings(l)
	var out []string
	for i, s := range l {
		if i == 0 || s != l[i-1] {
			out = append(out, s)
		}
	}
	return out
}

func equal(a, b []string) bool {
	if len(a) != len(b) {
		return false
	}
	for i := range a {
		if a[i] != b[i] {
			return false
		}
	}
	return true
}

func diff(got, want []string) string {
	g, w := map[string]bool{}, map[string]bool{}
	for _, s := range got {
		g[s] = true
	}
	for _, s := range want {
		w[s] = true
	}
	var extra, missing []string
	for _, s := range got {
		if !w[s] {
			extra = append(extra, s)
		}
	}
	for _, s := range want {
		if !g[s] {
			missing = append(missing, s)
		}
	}
	return fmt.Sprintf("extra %v, missing %v", extra, missing)
}

func checkQuery(ir *fast.Interp, q *Query) error {
	var head, tail string
	var got []string
	if p := vlib.Try(func() { head, got, tail = ir.CompleteWords(q.Line, q.Pos) }); p != nil {
		return fmt.Errorf("CompleteWords(%q, %d) panicked: %v", q.Line, q.Pos, p)
	}
	want := q.Want
	if !q.Chain {
		want = append(append([]string(nil), want...), pristineWords(q.Word)...)
	}
	want = sortedUnique(want)
	if !sort.StringsAreSorted(got) {
		return fmt.Errorf("CompleteWords(%q, %d): completions not sorted: %v", q.Line, q.Pos, got)
	}
	for i := 1; i < len(got); i++ {
		if got[i] == got[i-1] {
			return fmt.Errorf("CompleteWords(%q, %d): duplicate completion %q in %v", q.Line, q.Pos, got[i], got)
		}
	}
	if len(q.Maybe) > 0 {
		// names whose presence is not asserted are ignored on both sides
		maybe := map[string]bool{}
		for _, n := range q.Maybe {
			maybe[n] = true
		}
		var g []string
		for _, n := range got {
			if !maybe[n] {
				g = append(g, n)
			}
		}
		if !equal(g, want) {
			return fmt.Errorf("CompleteWords(%q, %d): completions %v, expected %v plus possibly the ambiguous %v (%s)", q.Line, q.Pos, got, want, q.Maybe, diff(g, want))
		}
	} else if !equal(got, want) {
		return fmt.Errorf("CompleteWords(%q, %d): completions %v, expected %v (%s)", q.Line, q.Pos, got, want, diff(got, want))
	}
	pos := q.Pos
	if pos > len(q.Line) {
		pos = len(q.Line)
	}
	if tail != q.Line[pos:] {
		return fmt.Errorf("CompleteWords(%q, %d): tail %q, expected %q", q.Line, q.Pos, tail, q.Line[pos:])
	}
	if len(got) != 0 {
		// head + typed word is the text before the cursor: inserting a completion after
		// head replaces exactly the typed word
		if head+q.Word != q.Line[:pos] {
			return fmt.Errorf("CompleteWords(%q, %d): head %q + typed word %q is not the text before the cursor %q", q.Line, q.Pos, head, q.Word, q.Line[:pos])
		}
	} else if head != q.Line[:pos] && head+q.Word != q.Line[:pos] {
		return fmt.Errorf("CompleteWords(%q, %d): no completions, head %q is neither the text before the cursor nor that text minus the typed word", q.Line, q.Pos, head)
	}
	return nil
}

// newHistory starts a new interpreter and model; the packages of pkgPool are loaded
// into the interpreter's type universe with blank imports (which bind no name), so
// that the imports of the history itself are cheap.
func newHistory() {
	hist.ir, hist.m, hist.decls, hist.uses = newInterp(), newModel(), nil, 0
	for _, p := range pkgPool {
		vlib.Try(func() { hist.ir.Eval(`import _ "` + p + `"`) })
	}
}

func newInterp() *fast.Interp {
	ir := fast.New()
	ir.Comp.Globals.Stdout = discard{}
	ir.Comp.Globals.Stderr = discard{}
	return ir
}

func runSteps(ir *fast.Interp, steps []Step, offset int) error {
	for i, st := range steps {
		if st.Decl != "" {
			if p := vlib.Try(func() { ir.Eval(st.Decl) }); p != nil {
				return fmt.Errorf("step %d: declaration %q failed: %v", offset+i, st.Decl, p)
			}
		}
		if st.Query != nil {
			if err := checkQuery(ir, st.Query); err != nil {
				return fmt.Errorf("step %d: %v", offset+i, err)
			}
		}
	}
	return nil
}

func runCase(c *Case) error {
	return runSteps(newInterp(), c.Steps, 0)
}

// Importing a package makes gomacro look up compiler export data (an external "go list"
// per package), far more expensive than a case. Consecutive generated cases therefore
// continue one history in one interpreter (model and interpreter renewed every
// historyCases cases); the plain form of a case is the whole history since the
// interpreter was created, with the queries of earlier cases left out.
const historyCases = 40

var hist struct {
	ir    *fast.Interp
	m     *model
	decls []Step
	uses  int
}

type discard struct{}

func (discard) Write(p []byte) (int, error) { return len(p), nil }

func replay(content []byte) error {
	var c Case
	if err := json.Unmarshal(content, &c); err != nil || len(c.Steps) == 0 {
		return nil
	}
	return runCase(&c)
}

func TestReplays(t *testing.T) {
	rec.RunReplays(t, replay)
}

// ---------------------------------------------------------------- model

type field struct {
	Name     string
	Type     string // "int", "string" or the name of a declared struct type
	Ptr      bool
	Embedded bool
}

type typeDesc struct {
	Name    string
	Fields  []field
	Methods []string // both receivers: all are selectable on an addressable variable
}

type model struct {
	names   map[string]string    // declared top-level name -> kind (var, const, func, type, import)
	types   map[string]*typeDesc // declared struct types
	order   []string             // type names in declaration order
	vars    map[string]string    // variable -> struct type name ("" otherwise)
	varPtr  map[string]bool
	imports map[string]string // local name -> path
	decls   []string
	plain   map[string]bool // types used as the type of a non-embedded field, and the types they embed (F-C36-3)
}

func (m *model) hasMethods(tn string) bool {
	if len(m.types[tn].Methods) > 0 {
		return true
	}
	for _, f := range m.types[tn].Fields {
		if f.Embedded && m.hasMethods(f.Type) {
			return true
		}
	}
	return false
}

func (m *model) markPlain(tn string) {
	m.plain[tn] = true
	for _, f := range m.types[tn].Fields {
		if f.Embedded {
			m.markPlain(f.Type)
		}
	}
}

func newModel() *model {
	return &model{names: map[string]string{}, types: map[string]*typeDesc{}, vars: map[string]string{}, varPtr: map[string]bool{}, imports: map[string]string{}, plain: map[string]bool{}}
}

// member is what a selector name denotes on a struct type, by Go's rules: the
// field or method at the shallowest embedding depth; if the name occurs more than once at
// that depth (also through two paths to the same embedded type) the selector is
// ambiguous and x.name does not compile.
type member struct {
	Src       string // field, method, promoted-field, promoted-method
	Depth     int
	Count     int
	Field     *field // when the name denotes a field
	Ambiguous bool
}

// lookupAll walks the embedding tree of tn breadth first (with multiplicity).
func (m *model) lookupAll(tn string) map[string]*member {
	out := map[string]*member{}
	level := []string{tn}
	for depth := 0; len(level) > 0 && depth <= 8; depth++ {
		found := map[string]*member{}
		var next []string
		add := func(name, src string, f *field) {
			if mm := found[name]; mm != nil {
				mm.Count++
				mm.Ambiguous = true
				return
			}
			if depth > 0 {
				src = "promoted-" + src
			}
			found[name] = &member{Src: src, Depth: depth, Count: 1, Field: f}
		}
		for _, n := range level {
			t := m.types[n]
			if t == nil {
				continue
			}
			for i := range t.Fields {
				f := &t.Fields[i]
				add(f.Name, "field", f)
				if f.Embedded {
					next = append(next, f.Type)
				}
			}
			for _, mn := range t.Methods {
				add(mn, "method", nil)
			}
		}
		for name, mm := range found {
			if _, ok := out[name]; !ok {
				out[name] = mm
			}
		}
		level = next
	}
	return out
}

// memberSet: unambiguous selector names -> source.
func (m *model) memberSet(tn string) map[string]string {
	out := map[string]string{}
	for n, mm := range m.lookupAll(tn) {
		if !mm.Ambiguous {
			out[n] = mm.Src
		}
	}
	return out
}

func (m *model) ambiguousSet(tn string) []string {
	var l []string
	for n, mm := range m.lookupAll(tn) {
		if mm.Ambiguous {
			l = append(l, n)
		}
	}
	sort.Strings(l)
	return l
}

// shape of the embedding tree below tn: depth, largest fan-out, and whether some level
// holds >= 2 embedded structs of which one that is not the last embeds >= 2 itself
func (m *model) treeShape(tn string) (depth, fan int, wideNested bool) {
	level := []string{tn}
	for d := 0; len(level) > 0 && d <= 8; d++ {
		var next []string
		for i, n := range level {
			k := 0
			for _, f := range m.types[n].Fields {
				if f.Embedded {
					k++
					next = append(next, f.Type)
				}
			}
			if k > fan {
				fan = k
			}
			if k >= 2 && len(level) >= 2 && i < len(level)-1 {
				wideNested = true
			}
		}
		if len(next) > 0 {
			depth = d + 1
		}
		level = next
	}
	return
}

func pkgMembers(path string) []string {
	p, ok := imports.Packages[path]
	if !ok {
		return nil
	}
	var l []string
	for k := range p.Binds {
		l = append(l, k)
	}
	for k := range p.Types {
		l = append(l, k)
	}
	return sortedUnique(l)
}

func withPrefix(l []string, p string) []string {
	var out []string
	for _, s := range l {
		if strings.HasPrefix(s, p) {
			out = append(out, s)
		}
	}
	return out
}

// ---------------------------------------------------------------- generators

var namePool = []string{
	"ab", "abc", "abd", "aB", "aBc", "a", "b_1", "b_12", "b", "_x", "_xy",
	"αβ", "αβγ", "αγ", "Ab", "Abc", "AB",
	// share prefixes with keywords and universe names
	"fo", "forx", "fun", "funcy", "inte", "intx", "in", "st", "stru", "structy", "ap", "appendx", "tru", "truex", "ne", "newx",
	"ma", "macrox", "te", "templat", "templatex", "g", "gox", "le", "lenx", "pa", "panics", "r", "ru", "runex", "by", "ca", "capx",
}

var memberPool = []string{"f", "fa", "fab", "fb", "F", "Fa", "Fab", "g", "ga", "gab", "M", "Ma", "Mab", "Mb", "m", "ma", "x", "xy", "X", "Xy", "αf", "αfb", "f_1", "f_12"}

var pkgPool = []string{"strings", "sort", "os", "unicode/utf8", "errors", "bytes", "io", "time"}

func pkgName(path string) string {
	if i := strings.LastIndexByte(path, '/'); i >= 0 {
		return path[i+1:]
	}
	return path
}

func (m *model) freeName(t *rapid.T, label string) string {
	// declared names may be redeclared with the same kind only (a type and a variable
	// of the same name would make chains rooted at that name depend on resolution order)
	return rapid.SampledFrom(namePool).Draw(t, label)
}

func (m *model) genDecl(t *rapid.T) []string {
	switch k := rapid.IntRange(0, 11).Draw(t, "decl-kind"); {
	case k <= 1: // plain var / const / func
		name := m.freeName(t, "name")
		kind := rapid.SampledFrom([]string{"var", "const", "func"}).Draw(t, "plain-kind")
		if old, ok := m.names[name]; ok && (old == "type" || old == "import" || m.vars[name] != "") {
			return nil
		}
		m.names[name] = kind
		delete(m.vars, name)
		switch kind {
		case "var":
			return []string{"var " + name + " int"}
		case "const":
			return []string{"const " + name + " = 7"}
		}
		return []string{"func " + name + "() int { return 1 }"}
	case k <= 4: // a tree of struct types: embedded children are declared before their parent
		var out []string
		budget := rapid.IntRange(1, 9).Draw(t, "tree-nodes")
		root := m.genTree(t, 0, &budget, &out)
		d, fan, wn := m.treeShape(root)
		rec.Label(fmt.Sprintf("tree:depth=%d", d))
		rec.Label(fmt.Sprintf("tree:max-fan-out=%d", fan))
		if wn {
			rec.Label("tree:wide-and-nested")
		}
		if len(m.ambiguousSet(root)) > 0 {
			rec.Label("tree:has-ambiguous-selector")
		}
		return out
	case k <= 6: // method
		if len(m.order) == 0 {
			return nil
		}
		tn := rapid.SampledFrom(m.order).Draw(t, "recv")
		td := m.types[tn]
		name := rapid.SampledFrom(memberPool).Draw(t, "mname")
		for _, f := range td.Fields {
			if f.Name == name {
				return nil // field and method with the same name: not Go
			}
		}
		for _, mn := range td.Methods {
			if mn == name {
				return nil // method redeclared: not Go
			}
		}
		if known("F-C36-3") && m.plain[tn] {
			rec.Excluded("F-C36-3")
			return nil
		}
		td.Methods = append(td.Methods, name)
		if rapid.Bool().Draw(t, "ptr-recv") {
			return []string{"func (r *" + tn + ") " + name + "() int { return 2 }"}
		}
		return []string{"func (r " + tn + ") " + name + "() {}"}
	case k <= 8: // variable of struct type
		if len(m.order) == 0 {
			return nil
		}
		name := m.freeName(t, "vname")
		if old, ok := m.names[name]; ok && old != "var" {
			return nil
		}
		tn := m.order[len(m.order)-1] // the root of the latest tree
		if rapid.Bool().Draw(t, "vtype-any") {
			tn = rapid.SampledFrom(m.order).Draw(t, "vtype")
		}
		ptr := rapid.Bool().Draw(t, "vptr")
		m.names[name] = "var"
		m.vars[name] = tn
		m.varPtr[name] = ptr
		if ptr {
			return []string{"var " + name + " *" + tn}
		}
		return []string{"var " + name + " " + tn}
	default: // import
		path := rapid.SampledFrom(pkgPool).Draw(t, "pkg")
		local := pkgName(path)
		alias := ""
		if rapid.Bool().Draw(t, "alias") {
			local = rapid.SampledFrom([]string{"p", "pk", "pkg", "abq", "stringz"}).Draw(t, "alias-name")
			alias = local + " "
		}
		if old, ok := m.names[local]; ok && old != "import" {
			return nil
		}
		m.names[local] = "import"
		m.imports[local] = path
		return []string{"import " + alias + `"` + path + `"`}
	}
}

var typePool = []string{"T0", "T1", "T2", "T3", "Tab", "Tabc", "Ty"}

func (m *model) newTypeName(t *rapid.T) string {
	var cands []string
	for _, n := range typePool {
		if m.types[n] == nil {
			cands = append(cands, n)
		}
	}
	if len(cands) == 0 || rapid.IntRange(0, 2).Draw(t, "tname-numbered") == 0 {
		return fmt.Sprintf("Tn%d", len(m.order))
	}
	return rapid.SampledFrom(cands).Draw(t, "tname")
}

// genTree declares one struct type at the given depth of an embedding tree: 0-3 embedded
// children (new types declared first, or earlier types; by value or by pointer), down
// to depth 3, own fields and methods at every node. Member names come from a small
// pool, so shadowing and same-depth duplicates arise by themselves. Returns the type name.
func (m *model) genTree(t *rapid.T, depth int, budget *int, out *[]string) string {
	*budget--
	td := &typeDesc{}
	used := map[string]bool{}
	var parts []string
	fan := 0
	if depth < 3 && *budget > 0 {
		fan = rapid.IntRange(0, 3).Draw(t, "fan-out")
	}
	for i := 0; i < fan; i++ {
		var child string
		if len(m.order) > 0 && (*budget <= 0 || rapid.IntRange(0, 3).Draw(t, "reuse") == 0) {
			child = rapid.SampledFrom(m.order).Draw(t, "child")
			if used[child] || depth+1+m.embedDepth(child) > 3 {
				continue
			}
		} else if *budget > 0 {
			child = m.genTree(t, depth+1, budget, out)
		} else {
			continue
		}
		used[child] = true
		ptr := rapid.Bool().Draw(t, "embed-ptr")
		if ptr && known("F-C36-2") {
			rec.Excluded("F-C36-2")
			ptr = false
		}
		td.Fields = append(td.Fields, field{Name: child, Type: child, Ptr: ptr, Embedded: true})
		if ptr {
			parts = append(parts, "*"+child)
		} else {
			parts = append(parts, child)
		}
	}
	nf := rapid.IntRange(0, 3).Draw(t, "nfields")
	for i := 0; i < nf; i++ {
		name := rapid.SampledFrom(memberPool).Draw(t, "fname")
		if used[name] {
			continue
		}
		if len(m.order) > 0 && rapid.IntRange(0, 4).Draw(t, "field-struct") == 0 {
			// plain (not embedded) field of an earlier struct type
			other := rapid.SampledFrom(m.order).Draw(t, "ftype-named")
			if known("F-C36-3") {
				if m.hasMethods(other) {
					rec.Excluded("F-C36-3")
					continue
				}
				m.markPlain(other)
			}
			ptr := rapid.Bool().Draw(t, "fptr")
			used[name] = true
			td.Fields = append(td.Fields, field{Name: name, Type: other, Ptr: ptr})
			if ptr {
				parts = append(parts, name+" *"+other)
			} else {
				parts = append(parts, name+" "+other)
			}
			continue
		}
		used[name] = true
		ft := rapid.SampledFrom([]string{"int", "string"}).Draw(t, "ftype")
		td.Fields = append(td.Fields, field{Name: name, Type: ft})
		parts = append(parts, name+" "+ft)
	}
	// fields in random positions relative to the embedded ones
	if len(parts) > 1 && rapid.Bool().Draw(t, "rotate") {
		k := rapid.IntRange(1, len(parts)-1).Draw(t, "rotate-by")
		parts = append(parts[k:], parts[:k]...)
		td.Fields = append(td.Fields[k:], td.Fields[:k]...)
	}
	td.Name = m.newTypeName(t)
	m.types[td.Name] = td
	m.order = append(m.order, td.Name)
	m.names[td.Name] = "type"
	*out = append(*out, "type "+td.Name+" struct { "+strings.Join(parts, "; ")+" }")
	nm := rapid.IntRange(0, 2).Draw(t, "nmethods")
	for i := 0; i < nm; i++ {
		name := rapid.SampledFrom(memberPool).Draw(t, "mname")
		if used[name] {
			continue
		}
		used[name] = true
		td.Methods = append(td.Methods, name)
		if rapid.Bool().Draw(t, "ptr-recv") {
			*out = append(*out, "func (r *"+td.Name+") "+name+"() int { return 2 }")
		} else {
			*out = append(*out, "func (r "+td.Name+") "+name+"() {}")
		}
	}
	return td.Name
}

func (m *model) embedDepth(tn string) int {
	d := 0
	for _, f := range m.types[tn].Fields {
		if f.Embedded {
			if e := 1 + m.embedDepth(f.Type); e > d {
				d = e
			}
		}
	}
	return d
}

func prefixOf(t *rapid.T, s string, label string) string {
	// cut at a rune boundary
	var cuts []int
	for i := range s {
		cuts = append(cuts, i)
	}
	cuts = append(cuts, len(s))
	return s[:rapid.SampledFrom(cuts).Draw(t, label)]
}

func sortedKeys(m map[string]string) []string {
	var l []string
	for k := range m {
		l = append(l, k)
	}
	sort.Strings(l)
	return l
}

func (m *model) genQuery(t *rapid.T) *Query {
	q := &Query{}
	var chainText string // text of the dotted chain up to the cursor
	sources := map[string]bool{}
	dot := func() string {
		return rapid.SampledFrom([]string{".", ".", ".", " .", ". ", " . "}).Draw(t, "dot")
	}
	kind := rapid.IntRange(0, 9).Draw(t, "query-kind")
	structVars := sortedKeys(m.vars)
	for i := 0; i < len(structVars); {
		if m.vars[structVars[i]] == "" {
			structVars = append(structVars[:i], structVars[i+1:]...)
		} else {
			i++
		}
	}
	imps := sortedKeys(m.imports)
	switch {
	case kind <= 3 || (kind <= 7 && len(structVars) == 0) || (kind >= 8 && len(imps) == 0 && len(structVars) == 0):
		// single word
		var word string
		if names := sortedKeys(m.names); len(names) > 0 && rapid.Bool().Draw(t, "of-declared") {
			word = prefixOf(t, rapid.SampledFrom(names).Draw(t, "wname"), "wcut")
		} else {
			word = prefixOf(t, rapid.SampledFrom(namePool).Draw(t, "wname"), "wcut")
		}
		if word == "" {
			word = "a"
		}
		q.Word = word
		for _, n := range sortedKeys(m.names) {
			if strings.HasPrefix(n, word) {
				q.Want = append(q.Want, n)
				sources[m.names[n]] = true
			}
		}
		if len(pristineWords(word)) > 0 {
			sources["keyword-or-universe"] = true
		}
		chainText = word
		rec.Label("query:word")
	case kind <= 7:
		// v.pre or v.f.pre
		v := rapid.SampledFrom(structVars).Draw(t, "qvar")
		tn := m.vars[v]
		chainText = v + dot()
		form := "query:var.member"
		deeper := rapid.IntRange(0, 2).Draw(t, "deeper") == 0
		if deeper && m.varPtr[v] && known("F-C36-1") {
			rec.Excluded("F-C36-1")
			deeper = false
		}
		if deeper {
			// through a field of struct type (named or embedded), own or promoted
			var fs []field
			var collect func(tn string)
			collect = func(tn string) {
				for _, f := range m.types[tn].Fields {
					if m.types[f.Type] != nil {
						fs = append(fs, f)
					}
					if f.Embedded {
						collect(f.Type)
					}
				}
			}
			collect(tn)
			if len(fs) > 0 {
				f := fs[rapid.IntRange(0, len(fs)-1).Draw(t, "qfield")]
				// the field must be what the selector resolves to: the only one of that name at the shallowest depth
				if mm := m.lookupAll(tn)[f.Name]; mm != nil && !mm.Ambiguous && mm.Field != nil && *mm.Field == f {
					chainText += f.Name + dot()
					tn = f.Type
					form = "query:var.field.member"
				}
			}
		}
		mem := m.memberSet(tn)
		names := sortedKeys(mem)
		word := ""
		if len(names) > 0 && rapid.IntRange(0, 3).Draw(t, "nonempty-word") > 0 {
			word = prefixOf(t, rapid.SampledFrom(names).Draw(t, "mname"), "mcut")
		} else if rapid.Bool().Draw(t, "pool-word") {
			word = prefixOf(t, rapid.SampledFrom(memberPool).Draw(t, "mname"), "mcut")
		}
		if strings.HasSuffix(chainText, " ") && word == "" {
			chainText = strings.TrimRight(chainText, " ") // the text before the cursor ends in '.' or in an identifier
		}
		q.Word, q.Chain = word, true
		for _, n := range names {
			if strings.HasPrefix(n, word) {
				q.Want = append(q.Want, n)
				sources[mem[n]] = true
			}
		}
		q.Maybe = withPrefix(m.ambiguousSet(tn), word)
		if len(q.Maybe) > 0 {
			rec.Label("query:ambiguous-names-not-asserted")
		}
		if d, fan, wn := m.treeShape(tn); true {
			rec.Label(fmt.Sprintf("query-root:embed-depth=%d", d))
			rec.Label(fmt.Sprintf("query-root:max-fan-out=%d", fan))
			if wn {
				rec.Label("query-root:wide-and-nested")
			}
		}
		chainText += word
		rec.Label(form)
		if word == "" {
			rec.Label("query:empty-word-after-dot")
		}
	default:
		if len(imps) > 0 && (kind == 8 || len(structVars) == 0) {
			p := rapid.SampledFrom(imps).Draw(t, "qpkg")
			all := pkgMembers(m.imports[p])
			word := ""
			if rapid.IntRange(0, 4).Draw(t, "nonempty-word") > 0 {
				word = prefixOf(t, rapid.SampledFrom(all).Draw(t, "pname"), "pcut")
			}
			d := dot()
			if word == "" {
				d = strings.TrimRight(d, " ")
			}
			q.Word, q.Chain = word, true
			q.Want = withPrefix(all, word)
			if len(q.Want) > 0 {
				sources["package-member"] = true
			}
			chainText = p + d + word
			rec.Label("query:pkg.member")
		} else {
			// unknown root, or a root that is not a struct variable: nothing to complete
			root := rapid.SampledFrom([]string{"zz", "nosuch", "q_q"}).Draw(t, "root")
			word := prefixOf(t, rapid.SampledFrom(memberPool).Draw(t, "mname"), "mcut")
			q.Word, q.Chain = word, true
			chainText = root + "." + word
			rec.Label("query:unknown-root")
		}
	}
	before := rapid.SampledFrom([]string{"", "", "", " ", "foo(", "1+", "x = ", "(", "a[", "!", "  ", "f(1, ", "αβ+", "\t"}).Draw(t, "before")
	after := rapid.SampledFrom([]string{"", "", "", ")", " + 1", "xyz", " ", ".foo", "αβ"}).Draw(t, "after")
	q.Line = before + chainText + after
	q.Pos = len(before) + len(chainText)
	if after == "" && rapid.IntRange(0, 5).Draw(t, "beyond") == 0 {
		q.Pos += rapid.IntRange(1, 5).Draw(t, "beyond-by")
		rec.Label("query:cursor-beyond-end")
	}
	if after != "" {
		rec.Label("query:text-after-cursor")
	}
	if before != "" {
		rec.Label("query:text-before-word")
	}
	if !utf8.ValidString(q.Line) {
		panic("bad line")
	}
	var src []string
	for s := range sources {
		src = append(src, s)
	}
	sort.Strings(src)
	q.Source = strings.Join(src, ",")
	return q
}

func TestCompletion(t *testing.T) {
	want, ran := rec.Scale(200, 300), 0
	defer func() {
		if !rec.ReplayOnly() && !t.Failed() && ran < want {
			t.Fatalf("only %d of %d cases ran (rapid stopped early): inconclusive", ran, want)
		}
	}()
	rec.Check(t, want, func(t *rapid.T) {
		ran++
		if hist.ir == nil || hist.uses >= historyCases {
			newHistory()
		}
		hist.uses++
		m := hist.m
		c := &Case{}
		n := rapid.IntRange(5, 40).Draw(t, "nsteps")
		var nts []string
		for i := 0; i < n; i++ {
			if rapid.IntRange(0, 2).Draw(t, "step-kind") == 0 {
				for _, d := range m.genDecl(t) {
					c.Steps = append(c.Steps, Step{Decl: d})
					m.decls = append(m.decls, d)
					rec.Label("decl:" + strings.SplitN(d, " ", 2)[0])
				}
				continue
			}
			q := m.genQuery(t)
			c.Steps = append(c.Steps, Step{Query: q})
			if (len(q.Want) >= 2 && strings.Contains(q.Source, ",")) || q.Pos < len(q.Line) {
				nts = append(nts, strings.Join(m.decls, ";")+"|"+q.Line+"|"+fmt.Sprint(q.Pos))
			}
			rec.Label("expected-size:" + bucket(len(q.Want)))
			if strings.Contains(q.Source, "promoted") {
				rec.Label("expected-has:promoted")
			}
		}
		err := runSteps(hist.ir, c.Steps, len(hist.decls))
		full := &Case{Steps: append(append([]Step(nil), hist.decls...), c.Steps...)}
		for _, st := range c.Steps {
			if st.Decl != "" {
				hist.decls = append(hist.decls, st)
			}
		}
		if err != nil {
			hist.ir = nil // start a new history
			first := err
			if err = runCase(full); err == nil {
				rec.Label("failure-in-long-history-only")
				rec.Note("failure not reproduced from the declarations alone: %v", first)
				return
			}
			data, _ := json.MarshalIndent(full, "", " ")
			rec.Failf(t, "completion", data, "json", "%v", err)
		}
		nq := 0
		for _, st := range c.Steps {
			if st.Query != nil {
				nq++
			}
		}
		if nq > 1 {
			rec.Eval(nq - 1)
		}
		for _, k := range nts {
			rec.NT(k)
		}
		if len(nts) > 0 {
			rec.Sample(c.Steps[len(c.Steps)-1])
		}
	})
}

func bucket(n int) string {
	switch {
	case n == 0:
		return "0"
	case n == 1:
		return "1"
	case n < 5:
		return "2-4"
	case n < 20:
		return "5-19"
	}
	return ">=20"
}
