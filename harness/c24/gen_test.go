package c24

import (
	"fmt"
	"strings"
	"testing"

	"pgregory.net/rapid"

	tg "verif/harness/c23"
)

// ---------------------------------------------------------------- validity-preserving perturbation

// perturb changes only the white space and comments between the tokens of a valid
// source: extra blanks, a general comment without a newline, a line comment in front of
// an existing newline, CRLF for LF. None of these changes the token sequence or where
// semicolons are inserted, so a valid file stays valid; every position shifts.
func perturb(t *rapid.T, src []byte) []byte {
	pieces := tg.Pieces(src)
	rate := rapid.SampledFrom([]int{3, 8, 20}).Draw(t, "perturb-rate")
	var sb strings.Builder
	for _, p := range pieces {
		if rapid.IntRange(0, rate).Draw(t, "perturb?") != 0 {
			sb.WriteString(p)
			continue
		}
		body := strings.TrimRight(p, " \t\r\n")
		ws := p[len(body):]
		nl := strings.IndexByte(ws, '\n')
		if strings.HasPrefix(body, "//") {
			nl = -1 // never extend a line comment: it may be a //line directive
		}
		switch rapid.IntRange(0, 5).Draw(t, "perturb-op") {
		case 0:
			sb.WriteString(p + rapid.SampledFrom([]string{" ", "\t", "  "}).Draw(t, "blank"))
		case 1, 2:
			sb.WriteString(p + rapid.SampledFrom([]string{" /* c */", " /**/ ", " /* a */ /* b */ "}).Draw(t, "gc"))
		case 3, 4:
			if nl < 0 {
				sb.WriteString(p)
				continue
			}
			sb.WriteString(body + ws[:nl] + rapid.SampledFrom([]string{" // c", " //", " /* x */ // y", "\t/* x */"}).Draw(t, "lc") + ws[nl:])
		default:
			if nl < 0 {
				sb.WriteString(p)
				continue
			}
			sb.WriteString(body + strings.Replace(ws, "\n", "\r\n", 1))
		}
	}
	return []byte(sb.String())
}

func TestPerturbations(t *testing.T) {
	mk := currentMasks()
	rec.Check(t, rec.Scale(1500, 10000), func(t *rapid.T) {
		base := declWindow(t, "file", rapid.SampledFrom([]int{300, 1500, 6000}).Draw(t, "win"))
		src := perturb(t, base)
		if !inDomain(src) {
			return
		}
		rp, err := checkParse(src, mk, true)
		account("perturbed-window", src, rp)
		if rp.Class == "invalid-both-reject" {
			// a perturbation must not invalidate a valid window: harness bug, not a finding
			t.Fatalf("perturbation made go/parser reject: %s\n%q", rp.StdMsg, src)
		}
		if err != nil {
			rec.Failf(t, "perturbation", src, "go", "%v\ninput: %q", err, src)
		}
	})
}

// ---------------------------------------------------------------- grammar-directed generator

type gen struct {
	t     *rapid.T
	depth int
	inHdr int // > 0: inside an if/for/switch header, composite literals need parentheses
}

func (g *gen) pick(label string, n int) int { return rapid.IntRange(0, n-1).Draw(g.t, label) }
func (g *gen) oneOf(label string, l ...string) string {
	return rapid.SampledFrom(l).Draw(g.t, label)
}
func (g *gen) deep() bool { return g.depth > 4 }

func (g *gen) ident() string {
	return g.oneOf("id", "a", "b", "x", "y", "foo", "_x", "αβ", "T1", "err", "i", "n", "macro_", "template")
}
func (g *gen) tname() string { return g.oneOf("tn", "int", "string", "T", "U", "pkg.T", "error", "byte") }

func (g *gen) lit() string {
	return g.oneOf("lit", "0", "1", "42", "0x1F", "0b101", "0o17", "017", "1_000", "1.5", ".5", "1e3", "0x1p-2", "3i",
		`"s"`, `"a\n\"b"`, "`raw`", "`a\nb`", `'c'`, `'\n'`, `'\''`, `'é'`, "true", "nil", "iota")
}

func (g *gen) typ() string {
	g.depth++
	defer func() { g.depth-- }()
	n := 16
	if g.deep() {
		n = 1
	}
	switch g.pick("type", n) {
	case 0:
		return g.tname()
	case 1:
		return "*" + g.typ()
	case 2:
		return "[]" + g.typ()
	case 3:
		return "[" + g.oneOf("alen", "3", "N", "2*N+1", "len(x)") + "]" + g.typ()
	case 4:
		return "map[" + g.typ() + "]" + g.typ()
	case 5:
		if g.pick("chan-paren", 5) == 0 {
			return "chan (<-chan " + g.typ() + ")"
		}
		return g.oneOf("chan", "chan ", "<-chan ", "chan<- ", "chan<- <-chan ", "chan<- chan ") + g.typ()
	case 6:
		return "func" + g.signature()
	case 7:
		return g.structType()
	case 8:
		return g.interfaceType()
	case 9:
		return "(" + g.typ() + ")"
	case 10:
		return "struct{}"
	case 11:
		return "interface{}"
	default:
		return g.tname()
	}
}

func (g *gen) params(named bool) string {
	n := g.pick("nparams", 4)
	var l []string
	for i := 0; i < n; i++ {
		ty := g.typ()
		if i == n-1 && g.pick("variadic", 4) == 0 {
			ty = "..." + ty
		}
		if named {
			if g.pick("grouped", 3) == 0 && i < n-1 {
				l = append(l, g.ident()+", "+g.ident()+" "+ty)
			} else {
				l = append(l, g.ident()+" "+ty)
			}
		} else {
			l = append(l, ty)
		}
	}
	return "(" + strings.Join(l, ", ") + ")"
}

func (g *gen) signature() string {
	s := g.params(g.pick("named", 2) == 0)
	switch g.pick("results", 5) {
	case 0:
		s += " " + g.typ()
	case 1:
		s += " (" + g.typ() + ", error)"
	case 2:
		s += " (" + g.ident() + " " + g.typ() + ", " + g.ident() + " error)"
	}
	return s
}

func (g *gen) structType() string {
	n := g.pick("nfields", 4)
	sep := g.oneOf("fsep", "; ", "\n\t")
	var l []string
	for i := 0; i < n; i++ {
		switch g.pick("field", 6) {
		case 0:
			l = append(l, g.oneOf("emb", "T", "*T", "pkg.T", "*pkg.T"))
		case 1:
			l = append(l, g.ident()+", "+g.ident()+" "+g.typ())
		case 2:
			l = append(l, g.ident()+" "+g.typ()+" "+g.oneOf("tag", "`json:\"a\"`", `"tag"`))
		case 3:
			l = append(l, "T `emb:\"tag\"`")
		default:
			l = append(l, g.ident()+" "+g.typ())
		}
	}
	if sep == "; " {
		return "struct{ " + strings.Join(l, sep) + " }"
	}
	return "struct {\n\t" + strings.Join(l, sep) + "\n}"
}

func (g *gen) interfaceType() string {
	n := g.pick("nmethods", 4)
	var l []string
	for i := 0; i < n; i++ {
		switch g.pick("method", 40) {
		case 0:
			l = append(l, g.oneOf("iemb", "pkg.I", "io.Reader", "fmt.Stringer"))
		case 1:
			l = append(l, g.oneOf("iemb-unq", "I", "error", "Stringer")) // F-C24-2 shape
		default:
			l = append(l, g.ident()+g.signature())
		}
	}
	if g.pick("iline", 2) == 0 {
		return "interface{ " + strings.Join(l, "; ") + " }"
	}
	return "interface {\n\t" + strings.Join(l, "\n\t") + "\n}"
}

var binops = []string{"+", "-", "*", "/", "%", "&", "|", "^", "<<", ">>", "&^", "&&", "||", "==", "!=", "<", "<=", ">", ">="}

func (g *gen) expr() string {
	g.depth++
	defer func() { g.depth-- }()
	n := 26
	if g.deep() {
		n = 2
	}
	switch g.pick("expr", n) {
	case 0:
		return g.ident()
	case 1:
		return g.lit()
	case 2, 3, 4:
		return g.expr() + " " + rapid.SampledFrom(binops).Draw(g.t, "binop") + " " + g.expr()
	case 5:
		op, x := g.oneOf("unop", "-", "+", "!", "^", "*", "&", "<-"), g.expr()
		if strings.ContainsAny(x[:1], "+-&<*^!=") {
			return op + " " + x
		}
		return op + x
	case 6:
		return "(" + g.expr() + ")"
	case 7:
		return g.primary() + "(" + g.args() + ")"
	case 8:
		return g.primary() + "[" + g.expr() + "]"
	case 9:
		return g.primary() + "[" + g.oneOf("slice", ":", "1:", ":2", "1:2", ":2:3", "1:2:3", "i:j", "i+1:j*2:cap(x)") + "]"
	case 10:
		return g.primary() + "." + g.ident()
	case 11:
		return g.primary() + ".(" + g.typ() + ")"
	case 12:
		return g.compositeLit()
	case 13:
		return "&" + g.compositeLit()
	case 14:
		return "func" + g.signature() + " " + g.block()
	case 15:
		return g.oneOf("conv", "[]byte", "(*T)", "(func())", "(chan int)", "(<-chan int)", "T", "pkg.T", "string", "(interface{})", "([]int)", "(map[string]int)", "(struct{})") + "(" + g.expr() + ")"
	case 16:
		return g.oneOf("builtin", "make([]int, 3)", "make(map[string][]T)", "make(chan<- int, n)", "new(T)", "new([]*T)", "len(x)", "append(a, b...)", "append([]byte(nil), s...)")
	case 17:
		return "(*T)." + g.ident()
	case 18:
		return "T." + g.ident()
	case 19:
		return "func" + g.signature() + " " + g.block() + "(" + g.args() + ")"
	case 20:
		return g.primary() + "." + g.ident() + "(" + g.args() + ")." + g.ident()
	case 21:
		return "*" + g.primary() + "." + g.ident()
	case 22:
		return "-" + g.lit() + " " + g.oneOf("tightop", "- -", "+ +", "- +", "&^ ^", "* *", "& &") + g.ident()
	default:
		return g.ident()
	}
}

func (g *gen) primary() string {
	switch g.pick("primary", 5) {
	case 0:
		return "(" + g.expr() + ")"
	case 1:
		return g.ident() + "." + g.ident()
	case 2:
		return g.ident() + "[" + g.lit() + "]"
	default:
		return g.ident()
	}
}

func (g *gen) args() string {
	n := g.pick("nargs", 4)
	var l []string
	for i := 0; i < n; i++ {
		l = append(l, g.expr())
	}
	s := strings.Join(l, ", ")
	if n > 0 && g.pick("spread", 5) == 0 {
		s += g.oneOf("spread-form", ", x...", ", f()...", " ...", ", []int{1}...")
	}
	if n > 0 && g.pick("trailing-comma", 6) == 0 {
		s += ",\n"
	}
	return s
}

func (g *gen) compositeLit() string {
	g.depth++
	defer func() { g.depth-- }()
	save := g.inHdr
	var s string
	elems := func(keyed int) string {
		g.inHdr = 0 // inside braces parentheses are no longer needed
		defer func() { g.inHdr = save }()
		n := g.pick("nelems", 4)
		var l []string
		for i := 0; i < n; i++ {
			var e string
			if !g.deep() && g.pick("elided", 4) == 0 {
				e = "{" + g.expr() + ", " + g.expr() + "}"
			} else {
				e = g.expr()
			}
			switch keyed {
			case 1:
				e = g.ident() + ": " + e
			case 2:
				e = g.oneOf("key", `"k"`, "1", "2: 3, 4", "x+1", "{1, 2}", "T{1}") + ": " + e
			}
			l = append(l, e)
		}
		r := strings.Join(l, ", ")
		if n > 0 && g.pick("nl-comma", 4) == 0 {
			return "\n" + r + ",\n"
		}
		return r
	}
	switch g.pick("clit", 8) {
	case 0:
		s = "T{" + elems(g.pick("k", 2)) + "}"
	case 1:
		s = "pkg.T{" + elems(1) + "}"
	case 2:
		s = "[]" + g.typ() + "{" + elems(0) + "}"
	case 3:
		s = "[...]" + g.tname() + "{" + elems(g.pick("k2", 2)*2) + "}"
	case 4:
		s = "map[" + g.tname() + "]" + g.typ() + "{" + elems(2) + "}"
	case 5:
		s = "struct{ a, b int }{" + elems(g.pick("k3", 2)) + "}"
	case 6:
		s = "[2][]T{{" + elems(0) + "}, {}}"
	default:
		s = "[]*T{{" + elems(1) + "}, &T{}}"
	}
	if g.inHdr > 0 {
		return "(" + s + ")"
	}
	return s
}

func (g *gen) simpleStmt() string {
	switch g.pick("simple", 10) {
	case 0:
		return g.ident() + " := " + g.expr()
	case 1:
		return g.ident() + ", " + g.ident() + " := " + g.expr() + ", " + g.expr()
	case 2:
		return g.primary() + " " + g.oneOf("asgop", "=", "+=", "-=", "*=", "/=", "%=", "&=", "|=", "^=", "<<=", ">>=", "&^=") + " " + g.expr()
	case 3:
		return g.primary() + g.oneOf("incdec", "++", "--")
	case 4:
		return g.primary() + " <- " + g.expr()
	case 5:
		return g.ident() + "(" + g.args() + ")"
	case 6:
		return "<-" + g.primary()
	case 7:
		return g.ident() + ", " + g.primary() + " = " + g.expr() + ", " + g.expr()
	case 8:
		return g.ident() + ", ok := " + g.oneOf("commaok", "<-c", "m[k]", "x.(T)")
	default:
		return "_ = " + g.expr()
	}
}

func (g *gen) header(f func() string) string {
	g.inHdr++
	defer func() { g.inHdr-- }()
	return f()
}

func (g *gen) block() string {
	g.depth++
	defer func() { g.depth-- }()
	save := g.inHdr
	g.inHdr = 0
	defer func() { g.inHdr = save }()
	n := g.pick("nstmts", 4)
	if g.deep() {
		n = g.pick("nstmts-deep", 2)
	}
	if n == 0 {
		return g.oneOf("empty-block", "{}", "{\n}", "{ ; }")
	}
	var l []string
	for i := 0; i < n; i++ {
		l = append(l, g.stmt())
	}
	if g.pick("oneline", 4) == 0 {
		return "{ " + strings.Join(l, "; ") + " }"
	}
	return "{\n" + strings.Join(l, "\n") + "\n}"
}

func (g *gen) stmt() string {
	g.depth++
	defer func() { g.depth-- }()
	n := 24
	if g.deep() {
		n = 4
	}
	switch g.pick("stmt", n) {
	case 0, 1, 2:
		return g.simpleStmt()
	case 3:
		return g.oneOf("ret", "return", "return "+g.expr(), "return "+g.expr()+", nil")
	case 4:
		return "var " + g.ident() + " " + g.typ() + g.oneOf("varinit", "", " = "+g.expr())
	case 5:
		return "var " + g.ident() + ", " + g.ident() + " = " + g.expr() + ", " + g.expr()
	case 6:
		return "const " + g.ident() + g.oneOf("ctyp", "", " int") + " = " + g.expr()
	case 7:
		return "type " + g.ident() + g.oneOf("alias", " ", " = ") + g.typ()
	case 8:
		s := "if " + g.header(func() string {
			h := ""
			if g.pick("ifinit", 3) == 0 {
				h = g.simpleStmt() + "; "
			}
			return h + g.expr()
		}) + " " + g.block()
		switch g.pick("else", 4) {
		case 0:
			s += " else " + g.block()
		case 1:
			s += " else if " + g.header(g.expr) + " " + g.block() + " else " + g.block()
		}
		return s
	case 9:
		return "for " + g.header(func() string {
			switch g.pick("for", 9) {
			case 0:
				return ""
			case 1:
				return g.expr()
			case 2:
				return g.simpleStmt() + "; " + g.expr() + "; " + g.simpleStmt()
			case 3:
				return "; ;"
			case 4:
				return g.ident() + " := range " + g.expr()
			case 5:
				return g.ident() + ", " + g.ident() + " := range " + g.expr()
			case 6:
				return g.primary() + ", " + g.primary() + " = range " + g.expr()
			case 7:
				return "range " + g.expr()
			default:
				return "; " + g.expr() + ";"
			}
		}) + " " + g.block()
	case 10:
		hdr := g.header(func() string {
			switch g.pick("switch", 5) {
			case 0:
				return ""
			case 1:
				return g.expr() + " "
			case 2:
				return g.simpleStmt() + "; " + g.expr() + " "
			case 3:
				return g.simpleStmt() + "; "
			default:
				return g.expr() + " "
			}
		})
		return "switch " + hdr + "{\n" + g.cases(false) + "}"
	case 11:
		hdr := g.header(func() string {
			return g.oneOf("tswitch", "x.(type)", "y := x.(type)", "y := f(); z := y.(type)", "(x).(type)", "a.b.(type)")
		})
		return "switch " + hdr + " {\n" + g.cases(true) + "}"
	case 12:
		n := g.pick("ncomm", 4)
		s := "select {\n"
		for i := 0; i < n; i++ {
			s += "case " + g.oneOf("comm", "<-c", "v := <-c", "v, ok := <-c", "c <- "+g.expr(), "x[i] = <-c", "a, b = <-c", "<-f(x)") + ":\n" + g.stmtList()
		}
		if g.pick("seldef", 2) == 0 {
			s += "default:\n" + g.stmtList()
		}
		return s + "}"
	case 13:
		lbl := g.oneOf("label", "L", "Loop", "out")
		return lbl + ":\n" + "for " + g.header(g.expr) + " {\n" + g.oneOf("br", "break", "continue", "goto") + " " + lbl + "\n" + g.stmtList() + "}"
	case 14:
		return g.oneOf("godefer", "go ", "defer ") + g.oneOf("callee", "f", "x.m", "func() "+g.block(), "(func(int))(nil)") + "(" + g.args() + ")"
	case 15:
		return g.block()
	case 16:
		return g.oneOf("bare", "break", "continue", ";", "goto L", "L2:\n;")
	case 17:
		return "var (\n" + g.ident() + " = " + g.expr() + "\n" + g.ident() + ", " + g.ident() + " " + g.typ() + "\n)"
	case 18:
		return "const (\n" + g.ident() + " = iota\n" + g.ident() + "\n" + g.ident() + " T = " + g.expr() + "\n)"
	case 19:
		return "type (\n" + g.ident() + " " + g.typ() + "\n" + g.ident() + " = " + g.typ() + "\n)"
	default:
		return g.simpleStmt()
	}
}

func (g *gen) stmtList() string {
	n := g.pick("nlist", 3)
	s := ""
	for i := 0; i < n; i++ {
		s += g.stmt() + "\n"
	}
	return s
}

func (g *gen) cases(types bool) string {
	n := g.pick("ncases", 4)
	s := ""
	def := g.pick("defpos", n+2)
	for i := 0; i < n; i++ {
		if i == def {
			s += "default:\n" + g.stmtList()
		}
		var l []string
		for k := g.pick("ncasevals", 3) + 1; k > 0; k-- {
			if types {
				l = append(l, g.oneOf("casetype", "int", "nil", "*T", "[]byte", "func(int) string", "pkg.T", "map[string]T", "chan<- int", "interface{ M() }", "struct{}", "error"))
			} else {
				l = append(l, g.header(g.expr))
			}
		}
		s += "case " + strings.Join(l, ", ") + ":\n" + g.stmtList()
		if !types && i < n-1 && g.pick("fallthrough", 5) == 0 {
			s += "fallthrough\n"
		}
	}
	if def >= n && def == n {
		s += "default:\n" + g.stmtList()
	}
	return s
}

func (g *gen) topDecl() string {
	switch g.pick("top", 12) {
	case 0, 1, 2:
		return "func " + g.ident() + g.signature() + " " + g.block()
	case 3, 4:
		return "func (" + g.oneOf("recv", "t T", "t *T", "T", "*T", "_ T", "t (T)", "t *pkg.T") + ") " + g.ident() + g.signature() + " " + g.block()
	case 5:
		return "func " + g.ident() + g.signature()
	case 6:
		return "var " + g.ident() + " " + g.typ() + g.oneOf("tvinit", "", " = "+g.expr())
	case 7:
		return "var (\n\t" + g.ident() + " = " + g.expr() + "\n\t" + g.ident() + ", " + g.ident() + " " + g.typ() + " = " + g.expr() + ", " + g.expr() + "\n)"
	case 8:
		return "const (\n\t" + g.ident() + " " + g.oneOf("ct", "", "T ") + "= iota" + g.oneOf("iotaexpr", "", " + 1", " << 3") + "\n\t" + g.ident() + "\n\t_\n\t" + g.ident() + ", " + g.ident() + " = " + g.lit() + ", " + g.lit() + "\n)"
	case 9:
		return "type " + g.ident() + " " + g.typ()
	case 10:
		return "type (\n\t" + g.ident() + " " + g.typ() + "\n\t" + g.ident() + " = " + g.typ() + "\n)"
	default:
		return "var " + g.ident() + " = " + g.expr()
	}
}

func genFile(t *rapid.T) string {
	g := &gen{t: t}
	var sb strings.Builder
	sb.WriteString(g.oneOf("pkgclause", "package p\n", "package main\n\n", "// doc\npackage p // c\n", "/* c */ package p;"))
	switch g.pick("imports", 4) {
	case 0:
		sb.WriteString("import \"fmt\"\n")
	case 1:
		sb.WriteString("import (\n\t\"fmt\"\n\tpkg \"a/b\"\n\t. \"c\"\n\t_ \"d\"\n)\nimport ()\n")
	case 2:
		sb.WriteString("import \"a\"; import b \"b\"\n")
	}
	n := rapid.IntRange(1, 25).Draw(t, "ndecls")
	for i := 0; i < n; i++ {
		sb.WriteString(g.topDecl())
		sb.WriteString(g.oneOf("declsep", "\n", "\n\n", ";\n", " // c\n", "\n/* c\n */\n"))
	}
	return sb.String()
}

func TestGenerated(t *testing.T) {
	mk := currentMasks()
	rec.Check(t, rec.Scale(2500, 20000), func(t *rapid.T) {
		src := []byte(genFile(t))
		if !inDomain(src) {
			return
		}
		rp, err := checkParse(src, mk, true)
		account("generated", src, rp)
		rec.Sample(string(src))
		if rp.Class == "invalid-both-reject" {
			rec.Label("generator:rejected-by-go/parser")
			rec.Note("generator output rejected by go/parser (%s): %.300q", rp.StdMsg, src)
		}
		if err != nil {
			rec.Failf(t, "generated", src, "go", "%v\ninput:\n%s", err, src)
		}
	})
}

var _ = fmt.Sprint
