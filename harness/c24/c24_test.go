// C24: the forked parser (/repo/go/parser) parses extension-free, non-generic Go exactly
// like go/parser. Oracle: the standard library twin, on the same bytes.
package c24

import (
	"bytes"
	"fmt"
	"go/ast"
	goparser "go/parser"
	goscanner "go/scanner"
	"go/token"
	"os"
	"reflect"
	"regexp"
	"strings"
	"testing"

	"github.com/cosmos72/gomacro/go/etoken"
	mparser "github.com/cosmos72/gomacro/go/parser"
	"pgregory.net/rapid"

	tg "verif/harness/c23"
	"verif/harness/vlib"
)

var rec *vlib.Rec

func TestMain(m *testing.M) {
	rec = vlib.Open("C24")
	rec.Rule("cases = source files without gomacro's lexical extensions: every corpus file (Go standard library, Go's regression programs, the repository) and grammar-generated files, " +
		"which count for the 'valid' direction when go/parser accepts them and they use no type parameters / type arguments in type position / type-set interfaces; " +
		"token-level and byte-level mutations of corpus files and generated files for the 'invalid' direction. " +
		"A case is non-trivial when it is a valid file with >=20 top-level declarations, or a mutated or generated file that go/parser rejects with a syntax error outside gomacro's documented top-level leniencies; distinct = distinct inputs")
	rec.Assume("oracle: go/parser.ParseFile of the toolchain that builds the harness, mode 0 (object resolution on, comments off), same bytes, fresh file set so that Pos values are comparable as offsets+1")
	rec.Assume("the fork is driven as gomacro drives it (base.Globals.ParseBytes): Configure(mode 0, macro character '~'), Init(fresh etoken.FileSet, name, line offset 0, src), Parse(); etoken.GENERICS left at its default GENERICS_NONE")
	rec.Assume("structural identity = same node types, tokens, literal texts, identifier names, flags and children, and equal token.Pos in every position field; ast.Object/ast.Scope links and comment groups are not compared (comments are off)")
	os.Exit(vlib.Main(m, rec))
}

const fileName = "c24.go"

// ---------------------------------------------------------------- running the parsers

func stdParse(src []byte) (f *ast.File, err error, pnc interface{}) {
	pnc = vlib.Try(func() {
		f, err = goparser.ParseFile(token.NewFileSet(), fileName, src, 0)
	})
	return
}

func forkParse(src []byte) (nodes []ast.Node, err error, pnc interface{}) {
	pnc = vlib.Try(func() {
		var p mparser.Parser
		p.Configure(0, '~')
		p.Init(etoken.NewFileSet(), fileName, 0, src)
		nodes, err = p.Parse()
	})
	return
}

// ---------------------------------------------------------------- structural equality including positions

var (
	typObject  = reflect.TypeOf((*ast.Object)(nil))
	typScope   = reflect.TypeOf((*ast.Scope)(nil))
	typCGroup  = reflect.TypeOf((*ast.CommentGroup)(nil))
	typCGroups = reflect.TypeOf([]*ast.CommentGroup(nil))
	typPos     = reflect.TypeOf(token.NoPos)
	typRange   = reflect.TypeOf(ast.RangeStmt{})
)

type cmp struct {
	maskRange   bool // F-C24-1
	maskedRange int
}

func short(v reflect.Value) string {
	if !v.IsValid() {
		return "<none>"
	}
	switch v.Kind() {
	case reflect.Ptr, reflect.Interface:
		if v.IsNil() {
			return "nil"
		}
		if n, ok := v.Interface().(ast.Node); ok {
			return fmt.Sprintf("%T at offset %d", n, int(n.Pos())-1)
		}
		return v.Type().String()
	case reflect.Slice:
		return fmt.Sprintf("%s of length %d", v.Type(), v.Len())
	}
	return fmt.Sprintf("%v", v.Interface())
}

// eq compares a (go/parser) with b (fork); path names the place for the message.
func (c *cmp) eq(path string, a, b reflect.Value) error {
	if a.Type() != b.Type() {
		return fmt.Errorf("%s: %s by go/parser, %s by the forked parser", path, a.Type(), b.Type())
	}
	switch a.Type() {
	case typObject, typScope, typCGroup, typCGroups:
		return nil
	}
	switch a.Kind() {
	case reflect.Interface:
		if a.IsNil() || b.IsNil() {
			if a.IsNil() != b.IsNil() {
				return fmt.Errorf("%s: %s by go/parser, %s by the forked parser", path, short(a), short(b))
			}
			return nil
		}
		ae, be := a.Elem(), b.Elem()
		if ae.Type() != be.Type() {
			return fmt.Errorf("%s: %s by go/parser, %s by the forked parser", path, short(a), short(b))
		}
		return c.eq(path, ae, be)
	case reflect.Ptr:
		if a.IsNil() || b.IsNil() {
			if a.IsNil() != b.IsNil() {
				return fmt.Errorf("%s: %s by go/parser, %s by the forked parser", path, short(a), short(b))
			}
			return nil
		}
		return c.eq(path+"("+strings.TrimPrefix(a.Type().String(), "*ast.")+")", a.Elem(), b.Elem())
	case reflect.Struct:
		for i := 0; i < a.NumField(); i++ {
			name := a.Type().Field(i).Name
			if a.Type() == typRange && name == "Range" && c.maskRange {
				if a.Field(i).Int() != b.Field(i).Int() {
					c.maskedRange++
				}
				continue
			}
			if err := c.eq(path+"."+name, a.Field(i), b.Field(i)); err != nil {
				return err
			}
		}
		return nil
	case reflect.Slice:
		if a.Len() != b.Len() {
			return fmt.Errorf("%s: %d elements by go/parser, %d by the forked parser", path, a.Len(), b.Len())
		}
		for i := 0; i < a.Len(); i++ {
			if err := c.eq(fmt.Sprintf("%s[%d]", path, i), a.Index(i), b.Index(i)); err != nil {
				return err
			}
		}
		return nil
	case reflect.Int, reflect.Int8, reflect.Int16, reflect.Int32, reflect.Int64:
		if a.Int() != b.Int() {
			if a.Type() == typPos {
				return fmt.Errorf("%s: position differs: offset %d by go/parser, %d by the forked parser (offset -1 = NoPos)", path, a.Int()-1, b.Int()-1)
			}
			return fmt.Errorf("%s: %v by go/parser, %v by the forked parser", path, a.Interface(), b.Interface())
		}
		return nil
	case reflect.String:
		if a.String() != b.String() {
			return fmt.Errorf("%s: %q by go/parser, %q by the forked parser", path, a.String(), b.String())
		}
		return nil
	case reflect.Bool:
		if a.Bool() != b.Bool() {
			return fmt.Errorf("%s: %v by go/parser, %v by the forked parser", path, a.Bool(), b.Bool())
		}
		return nil
	}
	return fmt.Errorf("%s: unexpected kind %s in a syntax tree", path, a.Kind())
}

// ---------------------------------------------------------------- domain: generic code

// genericUse says whether the file, as parsed by go/parser, needs Go 1.18 syntax: type
// parameter lists, several type arguments, type-set interface elements, or an
// instantiated type in a syntactic type position (T[int] as a type was a syntax error
// before type parameters). "" means the file is in the language "Go without type parameters".
func genericUse(f *ast.File) (why string) {
	var typ func(e ast.Expr)
	typ = func(e ast.Expr) { // e sits in a syntactic type position
		if why != "" || e == nil {
			return
		}
		switch x := e.(type) {
		case *ast.IndexExpr:
			why = "instantiated type in type position"
		case *ast.IndexListExpr:
			why = "several type arguments"
		case *ast.StarExpr:
			typ(x.X)
		case *ast.ParenExpr:
			typ(x.X)
		case *ast.ArrayType:
			typ(x.Elt)
		case *ast.MapType:
			typ(x.Key)
			typ(x.Value)
		case *ast.ChanType:
			typ(x.Value)
		case *ast.Ellipsis:
			typ(x.Elt)
		case *ast.BinaryExpr, *ast.UnaryExpr:
			why = "type-set element"
		}
	}
	fields := func(l *ast.FieldList) {
		if l == nil {
			return
		}
		for _, fd := range l.List {
			typ(fd.Type)
		}
	}
	ast.Inspect(f, func(n ast.Node) bool {
		if why != "" {
			return false
		}
		switch x := n.(type) {
		case *ast.IndexListExpr:
			why = "several type arguments"
		case *ast.TypeSpec:
			if x.TypeParams != nil {
				why = "type parameters"
			}
			typ(x.Type)
		case *ast.FuncType:
			if x.TypeParams != nil {
				why = "type parameters"
			}
			fields(x.Params)
			fields(x.Results)
		case *ast.FuncDecl:
			fields(x.Recv)
		case *ast.StructType:
			fields(x.Fields)
		case *ast.InterfaceType:
			fields(x.Methods)
		case *ast.ValueSpec:
			typ(x.Type)
		case *ast.ArrayType, *ast.MapType, *ast.ChanType:
			typ(x.(ast.Expr))
		case *ast.CompositeLit:
			typ(x.Type)
		case *ast.TypeAssertExpr:
			typ(x.Type)
		case *ast.TypeSwitchStmt:
			for _, s := range x.Body.List {
				if cc, ok := s.(*ast.CaseClause); ok {
					for _, e := range cc.List {
						typ(e)
					}
				}
			}
		}
		return true
	})
	return why
}

// ---------------------------------------------------------------- domain: gomacro's top-level leniencies

// gomacro's parser deliberately accepts more than a Go file (README: statements and
// expressions at top level, declarations and imports in any order, package clause
// optional, `package "path"`; parser.diffs: a block statement as an expression,
// statements instead of case clauses in switch/select bodies - both for macro
// expansion -, imports inside statements, no semicolon needed before ']').
// When go/parser rejects a file and the fork accepts it, forkExtensionUse looks at the
// FORK'S OWN RESULT: if the tree it built contains one of these documented extension
// forms, the acceptance is by design and the case is excluded (and counted), otherwise
// it is a violation.
func forkExtensionUse(nodes []ast.Node, src []byte) (why string) {
	if len(nodes) == 0 {
		return "empty-input"
	}
	if g, ok := nodes[0].(*ast.GenDecl); !ok || g.Tok != token.PACKAGE {
		return "no-package-clause"
	} else if vs, ok := g.Specs[0].(*ast.ValueSpec); ok && len(vs.Values) > 0 {
		return "package-path-string"
	}
	seenOther := false
	for _, n := range nodes[1:] {
		d, ok := n.(ast.Decl)
		if !ok {
			return "toplevel-statement-or-expression"
		}
		if g, ok := d.(*ast.GenDecl); ok && g.Tok == token.PACKAGE {
			return "second-package-clause"
		} else if ok && g.Tok == token.IMPORT {
			if seenOther {
				return "import-after-declaration"
			}
		} else {
			seenOther = true
		}
	}
	if p := vlib.Try(func() {
		for _, n := range nodes {
			ast.Inspect(n, func(n ast.Node) bool {
				if why != "" {
					return false
				}
				var body *ast.BlockStmt
				comm := false
				switch x := n.(type) {
				case *ast.SwitchStmt:
					body = x.Body
				case *ast.TypeSwitchStmt:
					body = x.Body
				case *ast.SelectStmt:
					body, comm = x.Body, true
				case *ast.UnaryExpr:
					if x.Op == etoken.MACRO {
						why = "block-as-expression"
					}
				case *ast.DeclStmt:
					if g, ok := x.Decl.(*ast.GenDecl); ok && g.Tok == token.IMPORT {
						why = "import-inside-statement"
					}
				}
				if body != nil {
					for _, st := range body.List {
						_, isCase := st.(*ast.CaseClause)
						_, isComm := st.(*ast.CommClause)
						if comm && !isComm || !comm && !isCase {
							why = "statement-in-switch-body"
						}
					}
				}
				return true
			})
		}
	}); p != nil {
		return "" // a tree that cannot be walked is no excuse
	}
	if why != "" {
		return why
	}
	// ';' (automatic or not) directly before ']'
	fset := token.NewFileSet()
	f := fset.AddFile("x.go", -1, len(src))
	var s goscanner.Scanner
	s.Init(f, src, func(token.Position, string) {}, 0)
	prev := token.ILLEGAL
	for {
		_, tok, _ := s.Scan()
		if tok == token.EOF {
			break
		}
		if tok == token.RBRACK && prev == token.SEMICOLON {
			return "semicolon-before-closing-bracket"
		}
		prev = tok
	}
	return ""
}

// firstError returns position-sorted first error of go/parser.
func firstError(err error) (off int, msg string) {
	if l, ok := err.(goscanner.ErrorList); ok && len(l) > 0 {
		l.Sort()
		return l[0].Pos.Offset, l[0].Msg
	}
	return -1, err.Error()
}

// ---------------------------------------------------------------- the oracle

type masks struct {
	Range bool // F-C24-1: RangeStmt.Range is never set
	Panic bool // F-C24-2: internal-error panic of the resolver
}

func currentMasks() masks {
	return masks{Range: rec.Known("F-C24-1"), Panic: rec.Known("F-C24-2")}
}

type report struct {
	Class       string // valid-compared, invalid-both-reject, excluded:...
	Decls       int
	MaskedRange int
	MaskedPanic bool
	StdMsg      string
}

const internalErr = "go/parser internal error: identifier already declared or resolved"

func isInternalPanic(p interface{}) bool {
	return p != nil && strings.Contains(fmt.Sprint(p), internalErr)
}

// checkParse is the whole oracle. src must be extension-free (the caller filters).
// valid says that the input is valid Go by provenance or construction (a file of a
// compiled code base, whole declarations of one, a validity-preserving perturbation, a
// generated file): only then does the 'valid' direction apply. go/parser "accepts a
// larger language than is syntactically permitted by the Go spec" (its package
// documentation), so a mutated file that go/parser happens to accept is not known to
// be valid Go and the fork may reject it (empty import path, [...]T outside a
// composite literal ...): such cases are counted as unjudged, never reported.
func checkParse(src []byte, mk masks, valid bool) (rp report, err error) {
	sf, serr, spanic := stdParse(src)
	if spanic != nil {
		rp.Class = "excluded:go/parser-panics"
		return rp, nil
	}
	nodes, ferr, fpanic := forkParse(src)
	if serr != nil {
		// invalid direction
		off, msg := firstError(serr)
		rp.StdMsg = msg
		_ = off
		if fpanic != nil {
			if mk.Panic && isInternalPanic(fpanic) {
				rp.Class, rp.MaskedPanic = "invalid-masked-internal-panic", true
				return rp, nil
			}
			return rp, fmt.Errorf("go/parser rejects the file (%s); the forked parser panics: %v", msg, fpanic)
		}
		if ferr == nil {
			if why := forkExtensionUse(nodes, src); why != "" {
				rp.Class = "excluded:fork-accepts-by-design:" + why
				return rp, nil
			}
			return rp, fmt.Errorf("go/parser rejects the file (%v); the forked parser reports no error", serr)
		}
		rp.Class = "invalid-both-reject"
		return rp, nil
	}
	// valid direction
	if why := genericUse(sf); why != "" {
		rp.Class = "excluded:generic"
		return rp, nil
	}
	if !valid {
		switch {
		case fpanic != nil && isInternalPanic(fpanic):
			rp.Class = "unjudged:go/parser-accepts-mutant,fork-internal-panic"
		case fpanic != nil:
			rp.Class = "unjudged:go/parser-accepts-mutant,fork-panics"
		case ferr != nil:
			rp.Class = "unjudged:go/parser-accepts-mutant,fork-rejects"
		default:
			rp.Class = "unjudged:go/parser-accepts-mutant,fork-accepts"
		}
		return rp, nil
	}
	rp.Decls = len(sf.Decls)
	if fpanic != nil {
		if mk.Panic && isInternalPanic(fpanic) {
			rp.Class, rp.MaskedPanic = "valid-masked-internal-panic", true
			return rp, nil
		}
		return rp, fmt.Errorf("valid file; the forked parser panics: %v", fpanic)
	}
	if ferr != nil {
		return rp, fmt.Errorf("valid file (go/parser accepts it); the forked parser reports: %v", ferr)
	}
	// skip the fork's package node
	if len(nodes) == 0 {
		return rp, fmt.Errorf("valid file; the forked parser returns no nodes")
	}
	if g, ok := nodes[0].(*ast.GenDecl); !ok || g.Tok != token.PACKAGE {
		return rp, fmt.Errorf("valid file; first node of the forked parser is %T, not the package clause", nodes[0])
	} else {
		// the package clause itself: name and position of the identifier
		vs, _ := g.Specs[0].(*ast.ValueSpec)
		if g.TokPos != sf.Package || vs == nil || len(vs.Names) != 1 || vs.Names[0].Name != sf.Name.Name || vs.Names[0].NamePos != sf.Name.NamePos {
			return rp, fmt.Errorf("valid file; package clause differs")
		}
	}
	nodes = nodes[1:]
	if len(nodes) != len(sf.Decls) {
		return rp, fmt.Errorf("valid file; go/parser yields %d declarations, the forked parser %d nodes", len(sf.Decls), len(nodes))
	}
	c := cmp{maskRange: mk.Range}
	for i, d := range sf.Decls {
		fd, ok := nodes[i].(ast.Decl)
		if !ok {
			return rp, fmt.Errorf("valid file; node %d of the forked parser is %T, not a declaration", i, nodes[i])
		}
		if err := c.eq(fmt.Sprintf("decl[%d]", i), reflect.ValueOf(&d).Elem(), reflect.ValueOf(&fd).Elem()); err != nil {
			return rp, fmt.Errorf("valid file; %v", err)
		}
	}
	rp.MaskedRange = c.maskedRange
	rp.Class = "valid-compared"
	return rp, nil
}

// ---------------------------------------------------------------- replay

const strictHeader = "#verif-strict "

func parseReplay(content []byte, mk masks) ([]byte, masks) {
	if bytes.HasPrefix(content, []byte(strictHeader)) {
		nl := bytes.IndexByte(content, '\n')
		if nl < 0 {
			nl = len(content) - 1
		}
		for _, id := range strings.Split(strings.TrimSpace(string(content[len(strictHeader):nl+1])), ",") {
			switch id {
			case "F-C24-1":
				mk.Range = false
			case "F-C24-2":
				mk.Panic = false
			}
		}
		content = content[nl+1:]
	}
	return content, mk
}

func replay(content []byte) error {
	src, mk := parseReplay(content, currentMasks())
	if tg.ExtensionUse(src) != "" {
		return nil
	}
	_, err := checkParse(src, mk, true)
	return err
}

func TestReplays(t *testing.T) {
	rec.RunReplays(t, replay)
}

// ---------------------------------------------------------------- bookkeeping

func inDomain(src []byte) bool {
	if why := tg.ExtensionUse(src); why != "" {
		rec.Label("excluded:extension-" + why)
		return false
	}
	return true
}

var reQuoted = regexp.MustCompile(`'[^']*'|"[^"]*"|[0-9]+`)

func account(class string, src []byte, rp report) {
	rec.Label("src:" + class)
	rec.Label("outcome:" + rp.Class)
	switch {
	case rp.Class == "valid-compared":
		if rp.Decls >= 20 {
			rec.NT(string(src))
		}
		switch {
		case rp.Decls >= 100:
			rec.Label("valid-decls:>=100")
		case rp.Decls >= 20:
			rec.Label("valid-decls:20-99")
		default:
			rec.Label("valid-decls:<20")
		}
	case rp.Class == "invalid-both-reject":
		if class != "corpus" {
			rec.NT(string(src))
		}
		m := rp.StdMsg
		if i := strings.Index(m, ", found"); i >= 0 {
			m = m[:i]
		}
		m = reQuoted.ReplaceAllString(m, "_")
		if len(m) > 40 {
			m = m[:40]
		}
		rec.Label("std-error:" + m)
	}
	if rp.MaskedRange > 0 {
		rec.Excluded("F-C24-1")
		rec.LabelN("masked:F-C24-1-range-positions", rp.MaskedRange)
	}
	if rp.MaskedPanic {
		rec.Excluded("F-C24-2")
	}
}

// ---------------------------------------------------------------- (a) corpus sweep

// validCorpusFile: files of code bases that compile are valid Go. Files under testdata
// directories and Go's errorcheck regression programs are deliberately invalid (often
// only at a level go/parser does not check), so they only count when go/parser rejects them.
func validCorpusFile(path string, src []byte) bool {
	if strings.Contains(path, "/testdata/") {
		return false
	}
	if strings.HasPrefix(path, "/usr/share/go-1.23/test/") {
		head := src
		if len(head) > 400 {
			head = head[:400]
		}
		if bytes.Contains(head, []byte("errorcheck")) {
			return false
		}
	}
	return true
}

func TestCorpus(t *testing.T) {
	if rec.ReplayOnly() {
		return
	}
	files := tg.Corpus()
	if len(files) < 1000 {
		t.Fatalf("corpus too small: %d files", len(files))
	}
	mk := currentMasks()
	stride := rec.Scale(3, 1)
	fails := 0
	for i, path := range files {
		if (i+int(rec.Seed()))%stride != 0 || !rec.Mine(i/stride) {
			continue
		}
		src, err := os.ReadFile(path)
		if err != nil {
			continue
		}
		rec.Eval(1)
		if !inDomain(src) {
			continue
		}
		valid := validCorpusFile(path, src)
		if !valid {
			rec.Label("corpus:not-valid-by-provenance(errorcheck/testdata)")
		}
		rp, err := checkParse(src, mk, valid)
		account("corpus", src, rp)
		if err != nil {
			fails++
			if fails <= 5 {
				rec.Violation(fmt.Sprintf("corpus-%d", fails), src, "go", "%s: %v", path, err)
				t.Errorf("%s: %v", path, err)
			}
		}
	}
}

// ---------------------------------------------------------------- (b) mutations (error direction mostly)

func corpusFile(t *rapid.T, label string) []byte {
	files := tg.Corpus()
	for try := 0; try < 8; try++ {
		path := files[rapid.IntRange(0, len(files)-1).Draw(t, label)]
		src, err := os.ReadFile(path)
		if err != nil || len(src) == 0 || len(src) > 40000 || !validCorpusFile(path, src) {
			continue
		}
		return src
	}
	return []byte("package p\nfunc f() {}\n")
}

// declWindow returns "package p" + a run of whole top-level declarations of a corpus file.
func declWindow(t *rapid.T, label string, max int) []byte {
	src := corpusFile(t, label)
	f, err, pnc := stdParse(src)
	if pnc != nil || err != nil || len(f.Decls) == 0 {
		return []byte("package p\nfunc f() { for i := range x { _ = i } }\n")
	}
	i := rapid.IntRange(0, len(f.Decls)-1).Draw(t, label+"-decl")
	start := int(f.Decls[i].Pos()) - 1
	end := int(f.Decls[i].End()) - 1
	for j := i + 1; j < len(f.Decls) && int(f.Decls[j].End())-1-start <= max; j++ {
		end = int(f.Decls[j].End()) - 1
	}
	if end > len(src) {
		end = len(src)
	}
	return append([]byte("package p\n"), append(append([]byte(nil), src[start:end]...), '\n')...)
}

func TestMutations(t *testing.T) {
	mk := currentMasks()
	rec.Check(t, rec.Scale(4000, 30000), func(t *rapid.T) {
		base := declWindow(t, "file", rapid.SampledFrom([]int{200, 800, 3000}).Draw(t, "win"))
		var src []byte
		class := "mut-byte"
		switch rapid.IntRange(0, 9).Draw(t, "mut-kind") {
		case 0:
			class, src = "window-unmutated", base
		case 1, 2, 3:
			src = tg.MutateBytes(t, base, 2)
		default:
			class = "mut-token"
			var other []string
			if rapid.IntRange(0, 3).Draw(t, "splice") == 0 {
				other = tg.Pieces(declWindow(t, "file2", 400))
			}
			src = []byte(strings.Join(tg.MutateTokens(t, tg.Pieces(base), other, 2, false), ""))
		}
		if !inDomain(src) {
			return
		}
		rp, err := checkParse(src, mk, class == "window-unmutated")
		account(class, src, rp)
		if err != nil {
			rec.Failf(t, "mutation", src, "go", "%v\ninput: %q", err, src)
		}
	})
}

// ---------------------------------------------------------------- native fuzz target (same oracle)

func FuzzParse(f *testing.F) {
	if rec.ReplayOnly() {
		f.Skip("replay only")
	}
	for _, s := range fuzzSeeds {
		f.Add([]byte(s))
	}
	mk := currentMasks()
	f.Fuzz(func(t *testing.T, data []byte) {
		if len(data) > 1<<15 || tg.ExtensionUse(data) != "" {
			return
		}
		rec.Eval(1)
		rp, err := checkParse(data, mk, false)
		account("fuzz", data, rp)
		if err != nil {
			rec.Violation("fuzz", data, "go", "%v\ninput: %q", err, data)
			t.Fatalf("%v\ninput: %q", err, data)
		}
	})
}

var fuzzSeeds = []string{
	"package p\n",
	"package p\nimport \"fmt\"\nfunc main() { fmt.Println(1) }\n",
	"package p\ntype T struct { a, b int; c []string `k:\"v\"`; *T }\nfunc (t *T) M(x ...int) (r int, err error) { return }\n",
	"package p\nvar x = map[string][]int{\"a\": {1, 2}}\nconst ( a = iota; b )\n",
	"package p\nfunc f() { for i, v := range x { if v > 0 { continue }; switch y := z.(type) { case int: _ = y; default: } }; select { case c <- 1: case v, ok := <-c: _, _ = v, ok } }\n",
	"package p\nfunc f() { L: for { goto L; break L }; defer g(); go h(); x := a[1:2:3]; x++; var _ = func() {}; _ = x }\n",
	"package p\ntype I interface { M(int) string; J }\ntype F func(a, b int, c ...string) (x, y int)\ntype C <-chan chan<- int\n",
}
