#!/bin/sh
# Time-boxed native fuzz campaign for C24 (forked parser vs go/parser), same oracle
# as the check (checkParse inside FuzzParse). Usage: fuzz.sh [seconds] [repo]
# `go test -fuzz` cannot be started from the compiled test binary the driver runs, so
# this is a separate entry point for thorough campaigns; ./check C24 thorough instead
# drives the same oracle with rapid mutation at high counts.
# Exit 0: no failure in the time box. Exit 1: a failing input was found; go stores it
# under harness/c24/testdata/fuzz/FuzzParse/ and `./check C24 --replay <file>` does NOT
# read that format - copy the quoted bytes to a plain file first (see NOTES.md).
set -e
SECS="${1:-60}"
REPO="${2:-${VERIF_REPO:-/repo}}"
export GOFLAGS=-mod=mod GOPROXY=off GOSUMDB=off GOTOOLCHAIN=local GOWORK=off
cd /verif/harness
MOD="$(mktemp -d)/go.mod"
sed "s#=> /repo#=> $REPO#" go.mod > "$MOD"
cp go.sum "$(dirname "$MOD")/go.sum"
OUT="$(mktemp -d)"
trap 'rm -rf "$(dirname "$MOD")" "$OUT"' EXIT
VERIF_OUT="$OUT" VERIF_REPO="$REPO" VERIF_TIER=thorough \
  go test -modfile="$MOD" -tags verif -vet=off -run '^$' -fuzz '^FuzzParse$' -fuzztime "${SECS}s" -parallel 4 ./c24
