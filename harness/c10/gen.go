package c10

import (
	"fmt"
	"sort"
	"strings"

	"pgregory.net/rapid"

	"verif/harness/gobatch"
	"verif/harness/progen"
)

// Opts selects exclusions by construction of known findings; set by the test.
var Opts struct{ NoConcurrentAddressOf bool }

type gen struct {
	*progen.G
	imports    map[string]bool
	goroutines int // interpreted goroutines started by the program
	setValued  bool
}

func (g *gen) imp(p string) { g.imports[p] = true }

// every snippet is race-free by construction and has a schedule-independent trace:
// results are reduced commutatively, collected in index order, or (set-valued
// snippets) checked against the set of outcomes Go admits inside the program itself.
func (g *gen) snippet() string {
	ev := g.Ev()
	switch g.Pick(15, "kind") {
	case 0: // worker pool over buffered channels, commutative reduction
		g.imp("sync")
		w, n := g.Int(1, 6, "workers"), g.Int(0, 20, "jobs")
		g.goroutines += w
		g.Tag("worker-pool")
		return fmt.Sprintf(`{
	jobs := make(chan int, %d)
	results := make(chan int, %d)
	var wg sync.WaitGroup
	for w := 0; w < %d; w++ {
		wg.Add(1)
		go func(id int) {
			defer wg.Done()
			for j := range jobs {
				results <- j*j + %d
			}
		}(w)
	}
	for j := 0; j < %d; j++ {
		jobs <- j
	}
	close(jobs)
	wg.Wait()
	close(results)
	sum, cnt := 0, 0
	for r := range results {
		sum += r
		cnt++
	}
	rec.E(%d, sum, cnt)
}
`, n+1, n+1, w, g.Int(0, 5, "off"), n, ev)
	case 1: // ordered pipeline over unbuffered channels
		n := g.Int(0, 12, "n")
		g.goroutines += 2
		g.Tag("pipeline-unbuffered")
		return fmt.Sprintf(`{
	src := make(chan int)
	sq := make(chan int)
	go func() {
		for i := 0; i < %d; i++ {
			src <- i
		}
		close(src)
	}()
	go func() {
		for v := range src {
			sq <- v*v - %d
		}
		close(sq)
	}()
	var out []int
	for v := range sq {
		out = append(out, v)
	}
	rec.E(%d, out)
}
`, n, g.Int(0, 4, "sub"), ev)
	case 2: // fan-in with select, channels set to nil when closed
		a, b := g.Int(0, 8, "na"), g.Int(0, 8, "nb")
		g.goroutines += 2
		g.Tag("fan-in-select")
		return fmt.Sprintf(`{
	ca, cb := make(chan int), make(chan int, 2)
	go func() {
		for i := 0; i < %d; i++ {
			ca <- i + 1
		}
		close(ca)
	}()
	go func() {
		for i := 0; i < %d; i++ {
			cb <- 100 * (i + 1)
		}
		close(cb)
	}()
	sum, cnt := 0, 0
	for ca != nil || cb != nil {
		select {
		case v, ok := <-ca:
			if !ok {
				ca = nil
			} else {
				sum += v
				cnt++
			}
		case v, ok := <-cb:
			if !ok {
				cb = nil
			} else {
				sum += v
				cnt++
			}
		}
	}
	rec.E(%d, sum, cnt)
}
`, a, b, ev)
	case 3: // mutex-protected counter shared by closures
		g.imp("sync")
		n, k := g.Int(1, 8, "n"), g.Int(1, 20, "k")
		g.goroutines += n
		g.Tag("mutex-counter")
		return fmt.Sprintf(`{
	var mu sync.Mutex
	var wg sync.WaitGroup
	total := 0
	add := func(d int) {
		mu.Lock()
		total += d
		mu.Unlock()
	}
	for i := 0; i < %d; i++ {
		wg.Add(1)
		go func(i int) {
			defer wg.Done()
			for j := 0; j < %d; j++ {
				add(i + j)
			}
		}(i)
	}
	wg.Wait()
	rec.E(%d, total)
}
`, n, k, ev)
	case 4: // results by index: each goroutine owns one slot
		g.imp("sync")
		n := g.Int(1, 10, "n")
		g.goroutines += n
		g.Tag("slot-per-goroutine")
		return fmt.Sprintf(`{
	res := make([]int, %d)
	var wg sync.WaitGroup
	for i := range res {
		wg.Add(1)
		go func(i int) {
			defer wg.Done()
			s := 0
			for j := 0; j <= i; j++ {
				s += j * %d
			}
			res[i] = s
		}(i)
	}
	wg.Wait()
	rec.E(%d, res)
}
`, n, g.Int(1, 4, "m"), ev)
	case 5: // select with default: bounded polling with yields
		n := g.Int(1, 6, "n")
		g.goroutines++
		g.Tag("select-default-polling")
		return fmt.Sprintf(`{
	ch := make(chan int, 1)
	done := make(chan bool)
	go func() {
		for i := 0; i < %d; i++ {
			ch <- i
		}
		close(done)
	}()
	sum, got := 0, 0
	for got < %d {
		select {
		case v := <-ch:
			sum += v
			got++
		default:
			rec.Yield()
		}
	}
	<-done
	rec.E(%d, sum, got)
}
`, n, n, ev)
	case 6: // set-valued: which of two ready senders wins
		g.goroutines += 2
		g.setValued = true
		g.Tag("set-valued-first-of-two-senders")
		return fmt.Sprintf(`{
	ch := make(chan int)
	go func() { ch <- 1 }()
	go func() { ch <- 2 }()
	a := <-ch
	b := <-ch
	rec.E(%d, (a == 1 && b == 2) || (a == 2 && b == 1))
}
`, ev)
	case 7: // set-valued: select among several ready channels
		g.setValued = true
		g.Tag("set-valued-select-ready")
		return fmt.Sprintf(`{
	c1, c2 := make(chan int, 1), make(chan int, 1)
	c1 <- 10
	c2 <- 20
	v := 0
	select {
	case v = <-c1:
	case v = <-c2:
	}
	rec.E(%d, v == 10 || v == 20, len(c1)+len(c2))
}
`, ev)
	case 8: // ping-pong over unbuffered channels
		n := g.Int(1, 10, "rounds")
		g.goroutines++
		g.Tag("ping-pong")
		return fmt.Sprintf(`{
	ping, pong := make(chan int), make(chan int)
	go func() {
		for v := range ping {
			pong <- v * 2
		}
		close(pong)
	}()
	acc := 1
	for i := 0; i < %d; i++ {
		ping <- acc
		acc = <-pong - i
	}
	close(ping)
	_, ok := <-pong
	rec.E(%d, acc, ok)
}
`, n, ev)
	case 9: // closure defined by one goroutine, run by others; nested go
		g.imp("sync")
		n := g.Int(1, 5, "n")
		g.goroutines += 2 * n
		g.Tag("nested-go-shared-closure")
		return fmt.Sprintf(`{
	var wg sync.WaitGroup
	var mu sync.Mutex
	seen := map[int]int{}
	mark := func(k, v int) {
		mu.Lock()
		seen[k] += v
		mu.Unlock()
	}
	for i := 0; i < %d; i++ {
		wg.Add(2)
		go func(i int) {
			defer wg.Done()
			mark(i, 1)
			go func() {
				defer wg.Done()
				mark(i, 10)
			}()
		}(i)
	}
	wg.Wait()
	rec.E(%d, seen)
}
`, n, ev)
	case 10: // panic recovered inside a goroutine, deferred send
		g.goroutines++
		g.Tag("panic-recovered-in-goroutine")
		return fmt.Sprintf(`{
	out := make(chan int, 1)
	go func() {
		defer func() {
			if recover() != nil {
				out <- -1
			}
		}()
		var m map[int]int
		if %d > 2 {
			m[1] = 1
		}
		out <- 7
	}()
	rec.E(%d, <-out)
}
`, g.Int(0, 5, "sel"), ev)
	case 11: // sync.Once and atomic counters
		g.imp("sync")
		g.imp("sync/atomic")
		n := g.Int(1, 8, "n")
		g.goroutines += n
		g.Tag("once-atomic")
		// F-C10-1: taking the address of a captured integer variable from several goroutines
		// at once is a data race inside gomacro; while it is a known finding the address is
		// taken once, before the goroutines start
		addr := "&hits"
		if Opts.NoConcurrentAddressOf {
			addr = "ph"
			g.Tag("excluded-shape:F-C10-1")
		}
		return fmt.Sprintf(`{
	var once sync.Once
	var wg sync.WaitGroup
	var hits int32
	ph := &hits
	inits := 0
	for i := 0; i < %d; i++ {
		wg.Add(1)
		go func() {
			defer wg.Done()
			once.Do(func() { inits++ })
			atomic.AddInt32(%s, 2)
		}()
	}
	wg.Wait()
	rec.E(%d, inits, atomic.LoadInt32(ph))
}
`, n, addr, ev)
	case 12: // the SAME select statement executed by several goroutines, each with its own channels
		// (operands are per-goroutine and their evaluation yields, so executions overlap)
		g.imp("sync")
		n := g.Int(2, 8, "n")
		g.goroutines += n
		g.Tag("same-select-many-goroutines")
		return fmt.Sprintf(`{
	n := %d
	in := make([]chan int, n)
	out := make([]chan int, n)
	for i := range in {
		in[i] = make(chan int, 1)
		out[i] = make(chan int, 1)
		in[i] <- 10*i + %d
	}
	pick := func(cs []chan int, i int) chan int {
		rec.Yield()
		return cs[i]
	}
	res := make([]int, n)
	var wg sync.WaitGroup
	for i := 0; i < n; i++ {
		wg.Add(1)
		go func(id int) {
			defer wg.Done()
			for k := 0; k < 2; k++ {
				select {
				case v := <-pick(in, id):
					res[id] += v
					out[id] <- v + 1
				case w := <-pick(out, id):
					res[id] += 1000 * w
				}
			}
		}(i)
	}
	wg.Wait()
	rec.E(%d, res)
}
`, n, g.Int(1, 7, "off"), ev)
	case 13: // the same select with send cases executed by several goroutines
		g.imp("sync")
		n := g.Int(2, 6, "n")
		g.goroutines += n
		g.Tag("same-select-send-many-goroutines")
		return fmt.Sprintf(`{
	n := %d
	box := make([]chan int, n)
	for i := range box {
		box[i] = make(chan int, 1)
	}
	val := func(i int) int {
		rec.Yield()
		return i*i + %d
	}
	var wg sync.WaitGroup
	for i := 0; i < n; i++ {
		wg.Add(1)
		go func(id int) {
			defer wg.Done()
			select {
			case box[id] <- val(id):
			}
		}(i)
	}
	wg.Wait()
	got := make([]int, n)
	for i := range box {
		got[i] = <-box[i]
	}
	rec.E(%d, got)
}
`, n, g.Int(0, 5, "off"), ev)
	default: // buffered channel as semaphore, close + range, cap/len
		g.imp("sync")
		n := g.Int(1, 8, "n")
		g.goroutines += n
		g.Tag("semaphore-buffered")
		return fmt.Sprintf(`{
	sem := make(chan struct{}, 2)
	var wg sync.WaitGroup
	var mu sync.Mutex
	maxIn, in, sum := 0, 0, 0
	for i := 0; i < %d; i++ {
		wg.Add(1)
		go func(i int) {
			defer wg.Done()
			sem <- struct{}{}
			mu.Lock()
			in++
			if in > maxIn {
				maxIn = in
			}
			sum += i
			mu.Unlock()
			rec.Yield()
			mu.Lock()
			in--
			mu.Unlock()
			<-sem
		}(i)
	}
	wg.Wait()
	rec.E(%d, sum, maxIn <= 2, cap(sem), len(sem))
}
`, n, ev)
	}
}

// Generate builds one C10 program.
func Generate(t *rapid.T, px string) gobatch.Program {
	g := &gen{G: progen.New(t, px, 0), imports: map[string]bool{}}
	n := g.Int(1, 5, "nsnippets")
	var body strings.Builder
	for i := 0; i < n; i++ {
		body.WriteString(g.snippet())
	}
	entry := g.Top("main")
	var imps []string
	for p := range g.imports {
		imps = append(imps, p)
	}
	sort.Strings(imps)
	p := gobatch.Program{Imports: imps, Decls: []string{fmt.Sprintf("func %s() {\n%s}", entry, progen.Indent(body.String()))}, Entry: entry, Tags: g.TagList()}
	if g.goroutines >= 2 {
		p.NT = ">=2-interpreted-goroutines"
	}
	return p
}
