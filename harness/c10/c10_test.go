// C10: interpreted goroutines and channels behave as Go permits on every schedule.
// Oracles: compiled Go (schedule-independent programs: exact; set-valued programs check
// the admissible set themselves), the race detector, the ownership hooks.
package c10

import (
	"os"
	"runtime"
	"testing"

	"github.com/cosmos72/gomacro/fast"

	"verif/harness/conc"
	"verif/harness/gobatch"
	"verif/harness/vlib"
)

var rec *vlib.Rec

func TestMain(m *testing.M) {
	rec = vlib.Open("C10")
	rec.Rule("cases = generated race-free concurrent programs of 1-5 snippets: worker pools, ordered pipelines over unbuffered channels, fan-in with select and nil-ed channels, mutex-protected counters behind shared closures, one slot per goroutine, " +
		"select-with-default polling, ping-pong, nested go statements running closures defined by another goroutine, panics recovered inside goroutines, sync.Once + atomics, buffered-channel semaphores, and set-valued snippets (first of two ready senders, select among ready channels) that check the admissible outcome set inside the program; " +
		"each program runs 3 times per GOMAXPROCS setting (shards use 1, 2, 4, 16), every other run with scheduler yields injected at function entries; results must equal compiled Go and each other, the race detector must report nothing in gomacro frames and the ownership hooks must count 0; " +
		"non-trivial = the program starts >= 2 interpreted goroutines; distinct = distinct program texts")
	rec.Assume("the Go scheduler is not owned by the harness: schedules are perturbed (GOMAXPROCS, injected yields, repetition), not enumerated")
	rec.Assume("oracle for values: gc toolchain on the same text; set-valued programs evaluate the admissible-outcome predicate themselves")
	procs := []int{1, 2, 4, 16}[rec.Shard()%4]
	runtime.GOMAXPROCS(procs)
	rec.Label("GOMAXPROCS=" + []string{"1", "2", "4", "16"}[rec.Shard()%4])
	fast.New()
	if conc.IsReplayChild() {
		conc.ReplayChild(rec, cfg())
	}
	os.Exit(vlib.Main(m, rec))
}

func known(p gobatch.Program, got, want gobatch.Result) string { return "" }

func cfg() gobatch.Config {
	return gobatch.Config{Rec: rec, Name: "c10", N: rec.Scale(150, 1500), Gen: Generate, Known: known, Interp: conc.Run(rec, 3, 5)}
}

func TestGoroutinesAndChannels(t *testing.T) {
	Opts.NoConcurrentAddressOf = rec.Known("F-C10-1")
	gobatch.Run(t, cfg())
}

func TestReplays(t *testing.T) { rec.RunReplays(t, conc.SubprocessReplayer()) }
