package c38

import (
	"fmt"
	"os"
	"sort"
	"testing"

	"pgregory.net/rapid"

	"verif/harness/gobatch"
)

// TestDevErrors is a development aid (C38_DEV=1): histogram of classic-side errors.
func TestDevErrors(t *testing.T) {
	if os.Getenv("C38_DEV") == "" {
		t.Skip()
	}
	hist := map[string]int{}
	sample := map[string]string{}
	n := 0
	progs := map[string]gobatch.Program{}
	got := map[string]gobatch.Result{}
	vrec.Check(t, 300, func(rt *rapid.T) {
		n++
		p := Generate(rt, fmt.Sprintf("D%d_", n))
		if err := gobatch.Vet(p); err != nil {
			hist["VET: "+err.Error()]++
			sample["VET: "+err.Error()] = p.Source("p")
			return
		}
		res := gobatch.RunInterp(p)
		id := fmt.Sprintf("c%d", n)
		progs[id] = p
		got[id] = res
	})
	want, rej, err := gobatch.OracleBatch(os.Getenv("VERIF_SCRATCH")+"/dev", progs)
	if err != nil {
		t.Fatal(err)
	}
	for id, p := range progs {
		if _, bad := rej[id]; bad {
			hist["REJ: "+rej[id]]++
			continue
		}
		g, w := got[id], want[id]
		if g.Equal(w) {
			hist["ok"]++
			continue
		}
		key := g.Err
		if len(key) > 150 {
			key = key[:150]
		}
		if key == "" {
			key = "TRACE-DIFF panic=" + g.Panic + " want=" + w.Panic
			for i := range g.Trace {
				if i >= len(w.Trace) || g.Trace[i] != w.Trace[i] {
					key += " first-diff: " + g.Trace[i]
					if i < len(w.Trace) {
						key += " != " + w.Trace[i]
					}
					break
				}
			}
		}
		hist[key]++
		if len(sample[key]) == 0 || len(p.Source("p")) < len(sample[key]) {
			sample[key] = p.Source("p") + "\n" + gobatch.Diff(g, w)
		}
	}
	keys := []string{}
	for k := range hist {
		keys = append(keys, k)
	}
	sort.Strings(keys)
	for _, k := range keys {
		fmt.Printf("%5d  %s\n", hist[k], k)
	}
	for _, k := range keys {
		if k != "ok" {
			fmt.Printf("=================== %s\n%s\n", k, sample[k])
		}
	}
}
