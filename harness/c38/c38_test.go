// C38: the classic interpreter matches Go on its documented subset.
// Oracle: the Go toolchain (gobatch batch oracle), Program.Interp = "classic".
package c38

import (
	"os"
	"strings"
	"testing"

	"verif/harness/gobatch"
	"verif/harness/vlib"
)

var vrec *vlib.Rec

func TestMain(m *testing.M) {
	vrec = vlib.Open("C38")
	vrec.Rule("cases = generated Go programs (<=30 statements, nesting <=4) restricted to the subset named by the property: int, float64, string, bool locals with default-typed constants of their own kind, " +
		"[]int/[]string/map[string]int/plain struct values (literals, append, index, slicing, delete, comma-ok, field get/set, copy on assignment), declared functions (two results, recursion, closure makers, named result set by a deferred closure), " +
		"closures capturing and modifying locals and per-iteration variables, if/else chains with init, the three for forms, range over slice/string/map, expression switches (int, string, tagless, fallthrough, default anywhere), " +
		"unlabeled break/continue, early return, defer order and recover of explicit panics and run-time errors (division by zero, index, nil map); run by classic.Interp one declaration per Eval; " +
		"functions with an unnamed result returning a bare local/parameter/element/field/struct/slice that deferred closures modify after the return operand was evaluated; " +
		"a case is non-trivial when its executed trace contains the event placed immediately before a break/continue/early return, a recovered (non-nil) panic, or the event of a deferred closure that modified the operand of a return statement; distinct = distinct program texts")
	vrec.Assume("oracle: gc toolchain, generated module with `go 1.18`, trace formatted by the same compiled recorder on both sides")
	vrec.Assume("outside the subset, never generated: labels and goto, interfaces and comparisons with nil, methods, named non-struct types, pointers, sized integer types, mixing untyped constants of different kinds (documented classic limitation)")
	os.Exit(vlib.Main(m, vrec))
}

func ntFunc(p gobatch.Program, res gobatch.Result) string {
	evs := map[string]bool{}
	for _, e := range strings.Split(p.Meta["nt-events"], ",") {
		if e != "" {
			evs[e] = true
		}
	}
	devs := map[string]bool{}
	for _, e := range strings.Split(p.Meta["defer-events"], ",") {
		if e != "" {
			devs[e] = true
		}
	}
	for _, line := range res.Trace {
		if i := strings.IndexByte(line, ' '); i >= 0 && devs[line[:i]] {
			return "defer-modified-returned-operand"
		}
	}
	for _, line := range res.Trace {
		first := line
		if i := strings.IndexByte(line, ' '); i >= 0 {
			first = line[:i]
		}
		if evs[first] {
			return "taken-jump"
		}
		if strings.HasPrefix(line, `"d`) && strings.Contains(line, "panic(") {
			return "recovered-panic"
		}
	}
	return ""
}

func known(p gobatch.Program, got, want gobatch.Result) string { return "" }

func TestClassic(t *testing.T) {
	gobatch.Run(t, gobatch.Config{
		Rec: vrec, Name: "c38", N: vrec.Scale(250, 1000),
		Gen: Generate, NTFunc: ntFunc, Known: known,
	})
}

func TestReplays(t *testing.T) {
	vrec.RunReplays(t, gobatch.Replayer(known))
}
