package c38

import (
	"os"
	"testing"
	"time"

	"github.com/cosmos72/gomacro/classic"
	"verif/harness/vlib"
)

func TestProbe(t *testing.T) {
	src := os.Getenv("PROBE_SRC")
	if src == "" {
		t.Skip()
	}
	done := make(chan bool)
	go func() {
		ir := classic.New()
		p := vlib.Try(func() {
			v, _ := ir.Eval(src)
			t.Logf("=> %v", v)
		})
		if p != nil {
			t.Logf("PANIC %v", p)
		}
		done <- true
	}()
	select {
	case <-done:
	case <-time.After(20 * time.Second):
		t.Logf("HANG")
	}
}
