package c38

import (
	"fmt"
	"os"
	"strings"

	"pgregory.net/rapid"

	"verif/harness/gobatch"
	"verif/harness/progen"
)

// The generator stays inside the subset the property names: default-typed int, float64,
// string and bool values, slices, maps and plain structs of them, functions and
// closures, control flow (if, for, range, switch, unlabeled break/continue, return),
// defer/recover. Constants are only ever combined with values of their own default type
// (classic evaluates untyped constants as typed ones: documented), no labels (known
// finding F-C38-1), no goto (unimplemented in classic), no interfaces, no named types
// other than plain structs, no methods, no pointers.

type gen struct {
	*progen.G
	inLoop   int
	nesting  int
	inFunc   string // result type of the enclosing helper ("" in the entry function)
	typeName string // the struct type, "" if none
	funcs    []helper
	deferEvs []string // events recorded by a deferred closure that modified the operand of a return statement
	ntEvs    []string // events that, when executed, make the case non-trivial (placed right before a taken jump)
	inHelper bool // generating the body of a declared helper function (call depth >= 2)
	fa, fb, fc, fd string // field names of the struct type
	labels   bool // generate labeled statements (only while F-C38-1 is not listed as known)
}

type helper struct {
	name   string
	params []string // types
	result string   // type, or "pair" for (int, string)
	kind   string
}

const maxNest = 4

// floatExpr never applies an operator to constant operands only: Go folds constant
// expressions exactly (-0.0 is +0, 0.1+0.2 is rounded once) while classic evaluates
// them at run time as typed float64 values, which is its documented limitation
// ("untyped constants and arithmetic on them are evaluated as typed constants").
func (g *gen) floatExpr(depth int) string {
	e, _ := g.floatExpr2(depth)
	return e
}

func (g *gen) floatExpr2(depth int) (string, bool) {
	vars := g.Vars("float64", false)
	if depth <= 0 || g.Chance(2, 5, "float-leaf") {
		if len(vars) > 0 && g.Chance(3, 4, "float-var") {
			return vars[g.Pick(len(vars), "float-which")].Name, false
		}
		return g.OneOf("float-lit", "0.5", "1.5", "2.0", "-3.25", "10.0", "0.0", "0.1", "1e3"), true
	}
	a, ac := g.floatExpr2(depth - 1)
	if ac {
		if len(vars) == 0 {
			vrec.Label("excluded:constant-only float arithmetic (documented: constants evaluated as typed)")
			return a, true
		}
		a, ac = vars[g.Pick(len(vars), "float-nonconst")].Name, false
	}
	switch g.Pick(6, "float-op") {
	case 0:
		b, _ := g.floatExpr2(depth - 1)
		return "(" + a + " + " + b + ")", false
	case 1:
		b, _ := g.floatExpr2(depth - 1)
		return "(" + a + " - " + b + ")", false
	case 2:
		b, _ := g.floatExpr2(depth - 1)
		return "(" + a + " * " + b + ")", false
	case 3:
		return "(" + a + " / " + g.OneOf("float-div", "2.0", "4.0", "-0.5", "3.0") + ")", false
	case 4:
		// conversion of a non-constant int (float64(constant) would itself be a constant)
		if ints := g.Vars("int", false); len(ints) > 0 {
			return "float64(" + ints[g.Pick(len(ints), "conv-int")].Name + ")", false
		}
		return "(" + a + " + 1.5)", false
	default:
		return "(-" + a + ")", false
	}
}

func (g *gen) boolExpr(depth int) string {
	if g.Chance(1, 4, "bool-float") {
		return "(" + g.floatExpr(1) + " " + g.OneOf("fcmp", "<", "<=", ">", ">=", "==", "!=") + " " + g.floatExpr(1) + ")"
	}
	if g.Chance(1, 5, "bool-str") {
		return "(" + g.StrExpr(1) + " " + g.OneOf("scmp", "<", "==", "!=", ">=") + " " + g.StrExpr(1) + ")"
	}
	return g.BoolExpr(depth)
}

func (g *gen) expr(typ string, depth int) string {
	switch typ {
	case "float64":
		return g.floatExpr(depth)
	case "bool":
		return g.boolExpr(depth)
	}
	return g.Expr(typ, depth)
}

// record emits a trace event with the values of some visible variables of any type.
func (g *gen) record() string {
	args := []string{fmt.Sprint(g.Ev())}
	n := 0
	for _, v := range g.Vars("", false) {
		if n >= 3 {
			break
		}
		if g.Chance(1, 2, "rec-var") {
			args = append(args, v.Name)
			n++
		}
	}
	return "rec.E(" + strings.Join(args, ", ") + ")\n"
}

func (g *gen) scalarType() string {
	return g.OneOf("scalar-type", "int", "int", "float64", "string", "bool")
}

func (g *gen) declLocal() string {
	name := g.Local("v")
	k := g.Pick(10, "local-kind")
	var typ, val string
	switch {
	case k <= 5:
		typ = g.scalarType()
		val = g.expr(typ, 2)
	case k == 6:
		typ = "[]int"
		val = fmt.Sprintf("[]int{%s, %s, %s}", g.IntExpr(1), g.IntExpr(1), g.IntExpr(1))
		g.Tag("slice")
	case k == 7:
		typ = "map[string]int"
		val = fmt.Sprintf(`map[string]int{"a": %s, "b": %s}`, g.IntExpr(1), g.IntExpr(1))
		g.Tag("map")
	case k == 8 && g.typeName != "":
		typ = g.typeName
		if g.Bool("struct-keyed") {
			val = fmt.Sprintf("%s{%s: %s, %s: %s, %s: %s}", typ, g.fa, g.IntExpr(1), g.fb, g.StrExpr(1), g.fc, g.floatExpr(1))
		} else {
			val = fmt.Sprintf("%s{%s, %s, %s, []int{%s, 2, 3}}", typ, g.IntExpr(1), g.StrExpr(1), g.floatExpr(1), g.IntExpr(1))
		}
		g.Tag("struct")
	case k == 9 && g.typeName != "" && g.Bool("slice-of-struct"):
		typ = "[]" + g.typeName
		val = fmt.Sprintf(`[]%s{%s{%s, "a", 0.5, nil}, %s{2, %s, %s, []int{1}}}`, g.typeName, g.typeName, g.IntExpr(1), g.typeName, g.StrExpr(1), g.floatExpr(1))
		g.Tag("slice-of-struct")
	case k == 9 && g.Bool("map-of-slice"):
		typ = "map[string][]int"
		val = fmt.Sprintf(`map[string][]int{"a": []int{1, %s}, "b": nil}`, g.IntExpr(1)) // elided element types are unimplemented in classic
		g.Tag("map-of-slice")
	default:
		typ = "[]string"
		val = fmt.Sprintf(`[]string{"p", %s, "q"}`, g.StrExpr(1))
		g.Tag("slice")
	}
	var s string
	if g.Bool("decl-form") || typ == "float64" && !strings.ContainsAny(val, ".e") {
		s = fmt.Sprintf("var %s %s = %s\n", name, typ, val)
	} else {
		s = fmt.Sprintf("%s := %s\n", name, val)
	}
	g.Declare(progen.Var{Name: name, Type: typ})
	return s + "_ = " + name + "\n"
}

func (g *gen) varsOf(types ...string) []progen.Var {
	var out []progen.Var
	for _, t := range types {
		out = append(out, g.Vars(t, true)...)
	}
	return out
}

func (g *gen) assign() string {
	vars := g.Vars("", true)
	if len(vars) == 0 {
		return g.record()
	}
	v := vars[g.Pick(len(vars), "assign-var")]
	if ints := g.Vars("int", true); len(ints) >= 2 && g.Chance(1, 8, "swap") {
		g.Tag("parallel-assign")
		a, b := ints[0], ints[len(ints)-1]
		return fmt.Sprintf("%s, %s = %s, (%s + %s)\n", a.Name, b.Name, b.Name, a.Name, g.IntExpr(1))
	}
	switch v.Type {
	case "int":
		switch g.Pick(4, "assign-int") {
		case 0:
			return fmt.Sprintf("%s = %s\n", v.Name, g.IntExpr(2))
		case 1:
			return fmt.Sprintf("%s %s= %s\n", v.Name, g.OneOf("aop", "+", "-", "*", "^", "|", "&"), g.IntExpr(1))
		case 2:
			return v.Name + "++\n"
		default:
			return v.Name + "--\n"
		}
	case "float64":
		if g.Bool("assign-float") {
			return fmt.Sprintf("%s = %s\n", v.Name, g.floatExpr(2))
		}
		return fmt.Sprintf("%s %s= %s\n", v.Name, g.OneOf("fop", "+", "-", "*"), g.floatExpr(1))
	case "string":
		if g.Bool("assign-str") {
			// at most one variable on the right, and literals only after +=: a string that is
			// concatenated with itself inside nested loops grows exponentially (the thorough tier
			// reached 40 GB and the OOM killer)
			return fmt.Sprintf("%s = %s + %s\n", v.Name, g.StrExpr(0), g.OneOf("str-suffix", `"a"`, `"ab"`, `""`, `"é"`))
		}
		return fmt.Sprintf("%s += %s\n", v.Name, g.OneOf("str-suffix", `"a"`, `"ab"`, `"x\ty"`, `"é"`))
	case "bool":
		return fmt.Sprintf("%s = %s\n", v.Name, g.boolExpr(2))
	case "[]int":
		g.Tag("slice-op")
		switch g.Pick(4, "slice-op") {
		case 0:
			return fmt.Sprintf("%s = append(%s, %s)\n", v.Name, v.Name, g.IntExpr(1))
		case 1:
			return fmt.Sprintf("%s[%d] = %s\n", v.Name, g.Pick(3, "idx"), g.IntExpr(1))
		case 2:
			return fmt.Sprintf("%s[%d] += %s\n", v.Name, g.Pick(3, "idx"), g.IntExpr(1))
		default:
			return fmt.Sprintf("rec.E(%d, len(%s), %s[%d], %s[1:%d])\n", g.Ev(), v.Name, v.Name, g.Pick(3, "idx"), v.Name, g.Int(1, 3, "hi"))
		}
	case "[]string":
		g.Tag("slice-op")
		if g.Bool("sslice-op") {
			return fmt.Sprintf("%s = append(%s, %s)\n", v.Name, v.Name, g.StrExpr(1))
		}
		return fmt.Sprintf("%s[%d] = %s\n", v.Name, g.Pick(3, "idx"), g.StrExpr(1))
	case "map[string]int":
		g.Tag("map-op")
		key := g.OneOf("map-key", `"a"`, `"b"`, `"c"`, `"zz"`)
		switch g.Pick(5, "map-op") {
		case 0:
			return fmt.Sprintf("%s[%s] = %s\n", v.Name, key, g.IntExpr(1))
		case 1:
			return fmt.Sprintf("%s[%s] += %s\n", v.Name, key, g.IntExpr(1))
		case 2:
			return fmt.Sprintf("delete(%s, %s)\n", v.Name, key)
		case 3:
			e, ok := g.Local("e"), g.Local("ok")
			return fmt.Sprintf("%s, %s := %s[%s]\nrec.E(%d, %s, %s, len(%s))\n", e, ok, v.Name, key, g.Ev(), e, ok, v.Name)
		default:
			return fmt.Sprintf("rec.E(%d, %s[%s], len(%s))\n", g.Ev(), v.Name, key, v.Name)
		}
	case "map[string][]int":
		g.Tag("map-of-slice-op")
		key := g.OneOf("ms-key", `"a"`, `"b"`, `"zz"`)
		if g.Bool("ms-op") {
			return fmt.Sprintf("%s[%s] = append(%s[%s], %s)\nrec.E(%d, %s)\n", v.Name, key, v.Name, key, g.IntExpr(1), g.Ev(), v.Name)
		}
		return fmt.Sprintf("rec.E(%d, %s[%s], len(%s[%s]), len(%s))\n", g.Ev(), v.Name, key, v.Name, key, v.Name)
	default:
		if g.typeName != "" && v.Type == "[]"+g.typeName {
			g.Tag("slice-of-struct-op")
			switch g.Pick(3, "ss-op") {
			case 0:
				return fmt.Sprintf("%s[%d].%s = %s\nrec.E(%d, %s)\n", v.Name, g.Pick(2, "ss-idx"), g.fa, g.IntExpr(1), g.Ev(), v.Name)
			case 1:
				return fmt.Sprintf("%s = append(%s, %s{%s, \"n\", 2.5, nil})\n", v.Name, v.Name, g.typeName, g.IntExpr(1))
			default:
				return fmt.Sprintf("rec.E(%d, %s[%d].%s, %s[0].%s, len(%s))\n", g.Ev(), v.Name, g.Pick(2, "ss-idx"), g.fb, v.Name, g.fd, v.Name)
			}
		}
		if v.Type == g.typeName && g.typeName != "" {
			g.Tag("struct-op")
			switch g.Pick(5, "struct-op") {
			case 0:
				return fmt.Sprintf("%s.%s = %s\n", v.Name, g.fa, g.IntExpr(1))
			case 1:
				return fmt.Sprintf("%s.%s += %s\n", v.Name, g.fb, g.OneOf("str-suffix", `"a"`, `"ab"`, `"x\ty"`, `"é"`))
			case 2:
				return fmt.Sprintf("%s.%s = %s\n", v.Name, g.fc, g.floatExpr(1))
			case 3:
				// struct values are copied on assignment
				c := g.Local("cp")
				return fmt.Sprintf("%s := %s\n%s.%s = %s.%s + 100\nrec.E(%d, %s.%s, %s.%s, %s.%s)\n", c, v.Name, c, g.fa, c, g.fa, g.Ev(), c, g.fa, v.Name, g.fa, c, g.fb)
			default:
				return fmt.Sprintf("%s.%s = append(%s.%s, %s.%s)\nrec.E(%d, %s)\n", v.Name, g.fd, v.Name, g.fd, v.Name, g.fa, g.Ev(), v.Name)
			}
		}
	}
	return g.record()
}

func (g *gen) stmts(n int) string {
	var b strings.Builder
	for i := 0; i < n && g.Budget > 0; i++ {
		b.WriteString(g.stmt())
	}
	return b.String()
}

func (g *gen) block(n int) string {
	g.Push()
	defer g.Pop()
	s := ""
	if g.Chance(1, 2, "block-local") {
		s += g.declLocal()
	}
	s += g.stmts(n)
	if s == "" {
		s = g.record()
	}
	return "{\n" + progen.Indent(s) + "}"
}

func (g *gen) stmt() string {
	g.Budget--
	if g.nesting >= maxNest || g.Budget <= 0 {
		if g.Bool("leaf") {
			return g.record()
		}
		return g.assign()
	}
	g.nesting++
	defer func() { g.nesting-- }()
	k := g.Pick(22, "stmt")
	switch {
	case k <= 2:
		return g.record()
	case k <= 6:
		return g.assign()
	case k <= 8:
		return g.declLocal()
	case k <= 10:
		return g.ifStmt()
	case k == 11:
		return g.forStmt()
	case k == 12:
		return g.rangeStmt()
	case k == 13:
		return g.switchStmt()
	case k <= 15:
		return g.jumpStmt()
	case k == 16:
		return g.closureStmt()
	case k == 17:
		return g.callStmt()
	case k == 18:
		return g.deferRecoverStmt()
	case k == 19 && g.inFunc == "int":
		g.Tag("return-nested")
		ev := g.Ev()
		g.ntEvs = append(g.ntEvs, fmt.Sprint(ev))
		return fmt.Sprintf("if %s {\n\trec.E(%d)\n\treturn %s\n}\n", g.boolExpr(1), ev, g.IntExpr(1))
	case k == 20:
		return g.block(g.Int(1, 3, "blk-n")) + "\n"
	default:
		return g.ifStmt()
	}
}

func (g *gen) ifStmt() string {
	g.Tag("if")
	var b strings.Builder
	g.Push()
	defer g.Pop()
	if g.Chance(1, 3, "if-init") {
		g.Tag("if-init")
		name := g.Local("h")
		fmt.Fprintf(&b, "if %s := %s; %s %s %s ", name, g.IntExpr(2), name, g.OneOf("cmp", "<", ">", "==", "!=", "<=", ">="), g.IntExpr(1))
		g.Declare(progen.Var{Name: name, Type: "int"})
	} else {
		fmt.Fprintf(&b, "if %s ", g.boolExpr(2))
	}
	b.WriteString(g.block(g.Int(1, 3, "then-n")))
	switch g.Pick(3, "else") {
	case 0:
		b.WriteString("\n")
	case 1:
		b.WriteString(" else " + g.block(g.Int(1, 3, "else-n")) + "\n")
	default:
		g.Tag("else-if")
		b.WriteString(" else " + strings.TrimRight(g.ifStmt(), "\n") + "\n")
	}
	return b.String()
}

func (g *gen) loopBody(pre string, n int) string {
	g.inLoop++
	defer func() { g.inLoop-- }()
	g.Push()
	defer g.Pop()
	return "{\n" + progen.Indent(pre+g.stmts(n)) + "}"
}

func (g *gen) forStmt() string {
	n := g.Int(0, 4, "for-n")
	label := ""
	if g.labels && g.Chance(1, 3, "label") {
		// a label that no statement refers to is legal only if used: refer to it with a guarded break
		label = g.Local("L")
		g.Tag("labeled-loop")
	}
	lab, use := "", ""
	if label != "" {
		lab = label + ":\n"
		use = fmt.Sprintf("if %s {\n\tbreak %s\n}\n", g.boolExpr(1), label)
	}
	switch g.Pick(3, "for-form") {
	case 0:
		g.Tag("for-3clause")
		i := g.Local("i")
		g.Push()
		defer g.Pop()
		g.Declare(progen.Var{Name: i, Type: "int", ReadOnly: true})
		return fmt.Sprintf("%sfor %s := 0; %s < %d; %s++ %s\n", lab, i, i, n, i, g.loopBody(use, g.Int(1, 4, "for-body")))
	case 1:
		g.Tag("for-cond")
		c := g.Local("c")
		g.Push()
		defer g.Pop()
		g.Declare(progen.Var{Name: c, Type: "int", ReadOnly: true})
		return fmt.Sprintf("%s := 0\n%sfor %s < %d %s\n", c, lab, c, n, g.loopBody(c+"++\n"+use, g.Int(1, 4, "for-body")))
	default:
		g.Tag("for-infinite")
		c := g.Local("c")
		g.Push()
		defer g.Pop()
		g.Declare(progen.Var{Name: c, Type: "int", ReadOnly: true})
		return fmt.Sprintf("%s := 0\n%sfor %s\n", c, lab, g.loopBody(fmt.Sprintf("%s++\nif %s > %d {\n\tbreak\n}\n%s", c, c, n, use), g.Int(1, 4, "for-body")))
	}
}

func (g *gen) rangeStmt() string {
	g.Push()
	defer g.Pop()
	k, v := g.Local("k"), g.Local("e")
	switch g.Pick(5, "range-kind") {
	case 0:
		g.Tag("range-slice")
		head := fmt.Sprintf("for %s, %s := range []int{%s, 5, %s, 1}[:%d] ", k, v, g.IntExpr(1), g.IntExpr(1), g.Int(0, 4, "slice-len"))
		g.Declare(progen.Var{Name: k, Type: "int", ReadOnly: true})
		g.Declare(progen.Var{Name: v, Type: "int"})
		return head + g.loopBody(fmt.Sprintf("rec.E(%d, %s, %s)\n", g.Ev(), k, v), g.Int(0, 3, "range-body")) + "\n"
	case 1:
		g.Tag("range-slice-var")
		vars := g.Vars("[]int", false)
		if len(vars) == 0 {
			return g.record()
		}
		s := vars[g.Pick(len(vars), "range-which")]
		// appends made by the body are not seen by the loop: range evaluates its operand once
		head := fmt.Sprintf("for _, %s := range %s ", v, s.Name)
		g.Declare(progen.Var{Name: v, Type: "int"})
		return head + g.loopBody(fmt.Sprintf("rec.E(%d, %s)\n", g.Ev(), v), g.Int(0, 2, "range-body")) + "\n"
	case 2:
		g.Tag("range-string")
		g.Declare(progen.Var{Name: k, Type: "int", ReadOnly: true})
		head := fmt.Sprintf("for %s := range %s ", k, g.OneOf("range-str", `"aé😀z"`, `""`, `"ab"`))
		return head + g.loopBody(fmt.Sprintf("rec.E(%d, %s)\n", g.Ev(), k), g.Int(0, 2, "range-body")) + "\n"
	case 3:
		g.Tag("range-map")
		acc := g.Local("acc")
		return fmt.Sprintf("%s := 0\nfor %s, %s := range map[int]int{1: %s, 2: 5, 7: %s} {\n\t%s += %s*3 + %s\n}\nrec.E(%d, %s)\n",
			acc, k, v, g.IntExpr(1), g.IntExpr(1), acc, k, v, g.Ev(), acc)
	default:
		g.Tag("range-key-only")
		g.Declare(progen.Var{Name: k, Type: "int", ReadOnly: true})
		head := fmt.Sprintf("for %s := range []string{\"a\", \"b\", \"c\"} ", k)
		return head + g.loopBody(fmt.Sprintf("rec.E(%d, %s)\n", g.Ev(), k), g.Int(0, 2, "range-body")) + "\n"
	}
}

func (g *gen) caseBody(last bool) string {
	g.Push()
	defer g.Pop()
	s := g.record() + g.stmts(g.Int(0, 2, "case-n"))
	if !last && g.Chance(1, 4, "fallthrough") {
		g.Tag("fallthrough")
		s += "fallthrough\n"
	}
	return progen.Indent(s)
}

func (g *gen) switchStmt() string {
	g.Push()
	defer g.Pop()
	// inside a switch an unlabeled break leaves the switch, continue still refers to the loop
	savedLoop := g.inLoop
	kind := g.Pick(3, "switch-kind")
	ncase := g.Int(1, 4, "ncase")
	defPos := -1
	if g.Chance(2, 3, "has-default") {
		defPos = g.Pick(ncase+1, "default-pos")
		if defPos < ncase {
			g.Tag("default-not-last")
		}
	}
	init, useInit := "", ""
	if g.Chance(1, 4, "switch-init") {
		g.Tag("switch-init")
		name := g.Local("w")
		init = fmt.Sprintf("%s := %s; ", name, g.IntExpr(1))
		useInit = "\t_ = " + name + "\n"
		g.Declare(progen.Var{Name: name, Type: "int"})
	}
	var head string
	var cases []string
	switch kind {
	case 0:
		g.Tag("switch-int")
		head = "switch " + init + g.IntExpr(2)
		perm := rapid.Permutation([]int{-2, -1, 0, 1, 2, 3, 4, 5, 6, 7, 10}).Draw(g.T, "case-consts")
		pi := 0
		for i := 0; i < ncase; i++ {
			n := 1
			if g.Chance(1, 4, "multi-const") {
				n = 2
			}
			var l []string
			for j := 0; j < n; j++ {
				l = append(l, fmt.Sprint(perm[pi]))
				pi++
			}
			cases = append(cases, "case "+strings.Join(l, ", ")+":")
		}
	case 1:
		g.Tag("switch-string")
		head = "switch " + init + g.StrExpr(1)
		perm := rapid.Permutation([]string{`""`, `"a"`, `"ab"`, `"b"`, `"héé"`, `"aa"`, `"r"`}).Draw(g.T, "case-strs")
		for i := 0; i < ncase; i++ {
			cases = append(cases, "case "+perm[i]+":")
		}
	default:
		g.Tag("switch-notag")
		head = "switch " + strings.TrimSuffix(init, " ")
		for i := 0; i < ncase; i++ {
			cases = append(cases, "case "+g.boolExpr(1)+":")
		}
	}
	var b strings.Builder
	total := len(cases)
	if defPos >= 0 {
		total++
	}
	ci := 0
	for i := 0; i < total; i++ {
		if i == defPos {
			b.WriteString("default:\n")
		} else {
			b.WriteString(cases[ci] + "\n")
			ci++
		}
		if i == 0 {
			b.WriteString(useInit)
		}
		b.WriteString(g.caseBody(i == total-1))
	}
	g.inLoop = savedLoop
	return strings.TrimRight(head, " ") + " {\n" + b.String() + "}\n"
}

// jumpStmt: guarded unlabeled break / continue of the innermost loop.
func (g *gen) jumpStmt() string {
	if g.inLoop == 0 {
		return g.record()
	}
	kind := g.OneOf("jump", "break", "continue")
	g.Tag("jump:" + kind)
	ev := g.Ev()
	g.ntEvs = append(g.ntEvs, fmt.Sprint(ev))
	return fmt.Sprintf("if %s {\n\trec.E(%d)\n\t%s\n}\n", g.boolExpr(1), ev, kind)
}

// closureStmt: a closure capturing (and modifying) locals, called several times.
func (g *gen) closureStmt() string {
	g.Tag("closure")
	f := g.Local("fn")
	ints := g.Vars("int", true)
	switch g.Pick(3, "closure-kind") {
	case 0: // counter
		c := g.Local("cnt")
		return fmt.Sprintf("%s := %s\n%s := func() int {\n\t%s += 2\n\treturn %s\n}\nrec.E(%d, %s(), %s(), %s)\n", c, g.IntExpr(1), f, c, c, g.Ev(), f, f, c)
	case 1: // modifies an outer variable
		if len(ints) == 0 {
			return g.record()
		}
		v := ints[g.Pick(len(ints), "closure-var")]
		return fmt.Sprintf("%s := func(d int) {\n\t%s = %s*2 + d\n}\n%s(%s)\nrec.E(%d, %s)\n", f, v.Name, v.Name, f, g.IntExpr(1), g.Ev(), v.Name)
	default: // closures made in a loop capture the per-loop variable
		fs := g.Local("fs")
		i := g.Local("i")
		h := g.Local("h")
		return fmt.Sprintf("var %s []func() int\nfor %s := 0; %s < %d; %s++ {\n\t%s := %s * 10\n\t%s = append(%s, func() int { return %s + 1 })\n}\nfor _, %s := range %s {\n\trec.E(%d, %s())\n}\n",
			fs, i, i, g.Int(1, 3, "nclos"), i, h, i, fs, fs, h, f, fs, g.Ev(), f)
	}
}

func (g *gen) argOf(typ string) string {
	if typ == "func" {
		ints := g.Vars("int", false)
		q := g.Local("q")
		if len(ints) > 0 {
			return fmt.Sprintf("func(%s int) int { return %s*%d + %s }", q, q, g.Int(-2, 4, "fl-k"), ints[g.Pick(len(ints), "fl-var")].Name)
		}
		return fmt.Sprintf("func(%s int) int { return %s - 1 }", q, q)
	}
	return g.expr(typ, 1)
}

func (g *gen) callStmt() string {
	if len(g.funcs) == 0 {
		return g.record()
	}
	h := g.funcs[g.Pick(len(g.funcs), "call-which")]
	if g.inHelper && strings.HasPrefix(h.kind, "recover-") && knownFinding("F-C38-3") {
		// known finding: recovery depends on the call depth of the recovering function;
		// it is only called from the entry function (depth 2) while the finding is open
		vrec.Excluded("F-C38-3")
		g.Tag("avoided:F-C38-3")
		return g.record()
	}
	var args []string
	for _, p := range h.params {
		args = append(args, g.argOf(p))
	}
	call := h.name + "(" + strings.Join(args, ", ") + ")"
	g.Tag("call:" + h.kind)
	switch h.result {
	case "pair":
		a, b := g.Local("r"), g.Local("r")
		return fmt.Sprintf("%s, %s := %s\nrec.E(%d, %s, %s)\n", a, b, call, g.Ev(), a, b)
	case "func":
		f := g.Local("fn")
		return fmt.Sprintf("%s := %s\nrec.E(%d, %s(), %s())\n", f, call, g.Ev(), f, f)
	case "":
		return call + "\n"
	}
	return fmt.Sprintf("rec.E(%d, %s)\n", g.Ev(), call)
}

// deferRecoverStmt: a function literal that defers, maybe panics (explicitly or by a
// run-time error) and recovers; executed immediately.
func (g *gen) deferRecoverStmt() string {
	g.Tag("defer-recover")
	tag := fmt.Sprintf(`"d%d"`, g.Ev())
	var cause string
	pc := g.Pick(6, "panic-cause")
	if pc <= 3 && g.inHelper && knownFinding("F-C38-3") {
		// known finding: whether recover() stops the panic depends on the call depth of the
		// recovering function. Panicking defers are only generated at depth 2 (in the entry function).
		vrec.Excluded("F-C38-3")
		g.Tag("avoided:F-C38-3")
		pc = 5
	}
	switch pc {
	case 0:
		cause = fmt.Sprintf("panic(%s)\n", g.OneOf("panic-val", `"boom"`, "42", "2.5", "true"))
		g.Tag("panic:explicit")
	case 1:
		z := g.Local("z")
		cause = fmt.Sprintf("%s := 0\nrec.E(%d, 10 / %s)\n", z, g.Ev(), z)
		g.Tag("panic:div0")
	case 2:
		s, i := g.Local("s"), g.Local("i")
		cause = fmt.Sprintf("%s := []int{1, 2}\n%s := %d\nrec.E(%d, %s[%s])\n", s, i, g.Int(2, 5, "oob"), g.Ev(), s, i)
		g.Tag("panic:index")
	case 3:
		m := g.Local("m")
		cause = fmt.Sprintf("var %s map[string]int\n%s[\"k\"] = 1\n", m, m)
		g.Tag("panic:nilmap")
	default:
		cause = g.record()
		g.Tag("no-panic")
	}
	inner := fmt.Sprintf("defer func() {\n\trec.R(%s, recover())\n}()\n", tag)
	if g.Chance(1, 3, "two-defers") {
		g.Tag("defer-order")
		inner += fmt.Sprintf("defer rec.E(%d, %s)\n", g.Ev(), g.IntExpr(1)) // argument evaluated at the defer statement
		inner += fmt.Sprintf("defer func() {\n\trec.E(%d)\n}()\n", g.Ev())
	}
	inner += g.record() + cause + fmt.Sprintf("rec.E(%d)\n", g.Ev())
	return "func() {\n" + progen.Indent(inner) + "}()\n" + g.record()
}

// ---- package-level declarations

func (g *gen) helperFunc() {
	name := g.Top("f")
	saved := g.SaveScopes()
	savedLoop, savedNest := g.inLoop, g.nesting
	g.inLoop, g.nesting = 0, 0
	g.inHelper = true
	defer func() {
		g.inLoop, g.nesting = savedLoop, savedNest
		g.inHelper = false
		g.RestoreScopes(saved)
	}()
	switch g.Pick(6, "helper-kind") {
	case 0, 1: // (int, float64|string) int with control flow and early returns
		p2 := g.OneOf("helper-p2", "float64", "string", "bool")
		g.inFunc = "int"
		g.Declare(progen.Var{Name: "a", Type: "int"})
		g.Declare(progen.Var{Name: "b", Type: p2})
		body := g.stmts(g.Int(2, 5, "func-n"))
		body += fmt.Sprintf("rec.E(%d, a, b)\nreturn %s\n", g.Ev(), g.IntExpr(2))
		g.inFunc = ""
		g.Decls = append(g.Decls, fmt.Sprintf("func %s(a int, b %s) int {\n%s}", name, p2, progen.Indent(body)))
		g.funcs = append(g.funcs, helper{name, []string{"int", p2}, "int", "flow"})
	case 2: // two results
		g.Declare(progen.Var{Name: "a", Type: "int"})
		g.Declare(progen.Var{Name: "s", Type: "string"})
		body := g.stmts(g.Int(1, 3, "func-n"))
		body += fmt.Sprintf("return %s, %s\n", g.IntExpr(2), g.StrExpr(2))
		g.Decls = append(g.Decls, fmt.Sprintf("func %s(a int, s string) (int, string) {\n%s}", name, progen.Indent(body)))
		g.funcs = append(g.funcs, helper{name, []string{"int", "string"}, "pair", "two-results"})
	case 3: // recursion
		k := g.Int(-2, 5, "rec-k")
		g.Decls = append(g.Decls, fmt.Sprintf("func %s(n int) int {\n\tif n <= 0 {\n\t\treturn %d\n\t}\n\treturn n*2 + %s(n%%7-1)\n}", name, k, name))
		g.funcs = append(g.funcs, helper{name, []string{"int"}, "int", "recursive"})
	case 4: // function-typed parameter
		g.Decls = append(g.Decls, fmt.Sprintf("func %s(f func(int) int, n int) int {\n\treturn f(n) + f(n+%d)*2\n}", name, g.Int(0, 3, "ap-k")))
		g.funcs = append(g.funcs, helper{name, []string{"func", "int"}, "int", "func-param"})
	default: // closure maker
		g.Decls = append(g.Decls, fmt.Sprintf("func %s(k int) func() int {\n\tc := k\n\treturn func() int {\n\t\tc += k + %d\n\t\treturn c\n\t}\n}", name, g.Int(0, 3, "mk-k")))
		g.funcs = append(g.funcs, helper{name, []string{"int"}, "func", "closure-maker"})
	}
}

// deferReturnFunc: a declared function with an UNNAMED result whose return operand is a
// bare variable, parameter, element or field, and deferred closures that assign to that
// same storage (and to other locals) after the return operand was evaluated. Go copies
// the operand into the result before the deferred functions run; only what is reachable
// through a returned slice stays shared. No panic is involved (that is F-C38-2's domain).
func (g *gen) deferReturnFunc() {
	name := g.Top("h")
	saved := g.SaveScopes()
	savedLoop, savedNest := g.inLoop, g.nesting
	g.inLoop, g.nesting = 0, 0
	g.inHelper = true
	defer func() {
		g.inLoop, g.nesting = savedLoop, savedNest
		g.inHelper = false
		g.RestoreScopes(saved)
	}()
	hasT := g.typeName != ""
	// locals of every kind of the subset
	body := fmt.Sprintf("x := a*%d + %d\nt := s + %s\ny := float64(a) + %s\nq := []int{a, %d, 3}\n",
		g.Int(-2, 4, "dr-k"), g.Int(-5, 9, "dr-c"), g.OneOf("dr-s", `"k"`, `""`, `"é"`), g.OneOf("dr-f", "0.5", "2.0", "-1.25"), g.Int(0, 9, "dr-q"))
	g.Declare(progen.Var{Name: "a", Type: "int"})
	g.Declare(progen.Var{Name: "s", Type: "string"})
	g.Declare(progen.Var{Name: "x", Type: "int"})
	g.Declare(progen.Var{Name: "t", Type: "string"})
	g.Declare(progen.Var{Name: "y", Type: "float64"})
	g.Declare(progen.Var{Name: "q", Type: "[]int"})
	use := "_, _, _, _ = x, t, y, q\n"
	if hasT {
		body += fmt.Sprintf("p := %s{a, s, 1.5, []int{a, 2}}\n_ = p\n", g.typeName)
		g.Declare(progen.Var{Name: "p", Type: g.typeName})
	}
	body += use
	// the operand of the return statement
	type operand struct{ expr, typ, modify, kind string }
	ops := []operand{
		{"x", "int", "x = x*2 + 1\n", "local"},
		{"a", "int", "a += 7\n", "param"},
		{"q[0]", "int", "q[0] = q[0] + 50\n", "element"},
		{"t", "string", "t += \"!\"\n", "local"},
		{"s", "string", "s = s + s + \"?\"\n", "param"},
		{"y", "float64", "y = y*2.0 + 1.5\n", "local"},
		{"q", "[]int", "q[1] = q[1] - 9\nq = append(q, 4)\n", "slice"},
		{"(x + 0)", "int", "x = x - 11\n", "expression(control)"},
	}
	if hasT {
		ops = append(ops,
			operand{"p." + g.fa, "int", "p." + g.fa + " += 30\n", "field"},
			operand{"p." + g.fb, "string", "p." + g.fb + " += \"#\"\n", "field"},
			operand{"p", g.typeName, "p." + g.fa + " = p." + g.fa + "*3 + 1\np." + g.fc + " = 9.5\n", "struct"})
	}
	op := ops[g.Pick(len(ops), "dr-operand")]
	g.Tag("defer-modifies-returned-operand:" + op.kind)
	ndefer := g.Int(1, 2, "dr-ndefer")
	which := g.Pick(ndefer, "dr-which") // the defer that modifies the operand
	mid := ""
	for i := 0; i < ndefer; i++ {
		d := ""
		if g.Chance(1, 3, "dr-recover") {
			d += "recover()\n" // no panic is in flight: returns nil
		}
		if i == which {
			d += op.modify
		}
		// and other variables
		for k := g.Int(0, 2, "dr-others"); k > 0; k-- {
			d += g.OneOf("dr-other", "x += 3\n", "t = t + \"~\"\n", "y -= 0.5\n", "q[2] = q[2] * 2\n", "a--\n")
		}
		ev := g.Ev()
		if i == which {
			g.deferEvs = append(g.deferEvs, fmt.Sprint(ev))
		}
		d += fmt.Sprintf("rec.E(%d, x, t, y)\n", ev)
		mid += "defer func() {\n" + progen.Indent(d) + "}()\n"
		if i == 0 && g.Bool("dr-between") {
			mid += g.stmts(g.Int(1, 2, "dr-n"))
		}
	}
	if g.Bool("dr-loop") {
		i := g.Local("i")
		mid += fmt.Sprintf("for %s := 1; %s <= %d; %s++ {\n\tx += %s\n\tq[1] += %s\n}\n", i, i, g.Int(1, 4, "dr-loop-n"), i, i, i)
	}
	body += mid + fmt.Sprintf("rec.E(%d, x, t, y, q)\nreturn %s\n", g.Ev(), op.expr)
	g.Decls = append(g.Decls, fmt.Sprintf("func %s(a int, s string) %s {\n%s}", name, op.typ, progen.Indent(body)))
	g.funcs = append(g.funcs, helper{name, []string{"int", "string"}, op.typ, "defer-after-return"})
}

// recoverFunc: a declared function that recovers its own panic; called from the entry
// function only. With results: Go returns the current values of the (named) results,
// as modified by deferred closures.
func (g *gen) recoverFunc() {
	name := g.Top("g")
	if knownFinding("F-C38-2") {
		// known finding: result values of a function whose deferred closures modify a named
		// result or recover a panic. Generated without results while the finding is open.
		vrec.Excluded("F-C38-2")
		g.Tag("avoided:F-C38-2")
		body := fmt.Sprintf("defer func() {\n\trec.R(\"g\", recover())\n}()\nr := %d\nif d == 0 {\n\tpanic(\"zero\")\n}\nr = 100 / d\nrec.E(%d, r+1)\n", g.Int(1, 9, "r0"), g.Ev())
		g.Decls = append(g.Decls, fmt.Sprintf("func %s(d int) {\n%s}", name, progen.Indent(body)))
		g.funcs = append(g.funcs, helper{name, []string{"int"}, "", "recover-no-result"})
		return
	}
	g.Tag("named-result-set-in-defer")
	body := fmt.Sprintf("defer func() {\n\trec.R(\"g\", recover())\n\tr = r + %d\n}()\nr = %d\nif d == 0 {\n\tpanic(\"zero\")\n}\nr = 100 / d\nreturn r + 1\n", g.Int(1, 9, "rk"), g.Int(1, 9, "r0"))
	g.Decls = append(g.Decls, fmt.Sprintf("func %s(d int) (r int) {\n%s}", name, progen.Indent(body)))
	g.funcs = append(g.funcs, helper{name, []string{"int"}, "int", "recover-named-result"})
}

// knownFinding reports whether finding id is listed as known and its exclusion is not switched off
// for a test run of a proposed fix: VERIF_IGNORE_KNOWN=F-C38-1,F-C38-4 ./check C38 quick
func knownFinding(id string) bool {
	return vrec.Known(id) && !strings.Contains(","+os.Getenv("VERIF_IGNORE_KNOWN")+",", ","+id+",")
}

// Generate builds one C38 program.
func Generate(t *rapid.T, px string) gobatch.Program {
	g := &gen{G: progen.New(t, px, 30)}
	g.labels = !knownFinding("F-C38-1")
	if g.Chance(2, 3, "has-type") {
		g.typeName = g.Top("T")
		g.fa, g.fb, g.fc, g.fd = "a", "b", "c", "d"
		if knownFinding("F-C38-4") {
			// known finding: lowercase field names cannot be selected. Capitalised while it is open.
			vrec.Excluded("F-C38-4")
			g.fa, g.fb, g.fc, g.fd = "A", "B", "C", "D"
		}
		g.Decls = append(g.Decls, fmt.Sprintf("type %s struct {\n\t%s int\n\t%s string\n\t%s float64\n\t%s []int\n}", g.typeName, g.fa, g.fb, g.fc, g.fd))
	}
	nf := g.Int(0, 3, "nfuncs")
	for i := 0; i < nf; i++ {
		g.helperFunc()
	}
	if g.Chance(1, 3, "recover-func") {
		g.recoverFunc()
	}
	var drFuncs []helper
	for n := g.Int(0, 2, "defer-return-funcs"); n > 0; n-- {
		g.deferReturnFunc()
		drFuncs = append(drFuncs, g.funcs[len(g.funcs)-1])
	}
	entry := g.Top("main")
	g.Declare(progen.Var{Name: "x", Type: "int"})
	g.Declare(progen.Var{Name: "y", Type: "float64"})
	g.Declare(progen.Var{Name: "s", Type: "string"})
	body := fmt.Sprintf("x := %d\ny := %s\ns := %s\n_, _, _ = x, y, s\n", g.Int(-2, 9, "x0"), g.OneOf("y0", "0.5", "2.0", "-1.25"), g.OneOf("s0", `"a"`, `""`, `"ab"`))
	body += g.stmts(g.Int(3, 9, "main-n"))
	for _, f := range g.funcs {
		_ = f
		body += g.callStmt()
	}
	for _, f := range drFuncs {
		body += fmt.Sprintf("rec.E(%d, %s(%s, %s))\n", g.Ev(), f.name, g.IntExpr(1), g.StrExpr(1))
	}
	body += fmt.Sprintf("rec.E(%d, x, y, s)\n", g.Ev())
	g.Decls = append(g.Decls, fmt.Sprintf("func %s() {\n%s}", entry, progen.Indent(body)))
	for i, d := range g.Decls {
		g.Decls[i] = strings.ReplaceAll(d, "(--", "(- -") // unary minus of a negative literal is not a decrement
	}
	return gobatch.Program{Decls: g.Decls, Entry: entry, Tags: g.TagList(), Interp: "classic",
		Meta: map[string]string{"nt-events": strings.Join(g.ntEvs, ","), "defer-events": strings.Join(g.deferEvs, ",")}}
}
